package main

// Stream "threads": independent oracle for C13 — chrooted operations never leak their root into the
// rest of the process — on the real code.
//
//   A  thread fate through unshare.Go (hook chrootarchive.VerifUnshareGo): for a table of flag sets ×
//      setupfn {nil, ok, failing} × fn {nil, ok, sabotaged restore}, the thread the callbacks ran on
//      must stay (and be restored) or disappear exactly as the reference model below says; the error
//      returned and the number of callback calls must be the model's; afterwards no task of the
//      process may differ from the startup thread in any namespace, root, cwd, umask, or fail to
//      follow a chdir (private fs_struct).
//   B  N ∈ {1,4,16} concurrent chrooted calls on distinct roots (some roots unusable, some archives
//      failing midway, some calls held inside their jails by gated readers) × M observer goroutines ×
//      GOMAXPROCS ∈ {1,2,16}: no observation of root / cwd / canary / umask ever changes; at
//      quiescence every task equals the startup thread.
//   C  the concurrent run's results (trees, produced archives, errors, sizes) equal those of a run
//      one call at a time on rebuilt identical inputs.
//
// Replay case text: "fate <seed> <procs> <spinners> <group>" or "obs <seed> <calls> <observers> <procs>".

import (
	"archive/tar"
	"bytes"
	"compress/gzip"
	"encoding/json"
	"fmt"
	"os"
	"sort"
	"strings"
	"time"
)

func init() {
	subcmds["threads"] = runThreads
}

// ---- reference model of unshare.Go (written from the specification, not from the code) ----

// Linux clone flags, spelled out.
const (
	thrCLONE_FS        = 0x00000200
	thrCLONE_FILES     = 0x00000400
	thrCLONE_NEWNS     = 0x00020000
	thrCLONE_SYSVSEM   = 0x00040000
	thrCLONE_NEWCGROUP = 0x02000000
	thrCLONE_NEWUTS    = 0x04000000
	thrCLONE_NEWIPC    = 0x08000000
	thrCLONE_NEWUSER   = 0x10000000
	thrCLONE_NEWPID    = 0x20000000
	thrCLONE_NEWNET    = 0x40000000
	thrCLONE_NEWTIME   = 0x00000080
)

// every effect of these flags can be undone with setns(2)
const thrReversible = thrCLONE_NEWCGROUP | thrCLONE_NEWNET | thrCLONE_NEWUTS | thrCLONE_NEWPID | thrCLONE_NEWTIME

type thrExpect struct {
	ErrNil     bool
	SetupCalls int32
	FnCalls    int32
	Released   bool // the thread goes back to the pool (must stay, restored); otherwise it must disappear
}

// thrModel: unshareOK / restorePossible are what unshare(flags) and the setns calls back into the
// saved namespaces do in this environment (measured on a throw-away thread: e.g. a multi-threaded
// process may not setns into a time namespace); sabotaged: the harness made the restore impossible.
func thrModel(c thrFateCase, unshareOK, restorePossible, sabotaged bool) thrExpect {
	var e thrExpect
	e.ErrNil = unshareOK && c.Setup != "fail"
	if unshareOK && c.Setup != "nil" {
		e.SetupCalls = 1
	}
	if e.ErrNil && c.Fn != "nil" {
		e.FnCalls = 1
	}
	restoreOK := restorePossible && !(e.FnCalls == 1 && c.Fn == "sabotage" && sabotaged && c.Flags&thrReversible != 0)
	e.Released = c.Flags&^thrReversible == 0 && restoreOK
	return e
}

type thrFlagSet struct {
	Name  string
	Flags int
}

var thrFlagSets = []thrFlagSet{
	{"0", 0},
	{"NEWUTS", thrCLONE_NEWUTS},
	{"FS", thrCLONE_FS},
	{"NEWNS|FS", thrCLONE_NEWNS | thrCLONE_FS},
	{"FS|NEWUTS", thrCLONE_FS | thrCLONE_NEWUTS},
	{"NEWNET", thrCLONE_NEWNET},
	{"NEWUTS|NEWNET", thrCLONE_NEWUTS | thrCLONE_NEWNET},
	// beyond the required table
	{"NEWNS", thrCLONE_NEWNS},
	{"NEWIPC", thrCLONE_NEWIPC},
	{"FILES", thrCLONE_FILES},
	{"SYSVSEM|NEWUTS", thrCLONE_SYSVSEM | thrCLONE_NEWUTS},
	{"NEWCGROUP", thrCLONE_NEWCGROUP},
	{"NEWPID", thrCLONE_NEWPID},
	{"NEWTIME", thrCLONE_NEWTIME},
	{"NEWUSER|FS", thrCLONE_NEWUSER | thrCLONE_FS},         // unshare fails in a multi-threaded process; irreversible flags requested
	{"NEWUSER|NEWUTS", thrCLONE_NEWUSER | thrCLONE_NEWUTS}, // the same, mixed with a reversible flag
	{"NEWNS|NEWNET", thrCLONE_NEWNS | thrCLONE_NEWNET},
}

func thrFlagName(f int) string {
	for _, s := range thrFlagSets {
		if s.Flags == f {
			return s.Name
		}
	}
	return fmt.Sprintf("%#x", f)
}

func thrGenFateBatch(seed uint64, procs, spinners, group int) thrFateBatch {
	r := &Rng{s: seed}
	b := thrFateBatch{Procs: procs, Spinners: spinners, Group: group}
	var tail []thrFateCase
	for _, fs := range thrFlagSets {
		for _, s := range []string{"nil", "ok", "fail"} {
			for _, f := range []string{"nil", "ok"} {
				c := thrFateCase{Flags: fs.Flags, Setup: s, Fn: f}
				c.WaitGone = fs.Flags&^thrReversible != 0
				b.Cases = append(b.Cases, c)
			}
		}
		// restore made impossible from inside fn: only meaningful when something has to be restored
		if fs.Flags != 0 && fs.Flags&^thrReversible == 0 && fs.Flags&(thrCLONE_NEWUTS|thrCLONE_NEWNET) != 0 {
			tail = append(tail, thrFateCase{Flags: fs.Flags, Setup: r.pick([]string{"nil", "ok"}), Fn: "sabotage", WaitGone: true})
		}
	}
	// repeat the calls of the chroot path itself a few more times
	for i := 0; i < 6; i++ {
		b.Cases = append(b.Cases, thrFateCase{Flags: thrCLONE_NEWNS | thrCLONE_FS, Setup: r.pick([]string{"ok", "fail", "ok"}), Fn: "ok", WaitGone: true})
	}
	for i := len(b.Cases) - 1; i > 0; i-- {
		k := r.intn(i + 1)
		b.Cases[i], b.Cases[k] = b.Cases[k], b.Cases[i]
	}
	b.Cases = append(b.Cases, tail...)
	return b
}

func thrJudgeFate(res *Result, caseText string, b *thrFateBatch, jr *JobResult) {
	bad := func(clause, msg string) {
		res.problem(Problem{Kind: "oracle", Stream: "threads", Case: caseText, Msg: "C13/A " + clause + ": " + msg})
	}
	if jr.Out == "panic" || jr.Out == "hang" {
		bad("run", "fate batch "+jr.Out+": "+jr.Err)
		return
	}
	var out thrFateOut
	if err := json.Unmarshal([]byte(jr.Extra), &out); err != nil || len(out.Obs) != len(b.Cases) {
		res.SetupError = "threads: unreadable fate result: " + truncate(jr.Extra, 200)
		return
	}
	if out.PreDirty > 0 {
		res.count("A:batch started with tainted threads left by an earlier job of the same arena child")
	}
	if out.MainMoved > 0 {
		bad("startup-thread", fmt.Sprintf("the main goroutine left the startup thread %d times: internal/unshare no longer pins it", out.MainMoved))
	}
	for _, d := range out.Dirty {
		bad("quiescence", "a task differs from the startup thread after all callbacks are over: "+d)
	}
	for _, d := range out.FsShare {
		bad("fs-sharing", "a task with a private fs_struct is alive after all callbacks are over: "+d)
	}
	for _, d := range out.FdShare {
		bad("fd-sharing", "a task with a private descriptor table is alive after all callbacks are over: "+d)
	}
	exp := make([]thrExpect, len(b.Cases))
	for i, c := range b.Cases {
		exp[i] = thrModel(c, out.Obs[i].ProbeOK, out.Obs[i].ProbeRestoreOK, out.Obs[i].SabotageOK)
	}
	for i, c := range b.Cases {
		o := out.Obs[i]
		e := exp[i]
		name := fmt.Sprintf("case %d flags=%s setup=%s fn=%s", i, thrFlagName(c.Flags), c.Setup, c.Fn)
		res.Evaluations++
		res.Compared++
		res.nontrivial(fmt.Sprintf("%d %s %s %d %d %d", c.Flags, c.Setup, c.Fn, b.Procs, b.Spinners, b.Group))
		fate := "unobservable"
		if o.Tid != 0 {
			fate = "stays"
			if o.Gone {
				fate = "dies"
			}
		}
		oc := "ok"
		if o.Err {
			oc = "err"
		}
		if !o.ProbeOK {
			oc += "(unshare fails)"
		}
		if !o.ProbeRestoreOK {
			oc += "(setns back impossible)"
		}
		res.count(fmt.Sprintf("A:%s setup=%s fn=%s → %s,thread %s", thrFlagName(c.Flags), c.Setup, c.Fn, oc, fate))
		res.count("A:fate:" + fate)
		if o.InsideDiff != "" {
			res.count("A:inside-callbacks differing ns: " + o.InsideDiff)
		}
		if o.Reused {
			res.count("A:released thread later seen running another goroutine")
		}
		if o.Err == e.ErrNil {
			bad("error", fmt.Sprintf("%s: Go returned err=%v (%s); the model says nil=%v", name, o.Err, o.ErrText, e.ErrNil))
		}
		if o.SetupCalls != e.SetupCalls {
			bad("setup-calls", fmt.Sprintf("%s: setupfn ran %d times, model %d", name, o.SetupCalls, e.SetupCalls))
		}
		if o.FnCalls != e.FnCalls {
			bad("fn-calls", fmt.Sprintf("%s: fn ran %d times, model %d (fn must run iff unshare and setupfn succeeded)", name, o.FnCalls, e.FnCalls))
		}
		if o.FnTimedOut {
			bad("fn-calls", name+": Go returned nil but fn did not run to completion within the ceiling")
		}
		if o.TidMismatch {
			bad("same-thread", name+": setupfn and fn ran on different threads")
		}
		if o.OnStartup {
			bad("startup-thread", name+": a callback ran on the startup thread")
		}
		if o.Tid == 0 {
			continue
		}
		if e.Released {
			if o.LinkDiff != "" {
				bad("restored", fmt.Sprintf("%s: thread %d was handed back but differs from the startup thread: %s", name, o.Tid, o.LinkDiff))
			}
			// a released thread may only die if a later (or, in a concurrent group, simultaneous) call
			// that must kill its thread may have run on it
			deadBy := o.DiedBefore
			if o.Gone {
				deadBy = o.Group + 1
			}
			if deadBy >= 0 {
				excused := false
				for k := range b.Cases {
					ok := out.Obs[k]
					if k != i && ok.Group >= o.Group && ok.Group < deadBy && !exp[k].Released && (ok.Tid == 0 || (ok.Tid == o.Tid && ok.Start == o.Start)) {
						excused = true
					}
				}
				if !excused {
					bad("released", fmt.Sprintf("%s: thread %d/%d disappeared (before group %d) although every flag is reversible and every restore succeeded, and no call that must kill its thread can have run on it", name, o.Tid, o.Start, deadBy))
				} else {
					res.count("A:released thread later taken down by an irreversible call")
				}
			}
		} else {
			if !o.Gone {
				bad("must-die", fmt.Sprintf("%s: thread %d/%d is still alive %d ms after its goroutine ended (irreversible flag or failed restore; err=%v, unshare ok=%v); its view: %s",
					name, o.Tid, o.Start, o.GoneMs, o.Err, o.ProbeOK, o.LinkDiff))
			} else {
				bk := "≤1ms"
				switch {
				case o.GoneMs > 100:
					bk = ">100ms"
				case o.GoneMs > 10:
					bk = "≤100ms"
				case o.GoneMs > 1:
					bk = "≤10ms"
				}
				res.count("A:time to disappear " + bk)
			}
		}
	}
}

// ---- scenario generator for B/C ----

var thrMtimes = []int64{1000000000, 1200000000, 1500000001, 1600000000}

func thrData(r *Rng, n int) string {
	b := make([]byte, n)
	for i := range b {
		b[i] = byte('a' + r.intn(26))
	}
	return string(b)
}

func thrGenTree(r *Rng, root string, rich bool) []Node {
	mt := int64(1400000000)
	next := func() int64 { mt += 7; return mt }
	ns := []Node{{Path: root, Kind: 'd', Perm: uint32(r.pick2(0o755, 0o700, 0o711)), Mtime: next()}}
	have := map[string]byte{root: 'd'}
	add := func(n Node) {
		if _, ok := have[n.Path]; ok {
			return
		}
		n.Mtime = next()
		have[n.Path] = n.Kind
		ns = append(ns, n)
	}
	k := r.intn(7)
	if rich {
		k += 3
		add(Node{Path: root + "/a", Kind: 'd', Perm: 0o755})
		add(Node{Path: root + "/a/f", Kind: 'r', Perm: 0o644, Data: thrData(r, 700)})
	}
	group := 0
	for i := 0; i < k; i++ {
		dir := root
		if r.chance(1, 2) {
			dir = root + "/" + r.pick([]string{"a", "b", "sub"})
			add(Node{Path: dir, Kind: 'd', Perm: uint32(r.pick2(0o755, 0o750, 0o2775)), Uid: r.pick2(0, 0, 1000), Gid: r.pick2(0, 0, 1000)})
		}
		p := dir + "/" + r.pick([]string{"f", "g", "h", "x", "y"})
		switch r.intn(10) {
		case 0, 1, 2, 3:
			add(Node{Path: p, Kind: 'r', Perm: uint32(r.pick2(0o644, 0o600, 0o4755)), Uid: r.pick2(0, 1000, 1000), Gid: r.pick2(0, 0, 1000), Data: thrData(r, r.pick2(0, 9, 1300))})
		case 4:
			add(Node{Path: p, Kind: 'd', Perm: 0o755})
		case 5, 6:
			add(Node{Path: p, Kind: 's', Perm: 0o777, Target: r.pick([]string{"f", "../a", "/w/canary", "/w", "/", "nowhere", "../../canary"})})
		case 7:
			group++
			n := Node{Path: p, Kind: 'r', Perm: 0o644, Data: thrData(r, 20), Group: group}
			if _, ok := have[p]; !ok {
				add(n)
				n.Path = p + "2"
				add(n)
			}
		case 8:
			add(Node{Path: p, Kind: 'f', Perm: 0o600})
		default:
			add(Node{Path: p, Kind: 'r', Perm: 0o644, Data: ""})
		}
	}
	if r.chance(1, 3) {
		// a decoy where the canary would be if the jail's root leaked
		add(Node{Path: root + "/w", Kind: 'd', Perm: 0o755})
		add(Node{Path: root + "/w/canary", Kind: 'r', Perm: 0o644, Data: "decoy"})
	}
	sort.SliceStable(ns, func(i, j int) bool { return ns[i].Path < ns[j].Path })
	return ns
}

// thrGenArchive builds a small tar stream; fail selects a planted defect of the stream itself.
func thrGenArchive(r *Rng, layer bool, fail string) []byte {
	var buf bytes.Buffer
	tw := tar.NewWriter(&buf)
	n := 2 + r.intn(7)
	var regs []string
	names := map[string]bool{}
	put := func(h *tar.Header, body string) {
		h.ModTime = time.Unix(thrMtimes[r.intn(len(thrMtimes))], 0)
		h.Format = tar.FormatPAX
		if h.Typeflag == tar.TypeReg {
			h.Size = int64(len(body))
		}
		if err := tw.WriteHeader(h); err != nil {
			return
		}
		if h.Typeflag == tar.TypeReg {
			tw.Write([]byte(body))
		}
	}
	planted := n / 2
	for i := 0; i < n; i++ {
		if i == planted {
			switch fail {
			case "breakout":
				put(&tar.Header{Typeflag: tar.TypeReg, Name: "../../thr-escape", Mode: 0o644}, "x")
			case "badlink":
				put(&tar.Header{Typeflag: tar.TypeLink, Name: "lnk-nowhere", Linkname: "no/such/target", Mode: 0o644}, "")
			}
		}
		dir := ""
		if r.chance(1, 2) {
			dir = r.pick([]string{"a/", "b/", "sub/", "new/", "new/deep/"})
		}
		name := dir + r.pick([]string{"f", "g", "n1", "n2", "n3", "x"})
		if names[name] && r.chance(2, 3) {
			continue
		}
		names[name] = true
		uid, gid := r.pick2(0, 0, 1000), r.pick2(0, 1000, 50)
		switch k := r.intn(20); {
		case k < 9:
			put(&tar.Header{Typeflag: tar.TypeReg, Name: name, Mode: int64(r.pick2(0o644, 0o600, 0o4755)), Uid: uid, Gid: gid},
				thrData(r, []int{0, 1, 511, 512, 513, 3000, 9000}[r.intn(7)]))
			regs = append(regs, name)
		case k < 12:
			put(&tar.Header{Typeflag: tar.TypeDir, Name: name + "/", Mode: int64(r.pick2(0o755, 0o700, 0o2775)), Uid: uid, Gid: gid}, "")
		case k < 15:
			put(&tar.Header{Typeflag: tar.TypeSymlink, Name: name, Linkname: r.pick([]string{"f", "../a", "/w/canary", "/w", "/", "../..", "nowhere"}), Mode: 0o777}, "")
		case k < 17 && len(regs) > 0:
			put(&tar.Header{Typeflag: tar.TypeLink, Name: name + "-l", Linkname: regs[r.intn(len(regs))], Mode: 0o644}, "")
		case k < 18:
			// aim at the canary by its absolute name: inside the jail this is root/w/canary
			put(&tar.Header{Typeflag: tar.TypeDir, Name: "w/", Mode: 0o755}, "")
			put(&tar.Header{Typeflag: tar.TypeReg, Name: "w/canary", Mode: 0o644}, "overwritten")
		case k < 20 && layer:
			if r.chance(1, 3) {
				put(&tar.Header{Typeflag: tar.TypeReg, Name: dir + ".wh..wh..opq", Mode: 0o644}, "")
			} else {
				put(&tar.Header{Typeflag: tar.TypeReg, Name: dir + ".wh." + r.pick([]string{"f", "g", "a", "x", "h"}), Mode: 0o644}, "")
			}
		default:
			put(&tar.Header{Typeflag: tar.TypeFifo, Name: name + "-p", Mode: 0o600}, "")
		}
	}
	tw.Close()
	b := buf.Bytes()
	if fail == "trunc" && len(b) > 2048 {
		cut := 512 + r.intn(len(b)-1024-512)
		b = b[:cut]
	}
	return b
}

func thrGzip(b []byte) []byte {
	var out bytes.Buffer
	zw := gzip.NewWriter(&out)
	zw.Write(b)
	zw.Close()
	return out.Bytes()
}

func thrGenScenario(seed uint64, nCalls, observers, procs int) thrScenario {
	r := &Rng{s: seed}
	sc := thrScenario{Procs: procs, Observers: observers, Blockers: r.pick2(0, 2, 6), ConcFirst: r.chance(1, 2), NoPigz: r.chance(1, 2)}
	gateAll := r.chance(1, 2)
	for i := 0; i < nCalls; i++ {
		root := fmt.Sprintf("/w/r%d", i)
		c := thrCall{Root: root, Dest: root, RootKind: "dir", Opts: "-", Gate: -1, FailAt: -1, Chunk: 1 << 20}
		c.Op = r.pick([]string{"tar", "tar", "untar", "untar-unc", "untar-root", "untar-root", "layer", "layer-unc", "layer-unc"})
		switch r.intn(8) {
		case 0:
			c.RootKind = "missing"
		case 1:
			c.RootKind = "file"
		}
		switch c.RootKind {
		case "dir":
			c.Nodes = thrGenTree(r, root, c.Op == "tar")
		case "file":
			c.Nodes = []Node{{Path: root, Kind: 'r', Perm: 0o644, Data: "i am not a directory", Mtime: 1400000000}}
		}
		switch r.intn(6) {
		case 0:
			c.Opts = "noLchown=1"
		case 1:
			c.Opts = "chown=1000:1000"
		}
		fail := "none"
		if c.Op == "tar" {
			c.Dest = root + r.pick([]string{"", "", "/a", "/a/f", "/"})
			c.TarGzip = r.chance(1, 3)
			if r.chance(1, 5) {
				// mostly names that exist (the library logs every one that does not)
				if c.Dest == root || c.Dest == root+"/" {
					c.Include = []string{r.pick([]string{"a", "a/f", "a", "a/f", "a", "nothing"})}
				} else if r.chance(1, 6) {
					c.Include = []string{"nothing"}
				}
			}
			if gateAll || r.chance(1, 2) {
				c.Gate = r.pick2(0, 100, 700)
			}
		} else {
			if c.Op == "untar-root" {
				c.Dest = root + r.pick([]string{"", "/sub", "/a", "/new/deeper", ""})
			}
			if r.chance(1, 3) {
				fail = r.pick([]string{"trunc", "readerr", "breakout", "badlink"})
			}
			layer := strings.HasPrefix(c.Op, "layer")
			ar := thrGenArchive(r, layer, fail)
			gz := (c.Op == "untar" || c.Op == "untar-root" || c.Op == "layer") && r.chance(1, 2)
			if fail == "readerr" {
				gz = false
				if len(ar) > 1024 {
					c.FailAt = 512 + r.intn(len(ar)-1024)
				} else {
					c.FailAt = len(ar) / 2
				}
			}
			if gz {
				ar = thrGzip(ar)
			}
			c.Archive = ar
			c.Chunk = []int{64, 512, 1000, 4096, 1 << 20}[r.intn(5)]
			if gateAll || r.chance(1, 2) {
				// At or beyond the first chunk (what the format sniffing may read before the jail exists), and
				// early enough that a Read still has to begin behind it: every Read advances by at most one
				// chunk and the extractor needs the stream up to its end-of-archive blocks (a decompressor may
				// leave the last few bytes unread).
				limit := func() int {
					l := len(ar) - c.Chunk
					if gz {
						l -= 64
					}
					if c.FailAt >= 0 && c.FailAt < l {
						l = c.FailAt // held first, failing afterwards
					}
					return l
				}
				for c.Chunk > 64 && c.Chunk > limit() {
					c.Chunk /= 2
				}
				if l := limit(); l >= c.Chunk {
					c.Gate = c.Chunk + r.intn(l-c.Chunk+1)
				}
			}
		}
		c.Note = fmt.Sprintf("%s root=%s stream=%s", c.Op, c.RootKind, fail)
		sc.Calls = append(sc.Calls, c)
	}
	return sc
}

// thrSetupMustFail: the jail cannot be set up for this call (the root is not a directory), so the
// library has to return an error.
func thrSetupMustFail(c *thrCall) bool {
	switch c.RootKind {
	case "file":
		return true
	case "missing":
		switch c.Op {
		case "untar", "untar-unc":
			return false // these create their destination first
		case "untar-root":
			return c.Dest != c.Root
		}
		return true
	}
	return false
}

func thrJudgeObs(res *Result, caseText string, sc *thrScenario, jr *JobResult) {
	bad := func(clause, msg string) {
		res.problem(Problem{Kind: "oracle", Stream: "threads", Case: caseText, Msg: "C13/" + clause + ": " + msg})
	}
	res.Evaluations++
	res.count(fmt.Sprintf("B:calls=%d observers=%d GOMAXPROCS=%d", len(sc.Calls), sc.Observers, sc.Procs))
	if jr.Out == "panic" || jr.Out == "hang" {
		bad("B run", "scenario "+jr.Out+": "+jr.Err)
		return
	}
	var out thrObsOut
	if err := json.Unmarshal([]byte(jr.Extra), &out); err != nil {
		res.SetupError = "threads: unreadable obs result: " + truncate(jr.Extra, 200)
		return
	}
	if out.PreDirty > 0 {
		res.count("B:scenario started with tainted threads left by an earlier job of the same arena child")
	}
	if out.MainMoved > 0 {
		bad("B startup-thread", fmt.Sprintf("the main goroutine left the startup thread %d times", out.MainMoved))
	}
	res.count("B:mount-probe:" + strings.SplitN(out.MountProbe, ":", 2)[0])
	if out.MountLeak != "" {
		bad("B mount-table", "after chrooted untar, layer apply and tar on a root that lies on a shared mount, the mount table seen by the rest of the process differs: "+out.MountLeak)
	}
	res.nontrivial(caseText)
	for pi, pr := range []*thrPhaseRes{&out.Conc, &out.Seq} {
		ph := []string{"concurrent", "one-at-a-time"}[pi]
		if len(pr.Calls) != len(sc.Calls) {
			if out.Conc.Hung+out.Seq.Hung+len(out.Conc.Dirty)+len(out.Seq.Dirty)+len(out.Conc.FsShare)+len(out.Seq.FsShare) == 0 {
				res.SetupError = "threads: phase " + ph + " missing"
			}
			continue
		}
		res.Distribution["B:observations "+ph] += int(pr.Observations)
		res.Distribution["B:observations while calls were held in their jails"] += int(pr.DuringHold)
		res.Distribution["B:observations after quiescence"] += int(pr.AfterQuiet)
		res.Distribution["B:distinct threads observers ran on (sum)"] += pr.ObsTids
		for _, d := range pr.Deviations {
			bad("B observer", ph+": "+d)
		}
		for _, d := range pr.Dirty {
			bad("B quiescence", fmt.Sprintf("%s: after all calls returned and %d ms of settling: %s", ph, pr.QuietMs, d))
		}
		if pr.FsShare != "" {
			bad("B fs-sharing", ph+": "+pr.FsShare)
		}
		if pr.Stray != "" {
			bad("B stray", ph+": objects appeared outside every root, in the process's own root or /tmp: "+pr.Stray)
		}
		if pr.Hung > 0 {
			bad("B run", fmt.Sprintf("%s: %d calls did not return within the ceiling", ph, pr.Hung))
		}
		switch {
		case pr.QuietMs > 1000:
			res.count("B:quiescence reached >1s")
		case pr.QuietMs > 100:
			res.count("B:quiescence reached ≤1s")
		case pr.QuietMs > 10:
			res.count("B:quiescence reached ≤100ms")
		default:
			res.count("B:quiescence reached ≤10ms")
		}
		if pi == 0 {
			res.count(fmt.Sprintf("B:overlap: %d jails at the same moment", pr.Overlap))
			res.Distribution["B:gated calls"] += pr.Gated
			res.Distribution["B:gated calls that reached their gate"] += pr.Arrived
			if pr.Overlap >= 2 {
				res.count("B:scenarios with ≥2 simultaneous jails")
			}
		}
		for i := range sc.Calls {
			c := &sc.Calls[i]
			cr := pr.Calls[i]
			if !cr.Returned {
				continue
			}
			oc := "ok"
			if cr.Err {
				oc = "err"
			}
			if pi == 0 {
				g := ""
				if c.Gate >= 0 {
					g = " gated"
				}
				res.count("B:call " + c.Note + g + " → " + oc)
				if c.Gate >= 0 && !cr.Arrived {
					res.count("B:gate not reached: " + c.Note + " → " + oc)
				}
			}
			if thrSetupMustFail(c) && !cr.Err {
				bad("A error(public)", fmt.Sprintf("%s: call %d (%s) returned nil although its root %s is %s: the jail cannot have been set up", ph, i, c.Op, c.Root, c.RootKind))
			}
			if thrSetupMustFail(c) && c.RootKind == "missing" && cr.RootStat != "absent" && cr.RootStat != "" {
				bad("A fn-calls(public)", fmt.Sprintf("%s: call %d (%s): root %s did not exist, jail setup failed, yet it exists now (%s)", ph, i, c.Op, c.Root, cr.RootStat))
			}
		}
	}
	if out.Conc.Hung+out.Seq.Hung > 0 || len(out.Conc.Calls) != len(sc.Calls) || len(out.Seq.Calls) != len(sc.Calls) {
		return
	}
	for i := range sc.Calls {
		a, b := out.Conc.Calls[i], out.Seq.Calls[i]
		c := &sc.Calls[i]
		res.Compared++
		what := fmt.Sprintf("call %d (%s on %s)", i, c.Note, c.Root)
		switch {
		case a.Err != b.Err:
			bad("C error", fmt.Sprintf("%s: concurrent err=%v (%s), alone err=%v (%s)", what, a.Err, a.ErrText, b.Err, b.ErrText))
		case a.Size != b.Size:
			bad("C size", fmt.Sprintf("%s: concurrent size=%d, alone %d", what, a.Size, b.Size))
		case a.Tar != b.Tar:
			bad("C archive", fmt.Sprintf("%s: produced archive differs: concurrent %s, alone %s", what, a.Tar, b.Tar))
		case a.RootStat != b.RootStat:
			bad("C tree", fmt.Sprintf("%s: root itself differs: concurrent %s, alone %s", what, a.RootStat, b.RootStat))
		case a.Tree != b.Tree:
			bad("C tree", fmt.Sprintf("%s: resulting trees differ: %s", what, thrTreeDiff(a.Tree, b.Tree)))
		}
	}
}

func thrTreeDiff(a, b string) string {
	oa, ea := parseOutcome("x 0 " + a)
	ob, eb := parseOutcome("x 0 " + b)
	if ea != nil || eb != nil {
		return "unparsable trees"
	}
	d := diffOutcomes(oa, ob)
	return strings.NewReplacer("impl", "concurrent", "model", "alone").Replace(d)
}

// ---- driver ----

type thrPlan struct {
	kind       string // fate | obs
	seed       uint64
	p1, p2, p3 int
	batch      thrFateBatch
	scenario   thrScenario
}

func (p *thrPlan) text() string {
	return fmt.Sprintf("%s %d %d %d %d", p.kind, p.seed, p.p1, p.p2, p.p3)
}

func thrMakePlan(kind string, seed uint64, p1, p2, p3 int) *thrPlan {
	p := &thrPlan{kind: kind, seed: seed, p1: p1, p2: p2, p3: p3}
	if kind == "fate" {
		p.batch = thrGenFateBatch(seed, p1, p2, p3)
	} else {
		p.scenario = thrGenScenario(seed, p1, p2, p3)
	}
	return p
}

func runThreads(cfg *Config) *Result {
	res := newResult("A: every (flag set × setupfn nil/ok/failing × fn nil/ok, plus sabotaged-restore cases) through unshare.Go under GOMAXPROCS 1/2/16, with and without spinner goroutines, one at a time and in concurrent groups; " +
		"B/C: random scenarios of N∈{1,4,16} chrooted Tar/Untar/UntarWithRoot/ApplyLayer/ApplyUncompressedLayer calls on distinct roots (unusable roots, failing streams, gated readers) × M observers × GOMAXPROCS∈{1,2,16}, run concurrently and one at a time; " +
		"non-trivial = every A combination (distinct by flags/setup/fn/procs/spinners/group) and every B scenario (distinct by seed and shape)")
	var plans []*thrPlan
	if cfg.Replay != "" {
		b, err := os.ReadFile(cfg.Replay)
		var rp struct {
			Case string `json:"case"`
		}
		if err == nil {
			err = json.Unmarshal(b, &rp)
		}
		var kind string
		var seed uint64
		var p1, p2, p3 int
		if err == nil {
			_, err = fmt.Sscanf(rp.Case, "%s %d %d %d %d", &kind, &seed, &p1, &p2, &p3)
		}
		if err != nil || (kind != "fate" && kind != "obs") {
			res.SetupError = fmt.Sprint("threads: bad replay file: ", err)
			return res
		}
		plans = append(plans, thrMakePlan(kind, seed, p1, p2, p3))
	} else {
		rng := newRng(cfg.Seed ^ 0x7468726561647321)
		procs := []int{1, 2, 16}
		nFate := cfg.count(6, 72)
		nObs := cfg.count(27, 810)
		if cfg.N > 0 {
			nFate = (cfg.N + 4) / 5
		}
		var fates, obss []*thrPlan
		for i := 0; i < nFate; i++ {
			group := 1
			if i%3 == 2 {
				group = 2 + rng.intn(7)
			}
			spin := []int{0, 3, 12}[(i/3)%3]
			if i >= 9 {
				spin = rng.intn(20)
			}
			fates = append(fates, thrMakePlan("fate", rng.next(), procs[i%3], spin, group))
		}
		ns := []int{1, 4, 16}
		ms := []int{1, 3, 8}
		for i := 0; i < nObs; i++ {
			// the 27 combinations in turn, inputs random
			obss = append(obss, thrMakePlan("obs", rng.next(), ns[i%3], ms[(i/3)%3], procs[(i/9)%3]))
		}
		// runArena hands contiguous parts of the job list to its workers: spread the (heavier) fate batches evenly
		total := len(fates) + len(obss)
		for i, fi, oi := 0, 0, 0; i < total; i++ {
			if fi < len(fates) && (oi >= len(obss) || i*len(fates)/total >= fi) {
				plans = append(plans, fates[fi])
				fi++
			} else {
				plans = append(plans, obss[oi])
				oi++
			}
		}
	}
	var jobs []Job
	for i, p := range plans {
		var arg []byte
		kind := "threads-fate"
		if p.kind == "fate" {
			arg, _ = json.Marshal(p.batch)
		} else {
			arg, _ = json.Marshal(p.scenario)
			kind = "threads-obs"
		}
		jobs = append(jobs, Job{ID: i, Kind: kind, Args: []string{string(arg)}})
	}
	// interleave the heavy scenarios over the arena workers: runArena splits the slice into contiguous parts
	results := runArena(cfg, jobs, 150*time.Second)
	var setupErrs []string
	for i, p := range plans {
		jr := results[i]
		if jr.Out == "setup" || jr.ID < 0 {
			setupErrs = append(setupErrs, fmt.Sprintf("threads: %s: %s", p.text(), truncate(jr.Err, 300)))
			continue
		}
		tb := "≤1s"
		switch {
		case jr.Millis > 30000:
			tb = ">30s"
		case jr.Millis > 5000:
			tb = "≤30s"
		case jr.Millis > 1000:
			tb = "≤5s"
		}
		res.count("time:" + p.kind + " job " + tb)
		if p.kind == "fate" {
			res.count(fmt.Sprintf("A:batch GOMAXPROCS=%d spinners=%s group=%s", p.p1, thrBucket(p.p2), thrBucket(p.p3)))
			thrJudgeFate(res, p.text(), &p.batch, &jr)
		} else {
			thrJudgeObs(res, p.text(), &p.scenario, &jr)
		}
		if i%7 == 0 {
			res.sample(p.text() + fmt.Sprintf(" (%d ms)", jr.Millis))
		}
	}
	// an environment failure after a defect has been found is a consequence (the arena child is
	// damaged), not a reason to discard the finding
	if len(setupErrs) > 0 {
		if len(res.Problems) == 0 && res.SetupError == "" {
			res.SetupError = setupErrs[0]
		} else {
			res.Notes = append(res.Notes, setupErrs...)
		}
	}
	return res
}

func thrBucket(n int) string {
	switch {
	case n <= 0:
		return "0"
	case n == 1:
		return "1"
	case n < 5:
		return "2-4"
	}
	return "5+"
}
