package main

import (
	"fmt"
	"strconv"
	"strings"
)

// oracleLastEntryWins: C05's statement for the named paths, evaluated on the real outcome without the
// model.  For a successful plain Untar in a world without symbolic links (default whiteout format, no
// exclusions): every path whose last entry is a regular file, directory, device or fifo, and that no later
// entry names, replaces from above, hard-links to or (for a non-directory) creates beneath, has exactly the
// type, content, permission bits, clamped modification second and owner of that entry.
// (Found missing when the proof of `untar_named_last_wins` could not be closed for the pinned code: D25.)
func oracleLastEntryWins(c *FsCase, before, after *Outcome, out string) []Problem {
	if c.Op != "untar" || out != "ok" || c.Opts.Overlay || len(c.Opts.Excludes) > 0 {
		return nil
	}
	if worldHasSymlink(before) {
		return nil
	}
	for _, e := range c.Ents {
		if e.Typ == "sym" {
			return nil
		}
	}
	dest := pushRaw(nil, c.Dest)
	type ent struct {
		p   []string
		src []string
	}
	live := make([]*ent, len(c.Ents))
	for i, e := range c.Ents {
		if e.Typ == "xglobal" {
			continue
		}
		x := &ent{p: pushCleanFirst(dest, e.Name)}
		if e.Typ == "link" {
			x.src = pushRaw(dest, e.Linkname)
		}
		live[i] = x
	}
	atOrAbove := func(q, p []string) bool { return compsWithin(q, p) } // q is a prefix of p
	nodes := map[string][]string{}
	for _, n := range after.Nodes {
		nodes[unhx(n[0])] = n
	}
	var probs []Problem
	for k, e := range c.Ents {
		x := live[k]
		if x == nil || len(x.p) <= len(dest) {
			continue
		}
		var kind string
		switch e.Typ {
		case "reg":
			kind = "r"
		case "dir":
			kind = "d"
		case "chr":
			kind = "c"
		case "blk":
			kind = "b"
		case "fifo":
			kind = "f"
		default:
			continue
		}
		if (kind == "c" || kind == "b") && c.Opts.UserNS {
			continue
		}
		disturbed := false
		for j := k + 1; j < len(c.Ents); j++ {
			y := live[j]
			if y == nil {
				continue
			}
			if atOrAbove(y.p, x.p) || (kind != "d" && atOrAbove(x.p, y.p)) {
				disturbed = true
			}
			if y.src != nil && (atOrAbove(y.src, x.p) && atOrAbove(x.p, y.src)) {
				disturbed = true
			}
		}
		if disturbed {
			continue
		}
		path := "/" + strings.Join(x.p, "/")
		n, ok := nodes[path]
		fail := func(what, got, want string) {
			probs = append(probs, Problem{Kind: "oracle", Stream: "extract",
				Msg: fmt.Sprintf("C05: last entry wins: %s of %s is %s, its last entry (#%d, %s) says %s", what, path, got, k, e.Typ, want)})
		}
		if !ok {
			fail("existence", "absent", "present")
			continue
		}
		if n[1] != kind {
			fail("type", n[1], kind)
			continue
		}
		if want := strconv.FormatInt(e.Mode&0o7777, 10); n[2] != want {
			fail("permission bits", n[2], want)
		}
		mt := e.Mtime
		if mt < 0 || mt > (1<<63-1)/1000000000 {
			mt = 0
		}
		if want := strconv.FormatInt(mt, 10); n[5] != want && n[5] != "*" {
			fail("modification time", n[5], want)
		}
		if kind == "r" && n[6] != hx(e.Body) {
			fail("content", truncate(n[6], 40), truncate(hx(e.Body), 40))
		}
		if kind == "c" || kind == "b" {
			if n[8] != strconv.FormatInt(e.Maj, 10) || n[9] != strconv.FormatInt(e.Min, 10) {
				fail("device number", n[8]+"/"+n[9], fmt.Sprintf("%d/%d", e.Maj, e.Min))
			}
		}
		if !c.Opts.NoLchown && len(c.Opts.UidMap) == 0 && len(c.Opts.GidMap) == 0 {
			u, g := e.Uid, e.Gid
			if c.Opts.Chown != nil {
				u, g = c.Opts.Chown[0], c.Opts.Chown[1]
			}
			if n[3] != strconv.Itoa(u) || n[4] != strconv.Itoa(g) {
				fail("owner", n[3]+":"+n[4], fmt.Sprintf("%d:%d", u, g))
			}
		}
	}
	// the frame (C05's last clause), independently of the model: a pre-existing path that no entry names, at or
	// above it, and that is not the source of a hard-link entry, is still there with the same type, content,
	// mode and owner — and the same time unless it is a directory
	prev := map[string][]string{}
	for _, n := range before.Nodes {
		prev[unhx(n[0])] = n
	}
	for q, n0 := range prev {
		qc := pushRaw(nil, q)
		if len(qc) <= len(dest) || !compsWithin(dest, qc) {
			continue
		}
		named := false
		for _, y := range live {
			if y == nil {
				continue
			}
			if atOrAbove(y.p, qc) || (y.src != nil && atOrAbove(y.src, qc) && atOrAbove(qc, y.src)) {
				named = true
			}
		}
		if named || n0[10] != "0" { // members of hard-link groups may change through their other names
			continue
		}
		n1, ok := nodes[q]
		switch {
		case !ok:
			probs = append(probs, Problem{Kind: "oracle", Stream: "extract", Msg: fmt.Sprintf("C05: frame: %s existed before, nothing in the archive names it or a path above it, and it is gone", q)})
		case n1[1] != n0[1] || n1[2] != n0[2] || n1[3] != n0[3] || n1[4] != n0[4] || n1[6] != n0[6] || (n0[1] != "d" && n1[5] != n0[5]):
			probs = append(probs, Problem{Kind: "oracle", Stream: "extract", Msg: fmt.Sprintf("C05: frame: %s is named by nothing in the archive, yet changed: %s -> %s", q, strings.Join(n0[1:7], " "), strings.Join(n1[1:7], " "))})
		}
		if len(probs) > 3 {
			break
		}
	}
	if len(probs) > 3 {
		probs = probs[:3]
	}
	return probs
}
