package main

import (
	"archive/tar"
	"bytes"
	"fmt"
	"io"
	"sync/atomic"
	"time"

	archive "github.com/moby/go-archive"
)

// An archive that never ends (a producer on the other side of a socket, a container that keeps writing): the
// rewriters hand out a stream over it; when the consumer closes that stream after a few kilobytes the rewriter
// has to stop promptly — it must not go on reading its source.  (The census of the main cases cannot show this
// for a source that ends by itself a few kilobytes later.)
type stEndless struct {
	unit  []byte // one entry (header + body + padding), repeated
	off   int
	reads atomic.Int64
	stop  atomic.Bool
}

func newStEndless() *stEndless {
	var b bytes.Buffer
	tw := tar.NewWriter(&b)
	body := bytes.Repeat([]byte("x"), 3000)
	_ = tw.WriteHeader(&tar.Header{Name: "base/f", Typeflag: tar.TypeReg, Mode: 0o644, Size: int64(len(body)), ModTime: time.Unix(1700000000, 0)})
	_, _ = tw.Write(body)
	_ = tw.Flush()
	return &stEndless{unit: b.Bytes()}
}

func (e *stEndless) Read(p []byte) (int, error) {
	if e.stop.Load() {
		return 0, io.ErrUnexpectedEOF
	}
	e.reads.Add(1)
	n := 0
	for n < len(p) {
		k := copy(p[n:], e.unit[e.off:])
		n += k
		e.off = (e.off + k) % len(e.unit)
	}
	time.Sleep(50 * time.Microsecond) // a source with a little latency: keeps a runaway reader from eating the machine
	return n, nil
}

func (e *stEndless) Close() error { e.stop.Store(true); return nil }

func stEndlessProbe(res *Result) {
	for _, kind := range []string{"rebase", "replace"} {
		for _, k := range []int{1, 600, 5000, 70000} {
			src := newStEndless()
			var rc io.ReadCloser
			if kind == "rebase" {
				rc = archive.RebaseArchiveEntries(src, "base", "renamed")
			} else {
				rc = archive.ReplaceFileTarWrapper(src, map[string]archive.TarModifierFunc{})
			}
			buf := make([]byte, k)
			_, rerr := io.ReadFull(rc, buf)
			rc.Close()
			caseText := fmt.Sprintf("endless kind=%s k=%d", kind, k)
			res.Evaluations++
			res.count("endless:" + kind)
			if rerr != nil {
				res.problem(Problem{Kind: "oracle", Stream: "streams", Case: caseText, Msg: fmt.Sprintf("C17: the %s stream over an endless source failed after fewer than %d bytes: %v", kind, k, rerr)})
				src.Close()
				continue
			}
			// settle: the rewriter may finish the write it was in; after that its reads have to cease
			var quiet bool
			deadline := time.Now().Add(20 * time.Second)
			for time.Now().Before(deadline) {
				a := src.reads.Load()
				time.Sleep(150 * time.Millisecond)
				if src.reads.Load() == a {
					quiet = true
					break
				}
			}
			n0 := src.reads.Load()
			src.Close()
			if !quiet {
				res.problem(Problem{Kind: "oracle", Stream: "streams", Case: caseText,
					Msg: fmt.Sprintf("C17: %d bytes of the %s stream were read and the stream closed, yet the rewriter is still reading its (endless) source 20 s later (%d reads so far): the producing goroutine does not finish when the consumer stops", k, kind, n0)})
			}
		}
	}
}
