package main

// Stream "streams" (property C17), arena-child side: the convenience copies of Archiver.

import (
	"archive/tar"
	"bytes"
	"compress/gzip"
	"fmt"
	"os"
	"path/filepath"
	"strconv"
	"strings"

	"golang.org/x/sys/unix"

	archive "github.com/moby/go-archive"
	"github.com/moby/go-archive/chrootarchive"
	"github.com/moby/sys/user"
)

const stSigTarUntarMissing = "C17-TarUntar-missing-source-reports-success"

func stCopyTar(owned bool, big int) []byte {
	var buf bytes.Buffer
	tw := tar.NewWriter(&buf)
	add := func(name string, uid int, body []byte) {
		tw.WriteHeader(&tar.Header{Typeflag: tar.TypeReg, Name: name, Mode: 0o644, Size: int64(len(body)), Uid: uid, Gid: uid, Format: tar.FormatPAX})
		tw.Write(body)
	}
	tw.WriteHeader(&tar.Header{Typeflag: tar.TypeDir, Name: "t/", Mode: 0o755, Format: tar.FormatPAX})
	add("t/x", 0, []byte("hello"))
	if owned {
		add("t/y", 5000, []byte("owned by an id outside the mapping"))
	}
	b := make([]byte, big)
	stFill(b, 99)
	add("t/big", 0, b)
	add("t/empty", 0, nil)
	tw.Close()
	return buf.Bytes()
}

// stCopyExpect: "err" (the call must fail), "ok" (must succeed and produce the files).
func stCopyExpect(c *stCopy) string {
	switch c.Src {
	case "missing", "sock", "nodev":
		return "err"
	case "ownedfile", "owneddir", "ownedtar":
		if c.IDMap {
			return "err"
		}
	}
	switch c.Dst {
	case "parentfile", "full", "fullino":
		return "err"
	}
	return "ok"
}

func stRunCopy(c *stCase, o *stOut) {
	cp := c.Copy
	stCurTree = "" // every copy case leaves debris in /w: rebuild afterwards
	fail := func(err error) { o.Setup = "copy setup: " + err.Error() }
	if err := os.MkdirAll("/w/cp", 0o755); err != nil {
		fail(err)
		return
	}
	// ---- source ----
	src := ""
	var wantFiles map[string]int64 // relative path -> size that must exist under the destination
	single := false
	switch {
	case strings.HasPrefix(cp.Src, "file:"), cp.Src == "ownedfile":
		sz := 70000
		if cp.Src != "ownedfile" {
			sz, _ = strconv.Atoi(cp.Src[5:])
		}
		src = "/w/cp/srcfile"
		if err := stWriteBig(src, sz, c.Tree.Seed+5); err != nil {
			fail(err)
			return
		}
		if cp.Src == "ownedfile" {
			if err := os.Lchown(src, 5000, 5000); err != nil {
				fail(err)
				return
			}
		}
		single = true
		wantFiles = map[string]int64{"": int64(sz)}
	case cp.Src == "dir":
		src = "/w/src"
		wantFiles = map[string]int64{}
		_ = filepath.WalkDir(src, func(p string, d os.DirEntry, err error) error {
			if err == nil && d.Type().IsRegular() {
				if fi, e := d.Info(); e == nil {
					wantFiles[p[len(src)+1:]] = fi.Size()
				}
			}
			return nil
		})
	case cp.Src == "owneddir":
		src = "/w/cp/odir"
		_ = os.MkdirAll(src+"/sub", 0o755)
		wantFiles = map[string]int64{"a": 5, "b": 6, "sub/big": 1 << 20}
		_ = os.WriteFile(src+"/a", []byte("aaaaa"), 0o644)
		_ = os.WriteFile(src+"/b", []byte("bbbbbb"), 0o644)
		if err := stWriteBig(src+"/sub/big", 1<<20, 3); err != nil {
			fail(err)
			return
		}
		if err := os.Lchown(src+"/b", 5000, 5000); err != nil {
			fail(err)
			return
		}
	case cp.Src == "tar", cp.Src == "tgz", cp.Src == "ownedtar":
		src = "/w/cp/in.tar"
		data := stCopyTar(cp.Src == "ownedtar", 1<<20)
		if cp.Src == "tgz" {
			var z bytes.Buffer
			zw := gzip.NewWriter(&z)
			zw.Write(data)
			zw.Close()
			data = z.Bytes()
		}
		if err := os.WriteFile(src, data, 0o644); err != nil {
			fail(err)
			return
		}
		wantFiles = map[string]int64{"t/x": 5, "t/big": 1 << 20, "t/empty": 0}
		if cp.Src == "ownedtar" {
			wantFiles["t/y"] = 34
		}
	case cp.Src == "missing":
		src = "/w/cp/missing"
	case cp.Src == "sock":
		src = "/w/cp/sock"
		if err := unix.Mknod(src, unix.S_IFSOCK|0o644, 0); err != nil {
			fail(err)
			return
		}
	case cp.Src == "nodev":
		src = "/w/cp/nodev"
		if err := unix.Mknod(src, unix.S_IFCHR|0o644, int(unix.Mkdev(1, 99))); err != nil {
			fail(err)
			return
		}
	default:
		fail(fmt.Errorf("unknown source %q", cp.Src))
		return
	}
	// ---- destination ----
	dst, final := "", ""
	switch cp.Dst {
	case "new":
		dst = "/w/dst/out"
	case "slash":
		dst = "/w/dst/sub/"
	case "deep":
		dst = "/w/dst/a/b/out"
	case "parentfile":
		dst = "/w/dstfile/x"
	case "full", "fullino":
		opts := "size=64k"
		if cp.Dst == "fullino" {
			opts = "size=16m,nr_inodes=1"
		}
		_ = os.MkdirAll("/w/full", 0o755)
		if err := unix.Mount("tmpfs", "/w/full", "tmpfs", 0, opts); err != nil {
			fail(err)
			return
		}
		stFullMount = true
		dst = "/w/full/out"
	default:
		fail(fmt.Errorf("unknown destination %q", cp.Dst))
		return
	}
	final = dst
	if single && strings.HasSuffix(dst, "/") {
		final = dst + filepath.Base(src)
	}
	// ---- archiver ----
	var idm user.IdentityMapping
	if cp.IDMap {
		idm = user.IdentityMapping{UIDMaps: []user.IDMap{{ID: 0, ParentID: 100000, Count: 1000}}, GIDMaps: []user.IDMap{{ID: 0, ParentID: 100000, Count: 1000}}}
	}
	var ar *archive.Archiver
	if cp.Arch == "chroot" {
		ar = chrootarchive.NewArchiver(idm)
	} else {
		ar = archive.NewDefaultArchiver()
		ar.IDMapping = idm
	}
	os.Unsetenv("MOBY_DISABLE_PIGZ")
	base := stBaseline()
	var err error
	call := func() {
		switch cp.Method {
		case "CopyFileWithTar":
			err = ar.CopyFileWithTar(src, dst)
		case "CopyWithTar":
			err = ar.CopyWithTar(src, dst)
		case "TarUntar":
			err = ar.TarUntar(src, dst)
		case "UntarPath":
			err = ar.UntarPath(src, dst)
		}
	}
	if !stWithDeadline(stCaseDeadline, call) {
		o.probT("hang: %s(%s -> %s) with the %s archiver did not return within %s", cp.Method, cp.Src, cp.Dst, cp.Arch, stCaseDeadline)
		o.count("copy-end:hang")
		stAbsorb()
		return
	}
	expect := stCopyExpect(cp)
	switch {
	case expect == "err" && err == nil:
		o.count("copy-end:false-success")
		pr := stProb{Msg: fmt.Sprintf("%s(%s -> %s) with the %s archiver (idmap=%v) reported success although the %s could not be copied", cp.Method, cp.Src, cp.Dst, cp.Arch, cp.IDMap, cp.Src)}
		if cp.Method == "TarUntar" && cp.Src == "missing" {
			pr.Sig = stSigTarUntarMissing
		}
		o.P = append(o.P, pr)
	case expect == "err":
		o.count("copy-end:error-reported")
	case err != nil:
		o.count("copy-end:unexpected-error")
		o.prob("%s(%s -> %s) with the %s archiver (idmap=%v) failed: %v", cp.Method, cp.Src, cp.Dst, cp.Arch, cp.IDMap, err)
	default:
		o.count("copy-end:ok")
		missing := 0
		first := ""
		for rel, sz := range wantFiles {
			p := final
			if rel != "" {
				p = final + "/" + rel
			}
			fi, e := os.Lstat(p)
			if e != nil || !fi.Mode().IsRegular() || fi.Size() != sz {
				missing++
				if first == "" || p < first {
					first = p
				}
			}
		}
		o.Bytes = int64(len(wantFiles))
		if missing > 0 {
			o.prob("%s(%s -> %s) with the %s archiver returned nil but %d of %d files are missing or short at the destination (first: %s)", cp.Method, cp.Src, cp.Dst, cp.Arch, missing, len(wantFiles), first)
		}
	}
	left, took := base.settle(stSettleCeil)
	o.count(stSettleBucket(took))
	if left != "" {
		o.probT("left behind after %s(%s -> %s) with the %s archiver (settle ceiling %s): %s", cp.Method, cp.Src, cp.Dst, cp.Arch, stSettleCeil, left)
		stAbsorb()
	}
	stUnmountFull()
}
