package main

import (
	"encoding/binary"
	"encoding/json"
	"fmt"
	"os"
	"sort"
	"strconv"
	"strings"
	"time"

	archive "github.com/moby/go-archive"
)

// Stream "changes": independent oracle on the real code for property C10 (directory diff equals
// the reference diff).
//
//	dirs:<shape>:<storage>:<seed>  ChangesDirs / ChangesSize / collectFileInfoForChanges on a generated pair of
//	                               trees against a naive double walk (arena job, job_changes.go)
//	readdir:<seed>                 readdirnames on a real directory of 0..600 entries (arena job)
//	layers:<seed>                  the layer-based Changes with aufs whiteouts (arena job)
//	dirent:<seed>                  parseDirent on hand-built linux_dirent64 buffers (pure, in this process)
//	sametime:<seed>                sameFsTime against the documented rule (pure)
func init() { subcmds["changes"] = runChanges }

var chgShapes = []struct {
	name   string
	weight int
}{{"small", 24}, {"medium", 14}, {"big", 20}, {"deep", 8}, {"mount", 9}, {"symdir", 8}, {"meta", 11}, {"oldempty", 6}}

func runChanges(cfg *Config) *Result {
	res := newResult("pairs of directory trees generated from one seed per case (shape small/medium/big(1-600 entries)/deep/mount/symdir/meta/oldempty × independent or hard-link-shared storage; " +
		"per-entry fates same/meta/type-swap/old-only/new-only/fresh-inode/rename/hard-link set; creation order shuffled per side), real directories for readdirnames, " +
		"hand-built dirent buffers, layer stacks with aufs whiteouts; non-trivial = the expected change set is non-empty (dirs, layers) or the input has at least one record/entry; " +
		"distinct by shape, storage and hash of the expected set (dirs, layers) or by input")
	rng := newRng(cfg.Seed ^ 0xC10C10)
	var cases []string
	if cfg.Replay != "" {
		c, err := replayCaseString(cfg.Replay)
		if err != nil {
			res.SetupError = err.Error()
			return res
		}
		cases = append(cases, c)
	} else {
		n := cfg.count(3000, 30000)
		tot := 0
		for _, s := range chgShapes {
			tot += s.weight
		}
		for i := 0; i < n; i++ {
			k := rng.intn(tot)
			shape := ""
			for _, s := range chgShapes {
				if k < s.weight {
					shape = s.name
					break
				}
				k -= s.weight
			}
			storage := "indep"
			if shape != "oldempty" && rng.chance(1, 2) {
				storage = "shared"
			}
			cases = append(cases, fmt.Sprintf("dirs:%s:%s:%d", shape, storage, rng.next()))
		}
		for i := 0; i < n/10+3; i++ {
			cases = append(cases, fmt.Sprintf("readdir:%d", rng.next()))
		}
		for i := 0; i < n/3+3; i++ {
			cases = append(cases, fmt.Sprintf("layers:%d", rng.next()))
		}
		cases = append(cases, "dirent:sweep", "layers:probe")
		for i := 0; i < n/2+3; i++ {
			cases = append(cases, fmt.Sprintf("dirent:%d", rng.next()))
		}
		cases = append(cases, fmt.Sprintf("sametime:%d", rng.next()))
		for i := len(cases) - 1; i > 0; i-- {
			j := rng.intn(i + 1)
			cases[i], cases[j] = cases[j], cases[i]
		}
	}

	var jobs []Job
	var jobCase []string
	for _, c := range cases {
		switch {
		case strings.HasPrefix(c, "dirent:"):
			res.Evaluations++
			chgDirentCase(c, res)
		case strings.HasPrefix(c, "sametime:"):
			res.Evaluations++
			chgSameTimeCase(c, res)
		default:
			jobs = append(jobs, Job{ID: len(jobs), Kind: "changes", Args: []string{c}})
			jobCase = append(jobCase, c)
		}
	}
	if len(jobs) == 0 {
		return res
	}
	// Run in batches, a small one first: a library that hangs (or crashes) on every input costs one
	// timeout per worker, not one per case.
	results := make([]JobResult, 0, len(jobs))
	bad := 0
	for lo, size := 0, 32; lo < len(jobs); {
		hi := lo + size
		if hi > len(jobs) {
			hi = len(jobs)
		}
		batch := make([]Job, hi-lo)
		for i := range batch {
			batch[i] = jobs[lo+i]
			batch[i].ID = i
		}
		for _, jr := range runArena(cfg, batch, 60*time.Second) {
			if jr.Out == "hang" || jr.Out == "panic" {
				bad++
			}
			results = append(results, jr)
		}
		lo, size = hi, 2000
		if bad >= 3 && lo < len(jobs) {
			res.Notes = append(res.Notes, fmt.Sprintf("stopped after %d of %d arena cases: %d of them hung or crashed", lo, len(jobs), bad))
			break
		}
	}
	notes := 0
	var treeLines []string
	var treeGot [][]string
	var treeCase []string
	defer func() {
		// model vs code on the recursive diff: same trees in, same set of changes out
		if len(treeLines) == 0 || res.SetupError != "" {
			return
		}
		if f := os.Getenv("VERIF_DUMP_TREELINES"); f != "" {
			os.WriteFile(f, []byte(strings.Join(treeLines, "\n")+"\n"), 0o644)
		}
		modelOut, err := runDriver(cfg.Driver, treeLines)
		if err != nil {
			res.SetupError = err.Error()
			return
		}
		for i, mo := range modelOut {
			f := strings.Fields(mo)
			if len(f) < 2 || f[0] != "ok" {
				res.problem(Problem{Kind: "correspondence", Stream: "changes", Case: treeCase[i], Model: truncate(mo, 200), Msg: "tree diff model did not answer"})
				continue
			}
			toks := f[2:]
			// last token: the hypotheses of C04b.apply_changes_reproduces evaluated by the driver on these trees
			// (new tree ok, old tree ok: sibling names distinct, only directories have children, the mode word
			// carries the type)
			if n := len(toks); n > 0 && strings.HasPrefix(toks[n-1], "H") {
				h := toks[n-1]
				toks = toks[:n-1]
				res.count("treediff:hypotheses:" + h)
				if len(h) != 3 || h[1] != '1' || h[2] != '1' {
					res.problem(Problem{Kind: "correspondence", Stream: "changes", Case: treeCase[i], Model: h,
						Msg: "the trees the library collected do not meet the hypotheses of the tree-level theorems (distinct sibling names, children only under directories, type bit in the mode word)"})
				}
			}
			var ms []string
			for _, t := range toks {
				ms = append(ms, t[:1]+unhx(t[1:]))
			}
			var gs []string
			for _, t := range treeGot[i] {
				gs = append(gs, t[:1]+unhx(t[1:]))
			}
			sort.Strings(ms)
			sort.Strings(gs)
			res.count("treediff:compared")
			if strings.Join(ms, "\x00") != strings.Join(gs, "\x00") {
				res.problem(Problem{Kind: "correspondence", Stream: "changes", Case: treeCase[i], Impl: truncate(strings.Join(gs, " "), 400), Model: truncate(strings.Join(ms, " "), 400),
					Msg: "Changes on the collected trees differs from the model's addChanges on the same trees (as sets)"})
			}
		}
	}()
	for i, jr := range results {
		c := jobCase[i]
		res.Evaluations++
		kind := c[:strings.IndexByte(c, ':')]
		res.count("case:" + kind)
		if jr.ID < 0 || jr.Out == "setup" {
			res.SetupError = fmt.Sprintf("case %s: %s", c, jr.Err)
			return res
		}
		if jr.Out == "panic" || jr.Out == "hang" {
			res.problem(Problem{Kind: "oracle", Stream: "changes", Case: c, Impl: jr.Out, Msg: "C10: the library call did not return normally (" + jr.Out + "): " + truncate(jr.Err, 300)})
			continue
		}
		var out chgOut
		if err := json.Unmarshal([]byte(jr.Extra), &out); err != nil {
			res.SetupError = fmt.Sprintf("case %s: bad job output: %v", c, err)
			return res
		}
		res.Compared++
		if out.TreeLine != "" {
			treeLines = append(treeLines, out.TreeLine)
			treeGot = append(treeGot, out.TreeGot)
			treeCase = append(treeCase, c)
		}
		for k, v := range out.Counts {
			res.Distribution[k] += v
		}
		if out.Nontriv {
			res.nontrivial(out.Canon)
		}
		if out.Sample != "" && (i%97 == 0) {
			res.sample(c + " => " + truncate(out.Sample, 300))
		}
		for _, nt := range out.Notes {
			if notes < 10 {
				res.Notes = append(res.Notes, nt)
				notes++
			}
		}
		for _, p := range out.Problems {
			res.problem(Problem{Kind: "oracle", Stream: "changes", Case: c, Msg: "C10: " + p.Msg, Sig: p.Sig})
		}
	}
	return res
}

// ---------------------------------------------------------------------------------------------
// parseDirent on synthetic buffers (clause 2)

type chgDirentRec struct {
	ino    uint64
	off    int64
	typ    byte
	name   string
	reclen int
}

func chgBuildDirents(recs []chgDirentRec, r *Rng) []byte {
	total := 0
	for _, rc := range recs {
		total += rc.reclen
	}
	// spare capacity behind the data: the library views the name through a fixed-size array pointer
	buf := make([]byte, total, total+16384)
	p := 0
	for _, rc := range recs {
		b := buf[p : p+rc.reclen]
		binary.LittleEndian.PutUint64(b[0:], rc.ino)
		binary.LittleEndian.PutUint64(b[8:], uint64(rc.off))
		binary.LittleEndian.PutUint16(b[16:], uint16(rc.reclen))
		b[18] = rc.typ
		copy(b[19:], rc.name)
		b[19+len(rc.name)] = 0
		// the kernel does not promise anything about the padding behind the terminator
		for i := 19 + len(rc.name) + 1; i < rc.reclen; i++ {
			if r != nil && r.chance(1, 2) {
				b[i] = byte(1 + r.intn(255))
			}
		}
		p += rc.reclen
	}
	return buf
}

// chgRefParseDirent: the reference parser.
func chgRefParseDirent(buf []byte) (consumed int, names []string, inos []uint64) {
	for consumed < len(buf) {
		b := buf[consumed:]
		ino := binary.LittleEndian.Uint64(b[0:])
		reclen := int(binary.LittleEndian.Uint16(b[16:]))
		end := 19
		for end < reclen && b[end] != 0 {
			end++
		}
		name := string(b[19:end])
		consumed += reclen
		if ino == 0 || name == "." || name == ".." {
			continue
		}
		names = append(names, name)
		inos = append(inos, ino)
	}
	return
}

func chgDirentCase(c string, res *Result) {
	res.count("case:dirent")
	var bufs [][]byte
	var r *Rng
	mkrec := func(ino uint64, name string, pad int) chgDirentRec {
		rc := chgDirentRec{ino: ino, name: name, reclen: (19+len(name)+1+7)&^7 + 8*pad}
		if r != nil {
			rc.off = int64(r.next())
			rc.typ = byte(r.intn(16))
		}
		return rc
	}
	if c == "dirent:sweep" {
		// every name length 1..255, several records per buffer, each length also last and first in a buffer
		r = newRng(7)
		var recs []chgDirentRec
		for l := 1; l <= 255; l++ {
			recs = append(recs, mkrec(uint64(1000+l), strings.Repeat(string(rune('a'+l%26)), l), 0))
			if l%7 == 0 {
				bufs = append(bufs, chgBuildDirents(recs, r))
				recs = nil
			}
		}
		bufs = append(bufs, chgBuildDirents(recs, r))
		for l := 1; l <= 255; l++ {
			bufs = append(bufs, chgBuildDirents([]chgDirentRec{mkrec(5, ".", 0), mkrec(6, "..", 0), mkrec(uint64(l), strings.Repeat("n", l), l%3)}, r))
		}
		bufs = append(bufs, []byte{})
	} else {
		seed, err := strconv.ParseUint(strings.TrimPrefix(c, "dirent:"), 10, 64)
		if err != nil {
			res.SetupError = "bad case " + c
			return
		}
		r = &Rng{s: seed}
		g := &chgGen{r: r}
		var recs []chgDirentRec
		size := 0
		nrec := r.intn(40)
		if r.chance(1, 4) {
			nrec = 150 + r.intn(60)
		}
		for i := 0; i < nrec; i++ {
			var name string
			switch k := r.intn(20); {
			case k == 0:
				name = "."
			case k == 1:
				name = ".."
			case k == 2:
				name = r.pick([]string{"...", ".a", "..a", ". ", ".. ", "a.", "a..", ".wh..wh..opq"})
			case k == 3:
				name = strings.Repeat("L", 255-r.intn(3))
			case k == 4:
				name = string([]byte{byte(1 + r.intn(255))})
				if name == "/" {
					name = "s"
				}
			default:
				name = g.randName(r.intn(4))
			}
			ino := r.next()
			switch r.intn(8) {
			case 0:
				ino = 0
				res.count("dirent:ino0-record")
			case 1:
				ino = uint64(1 + r.intn(100))
			case 2:
				ino |= 1 << 63
			}
			pad := 0
			if r.chance(1, 5) {
				pad = 1 + r.intn(3)
				res.count("dirent:extra-padding")
			}
			rc := mkrec(ino, name, pad)
			// like the kernel: a buffer never exceeds 4096 bytes and holds whole records only
			if size+rc.reclen > 4096 {
				break
			}
			size += rc.reclen
			recs = append(recs, rc)
			if name == "." || name == ".." {
				res.count("dirent:dot-record")
			}
			res.count("dirent:namelen:" + chgBucket(len(name)))
		}
		bufs = append(bufs, chgBuildDirents(recs, r))
	}
	for _, buf := range bufs {
		wc, wn, wi := chgRefParseDirent(buf)
		gc, gn, gi := archive.VerifParseDirent(buf)
		res.Compared++
		res.count("dirent:records-in-buffer:" + chgBucket(len(wn)))
		if len(wn) > 0 {
			res.nontrivial("dirent/" + hx(string(buf)))
		}
		msg := ""
		switch {
		case gc != wc:
			msg = fmt.Sprintf("consumed %d bytes of a buffer of %d whole-record bytes", gc, wc)
		case len(gn) != len(wn) || len(gi) != len(wi):
			msg = fmt.Sprintf("returned %d names, the buffer holds %d live records", len(gn), len(wn))
		default:
			for i := range wn {
				if gn[i] != wn[i] || gi[i] != wi[i] {
					msg = fmt.Sprintf("record %d: got (%q, ino %d), buffer says (%q, ino %d)", i, truncate(gn[i], 60), gi[i], truncate(wn[i], 60), wi[i])
					break
				}
			}
		}
		if msg != "" {
			res.problem(Problem{Kind: "oracle", Stream: "changes", Case: c, Msg: "C10: parseDirent: " + msg})
			return
		}
	}
}

// ---------------------------------------------------------------------------------------------
// sameFsTime against the documented rule

func chgSameTimeCase(c string, res *Result) {
	res.count("case:sametime")
	seed, err := strconv.ParseUint(strings.TrimPrefix(c, "sametime:"), 10, 64)
	if err != nil {
		res.SetupError = "bad case " + c
		return
	}
	r := &Rng{s: seed}
	nss := []int64{0, 0, 1, 999999999, 500000000, 123456789}
	for i := 0; i < 4000; i++ {
		s1 := chgSecs[r.intn(len(chgSecs))]
		s2 := s1
		if r.chance(1, 3) {
			s2 = s1 + int64(r.intn(3)-1)
		}
		n1 := nss[r.intn(len(nss))]
		n2 := nss[r.intn(len(nss))]
		if r.chance(1, 3) {
			n2 = n1
		}
		a, b := time.Unix(s1, n1), time.Unix(s2, n2)
		if r.chance(1, 8) {
			b = b.UTC() // the same instant in another location is still the same time
		}
		want := chgSameTime(s1, n1, s2, n2)
		res.Compared++
		res.count(fmt.Sprintf("sametime:same-sec=%v,zero-ns-sides=%d,want=%v", s1 == s2, chgB2i(n1 == 0)+chgB2i(n2 == 0), want))
		if got := archive.VerifSameFsTime(a, b); got != want {
			res.problem(Problem{Kind: "oracle", Stream: "changes", Case: c, Msg: fmt.Sprintf("C10: sameFsTime(%d.%09d, %d.%09d) = %v, the rule (equal, or same second and whole seconds on one side) says %v", s1, n1, s2, n2, got, want)})
			return
		}
		if archive.VerifSameFsTime(b, a) != want {
			res.problem(Problem{Kind: "oracle", Stream: "changes", Case: c, Msg: fmt.Sprintf("C10: sameFsTime is not symmetric on (%d.%09d, %d.%09d)", s1, n1, s2, n2)})
			return
		}
	}
	res.nontrivial(c)
}

func chgB2i(b bool) int {
	if b {
		return 1
	}
	return 0
}
