package main

import (
	"encoding/binary"
	"fmt"
	"strings"

	archive "github.com/moby/go-archive"
)

// Stream "dirent": the Lean model of parseDirent (GA/M/Changes.lean) against the real function
// (hook VerifParseDirent) on synthetic linux_dirent64 buffers.
func init() { subcmds["dirent"] = runDirent }

func encDirent(ino uint64, name string, pad int) []byte {
	reclen := 19 + len(name) + 1 + pad
	b := make([]byte, reclen)
	binary.LittleEndian.PutUint64(b[0:], ino)
	binary.LittleEndian.PutUint64(b[8:], 0)
	binary.LittleEndian.PutUint16(b[16:], uint16(reclen))
	b[18] = 8
	copy(b[19:], name)
	return b
}

func runDirent(cfg *Config) *Result {
	res := newResult("buffers of 0..12 records: names of every length 1..255 (sampled), '.', '..', inode 0 records, padding 0..7, inode values up to 2^63; non-trivial = at least one name returned; distinct by buffer")
	rng := newRng(cfg.Seed ^ 0x646972)
	n := cfg.count(3000, 60000)
	var lines, impl []string
	for i := 0; i < n; i++ {
		var buf []byte
		k := rng.intn(13)
		for j := 0; j < k; j++ {
			name := ""
			switch rng.intn(8) {
			case 0:
				name = "."
			case 1:
				name = ".."
			default:
				l := 1 + rng.intn(12)
				if rng.chance(1, 10) {
					l = 1 + rng.intn(255)
				}
				var sb strings.Builder
				for x := 0; x < l; x++ {
					sb.WriteByte(byte('a' + rng.intn(26)))
				}
				name = sb.String()
			}
			ino := uint64(rng.intn(1000))
			if rng.chance(1, 8) {
				ino = 0
			}
			if rng.chance(1, 12) {
				ino = rng.next() >> 1
			}
			buf = append(buf, encDirent(ino, name, rng.intn(8))...)
		}
		consumed, names, inos := archive.VerifParseDirent(buf)
		parts := []string{"OK", fmt.Sprint(consumed), fmt.Sprint(len(names))}
		for x := range names {
			parts = append(parts, hx(names[x])+":"+fmt.Sprint(inos[x]))
		}
		lines = append(lines, "dirent "+hx(string(buf)))
		impl = append(impl, strings.Join(parts, " "))
		res.count(fmt.Sprintf("records:%d", k))
		if len(names) > 0 {
			res.nontrivial(lines[len(lines)-1])
		}
	}
	res.Evaluations = len(lines)
	model, err := runDriver(cfg.Driver, lines)
	if err != nil {
		res.SetupError = err.Error()
		return res
	}
	for i := range lines {
		res.Compared++
		if model[i] != impl[i] {
			res.problem(Problem{Kind: "correspondence", Stream: "dirent", Case: lines[i], Impl: truncate(impl[i], 300), Model: truncate(model[i], 300), Msg: "parseDirent model differs"})
		}
	}
	res.sample(truncate(lines[1], 200) + " => " + truncate(impl[1], 200))
	return res
}
