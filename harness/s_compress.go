package main

import (
	"bytes"
	"compress/gzip"
	"encoding/binary"
	"encoding/hex"
	"encoding/json"
	"fmt"
	"io"
	"os"
	"os/exec"
	"sort"
	"strconv"
	"strings"
	"sync"
	"time"

	"github.com/klauspost/compress/zstd"
	"github.com/moby/go-archive/compression"
)

// Stream "compress": independent oracle for C16 (compression is transparent and never silently
// corrupts) on the real compression.DecompressStream / CompressStream / Detect.
//
// Clauses (distribution prefix in brackets):
//
//	[rt]  round trip: for every encoder, payload length and content class, under both gzip paths,
//	      DecompressStream(encode(p)) reads exactly p, ends with io.EOF, Close returns nil;
//	      what CompressStream(Gzip) writes, `gzip -dc` turns back into p; CompressStream(None) is identity.
//	[det] Detect agrees with a table written here from the format specifications.
//	[co]  truncations and single bit flips: (payload and EOF) or an error, never a clean EOF after wrong
//	      or missing bytes; damage that removes the magic means pass-through of the damaged bytes;
//	      errors produced by an external helper carry that helper's stderr.
//	[br]  the pooled buffered reader: holds its buffer until the first EOF, releases it exactly
//	      then, and afterwards answers Read/Peek with io.EOF.
//
// All helpers in this file carry the prefix cz.
func init() { subcmds["compress"] = runCompress }

// ---------------------------------------------------------------- independent detection table

// czDetect is the reference for Detect, from the format specifications:
//
//	bzip2  : signature 'B' 'Z', version 'h' (the only version ever defined)
//	gzip   : RFC 1952 2.3.1 - ID1 = 31, ID2 = 139, CM = 8 (deflate; 0-7 reserved, nothing else defined)
//	xz     : xz file format 2.1.1.1 - FD '7' 'z' 'X' 'Z' 00
//	zstd   : RFC 8878 3.1.1 - Magic_Number 0xFD2FB528 little endian;
//	         3.1.2 skippable frame - Magic_Number 0x184D2A50..0x184D2A5F little endian followed by a
//	         4-byte Frame_Size, i.e. a skippable frame header needs 8 bytes.
func czDetect(b []byte) string {
	has := func(p string) bool { return len(b) >= len(p) && string(b[:len(p)]) == p }
	switch {
	case has("BZh"):
		return "bzip2"
	case has("\x1f\x8b\x08"):
		return "gzip"
	case has("\xfd7zXZ\x00"):
		return "xz"
	}
	if len(b) >= 4 {
		v := uint32(b[0]) | uint32(b[1])<<8 | uint32(b[2])<<16 | uint32(b[3])<<24
		if v == 0xFD2FB528 {
			return "zstd"
		}
		if len(b) >= 8 && v >= 0x184D2A50 && v <= 0x184D2A5F {
			return "zstd"
		}
	}
	return "none"
}

func czLibName(c compression.Compression) string {
	switch c {
	case compression.None:
		return "none"
	case compression.Bzip2:
		return "bzip2"
	case compression.Gzip:
		return "gzip"
	case compression.Xz:
		return "xz"
	case compression.Zstd:
		return "zstd"
	}
	return fmt.Sprintf("unknown(%d)", int(c))
}

// ---------------------------------------------------------------- cases

type czCase struct {
	Kind    string // rt | co | det | br
	Fmt     string
	Len     int
	Content string
	PSeed   uint64
	Path    string // ext | builtin
	Src     string // bytes | one | chunk | dataerr
	Rd      int    // read size, 0 = io.ReadAll
	Op      string // co: trunc | flip
	Cls     string // co: class label
	Off     int
	Bit     int
	Hex     string // det: input
}

func (c *czCase) text() string {
	switch c.Kind {
	case "det":
		h := c.Hex
		if h == "" {
			h = "-"
		}
		return "det cls=" + c.Cls + " hex=" + h
	case "br":
		return fmt.Sprintf("br len=%d content=%s pseed=%d src=%s rd=%d", c.Len, c.Content, c.PSeed, c.Src, c.Rd)
	case "ovl":
		return fmt.Sprintf("ovl fmt=%s len=%d content=%s pseed=%d rd=%d", c.Fmt, c.Len, c.Content, c.PSeed, c.Rd)
	case "co":
		return fmt.Sprintf("co fmt=%s len=%d content=%s pseed=%d path=%s src=%s rd=%d op=%s cls=%s off=%d bit=%d",
			c.Fmt, c.Len, c.Content, c.PSeed, c.Path, c.Src, c.Rd, c.Op, c.Cls, c.Off, c.Bit)
	}
	return fmt.Sprintf("rt fmt=%s len=%d content=%s pseed=%d path=%s src=%s rd=%d", c.Fmt, c.Len, c.Content, c.PSeed, c.Path, c.Src, c.Rd)
}

func czParseCase(s string) (*czCase, error) {
	f := strings.Fields(s)
	if len(f) == 0 {
		return nil, fmt.Errorf("empty case")
	}
	c := &czCase{Kind: f[0]}
	for _, kv := range f[1:] {
		i := strings.IndexByte(kv, '=')
		if i < 0 {
			return nil, fmt.Errorf("bad field %q", kv)
		}
		k, v := kv[:i], kv[i+1:]
		var err error
		switch k {
		case "fmt":
			c.Fmt = v
		case "len":
			c.Len, err = strconv.Atoi(v)
		case "content":
			c.Content = v
		case "pseed":
			c.PSeed, err = strconv.ParseUint(v, 10, 64)
		case "path":
			c.Path = v
		case "src":
			c.Src = v
		case "rd":
			c.Rd, err = strconv.Atoi(v)
		case "op":
			c.Op = v
		case "cls":
			c.Cls = v
		case "off":
			c.Off, err = strconv.Atoi(v)
		case "bit":
			c.Bit, err = strconv.Atoi(v)
		case "hex":
			if v == "-" {
				v = ""
			}
			c.Hex = v
		default:
			err = fmt.Errorf("unknown field %q", k)
		}
		if err != nil {
			return nil, err
		}
	}
	return c, nil
}

// ---------------------------------------------------------------- payloads

var czWords = []string{"layer", "tar", "header", "usr/bin/", "lib", "etc/passwd", "0000644", "ustar", "root", "the", "archive", "\n", " ", " ", "\n", "moby", "0", "1"}

// near-miss beginnings for uncompressed payloads: none of these may be taken for a compressed stream
// (the last ones only as long as the whole payload is shorter than a skippable frame header).
var czNear = []string{"425a", "425a48", "425a69", "1f8b", "1f8b07", "1f8b00", "1f8a08", "fd377a585a", "fd377a585a01", "fd377a585b00",
	"28b52f", "28b52ffc", "29b52ffd", "4f2a4d18", "602a4d18", "502a4d19", "502a4c18", "502a4d18", "5f2a4d18", "502a4d1800", "5a2a4d18000000"}

func czFill(b []byte, r *Rng) {
	i := 0
	for ; i+8 <= len(b); i += 8 {
		v := r.next()
		b[i], b[i+1], b[i+2], b[i+3] = byte(v), byte(v>>8), byte(v>>16), byte(v>>24)
		b[i+4], b[i+5], b[i+6], b[i+7] = byte(v>>32), byte(v>>40), byte(v>>48), byte(v>>56)
	}
	if i < len(b) {
		v := r.next()
		for ; i < len(b); i++ {
			b[i] = byte(v)
			v >>= 8
		}
	}
}

func czText(b []byte, r *Rng) {
	i := 0
	for i < len(b) {
		w := czWords[r.intn(len(czWords))]
		if r.chance(1, 6) {
			w = strconv.Itoa(r.intn(100000))
		}
		i += copy(b[i:], w)
	}
}

// czPayload is a pure function of (content, n, seed). forNone makes sure the payload is not taken
// for a compressed stream by the reference table.
func czPayload(content string, n int, seed uint64, forNone bool) []byte {
	r := &Rng{s: seed}
	b := make([]byte, n)
	switch {
	case content == "zeros":
	case content == "rand":
		czFill(b, r)
	case strings.HasPrefix(content, "near"):
		czText(b, r)
		idx, _ := strconv.Atoi(content[4:])
		p, _ := hex.DecodeString(czNear[idx%len(czNear)])
		copy(b, p)
	default: // text
		czText(b, r)
	}
	if forNone {
		for len(b) > 0 && czDetect(b) != "none" {
			b[0] ^= 0x80
		}
	}
	return b
}

// ---------------------------------------------------------------- sources

type czSrc struct {
	data []byte
	pos  int
	mode string
	r    *Rng
}

func (s *czSrc) Read(p []byte) (int, error) {
	if len(p) == 0 {
		return 0, nil
	}
	rem := len(s.data) - s.pos
	if rem == 0 {
		return 0, io.EOF
	}
	n := rem
	switch s.mode {
	case "one":
		if s.pos < 64 {
			n = 1
		} else {
			n = 1 + s.r.intn(4096)
		}
	case "chunk":
		n = 1 + s.r.intn(70000)
	case "dataerr":
		n = 1 + s.r.intn(40000)
	}
	if n > rem {
		n = rem
	}
	if n > len(p) {
		n = len(p)
	}
	copy(p, s.data[s.pos:s.pos+n])
	s.pos += n
	if s.mode == "dataerr" && s.pos == len(s.data) {
		return n, io.EOF
	}
	return n, nil
}

func czSource(data []byte, mode string, seed uint64) io.Reader {
	if mode == "bytes" || mode == "" {
		return bytes.NewReader(data)
	}
	return &czSrc{data: data, mode: mode, r: &Rng{s: seed ^ 0x5151}}
}

// ---------------------------------------------------------------- encoders

type czStream struct {
	data    []byte
	emptyOK map[int]bool // cut offsets at which the prefix is itself a complete stream of the empty payload
	skip    string       // cannot be built in this environment
	prob    string       // the library's own encoder misbehaved
	note    string       // distribution note (e.g. a padding target that did not fit)
}

var czTools = map[string]string{}

func czLookTools() {
	for _, t := range []string{"gzip", "bzip2", "xz", "unpigz", "zstd"} {
		if p, err := exec.LookPath(t); err == nil {
			czTools[t] = p
		}
	}
}

func czRunTool(in []byte, name string, args ...string) (stdout []byte, stderr string, err error) {
	cmd := exec.Command(name, args...)
	cmd.Stdin = bytes.NewReader(in)
	var o, e bytes.Buffer
	cmd.Stdout = &o
	cmd.Stderr = &e
	err = cmd.Run()
	return o.Bytes(), e.String(), err
}

var (
	czEncOnce  sync.Once
	czEncPlain *zstd.Encoder
)

func czZstdAll(p []byte) []byte {
	czEncOnce.Do(func() {
		czEncPlain, _ = zstd.NewWriter(nil, zstd.WithEncoderCRC(false), zstd.WithZeroFrames(true), zstd.WithEncoderConcurrency(1))
	})
	return czEncPlain.EncodeAll(p, nil)
}

func czZstdStream(p []byte, crc bool, r *Rng) ([]byte, error) {
	var out bytes.Buffer
	w, err := zstd.NewWriter(&out, zstd.WithEncoderCRC(crc), zstd.WithZeroFrames(true), zstd.WithEncoderConcurrency(1))
	if err != nil {
		return nil, err
	}
	if err := czWriteChunks(w, p, r); err != nil {
		return nil, err
	}
	if err := w.Close(); err != nil {
		return nil, err
	}
	return out.Bytes(), nil
}

func czWriteChunks(w io.Writer, p []byte, r *Rng) error {
	for len(p) > 0 {
		n := len(p)
		if r.chance(2, 3) {
			n = 1 + r.intn(50000)
			if n > len(p) {
				n = len(p)
			}
		}
		m, err := w.Write(p[:n])
		if err != nil {
			return err
		}
		if m != n {
			return fmt.Errorf("short write %d of %d without error", m, n)
		}
		p = p[n:]
	}
	return nil
}

func czLibCompress(p []byte, c compression.Compression, r *Rng) ([]byte, error) {
	var out bytes.Buffer
	w, err := compression.CompressStream(&out, c)
	if err != nil {
		return nil, fmt.Errorf("CompressStream: %v", err)
	}
	if err := czWriteChunks(w, p, r); err != nil {
		return nil, fmt.Errorf("write: %v", err)
	}
	if err := w.Close(); err != nil {
		return nil, fmt.Errorf("close: %v", err)
	}
	return out.Bytes(), nil
}

func czSkippable(nibble int, content []byte) []byte {
	m := uint32(0x184D2A50) + uint32(nibble&15)
	n := uint32(len(content))
	h := []byte{byte(m), byte(m >> 8), byte(m >> 16), byte(m >> 24), byte(n), byte(n >> 8), byte(n >> 16), byte(n >> 24)}
	return append(h, content...)
}

func czFmtBase(f string) string {
	if i := strings.IndexByte(f, ':'); i >= 0 {
		return f[:i]
	}
	return f
}

func czFmtArg(f string) string {
	if i := strings.IndexByte(f, ':'); i >= 0 {
		return f[i+1:]
	}
	return ""
}

// czEncode builds the compressed stream for (format, payload); a pure function of its arguments.
func czEncode(f string, p []byte, seed uint64) *czStream {
	r := &Rng{s: seed ^ 0xE1C0DE}
	st := &czStream{}
	need := func(t string) bool {
		if czTools[t] == "" {
			st.skip = t + "-missing"
			return false
		}
		return true
	}
	tool := func(t string, args ...string) {
		if !need(t) {
			return
		}
		out, se, err := czRunTool(p, czTools[t], args...)
		if err != nil {
			st.skip = fmt.Sprintf("%s-failed(%v %s)", t, err, strings.TrimSpace(se))
			return
		}
		st.data = out
	}
	switch base, arg := czFmtBase(f), czFmtArg(f); base {
	case "none":
		d, err := czLibCompress(p, compression.None, r)
		if err != nil {
			st.prob = "CompressStream(None): " + err.Error()
		} else if !bytes.Equal(d, p) {
			st.prob = fmt.Sprintf("CompressStream(None) is not the identity: wrote %d bytes for %d, first difference at %d", len(d), len(p), czFirstDiff(d, p))
		}
		st.data = p
	case "gzip-lib":
		d, err := czLibCompress(p, compression.Gzip, r)
		if err != nil {
			st.prob = "CompressStream(Gzip): " + err.Error()
			return st
		}
		st.data = d
	case "gzip-sys":
		tool("gzip", "-c", "-n")
	case "gzip-cat": // two members: RFC 1952 2.2 "a gzip file consists of a series of members"
		if !need("gzip") {
			return st
		}
		k := len(p) / 2
		a, se, err := czRunTool(p[:k], czTools["gzip"], "-c", "-n")
		if err != nil {
			st.skip = "gzip-failed " + se
			return st
		}
		b, err := czLibCompress(p[k:], compression.Gzip, r)
		if err != nil {
			st.prob = "CompressStream(Gzip): " + err.Error()
			return st
		}
		st.data = append(append([]byte{}, a...), b...)
	case "gzip-pad": // a member whose FEXTRA field (one well-formed subfield) pads the whole stream to a chosen length
		target, _ := strconv.Atoi(arg)
		mk := func(extra []byte) []byte {
			var out bytes.Buffer
			w := gzip.NewWriter(&out)
			w.Extra = extra
			_, _ = w.Write(p)
			_ = w.Close()
			return out.Bytes()
		}
		d := mk(nil)
		// XLEN (2) + SI1 SI2 LEN (4) + data
		if n := target - len(d) - 6; n >= 0 && n+4 <= 0xffff {
			x := make([]byte, 4+n)
			x[0], x[1], x[2], x[3] = 'v', 'f', byte(n), byte(n>>8)
			czFill(x[4:], r)
			d = mk(x)
			if len(d) != target {
				st.note = "gzip-pad:unexpected-length"
			}
		} else {
			st.note = "gzip-pad:nofit"
		}
		st.data = d
	case "bzip2":
		tool("bzip2", "-c")
	case "xz":
		tool("xz", "-c")
	case "zstd":
		st.data = czZstdAll(p)
	case "zstd-crc":
		d, err := czZstdStream(p, true, r)
		if err != nil {
			st.skip = "zstd-encoder: " + err.Error()
			return st
		}
		st.data = d
	case "zstd-sys":
		tool("zstd", "-c", "-q")
	case "zstd-cat":
		k := len(p) / 3
		a := czZstdAll(p[:k])
		b, err := czZstdStream(p[k:], true, r)
		if err != nil {
			st.skip = "zstd-encoder: " + err.Error()
			return st
		}
		st.data = append(append([]byte{}, a...), b...)
	case "zstd-empty9": // the two 9-byte frames of the empty payload without checksum (RFC 8878 3.1.1)
		if arg == "w" {
			// FHD 0x00: window descriptor follows, no content size, no checksum; one empty raw last block
			st.data = []byte{0x28, 0xb5, 0x2f, 0xfd, 0x00, 0x58, 0x01, 0x00, 0x00}
		} else {
			// FHD 0x20: single segment, 1-byte content size 0; one empty raw last block
			st.data = []byte{0x28, 0xb5, 0x2f, 0xfd, 0x20, 0x00, 0x01, 0x00, 0x00}
		}
	case "zstd-skip":
		frame, err := czZstdStream(p, true, r)
		if err != nil {
			st.skip = "zstd-encoder: " + err.Error()
			return st
		}
		st.emptyOK = map[int]bool{}
		var pre []byte
		addSkip := func(nib, n int) {
			c := make([]byte, n)
			czFill(c, r)
			pre = append(pre, czSkippable(nib, c)...)
			st.emptyOK[len(pre)] = true
		}
		trail := false
		if strings.HasPrefix(arg, "T") { // total stream length
			target, _ := strconv.Atoi(arg[1:])
			if pad := target - len(frame) - 8; pad >= 0 {
				addSkip(int(seed&15), pad)
			} else {
				st.note = "zstd-skip:nofit"
				addSkip(0, 0)
			}
		} else {
			for _, it := range strings.Split(arg, ",") {
				if it == "trail" {
					trail = true
					continue
				}
				var nib, n int
				if _, err := fmt.Sscanf(it, "%x/%d", &nib, &n); err != nil {
					st.skip = "bad zstd-skip spec " + arg
					return st
				}
				addSkip(nib, n)
			}
		}
		st.data = append(pre, frame...)
		if trail {
			st.data = append(st.data, czSkippable(0xb, []byte("tail"))...)
		}
	default:
		st.skip = "unknown format " + f
	}
	return st
}

// czZstdBlockEnds walks a zstd stream (RFC 8878 3.1.1: frame header, then blocks with a 3-byte header
// holding Last_Block, Block_Type and Block_Size) and returns the offsets just behind every block and
// frame header; a stream cut there ends exactly where the decoder expects the next header.
func czZstdBlockEnds(d []byte) []int {
	var ends []int
	pos := 0
	for pos+8 <= len(d) {
		v := uint32(d[pos]) | uint32(d[pos+1])<<8 | uint32(d[pos+2])<<16 | uint32(d[pos+3])<<24
		if v >= 0x184D2A50 && v <= 0x184D2A5F {
			n := int(uint32(d[pos+4]) | uint32(d[pos+5])<<8 | uint32(d[pos+6])<<16 | uint32(d[pos+7])<<24)
			pos += 8 + n
			continue
		}
		if v != 0xFD2FB528 {
			break
		}
		fhd := d[pos+4]
		single := fhd>>5&1 == 1
		p := pos + 5
		if !single {
			p++
		}
		p += []int{0, 1, 2, 4}[fhd&3]
		fcs := []int{0, 2, 4, 8}[fhd>>6]
		if single && fcs == 0 {
			fcs = 1
		}
		p += fcs
		ends = append(ends, p)
		for {
			if p+3 > len(d) {
				return ends
			}
			h := int(d[p]) | int(d[p+1])<<8 | int(d[p+2])<<16
			sz := h >> 3
			if h>>1&3 == 1 { // RLE: one byte regenerated Block_Size times
				sz = 1
			}
			p += 3 + sz
			if p > len(d) {
				return ends
			}
			ends = append(ends, p)
			if h&1 == 1 {
				break
			}
		}
		if fhd>>2&1 == 1 {
			p += 4
		}
		pos = p
	}
	return ends
}

func czMagicLen(f string) int {
	switch czFmtBase(f) {
	case "gzip-lib", "gzip-sys", "gzip-cat", "gzip-pad", "bzip2":
		return 3
	case "xz":
		return 6
	case "zstd-skip":
		return 8
	case "none":
		return 0
	}
	return 4
}

func czIsGzip(f string) bool { return strings.HasPrefix(f, "gzip") }

// ---------------------------------------------------------------- running the library

type czOut struct {
	openErr  error
	data     []byte
	readErr  error // nil when the stream ended with io.EOF
	closeErr error
	postN    int
	zeroSpin bool
	oversize bool
	panicked string
	hang     bool
}

const czMaxOut = 64 << 20

func czReadAll(rc io.Reader, rd int, o *czOut) {
	if rd == 0 {
		d, err := io.ReadAll(io.LimitReader(rc, czMaxOut+1))
		o.data = d
		if len(d) > czMaxOut {
			o.oversize = true
		}
		o.readErr = err // ReadAll maps EOF to nil
		return
	}
	buf := make([]byte, rd)
	zeros := 0
	for {
		n, err := rc.Read(buf)
		if n < 0 || n > len(buf) {
			o.panicked = fmt.Sprintf("Read returned n=%d for a %d byte buffer", n, len(buf))
			return
		}
		o.data = append(o.data, buf[:n]...)
		if err == io.EOF {
			return
		}
		if err != nil {
			o.readErr = err
			return
		}
		if n == 0 {
			zeros++
			if zeros > 10000 {
				o.zeroSpin = true
				return
			}
		} else {
			zeros = 0
		}
		if len(o.data) > czMaxOut {
			o.oversize = true
			return
		}
	}
}

// czDecompress runs DecompressStream on the stream with the given source behaviour and read size.
func czDecompress(stream []byte, src string, rd int, seed uint64) *czOut {
	o := &czOut{}
	done := make(chan struct{})
	go func() {
		defer close(done)
		defer func() {
			if p := recover(); p != nil {
				o.panicked = fmt.Sprint(p)
			}
		}()
		rc, err := compression.DecompressStream(czSource(stream, src, seed))
		if err != nil {
			o.openErr = err
			return
		}
		if rc == nil {
			o.panicked = "DecompressStream returned (nil, nil)"
			return
		}
		czReadAll(rc, rd, o)
		if o.readErr == nil && !o.oversize && !o.zeroSpin && o.panicked == "" {
			// after the end: no more bytes may appear
			var b [16]byte
			n, _ := rc.Read(b[:])
			o.postN = n
		}
		o.closeErr = rc.Close()
	}()
	select {
	case <-done:
	case <-time.After(180 * time.Second):
		return &czOut{hang: true}
	}
	return o
}

func czFirstDiff(a, b []byte) int {
	n := len(a)
	if len(b) < n {
		n = len(b)
	}
	for i := 0; i < n; i++ {
		if a[i] != b[i] {
			return i
		}
	}
	if len(a) != len(b) {
		return n
	}
	return -1
}

// clean reports "the reader delivered exactly want and ended cleanly"; otherwise why not.
func (o *czOut) clean(want []byte) (bool, string) {
	switch {
	case o.hang:
		return false, "did not finish within 180 s"
	case o.panicked != "":
		return false, "panic: " + o.panicked
	case o.openErr != nil:
		return false, "DecompressStream error: " + o.openErr.Error()
	case o.readErr != nil:
		return false, fmt.Sprintf("read error after %d bytes: %v", len(o.data), o.readErr)
	case o.zeroSpin:
		return false, "Read keeps returning (0, nil)"
	case o.oversize:
		return false, "output exceeds 64 MiB"
	case !bytes.Equal(o.data, want):
		return false, fmt.Sprintf("clean EOF after %d bytes, expected %d bytes, first difference at offset %d", len(o.data), len(want), czFirstDiff(o.data, want))
	case o.postN != 0:
		return false, fmt.Sprintf("a Read after io.EOF returned %d more bytes", o.postN)
	case o.closeErr != nil:
		return false, "Close error: " + o.closeErr.Error()
	}
	return true, ""
}

func (o *czOut) failed() error {
	switch {
	case o.openErr != nil:
		return o.openErr
	case o.readErr != nil:
		return o.readErr
	case o.closeErr != nil:
		return o.closeErr
	}
	return nil
}

// ---------------------------------------------------------------- one case

type czVerdict struct {
	keys     []string
	problem  string
	sig      string
	nontriv  bool
	compared bool
	skipped  bool
}

type czEnv struct {
	mu      sync.Mutex
	streams map[string]*czOnceStream
}

type czOnceStream struct {
	once sync.Once
	st   *czStream
}

func (e *czEnv) stream(c *czCase) (*czStream, []byte) {
	forNone := czFmtBase(c.Fmt) == "none"
	key := fmt.Sprintf("%s|%d|%s|%d", c.Fmt, c.Len, c.Content, c.PSeed)
	e.mu.Lock()
	ent, ok := e.streams[key]
	if !ok {
		ent = &czOnceStream{}
		e.streams[key] = ent
	}
	e.mu.Unlock()
	payload := czPayload(c.Content, c.Len, c.PSeed, forNone)
	ent.once.Do(func() { ent.st = czEncode(c.Fmt, payload, c.PSeed) })
	return ent.st, payload
}

func czLenClass(n int) string {
	switch {
	case n == 0:
		return "0"
	case n < 10:
		return "1-9"
	case n <= 12:
		return "10-12"
	case n < 32767:
		return "13-32766"
	case n <= 32769:
		return "32767-32769"
	case n <= 65537:
		return "32770-65537"
	}
	return ">65537"
}

func czRunCase(e *czEnv, c *czCase) *czVerdict {
	switch c.Kind {
	case "det":
		return czRunDetect(c)
	case "br":
		return czRunBuffered(c)
	case "ovl":
		return czRunOverlap(c)
	}
	v := &czVerdict{}
	base := czFmtBase(c.Fmt)
	if c.Path == "ext" && czIsGzip(c.Fmt) && czTools["unpigz"] == "" {
		v.skipped = true
		v.keys = append(v.keys, "skipped:"+base+":ext:unpigz-missing")
		return v
	}
	if base == "xz" && czTools["xz"] == "" {
		v.skipped = true
		v.keys = append(v.keys, "skipped:xz:xz-missing")
		return v
	}
	st, payload := e.stream(c)
	if st.skip != "" {
		v.skipped = true
		v.keys = append(v.keys, "skipped:"+base+":"+strings.SplitN(st.skip, "(", 2)[0])
		return v
	}
	if st.prob != "" {
		v.problem = st.prob
		return v
	}
	if st.note != "" {
		v.keys = append(v.keys, "note:"+st.note)
	}
	if c.Kind == "rt" {
		return czRunRoundTrip(c, st, payload, v)
	}
	return czRunCorrupt(c, st, payload, v)
}

func czRunRoundTrip(c *czCase, st *czStream, payload []byte, v *czVerdict) *czVerdict {
	base := czFmtBase(c.Fmt)
	// the reference table must agree that this is what the format label says (guards the generator)
	want := "none"
	switch {
	case czIsGzip(base):
		want = "gzip"
	case base == "bzip2", base == "xz":
		want = base
	case strings.HasPrefix(base, "zstd"):
		want = "zstd"
	}
	if got := czDetect(st.data); got != want && !(want == "none" && len(st.data) == 0) {
		v.problem = ""
		v.keys = append(v.keys, "generator-mismatch:"+base)
		v.skipped = true
		return v
	}
	o := czDecompress(st.data, c.Src, c.Rd, c.PSeed)
	v.compared = true
	v.nontriv = c.Len > 0
	ok, why := o.clean(payload)
	key := fmt.Sprintf("rt:%s:%s:", base, c.Path)
	if !ok {
		v.keys = append(v.keys, key+"FAIL")
		v.problem = fmt.Sprintf("round trip (%s, %d byte payload, %d byte stream): %s", c.Fmt, len(payload), len(st.data), why)
		return v
	}
	v.keys = append(v.keys, key+"ok", "rt-len:"+czLenClass(c.Len), "rt-streamlen:"+czLenClass(len(st.data)), "rt-src:"+c.Src, "rt-rd:"+strconv.Itoa(c.Rd), "rt-content:"+strings.TrimRight(c.Content, "0123456789"))
	// what the library compresses, the standard tool decompresses to the original
	if base == "gzip-lib" && c.Path == "builtin" {
		if czTools["gzip"] == "" {
			v.keys = append(v.keys, "skipped:gzip-dc:gzip-missing")
		} else {
			out, se, err := czRunTool(st.data, czTools["gzip"], "-dc")
			if err != nil || !bytes.Equal(out, payload) {
				v.keys = append(v.keys, "rt:gzip-lib:system-gzip-dc:FAIL")
				v.problem = fmt.Sprintf("`gzip -dc` on the output of CompressStream(Gzip) for a %d byte payload: err=%v stderr=%q, %d bytes out, first difference at %d",
					len(payload), err, strings.TrimSpace(se), len(out), czFirstDiff(out, payload))
				return v
			}
			v.keys = append(v.keys, "rt:gzip-lib:system-gzip-dc:ok")
		}
	}
	return v
}

func czHelperFor(c *czCase, damagedKind string) (string, []string) {
	switch {
	case damagedKind == "xz":
		return "xz", []string{"-d", "-c", "-q"} // exactly as the library starts it
	case damagedKind == "gzip" && c.Path == "ext":
		return czTools["unpigz"], []string{"-d", "-c"}
	}
	return "", nil
}

func czRunCorrupt(c *czCase, st *czStream, payload []byte, v *czVerdict) *czVerdict {
	base := czFmtBase(c.Fmt)
	if c.Off < 0 || c.Off >= len(st.data) {
		v.skipped = true
		v.keys = append(v.keys, "skipped:co:offset-out-of-range")
		return v
	}
	var damaged []byte
	if c.Op == "trunc" {
		damaged = st.data[:c.Off:c.Off]
	} else {
		damaged = append([]byte{}, st.data...)
		damaged[c.Off] ^= 1 << uint(c.Bit&7)
	}
	kind := czDetect(damaged)
	o := czDecompress(damaged, c.Src, c.Rd, c.PSeed)
	v.compared = true
	v.nontriv = true
	key := fmt.Sprintf("co:%s:%s:", base, c.Path)
	roll := "co-class:" + c.Cls + ":"
	emit := func(outcome string) {
		v.keys = append(v.keys, key+outcome, roll+outcome, "co-op:"+c.Op+":"+outcome)
	}
	if o.hang || o.panicked != "" || o.zeroSpin {
		_, why := o.clean(payload)
		emit("FAIL")
		v.problem = fmt.Sprintf("%s at offset %d of a %d byte %s stream: %s", c.Op, c.Off, len(st.data), c.Fmt, why)
		return v
	}
	if kind == "none" {
		// the damage removed the magic: by the detection table this is uncompressed data
		if ok, why := o.clean(damaged); !ok {
			emit("FAIL")
			v.problem = fmt.Sprintf("%s at offset %d of a %d byte %s stream leaves no magic, so the %d damaged bytes must pass through unchanged: %s",
				c.Op, c.Off, len(st.data), c.Fmt, len(damaged), why)
			return v
		}
		emit("passthrough")
		return v
	}
	if ok, _ := o.clean(payload); ok {
		emit("identical")
		return v
	}
	if err := o.failed(); err != nil {
		emit("error")
		// diagnostics of an external helper
		if h, args := czHelperFor(c, kind); h != "" {
			_, se, herr := czRunTool(damaged, h, args...)
			se = strings.TrimSpace(se)
			// the helper prefixes its messages with the name it was started under; compare what follows
			if i := strings.IndexByte(se, '\n'); i >= 0 {
				se = strings.TrimSpace(se[:i])
			}
			if i := strings.Index(se, ": "); i >= 0 && !strings.Contains(se[:i], " ") {
				se = se[i+2:]
			}
			switch {
			case herr == nil:
				v.keys = append(v.keys, "diag:"+kind+":helper-exits-0")
			case se == "":
				v.keys = append(v.keys, "diag:"+kind+":helper-silent")
			case strings.Contains(err.Error(), se):
				v.keys = append(v.keys, "diag:"+kind+":carried")
			default:
				v.keys = append(v.keys, "diag:"+kind+":MISSING")
				v.problem = fmt.Sprintf("%s at offset %d of a %d byte %s stream: the error (%q) does not carry the helper's diagnostics (%q)",
					c.Op, c.Off, len(st.data), c.Fmt, err.Error(), se)
			}
		}
		return v
	}
	if o.oversize {
		emit("oversize")
		return v
	}
	// clean EOF, no error, bytes differ from the payload
	if c.Op == "trunc" && st.emptyOK[c.Off] && len(o.data) == 0 && o.postN == 0 {
		emit("valid-prefix") // cut exactly after complete skippable frames: a complete stream of nothing
		return v
	}
	if c.Op == "flip" && base == "zstd" {
		emit("undetectable-no-checksum") // the frame carries no checksum: nothing promises detection
		return v
	}
	if c.Op == "flip" && strings.HasPrefix(c.Fmt, "zstd-skip") && c.Off >= 4 && c.Off < 8 && len(st.data) >= 8 && len(o.data) == 0 {
		// the flip changed the size field of the leading skippable frame so that the frame now covers exactly the
		// rest of the stream: a well-formed zstd stream made of one skippable frame, which decodes to nothing
		// (skippable frames have no checksum; no decoder can tell)
		hdr := append([]byte{}, st.data[4:8]...)
		hdr[c.Off-4] ^= 1 << uint(c.Bit)
		if int(binary.LittleEndian.Uint32(hdr)) == len(st.data)-8 {
			emit("valid-alternative-stream")
			return v
		}
	}
	_, why := o.clean(payload)
	emit("FAIL")
	what := "truncation"
	if c.Op == "flip" {
		what = fmt.Sprintf("flip of bit %d", c.Bit)
	}
	v.problem = fmt.Sprintf("%s at offset %d of a %d byte %s stream (still recognised as %s): silent corruption - %s",
		what, c.Off, len(st.data), c.Fmt, kind, why)
	return v
}

// ---------------------------------------------------------------- detection

func czRunDetect(c *czCase) *czVerdict {
	v := &czVerdict{compared: true}
	in, err := hex.DecodeString(c.Hex)
	if err != nil {
		v.skipped = true
		return v
	}
	cp := append([]byte{}, in...)
	var got string
	func() {
		defer func() {
			if p := recover(); p != nil {
				got = fmt.Sprint("panic: ", p)
			}
		}()
		got = czLibName(compression.Detect(in))
	}()
	want := czDetect(cp)
	v.nontriv = want != "none" || len(in) >= 2
	if got != want {
		v.keys = append(v.keys, "det:FAIL")
		v.problem = fmt.Sprintf("Detect(%x) = %s, the format specifications say %s", cp, got, want)
		return v
	}
	if !bytes.Equal(in, cp) {
		v.problem = fmt.Sprintf("Detect modified its input %x -> %x", cp, in)
		return v
	}
	v.keys = append(v.keys, "det:"+c.Cls+":"+want)
	return v
}

var czMagics = []struct{ name, magic string }{
	{"bzip2", "BZh"}, {"gzip", "\x1f\x8b\x08"}, {"xz", "\xfd7zXZ\x00"}, {"zstd", "\x28\xb5\x2f\xfd"},
}

func czDetectCases(rng *Rng, nRandom int) []*czCase {
	var out []*czCase
	add := func(cls string, b []byte) {
		out = append(out, &czCase{Kind: "det", Cls: cls, Hex: hex.EncodeToString(b)})
	}
	tail := func(n int) []byte {
		b := make([]byte, n)
		switch rng.intn(3) {
		case 0:
			czFill(b, rng)
		case 1:
			for i := range b {
				b[i] = 0xff
			}
		}
		return b
	}
	add("empty", nil)
	for _, m := range czMagics {
		mg := []byte(m.magic)
		add("magic", mg)
		for k := 1; k <= 10; k++ {
			add("magic+tail", append(append([]byte{}, mg...), tail(k)...))
		}
		for k := 0; k < len(mg); k++ {
			add("magic-truncated", mg[:k])
		}
		for i := 0; i < len(mg)*8; i++ {
			for _, tl := range []int{0, 1 + rng.intn(10), 10 - len(mg)} {
				b := append(append([]byte{}, mg...), tail(tl)...)
				b[i/8] ^= 1 << uint(i%8)
				add("magic-bitflip", b)
			}
		}
		// one byte replaced / first byte dropped / preceded by a byte
		for i := range mg {
			b := append(append([]byte{}, mg...), tail(4)...)
			b[i] = byte(rng.next())
			add("magic-bytechange", b)
		}
		add("magic-shifted", append([]byte{0}, mg...))
		add("magic-shifted", append(append([]byte{}, mg[1:]...), tail(6)...))
	}
	skipVals := []uint32{0x184D2A4F, 0x184D2A50, 0x184D2A51, 0x184D2A58, 0x184D2A5E, 0x184D2A5F, 0x184D2A60, 0x184D2A40,
		0x184D2AD0, 0x184D2B50, 0x184C2A50, 0x194D2A50, 0x084D2A50, 0x984D2A50, 0x184D2A00, 0x502A4D18, 0x5F2A4D18}
	for _, sv := range skipVals {
		for l := 4; l <= 12; l++ {
			b := append([]byte{byte(sv), byte(sv >> 8), byte(sv >> 16), byte(sv >> 24)}, tail(l-4)...)
			cls := "skippable-outside"
			if sv >= 0x184D2A50 && sv <= 0x184D2A5F {
				cls = "skippable-in-range"
				if l < 8 {
					cls = "skippable-short"
				}
			}
			add(cls, b)
		}
		add("skippable-magic-truncated", []byte{byte(sv), byte(sv >> 8), byte(sv >> 16)})
	}
	// every nibble, exactly 8 bytes and 7 bytes
	for nib := 0; nib < 16; nib++ {
		b := czSkippable(nib, nil)
		add("skippable-in-range", b)
		add("skippable-short", b[:7])
		// single bit flips of the skippable magic
		for i := 0; i < 32; i++ {
			if nib%5 != 0 {
				continue
			}
			d := append(append([]byte{}, b...), tail(2)...)
			d[i/8] ^= 1 << uint(i%8)
			add("skippable-bitflip", d)
		}
	}
	for i := 0; i < nRandom; i++ {
		var b []byte
		switch rng.intn(4) {
		case 0:
			b = tail(rng.intn(13))
			czFill(b, rng)
		case 1:
			m := czMagics[rng.intn(len(czMagics))].magic
			b = append([]byte(m), tail(rng.intn(8))...)
			if rng.chance(1, 2) && len(b) > 0 {
				b[rng.intn(len(m))] ^= 1 << uint(rng.intn(8))
			}
			b = b[:rng.intn(len(b)+1)]
		case 2:
			b = czSkippable(rng.intn(16), tail(rng.intn(5)))
			if rng.chance(1, 2) {
				b[rng.intn(4)] ^= 1 << uint(rng.intn(8))
			}
			b = b[:rng.intn(len(b)+1)]
		default:
			b = tail(rng.intn(12))
			if len(b) > 0 {
				b[0] = []byte{0x42, 0x1f, 0xfd, 0x28, 0x50, 0x5f}[rng.intn(6)]
			}
		}
		add("random", b)
	}
	return out
}

// ---------------------------------------------------------------- pooled buffered reader

func czRunBuffered(c *czCase) *czVerdict {
	v := &czVerdict{compared: true, nontriv: c.Len > 0}
	data := czPayload(c.Content, c.Len, c.PSeed, false)
	fail := func(f string, a ...interface{}) *czVerdict {
		v.keys = append(v.keys, "br:FAIL")
		v.problem = fmt.Sprintf("buffered reader over %d bytes (source %s, read size %d): ", c.Len, c.Src, c.Rd) + fmt.Sprintf(f, a...)
		return v
	}
	done := make(chan *czVerdict, 1)
	go func() {
		var res *czVerdict
		defer func() {
			if p := recover(); p != nil {
				res = fail("panic: %v", p)
			}
			done <- res
		}()
		br := compression.VerifNewBufferedReader(czSource(data, c.Src, c.PSeed))
		if !br.HasBuffer() {
			res = fail("no buffer held before the first read")
			return
		}
		// the sniff: Peek(10) gives the first min(10, len) bytes, io.EOF exactly when there are fewer
		if c.PSeed&1 == 0 {
			pk, err := br.Peek(10)
			n := c.Len
			if n > 10 {
				n = 10
			}
			if !bytes.Equal(pk, data[:n]) {
				res = fail("Peek(10) = %x, the source begins %x", pk, data[:n])
				return
			}
			if c.Len >= 10 && err != nil || c.Len < 10 && err != io.EOF {
				res = fail("Peek(10) error = %v", err)
				return
			}
			if !br.HasBuffer() {
				res = fail("buffer released by Peek")
				return
			}
		}
		rd := c.Rd
		if rd == 0 {
			rd = 512
		}
		buf := make([]byte, rd)
		var got []byte
		zeros := 0
		for {
			n, err := br.Read(buf)
			if n < 0 || n > len(buf) {
				res = fail("Read returned n=%d", n)
				return
			}
			got = append(got, buf[:n]...)
			if err == io.EOF {
				break
			}
			if err != nil {
				res = fail("Read error %v after %d bytes", err, len(got))
				return
			}
			if !br.HasBuffer() {
				res = fail("buffer released before EOF (after %d bytes)", len(got))
				return
			}
			if n == 0 {
				if zeros++; zeros > 10000 {
					res = fail("Read keeps returning (0, nil)")
					return
				}
			} else {
				zeros = 0
			}
			if len(got) > len(data) {
				break
			}
		}
		if !bytes.Equal(got, data) {
			res = fail("read %d bytes, source has %d, first difference at %d", len(got), len(data), czFirstDiff(got, data))
			return
		}
		if br.HasBuffer() {
			res = fail("buffer still held after the Read that returned io.EOF")
			return
		}
		for i := 0; i < 2; i++ {
			if n, err := br.Read(buf); n != 0 || err != io.EOF {
				res = fail("Read after EOF = (%d, %v), want (0, EOF)", n, err)
				return
			}
			for _, k := range []int{1, 10, 0} {
				if pk, err := br.Peek(k); len(pk) != 0 || err != io.EOF {
					res = fail("Peek(%d) after EOF = (%d bytes, %v), want (none, EOF)", k, len(pk), err)
					return
				}
			}
			if br.HasBuffer() {
				res = fail("buffer reappeared after EOF")
				return
			}
		}
		v.keys = append(v.keys, "br:ok", "br-len:"+czLenClass(c.Len), "br-src:"+c.Src, "br-rd:"+strconv.Itoa(c.Rd))
		res = v
	}()
	select {
	case r := <-done:
		return r
	case <-time.After(120 * time.Second):
		return fail("did not finish within 120 s")
	}
}

// ---------------------------------------------------------------- generation

var czSrcModes = []string{"bytes", "bytes", "one", "chunk", "dataerr"}
var czReadSizes = []int{0, 0, 7, 512, 4096, 32768, 65536}

func czPickRd(rng *Rng, n int) int {
	rd := czReadSizes[rng.intn(len(czReadSizes))]
	if n <= 4097 && rng.chance(1, 6) {
		rd = 1
	}
	return rd
}

func czLengths(thorough bool) []int {
	ls := []int{}
	for i := 0; i <= 12; i++ {
		ls = append(ls, i)
	}
	ls = append(ls, 511, 512, 513, 4095, 4096, 4097, 32767, 32768, 32769, 65535, 65536, 65537, 1<<20)
	if thorough {
		ls = append(ls, 3<<20)
	}
	return ls
}

var czSkipVariants = []string{"zstd-skip:0/0", "zstd-skip:f/1", "zstd-skip:7/2", "zstd-skip:3/3,c/0", "zstd-skip:a/32760", "zstd-skip:T32768",
	"zstd-skip:5/0,trail", "zstd-skip:T32767", "zstd-skip:T32769", "zstd-skip:e/65528,1/7", "zstd-skip:T65536"}
var czPadVariants = []string{"gzip-pad:32768", "gzip-pad:32767", "gzip-pad:32769", "gzip-pad:65536", "gzip-pad:4096"}

func czGenerate(cfg *Config, rng *Rng) []*czCase {
	var cases []*czCase
	contents := []string{"zeros", "text", "rand"}
	fixed := []string{"none", "gzip-lib", "gzip-sys", "gzip-cat", "bzip2", "xz", "zstd", "zstd-crc", "zstd-cat", "zstd-sys"}
	both := func(c czCase) {
		for _, p := range []string{"ext", "builtin"} {
			d := c
			d.Path = p
			// source behaviour and read size vary independently per path
			d.Src = czSrcModes[rng.intn(len(czSrcModes))]
			d.Rd = czPickRd(rng, c.Len)
			cases = append(cases, &d)
		}
	}
	// 1+4: the grid of lengths x contents x formats
	idx := 0
	for _, l := range czLengths(cfg.thorough()) {
		for _, ct := range contents {
			seed := rng.next()
			fmts := append([]string{}, fixed...)
			fmts = append(fmts, czSkipVariants[idx%len(czSkipVariants)], czSkipVariants[(idx+4)%len(czSkipVariants)], czPadVariants[idx%len(czPadVariants)])
			idx++
			for _, f := range fmts {
				both(czCase{Kind: "rt", Fmt: f, Len: l, Content: ct, PSeed: seed})
			}
		}
		// uncompressed data that begins almost like a compressed stream
		if l >= 2 && l <= 4097 {
			for k := 0; k < 4; k++ {
				both(czCase{Kind: "rt", Fmt: "none", Len: l, Content: "near" + strconv.Itoa(rng.intn(len(czNear))), PSeed: rng.next()})
			}
		}
	}
	for _, a := range []string{"zstd-empty9:s", "zstd-empty9:w"} {
		for i := 0; i < 3; i++ {
			both(czCase{Kind: "rt", Fmt: a, Len: 0, Content: "zeros", PSeed: rng.next()})
		}
	}
	// random lengths, biased to the sniff window and the 32 KiB buffer
	nr := cfg.count(150, 4000)
	if cfg.N > 0 {
		nr = cfg.N * 10
	}
	all := append(append(append([]string{}, fixed...), czSkipVariants...), czPadVariants...)
	for i := 0; i < nr; i++ {
		var l int
		switch rng.intn(6) {
		case 0:
			l = rng.intn(24)
		case 1:
			l = 32768 - 16 + rng.intn(32)
		case 2:
			l = 65536 - 16 + rng.intn(32)
		case 3:
			l = rng.intn(200000)
		default:
			l = rng.intn(70000)
		}
		c := czCase{Kind: "rt", Fmt: all[rng.intn(len(all))], Len: l, Content: contents[rng.intn(3)], PSeed: rng.next()}
		if c.Fmt == "none" && rng.chance(1, 3) {
			c.Content = "near" + strconv.Itoa(rng.intn(len(czNear)))
		}
		both(c)
	}
	// 3: corruption
	flips := cfg.count(12, 100)
	coFmts := []string{"gzip-lib", "gzip-sys", "bzip2", "xz", "zstd", "zstd-crc", "zstd-sys", "zstd-skip:3/3,c/0", "zstd-skip:f/1", "gzip-pad:32768"}
	for _, f := range coFmts {
		type pl struct {
			n  int
			ct string
		}
		pls := []pl{{90000 + rng.intn(20000), "rand"}, {200 + rng.intn(1800), "text"}}
		if strings.HasPrefix(f, "zstd") {
			pls = append(pls, pl{280000 + rng.intn(150000), "rand"}) // several blocks
		}
		if cfg.thorough() && cfg.N == 0 {
			pls = append(pls, pl{90000 + rng.intn(20000), "rand"}, pl{1 + rng.intn(300), "text"}, pl{30000 + rng.intn(6000), "text"}, pl{32768 + rng.intn(3), "rand"})
		}
		for _, p := range pls {
			seed := rng.next()
			probe := &czCase{Kind: "rt", Fmt: f, Len: p.n, Content: p.ct, PSeed: seed}
			st := czEncode(f, czPayload(p.ct, p.n, seed, false), seed)
			if st.skip != "" || st.prob != "" {
				// still emit one case so that the skip / problem is reported through the normal path
				d := *probe
				d.Kind, d.Op, d.Cls, d.Path, d.Src = "co", "trunc", "t0", "builtin", "bytes"
				cases = append(cases, &d)
				continue
			}
			n := len(st.data)
			type dm struct {
				op, cls  string
				off, bit int
			}
			var dms []dm
			seen := map[int]bool{}
			tr := func(cls string, off int) {
				if off < 0 || off >= n || seen[off] {
					return
				}
				seen[off] = true
				dms = append(dms, dm{"trunc", cls, off, 0})
			}
			tr("t0", 0)
			tr("t1", 1)
			tr("t2", 2)
			tr("tmagic", czMagicLen(f))
			tr("t9", 9)
			tr("t10", 10)
			tr("t11", 11)
			tr("tmid", n/2)
			tr("tlast8", n-8)
			tr("tlast1", n-1)
			tr("t32k", 32768)
			tr("t32k-1", 32767)
			var fr []int
			for off := range st.emptyOK {
				fr = append(fr, off)
			}
			sort.Ints(fr)
			for _, off := range fr {
				tr("tframe", off)
			}
			if strings.HasPrefix(f, "zstd") {
				be := czZstdBlockEnds(st.data)
				for i, off := range be {
					if i < 4 || i >= len(be)-3 || rng.chance(1, 4) {
						tr("tblock", off)
					}
				}
			}
			for i := 0; i < flips/4; i++ {
				tr("trand", rng.intn(n))
			}
			nh, nt := flips/3, flips/4
			for i := 0; i < flips; i++ {
				var off int
				cls := "flip-body"
				switch {
				case i < nh:
					lim := 16
					if st.emptyOK != nil {
						lim = 32
					}
					if lim > n {
						lim = n
					}
					off, cls = rng.intn(lim), "flip-header"
				case i < nh+nt:
					lim := 12
					if lim > n {
						lim = n
					}
					off, cls = n-1-rng.intn(lim), "flip-trailer"
				default:
					off = rng.intn(n)
				}
				dms = append(dms, dm{"flip", cls, off, rng.intn(8)})
			}
			for _, d := range dms {
				c := *probe
				c.Kind, c.Op, c.Cls, c.Off, c.Bit = "co", d.op, d.cls, d.off, d.bit
				if czIsGzip(f) {
					both(c)
				} else {
					// only the gzip path depends on the environment; alternate for the others
					c.Path = []string{"ext", "builtin"}[rng.intn(2)]
					c.Src = czSrcModes[rng.intn(len(czSrcModes))]
					c.Rd = czPickRd(rng, p.n)
					cases = append(cases, &c)
				}
			}
		}
	}
	// 2: detection
	cases = append(cases, czDetectCases(rng, cfg.count(2000, 40000))...)
	// 5: the pooled buffered reader
	for _, l := range czLengths(cfg.thorough()) {
		for _, src := range []string{"bytes", "one", "chunk", "dataerr"} {
			rds := []int{7, 512, 4096, 32768, 65536}
			if l <= 4097 {
				rds = append(rds, 1)
			}
			for _, rd := range rds {
				if l >= 1<<20 && rd < 512 {
					continue
				}
				cases = append(cases, &czCase{Kind: "br", Len: l, Content: "rand", PSeed: rng.next(), Src: src, Rd: rd})
			}
		}
	}
	for i := 0; i < cfg.count(100, 1000); i++ {
		l := rng.intn(70000)
		if rng.chance(1, 3) {
			l = 32768 - 4 + rng.intn(8)
		}
		cases = append(cases, &czCase{Kind: "br", Len: l, Content: "rand", PSeed: rng.next(), Src: czSrcModes[1+rng.intn(4)], Rd: []int{1, 7, 512, 4096, 32768, 65536}[rng.intn(6)]})
	}
	// overlapping streams: several streams are opened before any of them is read
	ovlFmts := []string{"none+none", "none+none+none", "none+gzip-lib+none", "gzip-lib+none", "none+zstd+none+bzip2", "zstd+zstd", "gzip-lib+gzip-lib+none"}
	for i := 0; i < cfg.count(40, 400); i++ {
		l := []int{0, 5, 100, 4096, 32767, 32768, 32769, 40000, 70000}[rng.intn(9)]
		cases = append(cases, &czCase{Kind: "ovl", Fmt: ovlFmts[rng.intn(len(ovlFmts))], Len: l, Content: []string{"text", "rand"}[rng.intn(2)], PSeed: rng.next(),
			Rd: []int{0, 1, 7, 512, 4096, 32768}[rng.intn(6)]})
	}
	return cases
}

// czRunOverlap: C16 for streams whose lifetimes overlap — every stream is opened (DecompressStream has returned)
// before the first byte of any of them is read; then they are drained in an order chosen by the seed.  Each must
// still yield exactly its own payload.
func czRunOverlap(c *czCase) *czVerdict {
	v := &czVerdict{}
	fmts := strings.Split(c.Fmt, "+")
	type one struct {
		want []byte
		rc   io.ReadCloser
	}
	var all []one
	r := &Rng{s: c.PSeed}
	for k, f := range fmts {
		p := czPayload(c.Content, c.Len+k, c.PSeed+uint64(k)*977, f == "none")
		st := czEncode(f, p, c.PSeed+uint64(k))
		if st.skip != "" || st.prob != "" {
			v.skipped = true
			v.keys = append(v.keys, "skipped:ovl")
			for _, o := range all {
				o.rc.Close()
			}
			return v
		}
		rc, err := compression.DecompressStream(czSource(st.data, "chunk", c.PSeed+uint64(k)))
		if err != nil {
			v.problem = fmt.Sprintf("overlap (%s): opening stream %d failed: %v", c.Fmt, k, err)
			return v
		}
		all = append(all, one{p, rc})
	}
	order := make([]int, len(all))
	for i := range order {
		order[i] = i
	}
	for i := len(order) - 1; i > 0; i-- {
		j := r.intn(i + 1)
		order[i], order[j] = order[j], order[i]
	}
	v.compared, v.nontriv = true, c.Len > 0
	v.keys = append(v.keys, "ovl:"+c.Fmt)
	for _, k := range order {
		var got []byte
		var err error
		if c.Rd == 0 {
			got, err = io.ReadAll(all[k].rc)
		} else {
			buf := make([]byte, c.Rd)
			for {
				n, e := all[k].rc.Read(buf)
				got = append(got, buf[:n]...)
				if e == io.EOF {
					break
				}
				if e != nil {
					err = e
					break
				}
			}
		}
		all[k].rc.Close()
		if v.problem != "" {
			continue
		}
		if err != nil {
			v.problem = fmt.Sprintf("overlap (%s, %d streams open at once): stream %d failed: %v", c.Fmt, len(all), k, err)
		} else if !bytes.Equal(got, all[k].want) {
			v.problem = fmt.Sprintf("overlap (%s, %d streams open at once, drained in order %v): stream %d (%s) returned %d bytes, first difference at %d of %d expected — clean end of stream after wrong bytes",
				c.Fmt, len(all), order, k, fmts[k], len(got), czFirstDiff(got, all[k].want), len(all[k].want))
		}
	}
	return v
}

// ---------------------------------------------------------------- driver

func czSetPath(p string, variant int) {
	if p == "builtin" {
		os.Setenv("MOBY_DISABLE_PIGZ", []string{"1", "true"}[variant%2])
	} else if variant%2 == 0 {
		os.Unsetenv("MOBY_DISABLE_PIGZ")
	} else {
		os.Setenv("MOBY_DISABLE_PIGZ", "0")
	}
}

func czRunAll(e *czEnv, cases []*czCase) []*czVerdict {
	out := make([]*czVerdict, len(cases))
	pass := func(sel func(*czCase) bool) {
		var idx []int
		for i, c := range cases {
			if sel(c) {
				idx = append(idx, i)
			}
		}
		var wg sync.WaitGroup
		ch := make(chan int)
		for w := 0; w < 16; w++ {
			wg.Add(1)
			go func() {
				defer wg.Done()
				for i := range ch {
					out[i] = czRunCase(e, cases[i])
				}
			}()
		}
		for _, i := range idx {
			ch <- i
		}
		close(ch)
		wg.Wait()
	}
	// the library reads MOBY_DISABLE_PIGZ on every call; the environment is process wide, so the two
	// paths run one after the other (each with both spellings of the setting)
	for variant := 0; variant < 2; variant++ {
		for _, p := range []string{"ext", "builtin"} {
			czSetPath(p, variant)
			pass(func(c *czCase) bool {
				if c.Kind == "det" || c.Kind == "br" || c.Kind == "ovl" {
					return p == "ext" && variant == 0
				}
				return c.Path == p && int(c.PSeed>>7)%2 == variant
			})
		}
		// the streams of this variant are not needed again
		e.mu.Lock()
		e.streams = map[string]*czOnceStream{}
		e.mu.Unlock()
	}
	os.Unsetenv("MOBY_DISABLE_PIGZ")
	return out
}

func runCompress(cfg *Config) *Result {
	res := newResult("grid of payload lengths (0..12, 511..513, 4095..4097, 32 KiB +-1, 64 KiB +-1, 1 MiB, thorough 3 MiB) x {zeros, text, random, near-magic} x " +
		"{none, gzip by the library / system gzip / two members / FNAME-padded to 32 KiB, bzip2, xz, zstd with and without checksum / two frames / system zstd / " +
		"skippable frames in front / the 9-byte empty frame} x {unpigz, MOBY_DISABLE_PIGZ} x source chunking x read size, plus random lengths; " +
		"truncations and bit flips of a ~100 KB random and a small text payload per format; Detect on magic neighbourhoods; the pooled reader. " +
		"Non-trivial: round trips of a non-empty payload, every damaged stream, detection inputs of >= 2 bytes or with a format expected; distinct by case text")
	czLookTools()
	for _, t := range []string{"gzip", "bzip2", "xz", "unpigz", "zstd"} {
		if czTools[t] == "" {
			res.count("tool-missing:" + t)
			res.Notes = append(res.Notes, "helper "+t+" is not on PATH: the cases that need it are counted as skipped")
		}
	}
	e := &czEnv{streams: map[string]*czOnceStream{}}
	var cases []*czCase
	if cfg.Replay != "" {
		b, err := os.ReadFile(cfg.Replay)
		if err != nil {
			res.SetupError = err.Error()
			return res
		}
		var rp struct {
			Case string `json:"case"`
		}
		if err := json.Unmarshal(b, &rp); err != nil {
			res.SetupError = "replay file: " + err.Error()
			return res
		}
		if strings.HasPrefix(rp.Case, "slowtail ") {
			os.Unsetenv("MOBY_DISABLE_PIGZ")
			czStartSlowTail(cfg.Seed).collect(res)
			return res
		}
		if strings.HasPrefix(rp.Case, "writers ") {
			czWriterProbe(res, cfg.Seed)
			return res
		}
		if strings.HasPrefix(rp.Case, "fileoff ") {
			czFileOffsetProbe(res, cfg.Seed)
			return res
		}
		c, err := czParseCase(rp.Case)
		if err != nil {
			res.SetupError = "replay case: " + err.Error()
			return res
		}
		if c.Path == "" {
			c.Path = "ext"
		}
		// run it in the pass its seed selects, with the same spelling of the setting
		variant := int(c.PSeed>>7) % 2
		if c.Kind == "det" || c.Kind == "br" || c.Kind == "ovl" {
			variant = 0
		}
		czSetPath(c.Path, variant)
		v := czRunCase(e, c)
		os.Unsetenv("MOBY_DISABLE_PIGZ")
		czRecord(res, c, v)
		return res
	}
	rng := newRng(cfg.Seed)
	cases = czGenerate(cfg, rng)
	// the external gzip path is the default before the passes start switching it
	os.Unsetenv("MOBY_DISABLE_PIGZ")
	slow := czStartSlowTail(cfg.Seed)
	time.Sleep(300 * time.Millisecond) // let both streams be opened (the gzip path is chosen at open time)
	verdicts := czRunAll(e, cases)
	czWriterProbe(res, cfg.Seed)
	czFileOffsetProbe(res, cfg.Seed)
	slow.collect(res)
	for i, c := range cases {
		if verdicts[i] == nil {
			continue
		}
		czRecord(res, c, verdicts[i])
	}
	if res.Compared == 0 && res.SetupError == "" {
		res.SetupError = "nothing could be tested"
	}
	// samples: one of each kind
	seen := map[string]bool{}
	for i, c := range cases {
		k := c.Kind + c.Op
		if verdicts[i] != nil && !verdicts[i].skipped && !seen[k] && (c.Len > 12 || c.Kind == "det" && len(c.Hex) > 8) {
			seen[k] = true
			res.sample(c.text() + " => " + strings.Join(verdicts[i].keys, " "))
		}
	}
	return res
}

func czRecord(res *Result, c *czCase, v *czVerdict) {
	sort.Strings(v.keys)
	for _, k := range v.keys {
		res.count(k)
	}
	if v.skipped && v.problem == "" {
		res.count("skipped-total")
		return
	}
	res.Evaluations++
	res.count("kind:" + c.Kind)
	if v.compared {
		res.Compared++
	}
	if v.nontriv {
		res.nontrivial(c.text())
	}
	if v.problem != "" {
		res.problem(Problem{Kind: "oracle", Stream: "compress", Case: c.text(), Msg: "C16: " + v.problem, Sig: v.sig})
	}
}
