package main

import (
	"fmt"
	"io"
	"os"
	"sync"
	"time"

	"github.com/moby/go-archive/compression"
)

// A compressed source that slows to a trickle (a registry connection that goes quiet): the first part of the
// stream arrives at once, then one byte every 30 ms.  A consumer that gives up and closes the decompressed stream
// must get its Close back promptly — whether a helper process or the built-in decoder is waiting on the source.
// (The main cases use sources that deliver everything at once, so a helper is never left waiting on its input.
// A source whose Read never returns at all is outside the statement: nothing can interrupt a foreign Read, and
// with such a source Close does wait — for cmd.Wait's input copier, or for the zstd decoder's reader goroutine.)
type stStall struct {
	data    []byte
	limit   int
	off     int
	release chan struct{}
	once    sync.Once
}

func (s *stStall) Read(p []byte) (int, error) {
	if s.off >= s.limit {
		select {
		case <-s.release:
			return 0, io.ErrUnexpectedEOF
		case <-time.After(30 * time.Millisecond):
		}
		if s.off >= len(s.data) || len(p) == 0 {
			return 0, io.EOF
		}
		p[0] = s.data[s.off]
		s.off++
		return 1, nil
	}
	n := copy(p, s.data[s.off:s.limit])
	s.off += n
	return n, nil
}

func (s *stStall) free() { s.once.Do(func() { close(s.release) }) }

func stStallProbe(res *Result) {
	// zstd is left out: the decoder of klauspost/compress reads ahead in a goroutine of its own and its Close waits
	// for the Read that is in flight — with a trickling source that is as long as the current block takes to
	// arrive (seconds to minutes, depending on the data), and nothing in /repo could shorten it.
	for _, format := range []string{"xz", "gzip", "gzip-builtin", "bzip2"} {
		base := format
		if format == "gzip-builtin" {
			base = "gzip"
			os.Setenv("MOBY_DISABLE_PIGZ", "1")
		} else {
			os.Unsetenv("MOBY_DISABLE_PIGZ")
		}
		blob, err := stBlob(base, 3, 300000)
		if err != nil {
			res.count("stall-skipped:" + format)
			continue
		}
		for _, limit := range []int{64, 4096, len(blob) / 2} {
			caseText := fmt.Sprintf("stall format=%s limit=%d", format, limit)
			src := &stStall{data: blob, limit: limit, release: make(chan struct{})}
			var rc io.ReadCloser
			opened := make(chan error, 1)
			go func() {
				var e error
				rc, e = compression.DecompressStream(src)
				opened <- e
			}()
			select {
			case e := <-opened:
				if e != nil {
					src.free()
					res.count("stall-open-error:" + format)
					continue
				}
			case <-time.After(40 * time.Second):
				src.free()
				res.Evaluations++
				res.problem(Problem{Kind: "oracle", Stream: "streams", Case: caseText, Msg: fmt.Sprintf("C17: DecompressStream(%s) did not return within 40 s although %d bytes of input were available", format, limit)})
				continue
			}
			res.Evaluations++
			res.count("stall:" + format)
			closed := make(chan struct{})
			go func() { rc.Close(); close(closed) }()
			select {
			case <-closed:
			case <-time.After(25 * time.Second):
				res.problem(Problem{Kind: "oracle", Stream: "streams", Case: caseText,
					Msg: fmt.Sprintf("C17: Close of the decompressed %s stream did not return within 25 s while its source trickles (one byte per 30 ms) after %d bytes: the consumer stopped, the producer (helper process or decoder) was not made to finish", format, limit)})
			}
			src.free()
			select {
			case <-closed:
			case <-time.After(5 * time.Second):
			}
		}
	}
	os.Unsetenv("MOBY_DISABLE_PIGZ")
}
