package main

import (
	"archive/tar"
	"bytes"
	"fmt"
	"io"
	"path/filepath"
	"sort"
	"strconv"
	"strings"
)

// Node is one object of a tree (initial world or scanned result), canonical form.
type Node struct {
	Path   string
	Kind   byte // d r s c b f
	Perm   uint32
	Uid    int
	Gid    int
	Mtime  int64
	MtimeX bool // implicit ("*")
	Data   string
	Target string
	Maj    uint32
	Min    uint32
	Group  int
	Cap    string
	Opq    bool // trusted.overlay.opaque = "y"
}

func (n Node) fields() []string {
	mt := strconv.FormatInt(n.Mtime, 10)
	if n.MtimeX {
		mt = "*"
	}
	data, target := "-", "-"
	if n.Kind == 'r' {
		data = hx(n.Data)
	}
	if n.Kind == 's' {
		target = hx(n.Target)
	}
	maj, min := uint32(0), uint32(0)
	if n.Kind == 'c' || n.Kind == 'b' {
		maj, min = n.Maj, n.Min
	}
	return []string{hx(n.Path), string(n.Kind), strconv.Itoa(int(n.Perm)), strconv.Itoa(n.Uid), strconv.Itoa(n.Gid), mt,
		data, target, strconv.Itoa(int(maj)), strconv.Itoa(int(min)), strconv.Itoa(n.Group), capCol(n)}
}

func capCol(n Node) string {
	c := hx(n.Cap)
	if n.Opq {
		c += "~o"
	}
	return c
}

func renderTree(ns []Node) string {
	parts := []string{"T", strconv.Itoa(len(ns))}
	for _, n := range ns {
		parts = append(parts, n.fields()...)
	}
	return strings.Join(parts, " ")
}

// Ent is a parsed tar entry as the model sees it.
type Ent struct {
	Typ      string
	Name     string
	Linkname string
	Mode     int64
	Uid, Gid int
	Mtime    int64
	Size     int64
	Body     string
	Maj, Min int64
	Xattrs   [][2]string
	TypeByte byte
}

func (e Ent) fields() []string {
	f := []string{e.Typ, hx(e.Name), hx(e.Linkname), strconv.FormatInt(e.Mode&0o7777, 10), strconv.Itoa(e.Uid), strconv.Itoa(e.Gid),
		strconv.FormatInt(e.Mtime, 10), strconv.FormatInt(e.Size, 10), hx(e.Body), strconv.FormatInt(e.Maj, 10), strconv.FormatInt(e.Min, 10),
		strconv.Itoa(len(e.Xattrs))}
	for _, x := range e.Xattrs {
		f = append(f, hx(x[0]), hx(x[1]))
	}
	return f
}

type IDRange struct{ C, H, N int }

// OptSpec mirrors the TarOptions fields the extractors read.
type OptSpec struct {
	NoLchown    bool
	Chown       *[2]int
	NoOverwrite bool
	Excludes    []string
	UidMap      []IDRange
	GidMap      []IDRange
	UserNS      bool
	BestEffort  bool
	Overlay     bool
}

func rangesStr(rs []IDRange) string {
	var p []string
	for _, r := range rs {
		p = append(p, fmt.Sprintf("%d:%d:%d", r.C, r.H, r.N))
	}
	return strings.Join(p, ";")
}

func (o OptSpec) String() string {
	var p []string
	if o.NoLchown {
		p = append(p, "noLchown=1")
	}
	if o.Chown != nil {
		p = append(p, fmt.Sprintf("chown=%d:%d", o.Chown[0], o.Chown[1]))
	}
	if o.NoOverwrite {
		p = append(p, "noOverwrite=1")
	}
	if len(o.Excludes) > 0 {
		var xs []string
		for _, x := range o.Excludes {
			xs = append(xs, hx(x))
		}
		p = append(p, "excl="+strings.Join(xs, ";"))
	}
	if len(o.UidMap) > 0 {
		p = append(p, "uidmap="+rangesStr(o.UidMap))
	}
	if len(o.GidMap) > 0 {
		p = append(p, "gidmap="+rangesStr(o.GidMap))
	}
	if o.UserNS {
		p = append(p, "userns=1")
	}
	if o.BestEffort {
		p = append(p, "best=1")
	}
	if o.Overlay {
		p = append(p, "overlay=1")
	}
	if len(p) == 0 {
		return "-"
	}
	return strings.Join(p, ",")
}

func parseRangesStr(s string) []IDRange {
	var out []IDRange
	for _, r := range strings.Split(s, ";") {
		f := strings.Split(r, ":")
		if len(f) == 3 {
			c, _ := strconv.Atoi(f[0])
			h, _ := strconv.Atoi(f[1])
			n, _ := strconv.Atoi(f[2])
			out = append(out, IDRange{c, h, n})
		}
	}
	return out
}

func parseOptSpec(s string) OptSpec {
	var o OptSpec
	if s == "-" {
		return o
	}
	for _, kv := range strings.Split(s, ",") {
		f := strings.SplitN(kv, "=", 2)
		if len(f) != 2 {
			continue
		}
		switch f[0] {
		case "noLchown":
			o.NoLchown = true
		case "chown":
			g := strings.Split(f[1], ":")
			if len(g) == 2 {
				u, _ := strconv.Atoi(g[0])
				gg, _ := strconv.Atoi(g[1])
				o.Chown = &[2]int{u, gg}
			}
		case "noOverwrite":
			o.NoOverwrite = true
		case "excl":
			for _, x := range strings.Split(f[1], ";") {
				o.Excludes = append(o.Excludes, unhx(x))
			}
		case "uidmap":
			o.UidMap = parseRangesStr(f[1])
		case "gidmap":
			o.GidMap = parseRangesStr(f[1])
		case "userns":
			o.UserNS = true
		case "best":
			o.BestEffort = true
		case "overlay":
			o.Overlay = true
		}
	}
	return o
}

// FsCase is one extraction case: initial world, operation, archive.
type FsCase struct {
	Op      string // untar | layer | untar-chroot | layer-chroot
	Opts    OptSpec
	Dest    string
	Root    string
	Umask   int
	Nodes   []Node
	Hdrs    []*tar.Header // generator output; Bodies parallel
	Bodies  []string
	Gzip    bool
	Archive []byte // encoded (uncompressed) stream
	Ents    []Ent  // what archive/tar's reader yields for Archive
	Args    []string
}

// encode builds the tar stream and parses it back with the stdlib reader, so that the model
// receives exactly the entries the library will see.
func (c *FsCase) encode() error {
	var buf bytes.Buffer
	tw := tar.NewWriter(&buf)
	for i, h := range c.Hdrs {
		hh := *h
		hh.Format = tar.FormatPAX
		if err := tw.WriteHeader(&hh); err != nil {
			// archive/tar's writer refuses some names a hostile archive can still carry (a non-directory
			// whose name ends in "/"): write the entry under a stand-in name and patch the header block
			if raw, ok := rawNameEntry(&hh, c.Bodies[i]); ok {
				if err := tw.Flush(); err != nil {
					return err
				}
				buf.Write(raw)
				continue
			}
			return fmt.Errorf("write header %q: %w", h.Name, err)
		}
		if hh.Typeflag == tar.TypeReg && len(c.Bodies[i]) > 0 {
			if _, err := tw.Write([]byte(c.Bodies[i])); err != nil {
				return err
			}
		}
	}
	if err := tw.Close(); err != nil {
		return err
	}
	c.Archive = buf.Bytes()
	return c.parse()
}

// rawNameEntry encodes one entry whose name archive/tar's writer will not accept: the entry is written
// under a stand-in of the same length and the name field and checksum of its header block are patched.
func rawNameEntry(h *tar.Header, body string) ([]byte, bool) {
	if len(h.Name) == 0 || len(h.Name) > 99 {
		return nil, false
	}
	for i := 0; i < len(h.Name); i++ {
		if h.Name[i] >= 0x80 || h.Name[i] == 0 {
			return nil, false
		}
	}
	hh := *h
	hh.Name = strings.Repeat("x", len(h.Name))
	var b bytes.Buffer
	tw := tar.NewWriter(&b)
	if err := tw.WriteHeader(&hh); err != nil {
		return nil, false
	}
	if hh.Typeflag == tar.TypeReg && len(body) > 0 {
		if _, err := tw.Write([]byte(body)); err != nil {
			return nil, false
		}
	}
	if err := tw.Flush(); err != nil {
		return nil, false
	}
	raw := b.Bytes()
	// the entry's own header block is the last block whose name field holds the stand-in
	pos := -1
	for off := 0; off+512 <= len(raw); off += 512 {
		if bytes.HasPrefix(raw[off:], []byte(hh.Name+"\x00")) {
			pos = off
		}
	}
	if pos < 0 {
		return nil, false
	}
	blk := raw[pos : pos+512]
	copy(blk, h.Name)
	for i := 148; i < 156; i++ {
		blk[i] = ' '
	}
	sum := 0
	for _, x := range blk {
		sum += int(x)
	}
	copy(blk[148:], fmt.Sprintf("%06o\x00 ", sum))
	return raw, true
}

func typName(t byte) string {
	switch t {
	case tar.TypeReg, '\x00':
		return "reg"
	case tar.TypeLink:
		return "link"
	case tar.TypeSymlink:
		return "sym"
	case tar.TypeChar:
		return "chr"
	case tar.TypeBlock:
		return "blk"
	case tar.TypeDir:
		return "dir"
	case tar.TypeFifo:
		return "fifo"
	case tar.TypeXGlobalHeader:
		return "xglobal"
	}
	return "other"
}

func (c *FsCase) parse() error {
	c.Ents = nil
	tr := tar.NewReader(bytes.NewReader(c.Archive))
	for {
		h, err := tr.Next()
		if err == io.EOF {
			return nil
		}
		if err != nil {
			return err
		}
		body, err := io.ReadAll(tr)
		if err != nil {
			return err
		}
		e := Ent{Typ: typName(h.Typeflag), Name: h.Name, Linkname: h.Linkname, Mode: h.Mode, Uid: h.Uid, Gid: h.Gid,
			Mtime: h.ModTime.Unix(), Size: h.Size, Body: string(body), Maj: h.Devmajor, Min: h.Devminor, TypeByte: h.Typeflag}
		var keys []string
		for k := range h.PAXRecords {
			if strings.HasPrefix(k, "SCHILY.xattr.") {
				keys = append(keys, k)
			}
		}
		sort.Strings(keys)
		for _, k := range keys {
			e.Xattrs = append(e.Xattrs, [2]string{strings.TrimPrefix(k, "SCHILY.xattr."), h.PAXRecords[k]})
		}
		c.Ents = append(c.Ents, e)
	}
}

// line renders the case for the model driver.
func (c *FsCase) line() string {
	parts := []string{c.Op, c.Opts.String(), hx(c.Dest), hx(c.Root), strconv.Itoa(c.Umask), renderTree(c.Nodes), "E", strconv.Itoa(len(c.Ents))}
	for _, e := range c.Ents {
		parts = append(parts, e.fields()...)
	}
	return strings.Join(parts, " ")
}

// parseOutcome splits "out size T n nodes..." into its parts.
type Outcome struct {
	Out   string
	Size  string
	Nodes [][]string // 12 fields each
	Raw   string
}

func parseOutcome(s string) (*Outcome, error) {
	f := strings.Fields(s)
	if len(f) < 4 || f[2] != "T" {
		return nil, fmt.Errorf("bad outcome %q", truncate(s, 200))
	}
	n, err := strconv.Atoi(f[3])
	if err != nil || len(f) != 4+12*n {
		return nil, fmt.Errorf("bad outcome length %q", truncate(s, 200))
	}
	o := &Outcome{Out: f[0], Size: f[1], Raw: s}
	for i := 0; i < n; i++ {
		o.Nodes = append(o.Nodes, f[4+12*i:4+12*(i+1)])
	}
	return o, nil
}

func truncate(s string, n int) string {
	if len(s) > n {
		return s[:n] + "…"
	}
	return s
}

// diffOutcomes compares the implementation's outcome with the model's; "*" in the model's mtime
// column matches anything; the model's "breakout" is an error on the implementation side.
func diffOutcomes(impl, model *Outcome) string {
	mo := model.Out
	if mo == "breakout" {
		mo = "err"
	}
	if impl.Out != mo {
		return fmt.Sprintf("result: impl=%s model=%s", impl.Out, model.Out)
	}
	if impl.Size != model.Size {
		return fmt.Sprintf("size: impl=%s model=%s", impl.Size, model.Size)
	}
	im := map[string][]string{}
	for _, n := range impl.Nodes {
		im[n[0]] = n
	}
	mm := map[string][]string{}
	for _, n := range model.Nodes {
		mm[n[0]] = n
	}
	names := []string{"path", "kind", "perm", "uid", "gid", "mtime", "data", "target", "maj", "min", "group", "cap"}
	var keys []string
	for k := range im {
		keys = append(keys, k)
	}
	for k := range mm {
		if _, ok := im[k]; !ok {
			keys = append(keys, k)
		}
	}
	sort.Strings(keys)
	for _, k := range keys {
		a, okA := im[k]
		b, okB := mm[k]
		if !okA {
			return "only in model: " + unhx(k)
		}
		if !okB {
			return "only in impl: " + unhx(k)
		}
		for i := 1; i < 12; i++ {
			if a[i] == b[i] {
				continue
			}
			if i == 5 && (b[i] == "*" || a[i] == "*") {
				continue
			}
			return fmt.Sprintf("%s of %s: impl=%s model=%s", names[i], unhx(k), a[i], b[i])
		}
	}
	return ""
}

func isUnder(dir, p string) bool {
	dir = filepath.Clean(dir)
	return p == dir || strings.HasPrefix(p, strings.TrimSuffix(dir, "/")+"/")
}
