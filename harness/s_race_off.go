//go:build !race

package main

// raceDetector reports whether this harness binary was built with -race.
const raceDetector = false
