package main

import (
	"bytes"
	"compress/gzip"
	"encoding/json"
	"errors"
	"fmt"
	"hash/fnv"
	"io"
	"io/fs"
	"os"
	"path/filepath"
	"sort"
	"strings"
	"sync/atomic"

	"github.com/sirupsen/logrus"
	"golang.org/x/sys/unix"

	archive "github.com/moby/go-archive"
	"github.com/moby/go-archive/chrootarchive"
	"github.com/moby/sys/user"
)

// Arena side of the "faults" stream (C20).

func init() { jobKinds["faults"] = runFaultsJob }

const (
	fMnt  = "/w/m"   // the limited file system
	fDest = "/w/m/d" // the scanned destination
	fSrc  = "/w/src"
)

var errFInjected = errors.New("verif: injected stream failure")

// fReader delivers data[:cut] and then fails with err (io.EOF = clean truncation).
type fReader struct {
	data     []byte
	pos, cut int
	err      error
	chunk    int
	together bool
}

func (r *fReader) Read(p []byte) (int, error) {
	if len(p) == 0 {
		return 0, nil
	}
	if r.pos >= r.cut {
		return 0, r.err
	}
	n := len(p)
	if n > r.cut-r.pos {
		n = r.cut - r.pos
	}
	if r.chunk > 0 && n > r.chunk {
		n = r.chunk
	}
	copy(p, r.data[r.pos:r.pos+n])
	r.pos += n
	if r.pos == r.cut && r.together {
		return n, r.err
	}
	return n, nil
}

func fMix(a, b uint64) uint64 {
	z := a*0x9E3779B97F4A7C15 + b + 0x7F4A7C15
	z = (z ^ (z >> 30)) * 0xBF58476D1CE4E5B9
	z = (z ^ (z >> 27)) * 0x94D049BB133111EB
	return z ^ (z >> 31)
}

func fNewReader(data []byte, cut int, err error, salt uint64) *fReader {
	h := fMix(salt, uint64(cut))
	chunks := []int{0, 512, 100, 4097}
	return &fReader{data: data, cut: cut, err: err, chunk: chunks[h%4], together: (h>>8)&1 == 1}
}

type fEnv struct {
	c          *fCase
	ep         *fEPInfo
	ar         []byte // the uncompressed tar stream the entry point consumes (empty for pure copy entry points)
	feed       []byte // the bytes actually fed (gzip of ar for gz-* faults)
	memberEnds []int  // gzm-*: offsets in feed at which a gzip member ends
	baseAr     []byte
	recs       []fRec
	trailer    int
	end        int // end of the last record's data (unpadded)
	srcInfo    archive.CopyInfo
	i0, p0     int
	refI       int
	refP       int
	refTree    string
	out        *fOut
}

func runFaultsJob(j *Job, res *JobResult) {
	out := &fOut{N: map[string]int{}}
	defer func() {
		for unix.Unmount(fMnt, unix.MNT_DETACH) == nil {
		}
		b, _ := json.Marshal(out)
		res.Extra = string(b)
		if res.Out == "" {
			res.Out = "ok"
		}
	}()
	if len(j.Args) < 1 {
		out.Setup = "no case"
		return
	}
	var c fCase
	if err := json.Unmarshal([]byte(j.Args[0]), &c); err != nil {
		out.Setup = "case json: " + err.Error()
		return
	}
	e := &fEnv{c: &c, ep: fEP(c.EP), out: out}
	if e.ep == nil {
		out.Setup = "unknown entry point " + c.EP
		return
	}
	logrus.SetOutput(io.Discard) // the tar side logs every file it could not add once the extracting side has gone
	unix.Umask(0o022)
	if c.Pigz {
		os.Unsetenv("MOBY_DISABLE_PIGZ")
	} else {
		os.Setenv("MOBY_DISABLE_PIGZ", "1")
	}
	if c.Fault == "producer" {
		e.producer()
		return
	}
	if err := e.prepare(); err != nil {
		if errors.Is(err, errFRef) {
			out.RefErr = err.Error()
		} else {
			out.Setup = err.Error()
		}
		return
	}
	// reference run
	cerr, tree, ui, up, serr := e.runOne(-1, -1, nil, nil)
	if serr != nil {
		out.Setup = "reference: " + serr.Error()
		return
	}
	if cerr != nil {
		out.RefErr = cerr.Error()
		return
	}
	e.refTree, e.refI, e.refP = tree, ui, up
	out.RefI, out.RefP = ui-e.i0, up-e.p0
	// determinism guard: a second reference run must give the same tree, otherwise nothing can be compared
	_, tree2, _, _, serr := e.runOne(-1, -1, nil, nil)
	if serr != nil {
		out.Setup = "reference: " + serr.Error()
		return
	}
	if tree2 != tree {
		out.RefErr = "two reference runs differ (case skipped): " + fFirstDiff(tree, tree2)
		return
	}
	switch {
	case c.Fault == "inode" || c.Fault == "block":
		e.enumFS()
	case strings.HasPrefix(c.Fault, "rd-"):
		e.enumStream()
	case strings.HasPrefix(c.Fault, "gz-"), strings.HasPrefix(c.Fault, "gzm-"):
		e.enumGz()
	default:
		out.Setup = "unknown fault kind " + c.Fault
	}
}

var errFRef = errors.New("reference preparation failed")

func (e *fEnv) archiver() *archive.Archiver {
	a := &archive.Archiver{Untar: archive.Untar}
	if e.c.Var&fVarChroot != 0 {
		a.Untar = chrootarchive.Untar
	}
	if e.c.Var&fVarIDMap != 0 {
		a.IDMapping = user.IdentityMapping{
			UIDMaps: []user.IDMap{{ID: 0, ParentID: 100000, Count: 65536}},
			GIDMaps: []user.IDMap{{ID: 0, ParentID: 100000, Count: 65536}},
		}
	}
	return a
}

func (e *fEnv) copyPaths() (src, dst string) {
	switch (e.c.Var >> fVarShift) & 3 {
	case 0:
		return fSrc + "/.", fDest
	case 1:
		return fSrc, fDest + "/new"
	case 2:
		return fSrc, fDest + "/"
	default:
		return fSrc + "/" + e.c.Aux, fDest + "/newname"
	}
}

// prepare builds everything outside the limited file system.
func (e *fEnv) prepare() error {
	c := e.c
	if err := resetWorld(); err != nil {
		return err
	}
	for unix.Unmount(fMnt, unix.MNT_DETACH) == nil {
	}
	if err := os.MkdirAll(fMnt, 0o755); err != nil {
		return err
	}
	extraX := parseOptSpec(c.Opts).BestEffort && e.ep.Opts
	ar, err := fBuildTar(c.Ents, extraX)
	if err != nil {
		return err
	}
	if len(c.Base) > 0 {
		if e.baseAr, err = fBuildTar(c.Base, false); err != nil {
			return err
		}
	}
	switch {
	case c.EP == "Archiver.CopyFileWithTar":
		ent := c.Ents[0]
		p := "/w/srcfile"
		if err := os.WriteFile(p, fBody(0, ent.S), 0o600); err != nil {
			return err
		}
		if err := os.Chown(p, ent.U, ent.G); err != nil {
			return err
		}
		if err := os.Chmod(p, modeFromPerm(uint32(ent.M))); err != nil {
			return err
		}
		ts := []unix.Timespec{{Sec: ent.Mt}, {Sec: ent.Mt}}
		if err := unix.UtimesNanoAt(unix.AT_FDCWD, p, ts, 0); err != nil {
			return err
		}
	case e.ep.Copy:
		if err := os.Mkdir(fSrc, 0o755); err != nil {
			return err
		}
		if e.baseAr != nil {
			if err := archive.UntarUncompressed(bytes.NewReader(e.baseAr), fSrc, &archive.TarOptions{}); err != nil {
				return fmt.Errorf("%w: building the source tree (prior content): %v", errFRef, err)
			}
		}
		if err := archive.UntarUncompressed(bytes.NewReader(ar), fSrc, &archive.TarOptions{}); err != nil {
			return fmt.Errorf("%w: building the source tree: %v", errFRef, err)
		}
		if c.EP == "archive.CopyTo" {
			src, _ := e.copyPaths()
			si, err := archive.CopyInfoSourcePath(src, false)
			if err != nil {
				return fmt.Errorf("%w: CopyInfoSourcePath: %v", errFRef, err)
			}
			e.srcInfo = si
			rc, err := archive.TarResource(si)
			if err != nil {
				return fmt.Errorf("%w: TarResource: %v", errFRef, err)
			}
			b, err := io.ReadAll(rc)
			rc.Close()
			if err != nil {
				return fmt.Errorf("%w: TarResource read: %v", errFRef, err)
			}
			e.ar = b
		}
	default:
		e.ar = ar
	}
	e.feed = e.ar
	if strings.HasPrefix(c.Fault, "gz-") {
		var b bytes.Buffer
		zw := gzip.NewWriter(&b)
		zw.Write(e.ar)
		zw.Close()
		e.feed = b.Bytes()
	}
	if len(e.ar) > 0 {
		e.recs, e.trailer = fLayout(e.ar)
		if len(e.recs) > 0 {
			e.end = e.recs[len(e.recs)-1].BodyEnd
		}
	}
	if strings.HasPrefix(c.Fault, "gzm-") {
		// one gzip member per tar entry (as pigz -i or eStargz write them): every member boundary is also an
		// entry boundary, so a decompressor that is fed a prefix ending there reports a clean end
		var b bytes.Buffer
		prev := 0
		e.memberEnds = nil
		cutAt := []int{}
		for _, rc := range e.recs {
			if !rc.Meta && rc.Next > prev {
				cutAt = append(cutAt, rc.Next)
			}
		}
		cutAt = append(cutAt, len(e.ar))
		for _, q := range cutAt {
			if q <= prev || q > len(e.ar) {
				continue
			}
			zw := gzip.NewWriter(&b)
			zw.Write(e.ar[prev:q])
			zw.Close()
			prev = q
			e.memberEnds = append(e.memberEnds, b.Len())
		}
		e.feed = b.Bytes()
	}
	return nil
}

func fStatfs(p string) (usedI, usedP, freeI, freeP int, err error) {
	var s unix.Statfs_t
	if err = unix.Statfs(p, &s); err != nil {
		return
	}
	return int(s.Files - s.Ffree), int(s.Blocks - s.Bfree), int(s.Ffree), int(s.Bfree), nil
}

// runOne mounts a fresh file system with freeI free inodes / freeP free pages after the prior
// content is in place (-1: effectively unlimited), performs the call and scans the destination.
// mk makes the input reader (nil: the whole stream); arOverride replaces the fed bytes.
func (e *fEnv) runOne(freeI, freeP int, mk func() io.Reader, arOverride []byte) (callErr error, tree string, usedI, usedP int, setup error) {
	for unix.Unmount(fMnt, unix.MNT_DETACH) == nil {
	}
	if err := unix.Mount("tmpfs", fMnt, "tmpfs", 0, "size=256m,nr_inodes=100000,mode=0755"); err != nil {
		return nil, "", 0, 0, fmt.Errorf("mount: %w", err)
	}
	defer func() {
		for unix.Unmount(fMnt, unix.MNT_DETACH) == nil {
		}
	}()
	// one page is always taken, so that "no free page" can be expressed (size=0 would mean unlimited)
	if err := os.WriteFile(fMnt+"/.fill", []byte("x"), 0o644); err != nil {
		return nil, "", 0, 0, fmt.Errorf("fill: %w", err)
	}
	if err := os.Mkdir(fDest, 0o755); err != nil {
		return nil, "", 0, 0, fmt.Errorf("mkdir dest: %w", err)
	}
	if e.baseAr != nil {
		if err := archive.UntarUncompressed(bytes.NewReader(e.baseAr), fDest, &archive.TarOptions{}); err != nil {
			if freeI < 0 && freeP < 0 {
				return fmt.Errorf("prior content: %w", err), "", 0, 0, nil
			}
			return nil, "", 0, 0, fmt.Errorf("prior content: %w", err)
		}
	}
	ui, up, fi, fp, err := fStatfs(fMnt)
	if err != nil {
		return nil, "", 0, 0, err
	}
	if freeI < 0 && freeP < 0 && e.refTree == "" {
		e.i0, e.p0 = ui, up
	}
	// the limit is applied once the prior content is in place: exactly freeI inodes / freeP pages remain
	if freeI >= 0 || freeP >= 0 {
		nrI, pages := 100000, 65536
		if freeI >= 0 {
			nrI = ui + freeI
		}
		if freeP >= 0 {
			pages = up + freeP
		}
		if err := unix.Mount("tmpfs", fMnt, "tmpfs", unix.MS_REMOUNT, fmt.Sprintf("size=%d,nr_inodes=%d,mode=0755", pages*4096, nrI)); err != nil {
			return nil, "", 0, 0, fmt.Errorf("remount with limits: %w", err)
		}
		if _, _, fi, fp, err = fStatfs(fMnt); err != nil {
			return nil, "", 0, 0, err
		}
	}
	if freeI >= 0 && fi != freeI {
		return nil, "", 0, 0, fmt.Errorf("expected %d free inodes before the call, have %d", freeI, fi)
	}
	if freeP >= 0 && fp != freeP {
		return nil, "", 0, 0, fmt.Errorf("expected %d free pages before the call, have %d", freeP, fp)
	}
	feed := e.feed
	if arOverride != nil {
		feed = arOverride
	}
	var rd io.Reader = bytes.NewReader(feed)
	if mk != nil {
		rd = mk()
	}
	unix.Umask(0o022)
	callErr = e.call(rd, feed)
	unix.Umask(0o022)
	tree, err = fTree(fDest)
	if err != nil {
		return callErr, "", 0, 0, fmt.Errorf("scan: %w", err)
	}
	ui, up, _, _, _ = fStatfs(fMnt)
	return callErr, tree, ui, up, nil
}

func (e *fEnv) call(rd io.Reader, feed []byte) error {
	c := e.c
	dest := fDest
	if c.Var&fVarDestMissing != 0 {
		dest = fDest + "/nd"
	}
	var opts *archive.TarOptions
	if e.ep.Opts {
		opts = tarOptions(parseOptSpec(c.Opts))
	}
	switch c.EP {
	case "archive.Untar":
		return archive.Untar(rd, dest, opts)
	case "archive.UntarUncompressed":
		return archive.UntarUncompressed(rd, dest, opts)
	case "chrootarchive.Untar":
		return chrootarchive.Untar(rd, dest, opts)
	case "chrootarchive.UntarUncompressed":
		return chrootarchive.UntarUncompressed(rd, dest, opts)
	case "chrootarchive.UntarWithRoot":
		return chrootarchive.UntarWithRoot(rd, dest, opts, fMnt)
	case "archive.ApplyLayer":
		_, err := archive.ApplyLayer(dest, rd)
		return err
	case "archive.ApplyUncompressedLayer":
		_, err := archive.ApplyUncompressedLayer(dest, rd, opts)
		return err
	case "chrootarchive.ApplyLayer":
		_, err := chrootarchive.ApplyLayer(dest, rd)
		return err
	case "chrootarchive.ApplyUncompressedLayer":
		_, err := chrootarchive.ApplyUncompressedLayer(dest, rd, opts)
		return err
	case "Archiver.CopyWithTar":
		if c.Var&fVarDestMissing != 0 {
			dest = fDest + "/nd/sub"
		}
		return e.archiver().CopyWithTar(fSrc, dest)
	case "Archiver.TarUntar":
		return e.archiver().TarUntar(fSrc, dest)
	case "Archiver.UntarPath":
		// the input is a file: a clean truncation is the only stream fault there is
		p := "/w/in.cur.tar"
		data := feed
		if fr, ok := rd.(*fReader); ok {
			data = fr.data[:fr.cut]
		}
		if err := os.WriteFile(p, data, 0o644); err != nil {
			panic("write tar file: " + err.Error())
		}
		return e.archiver().UntarPath(p, dest)
	case "archive.CopyResource":
		src, dst := e.copyPaths()
		return archive.CopyResource(src, dst, false)
	case "archive.CopyTo":
		_, dst := e.copyPaths()
		return archive.CopyTo(rd, e.srcInfo, dst)
	case "Archiver.CopyFileWithTar":
		dst := fDest + "/f2"
		switch (c.Var >> fVarShift) & 3 {
		case 1:
			dst = fDest + "/sub/deep/f2"
		case 2:
			dst = fDest + "/"
		}
		return e.archiver().CopyFileWithTar("/w/srcfile", dst)
	}
	panic("unknown entry point " + c.EP)
}

// fTree renders the destination: every name with type, mode, owner, mtime of non-directories, size, content hash,
// link target, device numbers, hard-link group, user.* xattrs.
func fTree(top string) (string, error) {
	var st unix.Stat_t
	if err := unix.Lstat(top, &st); err != nil {
		return "", err
	}
	nodes, err := scanWorld(top)
	if err != nil {
		return "", err
	}
	var sb strings.Builder
	fmt.Fprintf(&sb, ". %o %d %d\n", st.Mode&0o7777, st.Uid, st.Gid)
	for _, n := range nodes {
		mt := fmt.Sprint(n.Mtime)
		if n.Kind == 'd' || n.Kind == 's' {
			mt = "*"
		}
		h := fnv.New64a()
		h.Write([]byte(n.Data))
		var xs []string
		buf := make([]byte, 4096)
		if sz, err := unix.Llistxattr(n.Path, buf); err == nil && sz > 0 {
			for _, name := range strings.Split(strings.TrimRight(string(buf[:sz]), "\x00"), "\x00") {
				if !strings.HasPrefix(name, "user.") {
					continue
				}
				vb := make([]byte, 8192)
				vs, err := unix.Lgetxattr(n.Path, name, vb)
				if err != nil {
					xs = append(xs, name+"=?")
					continue
				}
				hv := fnv.New64a()
				hv.Write(vb[:vs])
				xs = append(xs, fmt.Sprintf("%s=%d:%x", name, vs, hv.Sum64()))
			}
		}
		sort.Strings(xs)
		fmt.Fprintf(&sb, "%s %c %o %d:%d mt=%s size=%d h=%x ->%q dev=%d:%d grp=%d cap=%x x=%s\n",
			strings.TrimPrefix(n.Path, top+"/"), n.Kind, n.Perm, n.Uid, n.Gid, mt, len(n.Data), h.Sum64(), n.Target, n.Maj, n.Min, n.Group, n.Cap, strings.Join(xs, ","))
	}
	return sb.String(), nil
}

func fFirstDiff(want, got string) string {
	w := strings.Split(want, "\n")
	g := strings.Split(got, "\n")
	gm := map[string]bool{}
	for _, l := range g {
		gm[l] = true
	}
	wm := map[string]bool{}
	for _, l := range w {
		wm[l] = true
	}
	var miss, extra []string
	for _, l := range w {
		if !gm[l] {
			miss = append(miss, l)
		}
	}
	for _, l := range g {
		if !wm[l] {
			extra = append(extra, l)
		}
	}
	s := fmt.Sprintf("%d of %d reference lines not reproduced", len(miss), len(w)-1)
	if len(miss) > 0 {
		s += "; first missing: {" + truncate(miss[0], 200) + "}"
	}
	if len(extra) > 0 {
		s += "; instead: {" + truncate(extra[0], 200) + "}"
	}
	return s
}

func (e *fEnv) record(k int, sub, class string, detail string) {
	o := e.out
	o.Runs++
	o.N[class]++
	if detail != "" {
		o.N["detail:"+detail]++
	}
	switch {
	case class == "error":
		o.Outcomes += "e"
	case class == "success-complete":
		o.Outcomes += "o"
	case strings.HasPrefix(class, "known"):
		o.Outcomes += "k"
	default:
		o.Outcomes += "V"
	}
}

func (e *fEnv) violation(k int, sub, msg string) {
	if len(e.out.Viol) < 5 {
		e.out.Viol = append(e.out.Viol, fViol{K: k, Sub: sub, Msg: msg})
	}
}

func (e *fEnv) errDetail(tree string) string {
	if tree == e.refTree {
		return "error-with-complete-tree"
	}
	return "error-with-incomplete-tree"
}

// enumFS: exactly k free inodes (or pages) for k = 0, 1, 2, … through the first two consecutive complete runs.
func (e *fEnv) enumFS() {
	c := e.c
	inode := c.Fault == "inode"
	need := e.refI - e.i0
	if !inode {
		need = e.refP - e.p0
	}
	limit := need + len(c.Ents) + 8
	okRun := 0
	succeeded := false
	for k := 0; k <= limit; k++ {
		if c.K >= 0 {
			k = c.K
		}
		var cerr error
		var tree string
		var serr error
		if inode {
			cerr, tree, _, _, serr = e.runOne(k, -1, nil, nil)
		} else {
			cerr, tree, _, _, serr = e.runOne(-1, k, nil, nil)
		}
		if serr != nil {
			e.out.Setup = fmt.Sprintf("%s k=%d: %v", c.Fault, k, serr)
			return
		}
		switch {
		case cerr != nil:
			e.record(k, "", "error", e.errDetail(tree))
			okRun = 0
			if succeeded {
				e.out.Notes = append(e.out.Notes, "error-after-a-success-at-smaller-k")
			}
		case tree == e.refTree:
			e.record(k, "", "success-complete", "")
			okRun++
			succeeded = true
		default:
			e.record(k, "", "VIOLATION success-incomplete", "")
			e.violation(k, "", fmt.Sprintf("returned nil with exactly %d free %ss on the destination file system (the complete result needs %d), but the tree is incomplete: %s", k, c.Fault, need, fFirstDiff(e.refTree, tree)))
			okRun = 0
		}
		if c.K >= 0 || okRun >= 2 {
			break
		}
	}
	if c.K < 0 && !succeeded {
		e.out.Notes = append(e.out.Notes, "no-success-up-to-limit")
	}
}

func fErrOf(kind string) error {
	switch kind {
	case "custom":
		return errFInjected
	case "ueof":
		return io.ErrUnexpectedEOF
	}
	return io.EOF
}

func fAddCut(set map[int]bool, max int, ns ...int) {
	for _, n := range ns {
		if n >= 0 && n <= max {
			set[n] = true
		}
	}
}

func (e *fEnv) cuts() []int {
	L := len(e.ar)
	set := map[int]bool{}
	r := &Rng{s: e.c.Salt}
	blocks := L / 512
	maxBlocks := 100
	if e.c.Quick {
		maxBlocks = 48
	}
	if blocks <= maxBlocks {
		for b := 0; b <= blocks; b++ {
			fAddCut(set, L, b*512-1, b*512, b*512+1)
		}
	} else {
		for _, rc := range e.recs {
			for _, p := range []int{rc.Start, rc.BodyStart, rc.BodyEnd, rc.Next} {
				fAddCut(set, L, p-1, p, p+1)
			}
			if n := rc.BodyEnd - rc.BodyStart; n > 1024 {
				step := 4096
				if e.c.Quick {
					step = 8192
				}
				for p := rc.BodyStart + step; p < rc.BodyEnd; p += step {
					fAddCut(set, L, p-1, p, p+1)
				}
			}
		}
		fAddCut(set, L, e.trailer+511, e.trailer+512, e.trailer+513)
	}
	for _, rc := range e.recs {
		if n := rc.BodyEnd - rc.BodyStart; n > 2 {
			fAddCut(set, L, rc.BodyStart+1+r.intn(n-1), rc.BodyStart+n/2, rc.BodyEnd-1)
		}
	}
	fAddCut(set, L, 0, 1, 9, 10, 11, L-1, L)
	out := make([]int, 0, len(set))
	for n := range set {
		out = append(out, n)
	}
	sort.Ints(out)
	return out
}

// gap reports whether a clean end of input at n is indistinguishable from an end of archive for archive/tar
// (n = 0, or n between the end of a record's data and the next header), and the prefix that then was delivered.
func (e *fEnv) gap(n int) (bool, int) {
	if n == 0 {
		return true, 0
	}
	for _, rc := range e.recs {
		if rc.BodyEnd <= n && n <= rc.Next {
			return true, rc.Next
		}
	}
	return false, 0
}

func (e *fEnv) prefixTree(cache map[int]string, upto int) (string, error) {
	if t, ok := cache[upto]; ok {
		return t, nil
	}
	pre := append(append([]byte{}, e.ar[:upto]...), make([]byte, 1024)...)
	cerr, tree, _, _, serr := e.runOne(-1, -1, nil, pre)
	if serr != nil {
		return "", serr
	}
	if cerr != nil {
		tree = "prefix archive fails: " + cerr.Error()
	}
	cache[upto] = tree
	return tree, nil
}

// enumStream: the input fails after n bytes.
func (e *fEnv) enumStream() {
	c := e.c
	kind := strings.TrimPrefix(c.Fault, "rd-")
	ferr := fErrOf(kind)
	prefixes := map[int]string{}
	cuts := e.cuts()
	if c.K >= 0 {
		cuts = []int{c.K}
	}
	for _, n := range cuts {
		n := n
		cerr, tree, _, _, serr := e.runOne(-1, -1, func() io.Reader { return fNewReader(e.ar, n, ferr, c.Salt) }, nil)
		if serr != nil {
			e.out.Setup = fmt.Sprintf("%s n=%d: %v", c.Fault, n, serr)
			return
		}
		removes := n < e.end
		where := "entry"
		if !removes {
			where = "trailer"
		}
		switch {
		case cerr != nil:
			e.record(n, "", "error", "cut-in-"+where+":"+e.errDetail(tree))
		case !removes && tree == e.refTree:
			e.record(n, "", "success-complete", "cut-in-trailer:success")
		case !removes:
			e.record(n, "", "VIOLATION success-incomplete", "")
			e.violation(n, "", fmt.Sprintf("input failed (%s) after %d of %d bytes, beyond the last entry (ends at %d); nil returned but the tree is incomplete: %s", kind, n, len(e.ar), e.end, fFirstDiff(e.refTree, tree)))
		default:
			// a byte of some entry was not delivered and the call still succeeded
			if isGap, upto := e.gap(n); kind == "eof" && isGap {
				pt, perr := e.prefixTree(prefixes, upto)
				if perr != nil {
					e.out.Setup = perr.Error()
					return
				}
				if pt == tree {
					e.record(n, "", "known:clean-eof-between-entries(success-with-prefix)", "")
					if len(e.out.Known) < 2 && (n > 0 || len(e.out.Known) == 0) {
						e.out.Known = append(e.out.Known, fViol{K: n, Msg: fmt.Sprintf("clean end of input after %d of %d bytes (between two entries; the entries end at byte %d): nil returned, only the entries before the cut were written: %s", n, len(e.ar), e.end, fFirstDiff(e.refTree, tree))})
					}
					continue
				}
				e.record(n, "", "VIOLATION success-incomplete", "")
				e.violation(n, "", fmt.Sprintf("clean end of input after %d bytes between entries: nil returned and the tree is not even the result of the delivered prefix: %s", n, fFirstDiff(pt, tree)))
				continue
			}
			e.record(n, "", "VIOLATION success-incomplete", "")
			e.violation(n, "", fmt.Sprintf("input failed (%s) after %d of %d bytes, inside an entry (entries end at byte %d), and nil was returned; tree vs reference: %s", kind, n, len(e.ar), e.end, fFirstDiff(e.refTree, tree)))
		}
	}
}

// enumGz: the compressed input fails after n bytes.
func (e *fEnv) enumGz() {
	c := e.c
	kind := strings.TrimPrefix(strings.TrimPrefix(c.Fault, "gzm-"), "gz-")
	ferr := fErrOf(kind)
	L := len(e.feed)
	set := map[int]bool{}
	r := &Rng{s: c.Salt}
	fAddCut(set, L, 0, 1, 2, 3, 4, 9, 10, 11, 12, 18, L)
	for _, m := range e.memberEnds {
		fAddCut(set, L, m-1, m, m+1)
	}
	for i := 1; i <= 12; i++ {
		fAddCut(set, L, L-i)
	}
	spread := 40
	if c.Quick {
		spread = 14
	}
	for i := 1; i < spread; i++ {
		fAddCut(set, L, L*i/spread, r.intn(L+1))
	}
	var cuts []int
	for n := range set {
		cuts = append(cuts, n)
	}
	sort.Ints(cuts)
	if c.K >= 0 {
		cuts = []int{c.K}
	}
	for _, n := range cuts {
		n := n
		// how much of the tar stream the delivered compressed prefix can yield at most
		m := 0
		if zr, err := gzip.NewReader(bytes.NewReader(e.feed[:n])); err == nil {
			b, _ := io.ReadAll(zr)
			m = len(b)
		}
		cerr, tree, _, _, serr := e.runOne(-1, -1, func() io.Reader { return fNewReader(e.feed, n, ferr, c.Salt) }, nil)
		if serr != nil {
			e.out.Setup = fmt.Sprintf("%s n=%d: %v", c.Fault, n, serr)
			return
		}
		removes := m < e.end
		switch {
		case cerr != nil:
			e.record(n, "", "error", e.errDetail(tree))
		case tree == e.refTree && !removes:
			e.record(n, "", "success-complete", "")
		case n == 0 && kind == "eof":
			// an empty input is an empty archive
			pt, perr := e.prefixTree(map[int]string{}, 0)
			if perr != nil {
				e.out.Setup = perr.Error()
				return
			}
			if pt == tree {
				e.record(n, "", "known:clean-eof-between-entries(success-with-prefix)", "")
				continue
			}
			fallthrough
		default:
			e.record(n, "", "VIOLATION success-incomplete", "")
			e.violation(n, "", fmt.Sprintf("compressed input failed (%s) after %d of %d bytes (at most %d of the %d entry bytes decodable), and nil was returned; tree vs reference: %s", kind, n, L, m, e.end, fFirstDiff(e.refTree, tree)))
		}
	}
}

// ---- CopyFileWithTar with a failing producing side ----

func (e *fEnv) producer() {
	c := e.c
	subs := []string{"good", "devnode", "procmem", "procstatus", "idmap-uid", "idmap-gid", "vanish"}
	if c.K >= 0 && c.Sub != "" {
		subs = []string{c.Sub}
	}
	if err := resetWorld(); err != nil {
		e.out.Setup = err.Error()
		return
	}
	os.MkdirAll(fMnt, 0o755)
	for _, sub := range subs {
		if err := e.producerSub(sub); err != nil {
			e.out.Setup = sub + ": " + err.Error()
			return
		}
	}
}

func (e *fEnv) freshMount() error {
	for unix.Unmount(fMnt, unix.MNT_DETACH) == nil {
	}
	if err := unix.Mount("tmpfs", fMnt, "tmpfs", 0, "size=64m,nr_inodes=100000,mode=0755"); err != nil {
		return err
	}
	return os.Mkdir(fDest, 0o755)
}

func fDescribe(p string) string {
	var st unix.Stat_t
	if err := unix.Lstat(p, &st); err != nil {
		return "absent"
	}
	return fmt.Sprintf("present(size %d, mode %o, owner %d:%d, mtime %d)", st.Size, st.Mode&0o7777, st.Uid, st.Gid, st.Mtim.Sec)
}

func (e *fEnv) producerSub(sub string) error {
	c := e.c
	if err := e.freshMount(); err != nil {
		return err
	}
	defer func() {
		for unix.Unmount(fMnt, unix.MNT_DETACH) == nil {
		}
	}()
	a := e.archiver()
	a.IDMapping = user.IdentityMapping{}
	src := "/w/psrc"
	os.RemoveAll(src)
	os.RemoveAll(src + ".hid")
	size := c.Ents[0].S
	body := fBody(0, size)
	mkGood := func(uid, gid int) error {
		if err := os.WriteFile(src, body, 0o640); err != nil {
			return err
		}
		if err := os.Chown(src, uid, gid); err != nil {
			return err
		}
		ts := []unix.Timespec{{Sec: 1700000000}, {Sec: 1700000000}}
		return unix.UtimesNanoAt(unix.AT_FDCWD, src, ts, 0)
	}
	complete := func(dst string, uid, gid int) string {
		var st unix.Stat_t
		if err := unix.Lstat(dst, &st); err != nil {
			return "destination absent"
		}
		b, err := os.ReadFile(dst)
		if err != nil || !bytes.Equal(b, body) {
			return fmt.Sprintf("destination content differs (%d bytes instead of %d)", len(b), len(body))
		}
		if st.Mode&unix.S_IFMT != unix.S_IFREG || st.Mode&0o7777 != 0o640 || int(st.Uid) != uid || int(st.Gid) != gid || st.Mtim.Sec != 1700000000 {
			return "destination metadata differs: " + fDescribe(dst)
		}
		return ""
	}
	dst := fDest + "/out"
	idmap := user.IdentityMapping{
		UIDMaps: []user.IDMap{{ID: 0, ParentID: 100000, Count: 65536}},
		GIDMaps: []user.IDMap{{ID: 0, ParentID: 100000, Count: 65536}},
	}
	mustFail := true
	switch sub {
	case "good":
		mustFail = false
		uid, gid := 0, 0
		if c.Var&fVarIDMap != 0 {
			a.IDMapping = idmap
			uid, gid = 100007, 100008
			if err := mkGood(7, 8); err != nil {
				return err
			}
		} else if err := mkGood(0, 0); err != nil {
			return err
		}
		err := a.CopyFileWithTar(src, dst)
		switch {
		case err != nil:
			e.record(0, sub, "error", "good-source:error")
			e.out.Notes = append(e.out.Notes, "producer-control-failed")
		case complete(dst, uid, gid) == "":
			e.record(0, sub, "success-complete", "good-source:complete")
		default:
			e.record(0, sub, "VIOLATION success-incomplete", "")
			e.violation(0, sub, "CopyFileWithTar of a readable file returned nil but "+complete(dst, uid, gid))
		}
		return nil
	case "devnode":
		// a character device without a driver: stat works, open fails
		if err := unix.Mknod(src, unix.S_IFCHR|0o600, int(unix.Mkdev(0, 0))); err != nil {
			return err
		}
		if f, err := os.Open(src); err == nil {
			f.Close()
			e.out.Notes = append(e.out.Notes, "devnode-opens-here")
			return nil
		}
	case "procmem":
		src = "/proc/self/mem" // opens, every read fails with EIO
	case "procstatus":
		src = "/proc/self/status" // stat size 0, content longer: the producer's tar writer refuses the body
	case "idmap-uid":
		a.IDMapping = idmap
		if err := mkGood(70000, 0); err != nil {
			return err
		}
	case "idmap-gid":
		a.IDMapping = idmap
		if err := mkGood(0, 70000); err != nil {
			return err
		}
	case "vanish":
		return e.vanish(a, src, mkGood, complete)
	}
	err := a.CopyFileWithTar(src, dst)
	if mustFail && err == nil {
		e.record(0, sub, "VIOLATION success-incomplete", "")
		e.violation(0, sub, "CopyFileWithTar("+src+") returned nil although its producing side failed ("+sub+"); destination "+fDescribe(dst))
		return nil
	}
	e.record(0, sub, "error", "producer-"+sub+":error,destination-"+strings.SplitN(fDescribe(dst), "(", 2)[0])
	return nil
}

// vanish: the source is renamed away and back continuously while copies run; a nil result requires a complete copy.
func (e *fEnv) vanish(a *archive.Archiver, src string, mkGood func(int, int) error, complete func(string, int, int) string) error {
	if err := mkGood(0, 0); err != nil {
		return err
	}
	var stop atomic.Bool
	done := make(chan struct{})
	go func() {
		defer close(done)
		for !stop.Load() {
			if os.Rename(src, src+".hid") == nil {
				os.Rename(src+".hid", src)
			}
		}
	}()
	n := 1500
	if e.c.Quick {
		n = 250
	}
	for i := 0; i < n; i++ {
		hold := fmt.Sprintf("%s/h%d", fDest, i)
		dst := hold + "/out"
		err := a.CopyFileWithTar(src, dst)
		switch {
		case err == nil:
			if msg := complete(dst, 0, 0); msg != "" {
				e.record(i, "vanish", "VIOLATION success-incomplete", "")
				e.violation(0, "vanish", "CopyFileWithTar returned nil while its source was vanishing, but "+msg)
			} else {
				e.record(i, "vanish", "success-complete", "vanish:copied")
			}
		case errors.Is(err, fs.ErrNotExist):
			if _, serr := os.Lstat(hold); serr == nil {
				e.record(i, "vanish", "error", "vanish:source-gone-after-stat(producer-side)")
			} else {
				e.record(i, "vanish", "error", "vanish:source-gone-at-stat")
			}
		default:
			e.record(i, "vanish", "error", "vanish:other-error")
		}
		os.RemoveAll(hold)
	}
	stop.Store(true)
	<-done
	return nil
}

var _ = filepath.Join
