// Correspondence and oracle harness for the go-archive verification framework.
// Built on every check from /repo's working tree (replace directive in go.mod).
package main

import (
	"fmt"
	"io"
	"os"

	"github.com/sirupsen/logrus"
)

type subcmd func(cfg *Config) *Result

var subcmds = map[string]subcmd{}

func main() {
	// the library logs transient errors through logrus; keep the streams' own output clean
	if os.Getenv("VERIF_LIBLOG") == "" {
		logrus.SetOutput(io.Discard)
	}
	if len(os.Args) < 2 {
		fmt.Fprintln(os.Stderr, "usage: harness <stream> [flags]")
		os.Exit(2)
	}
	if os.Args[1] == "__child" {
		childMain(os.Args[2:])
		return
	}
	if os.Args[1] == "__nocap" && len(os.Args) > 2 {
		jpNocapChild(os.Args[2])
		return
	}
	cfg := parseConfig(os.Args[2:])
	fn, ok := subcmds[os.Args[1]]
	if !ok {
		fmt.Fprintln(os.Stderr, "unknown stream", os.Args[1])
		os.Exit(2)
	}
	res := fn(cfg)
	res.Stream = os.Args[1]
	res.write(cfg.Out)
}
