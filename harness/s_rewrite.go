package main

import (
	"archive/tar"
	"bufio"
	"bytes"
	"context"
	"encoding/hex"
	"encoding/json"
	"errors"
	"fmt"
	"io"
	"os"
	"os/exec"
	"runtime"
	"sort"
	"strings"
	"sync"
	"sync/atomic"
	"time"

	archive "github.com/moby/go-archive"
)

// Stream "rewrite" (property C15): independent oracle on the real archive.RebaseArchiveEntries and
// archive.ReplaceFileTarWrapper. Archives are built with archive/tar from the PRNG (every entry type, PAX
// records, long names, three formats), pushed through the real rewriter (optionally behind an input reader
// that fails or ends early at a chosen byte offset, or with a consumer that closes early), and the output is
// parsed independently and compared clause by clause with the parse of the input.
//
// No filesystem is touched: everything runs in the harness process, each case under a deadline. Rebase cases
// whose link names are unusual (hard-link Linkname shorter than / not starting with the old base) run in a
// re-exec'd subprocess so that a panic inside the rewriter's goroutine is observed as a non-zero exit.
func init() {
	subcmds["rewrite"] = runRewrite
	subcmds["__rewrite_sub"] = runRewriteSub
}

var (
	rwModErr = errors.New("rw: injected modifier failure")
	rwInErr  = errors.New("rw: injected input read failure")
)

const rwDeadline = 20 * time.Second

// ---------------------------------------------------------------------------------------------
// case description (the JSON of rwCase is the replayable case text)

type rwEntry struct {
	T     string            `json:"t"` // one-character typeflag
	Name  string            `json:"n"`
	Link  string            `json:"l,omitempty"`
	Mode  int64             `json:"m,omitempty"`
	Uid   int               `json:"u,omitempty"`
	Gid   int               `json:"g,omitempty"`
	Uname string            `json:"un,omitempty"`
	Gname string            `json:"gn,omitempty"`
	Size  int               `json:"sz,omitempty"`
	Fill  int               `json:"f,omitempty"`
	MT    [2]int64          `json:"mt"`
	AT    *[2]int64         `json:"at,omitempty"`
	CT    *[2]int64         `json:"ct,omitempty"`
	Maj   int64             `json:"maj,omitempty"`
	Min   int64             `json:"min,omitempty"`
	Pax   map[string]string `json:"pax,omitempty"` // key -> hex(value)
	Fmt   int               `json:"fmt,omitempty"` // tar.Format (0 = let the writer choose)
}

type rwMod struct {
	Name string `json:"name"`
	Act  string `json:"act"`
	Size int    `json:"size,omitempty"`
	To   string `json:"to,omitempty"`
}

type rwFault struct {
	Kind     string `json:"kind,omitempty"` // "", "err", "trunc", "close"
	At       int    `json:"at,omitempty"`
	WithData bool   `json:"wd,omitempty"` // the failing Read returns its last bytes together with the error
}

type rwCase struct {
	Op       string    `json:"op"` // "rebase" | "replace"
	Entries  []rwEntry `json:"entries"`
	Old      string    `json:"old,omitempty"`
	New      string    `json:"new,omitempty"`
	Mods     []rwMod   `json:"mods,omitempty"`
	Fault    rwFault   `json:"fault"`
	InChunk  int       `json:"inchunk,omitempty"`
	OutChunk int       `json:"outchunk,omitempty"`
	Sub      bool      `json:"sub,omitempty"`
}

func (c *rwCase) text() string {
	b, _ := json.Marshal(c)
	return string(b)
}

// rwOutcome is what one executed case reports (also the subprocess wire format).
type rwOutcome struct {
	Problems   []string `json:"problems"`
	Counts     []string `json:"counts"`
	Setup      string   `json:"setup,omitempty"`
	Nontrivial bool     `json:"nontrivial"`
	Compared   bool     `json:"compared"`
	Hung       bool     `json:"hung,omitempty"`
}

func (o *rwOutcome) bad(f string, a ...any) { o.Problems = append(o.Problems, fmt.Sprintf(f, a...)) }
func (o *rwOutcome) cnt(k string)           { o.Counts = append(o.Counts, k) }

// ---------------------------------------------------------------------------------------------
// building and parsing (archive/tar only; nothing from the library under test)

func rwBody(size, fill int) []byte {
	b := make([]byte, size)
	x := uint32(fill)*2654435761 + 12345
	for i := range b {
		x = x*1664525 + 1013904223
		b[i] = byte(x >> 24)
	}
	return b
}

func rwTime(t [2]int64) time.Time { return time.Unix(t[0], t[1]) }

func rwHeader(e *rwEntry) *tar.Header {
	var pax map[string]string
	if len(e.Pax) > 0 {
		pax = map[string]string{}
		for k, v := range e.Pax {
			b, _ := hex.DecodeString(v)
			pax[k] = string(b)
		}
	}
	if e.T == "g" {
		return &tar.Header{Typeflag: tar.TypeXGlobalHeader, Name: e.Name, PAXRecords: pax, Format: tar.Format(e.Fmt)}
	}
	h := &tar.Header{
		Typeflag: e.T[0], Name: e.Name, Linkname: e.Link, Mode: e.Mode, Uid: e.Uid, Gid: e.Gid,
		Uname: e.Uname, Gname: e.Gname, ModTime: rwTime(e.MT), Devmajor: e.Maj, Devminor: e.Min,
		PAXRecords: pax, Format: tar.Format(e.Fmt),
	}
	if e.T == "0" {
		h.Size = int64(e.Size)
	}
	if e.T == "1" && e.Size > 0 {
		// pax/star style: a hard-link entry that records the size of the file it links to (no data follows)
		h.Size = int64(e.Size)
	}
	if e.AT != nil {
		h.AccessTime = rwTime(*e.AT)
	}
	if e.CT != nil {
		h.ChangeTime = rwTime(*e.CT)
	}
	return h
}

// rwLayout records where each entry's header blocks, data and padding lie in the built archive.
type rwLayout struct {
	start, dataStart, dataEnd, padEnd []int
	total                             int
}

func rwBuild(es []rwEntry) ([]byte, *rwLayout, error) {
	var buf bytes.Buffer
	tw := tar.NewWriter(&buf)
	lay := &rwLayout{}
	for i := range es {
		lay.start = append(lay.start, buf.Len())
		if err := tw.WriteHeader(rwHeader(&es[i])); err != nil {
			return nil, nil, fmt.Errorf("entry %d: %w", i, err)
		}
		lay.dataStart = append(lay.dataStart, buf.Len())
		if es[i].T == "0" && es[i].Size > 0 {
			if _, err := tw.Write(rwBody(es[i].Size, es[i].Fill)); err != nil {
				return nil, nil, fmt.Errorf("entry %d body: %w", i, err)
			}
		}
		lay.dataEnd = append(lay.dataEnd, buf.Len())
		if err := tw.Flush(); err != nil {
			return nil, nil, err
		}
		lay.padEnd = append(lay.padEnd, buf.Len())
	}
	if err := tw.Close(); err != nil {
		return nil, nil, err
	}
	lay.total = buf.Len()
	return buf.Bytes(), lay, nil
}

// class names the position of "k bytes delivered, then the fault".
func (l *rwLayout) class(k int) string {
	n := len(l.start)
	for i := 0; i < n; i++ {
		switch {
		case k == l.start[i]:
			return "boundary"
		case k < l.start[i]:
			return "?"
		case k < l.dataStart[i]:
			return "hdr"
		case k < l.dataEnd[i]:
			return "body"
		case k < l.padEnd[i]:
			if i == n-1 {
				return "lastpad"
			}
			return "pad"
		}
	}
	end := 0
	if n > 0 {
		end = l.padEnd[n-1]
	}
	switch {
	case k == end:
		return "trailer0"
	case k < l.total:
		return "trailer"
	case k == l.total:
		return "end"
	}
	return "beyond"
}

// tail: every entry's data has been delivered before the fault (padding / trailer only is missing).
func (l *rwLayout) tail(k int) bool {
	n := len(l.start)
	return n == 0 || k >= l.dataEnd[n-1]
}

type rwParsed struct {
	H    tar.Header
	Body []byte
}

// rwParse reads entries until the stream ends; err is nil for a clean end, otherwise the error that ended it.
// Only completely read entries are returned.
func rwParse(r io.Reader) ([]rwParsed, error) {
	tr := tar.NewReader(r)
	var out []rwParsed
	for {
		h, err := tr.Next()
		if err == io.EOF {
			return out, nil
		}
		if err != nil {
			return out, err
		}
		b, err := io.ReadAll(tr)
		if err != nil {
			return out, err
		}
		out = append(out, rwParsed{H: *h, Body: b})
	}
}

var rwBasicPax = map[string]bool{"path": true, "linkpath": true, "size": true, "uid": true, "gid": true,
	"uname": true, "gname": true, "mtime": true, "atime": true, "ctime": true}

func rwExtRecords(m map[string]string) map[string]string {
	out := map[string]string{}
	for k, v := range m {
		if !rwBasicPax[k] {
			out[k] = v
		}
	}
	return out
}

func rwMapDiff(a, b map[string]string) string {
	for k, v := range a {
		w, ok := b[k]
		if !ok {
			return fmt.Sprintf("key %q lost", k)
		}
		if v != w {
			return fmt.Sprintf("key %q: %q -> %q", k, v, w)
		}
	}
	for k := range b {
		if _, ok := a[k]; !ok {
			return fmt.Sprintf("key %q appeared", k)
		}
	}
	return ""
}

// rwDiff compares every parsed field the property names; "" when identical.
func rwDiff(exp, got *tar.Header, expBody, gotBody []byte, skipName, withBody bool) string {
	var d []string
	add := func(f string, a, b any) { d = append(d, fmt.Sprintf("%s: want %v got %v", f, a, b)) }
	if exp.Typeflag != got.Typeflag {
		add("Typeflag", string(exp.Typeflag), string(got.Typeflag))
	}
	if !skipName && exp.Name != got.Name {
		add("Name", fmt.Sprintf("%q", exp.Name), fmt.Sprintf("%q", got.Name))
	}
	if exp.Linkname != got.Linkname {
		add("Linkname", fmt.Sprintf("%q", exp.Linkname), fmt.Sprintf("%q", got.Linkname))
	}
	if exp.Mode != got.Mode {
		add("Mode", exp.Mode, got.Mode)
	}
	if exp.Uid != got.Uid {
		add("Uid", exp.Uid, got.Uid)
	}
	if exp.Gid != got.Gid {
		add("Gid", exp.Gid, got.Gid)
	}
	if exp.Uname != got.Uname {
		add("Uname", exp.Uname, got.Uname)
	}
	if exp.Gname != got.Gname {
		add("Gname", exp.Gname, got.Gname)
	}
	if exp.Size != got.Size {
		add("Size", exp.Size, got.Size)
	}
	if !exp.ModTime.Equal(got.ModTime) {
		add("ModTime", exp.ModTime.UnixNano(), got.ModTime.UnixNano())
	}
	if !exp.AccessTime.Equal(got.AccessTime) {
		add("AccessTime", exp.AccessTime, got.AccessTime)
	}
	if !exp.ChangeTime.Equal(got.ChangeTime) {
		add("ChangeTime", exp.ChangeTime, got.ChangeTime)
	}
	if exp.Devmajor != got.Devmajor {
		add("Devmajor", exp.Devmajor, got.Devmajor)
	}
	if exp.Devminor != got.Devminor {
		add("Devminor", exp.Devminor, got.Devminor)
	}
	//nolint:staticcheck // Xattrs is deprecated but is a parsed field the property names
	if s := rwMapDiff(exp.Xattrs, got.Xattrs); s != "" {
		d = append(d, "Xattrs "+s)
	}
	if s := rwMapDiff(rwExtRecords(exp.PAXRecords), rwExtRecords(got.PAXRecords)); s != "" {
		d = append(d, "PAXRecords "+s)
	}
	if withBody && !bytes.Equal(expBody, gotBody) {
		d = append(d, fmt.Sprintf("content: want %d bytes got %d bytes (or bytes differ)", len(expBody), len(gotBody)))
	}
	return strings.Join(d, "; ")
}

// ---------------------------------------------------------------------------------------------
// input reader with a fault position; consumer-side chunking

type rwInput struct {
	data     []byte
	pos      int
	cut      int // -1: none
	err      error
	chunk    int
	withData bool
	closed   atomic.Int32
}

func (r *rwInput) Read(p []byte) (int, error) {
	limit := len(r.data)
	if r.cut >= 0 && r.cut < limit {
		limit = r.cut
	}
	if r.pos >= limit {
		if r.cut >= 0 && r.cut <= len(r.data) && r.pos >= r.cut {
			return 0, r.err
		}
		return 0, io.EOF
	}
	if len(p) == 0 {
		return 0, nil
	}
	n := len(p)
	if r.chunk > 0 && n > r.chunk {
		n = r.chunk
	}
	if n > limit-r.pos {
		n = limit - r.pos
	}
	copy(p, r.data[r.pos:r.pos+n])
	r.pos += n
	if r.withData && r.cut >= 0 && r.pos == r.cut && r.cut < len(r.data) {
		return n, r.err
	}
	return n, nil
}

func (r *rwInput) Close() error { r.closed.Add(1); return nil }

// rwPlainReader hides Close (RebaseArchiveEntries takes an io.Reader).
type rwPlainReader struct{ r io.Reader }

func (p rwPlainReader) Read(b []byte) (int, error) { return p.r.Read(b) }

type rwChunkReader struct {
	r io.Reader
	n int
}

func (c rwChunkReader) Read(p []byte) (int, error) {
	if c.n > 0 && len(p) > c.n {
		p = p[:c.n]
	}
	return c.r.Read(p)
}

// ---------------------------------------------------------------------------------------------
// modifiers: what my test modifier returns (shared by the real callback and the expectation)

func rwHeaderOnly(t byte) bool {
	switch t {
	case tar.TypeReg, tar.TypeRegA, tar.TypeCont: //nolint:staticcheck
		return false
	}
	return true
}

func rwModResult(m *rwMod, orig *tar.Header, body []byte) (*tar.Header, []byte, error) {
	newData := rwBody(m.Size, len(m.Name)+3)
	fresh := func() *tar.Header {
		return &tar.Header{Typeflag: tar.TypeReg, Mode: 0o640, Uid: 7, Gid: 8, ModTime: time.Unix(1500000000, 0)}
	}
	switch m.Act {
	case "remove":
		return nil, nil, nil
	case "err", "errread":
		return nil, nil, rwModErr
	case "errhdr":
		h := orig
		if h == nil {
			h = fresh()
		}
		return h, newData, rwModErr
	case "badhdr":
		return &tar.Header{Typeflag: tar.TypeReg, Name: strings.Repeat("x", 300), Mode: 0o600, Format: tar.FormatUSTAR}, newData, nil
	}
	var h *tar.Header
	var data []byte
	if orig == nil {
		h = fresh()
		data = newData
		switch m.Act {
		case "rename":
			h.Name = m.To
		case "newhdrname":
			h.Name = m.Name
		case "wrongsize":
			h.Size = 99999
		}
		return h, data, nil
	}
	h = orig
	switch m.Act {
	case "same", "rename", "emptyname":
		data = body
	default: // data, noread, partial, wrongsize, newhdr, newhdrname
		data = newData
	}
	if rwHeaderOnly(orig.Typeflag) {
		data = nil
	}
	switch m.Act {
	case "rename":
		h.Name = m.To
	case "emptyname":
		h.Name = ""
	case "wrongsize":
		h.Size = 99999
	}
	return h, data, nil
}

type rwExp struct {
	H        tar.Header
	Body     []byte
	SkipName bool
	What     string
}

type rwModel struct {
	main    []rwExp
	tail    []rwExp
	mainErr string // "", "mod" (must be the modifier's error), "any"
	tailErr string
}

func rwCopyHeader(h *tar.Header) *tar.Header {
	c := *h
	return &c
}

func rwReplaceModel(in []rwParsed, mods []rwMod) *rwModel {
	md := &rwModel{}
	pending := map[string]*rwMod{}
	for i := range mods {
		pending[mods[i].Name] = &mods[i]
	}
	apply := func(m *rwMod, orig *tar.Header, body []byte) (e *rwExp, errKind string) {
		h, data, err := rwModResult(m, orig, body)
		if err != nil {
			return nil, "mod"
		}
		if h == nil {
			return nil, ""
		}
		if m.Act == "badhdr" {
			return nil, "any"
		}
		c := *h
		if c.Name == "" {
			c.Name = m.Name
		}
		c.Size = int64(len(data))
		return &rwExp{H: c, Body: data, What: "modified by " + m.Act}, ""
	}
	for i := range in {
		e := &in[i]
		m, ok := pending[e.H.Name]
		if !ok {
			md.main = append(md.main, rwExp{H: e.H, Body: e.Body, What: "pass-through"})
			continue
		}
		delete(pending, e.H.Name)
		x, ek := apply(m, rwCopyHeader(&e.H), e.Body)
		if ek != "" {
			md.mainErr = ek
			return md
		}
		if x != nil {
			md.main = append(md.main, *x)
		}
	}
	for i := range mods {
		m, ok := pending[mods[i].Name]
		if !ok {
			continue
		}
		x, ek := apply(m, nil, nil)
		if ek != "" {
			if md.tailErr == "" || ek == "any" {
				md.tailErr = ek
			}
			continue
		}
		if x != nil {
			x.What = "appended by " + m.Act
			md.tail = append(md.tail, *x)
		}
	}
	return md
}

func rwEffOld(old string) string {
	if old == "/" {
		return ""
	}
	return old
}

func rwRebaseModel(in []rwParsed, old, new string) *rwModel {
	md := &rwModel{}
	old = rwEffOld(old)
	for i := range in {
		h := in[i].H
		h.Name = strings.Replace(h.Name, old, new, 1)
		if h.Typeflag == tar.TypeLink {
			h.Linkname = strings.Replace(h.Linkname, old, new, 1)
		}
		md.main = append(md.main, rwExp{H: h, Body: in[i].Body, SkipName: h.Typeflag == tar.TypeXGlobalHeader, What: "rebased"})
	}
	return md
}

// ---------------------------------------------------------------------------------------------
// goroutine accounting

func rwLibGoroutines() (int, string) {
	buf := make([]byte, 1<<20)
	buf = buf[:runtime.Stack(buf, true)]
	n := 0
	first := ""
	for _, g := range strings.Split(string(buf), "\n\n") {
		if strings.Contains(g, "created by github.com/moby/go-archive.") {
			n++
			first = g
		}
	}
	return n, first
}

// rwCeiling is the settle ceiling: generous (5 s) until three waits have run into it, short afterwards, so that a
// regression that leaks on every case is reported quickly instead of stalling the stream for hours.
var rwCeilingHits atomic.Int32

// rwKnownLeaked: library goroutines already reported as leaked by an earlier case (not blamed on later cases).
var rwKnownLeaked int

func rwCeiling() time.Duration {
	if rwCeilingHits.Load() >= 3 {
		return 100 * time.Millisecond
	}
	return 5 * time.Second
}

// rwSettle waits for the goroutine count to return to base (or for no library-created goroutine to remain).
func rwSettle(base int) (bool, string) {
	deadline := time.Now().Add(rwCeiling())
	for i := 0; ; i++ {
		if runtime.NumGoroutine() <= base {
			return true, ""
		}
		if i < 200 {
			runtime.Gosched()
			continue
		}
		n, tr := rwLibGoroutines()
		if n <= rwKnownLeaked {
			return true, ""
		}
		if time.Now().After(deadline) {
			rwCeilingHits.Add(1)
			rwKnownLeaked = n
			return false, tr
		}
		d := time.Duration(i-199) * 20 * time.Microsecond
		if d > 5*time.Millisecond {
			d = 5 * time.Millisecond
		}
		time.Sleep(d)
	}
}

// ---------------------------------------------------------------------------------------------
// running one case

// One long-lived runner goroutine executes the cases (so that no dying per-case goroutine blurs the goroutine
// baseline); a case that exceeds its deadline abandons the runner and a fresh one is started for the next case.
type rwRunner struct {
	in  chan *rwCase
	out chan *rwOutcome
}

var rwTheRunner *rwRunner

func rwRunDeadline(c *rwCase) *rwOutcome {
	if rwTheRunner == nil {
		r := &rwRunner{in: make(chan *rwCase), out: make(chan *rwOutcome, 1)}
		go func() {
			for c := range r.in {
				r.out <- rwRunCase(c)
			}
		}()
		rwTheRunner = r
	}
	r := rwTheRunner
	r.in <- c
	select {
	case o := <-r.out:
		return o
	case <-time.After(rwDeadline):
		rwTheRunner = nil
		o := &rwOutcome{Hung: true}
		n, tr := rwLibGoroutines()
		o.bad("hang: the case did not finish within %v (the output reader never reached EOF or an error); %d library goroutines alive; first: %s", rwDeadline, n, rwTailStr(tr, 600))
		return o
	}
}

func rwTailStr(s string, n int) string {
	if len(s) > n {
		return "…" + s[len(s)-n:]
	}
	return s
}

func rwErrText(err error) string {
	if err == nil {
		return "clean EOF"
	}
	return "error " + fmt.Sprintf("%q", err.Error())
}

func rwRunCase(c *rwCase) *rwOutcome {
	o := &rwOutcome{}
	data, lay, err := rwBuild(c.Entries)
	if err != nil {
		o.Setup = "cannot build input archive: " + err.Error()
		return o
	}
	inFull, err := rwParse(bytes.NewReader(data))
	if err != nil || len(inFull) != len(c.Entries) {
		o.Setup = fmt.Sprintf("reference parse of the input archive: %d of %d entries, err %v", len(inFull), len(c.Entries), err)
		return o
	}
	for i := range c.Entries {
		o.cnt("type:" + c.Op + ":" + c.Entries[i].T)
		o.cnt("infmt:" + inFull[i].H.Format.String())
	}

	in := &rwInput{data: data, cut: -1, chunk: c.InChunk, withData: c.Fault.WithData}
	modelIn := inFull
	mustErr, either := false, false
	class := ""
	at := c.Fault.At
	if at > lay.total {
		at = lay.total
	}
	if at < 0 {
		at = 0
	}
	switch c.Fault.Kind {
	case "err":
		in.cut, in.err = at, rwInErr
		class = lay.class(at)
		if lay.tail(at) {
			either = true
		} else {
			mustErr = true
		}
	case "trunc":
		in.cut, in.err = at, io.EOF
		class = lay.class(at)
		ref, refErr := rwParse(bytes.NewReader(data[:at]))
		switch {
		case lay.tail(at):
			either = true
		case refErr == nil:
			// archive/tar itself accepts this prefix as a complete archive of len(ref) entries (cut exactly at an
			// entry boundary or inside inter-entry padding): a clean end with exactly those entries is legitimate.
			modelIn = ref
			either = true
			o.cnt("trunc-valid-prefix:" + class)
		default:
			mustErr = true
		}
		if refErr == nil && (class == "body" || class == "hdr") && !lay.tail(at) {
			o.cnt("note:reference-accepts-cut-in-" + class)
		}
	}
	if c.Fault.Kind != "" {
		o.cnt("fault:" + c.Op + ":" + c.Fault.Kind + ":" + class)
	} else {
		o.cnt("fault:" + c.Op + ":none")
	}

	// expectation
	var md *rwModel
	if c.Op == "rebase" {
		md = rwRebaseModel(modelIn, c.Old, c.New)
	} else {
		md = rwReplaceModel(modelIn, c.Mods)
	}

	// the real call
	base := runtime.NumGoroutine()
	var out io.ReadCloser
	var mu sync.Mutex
	calls := map[string]int{}
	var argProblems []string
	if c.Op == "rebase" {
		out = archive.RebaseArchiveEntries(rwPlainReader{in}, c.Old, c.New)
	} else {
		first := map[string]int{}
		for i := len(inFull) - 1; i >= 0; i-- {
			first[inFull[i].H.Name] = i
		}
		mods := map[string]archive.TarModifierFunc{}
		for i := range c.Mods {
			m := &c.Mods[i]
			mods[m.Name] = func(path string, h *tar.Header, content io.Reader) (*tar.Header, []byte, error) {
				complain := func(f string, a ...any) {
					mu.Lock()
					argProblems = append(argProblems, fmt.Sprintf("modifier %q (%s): ", m.Name, m.Act)+fmt.Sprintf(f, a...))
					mu.Unlock()
				}
				mu.Lock()
				calls[m.Name]++
				mu.Unlock()
				if path != m.Name {
					complain("called with path %q", path)
				}
				idx, exists := first[m.Name]
				if h == nil {
					if content != nil {
						complain("nil header but non-nil content reader")
					}
					if exists && idx < len(modelIn) {
						complain("called with (nil header): the entry exists in the input (entry %d)", idx)
					}
					return rwModResult(m, nil, nil)
				}
				if !exists {
					complain("called with a header (%q) although no entry of that name exists", h.Name)
					return rwModResult(m, h, nil)
				}
				if d := rwDiff(&inFull[idx].H, h, nil, nil, false, false); d != "" {
					complain("header passed differs from the input entry: %s", d)
				}
				if content == nil {
					complain("existing entry but nil content reader")
					return rwModResult(m, h, nil)
				}
				var body []byte
				switch m.Act {
				case "same", "data", "rename", "emptyname", "errread", "errhdr":
					b, err := io.ReadAll(content)
					if err != nil {
						return nil, nil, fmt.Errorf("modifier reading content: %w", err)
					}
					if !bytes.Equal(b, inFull[idx].Body) {
						complain("content reader yielded %d bytes, the entry's body has %d (or bytes differ)", len(b), len(inFull[idx].Body))
					}
					body = b
				case "partial":
					b := make([]byte, 3)
					n, _ := io.ReadFull(content, b)
					if !bytes.HasPrefix(inFull[idx].Body, b[:n]) {
						complain("content reader's first %d bytes differ from the entry's body", n)
					}
				}
				return rwModResult(m, h, body)
			}
		}
		out = archive.ReplaceFileTarWrapper(in, mods)
	}

	finish := func() {
		ok, tr := rwSettle(base)
		if ok && c.Fault.Kind == "close" {
			// the early-close clause is about exactly this: confirm on the stack dump, not only on the count
			for dl := time.Now().Add(rwCeiling()); ; {
				n, t := rwLibGoroutines()
				if n <= rwKnownLeaked {
					break
				}
				if time.Now().After(dl) {
					rwCeilingHits.Add(1)
					rwKnownLeaked = n
					ok, tr = false, t
					break
				}
				time.Sleep(200 * time.Microsecond)
			}
		}
		if !ok {
			o.bad("goroutine leak: a goroutine created by the rewriter is still alive after the output was closed and the settle ceiling passed: %s", rwTailStr(tr, 700))
		}
		if c.Op == "replace" {
			o.cnt("clause:input-closed")
			for dl := time.Now().Add(rwCeiling()); ok && in.closed.Load() < 1 && time.Now().Before(dl); {
				time.Sleep(100 * time.Microsecond)
			}
			if in.closed.Load() < 1 {
				rwCeilingHits.Add(1)
				o.bad("ReplaceFileTarWrapper did not close its input stream after the output was finished/closed")
			}
		}
	}

	if c.Fault.Kind == "close" {
		n, _ := io.CopyN(io.Discard, rwChunkReader{out, c.OutChunk}, int64(c.Fault.At))
		out.Close()
		o.cnt("clause:early-close-terminates")
		if n < int64(c.Fault.At) {
			o.cnt("close:after-end")
		} else {
			o.cnt("close:mid-stream")
			o.Nontrivial = true
		}
		finish()
		return o
	}

	got, gotErr := rwParse(rwChunkReader{out, c.OutChunk})
	out.Close()
	finish()
	o.Compared = true

	// modifier bookkeeping
	mu.Lock()
	for _, p := range argProblems {
		o.bad("%s", p)
	}
	for i := range c.Mods {
		n := calls[c.Mods[i].Name]
		if n > 1 {
			o.bad("modifier %q ran %d times (must run exactly once)", c.Mods[i].Name, n)
		}
	}
	mu.Unlock()

	inputFault := c.Fault.Kind == "err" || c.Fault.Kind == "trunc"
	expectErr := md.mainErr != "" || md.tailErr != ""

	// compare a prefix (or all) of the output with the expectation
	compare := func(full bool) {
		nMain := len(md.main)
		for i := 0; i < len(got) && i < nMain; i++ {
			e := &md.main[i]
			if d := rwDiff(&e.H, &got[i].H, e.Body, got[i].Body, e.SkipName, true); d != "" {
				o.bad("output entry %d (%s, input name %q): %s", i, e.What, e.H.Name, d)
				return
			}
		}
		if full && len(got) < nMain+len(md.tail) {
			o.bad("output has %d entries, expected %d (+%d appended) — entries were dropped although the stream ended cleanly", len(got), nMain, len(md.tail))
			return
		}
		if len(got) > nMain {
			if md.mainErr != "" {
				o.bad("output has %d entries, more than the %d that precede the failing modifier", len(got), nMain)
				return
			}
			used := make([]bool, len(md.tail))
			for j := nMain; j < len(got); j++ {
				found := false
				for k := range md.tail {
					if !used[k] && rwDiff(&md.tail[k].H, &got[j].H, md.tail[k].Body, got[j].Body, false, true) == "" {
						used[k], found = true, true
						break
					}
				}
				if !found {
					o.bad("output entry %d (%q, type %c, %d bytes) is not one of the %d expected appended entries (appended twice, duplicated, or a later same-name entry was modified)", j, got[j].H.Name, got[j].H.Typeflag, len(got[j].Body), len(md.tail))
					return
				}
			}
		}
	}

	where := ""
	if inputFault {
		where = fmt.Sprintf("input %s after %d of %d bytes (%s)", map[string]string{"err": "fails", "trunc": "ends"}[c.Fault.Kind], at, lay.total, class)
	}

	switch {
	case gotErr == nil:
		switch {
		case mustErr:
			o.bad("error not surfaced: %s but the output ended with a clean EOF after %d entries (input has %d) — silently shortened archive", where, len(got), len(inFull))
		case expectErr:
			o.bad("modifier failure not surfaced: a modifier failed (%s%s) but the output ended with a clean EOF after %d entries", md.mainErr, md.tailErr, len(got))
		default:
			compare(true)
			// exactly-once on complete success
			for i := range c.Mods {
				if calls[c.Mods[i].Name] != 1 {
					o.bad("modifier %q ran %d times on a complete run (must run exactly once)", c.Mods[i].Name, calls[c.Mods[i].Name])
				}
			}
		}
	default:
		if !mustErr && !either && !expectErr {
			o.bad("valid input, yet the output ended with %s after %d of %d entries", rwErrText(gotErr), len(got), len(md.main)+len(md.tail))
		} else {
			compare(false)
			if !inputFault && expectErr {
				want := md.mainErr
				if want == "" {
					want = md.tailErr
				}
				if want == "mod" && !errors.Is(gotErr, rwModErr) && !strings.Contains(gotErr.Error(), rwModErr.Error()) {
					o.bad("the output ended with %s, not with the modifier's error", rwErrText(gotErr))
				}
			}
		}
	}

	// ---- counters: which clauses this case exercised
	if inputFault {
		if mustErr {
			o.cnt("clause:input-error-surfaces:" + c.Fault.Kind + ":" + class)
			o.Nontrivial = true
		} else {
			o.cnt("clause:tail-or-valid-prefix-fault:" + class)
		}
		if gotErr == nil {
			o.cnt("faultend:" + c.Fault.Kind + ":clean")
		} else if errors.Is(gotErr, rwInErr) {
			o.cnt("faultend:" + c.Fault.Kind + ":custom-error")
		} else if errors.Is(gotErr, io.ErrUnexpectedEOF) {
			o.cnt("faultend:" + c.Fault.Kind + ":unexpected-eof")
		} else {
			o.cnt("faultend:" + c.Fault.Kind + ":other-error")
		}
	}
	if c.Op == "rebase" && gotErr == nil {
		old := rwEffOld(c.Old)
		for i := range modelIn {
			h := &modelIn[i].H
			o.cnt("clause:rebase-fields-preserved")
			if old != "" && strings.HasPrefix(h.Name, old) {
				o.cnt("clause:rebase-leading-occurrence")
				o.Nontrivial = true
				if strings.Count(h.Name, old) >= 2 {
					o.cnt("clause:rebase-later-occurrence-survives")
				}
			} else if old != "" && strings.Contains(h.Name, old) {
				o.cnt("clause:rebase-nonleading-first-occurrence")
			} else if old == "" {
				o.cnt("clause:rebase-empty-old-prepends")
				o.Nontrivial = true
			} else {
				o.cnt("clause:rebase-name-without-old")
			}
			switch h.Typeflag {
			case tar.TypeLink:
				switch {
				case old != "" && strings.HasPrefix(h.Linkname, old):
					o.cnt("clause:hardlink-retarget-leading")
				case len(h.Linkname) < len(old):
					o.cnt("clause:hardlink-linkname-shorter-than-old")
				case old != "" && !strings.Contains(h.Linkname, old):
					o.cnt("clause:hardlink-linkname-without-old")
				default:
					o.cnt("clause:hardlink-other")
				}
				// consistency with the renamed target
				for j := range modelIn {
					if j != i && modelIn[j].H.Name == h.Linkname && i < len(got) && j < len(got) {
						o.cnt("clause:hardlink-consistent-with-renamed-target")
						if got[i].H.Linkname != got[j].H.Name {
							o.bad("hard link entry %d: Linkname %q no longer names entry %d (%q) after the rename", i, got[i].H.Linkname, j, got[j].H.Name)
						}
						break
					}
				}
			case tar.TypeSymlink:
				if old != "" && strings.Contains(h.Linkname, old) {
					o.cnt("clause:symlink-target-with-old-untouched")
				} else {
					o.cnt("clause:symlink-target-untouched")
				}
			}
			if len(h.PAXRecords) > 0 {
				o.cnt("clause:pax-records-preserved")
			}
			if !h.AccessTime.IsZero() || !h.ChangeTime.IsZero() {
				o.cnt("clause:atime-ctime-preserved")
			}
			if len(h.Name) > 255 {
				o.cnt("clause:name>255")
			} else if len(h.Name) > 100 {
				o.cnt("clause:name>100")
			}
			if len(h.Linkname) > 100 {
				o.cnt("clause:linkname>100")
			}
		}
		if len(c.New) > 100 {
			o.cnt("clause:rebase-newbase>100-readable")
		}
		for i := range got {
			o.cnt("outfmt:" + got[i].H.Format.String())
		}
		for i := range modelIn {
			if modelIn[i].H.Typeflag == tar.TypeReg {
				switch n := len(modelIn[i].Body); n {
				case 0, 1, 2, 511, 512, 513, 700, 1024, 70000:
					o.cnt(fmt.Sprintf("bodysize:%d", n))
				default:
					o.cnt("bodysize:other")
				}
			}
		}
	}
	if c.Op == "replace" {
		if gotErr == nil && !expectErr {
			seen := map[string]int{}
			for i := range modelIn {
				seen[modelIn[i].H.Name]++
			}
			modNames := map[string]*rwMod{}
			for i := range c.Mods {
				modNames[c.Mods[i].Name] = &c.Mods[i]
			}
			for i := range modelIn {
				if _, ok := modNames[modelIn[i].H.Name]; !ok {
					o.cnt("clause:replace-passthrough-identical")
				}
			}
			for i := range c.Mods {
				m := &c.Mods[i]
				o.cnt("clause:modifier-exactly-once")
				if seen[m.Name] > 0 {
					o.cnt("clause:modifier-existing:" + m.Act)
					if seen[m.Name] > 1 {
						o.cnt("clause:later-same-name-passes-through")
					}
				} else {
					o.cnt("clause:modifier-absent-appended:" + m.Act)
				}
				o.Nontrivial = true
			}
		}
		if expectErr && !inputFault {
			k := md.mainErr
			ph := "existing"
			if k == "" {
				k, ph = md.tailErr, "absent"
			}
			o.cnt("clause:modifier-error-surfaces:" + ph + ":" + k)
			o.Nontrivial = true
		}
	}
	return o
}

// ---------------------------------------------------------------------------------------------
// subprocess

// The worker reads one JSON case per line and answers one JSON outcome per line, flushed per case, so that the
// parent can attribute a crash (a panic inside the rewriter's goroutine kills the process) to the exact case.
func runRewriteSub(cfg *Config) *Result {
	sc := bufio.NewScanner(os.Stdin)
	sc.Buffer(make([]byte, 1<<20), 1<<28)
	for sc.Scan() {
		var c rwCase
		if err := json.Unmarshal(sc.Bytes(), &c); err != nil {
			fmt.Fprintln(os.Stderr, "decode case:", err)
			os.Exit(3)
		}
		o := rwRunDeadline(&c)
		ob, _ := json.Marshal(o)
		os.Stdout.Write(append(ob, '\n'))
		if o.Hung {
			// the hung goroutines would disturb the accounting of the following cases: let the parent restart us
			os.Exit(0)
		}
	}
	os.Exit(0)
	return nil
}

// rwRunBatch runs cases in worker subprocesses and returns one outcome per case. A worker that dies is blamed
// on the first case it had not answered; the remaining cases go to a fresh worker.
func rwRunBatch(cases []*rwCase) []*rwOutcome {
	outs := make([]*rwOutcome, len(cases))
	exe, err := os.Executable()
	if err != nil {
		exe = os.Args[0]
	}
	for done := 0; done < len(cases); {
		rest := cases[done:]
		var in bytes.Buffer
		for _, c := range rest {
			in.WriteString(c.text())
			in.WriteByte('\n')
		}
		ctx, cancel := context.WithTimeout(context.Background(), rwDeadline+time.Duration(len(rest))*200*time.Millisecond+20*time.Second)
		cmd := exec.CommandContext(ctx, exe, "__rewrite_sub")
		cmd.Stdin = &in
		var so, se bytes.Buffer
		cmd.Stdout, cmd.Stderr = &so, &se
		runErr := cmd.Run()
		timedOut := ctx.Err() != nil
		cancel()
		n := 0
		for _, line := range bytes.Split(so.Bytes(), []byte{'\n'}) {
			if len(bytes.TrimSpace(line)) == 0 || n >= len(rest) {
				continue
			}
			o := &rwOutcome{}
			if err := json.Unmarshal(line, o); err != nil {
				break
			}
			o.cnt("ran-in-subprocess")
			outs[done+n] = o
			n++
		}
		if n < len(rest) && !(runErr == nil && n > 0 && outs[done+n-1].Hung) {
			o := &rwOutcome{}
			var ee *exec.ExitError
			switch {
			case timedOut:
				o.Hung = true
				o.bad("hang: the worker process running this case did not finish; stderr tail: %s", rwTailStr(se.String(), 800))
			case runErr != nil && errors.As(runErr, &ee) && ee.ExitCode() != 3:
				o.bad("the rewriter crashed the process (%v) — a panic inside the rewriter's goroutine; stderr: %s", runErr, rwHeadTail(se.String()))
			default:
				o.Setup = fmt.Sprintf("worker subprocess failed (%v) after %d of %d cases: %s", runErr, n, len(rest), rwTailStr(se.String(), 400))
			}
			outs[done+n] = o
			n++
			if o.Setup != "" {
				for i := done + n; i < len(cases); i++ {
					outs[i] = &rwOutcome{Setup: o.Setup}
				}
				return outs
			}
		}
		done += n
	}
	return outs
}

func rwHeadTail(s string) string {
	if len(s) <= 1200 {
		return s
	}
	return s[:700] + " … " + s[len(s)-400:]
}

// ---------------------------------------------------------------------------------------------
// generator

type rwGen struct{ rng *Rng }

func rwHexMap(m map[string]string) map[string]string {
	out := map[string]string{}
	for k, v := range m {
		out[k] = hex.EncodeToString([]byte(v))
	}
	return out
}

func rwRep(s string, n int) string { return strings.Repeat(s, n) }

func (g *rwGen) names(old string) []string {
	L := func(n int) string { return rwRep("d", n) }
	switch old {
	case "", "/":
		return []string{"a", "etc/passwd", "dir/", "/abs/x", "src/src", "./rel", L(120) + "/f", L(90) + "/" + L(90) + "/" + L(90) + "/f", "é/ñ.txt", "x", "a/b/c"}
	case ".":
		return []string{"./", "./a.txt", ".", "./.hidden", "a.b", "./" + L(120) + "/f.x", "..", "../x", "./é.d/ñ", "./b/./c", "./" + L(90) + "/" + L(90) + "/" + L(90) + "/f"}
	}
	o := old
	return []string{o, o + "/", o + "/a", o + "/" + o + "/a", o + "/lib/" + o, "x" + o + "/y", o + ".txt", "lib/" + o, "a/b", "plain",
		o + "/" + L(120) + "/" + o + "/f", o + "/" + L(90) + "/" + L(90) + "/" + L(90) + "/" + o, o + "/é/ñ.txt", o + o, o + "/" + o, "lib/" + o + "/" + o,
		o + "/b.txt", o + "/sub/", o + "/sub/c"}
}

func (g *rwGen) symTargets(old string) []string {
	o := old
	if o == "" || o == "/" || o == "." {
		o = "src"
	}
	return []string{"/usr/" + o + "/linux", "../" + o + "s/lib.so", o + "/a", o, "target", rwRep("t", 150), rwRep("u", 120) + "/" + o + "/" + rwRep("v", 150), "é/" + o, "/", "."}
}

func (g *rwGen) hardTargets(old string, prior []rwEntry) []string {
	o := old
	out := []string{o + "/a", o + "/" + o + "/a", "lib/a", "other", "lib/" + o + "/a", o + "/" + rwRep("h", 150), "", "x"}
	if len(o) > 1 {
		out = append(out, o[:len(o)-1], o[:1])
	}
	for i := range prior {
		if prior[i].T == "0" {
			out = append(out, prior[i].Name, prior[i].Name)
		}
	}
	return out
}

var rwSizes = []int{0, 1, 511, 512, 513, 70000}

func (g *rwGen) fit(e *rwEntry) bool {
	try := func(x *rwEntry) bool {
		w := tar.NewWriter(io.Discard)
		return w.WriteHeader(rwHeader(x)) == nil
	}
	if try(e) {
		return true
	}
	x := *e
	x.Fmt = int(tar.FormatPAX)
	if try(&x) {
		*e = x
		return true
	}
	x.Fmt = 0
	x.AT, x.CT = nil, nil
	x.MT[1] = 0
	if try(&x) {
		*e = x
		return true
	}
	return false
}

func (g *rwGen) entry(old string, small bool, prior []rwEntry) rwEntry {
	r := g.rng
	names := g.names(old)
	e := rwEntry{Name: r.pick(names)}
	if len(prior) > 0 && r.chance(1, 8) {
		if p := prior[r.intn(len(prior))]; p.T != "g" && p.Name != "" {
			e.Name = p.Name // duplicate name
		}
	}
	switch p := r.intn(100); {
	case p < 34:
		e.T = "0"
	case p < 46:
		e.T = "5"
	case p < 58:
		e.T = "2"
	case p < 74:
		e.T = "1"
	case p < 79:
		e.T = "3"
	case p < 84:
		e.T = "4"
	case p < 90:
		e.T = "6"
	case p < 95:
		e.T = "g"
	default:
		e.T = "0"
	}
	e.Fmt = []int{0, 0, int(tar.FormatUSTAR), int(tar.FormatPAX), int(tar.FormatPAX), int(tar.FormatGNU)}[r.intn(6)]
	if e.T == "g" {
		e.Name = r.pick([]string{"", "", "pax_global_header", "GlobalHead.0.0"})
		e.Fmt = []int{0, int(tar.FormatPAX)}[r.intn(2)]
		e.Pax = rwHexMap(map[string]string{"comment": r.pick([]string{"c0ffee", "häsh", "x y z"})})
		if r.chance(1, 2) {
			e.Pax["VENDOR.global"] = hex.EncodeToString([]byte("g-value"))
		}
		return e
	}
	e.Mode = int64(r.intn(0o10000))
	e.Uid = []int{0, 1000, 2097151, 2097152, 1 << 31, 65534}[r.intn(6)]
	e.Gid = []int{0, 1000, 2097151, 2097152, 100}[r.intn(5)]
	e.Uname = r.pick([]string{"", "root", "user", "user-name-longer-than-thirty-two-characters-x", "usér"})
	e.Gname = r.pick([]string{"", "wheel", "grp", "grüppe"})
	e.MT = [2]int64{[]int64{0, 1, 1700000000, 8589934591, 8589934592, -1, 1234567890}[r.intn(7)], 0}
	pax := e.Fmt == int(tar.FormatPAX)
	gnu := e.Fmt == int(tar.FormatGNU)
	if e.Fmt == int(tar.FormatUSTAR) || (gnu && r.chance(1, 2)) || (e.Fmt == 0 && r.chance(1, 2)) {
		// values every format can hold, so that the entry really stays in the chosen format
		e.Uid = []int{0, 1000, 2097151}[r.intn(3)]
		e.Gid = []int{0, 1000, 2097151}[r.intn(3)]
		e.Uname = r.pick([]string{"", "root", "user"})
		e.Gname = r.pick([]string{"", "wheel", "grp"})
		e.MT[0] = []int64{0, 1, 1700000000, 8589934591}[r.intn(4)]
	}
	if pax && r.chance(1, 2) {
		e.MT[1] = int64(r.intn(1000000000))
	}
	if (pax || gnu) && r.chance(1, 2) {
		a := [2]int64{1600000000 + int64(r.intn(1000)), 0}
		cc := [2]int64{1500000000 + int64(r.intn(1000)), 0}
		if pax && r.chance(1, 2) {
			a[1], cc[1] = int64(r.intn(1000000000)), 500
		}
		if r.chance(2, 3) {
			e.AT = &a
		}
		if r.chance(2, 3) {
			e.CT = &cc
		}
	}
	if (pax || e.Fmt == 0) && r.chance(2, 5) {
		m := map[string]string{}
		for k := r.intn(3) + 1; k > 0; k-- {
			switch r.intn(6) {
			case 0:
				m["SCHILY.xattr.user.k"+fmt.Sprint(r.intn(3))] = r.pick([]string{"v", "välue", rwRep("x", 300)})
			case 1:
				m["SCHILY.xattr.security.capability"] = "\x01\x00\x00\x02\x00\x20\x00\x00\x00\x00\x00\x00\x00\x00\x00\x00\x00\x00\x00\x00"
			case 2:
				m["VENDOR.key"] = r.pick([]string{"1", "non-ascii ✓", "with\nnewline", "a=b"})
			case 3:
				m["MYORG.ünï"] = "ö"
			case 4:
				m["comment"] = "entry comment"
			case 5:
				m["SCHILY.xattr.trusted.overlay.opaque"] = "y"
			}
		}
		e.Pax = rwHexMap(m)
	}
	switch e.T {
	case "0":
		if small {
			e.Size = []int{0, 1, 511, 512, 513, 2, 1024, 700}[r.intn(8)]
		} else {
			e.Size = rwSizes[r.intn(len(rwSizes))]
			if r.chance(1, 6) {
				e.Size = r.intn(3000)
			}
		}
		e.Fill = r.intn(1000)
	case "5":
		if !strings.HasSuffix(e.Name, "/") && r.chance(2, 3) {
			e.Name += "/"
		}
	case "2":
		e.Link = r.pick(g.symTargets(old))
	case "1":
		e.Link = r.pick(g.hardTargets(old, prior))
		if r.chance(1, 4) {
			e.Size = []int{1, 12, 513}[r.intn(3)]
		}
	case "3", "4":
		e.Maj = []int64{0, 1, 8, 259, 2097151}[r.intn(5)]
		e.Min = []int64{0, 3, 255, 65536, 2097151}[r.intn(5)]
	}
	if !g.fit(&e) {
		// last resort: a plain entry of the same type with a short name
		e = rwEntry{T: e.T, Name: "plain" + fmt.Sprint(r.intn(100)), Link: "", Mode: 0o644, MT: [2]int64{1, 0}, Size: e.Size, Fill: e.Fill}
		if e.T == "1" || e.T == "2" {
			e.Link = "plain"
		}
	}
	return e
}

func (g *rwGen) archive(old string, n int, small bool) []rwEntry {
	var es []rwEntry
	for i := 0; i < n; i++ {
		es = append(es, g.entry(old, small, es))
	}
	return es
}

func (g *rwGen) oldBase() string {
	r := g.rng
	switch p := r.intn(100); {
	case p < 46:
		return "src"
	case p < 54:
		return "/"
	case p < 62:
		return ""
	case p < 70:
		return "."
	case p < 78:
		return "a"
	case p < 85:
		return "dir.d"
	case p < 92:
		return rwRep("o", 120)
	default:
		return "s"
	}
}

func (g *rwGen) newBase(old string) string {
	r := g.rng
	o := old
	if o == "/" {
		o = "root"
	}
	pool := []string{"dst", "d", ".", "new-" + o, o + "2", rwRep("n", 101), rwRep("n", 100), rwRep("N", 255), rwRep("m", 300), "dést", "x/y", old, rwRep("é", 60), "dst.d"}
	s := r.pick(pool)
	if s == "" {
		s = "dst"
	}
	return s
}

func rwNeedsSub(c *rwCase) bool {
	if c.Op != "rebase" {
		return false
	}
	old := rwEffOld(c.Old)
	for i := range c.Entries {
		e := &c.Entries[i]
		if e.T == "1" && (!strings.HasPrefix(e.Link, old) || len(e.Link) < len(old)) {
			return true
		}
		if len(e.Name) < len(old) {
			return true
		}
	}
	return false
}

func (g *rwGen) chunks(c *rwCase) {
	r := g.rng
	c.InChunk = []int{0, 0, 1, 7, 511, 512, 513, 4096}[r.intn(8)]
	c.OutChunk = []int{0, 0, 1, 100, 512, 8192}[r.intn(6)]
	// keep byte-at-a-time readers away from the big bodies (time)
	big := false
	for i := range c.Entries {
		if c.Entries[i].Size > 5000 {
			big = true
		}
	}
	if big {
		if c.InChunk == 1 || c.InChunk == 7 {
			c.InChunk = 511
		}
		if c.OutChunk == 1 {
			c.OutChunk = 100
		}
	}
}

// rwEncodable reports whether archive/tar can write every header the expectation contains (a rename onto a name
// that tar cannot hold — e.g. a regular file called "x/" — is an invalid request, not a case for the property).
func rwEncodable(md *rwModel, forcePAX bool) bool {
	for _, l := range [][]rwExp{md.main, md.tail} {
		for i := range l {
			h := l[i].H
			if forcePAX {
				h.Format = tar.FormatPAX
			}
			if h.Name == "" || tar.NewWriter(io.Discard).WriteHeader(&h) != nil {
				return false
			}
		}
	}
	return true
}

func (g *rwGen) rebaseCase(small bool) *rwCase {
	for {
		c := g.rebaseCase1(small)
		data, _, err := rwBuild(c.Entries)
		if err != nil {
			continue
		}
		in, err := rwParse(bytes.NewReader(data))
		if err != nil {
			continue
		}
		if !rwEncodable(rwRebaseModel(in, c.Old, c.New), true) {
			c.New = "dst"
			if !rwEncodable(rwRebaseModel(in, c.Old, c.New), true) {
				continue
			}
		}
		return c
	}
}

func (g *rwGen) replaceCase(small bool, withErr bool) *rwCase {
	for {
		c := g.replaceCase1(small, withErr)
		data, _, err := rwBuild(c.Entries)
		if err != nil {
			continue
		}
		in, err := rwParse(bytes.NewReader(data))
		if err != nil {
			continue
		}
		if !rwEncodable(rwReplaceModel(in, c.Mods), false) {
			continue
		}
		return c
	}
}

func (g *rwGen) rebaseCase1(small bool) *rwCase {
	r := g.rng
	old := g.oldBase()
	n := 1 + r.intn(9)
	if small {
		n = 1 + r.intn(4)
	}
	if r.chance(1, 40) {
		n = 0
	}
	c := &rwCase{Op: "rebase", Old: old, New: g.newBase(old), Entries: g.archive(old, n, small)}
	g.chunks(c)
	return c
}

var (
	rwActsReg    = []string{"same", "data", "noread", "partial", "remove", "rename", "emptyname", "wrongsize", "data", "same"}
	rwActsHdr    = []string{"same", "remove", "rename", "emptyname"}
	rwActsAbsent = []string{"newhdr", "newhdrname", "remove", "rename", "emptyname", "wrongsize", "newhdr"}
	rwActsErr    = []string{"err", "errread", "errhdr", "badhdr"}
)

func (g *rwGen) replaceCase1(small bool, withErr bool) *rwCase {
	r := g.rng
	n := 1 + r.intn(9)
	if small {
		n = 1 + r.intn(4)
	}
	if r.chance(1, 40) {
		n = 0
	}
	c := &rwCase{Op: "replace", Entries: g.archive("src", n, small)}
	// global headers written by archive/tar all carry the same default name; keep them untargeted unless chosen explicitly
	k := r.intn(5)
	if withErr && k == 0 {
		k = 1
	}
	used := map[string]bool{}
	errAt := -1
	if withErr {
		errAt = r.intn(k)
	}
	var parsed []rwParsed
	if data, _, err := rwBuild(c.Entries); err == nil {
		parsed, _ = rwParse(bytes.NewReader(data))
	}
	if len(parsed) != len(c.Entries) {
		parsed = nil
	}
	for i := 0; i < k; i++ {
		var m rwMod
		existing := len(parsed) > 0 && r.chance(3, 5)
		if existing {
			var idx int
			switch r.intn(4) {
			case 0:
				idx = 0
			case 1:
				idx = len(parsed) - 1
			default:
				idx = r.intn(len(parsed))
			}
			if r.chance(1, 2) { // prefer a regular file when there is one
				for t := 0; t < len(parsed); t++ {
					if j := (idx + t) % len(parsed); parsed[j].H.Typeflag == tar.TypeReg {
						idx = j
						break
					}
				}
			}
			m.Name = parsed[idx].H.Name
			// the first entry of that name decides which acts are sensible
			for j := range parsed {
				if parsed[j].H.Name == m.Name {
					idx = j
					break
				}
			}
			switch parsed[idx].H.Typeflag {
			case tar.TypeReg:
				m.Act = r.pick(rwActsReg)
			case tar.TypeXGlobalHeader:
				m.Act = r.pick([]string{"same", "remove"})
			default:
				m.Act = r.pick(rwActsHdr)
			}
			// a renamed existing entry keeps its original format: stay encodable in USTAR
			m.To = r.pick([]string{"renamed/x", "src/a", "added", "src/zz"})
		} else {
			m.Name = r.pick([]string{"absent/new.txt", "added", "src/added", rwRep("z", 130) + "/new", "absent/é", "etc/hosts", "etc/resolv.conf"})
			m.Act = r.pick(rwActsAbsent)
			m.To = r.pick([]string{"renamed/x", "src/a", rwRep("r", 140), "added", "ré"})
		}
		if used[m.Name] {
			continue
		}
		used[m.Name] = true
		if i == errAt {
			m.Act = r.pick(rwActsErr)
		}
		m.Size = []int{0, 1, 10, 511, 512, 513, 3000}[r.intn(7)]
		if !small && r.chance(1, 10) {
			m.Size = 70000
		}
		c.Mods = append(c.Mods, m)
	}
	if withErr {
		has := false
		for i := range c.Mods {
			for _, a := range rwActsErr {
				if c.Mods[i].Act == a {
					has = true
				}
			}
		}
		if !has && len(c.Mods) > 0 {
			c.Mods[0].Act = r.pick(rwActsErr)
		}
	}
	g.chunks(c)
	return c
}

// faultCuts lists the cut points for one archive: every 512-block boundary ±1 and every data end ±1 when the
// archive is small, else the structural points ±1 of every entry plus samples inside bodies.
func (g *rwGen) faultCuts(lay *rwLayout, exhaustive bool) []int {
	set := map[int]bool{}
	add := func(k int) {
		if k >= 0 && k <= lay.total {
			set[k] = true
		}
	}
	if exhaustive {
		for b := 0; b <= lay.total; b += 512 {
			add(b - 1)
			add(b)
			add(b + 1)
		}
	}
	for i := range lay.start {
		for _, p := range []int{lay.start[i], lay.dataStart[i], lay.dataEnd[i], lay.padEnd[i]} {
			add(p - 1)
			add(p)
			add(p + 1)
		}
		if sz := lay.dataEnd[i] - lay.dataStart[i]; sz > 2 {
			for s := 0; s < 3; s++ {
				add(lay.dataStart[i] + 1 + g.rng.intn(sz-1))
			}
			if sz > 40000 {
				add(lay.dataStart[i] + 32768)
				add(lay.dataStart[i] + 32768 - 1)
				add(lay.dataStart[i] + 32768 + 1)
				add(lay.dataStart[i] + 65536)
			}
		}
		if hs := lay.dataStart[i] - lay.start[i]; hs > 512 {
			add(lay.start[i] + 1 + g.rng.intn(hs-1))
		}
	}
	add(lay.total - 512)
	add(lay.total - 1)
	add(lay.total)
	var out []int
	for k := range set {
		out = append(out, k)
	}
	sort.Ints(out)
	return out
}

// ---------------------------------------------------------------------------------------------
// the stream

func runRewrite(cfg *Config) *Result {
	res := newResult("archives built with archive/tar from the PRNG (reg bodies {0,1,511,512,513,70000}, dir, symlink, hard link, char/block, fifo, global header; PAX records, xattrs, long names/link names, atime/ctime, USTAR/PAX/GNU) × {RebaseArchiveEntries with old/new base pairs incl. '/', '', '.', >100-byte new base; ReplaceFileTarWrapper with modifier maps over existing, duplicate and absent names} × {no fault; input failing / ending at every 512-boundary ±1 and inside bodies; failing modifier; consumer closing early}; non-trivial = a name was rebased / a modifier ran / a fault lay before the last entry's data end / the consumer closed mid-stream; distinct by full case text")
	record := func(c *rwCase, o *rwOutcome) {
		res.Evaluations++
		if o.Setup != "" {
			res.SetupError = o.Setup + " — case " + rwTailStr(c.text(), 400)
			return
		}
		if o.Compared {
			res.Compared++
		}
		for _, k := range o.Counts {
			res.count(k)
		}
		if o.Nontrivial {
			res.nontrivial(c.text())
		}
		for _, p := range o.Problems {
			res.problem(Problem{Kind: "oracle", Stream: "rewrite", Case: c.text(), Msg: "C15 " + c.Op + ": " + p})
		}
	}

	if cfg.Replay != "" {
		s, err := replayCaseString(cfg.Replay)
		if err != nil {
			res.SetupError = err.Error()
			return res
		}
		var c rwCase
		if err := json.Unmarshal([]byte(s), &c); err != nil {
			res.SetupError = "replay case: " + err.Error()
			return res
		}
		if c.Sub {
			record(&c, rwRunBatch([]*rwCase{&c})[0])
		} else {
			record(&c, rwRunDeadline(&c))
		}
		return res
	}

	// newRng(seed) for consecutive seeds yields the same splitmix64 sequence shifted by one draw; fork() (state := a mixed
	// output) puts the seeds far apart on the cycle so that every seed really gives a different run.
	g := &rwGen{rng: newRng(cfg.Seed).fork()}
	nPlain := cfg.count(300, 3000)
	nFaultSmall := cfg.count(20, 300)
	nFaultBig := cfg.count(6, 80)
	nModErr := cfg.count(200, 2000)
	nClose := cfg.count(200, 2000)
	if cfg.N > 0 {
		nFaultSmall = cfg.N/15 + 1
		nFaultBig = cfg.N/50 + 1
	}

	var subCases, seqCases []*rwCase
	place := func(c *rwCase) {
		if rwNeedsSub(c) {
			c.Sub = true
			subCases = append(subCases, c)
		} else {
			seqCases = append(seqCases, c)
		}
	}
	// 1. plain runs
	for i := 0; i < nPlain; i++ {
		place(g.rebaseCase(g.rng.chance(1, 3)))
		place(g.replaceCase(g.rng.chance(1, 3), false))
	}
	// 2. failing modifiers
	for i := 0; i < nModErr; i++ {
		place(g.replaceCase(g.rng.chance(1, 2), true))
	}
	// 3. input faults
	faultFamily := func(c *rwCase, exhaustive bool) {
		_, lay, err := rwBuild(c.Entries)
		if err != nil {
			res.SetupError = "generator produced an unbuildable archive: " + err.Error()
			return
		}
		for _, k := range g.faultCuts(lay, exhaustive) {
			for _, kind := range []string{"err", "trunc"} {
				cc := *c
				cc.Fault = rwFault{Kind: kind, At: k, WithData: kind == "err" && g.rng.chance(1, 3)}
				g.chunks(&cc)
				place(&cc)
			}
		}
	}
	for i := 0; i < nFaultSmall; i++ {
		faultFamily(g.rebaseCase(true), true)
		faultFamily(g.replaceCase(true, false), true)
	}
	for i := 0; i < nFaultBig; i++ {
		faultFamily(g.rebaseCase(false), false)
		faultFamily(g.replaceCase(false, false), false)
	}
	// 4. consumer closes early
	for i := 0; i < nClose; i++ {
		var c *rwCase
		if g.rng.chance(1, 2) {
			c = g.rebaseCase(g.rng.chance(1, 2))
		} else {
			c = g.replaceCase(g.rng.chance(1, 2), g.rng.chance(1, 6))
		}
		at := []int{0, 1, 511, 512, 513, 1024, 1536, 100000}[g.rng.intn(8)]
		if g.rng.chance(1, 2) {
			if _, lay, err := rwBuild(c.Entries); err == nil {
				at = g.rng.intn(lay.total + 1)
			}
		}
		c.Fault = rwFault{Kind: "close", At: at}
		place(c)
	}
	if res.SetupError != "" {
		return res
	}

	// phase A: cases with unusual link names in worker subprocesses (16 at a time, sequential inside each worker)
	nb := (len(subCases) + 63) / 64
	if nb < 16 {
		nb = 16
	}
	if nb > len(subCases) {
		nb = len(subCases)
	}
	outs := make([]*rwOutcome, len(subCases))
	var wg sync.WaitGroup
	sem := make(chan struct{}, 16)
	for b := 0; b < nb; b++ {
		lo, hi := b*len(subCases)/nb, (b+1)*len(subCases)/nb
		wg.Add(1)
		sem <- struct{}{}
		go func(lo, hi int) {
			defer wg.Done()
			defer func() { <-sem }()
			copy(outs[lo:hi], rwRunBatch(subCases[lo:hi]))
		}(lo, hi)
	}
	wg.Wait()
	for i := range subCases {
		record(subCases[i], outs[i])
		if i < 2 {
			res.sample(rwTailStr(subCases[i].text(), 500))
		}
	}
	// phase B: everything else sequentially in this process (so that goroutine accounting is per case)
	hangs := 0
	for i, c := range seqCases {
		o := rwRunDeadline(c)
		record(c, o)
		if i%997 == 0 {
			res.sample(rwTailStr(c.text(), 500))
		}
		if o.Hung {
			hangs++
			if hangs >= 3 {
				res.Notes = append(res.Notes, fmt.Sprintf("stopped after %d hung cases (%d of %d sequential cases run)", hangs, i+1, len(seqCases)))
				break
			}
		}
	}
	res.Notes = append(res.Notes, "ReplaceFileTarWrapper's output carries no end-of-archive blocks by construction (pipe closed before the deferred tar.Writer.Close); parsed entries are complete — not a C15 violation")
	return res
}
