package main

import (
	"archive/tar"
	"bytes"
	"errors"
	"fmt"
	"io"
	"os"
	"path/filepath"
	"runtime"
	"sort"
	"strings"

	"github.com/moby/sys/user"
	"golang.org/x/sys/unix"

	archive "github.com/moby/go-archive"
	"github.com/moby/go-archive/chrootarchive"
	"github.com/moby/go-archive/compression"
)

// The operations of the C18 mix.  Every constructor returns a raceOp whose run closure uses only
// the op's own directory and private readers; options structs, maps and slices handed to the
// library are built afresh on every call (the library mutates some of them).

type raceChunkReader struct {
	r io.Reader
	n int
}

func (c *raceChunkReader) Read(p []byte) (int, error) {
	if len(p) > c.n {
		p = p[:c.n]
	}
	return c.r.Read(p)
}

var raceChunks = []int{61, 512, 4096, 32 * 1024, 1 << 20}

func (g *raceGen) chunk() int { return raceChunks[g.r.intn(len(raceChunks))] }

func raceSrc(b []byte, chunk int) io.Reader { return &raceChunkReader{bytes.NewReader(b), chunk} }

// raceReadAll reads rc to the end with reads of the given size.
func raceReadAll(rc io.Reader, chunk int) ([]byte, error) {
	var out bytes.Buffer
	buf := make([]byte, chunk)
	for {
		n, err := rc.Read(buf)
		out.Write(buf[:n])
		if err == io.EOF {
			return out.Bytes(), nil
		}
		if err != nil {
			return out.Bytes(), err
		}
	}
}

// raceRenderTar lists the entries of a tar stream; times set "now" are masked.
func raceRenderTar(b []byte) []string {
	var out []string
	tr := tar.NewReader(bytes.NewReader(b))
	for {
		h, err := tr.Next()
		if err == io.EOF {
			return out
		}
		if err != nil {
			return append(out, "parse-error")
		}
		body, _ := io.ReadAll(tr)
		mt := fmt.Sprint(h.ModTime.Unix())
		if h.ModTime.Unix() >= raceSince {
			mt = "*"
		}
		var keys []string
		for k, v := range h.PAXRecords {
			if k == "mtime" || k == "atime" || k == "ctime" {
				continue
			}
			keys = append(keys, k+"="+fmt.Sprintf("%x", v))
		}
		sort.Strings(keys)
		out = append(out, fmt.Sprintf("%q %c %o %d:%d size=%d ->%q mt=%s dev=%d,%d pax=%v body=%s", h.Name, h.Typeflag, h.Mode, h.Uid, h.Gid,
			h.Size, h.Linkname, mt, h.Devmajor, h.Devminor, keys, raceHash(body)))
	}
}

type raceOptGen struct {
	spec     OptSpec
	includes []string
	comp     compression.Compression
	rebase   map[string]string
	srcDir   bool
}

func (og *raceOptGen) mk() *archive.TarOptions {
	t := tarOptions(og.spec)
	t.Compression = og.comp
	if og.includes != nil {
		t.IncludeFiles = append([]string{}, og.includes...)
	}
	if og.rebase != nil {
		t.RebaseNames = map[string]string{}
		for k, v := range og.rebase {
			t.RebaseNames[k] = v
		}
	}
	t.IncludeSourceDir = og.srcDir
	return t
}

func (og *raceOptGen) String() string {
	return fmt.Sprintf("%s inc=%v comp=%d reb=%v sd=%v", og.spec.String(), og.includes, og.comp, og.rebase, og.srcDir)
}

// exclude pattern sets come from a small pool so that concurrent operations use equal patterns
var raceExcludeSets = [][]string{{"*.log"}, {"a/**"}, {"b", "!b/keep"}, {"**/c*"}, {"*/d", "e"}, {"[a-c]", "!a"}}

func (g *raceGen) idMapSpec(o *OptSpec) {
	o.UidMap = []IDRange{{0, 100000, 65536}}
	o.GidMap = []IDRange{{0, 100000, 65536}}
	if g.r.chance(1, 3) {
		o.UidMap = []IDRange{{0, 1000, 1}, {1, 100000, 65535}}
		o.GidMap = []IDRange{{0, 1001, 1}, {1, 200000, 1000}}
	}
}

func (g *raceGen) packOpts(top []string) *raceOptGen {
	r := g.r
	og := &raceOptGen{}
	if r.chance(1, 2) {
		// the second pattern is unique to the case (it matches nothing): whatever the library derives
		// from a pattern list is derived for the first time inside this case
		og.spec.Excludes = append(append([]string{}, raceExcludeSets[r.intn(len(raceExcludeSets))]...), "zz"+g.tag+"*")
	}
	if r.chance(1, 4) && len(top) > 0 {
		og.includes = []string{top[r.intn(len(top))]}
		if r.chance(1, 2) {
			og.includes = append(og.includes, top[r.intn(len(top))])
		}
		if r.chance(1, 2) {
			og.rebase = map[string]string{og.includes[0]: "renamed"}
		}
	}
	if r.chance(1, 6) {
		og.spec.Chown = &[2]int{g.id(), g.id()}
	}
	if r.chance(1, 6) {
		g.idMapSpec(&og.spec)
	}
	if r.chance(1, 10) {
		og.spec.Overlay = true
	}
	if r.chance(1, 8) {
		og.srcDir = true
	}
	return og
}

func (g *raceGen) unpackOpts() *raceOptGen {
	r := g.r
	og := &raceOptGen{}
	if r.chance(1, 2) {
		return og
	}
	if r.chance(1, 4) {
		og.spec.NoLchown = true
	}
	if r.chance(1, 5) {
		og.spec.Chown = &[2]int{g.id(), g.id()}
	}
	if r.chance(1, 4) {
		og.spec.NoOverwrite = true
	}
	if r.chance(1, 5) {
		og.spec.Excludes = []string{r.pick([]string{"a", "a/b", "b/", "c"})}
	}
	if r.chance(1, 10) {
		g.idMapSpec(&og.spec)
	}
	return og
}

func topNames(nodes []Node, base string) []string {
	var out []string
	for _, n := range raceRel(nodes, base) {
		if !strings.Contains(n, "/") {
			out = append(out, n)
		}
	}
	return out
}

// ---- the operations ----

func (g *raceGen) opTar(op *raceOp, chroot bool) {
	r := g.r
	var mt int64 = 3000000
	grp := 0
	src := op.dir + "/src"
	op.nodes = g.tree(src, 4+r.intn(10), &mt, &grp, 1+r.intn(2))
	og := g.packOpts(topNames(op.nodes, src))
	if r.chance(2, 5) {
		og.comp = compression.Gzip
	}
	partial := 0
	if r.chance(1, 7) {
		partial = 1 + r.intn(60000)
	}
	chunk := g.chunk()
	root := src
	if chroot && r.chance(1, 2) {
		root = op.dir
	}
	if chroot && root == src {
		// entering the jail touches the jail root's modification time ("now"), which
		// IncludeSourceDir would put into the archive
		og.srcDir = false
	}
	op.desc = fmt.Sprintf("%s partial=%d chunk=%d root=%s nodes=%d", og, partial, chunk, strings.TrimPrefix(root, op.dir), len(op.nodes))
	g.cnt[fmt.Sprintf("tar-compression:%d", og.comp)]++
	op.run = func(o *raceOut) {
		var rc io.ReadCloser
		var err error
		if chroot {
			rc, err = chrootarchive.Tar(src, og.mk(), root)
		} else {
			rc, err = archive.TarWithOptions(src, og.mk())
		}
		o.errv("err", err)
		if err != nil {
			return
		}
		if partial > 0 {
			buf := make([]byte, partial)
			n, _ := io.ReadFull(rc, buf)
			rc.Close()
			o.bytes("prefix", buf[:n])
			return
		}
		b, rerr := raceReadAll(rc, chunk)
		rc.Close()
		o.errv("read", rerr)
		o.bytes("out", b)
		o.tree("tree", op.dir)
	}
}

func (g *raceGen) opUntar(op *raceOp, variant string) error {
	r := g.r
	var mt int64 = 3000000
	grp := 0
	dst := op.dir + "/dst"
	root := dst
	switch variant {
	case "chroot-untar-root":
		root = op.dir + "/root"
		dst = root + r.pick([]string{"/sub", "", "/sub/deep"})
		op.nodes = []Node{{Path: root, Kind: 'd', Perm: 0o755, Mtime: 1600}}
		if dst != root && r.chance(3, 4) {
			op.nodes = append(op.nodes, g.tree(root+"/sub", r.intn(5), &mt, &grp, 0)...)
		}
	default:
		if r.chance(3, 4) {
			op.nodes = g.tree(dst, r.intn(8), &mt, &grp, 0)
		}
	}
	existing := raceRel(op.nodes, dst)
	stream, a, bad, err := g.stream("plain", 2+r.intn(9), existing, 1+r.intn(3), true)
	if err != nil {
		return err
	}
	format := "none"
	if !strings.HasSuffix(variant, "-unc") {
		stream, format = g.compress(stream, g.format())
		if bad == "" && format != "none" && r.chance(1, 12) && len(stream) > 40 {
			stream = stream[:20+r.intn(len(stream)-30)]
			bad = "cut-compressed"
			g.cnt["damaged:cut-compressed"]++
		}
	}
	g.cnt["untar-format:"+format]++
	og := g.unpackOpts()
	chunk := g.chunk()
	op.desc = fmt.Sprintf("%s fmt=%s bad=%s entries=%d big=%d chunk=%d dst=%s prior=%d", og, format, bad, len(a.hdrs), a.big, chunk, strings.TrimPrefix(dst, op.dir), len(op.nodes))
	op.run = func(o *raceOut) {
		rd := raceSrc(stream, chunk)
		var err error
		switch variant {
		case "untar":
			err = archive.Untar(rd, dst, og.mk())
		case "untar-unc":
			err = archive.UntarUncompressed(rd, dst, og.mk())
		case "chroot-untar":
			err = chrootarchive.Untar(rd, dst, og.mk())
		case "chroot-untar-unc":
			err = chrootarchive.UntarUncompressed(rd, dst, og.mk())
		case "chroot-untar-root":
			err = chrootarchive.UntarWithRoot(rd, dst, og.mk(), root)
		}
		o.errv("err", err)
		o.tree("tree", op.dir)
	}
	return nil
}

func (g *raceGen) opLayer(op *raceOp, uncompressed bool) error {
	r := g.r
	var mt int64 = 3000000
	grp := 0
	dst := op.dir + "/dst"
	op.nodes = g.tree(dst, 2+r.intn(9), &mt, &grp, 0)
	stream, a, bad, err := g.stream("layer", 2+r.intn(9), raceRel(op.nodes, dst), 1+r.intn(2), true)
	if err != nil {
		return err
	}
	format := "none"
	if !uncompressed {
		stream, format = g.compress(stream, g.format())
	}
	g.cnt["layer-format:"+format]++
	og := &raceOptGen{}
	if uncompressed {
		og = g.unpackOpts()
		og.spec.NoOverwrite = false
	}
	chunk := g.chunk()
	op.desc = fmt.Sprintf("%s fmt=%s bad=%s entries=%d big=%d chunk=%d prior=%d", og, format, bad, len(a.hdrs), a.big, chunk, len(op.nodes))
	op.run = func(o *raceOut) {
		rd := raceSrc(stream, chunk)
		var size int64
		var err error
		if uncompressed {
			size, err = chrootarchive.ApplyUncompressedLayer(dst, rd, og.mk())
		} else {
			size, err = chrootarchive.ApplyLayer(dst, rd)
		}
		o.errv("err", err)
		o.set("size", fmt.Sprint(size))
		o.tree("tree", op.dir)
	}
	return nil
}

func (g *raceGen) opChanges(op *raceOp) {
	r := g.r
	var mt int64 = 3000000
	grp := 0
	oldDir, newDir := op.dir+"/old", op.dir+"/new"
	oldNodes := g.tree(oldDir, 5+r.intn(10), &mt, &grp, 1)
	var newNodes []Node
	removed := map[string]bool{}
	caseFour := map[int]bool{}
	for _, n := range oldNodes {
		rel := strings.TrimPrefix(n.Path, oldDir)
		skip := false
		for p := range removed {
			if strings.HasPrefix(rel, p+"/") {
				skip = true
			}
		}
		if skip {
			continue
		}
		m := n
		m.Path = newDir + rel
		if rel != "" {
			switch k := r.intn(12); {
			case k == 0:
				removed[rel] = true
				continue
			case k == 1 && m.Kind == 'r':
				m.Data = string(g.body(g.size(false)))
				m.Mtime += 100
			case k == 2:
				m.Perm ^= 0o011
			case k == 3:
				m.Uid = g.id()
			case k == 4 && m.Kind == 'r' && m.Group == 0:
				// the same inode in both trees: the walker prunes it
				grp++
				m.Group = grp
				caseFour[grp] = true
				for i := range oldNodes {
					if oldNodes[i].Path == n.Path {
						oldNodes[i].Group = grp
					}
				}
			case k == 5 && m.Kind == 'r':
				m.Mtime += 7 // same size, later time
			}
		}
		newNodes = append(newNodes, m)
	}
	// hard-link groups copied from the old tree: some stay shared with it (cp -al style), the others
	// become groups of their own in the new tree
	remap := map[int]int{}
	for i := range newNodes {
		gid := newNodes[i].Group
		if gid == 0 || caseFour[gid] {
			continue
		}
		if _, ok := remap[gid]; !ok {
			if r.chance(1, 3) {
				remap[gid] = gid
			} else {
				grp++
				remap[gid] = grp
			}
		}
		newNodes[i].Group = remap[gid]
	}
	// additions
	extra := g.tree(newDir, 2+r.intn(5), &mt, &grp, 1)
	have := map[string]bool{}
	kind := map[string]byte{}
	for _, n := range newNodes {
		have[n.Path] = true
		kind[n.Path] = n.Kind
	}
	for _, n := range extra {
		if have[n.Path] {
			continue
		}
		if k, ok := kind[filepath.Dir(n.Path)]; !ok || k != 'd' {
			continue
		}
		have[n.Path] = true
		kind[n.Path] = n.Kind
		newNodes = append(newNodes, n)
	}
	op.nodes = append(oldNodes, newNodes...)
	noOld := r.chance(1, 2) // the "diff against nothing" form shares no directory between calls
	var idm user.IdentityMapping
	withMap := r.chance(1, 5)
	if withMap {
		idm.UIDMaps = []user.IDMap{{ID: 0, ParentID: 0, Count: 70000}}
		idm.GIDMaps = []user.IDMap{{ID: 0, ParentID: 0, Count: 70000}}
	}
	chunk := g.chunk()
	op.desc = fmt.Sprintf("old=%d new=%d removed=%d noOld=%v idmap=%v chunk=%d", len(oldNodes), len(newNodes), len(removed), noOld, withMap, chunk)
	op.run = func(o *raceOut) {
		od := oldDir
		if noOld {
			od = ""
		}
		ch, err := archive.ChangesDirs(newDir, od)
		o.errv("err", err)
		if noOld {
			// the same question asked again and again while other operations run: every answer is the first one
			rep := "same"
			for k := 1; k <= 12; k++ {
				ch2, err2 := archive.ChangesDirs(newDir, "")
				if (err == nil) != (err2 == nil) || len(ch2) != len(ch) {
					rep = fmt.Sprintf("call %d differs from the first: %d changes, error %v", k+1, len(ch2), err2)
					break
				}
			}
			o.set("repeat", rep)
		}
		var lines []string
		for _, c := range ch {
			lines = append(lines, c.String())
		}
		sort.Strings(lines)
		o.list("changes", lines)
		o.set("size", fmt.Sprint(archive.ChangesSize(newDir, ch)))
		cp := append([]archive.Change(nil), ch...)
		rc, err := archive.ExportChanges(newDir, cp, idm)
		o.errv("export-err", err)
		if err == nil {
			b, rerr := raceReadAll(rc, chunk)
			rc.Close()
			o.errv("export-read", rerr)
			o.list("export", raceRenderTar(b))
		}
		o.tree("tree", op.dir)
	}
}

func (g *raceGen) opRebase(op *raceOp) error {
	r := g.r
	stream, a, bad, err := g.stream("plain", 2+r.intn(10), nil, 1+r.intn(3), true)
	if err != nil {
		return err
	}
	oldBase := r.pick(raceNames)
	if r.chance(1, 8) {
		oldBase = "/"
	}
	newBase := r.pick([]string{"x", "renamed/deeper", strings.Repeat("long", 30)})
	chunk, rchunk := g.chunk(), g.chunk()
	op.desc = fmt.Sprintf("old=%s new=%d bad=%s entries=%d big=%d chunk=%d/%d", oldBase, len(newBase), bad, len(a.hdrs), a.big, chunk, rchunk)
	op.run = func(o *raceOut) {
		rc := archive.RebaseArchiveEntries(raceSrc(stream, chunk), oldBase, newBase)
		b, rerr := raceReadAll(rc, rchunk)
		rc.Close()
		o.errv("read", rerr)
		o.bytes("out", b)
	}
	return nil
}

func (g *raceGen) opReplace(op *raceOp) error {
	r := g.r
	stream, a, bad, err := g.stream("plain", 3+r.intn(10), nil, 2+r.intn(4), r.chance(1, 3))
	if err != nil {
		return err
	}
	g.cnt["copypool-bodies>32K"] += a.big
	type mod struct {
		name string
		how  int
		data []byte
	}
	var mods []mod
	seen := map[string]bool{}
	// Modifiers that match no entry are applied in map order, which is unspecified: at most one
	// modifier may stay unmatched.  On an intact stream every chosen name is present; on a damaged
	// one (entries may be cut off) a single modifier is used.
	want := 1 + r.intn(3)
	if bad != "" {
		want = 1
	}
	for i := 0; i < want; i++ {
		h := a.hdrs[r.intn(len(a.hdrs))]
		if seen[h.Name] || h.Name == "" || h.Typeflag == tar.TypeXGlobalHeader {
			continue
		}
		seen[h.Name] = true
		mods = append(mods, mod{h.Name, r.intn(5), g.body(g.size(false))})
	}
	if (bad == "" && r.chance(1, 2)) || len(mods) == 0 {
		mods = append(mods, mod{"added-by-wrapper", 0, g.body(g.size(false))})
	}
	chunk, rchunk := g.chunk(), g.chunk()
	partial := 0
	if r.chance(1, 8) {
		partial = 1 + r.intn(50000)
	}
	op.desc = fmt.Sprintf("mods=%d bad=%s entries=%d big=%d chunk=%d/%d partial=%d", len(mods), bad, len(a.hdrs), a.big, chunk, rchunk, partial)
	op.run = func(o *raceOut) {
		m := map[string]archive.TarModifierFunc{}
		for _, md := range mods {
			md := md
			m[md.name] = func(path string, h *tar.Header, content io.Reader) (*tar.Header, []byte, error) {
				switch md.how {
				case 1:
					return nil, nil, nil // drop the entry
				case 2:
					if content != nil && h != nil && h.Typeflag == tar.TypeReg {
						old, err := io.ReadAll(content)
						if err != nil {
							return nil, nil, err
						}
						return &tar.Header{Name: path, Mode: 0o600, Typeflag: tar.TypeReg}, append(old, md.data...), nil
					}
				case 3:
					if h != nil {
						hh := *h
						hh.Typeflag = tar.TypeReg
						hh.Linkname = ""
						return &hh, md.data, nil
					}
				case 4:
					if md.data != nil && len(md.data)%5 == 0 {
						return nil, nil, errors.New("modifier refuses")
					}
				}
				return &tar.Header{Name: path, Mode: 0o644, Typeflag: tar.TypeReg, Uid: 5}, md.data, nil
			}
		}
		rc := archive.ReplaceFileTarWrapper(io.NopCloser(raceSrc(stream, chunk)), m)
		if partial > 0 {
			buf := make([]byte, partial)
			n, _ := io.ReadFull(rc, buf)
			rc.Close()
			o.bytes("prefix", buf[:n])
			return
		}
		b, rerr := raceReadAll(rc, rchunk)
		rc.Close()
		o.errv("read", rerr)
		o.bytes("out", b)
	}
	return nil
}

// decompressOne runs DecompressStream over one input; mode: full | partial.
func raceDecompressOne(o *raceOut, tag string, in []byte, chunk, rchunk, partial int) {
	rc, err := compression.DecompressStream(raceSrc(in, chunk))
	o.errv(tag+"err", err)
	if err != nil {
		return
	}
	if partial > 0 {
		buf := make([]byte, partial)
		n, _ := io.ReadFull(rc, buf)
		rc.Close()
		o.bytes(tag+"prefix", buf[:n])
		return
	}
	b, rerr := raceReadAll(rc, rchunk)
	o.errv(tag+"read", rerr)
	o.bytes(tag+"out", b)
	if rerr == nil {
		// a reader that reported EOF keeps reporting EOF and yields nothing more
		extra := 0
		buf := make([]byte, 64)
		for i := 0; i < 3; i++ {
			runtime.Gosched()
			n, e := rc.Read(buf)
			extra += n
			if e == nil {
				extra += 1000000
			}
		}
		o.set(tag+"after-eof", fmt.Sprint(extra))
	}
	rc.Close()
}

func (g *raceGen) opDecompress(op *raceOp) {
	r := g.r
	data := g.body(g.size(r.chance(1, 2)))
	in, format := g.compress(data, g.format())
	bad := ""
	if r.chance(1, 8) && len(in) > 12 {
		in = in[:3+r.intn(len(in)-3)]
		bad = "cut"
		g.cnt["damaged:cut-stream"]++
	}
	g.cnt["decompress-format:"+format]++
	chunk, rchunk := g.chunk(), g.chunk()
	partial := 0
	if r.chance(1, 5) {
		partial = 1 + r.intn(len(data)+1)
	}
	op.desc = fmt.Sprintf("fmt=%s raw=%d in=%d bad=%s chunk=%d/%d partial=%d", format, len(data), len(in), bad, chunk, rchunk, partial)
	op.run = func(o *raceOut) { raceDecompressOne(o, "", in, chunk, rchunk, partial) }
}

// opBurst: many short streams that reach EOF at once (the pooled bufio.Reader goes back and forth).
func (g *raceGen) opBurst(op *raceOp) {
	r := g.r
	n := 20 + r.intn(40)
	var ins [][]byte
	var chunks []int
	for i := 0; i < n; i++ {
		var in []byte
		switch r.intn(6) {
		case 0:
			in = nil
		case 1:
			in = g.body(r.intn(12)) // shorter than the 10-byte peek
		case 2:
			in = []byte{0x1f, 0x8b, 0x08}[:1+r.intn(3)] // a bare gzip magic or part of it
		case 3:
			in, _ = g.compress(g.body(r.intn(300)), r.pick([]string{"gzip", "zstd", "zstd-skip"}))
		default:
			in = g.body(r.intn(2000))
			if len(in) > 0 && (in[0] == 0x1f || in[0] == 0x42 || in[0] == 0xfd || in[0] == 0x28 || in[0]&0xf0 == 0x50) {
				in[0] = 'x'
			}
		}
		ins = append(ins, in)
		chunks = append(chunks, g.chunk())
	}
	g.cnt["short-streams"] += n
	op.desc = fmt.Sprintf("streams=%d", n)
	op.run = func(o *raceOut) {
		for i, in := range ins {
			sub := &raceOut{}
			raceDecompressOne(sub, "", in, chunks[i], 512, 0)
			o.set(fmt.Sprintf("s%d", i), sub.summary())
		}
	}
}

func (g *raceGen) opCompress(op *raceOp) {
	r := g.r
	data := g.body(g.size(r.chance(1, 2)))
	comp := []compression.Compression{compression.None, compression.Gzip, compression.Gzip, compression.Bzip2, compression.Xz, compression.Zstd, 99}[r.intn(7)]
	chunk := g.chunk()
	op.desc = fmt.Sprintf("comp=%d raw=%d chunk=%d", comp, len(data), chunk)
	op.run = func(o *raceOut) {
		var buf bytes.Buffer
		wc, err := compression.CompressStream(&buf, comp)
		o.errv("err", err)
		if err != nil {
			return
		}
		for off := 0; off < len(data); off += chunk {
			end := off + chunk
			if end > len(data) {
				end = len(data)
			}
			if _, err := wc.Write(data[off:end]); err != nil {
				o.errv("write", err)
				break
			}
		}
		o.errv("close", wc.Close())
		o.bytes("out", buf.Bytes())
	}
}

func (g *raceGen) opCopy(op *raceOp, file bool) {
	r := g.r
	var mt int64 = 3000000
	grp := 0
	src := op.dir + "/src"
	dst := op.dir + "/dst"
	op.nodes = g.tree(src, 4+r.intn(8), &mt, &grp, 1+r.intn(2))
	srcPath := src
	dstPath := dst
	if file {
		op.nodes = append(op.nodes, Node{Path: src + "/the-file", Kind: 'r', Perm: raceFilePerms[r.intn(len(raceFilePerms))], Uid: g.id(), Gid: g.id(),
			Mtime: 1234567, Data: string(g.body(g.size(r.chance(2, 3))))})
		srcPath = src + "/the-file"
		dstPath = dst + r.pick([]string{"/copy", "/sub/dir/copy", "/"})
	}
	if r.chance(1, 3) {
		op.nodes = append(op.nodes, g.tree(dst, r.intn(5), &mt, &grp, 0)...)
	}
	which := r.intn(2)
	if r.chance(1, 6) {
		which = 2
	}
	viaDir := file && r.chance(1, 3) // CopyWithTar delegates for a file source
	op.desc = fmt.Sprintf("file=%v archiver=%d viaCopyWithTar=%v dst=%s nodes=%d", file, which, viaDir, strings.TrimPrefix(dstPath, op.dir), len(op.nodes))
	op.run = func(o *raceOut) {
		var ar *archive.Archiver
		switch which {
		case 0:
			ar = archive.NewDefaultArchiver()
		case 1:
			ar = chrootarchive.NewArchiver(user.IdentityMapping{})
		default:
			ar = chrootarchive.NewArchiver(user.IdentityMapping{
				UIDMaps: []user.IDMap{{ID: 0, ParentID: 100000, Count: 65536}},
				GIDMaps: []user.IDMap{{ID: 0, ParentID: 100000, Count: 65536}}})
		}
		var err error
		if file && !viaDir {
			err = ar.CopyFileWithTar(srcPath, dstPath)
		} else {
			err = ar.CopyWithTar(srcPath, dstPath)
		}
		o.errv("err", err)
		o.tree("tree", op.dir)
	}
}

func (g *raceGen) opIsArchive(op *raceOp) error {
	r := g.r
	op.nodes = []Node{{Path: op.dir + "/f", Kind: 'd', Perm: 0o755, Mtime: 1500}}
	var paths []string
	n := 4 + r.intn(6)
	for i := 0; i < n; i++ {
		var content []byte
		switch r.intn(5) {
		case 0:
			content = g.body(r.intn(3000))
		case 1:
			content = nil
		default:
			stream, _, _, err := g.stream("plain", 1+r.intn(4), nil, r.intn(2), true)
			if err != nil {
				return err
			}
			var f string
			content, f = g.compress(stream, g.format())
			g.cnt["isarchive-format:"+f]++
		}
		p := fmt.Sprintf("%s/f/%d", op.dir, i)
		op.nodes = append(op.nodes, Node{Path: p, Kind: 'r', Perm: 0o644, Mtime: 1600, Data: string(content)})
		paths = append(paths, p)
	}
	paths = append(paths, op.dir+"/f/missing", op.dir+"/f")
	op.desc = fmt.Sprintf("files=%d", len(paths))
	op.run = func(o *raceOut) {
		var s strings.Builder
		for _, p := range paths {
			if archive.IsArchivePath(p) {
				s.WriteByte('1')
			} else {
				s.WriteByte('0')
			}
		}
		o.set("is", s.String())
	}
	return nil
}

func (g *raceGen) opIsEmpty(op *raceOp) error {
	r := g.r
	var ins [][]byte
	n := 4 + r.intn(8)
	for i := 0; i < n; i++ {
		var in []byte
		switch r.intn(5) {
		case 0:
			in = nil
		case 1:
			in = make([]byte, 1024)
		case 2:
			in = g.body(1 + r.intn(600))
		default:
			cnt := r.intn(3)
			var stream []byte
			if cnt == 0 {
				stream = make([]byte, 1024)
			} else {
				var err error
				stream, _, _, err = g.stream("plain", cnt, nil, r.intn(2), false)
				if err != nil {
					return err
				}
			}
			in, _ = g.compress(stream, g.format())
		}
		ins = append(ins, in)
	}
	chunk := g.chunk()
	op.desc = fmt.Sprintf("streams=%d chunk=%d", n, chunk)
	op.run = func(o *raceOut) {
		for i, in := range ins {
			e, err := archive.IsEmpty(raceSrc(in, chunk))
			v := fmt.Sprint(e)
			if err != nil {
				v += ",err"
			}
			o.set(fmt.Sprintf("s%d", i), v)
		}
	}
	return nil
}

// opWitness observes the process-wide state other operations must not touch: umask, working
// directory, root directory.  It takes a while (it decompresses small streams between probes) so
// that it overlaps the chrooted operations of the mix.
func (g *raceGen) opWitness(op *raceOp) {
	filler, _ := g.compress(g.body(20000), "gzip")
	op.desc = "umask,cwd,root"
	op.expect = "obs=file=755,dir=755,cwd=root,root=same"
	op.run = func(o *raceOut) {
		seen := map[string]bool{}
		for i := 0; i < 24; i++ {
			p := fmt.Sprintf("%s/probe%d", op.dir, i)
			var obs []string
			if f, err := os.OpenFile(p, os.O_CREATE|os.O_WRONLY|os.O_EXCL, 0o777); err == nil {
				f.Close()
				if fi, err := os.Lstat(p); err == nil {
					obs = append(obs, fmt.Sprintf("file=%o", fi.Mode().Perm()))
				} else {
					obs = append(obs, "file=gone")
				}
			} else {
				obs = append(obs, "file=uncreatable")
			}
			if err := os.Mkdir(p+"d", 0o777); err == nil {
				if fi, err := os.Lstat(p + "d"); err == nil {
					obs = append(obs, fmt.Sprintf("dir=%o", fi.Mode().Perm()))
				} else {
					obs = append(obs, "dir=gone")
				}
			} else {
				obs = append(obs, "dir=uncreatable")
			}
			var a, b unix.Stat_t
			e1, e2 := unix.Stat(".", &a), unix.Stat("/", &b)
			if e1 == nil && e2 == nil && a.Ino == b.Ino && a.Dev == b.Dev {
				obs = append(obs, "cwd=root")
			} else {
				obs = append(obs, "cwd=elsewhere")
			}
			if e2 == nil && b.Ino == raceRootIno {
				obs = append(obs, "root=same")
			} else {
				obs = append(obs, "root=changed")
			}
			seen[strings.Join(obs, ",")] = true
			if rc, err := compression.DecompressStream(bytes.NewReader(filler)); err == nil {
				io.Copy(io.Discard, rc)
				rc.Close()
			}
		}
		var all []string
		for s := range seen {
			all = append(all, s)
		}
		sort.Strings(all)
		o.set("obs", strings.Join(all, "|"))
	}
}

type raceKindW struct {
	kind string
	w    int
}

var raceKinds = []raceKindW{
	{"tar", 12}, {"chroot-tar", 4},
	{"untar", 8}, {"untar-unc", 4}, {"chroot-untar", 6}, {"chroot-untar-unc", 3}, {"chroot-untar-root", 4},
	{"chroot-layer", 6}, {"chroot-layer-unc", 5},
	{"changes", 7}, {"rebase", 6}, {"replace", 11}, {"decompress", 10}, {"burst", 6}, {"compress", 4},
	{"copy-dir", 6}, {"copy-file", 5}, {"is-archive", 5}, {"is-empty", 4}, {"witness", 2},
}

func (g *raceGen) genOps(k int) ([]*raceOp, error) {
	total := 0
	for _, kw := range raceKinds {
		total += kw.w
	}
	var kinds []string
	for i := 0; i < k; i++ {
		x := g.r.intn(total)
		for _, kw := range raceKinds {
			if x < kw.w {
				kinds = append(kinds, kw.kind)
				break
			}
			x -= kw.w
		}
	}
	// a larger mix always contains the witness, two body-copying rewrites and two pooled-reader users
	if k >= 8 {
		for i, must := range []string{"witness", "replace", "replace", "decompress", "burst", "chroot-layer", "chroot-untar"} {
			kinds[(i*5)%k] = must
		}
		if k >= 12 {
			// two directory diffs side by side
			kinds[1], kinds[k-2] = "changes", "changes"
		}
	}
	var ops []*raceOp
	for i, kind := range kinds {
		op := &raceOp{idx: i, kind: kind, dir: fmt.Sprintf("/w/o%d", i)}
		var err error
		switch kind {
		case "tar":
			g.opTar(op, false)
		case "chroot-tar":
			g.opTar(op, true)
		case "untar", "untar-unc", "chroot-untar", "chroot-untar-unc", "chroot-untar-root":
			err = g.opUntar(op, kind)
		case "chroot-layer":
			err = g.opLayer(op, false)
		case "chroot-layer-unc":
			err = g.opLayer(op, true)
		case "changes":
			g.opChanges(op)
		case "rebase":
			err = g.opRebase(op)
		case "replace":
			err = g.opReplace(op)
		case "decompress":
			g.opDecompress(op)
		case "burst":
			g.opBurst(op)
		case "compress":
			g.opCompress(op)
		case "copy-dir":
			g.opCopy(op, false)
		case "copy-file":
			g.opCopy(op, true)
		case "is-archive":
			err = g.opIsArchive(op)
		case "is-empty":
			err = g.opIsEmpty(op)
		case "witness":
			g.opWitness(op)
		}
		if err != nil {
			return nil, fmt.Errorf("op %d %s: %w", i, kind, err)
		}
		g.cnt["op:"+kind]++
		ops = append(ops, op)
	}
	return ops, nil
}
