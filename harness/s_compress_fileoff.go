package main

import (
	"bufio"
	"bytes"
	"fmt"
	"io"
	"os"

	"github.com/klauspost/compress/zstd"
	"github.com/moby/go-archive/compression"
)

// A compressed blob that does not start at the beginning of a file (a blob after a header, or after another blob):
// DecompressStream on an *os.File positioned at the blob must yield that blob's bytes — through the helper
// processes and the built-in decoders alike, whatever the library does with the descriptor.
func czFileOffsetProbe(res *Result, seed uint64) {
	r := &Rng{s: seed ^ 0x6f666673}
	dir, err := os.MkdirTemp("", "czoff")
	if err != nil {
		return
	}
	defer os.RemoveAll(dir)
	for _, f := range []string{"gzip-lib", "xz", "bzip2", "zstd"} {
		for _, pigz := range []bool{true, false} {
			if f != "gzip-lib" && !pigz {
				continue
			}
			first := czPayload("text", 3000+r.intn(3000), r.next(), false)
			second := czPayload("rand", 5000+r.intn(20000), r.next(), false)
			e1, e2 := czEncode(f, first, seed), czEncode(f, second, seed+1)
			if e1.skip != "" || e1.prob != "" || e2.skip != "" || e2.prob != "" {
				continue
			}
			hdr := bytes.Repeat([]byte{0}, []int{0, 1, 512, 4097}[r.intn(4)])
			blob := append(append(append([]byte{}, hdr...), e1.data...), e2.data...)
			p := fmt.Sprintf("%s/%s-%v", dir, f, pigz)
			if err := os.WriteFile(p, blob, 0o600); err != nil {
				continue
			}
			if pigz {
				os.Unsetenv("MOBY_DISABLE_PIGZ")
			} else {
				os.Setenv("MOBY_DISABLE_PIGZ", "1")
			}
			caseText := fmt.Sprintf("fileoff fmt=%s pigz=%v hdr=%d seed=%d", f, pigz, len(hdr), seed)
			res.Evaluations++
			res.Compared++
			res.count("fileoff")
			fh, err := os.Open(p)
			if err != nil {
				continue
			}
			off := int64(len(hdr) + len(e1.data))
			if _, err := fh.Seek(off, io.SeekStart); err != nil {
				fh.Close()
				continue
			}
			rc, err := compression.DecompressStream(fh)
			if err != nil {
				res.problem(Problem{Kind: "oracle", Stream: "compress", Case: caseText,
					Msg: fmt.Sprintf("C16: DecompressStream on a file positioned at offset %d (a %s blob after another blob) failed: %v", off, f, err)})
				fh.Close()
				continue
			}
			got, err := io.ReadAll(rc)
			rc.Close()
			fh.Close()
			if err != nil || !bytes.Equal(got, second) {
				res.problem(Problem{Kind: "oracle", Stream: "compress", Case: caseText,
					Msg: fmt.Sprintf("C16: DecompressStream on a file positioned at offset %d (a %s blob after another blob): got %d bytes (err %v), want the %d bytes of the blob at that offset; first difference at %d",
						off, f, len(got), err, len(second), czFirstDiff(got, second))})
			}
		}
	}
	os.Unsetenv("MOBY_DISABLE_PIGZ")
	czZstdWindowProbe(res, seed)
	czCallerBufioProbe(res, seed)
}

// A caller that hands in its own *bufio.Reader (any size), reads the stream to the end, then re-uses its reader for
// the next source while other streams are being decompressed: every stream yields its own bytes — nothing the
// library keeps between calls may be the caller's reader.
func czCallerBufioProbe(res *Result, seed uint64) {
	r := &Rng{s: seed ^ 0x62756669}
	os.Setenv("MOBY_DISABLE_PIGZ", "1")
	defer os.Unsetenv("MOBY_DISABLE_PIGZ")
	for _, size := range []int{4096, 32 * 1024, 64 * 1024} {
		for _, f := range []string{"none", "gzip-lib"} {
			const others = 5
			var pays, encs [][]byte
			ok := true
			for i := 0; i < 2+others; i++ {
				p := czPayload([]string{"text", "rand"}[i%2], 2000+r.intn(4000), r.next(), false)
				e := czEncode(f, p, seed+uint64(i))
				if e.skip != "" || e.prob != "" {
					ok = false
					break
				}
				pays, encs = append(pays, p), append(encs, e.data)
			}
			if !ok {
				continue
			}
			caseText := fmt.Sprintf("fileoff caller-bufio=%d fmt=%s seed=%d", size, f, seed)
			res.Evaluations++
			res.Compared++
			res.count("caller-bufio")
			verdict := func() (msg string) {
				defer func() {
					if x := recover(); x != nil {
						msg = fmt.Sprintf("panic: %v", x)
					}
				}()
				readAll := func(src io.Reader) ([]byte, error) {
					rc, err := compression.DecompressStream(src)
					if err != nil {
						return nil, err
					}
					defer rc.Close()
					return io.ReadAll(rc)
				}
				br := bufio.NewReaderSize(bytes.NewReader(encs[0]), size)
				got, err := readAll(br)
				if err != nil || !bytes.Equal(got, pays[0]) {
					return fmt.Sprintf("the first stream gave %d bytes (err %v), want %d", len(got), err, len(pays[0]))
				}
				// the caller re-uses its reader for the next source; in between, unrelated streams are opened
				br.Reset(bytes.NewReader(encs[1]))
				var open []io.ReadCloser
				for i := 0; i < others; i++ {
					rc, err := compression.DecompressStream(bytes.NewReader(encs[2+i]))
					if err != nil {
						return fmt.Sprintf("unrelated stream %d: %v", i, err)
					}
					open = append(open, rc)
				}
				got, err = readAll(br)
				if err != nil || !bytes.Equal(got, pays[1]) {
					return fmt.Sprintf("the stream read through the re-used reader gave %d bytes (err %v), want its own %d bytes; first difference at %d", len(got), err, len(pays[1]), czFirstDiff(got, pays[1]))
				}
				for i, rc := range open {
					got, err := io.ReadAll(rc)
					rc.Close()
					if err != nil || !bytes.Equal(got, pays[2+i]) {
						return fmt.Sprintf("unrelated stream %d gave %d bytes (err %v), want its own %d bytes; first difference at %d", i, len(got), err, len(pays[2+i]), czFirstDiff(got, pays[2+i]))
					}
				}
				return ""
			}()
			if verdict != "" {
				res.problem(Problem{Kind: "oracle", Stream: "compress", Case: caseText,
					Msg: fmt.Sprintf("C16: a caller-supplied bufio.Reader of %d bytes, read to the end of a %s stream and re-used by the caller while %d other streams are open: %s", size, f, others, verdict)})
			}
		}
	}
}

// Legal zstd streams whose frames declare a large window (zstd --long, --ultra, an encoder configured that way):
// they decompress to what was compressed like any other.
func czZstdWindowProbe(res *Result, seed uint64) {
	r := &Rng{s: seed ^ 0x77696e64}
	payload := czPayload("rand", 200000+r.intn(100000), r.next(), false)
	for _, win := range []int{1 << 20, 16 << 20, 32 << 20} {
		var buf bytes.Buffer
		w, err := zstd.NewWriter(&buf, zstd.WithWindowSize(win), zstd.WithEncoderConcurrency(1))
		if err != nil {
			continue
		}
		// streamed: the frame header carries the window, not the content size
		for off := 0; off < len(payload); off += 65536 {
			end := off + 65536
			if end > len(payload) {
				end = len(payload)
			}
			_, _ = w.Write(payload[off:end])
		}
		if w.Close() != nil {
			continue
		}
		caseText := fmt.Sprintf("fileoff zstd-window=%d seed=%d", win, seed)
		res.Evaluations++
		res.Compared++
		res.count("zstd-window")
		rc, err := compression.DecompressStream(bytes.NewReader(buf.Bytes()))
		if err != nil {
			res.problem(Problem{Kind: "oracle", Stream: "compress", Case: caseText, Msg: fmt.Sprintf("C16: DecompressStream of a zstd stream with a %d MiB window failed: %v", win>>20, err)})
			continue
		}
		got, err := io.ReadAll(rc)
		rc.Close()
		if err != nil || !bytes.Equal(got, payload) {
			res.problem(Problem{Kind: "oracle", Stream: "compress", Case: caseText,
				Msg: fmt.Sprintf("C16: a zstd stream whose frame declares a %d MiB window: got %d of %d bytes, then %v", win>>20, len(got), len(payload), err)})
		}
	}
}
