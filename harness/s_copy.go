package main

import (
	"archive/tar"
	"encoding/json"
	"fmt"
	"sort"
	"strings"
	"time"
)

// Stream "copy" (property C14): archive.CopyResource follows the documented cp-style table.
//
// The table is the comment block of /repo/copy_unix_test.go ("basic assumptions" 1-4 and cases A-J);
// cpTableAction below is a transcription of THAT text, nothing in this file is derived from copy.go.
// Every cell of (source kind x followLink x source suffix x destination state x destination suffix)
// is enumerated in both tiers (thorough: several rounds with fresh names), crossed with random base
// names, and run on the real code inside the arena.  The oracle is a small model of the world
// (cpFS: lstat / symlink walk on the scanned tree) + the table + an overlay "what cp would leave".
func init() { subcmds["copy"] = runCopy }

// ---------------------------------------------------------------------------------------------
// the documented table
// ---------------------------------------------------------------------------------------------

// cpTableAction: copy_unix_test.go
//
//	case | srcIsDir | onlyDirContents | dstExists | dstIsDir | dstTrSep | action
//	 A   |  no      |  -              |  no       |  -       |  no      |  create file
//	 B   |  no      |  -              |  no       |  -       |  yes     |  error
//	 C   |  no      |  -              |  yes      |  no      |  -       |  overwrite file
//	 D   |  no      |  -              |  yes      |  yes     |  -       |  create file in dst dir
//	 E   |  yes     |  no             |  no       |  -       |  -       |  create dir, copy contents
//	 F   |  yes     |  no             |  yes      |  no      |  -       |  error
//	 G   |  yes     |  no             |  yes      |  yes     |  -       |  copy dir and contents
//	 H   |  yes     |  yes            |  no       |  -       |  -       |  create dir, copy contents
//	 I   |  yes     |  yes            |  yes      |  no      |  -       |  error
//	 J   |  yes     |  yes            |  yes      |  yes     |  -       |  copy dir contents
func cpTableAction(srcIsDir, onlyDirContents, dstExists, dstIsDir, dstTrSep bool) string {
	if !srcIsDir {
		switch {
		case !dstExists && !dstTrSep:
			return "A"
		case !dstExists && dstTrSep:
			return "B"
		case dstExists && !dstIsDir:
			return "C"
		default:
			return "D"
		}
	}
	if !onlyDirContents {
		switch {
		case !dstExists:
			return "E"
		case !dstIsDir:
			return "F"
		default:
			return "G"
		}
	}
	switch {
	case !dstExists:
		return "H"
	case !dstIsDir:
		return "I"
	default:
		return "J"
	}
}

// ---------------------------------------------------------------------------------------------
// model file system: the scanned world with lstat / path walk (symlinks, "..", hop limit)
// ---------------------------------------------------------------------------------------------

type cpFS struct{ m map[string]*Node }

var cpDirNode = Node{Kind: 'd', Perm: 0o755}

func cpNewFS(nodes []Node) *cpFS {
	f := &cpFS{m: map[string]*Node{}}
	for i := range nodes {
		n := nodes[i]
		f.m[n.Path] = &n
	}
	return f
}

func (f *cpFS) get(p string) *Node {
	if p == "" || p == "/" || p == "/w" {
		return &cpDirNode
	}
	return f.m[p]
}

func (f *cpFS) children(p string) []*Node {
	var out []*Node
	for q, n := range f.m {
		if cpDir(q) == p {
			out = append(out, n)
		}
	}
	sort.Slice(out, func(i, j int) bool { return out[i].Path < out[j].Path })
	return out
}

func cpDir(p string) string {
	i := strings.LastIndex(p, "/")
	if i <= 0 {
		return "/"
	}
	return p[:i]
}

func cpBase(p string) string { return p[strings.LastIndex(p, "/")+1:] }

func cpComps(p string) []string {
	var out []string
	for _, c := range strings.Split(p, "/") {
		if c != "" && c != "." {
			out = append(out, c)
		}
	}
	return out
}

// walk resolves an absolute path the way the kernel does. followLast: follow a symlink in the last
// position.  errno: "" | ENOENT | ENOTDIR | ELOOP.  For ENOENT on the LAST component (its parent
// exists) canon is the canonical path of the missing object and parentOK is true.
func (f *cpFS) walk(p string, followLast bool) (canon string, n *Node, errno string, parentOK bool) {
	rest := cpComps(p)
	cur := ""
	hops := 0
	for len(rest) > 0 {
		c := rest[0]
		rest = rest[1:]
		if c == ".." {
			if cur != "" {
				cur = cur[:strings.LastIndex(cur, "/")]
			}
			continue
		}
		next := cur + "/" + c
		last := len(rest) == 0
		nd := f.get(next)
		if nd == nil {
			if last {
				return next, nil, "ENOENT", true
			}
			return "", nil, "ENOENT", false
		}
		if nd.Kind == 's' && (!last || followLast) {
			hops++
			if hops > 40 {
				return "", nil, "ELOOP", false
			}
			if strings.HasPrefix(nd.Target, "/") {
				cur = ""
			}
			rest = append(cpComps(nd.Target), rest...)
			continue
		}
		if !last && nd.Kind != 'd' {
			return "", nil, "ENOTDIR", false
		}
		cur = next
	}
	if cur == "" {
		return "/", &cpDirNode, "", true
	}
	return cur, f.get(cur), "", true
}

func cpErrnoClass(e string) string {
	switch e {
	case "ENOENT":
		return "notexist"
	case "ENOTDIR":
		return "notdir"
	}
	return "any"
}

// ---------------------------------------------------------------------------------------------
// the model of one copy: classification of the concrete cell into the table's columns, the
// basic assumptions, and the expected world
// ---------------------------------------------------------------------------------------------

type cpExpNode struct {
	Node
	fresh      bool // created or replaced by the copy: owner / times are not promised
	looseMtime bool // directory whose entries changed
	loosePerm  bool // existing directory merged with a copied directory
	srcGroup   int  // hard-link group of the source object (fresh nodes)
}

type cpSrcM struct {
	errs         []string // applicable error classes
	root         string   // canonical path of the object to copy
	isDir        bool
	contentsOnly bool
	name         string // base name as typed: the landing name inside a directory
}

type cpDstM struct {
	errs      []string
	path      string // canonical final path (existing or to be created)
	exists    bool
	isDir     bool
	firstLink bool // the typed destination itself is a symbolic link
}

type cpModelOut struct {
	src       cpSrcM
	dst       cpDstM
	row       string
	errs      []string // non-empty: the copy must fail with one of these classes ("any") and change nothing
	world     map[string]*cpExpNode
	undefined string
	landing   string
	ambiguous bool // error-with-nothing-changed is accepted as well (see cpModel)
	d15cell   bool
}

func cpModelSrc(f *cpFS, sp, ssuf string, follow bool) cpSrcM {
	var s cpSrcM
	s.name = cpBase(sp)
	pc, pn, e, _ := f.walk(cpDir(sp), true)
	if e != "" {
		s.errs = append(s.errs, cpErrnoClass(e))
		return s
	}
	if pn == nil || pn.Kind != 'd' {
		s.errs = append(s.errs, "notdir")
		return s
	}
	if pc == "/" {
		pc = ""
	}
	self := pc + "/" + s.name
	obj := f.get(self)
	if obj == nil {
		// assumption 1: SRC must exist
		s.errs = append(s.errs, "notexist")
		return s
	}
	if ssuf != "" {
		// assumption 2: with a trailing separator SRC must be a directory ("link/" names what the link points to)
		c, n, e, _ := f.walk(self, true)
		if e != "" || n == nil {
			s.errs = append(s.errs, cpErrnoClass(e))
			return s
		}
		if n.Kind != 'd' {
			s.errs = append(s.errs, "notdir")
			return s
		}
		s.root, s.isDir, s.contentsOnly = c, true, ssuf == "/."
		return s
	}
	if obj.Kind == 's' && follow {
		c, n, e, _ := f.walk(self, true)
		if e != "" || n == nil {
			s.errs = append(s.errs, "any") // broken link followed: an error (TestCopyCaseCFSym), class not documented
			return s
		}
		s.root, s.isDir = c, n.Kind == 'd'
		return s
	}
	s.root, s.isDir = self, obj.Kind == 'd'
	return s
}

func cpModelDst(f *cpFS, dp, dsuf string) cpDstM {
	var d cpDstM
	// assumption 3: DST parent directory must exist
	pc, pn, e, _ := f.walk(cpDir(dp), true)
	if e != "" {
		d.errs = append(d.errs, cpErrnoClass(e))
		return d
	}
	if pn == nil || pn.Kind != 'd' {
		d.errs = append(d.errs, "any")
		return d
	}
	if pc == "/" {
		pc = ""
	}
	self := pc + "/" + cpBase(dp)
	if o := f.get(self); o != nil && o.Kind == 's' {
		d.firstLink = true
	}
	// the copy resolves destination symlinks; a dangling last hop names the object to create
	c, n, e, parentOK := f.walk(self, true)
	switch {
	case e == "ENOENT" && parentOK:
		d.path = c
	case e == "ENOENT":
		d.errs = append(d.errs, "any") // the resolved target's parent is missing (assumption 3 on the real target)
		return d
	case e != "":
		d.errs = append(d.errs, "any") // cyclic link, link through a file
		return d
	default:
		d.path, d.exists, d.isDir = c, true, n.Kind == 'd'
	}
	// assumption 4: if DST exists as a file it must not end with a trailing separator
	if d.exists && !d.isDir && dsuf != "" {
		d.errs = append(d.errs, "notdir")
	}
	// "DST/." = inside the directory DST, which must therefore exist
	if !d.exists && dsuf == "/." {
		d.errs = append(d.errs, "any")
	}
	return d
}

func cpModel(before []Node, sp, ssuf, dp, dsuf string, follow bool) *cpModelOut {
	f := cpNewFS(before)
	m := &cpModelOut{world: map[string]*cpExpNode{}}
	for i := range before {
		m.world[before[i].Path] = &cpExpNode{Node: before[i]}
	}
	m.src = cpModelSrc(f, sp, ssuf, follow)
	m.dst = cpModelDst(f, dp, dsuf)
	m.errs = append(m.errs, m.src.errs...)
	m.errs = append(m.errs, m.dst.errs...)
	if len(m.src.errs) > 0 {
		m.row = "src-error"
		return m
	}
	s, d := m.src, m.dst
	if len(d.errs) > 0 && d.path == "" {
		m.row = "dst-error"
		return m
	}
	m.row = cpTableAction(s.isDir, s.contentsOnly, d.exists, d.isDir, dsuf != "")
	switch m.row {
	case "B":
		m.errs = append(m.errs, "dirnotexists")
	case "F", "I":
		m.errs = append(m.errs, "cannotcopydir")
	}
	if len(m.errs) > 0 {
		return m
	}
	// The table has no row for "DST/" where DST is a dangling link and SRC is a directory: read with the
	// link resolved it is row E/H (create the target), read literally ("DST/" does not exist, the name DST
	// is taken by a non-directory) it cannot be created.  Both readings are accepted: either the directory
	// appears at the resolved target, or the copy fails and changes nothing.
	if d.firstLink && !d.exists && dsuf == "/" && s.isDir {
		m.ambiguous = true
	}
	// D15 cell: contents-of copy onto "link/" or "link/." where link leads to an existing directory
	if s.contentsOnly && d.firstLink && d.exists && d.isDir && dsuf != "" {
		m.d15cell = true
	}
	switch m.row {
	case "A", "C", "E", "H":
		m.landing = d.path
		if m.row == "H" {
			m.putDir(f, s.root, d.path, true)
		} else {
			m.put(f, s.root, d.path)
		}
	case "D", "G":
		m.landing = d.path + "/" + s.name
		m.put(f, s.root, m.landing)
	case "J":
		m.landing = d.path
		m.putDir(f, s.root, d.path, false)
	}
	return m
}

func (m *cpModelOut) touchParent(dst string) {
	if p := m.world[cpDir(dst)]; p != nil {
		p.looseMtime = true
	}
}

// putDir copies the contents of directory src into dst; create: dst itself is created from src.
func (m *cpModelOut) putDir(f *cpFS, src, dst string, create bool) {
	sn := f.get(src)
	ex := m.world[dst]
	if create {
		if ex != nil {
			m.undefined = "create over existing " + dst
			return
		}
		m.world[dst] = &cpExpNode{Node: Node{Path: dst, Kind: 'd', Perm: sn.Perm}, fresh: true}
		m.touchParent(dst)
	} else {
		if ex == nil || ex.Kind != 'd' {
			m.undefined = "contents into non-directory " + dst
			return
		}
		ex.looseMtime, ex.loosePerm = true, true
	}
	for _, c := range f.children(src) {
		m.put(f, c.Path, dst+"/"+cpBase(c.Path))
	}
}

// put overlays the object src at dst: directories merge, anything else replaces a non-directory.
func (m *cpModelOut) put(f *cpFS, src, dst string) {
	if m.undefined != "" {
		return
	}
	sn := f.get(src)
	ex := m.world[dst]
	if sn.Kind == 'd' {
		switch {
		case ex == nil:
			m.putDir(f, src, dst, true)
		case ex.Kind == 'd':
			m.putDir(f, src, dst, false)
		default:
			m.undefined = "directory onto non-directory inside the destination: " + dst
		}
		return
	}
	if ex != nil && ex.Kind == 'd' {
		m.undefined = "non-directory onto directory inside the destination: " + dst
		return
	}
	m.world[dst] = &cpExpNode{Node: Node{Path: dst, Kind: sn.Kind, Perm: sn.Perm, Data: sn.Data, Target: sn.Target}, fresh: true, srcGroup: sn.Group}
	m.touchParent(dst)
}

func cpShort(s string) string {
	if len(s) > 60 {
		return fmt.Sprintf("%s…(%d)…%s", s[:20], len(s), s[len(s)-20:])
	}
	return s
}

func cpShortPath(p string) string {
	cs := strings.Split(p, "/")
	for i := range cs {
		cs[i] = cpShort(cs[i])
	}
	return strings.Join(cs, "/")
}

// cpCompare checks the scanned world after the copy against the expected world.
func cpCompare(exp map[string]*cpExpNode, after []Node) string {
	am := map[string]*Node{}
	for i := range after {
		am[after[i].Path] = &after[i]
	}
	var keys []string
	for k := range exp {
		keys = append(keys, k)
	}
	for k := range am {
		if _, ok := exp[k]; !ok {
			keys = append(keys, k)
		}
	}
	sort.Strings(keys)
	// presence and kinds first (the most telling difference), then contents and metadata
	for _, k := range keys {
		e, a := exp[k], am[k]
		switch {
		case e == nil:
			return "unexpected object " + cpShortPath(k) + " (kind " + string(a.Kind) + ")"
		case a == nil:
			return "missing object " + cpShortPath(k) + " (expected kind " + string(e.Kind) + ")"
		}
		if e.Kind != a.Kind {
			return fmt.Sprintf("kind of %s: got %c want %c", cpShortPath(k), a.Kind, e.Kind)
		}
	}
	for _, k := range keys {
		e, a := exp[k], am[k]
		switch e.Kind {
		case 'r':
			if e.Data != a.Data {
				return fmt.Sprintf("content of %s: got %q want %q", cpShortPath(k), truncate(a.Data, 40), truncate(e.Data, 40))
			}
		case 's':
			if e.Target != a.Target {
				return fmt.Sprintf("link target of %s: got %q want %q", cpShortPath(k), cpShortPath(a.Target), cpShortPath(e.Target))
			}
		}
		if e.Kind != 's' && !e.loosePerm && e.Perm != a.Perm {
			return fmt.Sprintf("mode of %s: got %o want %o", cpShortPath(k), a.Perm, e.Perm)
		}
		if !e.fresh {
			if e.Uid != a.Uid || e.Gid != a.Gid {
				return fmt.Sprintf("owner of untouched %s changed: %d:%d -> %d:%d", cpShortPath(k), e.Uid, e.Gid, a.Uid, a.Gid)
			}
			if !e.looseMtime && e.Mtime != a.Mtime {
				return fmt.Sprintf("mtime of untouched %s changed: %d -> %d", cpShortPath(k), e.Mtime, a.Mtime)
			}
		}
	}
	// hard-link structure
	eg := map[string][]string{}
	for k, e := range exp {
		if e.fresh {
			if e.srcGroup != 0 {
				eg[fmt.Sprintf("s%d", e.srcGroup)] = append(eg[fmt.Sprintf("s%d", e.srcGroup)], k)
			}
		} else if e.Group != 0 {
			eg[fmt.Sprintf("b%d", e.Group)] = append(eg[fmt.Sprintf("b%d", e.Group)], k)
		}
	}
	ag := map[string][]string{}
	for k, a := range am {
		if a.Group != 0 {
			ag[fmt.Sprint(a.Group)] = append(ag[fmt.Sprint(a.Group)], k)
		}
	}
	if e, a := cpPartition(eg), cpPartition(ag); e != a {
		return "hard-link structure: got " + cpShortPath(a) + " want " + cpShortPath(e)
	}
	return ""
}

func cpPartition(g map[string][]string) string {
	var sets []string
	for _, ps := range g {
		if len(ps) < 2 {
			continue
		}
		sort.Strings(ps)
		sets = append(sets, strings.Join(ps, "="))
	}
	sort.Strings(sets)
	return strings.Join(sets, " ; ")
}

// ---------------------------------------------------------------------------------------------
// cells and worlds
// ---------------------------------------------------------------------------------------------

type cpCell struct {
	SrcKind  string // file dir symf symd absent dangling
	Follow   bool
	SrcSuf   string
	DstState string
	DstSuf   string
}

var cpSrcKinds = []string{"file", "dir", "symf", "symd", "absent", "dangling"}
var cpSufs = []string{"", "/", "/."}
var cpDstStates = []string{"absent", "file", "dirE", "dirN", "symF", "symDE", "symDN", "dangle", "dangleNP",
	"chainF", "chainD", "chainA", "missing", "parentfile", "cycle"}

func cpAllCells() []cpCell {
	var out []cpCell
	for _, sk := range cpSrcKinds {
		for _, fl := range []bool{false, true} {
			for _, ss := range cpSufs {
				for _, ds := range cpDstStates {
					for _, dsuf := range cpSufs {
						out = append(out, cpCell{sk, fl, ss, ds, dsuf})
					}
				}
			}
		}
	}
	return out
}

// cpSourceAcceptable: the source exists and its suffix fits its kind (basic assumptions 1 and 2 hold)
func cpSourceAcceptable(c cpCell) bool {
	switch c.SrcKind {
	case "dir", "symd":
		return true
	case "file", "symf":
		return c.SrcSuf == ""
	case "dangling":
		return c.SrcSuf == "" && !c.Follow
	}
	return false
}

func (c cpCell) String() string {
	fl := "nofollow"
	if c.Follow {
		fl = "follow"
	}
	return fmt.Sprintf("%s%s %s -> %s%s", c.SrcKind, c.SrcSuf, fl, c.DstState, c.DstSuf)
}

// CopyCase is the replayable case.
type CopyCase struct {
	Cell     cpCell
	NameMode string
	Escape   bool   // the source is a link copied as a link whose text ("../x") leaves the directory the copy extracts into
	Src      string // typed source path without suffix
	Dst      string // typed destination path without suffix
	Nodes    []Node
}

func (c *CopyCase) text() string {
	b, _ := json.Marshal(c)
	return string(b)
}

type cpNames struct {
	S, D, T, X, PA, PB, PC, PE string
	Mode                       string
}

func cpLetters(r *Rng, n int) string {
	b := make([]byte, n)
	for i := range b {
		b[i] = byte('a' + r.intn(26))
	}
	return string(b)
}

var cpNameModes = []string{"plain", "longS", "longD", "longBoth", "prefix", "prefixRev", "DcontainsS", "ScontainsD",
	"targetBase", "parentName", "parentInName", "same", "dotted", "crossParent", "XisS", "TcontainsS", "midD", "midS"}

func cpGenNames(r *Rng) cpNames {
	n := cpNames{S: "src", D: "dst", T: "target", X: "real", PA: "A", PB: "B", PC: "C", PE: "E"}
	n.Mode = cpNameModes[r.intn(len(cpNameModes))]
	switch n.Mode {
	case "longS":
		n.S = "s" + cpLetters(r, 200+r.intn(36))
	case "longD":
		n.D = "d" + cpLetters(r, 200+r.intn(36))
	case "midD":
		// long enough that a renamed entry crosses the 100-byte header limit in its link name only, or its name only
		n.D = "d" + cpLetters(r, 48+r.intn(50))
	case "midS":
		n.S = "s" + cpLetters(r, 48+r.intn(50))
	case "longBoth":
		common := cpLetters(r, 200+r.intn(30))
		n.S, n.D = common+"a", common+"b"
		if r.chance(1, 2) {
			n.D = common // the source base extends the destination base
		}
	case "prefix":
		n.S, n.D = "src", "src2"
	case "prefixRev":
		n.S, n.D = "src2", "src"
	case "DcontainsS":
		n.S = cpLetters(r, 2+r.intn(3))
		n.D = "x" + n.S + "y"
		if r.chance(1, 3) {
			n.D = n.S + n.S
		}
	case "ScontainsD":
		n.D = cpLetters(r, 2+r.intn(3))
		n.S = "x" + n.D + "y"
	case "targetBase":
		// A/latest -> data.txt copied to B/data.txt
		n.T, n.S, n.D, n.X = "data.txt", "latest", "data.txt", "latest"
	case "parentName":
		n.PA, n.S, n.PB, n.D, n.T = "par", "par", "dpar", "dpar", "parT"
	case "parentInName":
		n.PA, n.S, n.PB, n.D = "ab", "ab.txt", "cd", "xcdx"
	case "same":
		n.S, n.D = "item", "item"
	case "dotted":
		n.S, n.D, n.T, n.X = "a.b.c", ".d.e", "t.x", "..x"
	case "crossParent":
		n.PB, n.PC = n.S, n.D // the destination's parent is named like the source, "elsewhere" like the destination
	case "XisS":
		n.X, n.T = n.S, n.D
	case "TcontainsS":
		n.T = []string{"pre" + n.S + "post", "x" + n.S, n.S + "x", n.S + "." + n.S}[r.intn(4)]
		n.X = []string{n.D + n.D, "x" + n.D, n.D + "x"}[r.intn(3)]
	}
	return n
}

type cpBuilder struct {
	nodes []Node
	have  map[string]byte
	clash bool
	mt    int64
	grp   int
}

func (b *cpBuilder) ok(n Node) bool {
	if _, dup := b.have[n.Path]; dup {
		return false
	}
	if len(cpBase(n.Path)) > 250 {
		return false
	}
	par := cpDir(n.Path)
	if par != "/w" && b.have[par] != 'd' {
		return false
	}
	return true
}

func (b *cpBuilder) put(n Node) {
	b.mt += 7
	n.Mtime = b.mt
	if n.Kind == 's' {
		n.Perm = 0o777
	}
	b.have[n.Path] = n.Kind
	b.nodes = append(b.nodes, n)
}

// add: required object; a name clash invalidates the attempt.
func (b *cpBuilder) add(n Node) {
	if !b.ok(n) {
		b.clash = true
		return
	}
	b.put(n)
}

// try: optional object (bystander), silently dropped on a clash.
func (b *cpBuilder) try(n Node) {
	if b.ok(n) {
		b.put(n)
	}
}

var cpFilePerms = []uint32{0o644, 0o600, 0o755, 0o4755, 0o640, 0o444, 0o664}
var cpDirPerms = []uint32{0o755, 0o700, 0o750, 0o775, 0o2755}

func cpData(r *Rng, tag string) string {
	if r.chance(1, 25) {
		// larger than the 32 KiB copy buffer
		return tag + ":" + strings.Repeat(cpLetters(r, 50), 800)
	}
	if r.chance(1, 12) {
		return ""
	}
	return tag + ":" + cpLetters(r, 1+r.intn(20))
}

func cpFileNode(r *Rng, p, tag string) Node {
	return Node{Path: p, Kind: 'r', Perm: cpFilePerms[r.intn(len(cpFilePerms))], Data: cpData(r, tag)}
}

func cpDirNodeOf(r *Rng, p string) Node {
	return Node{Path: p, Kind: 'd', Perm: cpDirPerms[r.intn(len(cpDirPerms))]}
}

// dirContents fills a source directory.  bases: names to embed again inside (src/src.txt, sub/src).
func (b *cpBuilder) dirContents(r *Rng, root string, bases []string) {
	b.add(cpFileNode(r, root+"/file.txt", "file"))
	b.add(cpDirNodeOf(r, root+"/sub"))
	for _, bs := range bases {
		b.try(cpFileNode(r, root+"/"+bs+".txt", "selfname"))
		b.try(cpFileNode(r, root+"/sub/"+bs, "nested-selfname"))
	}
	if r.chance(1, 2) {
		b.try(cpDirNodeOf(r, root+"/sub/deep"))
		b.try(cpFileNode(r, root+"/sub/deep/x.y.z", "deep"))
	}
	if r.chance(1, 2) {
		b.try(Node{Path: root + "/lnk", Kind: 's', Target: "file.txt"})
	}
	if r.chance(1, 2) {
		b.try(Node{Path: root + "/lnkS", Kind: 's', Target: bases[0] + ".txt"})
	}
	if r.chance(1, 3) {
		b.try(Node{Path: root + "/abs", Kind: 's', Target: "/w/zcanary"})
	}
	if r.chance(1, 2) {
		b.grp++
		n := cpFileNode(r, root+"/h1", "hard")
		n.Group = b.grp
		if b.ok(n) {
			b.put(n)
			n.Path = root + "/sub/h2"
			b.try(n)
			if r.chance(1, 2) {
				n.Path = root + "/" + bases[0] + ".hl"
				b.try(n)
			}
		}
	}
	if r.chance(1, 3) {
		// a hard-link pair whose first name (the one that becomes the link target in the archive) is long
		// and whose second is short
		b.grp++
		n := cpFileNode(r, root+"/a"+strings.Repeat("t", 30+r.intn(25)), "hard-long-target")
		n.Group = b.grp
		if b.ok(n) {
			b.put(n)
			n.Path = root + "/z"
			b.try(n)
		}
	}
	if r.chance(1, 3) {
		b.try(cpDirNodeOf(r, root+"/emptyd"))
	}
	if r.chance(1, 3) {
		b.try(cpFileNode(r, root+"/.hidden", "hidden"))
		b.try(cpFileNode(r, root+"/..a", "dotdot"))
	}
}

// linkText: the text of a symlink placed in directory from (a child of /w) naming /w/<to>/<name>.
func cpLinkText(r *Rng, from, to, name string) string {
	if from == to && r.chance(2, 3) {
		if r.chance(1, 4) {
			return "./" + name
		}
		return name
	}
	if r.chance(1, 2) {
		return "/w/" + to + "/" + name
	}
	return "../" + to + "/" + name
}

// destination directory payload: bystanders and (optionally) objects that the copy will merge with / replace
func (b *cpBuilder) destDirContents(r *Rng, z string, cell cpCell, landName string) {
	b.add(Node{Path: z + "/keep.txt", Kind: 'r', Perm: 0o640, Data: "keep"})
	b.add(Node{Path: z + "/keepdir", Kind: 'd', Perm: 0o711})
	b.add(Node{Path: z + "/keepdir/k", Kind: 'r', Perm: 0o600, Data: "k"})
	if !r.chance(1, 2) {
		return
	}
	srcDir := cell.SrcKind == "dir" || (cell.SrcKind == "symd" && (cell.Follow || cell.SrcSuf != ""))
	switch {
	case !srcDir:
		b.try(Node{Path: z + "/" + landName, Kind: 'r', Perm: 0o666, Data: "old-colliding"})
	case cell.SrcSuf == "/.":
		b.try(Node{Path: z + "/file.txt", Kind: 'r', Perm: 0o666, Data: "old-colliding"})
		b.try(Node{Path: z + "/sub", Kind: 'd', Perm: 0o777})
		b.try(Node{Path: z + "/sub/keep2", Kind: 'r', Perm: 0o644, Data: "keep2"})
	default:
		b.try(Node{Path: z + "/" + landName, Kind: 'd', Perm: 0o777})
		b.try(Node{Path: z + "/" + landName + "/file.txt", Kind: 'r', Perm: 0o666, Data: "old-colliding"})
		b.try(Node{Path: z + "/" + landName + "/other.keep", Kind: 'r', Perm: 0o644, Data: "other"})
	}
}

func cpBuildCase(r *Rng, cell cpCell) *CopyCase {
	for attempt := 0; attempt < 40; attempt++ {
		if c := cpTryBuild(r.fork(), cell); c != nil {
			return c
		}
	}
	return nil
}

func cpTryBuild(r *Rng, cell cpCell) *CopyCase {
	nm := cpGenNames(r)
	sameDir := nm.Mode != "same" && nm.Mode != "crossParent" && nm.Mode != "parentName" && r.chance(1, 12)
	if sameDir {
		nm.PB = nm.PA
		nm.Mode += "+samedir"
	}
	b := &cpBuilder{have: map[string]byte{}, mt: 1000}
	A, B, C, E := "/w/"+nm.PA, "/w/"+nm.PB, "/w/"+nm.PC, "/w/"+nm.PE
	b.add(Node{Path: A, Kind: 'd', Perm: 0o755})
	if !sameDir {
		b.add(Node{Path: B, Kind: 'd', Perm: []uint32{0o755, 0o777, 0o1777, 0o700}[r.intn(4)]})
	}
	b.add(Node{Path: C, Kind: 'd', Perm: 0o755})
	b.add(Node{Path: E, Kind: 'd', Perm: 0o755})
	b.add(Node{Path: "/w/zcanary", Kind: 'r', Perm: 0o604, Data: "canary"})
	srcPar, dstPar := A, B
	if r.chance(1, 6) {
		t := nm.PA
		if r.chance(1, 2) {
			t = "/w/" + nm.PA
		}
		b.add(Node{Path: "/w/LA", Kind: 's', Target: t})
		srcPar = "/w/LA"
	}
	if r.chance(1, 6) {
		t := nm.PB
		if r.chance(1, 2) {
			t = "/w/" + nm.PB
		}
		b.add(Node{Path: "/w/LB", Kind: 's', Target: t})
		dstPar = "/w/LB"
	}

	// ---- source ----
	escape := false
	S := A + "/" + nm.S
	srcTargetDir := func() (string, string) { // (directory holding T, its /w child name)
		switch r.intn(3) {
		case 0:
			return A, nm.PA
		default:
			return C, nm.PC
		}
	}
	switch cell.SrcKind {
	case "file":
		b.add(cpFileNode(r, S, "srcfile"))
	case "dir":
		b.add(cpDirNodeOf(r, S))
		b.dirContents(r, S, []string{nm.S})
	case "symf", "symd":
		td, tdn := srcTargetDir()
		// A link that is copied AS a link (no follow, no suffix) keeps its text verbatim.  The extraction
		// refuses link texts that would lead out of the directory it extracts into ("../x"; breakout
		// protection, outside this table), so such a link gets a same-directory or an absolute text.
		verbatim := !cell.Follow && cell.SrcSuf == ""
		T := td + "/" + nm.T
		first := S
		b.add(Node{Path: S, Kind: 's'}) // target filled in below
		idx := len(b.nodes) - 1
		if r.chance(1, 4) {
			// two hops: S -> mid (same dir) -> T
			b.add(Node{Path: A + "/mid.lnk", Kind: 's', Target: cpLinkText(r, nm.PA, tdn, nm.T)})
			b.nodes[idx].Target = "mid.lnk"
		} else {
			t := cpLinkText(r, nm.PA, tdn, nm.T)
			if verbatim && strings.HasPrefix(t, "../") {
				if r.chance(1, 6) {
					escape = true // kept: the outside-table slice, see cpOracle
				} else {
					t = "/w/" + tdn + "/" + nm.T
				}
			}
			b.nodes[idx].Target = t
		}
		_ = first
		if cell.SrcKind == "symf" {
			b.add(cpFileNode(r, T, "linktarget"))
		} else {
			b.add(cpDirNodeOf(r, T))
			b.dirContents(r, T, []string{nm.T, nm.S})
		}
	case "absent":
	case "dangling":
		b.add(Node{Path: S, Kind: 's', Target: r.pick([]string{"nowhere", "/w/" + nm.PC + "/nowhere", "/w/" + nm.PE + "/none/x", "./nowhere"})}) // no "../": see the note on verbatim links
	}
	// prefix-sharing siblings of the source that must not travel with it
	b.try(Node{Path: S + "2", Kind: 'r', Perm: 0o644, Data: "sibling2"})
	b.try(Node{Path: S + ".bak", Kind: 'r', Perm: 0o644, Data: "siblingbak"})
	b.try(Node{Path: A + "/x" + nm.S, Kind: 'd', Perm: 0o755})
	b.try(Node{Path: A + "/x" + nm.S + "/inner", Kind: 'r', Perm: 0o644, Data: "inner"})

	// ---- destination ----
	D := B + "/" + nm.D
	dstTyped := dstPar + "/" + nm.D
	b.try(Node{Path: B + "/bystander.txt", Kind: 'r', Perm: 0o644, Data: "bystander"})
	xdir, xdn := C, nm.PC
	if r.chance(1, 4) {
		xdir, xdn = B, nm.PB
	}
	X := xdir + "/" + nm.X
	switch cell.DstState {
	case "absent":
	case "file":
		if r.chance(1, 2) {
			// the file that is about to be overwritten has a second name: that one must keep the old content
			b.grp++
			n := Node{Path: D, Kind: 'r', Perm: 0o606, Data: "old-destination", Group: b.grp}
			b.add(n)
			n.Path = B + "/old-second-name"
			b.try(n)
		} else {
			b.add(Node{Path: D, Kind: 'r', Perm: 0o606, Data: "old-destination"})
		}
	case "dirE":
		b.add(Node{Path: D, Kind: 'd', Perm: 0o751})
	case "dirN":
		b.add(Node{Path: D, Kind: 'd', Perm: 0o751})
		b.destDirContents(r, D, cell, nm.S)
	case "symF":
		b.add(Node{Path: D, Kind: 's', Target: cpLinkText(r, nm.PB, xdn, nm.X)})
		b.add(Node{Path: X, Kind: 'r', Perm: 0o606, Data: "old-link-target"})
	case "symDE", "symDN":
		b.add(Node{Path: D, Kind: 's', Target: cpLinkText(r, nm.PB, xdn, nm.X)})
		b.add(Node{Path: X, Kind: 'd', Perm: 0o751})
		if cell.DstState == "symDN" {
			b.destDirContents(r, X, cell, nm.S)
		}
	case "dangle":
		b.add(Node{Path: D, Kind: 's', Target: cpLinkText(r, nm.PB, xdn, nm.X)})
	case "dangleNP":
		b.add(Node{Path: D, Kind: 's', Target: cpLinkText(r, nm.PB, xdn, "nodir/"+nm.X)})
	case "chainF", "chainD", "chainA":
		// D -> C/h1 ; C/h1 -> (RELATIVE, resolved against C, not against the destination's parent) ...
		b.add(Node{Path: D, Kind: 's', Target: cpLinkText(r, nm.PB, nm.PC, "h1")})
		final := C + "/" + nm.X
		if r.chance(1, 2) {
			b.add(Node{Path: C + "/h1", Kind: 's', Target: nm.X})
		} else {
			b.add(Node{Path: C + "/h1", Kind: 's', Target: "../" + nm.PE + "/h2"})
			b.add(Node{Path: E + "/h2", Kind: 's', Target: r.pick([]string{nm.X, "./" + nm.X})})
			final = E + "/" + nm.X
		}
		switch cell.DstState {
		case "chainF":
			if r.chance(1, 2) {
				b.grp++
				n := Node{Path: final, Kind: 'r', Perm: 0o606, Data: "old-chain-target", Group: b.grp}
				b.add(n)
				n.Path = C + "/old-second-name"
				b.try(n)
			} else {
				b.add(Node{Path: final, Kind: 'r', Perm: 0o606, Data: "old-chain-target"})
			}
		case "chainD":
			b.add(Node{Path: final, Kind: 'd', Perm: 0o751})
			if r.chance(1, 2) {
				b.destDirContents(r, final, cell, nm.S)
			}
		}
		// decoys: where a chase that joins a relative hop with the wrong directory would land
		b.try(Node{Path: B + "/h2", Kind: 'r', Perm: 0o644, Data: "decoy"})
	case "missing":
		dstTyped = dstPar + "/nodir/" + nm.D
	case "parentfile":
		b.add(Node{Path: B + "/afile", Kind: 'r', Perm: 0o644, Data: "afile"})
		dstTyped = dstPar + "/afile/" + nm.D
	case "cycle":
		if r.chance(1, 3) {
			b.add(Node{Path: D, Kind: 's', Target: nm.D})
		} else {
			b.add(Node{Path: D, Kind: 's', Target: cpLinkText(r, nm.PB, nm.PC, "loop")})
			b.add(Node{Path: C + "/loop", Kind: 's', Target: "../" + nm.PB + "/" + nm.D})
		}
	}
	b.try(Node{Path: D + "2", Kind: 'r', Perm: 0o644, Data: "dst-sibling2"})
	b.try(Node{Path: B + "/" + nm.S + "~", Kind: 'r', Perm: 0o644, Data: "dst-sibling-tilde"})
	b.try(Node{Path: C + "/cby.txt", Kind: 'r', Perm: 0o644, Data: "cby"})
	b.try(Node{Path: C + "/" + nm.X + "2", Kind: 'r', Perm: 0o644, Data: "x-sibling"})
	if b.clash {
		return nil
	}
	// the source object and the destination must not contain one another (possible when both live in one directory)
	{
		f := cpNewFS(b.nodes)
		sm := cpModelSrc(f, srcPar+"/"+nm.S, cell.SrcSuf, cell.Follow)
		_ = sm
		dm := cpModelDst(f, dstTyped, cell.DstSuf)
		if sm.root != "" && dm.path != "" && (isUnder(sm.root, dm.path) || isUnder(dm.path, sm.root)) {
			return nil
		}
	}
	// now and then a typed path that is not in its cleaned form
	srcTyped := srcPar + "/" + nm.S
	if r.chance(1, 10) {
		srcTyped = "/w" + r.pick([]string{"//", "/./"}) + srcTyped[3:]
	}
	if r.chance(1, 10) {
		dstTyped = "/w" + r.pick([]string{"//", "/./"}) + dstTyped[3:]
	}
	return &CopyCase{Cell: cell, NameMode: nm.Mode, Escape: escape, Src: srcTyped, Dst: dstTyped, Nodes: b.nodes}
}

// ---------------------------------------------------------------------------------------------
// pure building blocks: independent expectations
// ---------------------------------------------------------------------------------------------

// cpLexClean: lexical path cleaning written from the definition (no path/filepath).
func cpLexClean(p string) string {
	if p == "" {
		return "."
	}
	rooted := p[0] == '/'
	var st []string
	for _, c := range strings.Split(p, "/") {
		switch c {
		case "", ".":
		case "..":
			if len(st) > 0 && st[len(st)-1] != ".." {
				st = st[:len(st)-1]
			} else if !rooted {
				st = append(st, "..")
			}
		default:
			st = append(st, c)
		}
	}
	s := strings.Join(st, "/")
	if rooted {
		return "/" + s
	}
	if s == "" {
		return "."
	}
	return s
}

// last path element the way "basename" sees it: trailing separators ignored, "" -> ".", all separators -> "/"
func cpLastSeg(p string) string {
	if p == "" {
		return "."
	}
	t := strings.TrimRight(p, "/")
	if t == "" {
		return "/"
	}
	return t[strings.LastIndex(t, "/")+1:]
}

func cpIsCurDir(p string) bool { return cpLastSeg(p) == "." }
func cpEndsSep(p string) bool  { return strings.HasSuffix(p, "/") }

// SplitPathDirEntry: "splits the given path between its directory name and its basename by first cleaning
// the path but preserves a trailing "." if the original path specified the current directory"
func cpExpectSplit(p string) (string, string) {
	cl := cpLexClean(p)
	if cpIsCurDir(p) {
		return cl, "."
	}
	if cl == "/" {
		return "/", "/"
	}
	i := strings.LastIndex(cl, "/")
	switch {
	case i < 0:
		return ".", cl
	case i == 0:
		return "/", cl[1:]
	}
	return cl[:i], cl[i+1:]
}

// PreserveTrailingDotOrSeparator: "appends a trailing `/.` or `/` if its corresponding original path ends with
// a trailing `/.` or `/`. If the cleaned path already ends in a `.` path segment, then another is not added. If
// the clean path already ends in a path separator, then another is not added."
func cpExpectPreserve(cleaned, original string) string {
	out := cleaned
	if cpIsCurDir(original) && !cpIsCurDir(out) {
		if !cpEndsSep(out) {
			out += "/"
		}
		out += "."
	}
	if cpEndsSep(original) && !cpEndsSep(out) {
		out += "/"
	}
	return out
}

// GetRebaseName: the resolved path gets the trailing "/." or "/" of the requested path back; when the last
// element changed by resolving, the requested last element is the rebase name.
func cpExpectRebase(path, resolved string) (string, string) {
	out := resolved
	if cpIsCurDir(path) && !cpIsCurDir(out) {
		out += "/."
	}
	if cpEndsSep(path) && !cpEndsSep(out) {
		out += "/"
	}
	if cpLastSeg(path) != cpLastSeg(out) {
		return out, cpLastSeg(path)
	}
	return out, ""
}

func cpSufClass(p string) string {
	switch {
	case cpEndsSep(p):
		return "/"
	case cpIsCurDir(p):
		return "/."
	}
	return ""
}

type cpStrCase struct {
	Q cpStrQuery
}

func cpGenStrQueries(r *Rng, n int) []cpStrQuery {
	var qs []cpStrQuery
	segs := func() string {
		k := 1 + r.intn(3)
		var cs []string
		for i := 0; i < k; i++ {
			switch r.intn(9) {
			case 0:
				cs = append(cs, "s"+cpLetters(r, 200+r.intn(30)))
			case 1:
				cs = append(cs, "a.b")
			case 2:
				cs = append(cs, ".hid")
			case 3:
				cs = append(cs, "..x")
			default:
				cs = append(cs, r.pick([]string{"src", "src2", "dst", "w", "A", "data.txt", "x"}))
			}
		}
		return strings.Join(cs, "/")
	}
	sufPool := []string{"", "", "/", "/.", "//", "/./", "/./.", "/..", "/../", "/.//"}
	mk := func() string {
		p := segs()
		if r.chance(5, 6) {
			p = "/" + p
		}
		if r.chance(1, 8) {
			p = strings.Replace(p, "/", "//", 1)
		}
		if r.chance(1, 8) {
			p = strings.Replace(p, "/", "/./", 1)
		}
		return p + r.pick(sufPool)
	}
	fixed := []string{"", ".", "/", "/.", "//", "./", "./.", "..", "../", "a", "a/", "a/.", "/a", "/a/", "/a/.", "/a/./", "/a/b/..", "/a/b/../.", "/.a", "/a./.", "/a/..b/"}
	for _, p := range fixed {
		qs = append(qs, cpStrQuery{Fn: "split", A: p})
		qs = append(qs, cpStrQuery{Fn: "preserve", A: cpLexClean(p), B: p})
	}
	for i := 0; i < n; i++ {
		p := mk()
		qs = append(qs, cpStrQuery{Fn: "split", A: p})
		q := mk()
		cl := cpLexClean(q)
		if r.chance(1, 6) {
			cl = r.pick([]string{"/", ".", cl + "/.", cl + "/"}) // cleaned forms that already carry the suffix / the root
		}
		qs = append(qs, cpStrQuery{Fn: "preserve", A: cl, B: q})
		// rebase: requested path with a suffix, resolved path clean (or already suffixed)
		req := "/" + segs() + r.pick([]string{"", "", "/", "/."})
		resv := "/" + segs()
		if r.chance(1, 3) {
			resv = cpDir(resv) + "/" + cpLastSeg(req) // same last element
			if cpLastSeg(req) == "." {
				resv = "/" + segs()
			}
		}
		if r.chance(1, 8) {
			resv += r.pick([]string{"/", "/."})
		}
		qs = append(qs, cpStrQuery{Fn: "rebase", A: req, B: resv})
	}
	// PrepareArchiveCopy: all 16 boolean combinations x name modes x RebaseName on/off
	for round := 0; round < 1+n/40; round++ {
		for bits := 0; bits < 16; bits++ {
			nm := cpGenNames(r)
			srcIsDir, dstExists, dstIsDir, asserts := bits&1 != 0, bits&2 != 0, bits&4 != 0, bits&8 != 0
			q := cpStrQuery{Fn: "prepare", SrcIsDir: srcIsDir, DstExists: dstExists, DstIsDir: dstIsDir}
			q.SrcPath = "/w/" + nm.PA + "/" + nm.S
			old := nm.S
			if r.chance(1, 2) {
				// the source was reached through a link named T: the archive carries the link's name
				q.SrcRebase = nm.T
				old = nm.T
			}
			if srcIsDir && r.chance(1, 4) {
				q.SrcPath += "/"
			}
			q.DstPath = "/w/" + nm.PB + "/" + nm.D
			if asserts {
				q.DstPath += "/"
			}
			if srcIsDir {
				q.Entries = []cpTarEnt{
					{Name: old + "/", Typ: tar.TypeDir},
					{Name: old + "/" + old + ".txt", Typ: tar.TypeReg, Body: "b1"},
					{Name: old + "/file.txt", Typ: tar.TypeReg, Body: "b2"},
					{Name: old + "/sub/", Typ: tar.TypeDir},
					{Name: old + "/sub/" + old, Typ: tar.TypeReg, Body: "b3"},
					{Name: old + "/h2", Typ: tar.TypeLink, Link: old + "/" + old + ".txt"},
					{Name: old + "/lnk", Typ: tar.TypeSymlink, Link: old + ".txt"},
					{Name: old + "/lnk2", Typ: tar.TypeSymlink, Link: "/w/" + nm.PA + "/" + old},
				}
			} else {
				q.Entries = []cpTarEnt{{Name: old, Typ: tar.TypeReg, Body: "body-" + old[:1]}}
			}
			qs = append(qs, q)
		}
	}
	return qs
}

// cpCheckStr returns "" or the failed expectation; clause names the building block.
func cpCheckStr(q cpStrQuery, a cpStrAnswer) (clause, msg string) {
	switch q.Fn {
	case "split":
		d, b := cpExpectSplit(q.A)
		if a.R1 != d || a.R2 != b {
			return "SplitPathDirEntry", fmt.Sprintf("SplitPathDirEntry(%q) = (%q,%q), expected (%q,%q)", cpShortPath(q.A), cpShortPath(a.R1), cpShortPath(a.R2), cpShortPath(d), cpShortPath(b))
		}
		return "SplitPathDirEntry", ""
	case "preserve":
		e := cpExpectPreserve(q.A, q.B)
		if a.R1 != e {
			return "PreserveTrailingDotOrSeparator", fmt.Sprintf("PreserveTrailingDotOrSeparator(%q,%q) = %q, expected %q", cpShortPath(q.A), cpShortPath(q.B), cpShortPath(a.R1), cpShortPath(e))
		}
		return "PreserveTrailingDotOrSeparator", ""
	case "rebase":
		p, n := cpExpectRebase(q.A, q.B)
		if a.R1 != p || a.R2 != n {
			return "GetRebaseName", fmt.Sprintf("GetRebaseName(%q,%q) = (%q,%q), expected (%q,%q)", cpShortPath(q.A), cpShortPath(q.B), cpShortPath(a.R1), cpShortPath(a.R2), cpShortPath(p), cpShortPath(n))
		}
		return "GetRebaseName", ""
	case "prepare":
		asserts := cpEndsSep(q.DstPath)
		// the table, on the four booleans PrepareArchiveCopy is given (dstIsDir means nothing for an absent DST)
		row := cpTableAction(q.SrcIsDir, false, q.DstExists, q.DstExists && q.DstIsDir, asserts)
		desc := fmt.Sprintf("PrepareArchiveCopy(srcIsDir=%v rebase=%q dstExists=%v dstIsDir=%v dst=%q) row %s", q.SrcIsDir, cpShort(q.SrcRebase), q.DstExists, q.DstIsDir, cpShortPath(q.DstPath), row)
		switch row {
		case "B":
			if a.Class != "dirnotexists" {
				return "PrepareArchiveCopy", desc + ": expected ErrDirNotExists, got " + a.Class + " " + a.Err
			}
			return "PrepareArchiveCopy", ""
		case "F":
			if a.Class != "cannotcopydir" {
				return "PrepareArchiveCopy", desc + ": expected ErrCannotCopyDir, got " + a.Class + " " + a.Err
			}
			return "PrepareArchiveCopy", ""
		}
		if a.Err != "" {
			return "PrepareArchiveCopy", desc + ": unexpected error " + a.Err
		}
		if a.R2 != "" {
			return "PrepareArchiveCopy", desc + ": returned content unreadable: " + a.R2
		}
		dclean := cpLexClean(q.DstPath)
		wantDir, rename := dclean, false
		if row != "D" && row != "G" {
			wantDir, rename = cpDir(dclean), true
		}
		if cpLexClean(a.R1) != wantDir {
			return "PrepareArchiveCopy", desc + fmt.Sprintf(": dstDir = %q, expected %q", cpShortPath(a.R1), cpShortPath(wantDir))
		}
		old := cpLastSeg(q.SrcPath)
		if q.SrcRebase != "" {
			old = q.SrcRebase
		}
		nb := cpBase(dclean)
		if len(a.Entries) != len(q.Entries) {
			return "PrepareArchiveCopy", desc + fmt.Sprintf(": %d entries out for %d in", len(a.Entries), len(q.Entries))
		}
		for i, e := range q.Entries {
			wn, wl := e.Name, e.Link
			if rename {
				wn = nb + e.Name[len(old):]
				if e.Typ == tar.TypeLink {
					wl = nb + e.Link[len(old):]
				}
			}
			g := a.Entries[i]
			if g.Name != wn || g.Link != wl || g.Body != e.Body || g.Typ != e.Typ {
				return "PrepareArchiveCopy", desc + fmt.Sprintf(": entry %d = (%q -> %q, %d bytes), expected (%q -> %q, %d bytes)", i, cpShortPath(g.Name), cpShortPath(g.Link), len(g.Body), cpShortPath(wn), cpShortPath(wl), len(e.Body))
			}
		}
		return "PrepareArchiveCopy", ""
	}
	return "?", "unknown query"
}

// ---------------------------------------------------------------------------------------------
// the oracle on one executed cell
// ---------------------------------------------------------------------------------------------

func cpClassOK(want []string, got string) bool {
	for _, w := range want {
		if w == "any" || w == got {
			return true
		}
	}
	return false
}

// cpCanonOf: canonical location a returned CopyInfo path refers to (followLast as the kernel would for the suffix)
func cpCanonOf(f *cpFS, p string, follow bool) string {
	c, _, e, ok := f.walk(cpLexClean(p), follow || cpSufClass(p) != "")
	if e != "" && !(e == "ENOENT" && ok) {
		return "<unresolvable:" + e + ">"
	}
	return c
}

func cpOracle(res *Result, c *CopyCase, jr *JobResult) []Problem {
	var out cpJobOut
	var probs []Problem
	bad := func(clause, msg string, sig string) {
		probs = append(probs, Problem{Kind: "oracle", Stream: "copy", Case: c.text(), Impl: jr.Out + " " + truncate(jr.Err, 200),
			Msg: "C14 " + clause + " [" + c.Cell.String() + ", names " + c.NameMode + "]: " + msg, Sig: sig})
	}
	if jr.Out == "hang" {
		if c.Cell.DstState == "cycle" {
			bad("clause 4 (bounded destination symlink chase)", "CopyResource did not return: "+jr.Err, "")
		} else {
			bad("termination", "CopyResource did not return: "+jr.Err, "")
		}
		return probs
	}
	if jr.Out == "panic" {
		bad("no panic", jr.Err, "")
		return probs
	}
	if err := json.Unmarshal([]byte(jr.Extra), &out); err != nil {
		res.SetupError = "copy job output: " + err.Error()
		return nil
	}
	cell := c.Cell
	src, dst := c.Src+cell.SrcSuf, c.Dst+cell.DstSuf
	m := cpModel(out.Before, c.Src, cell.SrcSuf, c.Dst, cell.DstSuf, cell.Follow)
	f := cpNewFS(out.Before)
	res.count("row:" + m.row)
	if m.undefined != "" {
		res.count("gen-undefined")
		return nil
	}
	res.nontrivial(c.text())
	res.Compared++
	if !out.Probed {
		bad("building blocks are read-only", "CopyInfoSourcePath/ResolveHostSourcePath/CopyInfoDestinationPath changed the tree", "")
	}
	if out.Stray != "" {
		bad("clause 3 (surroundings)", "objects appeared outside /w: "+out.Stray, "")
	}
	for k, api := range []string{"TarResource", "TarResourceRebase"} {
		if out.TarAbsent[k] != "notexist" {
			bad("clause 1 (absent source is an error)", fmt.Sprintf("%s on a source path that does not exist: %s, want a not-exist error", api, out.TarAbsent[k]), "")
		}
	}
	unchanged := renderTree(out.Before) == renderTree(out.After)
	expectErr := len(m.errs) > 0

	// ---- clause 1/2/3 on CopyResource ----
	switch {
	case expectErr:
		res.count("clause1:error-expected")
		if out.CopyErr == "" {
			bad("clause 1 (impossible combination must fail)", fmt.Sprintf("row %s expects an error %v, the copy succeeded", m.row, m.errs), "")
		} else {
			res.count("errclass:" + out.CopyClass)
			if !cpClassOK(m.errs, out.CopyClass) {
				bad("clause 1 (documented error)", fmt.Sprintf("row %s expects error class %v, got %s (%s)", m.row, m.errs, out.CopyClass, truncate(out.CopyErr, 160)), "")
			}
		}
		if !unchanged {
			bad("clause 1 (a refused copy changes nothing)", "tree changed: "+cpFirstDiff(out.Before, out.After), "")
		}
		if cell.DstState == "cycle" {
			res.count("clause4:cycle-refused")
		}
	case out.CopyErr != "":
		isD15 := m.d15cell && unchanged && strings.Contains(out.CopyErr, "cannot overwrite non-directory")
		switch {
		case isD15:
			res.count("known:D15")
			bad("clause 2 (row J: contents into an existing directory, with or without trailing separator)",
				"copying "+cpShortPath(src)+" to "+cpShortPath(dst)+" (a link to an existing directory) fails: "+truncate(out.CopyErr, 160), "D15")
		case m.ambiguous && unchanged:
			res.count("ambiguous(dangling-link/ + dir source):refused")
		case c.Escape && cpOnlyLandingGone(out.Before, out.After, m.landing):
			// Outside the table: a link copied as a link keeps its text, and the extraction refuses a text that
			// leads out of the directory it extracts into (breakout protection).  Accepted: the refusal, with
			// nothing changed except that a non-directory that was to be overwritten may already be gone.
			if unchanged {
				res.count("outside-table(link text leaves the extraction dir):refused,unchanged")
			} else {
				res.count("outside-table(link text leaves the extraction dir):refused,overwritten-object-gone")
			}
		default:
			chg := ""
			if !unchanged {
				chg = "; tree changed: " + cpFirstDiff(out.Before, out.After)
			}
			bad("clause 1/2 (row "+m.row+" must succeed)", "unexpected error ["+out.CopyClass+"] "+truncate(out.CopyErr, 200)+chg, "")
		}
	default:
		res.count("clause2:landing-checked")
		if m.ambiguous {
			res.count("ambiguous(dangling-link/ + dir source):created")
		}
		if d := cpCompare(m.world, out.After); d != "" {
			clause := "clause 2 (lands at " + cpShortPath(m.landing) + ", row " + m.row + ")"
			bad(clause, d, "")
		} else {
			res.count("clause3:surroundings-equal")
		}
		if m.dst.firstLink {
			res.count("clause3:through-destination-link")
		}
	}

	// ---- building blocks on the same world ----
	// ResolveHostSourcePath / CopyInfoSourcePath
	if pc, pn, e, _ := f.walk(cpDir(c.Src), true); e == "" && pn != nil && pn.Kind == 'd' {
		if pc == "/" {
			pc = ""
		}
		self := pc + "/" + cpBase(c.Src)
		full, fn, fe, _ := f.walk(self, true)
		fullOK := fe == "" && fn != nil
		switch {
		case cell.SrcSuf == "" && !cell.Follow:
			res.count("block:ResolveHostSourcePath")
			if out.Res.Err != "" || out.Res.Path != self || out.Res.Rebase != "" {
				bad("ResolveHostSourcePath", fmt.Sprintf("(%q,false) = (%q,%q,%q), expected (%q,\"\",nil): only the parent is resolved", cpShortPath(src), cpShortPath(out.Res.Path), cpShort(out.Res.Rebase), out.Res.Err, cpShortPath(self)), "")
			}
		case !fullOK:
			res.count("block:ResolveHostSourcePath-err")
			if out.Res.Err == "" && cell.SrcSuf == "" {
				bad("ResolveHostSourcePath", fmt.Sprintf("(%q,true) on a missing/broken source returned %q without error", cpShortPath(src), cpShortPath(out.Res.Path)), "")
			}
		case cell.SrcSuf != "" && fn.Kind != 'd':
			// "file/": refused by CopyInfoSourcePath at one stage or another; nothing promised here
		default:
			res.count("block:ResolveHostSourcePath")
			wantP, wantR := cpExpectRebase(src, full)
			if out.Res.Err != "" || out.Res.Path != wantP || out.Res.Rebase != wantR {
				bad("ResolveHostSourcePath", fmt.Sprintf("(%q,%v) = (%q,%q,%q), expected (%q,%q,nil)", cpShortPath(src), cell.Follow, cpShortPath(out.Res.Path), cpShort(out.Res.Rebase), out.Res.Err, cpShortPath(wantP), cpShort(wantR)), "")
			}
		}
	}
	if len(m.src.errs) > 0 {
		res.count("block:CopyInfoSourcePath-err")
		if out.Src.Err == "" {
			bad("CopyInfoSourcePath", fmt.Sprintf("(%q,%v) must fail %v, returned %+v", cpShortPath(src), cell.Follow, m.src.errs, out.Src), "")
		} else if !cpClassOK(m.src.errs, out.Src.Class) {
			bad("CopyInfoSourcePath", fmt.Sprintf("(%q,%v) must fail with %v, got %s (%s)", cpShortPath(src), cell.Follow, m.src.errs, out.Src.Class, truncate(out.Src.Err, 120)), "")
		}
	} else {
		res.count("block:CopyInfoSourcePath")
		wantR := ""
		if cell.SrcSuf != "/." && m.src.name != cpBase(m.src.root) {
			wantR = m.src.name
		}
		got := out.Src
		if got.Err != "" || !got.Exists || got.IsDir != m.src.isDir || got.Rebase != wantR ||
			cpLexClean(got.Path) != m.src.root || cpSufClass(got.Path) != cell.SrcSuf {
			bad("CopyInfoSourcePath", fmt.Sprintf("(%q,%v) = %+v, expected Path %q%s Exists IsDir=%v RebaseName=%q", cpShortPath(src), cell.Follow, got, cpShortPath(m.src.root), cell.SrcSuf, m.src.isDir, cpShort(wantR)), "")
		}
	}
	// CopyInfoDestinationPath
	d := m.dst
	// "link/" where the link leads nowhere: reported as absent either under its own name or under the target's
	// (or refused when the target's parent is missing) - see the note on the ambiguous cell in cpModel
	dAmbiguous := d.firstLink && !d.exists && cell.DstSuf == "/" && c.Cell.DstState != "cycle"
	switch {
	case dAmbiguous:
		res.count("block:CopyInfoDestinationPath-ambiguous")
		if out.Dst.Err == "" && out.Dst.Exists {
			bad("CopyInfoDestinationPath", fmt.Sprintf("(%q) reports an existing object for a dangling link: %+v", cpShortPath(dst), out.Dst), "")
		}
	case len(d.errs) > 0:
		res.count("block:CopyInfoDestinationPath-err")
		if out.Dst.Err == "" {
			bad("CopyInfoDestinationPath", fmt.Sprintf("(%q) must fail %v, returned %+v", cpShortPath(dst), d.errs, out.Dst), "")
		} else if !cpClassOK(d.errs, out.Dst.Class) {
			bad("CopyInfoDestinationPath", fmt.Sprintf("(%q) must fail with %v, got %s (%s)", cpShortPath(dst), d.errs, out.Dst.Class, truncate(out.Dst.Err, 120)), "")
		}
	default:
		res.count("block:CopyInfoDestinationPath")
		got := out.Dst
		where := cpCanonOf(f, got.Path, true)
		if got.Err != "" || got.Exists != d.exists || (d.exists && got.IsDir != d.isDir) || where != d.path {
			bad("CopyInfoDestinationPath", fmt.Sprintf("(%q) = %+v (refers to %q), expected Exists=%v IsDir=%v at %q", cpShortPath(dst), got, cpShortPath(where), d.exists, d.isDir, cpShortPath(d.path)), "")
		}
	}
	return probs
}

// cpOnlyLandingGone: after equals before, or before without the non-directory at landing.
func cpOnlyLandingGone(before, after []Node, landing string) bool {
	if renderTree(before) == renderTree(after) {
		return true
	}
	exp := map[string]*cpExpNode{}
	for i := range before {
		exp[before[i].Path] = &cpExpNode{Node: before[i]}
	}
	l := exp[landing]
	if l == nil || l.Kind == 'd' {
		return false
	}
	delete(exp, landing)
	if p := exp[cpDir(landing)]; p != nil {
		p.looseMtime = true
	}
	return cpCompare(exp, after) == ""
}

func cpFirstDiff(before, after []Node) string {
	bm := map[string]Node{}
	for _, n := range before {
		bm[n.Path] = n
	}
	am := map[string]Node{}
	for _, n := range after {
		am[n.Path] = n
	}
	var keys []string
	for k := range bm {
		keys = append(keys, k)
	}
	for k := range am {
		if _, ok := bm[k]; !ok {
			keys = append(keys, k)
		}
	}
	sort.Strings(keys)
	for _, k := range keys {
		b, okb := bm[k]
		a, oka := am[k]
		switch {
		case !okb:
			return "created " + cpShortPath(k)
		case !oka:
			return "removed " + cpShortPath(k)
		case strings.Join(a.fields(), " ") != strings.Join(b.fields(), " "):
			return "modified " + cpShortPath(k)
		}
	}
	return "(no difference found)"
}

// ---------------------------------------------------------------------------------------------
// runner
// ---------------------------------------------------------------------------------------------

func runCopy(cfg *Config) *Result {
	res := newResult("every cell of source kind {file,dir,link->file,link->dir,absent,dangling link} x followLink x source suffix {'','/','/.'} x " +
		"destination state {absent,file,dir empty/non-empty,link->file,link->dir empty/non-empty,dangling link (parent present/missing),link chain of 2-3 hops with a relative hop in another directory ->file/dir/absent,missing parent,parent is a file,cyclic link} x destination suffix, " +
		"each with PRNG-chosen base names (long 200+, prefix-sharing, one containing the other, equal to the link target's base, containing/equal to the parent's name, dotted) and contents; thorough repeats the table with fresh names; " +
		"plus the string building blocks on generated paths and PrepareArchiveCopy on all 16 boolean combinations. non-trivial = the model defines the cell's outcome; distinct by full case text")
	rng := newRng(cfg.Seed)

	if cfg.Replay != "" {
		txt, err := replayCaseString(cfg.Replay)
		if err != nil {
			res.SetupError = err.Error()
			return res
		}
		if strings.HasPrefix(txt, "str:") {
			var q cpStrQuery
			if err := json.Unmarshal([]byte(txt[4:]), &q); err != nil {
				res.SetupError = err.Error()
				return res
			}
			cpRunStr(cfg, res, []cpStrQuery{q})
			return res
		}
		var c CopyCase
		if err := json.Unmarshal([]byte(txt), &c); err != nil {
			res.SetupError = err.Error()
			return res
		}
		cpRunCases(cfg, res, []*CopyCase{&c})
		return res
	}

	// full rounds enumerate the whole table; extra rounds repeat (completely) the part of the table whose
	// source is acceptable, i.e. where the outcome depends on the names and on the destination
	rounds, extra := 2, 4
	if cfg.thorough() {
		rounds, extra = 10, 40
	}
	cells := cpAllCells()
	var cases []*CopyCase
	for round := 0; round < rounds+extra; round++ {
		for _, cell := range cells {
			if round >= rounds && !cpSourceAcceptable(cell) {
				continue
			}
			c := cpBuildCase(rng, cell)
			if c == nil {
				res.count("gen-skip")
				continue
			}
			cases = append(cases, c)
		}
	}
	if cfg.N > 0 && cfg.N < len(cases) {
		// a reduced run keeps a PRNG-chosen subset (the table is then not complete; for iteration only)
		for i := len(cases) - 1; i > 0; i-- {
			j := rng.intn(i + 1)
			cases[i], cases[j] = cases[j], cases[i]
		}
		cases = cases[:cfg.N]
		res.Notes = append(res.Notes, "reduced run (--n): the table is NOT complete")
	} else {
		res.Notes = append(res.Notes, fmt.Sprintf("table complete: %d cells x %d round(s), plus %d round(s) over the cells with an acceptable source", len(cells), rounds, extra))
	}
	cpRunCases(cfg, res, cases)
	if res.SetupError != "" {
		return res
	}
	cpRunStr(cfg, res, cpGenStrQueries(rng, cfg.count(400, 4000)))
	return res
}

func cpRunCases(cfg *Config, res *Result, cases []*CopyCase) {
	jobs := make([]Job, len(cases))
	for i, c := range cases {
		fl := "0"
		if c.Cell.Follow {
			fl = "1"
		}
		jobs[i] = Job{ID: i, Kind: "copy", Args: []string{c.Src + c.Cell.SrcSuf, c.Dst + c.Cell.DstSuf, fl}, Nodes: c.Nodes}
	}
	results := runArena(cfg, jobs, 10*time.Second)
	var known []Problem
	for i, c := range cases {
		jr := results[i]
		res.Evaluations++
		res.count("src:" + c.Cell.SrcKind)
		res.count("srcsuf:'" + c.Cell.SrcSuf + "'")
		res.count("dst:" + c.Cell.DstState)
		res.count("dstsuf:'" + c.Cell.DstSuf + "'")
		res.count("names:" + strings.TrimSuffix(c.NameMode, "+samedir"))
		if strings.HasSuffix(c.NameMode, "+samedir") {
			res.count("names:+samedir")
		}
		if strings.Contains(c.Src, "/LA/") {
			res.count("via:source-parent-link")
		}
		if strings.Contains(c.Dst, "/LB/") {
			res.count("via:destination-parent-link")
		}
		if c.Escape {
			res.count("via:escaping-link-text")
		}
		if c.Src != cpLexClean(c.Src) || c.Dst != cpLexClean(c.Dst) {
			res.count("via:uncleaned-typed-path")
		}
		res.count("impl:" + jr.Out)
		if jr.Out == "setup" || jr.ID < 0 {
			res.SetupError = fmt.Sprintf("case %d (%s): %s", i, c.Cell.String(), jr.Err)
			return
		}
		for _, p := range cpOracle(res, c, &jr) {
			if p.Sig != "" {
				known = append(known, p)
			} else {
				res.problem(p)
			}
		}
		if res.SetupError != "" {
			return
		}
		if i%977 == 0 {
			res.sample(c.Cell.String() + " names=" + c.NameMode + " src=" + cpShortPath(c.Src) + " dst=" + cpShortPath(c.Dst) + " => " + jr.Out + " " + truncate(jr.Err, 80))
		}
	}
	// one representative per known finding, so that they cannot crowd out anything else
	seen := map[string]bool{}
	for _, p := range known {
		if !seen[p.Sig] {
			seen[p.Sig] = true
			res.problem(p)
		}
	}
}

func cpRunStr(cfg *Config, res *Result, qs []cpStrQuery) {
	if len(qs) == 0 {
		return
	}
	const per = 400
	var jobs []Job
	for lo := 0; lo < len(qs); lo += per {
		hi := lo + per
		if hi > len(qs) {
			hi = len(qs)
		}
		b, _ := json.Marshal(qs[lo:hi])
		jobs = append(jobs, Job{ID: len(jobs), Kind: "copystr", Archive: b})
	}
	results := runArena(cfg, jobs, 60*time.Second)
	for ji, jr := range results {
		if jr.Out != "ok" {
			if jr.Out == "panic" || jr.Out == "hang" {
				res.problem(Problem{Kind: "oracle", Stream: "copy", Case: "str-batch", Msg: "C14 building blocks: " + jr.Out + " " + jr.Err})
				continue
			}
			res.SetupError = "copystr job: " + jr.Err
			return
		}
		var ans []cpStrAnswer
		if err := json.Unmarshal([]byte(jr.Extra), &ans); err != nil {
			res.SetupError = "copystr output: " + err.Error()
			return
		}
		for k, a := range ans {
			q := qs[ji*per+k]
			res.Evaluations++
			res.Compared++
			clause, msg := cpCheckStr(q, a)
			key := "block:" + clause
			if q.Fn == "prepare" {
				key += ":row" + cpTableAction(q.SrcIsDir, false, q.DstExists, q.DstExists && q.DstIsDir, cpEndsSep(q.DstPath))
			}
			res.count(key)
			qb, _ := json.Marshal(q)
			res.nontrivial(string(qb))
			if msg != "" {
				res.problem(Problem{Kind: "oracle", Stream: "copy", Case: "str:" + string(qb), Msg: "C14 building block " + msg})
			}
		}
	}
}
