package main

import (
	"archive/tar"
	"bytes"
	"crypto/sha256"
	"encoding/json"
	"fmt"
	"io"
	"os"
	"path/filepath"
	"runtime"
	"sort"
	"strconv"
	"strings"
	"sync"
	"time"

	"github.com/containerd/log"
	archive "github.com/moby/go-archive"
	"golang.org/x/sys/unix"
)

// Job kind "race" (property C18): runs inside the arena child.
// Args: [seed, K, procs].  All inputs are regenerated from the seed, so the case text is tiny.
// For each of the K generated operations the job computes the result SOLO (one at a time), then
// rebuilds every input and runs all K operations concurrently (one or more rounds), and compares
// each operation's concurrent result with its solo result.  Race-detector reports (GORACE log_path
// points into the arena's /tmp) are collected after every phase.

func init() {
	jobKinds["race"] = runRaceJob
}

const raceLogPath = "/tmp/racelog"

// raceOut is the canonical result of one operation: ordered (field, value) pairs; big values are
// hashed, with the readable lines kept aside to explain a difference.
type raceField struct {
	name  string
	val   string
	lines []string
}
type raceOut struct{ fields []raceField }

func (o *raceOut) set(name, val string) { o.fields = append(o.fields, raceField{name: name, val: val}) }
func (o *raceOut) errv(name string, err error) {
	if err != nil {
		o.fields = append(o.fields, raceField{name: name, val: "err", lines: []string{truncate(err.Error(), 200)}})
	} else {
		o.set(name, "nil")
	}
}
func raceHash(b []byte) string {
	h := sha256.Sum256(b)
	return fmt.Sprintf("%d:%x", len(b), h[:8])
}
func (o *raceOut) bytes(name string, b []byte) { o.set(name, raceHash(b)) }
func (o *raceOut) list(name string, lines []string) {
	o.fields = append(o.fields, raceField{name: name, val: raceHash([]byte(strings.Join(lines, "\n"))), lines: lines})
}
func (o *raceOut) get(name string) string {
	for _, f := range o.fields {
		if f.name == name {
			return f.val
		}
	}
	return ""
}
func (o *raceOut) summary() string {
	var p []string
	for _, f := range o.fields {
		p = append(p, f.name+"="+f.val)
	}
	return strings.Join(p, " ")
}

// raceDiff explains the first difference between a solo and a concurrent result ("" = equal).
// Error texts (lines of an "err" field) are never compared.
func raceDiff(solo, conc *raceOut) string {
	if len(solo.fields) != len(conc.fields) {
		return fmt.Sprintf("result shape: solo{%s} concurrent{%s}", solo.summary(), conc.summary())
	}
	for i, a := range solo.fields {
		b := conc.fields[i]
		if a.name != b.name {
			return fmt.Sprintf("result shape: solo{%s} concurrent{%s}", solo.summary(), conc.summary())
		}
		if a.val == b.val {
			continue
		}
		d := fmt.Sprintf("%s: solo=%s concurrent=%s", a.name, a.val, b.val)
		if a.val != "err" && b.val != "err" && (len(a.lines) > 0 || len(b.lines) > 0) {
			for j := 0; j < len(a.lines) || j < len(b.lines); j++ {
				var x, y string
				if j < len(a.lines) {
					x = a.lines[j]
				}
				if j < len(b.lines) {
					y = b.lines[j]
				}
				if x != y {
					d += fmt.Sprintf("; first differing line %d: solo[%s] concurrent[%s]", j, truncate(x, 160), truncate(y, 160))
					break
				}
			}
		} else if b.val == "err" && len(b.lines) > 0 {
			d += " (" + b.lines[0] + ")"
		} else if a.val == "err" && len(a.lines) > 0 {
			d += " (solo: " + a.lines[0] + ")"
		}
		return d
	}
	return ""
}

// raceOp is one generated operation.  run may be called any number of times; each call works on
// freshly built inputs (nodes under dir) and on private readers over immutable byte slices.
type raceOp struct {
	idx    int
	kind   string
	dir    string
	nodes  []Node
	desc   string
	expect string // optional absolute expectation on summary()
	run    func(o *raceOut)
}

type raceProblem struct {
	Op   int    `json:"op"`
	Kind string `json:"kind"`
	What string `json:"what"` // differs | panic | race | expect | stray
	Msg  string `json:"msg"`
}

type raceReport struct {
	Kinds    []string       `json:"kinds"`
	Canon    string         `json:"canon"`
	Counters map[string]int `json:"counters"`
	Problems []raceProblem  `json:"problems"`
	RaceOn   bool           `json:"race_on"`
	Rounds   int            `json:"rounds"`
	SoloMs   int64          `json:"solo_ms"`
	ConcMs   int64          `json:"conc_ms"`
	Sample   string         `json:"sample"`
}

// state that lives as long as the arena child process
var (
	raceLogOffsets = map[string]int64{}
	raceSince      int64
	raceRootIno    uint64

	raceFirstRootIno uint64
)

var raceLogOpened bool

// raceLogWarmup makes the race runtime open its log file now, from the arena's own root, by
// committing one deliberate data race in harness code.  The runtime opens log_path lazily at the
// first report and keeps the descriptor; a first report raised on a chrooted thread (inside a
// jail that has no /tmp) could not open it and would kill the process instead.
func raceLogWarmup() {
	if !raceDetector || raceLogOpened {
		return
	}
	raceLogOpened = true
	x := 0
	var wg sync.WaitGroup
	wg.Add(2)
	for i := 0; i < 2; i++ {
		go func() {
			defer wg.Done()
			x++ // unsynchronised on purpose
		}()
	}
	wg.Wait()
	_ = x
}

// raceCollectLog returns the race-detector text written since the last call.  The log files stay
// in place (the runtime keeps its descriptor open); only the consumed offset is remembered.
func raceCollectLog() string {
	files, _ := filepath.Glob(raceLogPath + ".*")
	sort.Strings(files)
	var out strings.Builder
	for _, f := range files {
		b, err := os.ReadFile(f)
		if err != nil {
			continue
		}
		off := raceLogOffsets[f]
		if int64(len(b)) > off {
			out.Write(b[off:])
			raceLogOffsets[f] = int64(len(b))
		}
	}
	return out.String()
}

// raceSummariseLog extracts, per report, the access lines and the first function names under them.
func raceSummariseLog(text string) []string {
	var reports []string
	for _, rep := range strings.Split(text, "==================") {
		if !strings.Contains(rep, "DATA RACE") && !strings.Contains(rep, "WARNING:") && !strings.Contains(rep, "fatal error") {
			continue
		}
		if strings.Contains(rep, "raceLogWarmup") {
			continue
		}
		lines := strings.Split(rep, "\n")
		var parts []string
		for i := 0; i < len(lines); i++ {
			l := strings.TrimSpace(lines[i])
			if l == "" {
				continue
			}
			isHead := strings.HasPrefix(l, "WARNING:") || strings.HasPrefix(l, "Read at") || strings.HasPrefix(l, "Write at") ||
				strings.HasPrefix(l, "Previous ") || strings.HasPrefix(l, "Atomic ") || strings.HasPrefix(l, "fatal error")
			if !isHead {
				continue
			}
			hd := l
			if j := strings.Index(hd, " at 0x"); j >= 0 {
				k := strings.Index(hd, " by ")
				if k > j {
					hd = hd[:j] + hd[k:]
				}
			}
			var fns []string
			if strings.HasPrefix(l, "WARNING:") || strings.HasPrefix(l, "fatal error") {
				parts = append(parts, hd)
				continue
			}
			for j := i + 1; j < len(lines) && len(fns) < 4; j++ {
				f := lines[j]
				if strings.TrimSpace(f) == "" {
					break
				}
				if strings.HasPrefix(f, "  ") && !strings.HasPrefix(f, "      ") {
					fns = append(fns, strings.TrimSpace(f))
				}
			}
			parts = append(parts, hd+" "+strings.Join(fns, " < "))
		}
		if len(parts) > 0 {
			reports = append(reports, truncate(strings.Join(parts, " | "), 900))
		}
	}
	return reports
}

// raceTree renders everything under dir (dir itself excluded), paths relative to dir; file
// contents are hashed; a modification time that was set "now" (>= start of the job) is "*".
func raceTree(dir string) ([]string, error) {
	nodes, err := scanWorld(dir)
	if err != nil {
		return nil, err
	}
	var out []string
	for _, n := range nodes {
		mt := strconv.FormatInt(n.Mtime, 10)
		if n.Mtime >= raceSince {
			mt = "*"
		}
		data := "-"
		if n.Kind == 'r' {
			data = raceHash([]byte(n.Data))
		}
		out = append(out, fmt.Sprintf("%s %c %o %d:%d mt=%s data=%s ->%q dev=%d,%d grp=%d cap=%x",
			strings.TrimPrefix(n.Path, dir), n.Kind, n.Perm, n.Uid, n.Gid, mt, data, n.Target, n.Maj, n.Min, n.Group, n.Cap))
	}
	return out, nil
}

func (o *raceOut) tree(name, dir string) {
	lines, err := raceTree(dir)
	if err != nil {
		o.set(name, "scan-error")
		return
	}
	o.list(name, lines)
}

func raceBuild(op *raceOp) error {
	if err := os.RemoveAll(op.dir); err != nil {
		return err
	}
	if err := os.MkdirAll(op.dir, 0o755); err != nil {
		return err
	}
	if len(op.nodes) > 0 {
		if err := buildWorld(op.nodes); err != nil {
			return err
		}
	}
	ts := []unix.Timespec{{Sec: 1000}, {Sec: 1000}}
	return unix.UtimesNanoAt(unix.AT_FDCWD, op.dir, ts, 0)
}

func raceRunOp(op *raceOp) (out *raceOut) {
	out = &raceOut{}
	defer func() {
		if r := recover(); r != nil {
			out.set("panic", truncate(fmt.Sprint(r), 300))
		}
	}()
	op.run(out)
	return out
}

// raceStray lists (and removes) what appeared in the arena's / or /tmp, race logs excepted.
func raceStray() string {
	var out []string
	for _, d := range []string{"/", "/tmp"} {
		ents, _ := os.ReadDir(d)
		for _, e := range ents {
			if d == "/" && arenaBaseline[e.Name()] {
				continue
			}
			if d == "/tmp" && strings.HasPrefix(e.Name(), filepath.Base(raceLogPath)+".") {
				continue
			}
			p := filepath.Join(d, e.Name())
			out = append(out, p)
			_ = os.RemoveAll(p)
		}
	}
	sort.Strings(out)
	return strings.Join(out, ",")
}

func runRaceJob(j *Job, res *JobResult) {
	if len(j.Args) < 3 {
		res.Out, res.Err = "setup", "race job needs seed, k, procs"
		return
	}
	seed, _ := strconv.ParseUint(j.Args[0], 10, 64)
	k, _ := strconv.Atoi(j.Args[1])
	procs, _ := strconv.Atoi(j.Args[2])
	if k < 1 || procs < 1 {
		res.Out, res.Err = "setup", "bad race job arguments"
		return
	}
	log.L.Logger.SetOutput(io.Discard)
	unix.Umask(0o022)
	// The arena child runs many jobs.  If an earlier job's operation changed the root or working
	// directory of the whole process, nothing can be set up any more: that is a finding about the
	// library (a chrooted operation leaked out of its thread), not about the environment.
	var st0 unix.Stat_t
	if err := unix.Stat("/", &st0); err == nil {
		if raceFirstRootIno == 0 {
			raceFirstRootIno = st0.Ino
		} else if st0.Ino != raceFirstRootIno {
			rep := &raceReport{Counters: map[string]int{}, RaceOn: raceDetector, Problems: []raceProblem{{Op: -1, What: "expect",
				Msg: "the root directory of the process is no longer the arena root: a chrooted operation of an earlier mix in this process changed process-wide state"}}}
			b, _ := json.Marshal(rep)
			res.Extra, res.Out = string(b), "ok"
			return
		}
	}
	if err := resetWorld(); err != nil {
		res.Out, res.Err = "setup", err.Error()
		return
	}
	_ = raceStray()
	raceLogWarmup()
	_ = raceCollectLog() // anything older belongs to an earlier job
	raceSince = time.Now().Unix() - 2
	var st unix.Stat_t
	_ = unix.Stat("/", &st)
	raceRootIno = st.Ino

	rep := &raceReport{Counters: map[string]int{}, RaceOn: raceDetector}
	r := newRng(seed)
	// one third of the cases use Go's gzip reader instead of the unpigz helper
	noPigz := r.chance(1, 3)
	if noPigz {
		os.Setenv("MOBY_DISABLE_PIGZ", "1")
		rep.Counters["gzip-reader:go"]++
	} else {
		os.Unsetenv("MOBY_DISABLE_PIGZ")
		rep.Counters["gzip-reader:unpigz"]++
	}
	defer os.Unsetenv("MOBY_DISABLE_PIGZ")
	prev := runtime.GOMAXPROCS(procs)
	defer runtime.GOMAXPROCS(prev)

	g := &raceGen{r: r, cnt: rep.Counters, tag: fmt.Sprintf("q%d", seed%1000003)}
	ops, err := g.genOps(k)
	if err != nil {
		res.Out, res.Err = "setup", "generate: "+err.Error()
		return
	}
	var canon []string
	for _, op := range ops {
		rep.Kinds = append(rep.Kinds, op.kind)
		canon = append(canon, op.kind+"("+op.desc+")")
	}
	rep.Canon = strings.Join(canon, ";")
	addRace := func(phase string) {
		for _, s := range raceSummariseLog(raceCollectLog()) {
			if len(rep.Problems) < 8 {
				rep.Problems = append(rep.Problems, raceProblem{Op: -1, What: "race", Msg: "race detector (" + phase + "): " + s})
			}
		}
	}

	// A set-up step that fails after operations have run in this job is the environment's fault only
	// if the process still has the arena root as its root directory.
	setupFail := func(msg string) {
		var st unix.Stat_t
		if err := unix.Stat("/", &st); err != nil || st.Ino != raceRootIno {
			rep.Problems = append(rep.Problems, raceProblem{Op: -1, What: "expect",
				Msg: "the root directory of the process changed while the mix ran (a chrooted operation leaked out of its thread); then: " + msg})
			b, _ := json.Marshal(rep)
			res.Extra, res.Out = string(b), "ok"
			return
		}
		res.Out, res.Err = "setup", msg
	}

	// runRound rebuilds every input, runs all operations at once and returns their results.
	var concMs int64
	runRound := func(round int, label string) ([]*raceOut, bool) {
		t := time.Now()
		defer func() { concMs += time.Since(t).Milliseconds() }()
		for i, op := range ops {
			if err := raceBuild(op); err != nil {
				setupFail(fmt.Sprintf("rebuild op %d (%s): %v", i, op.kind, err))
				return nil, false
			}
		}
		conc := make([]*raceOut, len(ops))
		start := make(chan struct{})
		var wg sync.WaitGroup
		// launch order rotates by round so that different operations get the head start
		for n := range ops {
			i := (n*7 + round*3) % len(ops)
			if len(ops)%7 == 0 {
				i = (n + round) % len(ops)
			}
			wg.Add(1)
			go func(i int) {
				defer wg.Done()
				<-start
				conc[i] = raceRunOp(ops[i])
			}(i)
		}
		close(start)
		wg.Wait()
		for _, op := range ops {
			_ = os.RemoveAll(op.dir)
		}
		if s := raceStray(); s != "" {
			rep.Problems = append(rep.Problems, raceProblem{Op: -1, What: "stray", Msg: label + " concurrent round left objects outside the operations' directories: " + s})
		}
		addRace(fmt.Sprintf("%s concurrent round, K=%d GOMAXPROCS=%d", label, k, procs))
		return conc, true
	}
	reported := map[int]bool{}
	var solo []*raceOut
	compare := func(conc []*raceOut, round int, label string) {
		for i, op := range ops {
			if conc[i] == nil || reported[i] {
				continue
			}
			if d := raceDiff(solo[i], conc[i]); d != "" {
				reported[i] = true
				rep.Problems = append(rep.Problems, raceProblem{Op: i, Kind: op.kind, What: "differs",
					Msg: fmt.Sprintf("op %d %s(%s) in a mix of %d (GOMAXPROCS=%d, %s round %d) differs from its solo result: %s", i, op.kind, truncate(op.desc, 100), k, procs, label, round, d)})
			}
		}
	}

	// ---- cold concurrent round: the mix runs before any of its operations has run alone, so that
	// state which is initialised lazily on first use is first used concurrently ----
	cold, ok := runRound(0, "cold")
	if !ok {
		return
	}

	// ---- solo ----
	t0 := time.Now()
	solo = make([]*raceOut, len(ops))
	for i, op := range ops {
		if err := raceBuild(op); err != nil {
			setupFail(fmt.Sprintf("build op %d (%s): %v", i, op.kind, err))
			return
		}
		solo[i] = raceRunOp(op)
		_ = os.RemoveAll(op.dir)
		if p := solo[i].get("panic"); p != "" {
			rep.Problems = append(rep.Problems, raceProblem{Op: i, Kind: op.kind, What: "panic", Msg: "operation panics when run alone: " + p})
		}
		if op.expect != "" && solo[i].summary() != op.expect {
			rep.Problems = append(rep.Problems, raceProblem{Op: i, Kind: op.kind, What: "expect",
				Msg: fmt.Sprintf("process state seen by a solo operation: got {%s} want {%s}", solo[i].summary(), op.expect)})
		}
		if e := solo[i].get("err"); e != "" {
			rep.Counters["solo-"+e+":"+op.kind]++
			if e == "err" && os.Getenv("RACE_DEBUG") != "" {
				for _, f := range solo[i].fields {
					if f.name == "err" && len(f.lines) > 0 {
						rep.Counters["errtext:"+op.kind+":"+truncate(f.lines[0], 70)]++
					}
				}
			}
		}
	}
	rep.SoloMs = time.Since(t0).Milliseconds()
	if s := raceStray(); s != "" {
		rep.Problems = append(rep.Problems, raceProblem{Op: -1, What: "stray", Msg: "solo phase left objects outside the operations' directories: " + s})
	}
	addRace("solo phase")
	// the buffer pool after a copy that failed half way: every buffer must be in the pool at most once
	if msg := racePoolProbe(); msg != "" {
		rep.Problems = append(rep.Problems, raceProblem{Op: -1, What: "pool", Msg: msg})
	}
	rep.Counters["pool-probe"]++
	if len(ops) > 0 {
		rep.Sample = fmt.Sprintf("%s(%s) => %s", ops[0].kind, truncate(ops[0].desc, 120), truncate(solo[0].summary(), 200))
	}

	compare(cold, 0, "cold")

	// ---- warm concurrent rounds ----
	rounds := 2
	if k <= 2 {
		rounds = 4
	}
	rep.Rounds = rounds
	for round := 1; round < rounds; round++ {
		conc, ok := runRound(round, "warm")
		if !ok {
			return
		}
		compare(conc, round, "warm")
	}
	rep.ConcMs = concMs
	if len(rep.Problems) > 12 {
		rep.Problems = rep.Problems[:12]
	}
	b, _ := json.Marshal(rep)
	res.Extra = string(b)
	res.Out = "ok"
}

// racePoolProbe provokes one failing buffered copy (an archive truncated inside a file body, extracted
// into a scratch directory), then drains the copy-buffer pool through the verif hook: a buffer that comes
// out twice was put back twice, and two later operations would share it.
func racePoolProbe() string {
	var buf bytes.Buffer
	tw := tar.NewWriter(&buf)
	body := bytes.Repeat([]byte("p"), 100<<10)
	_ = tw.WriteHeader(&tar.Header{Name: "f", Typeflag: tar.TypeReg, Mode: 0o644, Size: int64(len(body))})
	_, _ = tw.Write(body)
	_ = tw.Close()
	cut := buf.Bytes()[:512+40<<10]
	dir, err := os.MkdirTemp("/", "poolprobe")
	if err != nil {
		return ""
	}
	defer os.RemoveAll(dir)
	uerr := archive.Untar(bytes.NewReader(cut), dir, &archive.TarOptions{NoLchown: true})
	if uerr == nil {
		return "extraction of an archive cut inside a file body reported success"
	}
	if archive.VerifCopyPoolProbe(1024) {
		return "after an extraction that failed inside a file body (" + truncate(uerr.Error(), 80) + ") the copy-buffer pool hands out the same buffer twice: it was put back twice, so two later operations can be given one buffer"
	}
	return ""
}
