package main

// oraclePack: independent oracles on real produced archives (filled in by the tar/canary streams).
func oraclePack(c *PackCase, jr *JobResult) []Problem { return nil }
