package main

import (
	"archive/tar"
	"bytes"
	"crypto/sha256"
	"encoding/hex"
	"fmt"
	"hash/fnv"
	"io"
	"os"
	"path"
	"path/filepath"
	"sort"
	"strings"

	"github.com/moby/patternmatcher"
	"golang.org/x/sys/unix"
)

// Independent oracles on the archives the REAL producer code wrote (TarWithOptions / chrootarchive.Tar):
//
//	C09  canonical, self-consistent, reproducible stream (clauses a..h below)
//	C08  selection = fresh per-chain evaluation of the patterns over the source tree (set and multiplicity)
//	C07  chrooted tar: every name/attribute/body stems from the inside-only view of the root
//
// Nothing here looks at the Lean model's answer. The reference is a small kernel-style resolver over c.Nodes
// (symlinks, "..", trailing slashes, jail root) plus a top-down recursive walk that evaluates the patterns
// afresh for every path (no incremental ancestor stack).

// packOracleStats: per-clause distribution, merged into the Result by runPack.
var pkDebug = os.Getenv("PK_DEBUG") != ""

var packOracleStats = map[string]int{}

func pkCount(k string) { packOracleStats[k]++ }

func pkProb(format string, a ...interface{}) Problem {
	return Problem{Kind: "oracle", Stream: "pack", Msg: truncate(fmt.Sprintf(format, a...), 700)}
}

// pkSigOwner: a known-finding signature is only reported by the stream whose property owns it (the check
// script filters known findings by property); elsewhere it is counted and dropped.
func pkSigReportable(family, sig string) bool {
	switch sig {
	case "D13", "D19", "D21": // C08
		return family == "select"
	case "D14", "D20", "D22": // C09
		return family == "mixed"
	}
	return true
}

// ---------------------------------------------------------------- view of the world + path resolution

type pkView struct {
	nodes    map[string]*Node    // view path ("/" = view root) -> object
	kids     map[string][]string // directory -> sorted child names
	implicit map[string]bool     // directories the case does not describe (attributes unknown)
	open     bool                // plain mode: the real "/" holds more than the case describes
	unknown  bool                // a resolution touched something the case does not describe
	followed int                 // symlinks followed by the last resolve (distribution only)
	absolute bool                // ... one of them absolute
}

// pkBuildView: plain tar sees the whole world; chrooted tar sees only what lies under c.Root, with the root as "/".
// Returns nil when the root cannot become a jail (missing or not a directory).
func pkBuildView(c *PackCase) *pkView {
	v := &pkView{nodes: map[string]*Node{}, kids: map[string][]string{}, implicit: map[string]bool{}}
	if c.Op == "tar-chroot" {
		root := filepath.Clean(c.Root)
		var rn *Node
		for i := range c.Nodes {
			if c.Nodes[i].Path == root {
				rn = &c.Nodes[i]
			}
		}
		if rn == nil || rn.Kind != 'd' {
			return nil
		}
		v.nodes["/"] = rn
		for i := range c.Nodes {
			n := &c.Nodes[i]
			if strings.HasPrefix(n.Path, root+"/") {
				v.nodes[n.Path[len(root):]] = n
			}
		}
	} else {
		v.open = true
		v.nodes["/"] = &Node{Path: "/", Kind: 'd'}
		v.implicit["/"] = true
		for i := range c.Nodes {
			n := &c.Nodes[i]
			v.nodes[filepath.Clean(n.Path)] = n
		}
	}
	var ps []string
	for p := range v.nodes {
		ps = append(ps, p)
	}
	for _, p := range ps {
		for d := path.Dir(p); d != "/" && d != "."; d = path.Dir(d) {
			if _, ok := v.nodes[d]; !ok {
				v.nodes[d] = &Node{Path: d, Kind: 'd'}
				v.implicit[d] = true
			}
		}
	}
	for p := range v.nodes {
		if p != "/" {
			d := path.Dir(p)
			v.kids[d] = append(v.kids[d], path.Base(p))
		}
	}
	for d := range v.kids {
		sort.Strings(v.kids[d])
	}
	return v
}

const (
	pkOK = iota
	pkENOENT
	pkENOTDIR
	pkELOOP
)

// resolve walks p like the kernel does inside the view: every component but the last follows symlinks, the last
// one only when followLast or when something (a slash, ".") comes after it; absolute link targets restart at the
// view root; ".." at the root stays at the root. Relative paths start at "/" (cwd of the arena and of the jail).
func (v *pkView) resolve(p string, followLast bool) (string, *Node, int) {
	if p == "" {
		return "", nil, pkENOENT
	}
	cur := "/"
	rest := strings.Split(p, "/")
	links := 0
	v.followed, v.absolute = 0, false
	defer func() { v.followed = links }()
	for len(rest) > 0 {
		comp := rest[0]
		rest = rest[1:]
		cn := v.nodes[cur]
		if cn == nil || cn.Kind != 'd' {
			return "", nil, pkENOTDIR
		}
		switch comp {
		case "", ".":
			continue
		case "..":
			cur = path.Dir(cur)
			continue
		}
		child := path.Join(cur, comp)
		n := v.nodes[child]
		if n == nil {
			if v.open && cur == "/" {
				v.unknown = true
			}
			return "", nil, pkENOENT
		}
		if n.Kind == 's' && (len(rest) > 0 || followLast) {
			links++
			if links > 40 {
				return "", nil, pkELOOP
			}
			if n.Target == "" {
				return "", nil, pkENOENT
			}
			t := strings.Split(n.Target, "/")
			if strings.HasPrefix(n.Target, "/") {
				cur = "/"
				v.absolute = true
			}
			rest = append(append([]string{}, t...), rest...)
			continue
		}
		cur = child
	}
	if v.open && cur == "/" {
		v.unknown = true
	}
	return cur, v.nodes[cur], pkOK
}

type pkDirent struct {
	name  string
	isDir bool
}

func (v *pkView) readDir(p string) ([]pkDirent, int) {
	rp, n, e := v.resolve(p, true)
	if e != pkOK {
		return nil, e
	}
	if n.Kind != 'd' {
		return nil, pkENOTDIR
	}
	var out []pkDirent
	for _, k := range v.kids[rp] {
		out = append(out, pkDirent{k, v.nodes[path.Join(rp, k)].Kind == 'd'})
	}
	return out, pkOK
}

// ---------------------------------------------------------------- reference selection

type pkExp struct {
	Name   string // archived name (after rebase, canonical trailing slash)
	Rel    string // name before the rebase, as the walk names it
	Clean  string // Rel without the "./" that IncludeSourceDir adds
	Inc    int    // index of the include that emitted it
	VPath  string // resolved object (view path)
	Node   *Node
	IsRoot bool // the object is the view root itself
	Wh     bool // overlay format: a 0:0 character device is archived as the empty regular file ".wh.<name>"
	Marker bool // overlay format: the empty ".wh..wh..opq" file that follows the entry of an opaque directory
}

// conv: the archived name is not the walked name because the overlay whiteout conversion made it
func (e *pkExp) conv() bool { return e.Wh || e.Marker }

type pkRef struct {
	jail      bool // chroot: the root can become a jail
	exp       []pkExp
	unknown   bool // reference not computable from the case (resolution left the described world, odd chain)
	rootRels  []string
	includes  []string
	excluded  map[string]bool // clean rels the fresh evaluation excludes (not verbatim)
	underPrun map[string]bool // clean rels skipped because an ancestor was pruned (never visited)
	visited   []string        // every string handed to the matcher
	reach     map[string]bool // archived-form names of every path the walks can reach, selected or not
	disagree  int             // fresh chain evaluation vs MatchesOrParentMatches
	patN      int
}

type pkPat struct {
	text string
	excl bool
}

func pkPatterns(raw []string) []pkPat {
	var out []pkPat
	for _, p := range raw {
		p = strings.TrimSpace(p)
		if p == "" {
			continue
		}
		p = filepath.Clean(p)
		pp := pkPat{text: p}
		if p[0] == '!' {
			pp.excl = true
			pp.text = p[1:]
		}
		out = append(out, pp)
	}
	return out
}

func pkMapID(id int, m []IDRange) (int, bool) {
	if len(m) == 0 {
		return id, true
	}
	for _, r := range m {
		if id >= r.H && id <= r.H+r.N-1 {
			return r.C + (id - r.H), true
		}
	}
	return -1, false
}

// pkOwner: the ids an entry for n named name must carry; ok=false when the ID map cannot express them
// (such an object cannot be archived and is left out).
func pkOwner(c *PackCase, n *Node, name string) (int, int, bool) {
	uid, gid := n.Uid, n.Gid
	if len(c.UidMap)+len(c.GidMap) > 0 {
		whiteoutDev := n.Kind == 'c' && n.Maj == 0 && n.Min == 0
		if !whiteoutDev && !strings.HasPrefix(filepath.Base(name), ".wh.") {
			u, ok1 := pkMapID(uid, c.UidMap)
			g, ok2 := pkMapID(gid, c.GidMap)
			if !ok1 || !ok2 {
				return 0, 0, false
			}
			uid, gid = u, g
		}
	}
	if c.Chown != nil {
		uid, gid = c.Chown[0], c.Chown[1]
	}
	return uid, gid, true
}

// pkMode selects the reference. The zero value is the PROPERTY's reference: every path judged by the whole-path
// evaluation (a pattern applies when it matches the path or any of its ancestors; the last applying pattern wins),
// on clean names, each source path once. The deviations reproduce, one by one, what known findings do, and are
// only used to recognise those findings exactly:
//
//	chain   - per-chain evaluation with MatchesUsingParentResults from the zero state (a pattern the matcher
//	          skipped at an ancestor is not carried to the descendants: D19)
//	dot     - the matcher sees the "./"-prefixed names of IncludeSourceDir + include "." (D13); implies chain
//	seenRaw - "once" is keyed by the spelled name, so "./a" and "a" count as two paths (D21)
type pkMode struct{ chain, dot, seenRaw bool }

func pkReference(c *PackCase, v *pkView, mode pkMode) *pkRef {
	dotMatch := mode.dot
	ref := &pkRef{jail: v != nil, excluded: map[string]bool{}, underPrun: map[string]bool{}, reach: map[string]bool{}}
	if v == nil {
		return ref
	}
	pm, err := patternmatcher.New(c.Patterns)
	if err != nil {
		ref.unknown = true
		return ref
	}
	pats := pkPatterns(c.Patterns)
	ref.patN = len(pats)
	hasExcl := false
	for _, p := range pats {
		if p.excl {
			hasExcl = true
		}
	}
	// judge: is p excluded? The property's answer is the whole-path evaluation, afresh for every path. The ancestor
	// stack (popped by name prefix, fed to MatchesUsingParentResults) is what the pinned code does; it is evaluated
	// alongside only to recognise D19/D13 exactly and to count how often the two differ.
	var stack []string
	var infos []patternmatcher.MatchInfo
	judge := func(p string, isDir bool) bool {
		whole, err := pm.MatchesOrParentMatches(p)
		if err != nil {
			ref.unknown = true
			return false
		}
		for len(stack) > 0 && !strings.HasPrefix(p, stack[len(stack)-1]+"/") {
			stack = stack[:len(stack)-1]
			infos = infos[:len(infos)-1]
		}
		info := patternmatcher.MatchInfo{}
		if len(infos) > 0 {
			info = infos[len(infos)-1]
		}
		m, mi, err := pm.MatchesUsingParentResults(p, info)
		if err != nil {
			ref.unknown = true
			return false
		}
		if isDir {
			stack = append(stack, p)
			infos = append(infos, mi)
		}
		if m != whole {
			ref.disagree++
			if pkDebug {
				fmt.Fprintf(os.Stderr, "DISAGREE pats=%q p=%q stack=%v whole=%v inc=%q\n", c.Patterns, p, m, whole, c.Includes)
			}
		}
		if mode.chain || mode.dot {
			return m
		}
		return whole
	}
	pruned := func(clean string) bool {
		if !hasExcl {
			return true
		}
		for _, p := range pats {
			if p.excl && strings.HasPrefix(p.text+"/", clean+"/") {
				return false
			}
		}
		return true
	}

	src := c.Src
	if c.Op == "tar-chroot" {
		rel, err := filepath.Rel(c.Root, c.Src)
		if err != nil {
			ref.jail = false
			return ref
		}
		in := "/" + rel
		if rel == "." {
			in = "/"
		}
		if strings.HasSuffix(c.Src, "/") && !strings.HasSuffix(in, "/") {
			in += "/"
		}
		src = in
	}
	_, sn, e := v.resolve(src, false)
	if e != pkOK {
		ref.unknown = v.unknown
		return ref
	}
	includes := append([]string(nil), c.Includes...)
	if sn.Kind != 'd' {
		cl := filepath.Clean(src)
		if filepath.Base(src) == "." {
			cl += "/."
		}
		src = filepath.Dir(cl)
		includes = []string{filepath.Base(cl)}
	}
	if len(includes) == 0 {
		includes = []string{"."}
	}
	ref.includes = includes
	seen := map[string]bool{}
	for idx, inc := range includes {
		rebase := c.Rebase[inc]
		walkRoot := strings.TrimSuffix(src, "/") + "/" + inc
		rr, _ := filepath.Rel(src, walkRoot)
		ref.rootRels = append(ref.rootRels, rr)
		_, rn, e := v.resolve(walkRoot, false)
		if e != pkOK {
			continue
		}
		stack, infos = nil, nil
		var rec func(fp string, isDir bool, underPruned bool)
		rec = func(fp string, isDir bool, underPruned bool) {
			rel, err := filepath.Rel(src, fp)
			if err != nil {
				ref.unknown = true
				return
			}
			if !(rel == "." && isDir && !c.ISD) {
				clean := rel
				if c.ISD && inc == "." && rel != "." {
					rel = "./" + rel
				}
				if dotMatch {
					clean = rel
				}
				ref.reach[strings.TrimSuffix(pkRebased(rel, inc, rebase), "/")] = true
				key := rel
				if !mode.seenRaw {
					key = strings.TrimPrefix(rel, "./")
				}
				if underPruned {
					ref.underPrun[clean] = true
				} else if inc == rel {
					// an include given verbatim is archived whatever the patterns say, and is not an evaluated ancestor
					if !seen[key] {
						seen[key] = true
						pkEmit(c, v, ref, fp, rel, clean, inc, rebase, idx)
					}
				} else {
					ref.visited = append(ref.visited, clean)
					ex := judge(clean, isDir)
					if ex {
						ref.excluded[clean] = true
						if isDir && pruned(clean) {
							underPruned = true
						}
					} else if !seen[key] {
						seen[key] = true
						pkEmit(c, v, ref, fp, rel, clean, inc, rebase, idx)
					}
				}
			}
			if !isDir {
				return
			}
			ds, e := v.readDir(fp)
			if e != pkOK {
				return
			}
			for _, d := range ds {
				rec(filepath.Join(fp, d.name), d.isDir, underPruned)
			}
		}
		rec(walkRoot, rn.Kind == 'd', false)
	}
	if v.unknown {
		ref.unknown = true
	}
	return ref
}

// pkRebased: a rebased include is renamed in its leading occurrence only.
func pkRebased(rel, inc, rebase string) string {
	if rebase == "" {
		return rel
	}
	repl := rebase
	if rebase == "/" {
		repl = ""
	}
	if rel == inc || strings.HasPrefix(rel, inc+"/") {
		return repl + rel[len(inc):]
	}
	return rel
}

func pkEmit(c *PackCase, v *pkView, ref *pkRef, fp, rel, clean, inc, rebase string, idx int) {
	vp, n, e := v.resolve(fp, false)
	if e != pkOK {
		return
	}
	name := pkRebased(rel, inc, rebase)
	if n.Kind == 'd' && !strings.HasSuffix(name, "/") {
		name += "/"
	}
	if _, _, ok := pkOwner(c, n, name); !ok {
		return
	}
	wh := false
	if c.Overlay && n.Kind == 'c' && n.Maj == 0 && n.Min == 0 {
		dir, file := filepath.Split(name)
		name = filepath.Join(dir, ".wh."+file)
		wh = true
		ref.reach[name] = true
	}
	ref.exp = append(ref.exp, pkExp{Name: name, Rel: rel, Clean: clean, Inc: idx, VPath: vp, Node: n, IsRoot: vp == "/", Wh: wh})
	if c.Overlay && n.Kind == 'd' && n.Opq {
		mname := filepath.Join(name, ".wh..wh..opq")
		ref.reach[mname] = true
		ref.exp = append(ref.exp, pkExp{Name: mname, Rel: rel, Clean: clean, Inc: idx, VPath: vp, Node: n, IsRoot: vp == "/", Marker: true})
	}
}

// pkWalkStrings: the strings a walk of this case hands to the matcher, with their component prefixes (used by the
// case renderer to make the per-pattern hit table of the model cover them).
func pkWalkStrings(c *PackCase) []string {
	set := map[string]bool{}
	for _, m := range []pkMode{{}, {chain: true}, {dot: true}} {
		v := pkBuildView(c)
		if v == nil {
			continue
		}
		for _, s := range pkReference(c, v, m).visited {
			cs := strings.Split(s, "/")
			for i := 1; i <= len(cs); i++ {
				set[strings.Join(cs[:i], "/")] = true
			}
		}
	}
	var out []string
	for s := range set {
		if s != "" {
			out = append(out, s)
		}
	}
	sort.Strings(out)
	return out
}

// ---------------------------------------------------------------- the oracle

func pkTypOK(h *tar.Header, n *Node) bool {
	switch n.Kind {
	case 'd':
		return h.Typeflag == tar.TypeDir
	case 'r':
		return h.Typeflag == tar.TypeReg
	case 's':
		return h.Typeflag == tar.TypeSymlink
	case 'c':
		return h.Typeflag == tar.TypeChar
	case 'b':
		return h.Typeflag == tar.TypeBlock
	case 'f':
		return h.Typeflag == tar.TypeFifo
	}
	return false
}

func pkAllZero(b []byte) bool {
	for _, x := range b {
		if x != 0 {
			return false
		}
	}
	return true
}

type pkCountReader struct {
	r io.Reader
	n int64
}

func (c *pkCountReader) Read(p []byte) (int, error) {
	n, err := c.r.Read(p)
	c.n += int64(n)
	return n, err
}

func oraclePack(c *PackCase, jr *JobResult) []Problem {
	var out []Problem
	add := func(p Problem) { out = append(out, p) }
	if c.Overlay {
		pkCount("opt:overlay-whiteout-format")
	}
	v := pkBuildView(c)
	ref := pkReference(c, v, pkMode{})

	// ---- outcome
	if c.Op == "tar-chroot" && !ref.jail {
		pkCount("c07:root-not-a-jail")
		if jr.Out == "ok" {
			if _, hs, _ := parseTarStream(jr.Archive64); len(hs) > 0 {
				add(pkProb("C07: root %q cannot become a jail (missing or not a directory) yet %d entries were archived, first %q", c.Root, len(hs), hs[0].Name))
			}
		}
		return out
	}
	if jr.Out != "ok" {
		// plain tar only fails on a bad pattern (never generated); a jailed tar with a usable root must not fail:
		// its outcome may depend only on what is inside the root
		if c.Op == "tar-chroot" {
			add(pkProb("C07: root is a directory, the call failed (%s): the outcome must be that of the inside-only view (%d entries expected)", truncate(jr.Err, 120), len(ref.exp)))
		} else {
			add(pkProb("C09: producer failed on a valid option set: %s", truncate(jr.Err, 120)))
		}
		return out
	}
	b := jr.Archive64

	// ---- C09 (a): well-formed, properly terminated
	cr := &pkCountReader{r: bytes.NewReader(b)}
	tr := tar.NewReader(cr)
	var hs []*tar.Header
	var bodies []string
	for {
		h, err := tr.Next()
		if err == io.EOF {
			break
		}
		if err != nil {
			add(pkProb("C09: (a) stream not well-formed after %d entries: %v", len(hs), err))
			return out
		}
		body, err := io.ReadAll(tr)
		if err != nil {
			add(pkProb("C09: (a)/(f) entry %q: body shorter than declared size %d: %v", h.Name, h.Size, err))
			return out
		}
		hs = append(hs, h)
		bodies = append(bodies, string(body))
	}
	pkCount("c09:parsed")
	if len(b)%512 != 0 || len(b) < 1024 || !pkAllZero(b[len(b)-1024:]) {
		add(pkProb("C09: (a) stream of %d bytes does not end with the two zero blocks on a block boundary", len(b)))
	} else if !pkAllZero(b[cr.n:]) {
		add(pkProb("C09: (a) non-zero bytes after the end-of-archive marker"))
	}
	if len(hs) >= 2 {
		pkCount("c09:entries>=2")
	}
	if len(hs) == 0 {
		pkCount("c09:empty-archive")
		switch {
		case ref.includes == nil:
			pkCount("empty:source-missing")
		case len(ref.visited) == 0:
			pkCount("empty:includes-missing")
			if pkDebug {
				fmt.Fprintf(os.Stderr, "INCMISSING src=%q inc=%q\n", c.Src, c.Includes)
			}
		default:
			pkCount("empty:all-excluded-or-unarchivable")
		}
	}

	// ---- C08: set and multiplicity of names against the property's reference; a mismatch that one of the
	// known deviations explains EXACTLY carries that finding's signature
	gotByName := map[string][]int{}
	for i, h := range hs {
		gotByName[h.Name] = append(gotByName[h.Name], i)
	}
	sameNames := func(r *pkRef) bool {
		want := map[string]int{}
		for _, e := range r.exp {
			want[e.Name]++
		}
		if len(want) != len(gotByName) {
			return false
		}
		for name, gi := range gotByName {
			if want[name] != len(gi) {
				return false
			}
		}
		return true
	}
	refOK := !ref.unknown
	if !refOK {
		pkCount("ref:unknown")
	}
	prop := ref // the property's reference (ref may be replaced below by the deviation that explains the archive)
	if refOK {
		pkCount("c08:compared")
		if ref.patN > 0 {
			pkCount("c08:with-patterns")
		}
		if len(ref.excluded) > 0 {
			pkCount("c08:some-path-excluded")
		}
		if len(ref.underPrun) > 0 {
			pkCount("c08:some-dir-pruned")
		}
		reincl, deepReincl := false, false
		for _, e := range ref.exp {
			for a := path.Dir(e.Clean); a != "." && a != "/" && a != ""; a = path.Dir(a) {
				if ref.excluded[a] {
					reincl = true
					if strings.Count(e.Clean, "/") >= 2 {
						deepReincl = true
					}
				}
			}
		}
		if reincl {
			pkCount("c08:re-included-under-excluded-dir")
		}
		if deepReincl {
			pkCount("c08:re-included-two-levels-down")
		}
		if len(ref.includes) > 1 {
			pkCount("c08:several-includes")
		}
		if len(c.Rebase) > 0 {
			pkCount("c08:rebase")
		}
		if ref.disagree > 0 {
			pkCount("c08:chain-vs-whole-path-evaluation-differ")
		}
		if !sameNames(ref) {
			sig, how := "", ""
			hasDot := false
			for _, inc := range ref.includes {
				if inc == "." {
					hasDot = true
				}
			}
			// try the known deviations, fewest first
			type dev struct {
				m   pkMode
				sig string
				how string
			}
			devs := []dev{
				{pkMode{chain: true}, "D19", "the matcher does not carry to descendants a pattern it skipped at the ancestor"},
				{pkMode{dot: true}, "D13", "names carry './' before matching"},
				{pkMode{seenRaw: true}, "D21", "'./x' and 'x' are treated as two paths"},
				{pkMode{dot: true, seenRaw: true}, "D13", "names carry './' before matching, and './x' and 'x' are treated as two paths"},
				{pkMode{chain: true, seenRaw: true}, "D21", "'./x' and 'x' are treated as two paths, and a skipped pattern is not carried"},
			}
			for _, d := range devs {
				if d.m.dot && !(c.ISD && hasDot && ref.patN > 0) {
					continue
				}
				if d.m.seenRaw && !(c.ISD && hasDot && len(ref.includes) > 1) {
					continue
				}
				if d.m.chain && ref.patN == 0 {
					continue
				}
				r2 := pkReference(c, pkBuildView(c), d.m)
				if !r2.unknown && sameNames(r2) {
					sig, how = d.sig, d.how
					ref = r2
					break
				}
			}
			expN := map[string]int{}
			for _, e := range ref.exp {
				expN[e.Name]++
			}
			var extra, missing, mult []string
			if sig != "" {
				// describe against the property's reference
				r0 := pkReference(c, pkBuildView(c), pkMode{})
				expN = map[string]int{}
				for _, e := range r0.exp {
					expN[e.Name]++
				}
			}
			for name, gi := range gotByName {
				if expN[name] == 0 {
					extra = append(extra, name)
				} else if len(gi) != expN[name] {
					mult = append(mult, fmt.Sprintf("%q x%d (expected x%d)", name, len(gi), expN[name]))
				}
			}
			for name := range expN {
				if len(gotByName[name]) == 0 {
					missing = append(missing, name)
				}
			}
			sort.Strings(extra)
			sort.Strings(missing)
			sort.Strings(mult)
			var parts []string
			if len(extra) > 0 {
				why := "not selected by the includes"
				for _, e := range extra {
					cl := strings.TrimSuffix(strings.TrimPrefix(e, "./"), "/")
					if prop.excluded[cl] {
						why = "excluded by the patterns"
					} else if prop.underPrun[cl] {
						why = "beneath an excluded directory that no '!' pattern names"
					}
				}
				parts = append(parts, fmt.Sprintf("contains %d path(s) it must not %q (%s)", len(extra), pkHead(extra), why))
			}
			if len(missing) > 0 {
				parts = append(parts, fmt.Sprintf("omits %d path(s) %q that are under the includes and not excluded", len(missing), pkHead(missing)))
			}
			if len(mult) > 0 {
				parts = append(parts, "multiplicity: "+strings.Join(pkHead(mult), ", "))
			}
			p := pkProb("C08: archive %s; inc=%q isd=%v pats=%q rebase=%v", strings.Join(parts, "; "), c.Includes, c.ISD, c.Patterns, c.Rebase)
			if sig != "" {
				p.Sig = sig
				p.Msg = truncate(p.Msg+" ["+sig+": "+how+"]", 800)
				pkCount("known:" + sig)
			}
			add(p)
		}
	}

	// ---- map archive entries to the reference (k-th occurrence of a name <-> k-th expected occurrence)
	expByName := map[string][]int{}
	for i, e := range ref.exp {
		expByName[e.Name] = append(expByName[e.Name], i)
	}
	expOf := make([]*pkExp, len(hs)) // nil when unmapped
	if refOK {
		for name, gi := range gotByName {
			ei := expByName[name]
			for k := range gi {
				if k < len(ei) {
					expOf[gi[k]] = &ref.exp[ei[k]]
				}
			}
		}
	}

	// ---- C09 (b): each name at most once, unless the rebase map sends two different source paths to one name
	for name, gi := range gotByName {
		if len(gi) < 2 {
			continue
		}
		if refOK {
			rels := map[string]bool{}
			wh := false
			for _, i := range expByName[name] {
				rels[ref.exp[i].Rel] = true
				wh = wh || ref.exp[i].conv()
			}
			if len(rels) >= 2 && len(c.Rebase) > 0 && len(gi) <= len(rels) {
				pkCount("c09:dup-by-rebase-collision")
				continue
			}
			if len(rels) >= 2 && wh && len(gi) <= len(rels) {
				// overlay format: device "x" becomes ".wh.x", and the tree also holds a file of that very name
				pkCount("c09:dup-by-whiteout-conversion")
				continue
			}
		} else if len(c.Rebase) > 0 {
			continue
		}
		add(pkProb("C09: (b) name %q appears %d times; inc=%q rebase=%v", name, len(gi), c.Includes, c.Rebase))
		break
	}

	// ---- C09 (c): relative, slash-separated, no "//", trailing "/" exactly on directories
	for i, h := range hs {
		name := h.Name
		rebasedToRoot := false
		if e := expOf[i]; e != nil && e.Name != e.Rel && c.Rebase[ref.includes[e.Inc]] == "/" {
			rebasedToRoot = true
		} else if expOf[i] == nil {
			for _, r := range c.Rebase {
				if r == "/" {
					rebasedToRoot = true
				}
			}
		}
		if strings.HasPrefix(name, "/") && !rebasedToRoot {
			add(pkProb("C09: (c) name %q is not relative", name))
			break
		}
		if rebasedToRoot {
			pkCount("c09:name-under-rebase-to-slash")
		}
		if strings.Contains(name, "//") || strings.Contains(name, "\\") {
			add(pkProb("C09: (c) name %q has an empty component or a backslash", name))
			break
		}
		if name == "" && !rebasedToRoot {
			add(pkProb("C09: (c) empty name"))
			break
		}
		if (h.Typeflag == tar.TypeDir) != strings.HasSuffix(name, "/") {
			add(pkProb("C09: (c) trailing slash of %q does not fit its type %s", name, typName(h.Typeflag)))
			break
		}
		if e := expOf[i]; e != nil && !e.Marker {
			if (e.Node.Kind == 'd') != (h.Typeflag == tar.TypeDir) {
				add(pkProb("C09: (c) %q: directory-ness differs from the source object (%c)", name, e.Node.Kind))
				break
			}
		}
	}

	// ---- C09 (d): a directory's entry precedes the entries beneath it
	//   D14: an include listed before one of its proper ancestors (includes are walked in the order given)
	//   D20: a directory the patterns exclude, listed verbatim as an include after an include above it whose
	//        walk already emitted re-included content of that directory
	{
		found := map[string]string{}
		for i, h := range hs {
			if h.Typeflag != tar.TypeDir || !strings.HasSuffix(h.Name, "/") {
				continue
			}
			for j := 0; j < i; j++ {
				if hs[j].Name == h.Name || !strings.HasPrefix(hs[j].Name, h.Name) {
					continue
				}
				// entry j lies beneath directory entry i but comes first
				kind := "bad"
				ed, ee := expOf[i], expOf[j]
				// D21: the directory itself was already written, under its "./" alias, before entry j
				// (IncludeSourceDir with an include "." next to another include: './x' and 'x' are two paths)
				dotAlias := false
				if c.ISD {
					for k := 0; k < j; k++ {
						if hs[k].Typeflag == tar.TypeDir && hs[k].Name == "./"+h.Name {
							dotAlias = true
						}
					}
				}
				if dotAlias {
					kind = "D21"
				} else if ed != nil && ee != nil {
					renamed := (strings.TrimSuffix(ed.Name, "/") != ed.Rel && !ed.conv()) || (strings.TrimSuffix(ee.Name, "/") != ee.Rel && !ee.conv())
					// an entry whose name the overlay conversion changed says nothing by its name; its include does
					for _, x := range []*pkExp{ed, ee} {
						if x.conv() && x.Inc >= 0 && x.Inc < len(ref.includes) {
							if _, ok := c.Rebase[ref.includes[x.Inc]]; ok {
								renamed = true
							}
						}
					}
					switch {
					case renamed && (ee.Inc != ed.Inc || !pkProperDescendant(ee.Clean, ed.Clean)):
						// the rebase map moved the names of one include among the names of another
						pkCount("c09:order-skip-rebase-collision")
						continue
					case ee.Inc < ed.Inc && pkProperDescendant(ref.rootRels[ee.Inc], ref.rootRels[ed.Inc]):
						kind = "D14"
					case ee.Inc < ed.Inc && ed.Rel == ref.includes[ed.Inc] && ref.excluded[ed.Clean]:
						kind = "D20"
					case pkQuirkOrder(c, prop, hs, h.Name, hs[j].Name):
						// the directory was judged differently in two walks (D19): the property's reference has it first
						kind = "D19"
					}
				} else if !refOK {
					for p := range c.Includes {
						for q := p + 1; q < len(c.Includes); q++ {
							if pkProperDescendant(filepath.Clean(c.Includes[p]), filepath.Clean(c.Includes[q])) {
								kind = "D14"
							}
						}
					}
				}
				if found[kind] == "" {
					found[kind] = fmt.Sprintf("directory entry %q (#%d) follows %q (#%d) which lies beneath it; inc=%q pats=%q", h.Name, i, hs[j].Name, j, c.Includes, c.Patterns)
				}
			}
		}
		pkCount("c09:order-checked")
		if m := found["bad"]; m != "" {
			add(pkProb("C09: (d) %s", m))
		} else {
			for _, k := range []string{"D14", "D20", "D19", "D21"} {
				if m := found[k]; m != "" {
					p := pkProb("C09: (d) %s", m)
					p.Sig = k
					pkCount("known:" + k)
					add(p)
					break
				}
			}
		}
	}

	// ---- C09 (e): hard-link entries name an earlier non-link entry for the same inode
	for i, h := range hs {
		if h.Typeflag != tar.TypeLink {
			continue
		}
		pkCount("c09:link-entry")
		tgt := -1
		for j := 0; j < i; j++ {
			if hs[j].Name == h.Linkname {
				tgt = j // the latest earlier entry of that name is what an extractor would link to
			}
		}
		if tgt < 0 {
			p := pkProb("C09: (e) hard-link entry %q names %q, which is not an earlier entry of the archive", h.Name, h.Linkname)
			// D22: with an ID map, a name of the inode whose owner cannot be mapped is remembered as the link target
			// and then left out; a later whiteout-named link of the same inode (exempt from the mapping) points at it
			if e := expOf[i]; e != nil && len(c.UidMap)+len(c.GidMap) > 0 && strings.HasPrefix(filepath.Base(h.Name), ".wh.") {
				_, okU := pkMapID(e.Node.Uid, c.UidMap)
				_, okG := pkMapID(e.Node.Gid, c.GidMap)
				if (!okU || !okG) && prop.reach[h.Linkname] {
					p.Sig = "D22"
					p.Msg += " [D22: the first name's owner is not in the ID map; it was dropped after being remembered as the link target]"
					pkCount("known:D22")
				}
			}
			add(p)
			break
		}
		if hs[tgt].Typeflag == tar.TypeLink {
			add(pkProb("C09: (e) hard-link entry %q names %q, which is itself a hard-link entry", h.Name, h.Linkname))
			break
		}
		if el, et := expOf[i], expOf[tgt]; el != nil && et != nil {
			if el.Node.Group == 0 || el.Node.Group != et.Node.Group {
				add(pkProb("C09: (e) hard-link entry %q -> %q: source objects %s (group %d) and %s (group %d) are not the same inode", h.Name, h.Linkname, el.Node.Path, el.Node.Group, et.Node.Path, et.Node.Group))
				break
			}
			pkCount("c09:link-checked-inode")
			if el.Name != el.Rel || et.Name != et.Rel {
				pkCount("c09:link-with-rebased-name")
			}
			if el.Node.Kind != 'r' {
				pkCount("c09:link-nonregular")
			}
		}
		if h.Size != 0 || bodies[i] != "" {
			add(pkProb("C09: (f) hard-link entry %q declares size %d / carries %d body bytes", h.Name, h.Size, len(bodies[i])))
			break
		}
	}
	// groups of 3+ and excluded first names: distribution only
	if refOK {
		perGroup := map[int]int{}
		for i := range hs {
			if e := expOf[i]; e != nil && e.Node.Group != 0 {
				perGroup[e.Node.Group]++
			}
		}
		for _, k := range perGroup {
			if k >= 3 {
				pkCount("c09:link-group>=3-in-archive")
				break
			}
		}
		if len(ref.excluded) > 0 {
			// a group whose lexically first name is excluded while a later one is archived
			first := map[int]string{}
			for i := range c.Nodes {
				n := &c.Nodes[i]
				if n.Group != 0 {
					if f, ok := first[n.Group]; !ok || n.Path < f {
						first[n.Group] = n.Path
					}
				}
			}
			for i := range hs {
				if e := expOf[i]; e != nil && e.Node.Group != 0 {
					arch := false
					for k := range hs {
						if x := expOf[k]; x != nil && x.Node.Group == e.Node.Group && x.Node.Path == first[e.Node.Group] {
							arch = true
						}
					}
					if !arch {
						pkCount("c09:link-group-first-name-not-archived")
						break
					}
				}
			}
		}
	}

	// ---- C09 (f): declared size = bytes that follow = length of the source content
	for i, h := range hs {
		if int64(len(bodies[i])) != h.Size && h.Typeflag != tar.TypeLink {
			add(pkProb("C09: (f) %q declares %d bytes, %d follow", h.Name, h.Size, len(bodies[i])))
			break
		}
		if h.Typeflag != tar.TypeReg && h.Size != 0 {
			add(pkProb("C09: (f) non-regular entry %q (%s) declares size %d", h.Name, typName(h.Typeflag), h.Size))
			break
		}
		if e := expOf[i]; e != nil && h.Typeflag == tar.TypeReg && e.Node.Kind == 'r' {
			pkCount("c09:size-checked")
			if h.Size != int64(len(e.Node.Data)) || bodies[i] != e.Node.Data {
				add(pkProb("C09: (f) %q: size %d / body %q differ from the source content (%d bytes)", h.Name, h.Size, truncate(bodies[i], 40), len(e.Node.Data)))
				break
			}
			if len(e.Node.Data) > 0 {
				pkCount("c09:size-checked-nonempty")
			}
		}
	}

	// ---- C09 (g): whole-second mtime, no atime/ctime, no user/group names
	for _, h := range hs {
		if h.ModTime.Nanosecond() != 0 {
			add(pkProb("C09: (g) %q: modification time %v has a sub-second part", h.Name, h.ModTime.UTC()))
			break
		}
		_, pa := h.PAXRecords["atime"]
		_, pc := h.PAXRecords["ctime"]
		if !h.AccessTime.IsZero() || !h.ChangeTime.IsZero() || pa || pc {
			add(pkProb("C09: (g) %q carries an access/change time", h.Name))
			break
		}
		if h.Uname != "" || h.Gname != "" {
			add(pkProb("C09: (g) %q carries user/group names %q/%q", h.Name, h.Uname, h.Gname))
			break
		}
	}

	// ---- C03/C09 (i): a regular file's security.capability attribute travels in its header
	if refOK {
		for i, h := range hs {
			e := expOf[i]
			if e == nil || e.conv() || e.Node == nil || e.Node.Cap == "" || h.Typeflag != tar.TypeReg {
				continue
			}
			pkCount("c09:capability-checked")
			if got := h.PAXRecords["SCHILY.xattr.security.capability"]; got != e.Node.Cap {
				add(pkProb("C09: (i) %q: the file has a security.capability attribute of %d bytes, its header carries %d bytes (%q)", h.Name, len(e.Node.Cap), len(got), got))
				break
			}
		}
	}

	// ---- C09 (h): reproducible
	if jr.Before != "" || jr.After != "" {
		pkCount("c09:two-runs")
		if jr.Before != jr.After {
			okDiff := false
			if strings.HasPrefix(jr.After, "DIFF ") && c.Op == "tar-chroot" {
				// the jail set-up touches the root directory's own mtime; nothing else may differ
				okDiff = true
				items := strings.Fields(jr.After)[1:]
				if len(items) == 0 {
					okDiff = false
				}
				for _, it := range items {
					f := strings.Split(it, ":")
					if len(f) != 3 || f[2] != "mtime" {
						okDiff = false
						continue
					}
					idx := -1
					fmt.Sscanf(f[0], "%d", &idx)
					if idx < 0 || idx >= len(hs) || expOf[idx] == nil || !expOf[idx].IsRoot {
						okDiff = false
					}
				}
			}
			if okDiff {
				pkCount("c09:two-runs-differ-only-in-jail-root-mtime")
			} else {
				add(pkProb("C09: (h) two runs on the unchanged tree differ: first %s second %s", truncate(jr.Before, 80), truncate(jr.After, 300)))
			}
		}
	}

	// ---- C08/C09: an options value used a second time selects by its current lists
	if jr.Note != "" {
		add(pkProb("C08: %s", truncate(jr.Note, 400)))
	}

	// ---- C07: nothing in a jailed archive stems from outside the root
	if c.Op == "tar-chroot" {
		pkCount("c07:checked")
		for i, h := range hs {
			if strings.Contains(bodies[i], "CANARY") {
				add(pkProb("C07: body of %q holds the content of an outside object: %q", h.Name, truncate(bodies[i], 40)))
				break
			}
			if (h.Uid >= 42 && h.Uid <= 46 || h.Gid >= 42 && h.Gid <= 46) && c.Chown == nil && len(c.UidMap) == 0 {
				add(pkProb("C07: %q carries owner %d:%d of an outside object", h.Name, h.Uid, h.Gid))
				break
			}
			if t := h.ModTime.Unix(); t >= 1502 && t <= 1506 {
				add(pkProb("C07: %q carries the modification time %d of an outside object", h.Name, t))
				break
			}
		}
		if refOK {
			for i, h := range hs {
				e := expOf[i]
				if e == nil {
					if ref.reach[strings.TrimSuffix(h.Name, "/")] {
						continue // exists inside the root: a matter of selection or multiplicity, reported under C08/C09
					}
					add(pkProb("C07: entry %q names nothing that is reachable inside the root (source %q, root %q, inc=%q)", h.Name, c.Src, c.Root, c.Includes))
					break
				}
				n := e.Node
				pkCount("c07:entry-compared")
				linkOK := h.Typeflag == tar.TypeLink && n.Group != 0 && n.Kind != 'd'
				if e.conv() {
					pkCount("c07:overlay-whiteout-entry")
					if h.Typeflag != tar.TypeReg || h.Size != 0 {
						add(pkProb("C07: %q: overlay whiteout conversion must yield an empty regular file, got %s size %d", h.Name, typName(h.Typeflag), h.Size))
						break
					}
				} else if !linkOK && !pkTypOK(h, n) {
					add(pkProb("C07: %q: type %s does not fit the inside object %s (%c)", h.Name, typName(h.Typeflag), n.Path, n.Kind))
					break
				}
				if h.Typeflag == tar.TypeSymlink && h.Linkname != n.Target {
					add(pkProb("C07: %q: link name %q is not the inside symlink's target %q", h.Name, h.Linkname, n.Target))
					break
				}
				if h.Typeflag == tar.TypeReg && bodies[i] != n.Data {
					add(pkProb("C07: %q: body %q is not the inside file's content %q", h.Name, truncate(bodies[i], 40), truncate(n.Data, 40)))
					break
				}
				if v.implicit[e.VPath] {
					continue
				}
				ownerName := h.Name
				if e.Marker {
					ownerName = strings.TrimSuffix(h.Name, ".wh..wh..opq") // the marker inherits the directory's ids
				}
				uid, gid, _ := pkOwner(c, n, ownerName)
				if h.Uid != uid || h.Gid != gid {
					add(pkProb("C07: %q: owner %d:%d, the inside object %s gives %d:%d", h.Name, h.Uid, h.Gid, n.Path, uid, gid))
					break
				}
				if mt := pkGroupMtime(c, n); !e.IsRoot && !e.Marker && h.ModTime.Unix() != mt {
					add(pkProb("C07: %q: mtime %d, the inside object %s has %d", h.Name, h.ModTime.Unix(), n.Path, mt))
					break
				}
			}
			if len(hs) == 0 && len(ref.exp) == 0 {
				pkCount("c07:empty-as-expected")
			}
			// which arrangements were reached
			if _, sn, e := v.resolve(strings.TrimSuffix(pkInside(c), "/"), false); e == pkOK && sn != nil && sn.Kind == 's' {
				pkCount("c07:source-is-symlink")
			}
			if _, _, e := v.resolve(pkInside(c)+"/", false); e == pkOK || v.followed > 0 {
				if v.followed > 0 {
					pkCount("c07:source-through-link")
				}
				if v.followed > 1 {
					pkCount("c07:source-through-chained-links")
				}
				if v.followed > 0 && v.absolute {
					pkCount("c07:source-through-absolute-link")
				}
			}
			for _, inc := range c.Includes {
				v.resolve(strings.TrimSuffix(pkInside(c), "/")+"/"+inc+"/", false)
				if v.followed > 0 {
					pkCount("c07:include-through-link")
					if v.followed > 1 {
						pkCount("c07:include-through-chained-links")
					}
					break
				}
			}
			for _, inc := range c.Includes {
				if strings.Contains(inc, "..") {
					pkCount("c07:include-with-dotdot")
					break
				}
			}
			for _, inc := range c.Includes {
				if strings.HasPrefix(inc, "/") {
					pkCount("c07:include-absolute")
					break
				}
			}
			switch pkHostVsInside(c) {
			case 1:
				pkCount("c07:source-exists-only-outside")
			case 2:
				pkCount("c07:source-exists-only-inside-view")
			case 3:
				pkCount("c07:source-names-different-objects-outside-and-inside")
			}
		}
	}
	return out
}

// pkQuirkOrder: is "directory dirName after its content contName" explained exactly by known finding D19? Yes when
// the pinned evaluation (ancestor stack + MatchesUsingParentResults) differs from the whole-path evaluation somewhere
// in this case, reproduces the archive's name sequence exactly, and the property's reference has the directory first.
func pkQuirkOrder(c *PackCase, prop *pkRef, hs []*tar.Header, dirName, contName string) bool {
	hasDot := false
	for _, inc := range prop.includes {
		if inc == "." {
			hasDot = true
		}
	}
	em := pkReference(c, pkBuildView(c), pkMode{chain: true, dot: c.ISD && hasDot, seenRaw: true})
	if pkDebug {
		var a, b []string
		for _, e := range em.exp {
			a = append(a, e.Name)
		}
		for _, h := range hs {
			b = append(b, h.Name)
		}
		fmt.Fprintf(os.Stderr, "QUIRK unknown=%v disagree=%d\n em=%q\n ar=%q\n", em.unknown, em.disagree, a, b)
	}
	if em.unknown || em.disagree == 0 || len(em.exp) != len(hs) {
		return false
	}
	for i := range hs {
		if em.exp[i].Name != hs[i].Name {
			return false
		}
	}
	di, ci := -1, -1
	for i, e := range prop.exp {
		if e.Name == dirName && di < 0 {
			di = i
		}
		if e.Name == contName && ci < 0 {
			ci = i
		}
	}
	return di >= 0 && ci >= 0 && di < ci
}

func pkHead(xs []string) []string {
	if len(xs) > 5 {
		return xs[:5]
	}
	return xs
}

// pkProperDescendant: rel path x lies strictly beneath rel path a.
func pkProperDescendant(x, a string) bool {
	if x == a {
		return false
	}
	if a == "." {
		return x != ".." && !strings.HasPrefix(x, "../")
	}
	return strings.HasPrefix(x, a+"/")
}

// pkGroupMtime: the world builder gives a hard-link group the times of its first name.
func pkGroupMtime(c *PackCase, n *Node) int64 {
	if n.Group == 0 {
		return n.Mtime
	}
	best := n
	for i := range c.Nodes {
		if m := &c.Nodes[i]; m.Group == n.Group && m.Path < best.Path {
			best = m
		}
	}
	return best.Mtime
}

// pkInside: the source path as the jail sees it.
func pkInside(c *PackCase) string {
	rel, err := filepath.Rel(c.Root, c.Src)
	if err != nil {
		return "/"
	}
	if rel == "." {
		return "/"
	}
	return "/" + rel
}

// pkHostVsInside compares what the source path names for a process outside the jail with what it names inside:
// 1 = exists only outside, 2 = exists only inside, 3 = both exist but are different objects, 0 = same or neither.
func pkHostVsInside(c *PackCase) int {
	host := *c
	host.Op = "tar"
	hv := pkBuildView(&host)
	_, hn, he := hv.resolve(c.Src, false)
	jv := pkBuildView(c)
	if jv == nil {
		return 0
	}
	_, jn, je := jv.resolve(pkInside(c), false)
	switch {
	case he == pkOK && hn != nil && je != pkOK:
		return 1
	case he != pkOK && je == pkOK:
		return 2
	case he == pkOK && je == pkOK && hn != jn:
		return 3
	}
	return 0
}

// ---------------------------------------------------------------- arena-side helpers (used by runPackJob)

func pkSha(b []byte) string {
	s := sha256.Sum256(b)
	return hex.EncodeToString(s[:])
}

// pkSubSecond gives every object of the world a non-zero sub-second modification (and access) time, so that the
// whole-second clause is observable. The seconds stay what the case says.
func pkSubSecond(nodes []Node) error {
	ns := append([]Node(nil), nodes...)
	sort.SliceStable(ns, func(i, j int) bool { return ns[i].Path < ns[j].Path })
	// same order as buildWorld (last to first), so the first name of a hard-link group decides, as there
	for i := len(ns) - 1; i >= 0; i-- {
		n := ns[i]
		h := fnv.New32a()
		h.Write([]byte(n.Path))
		ns := int64(1 + h.Sum32()%999999998)
		ts := []unix.Timespec{{Sec: n.Mtime, Nsec: ns}, {Sec: n.Mtime, Nsec: ns}}
		if err := unix.UtimesNanoAt(unix.AT_FDCWD, n.Path, ts, unix.AT_SYMLINK_NOFOLLOW); err != nil {
			return err
		}
	}
	return nil
}

// pkDescribeDiff: which header fields of which entries differ between two produced streams.
func pkDescribeDiff(b1, b2 []byte) string {
	e1, _, err1 := parseTarStream(b1)
	e2, _, err2 := parseTarStream(b2)
	if err1 != nil || err2 != nil || len(e1) != len(e2) {
		return fmt.Sprintf("DIFF -1:-:count(%d/%d)", len(e1), len(e2))
	}
	var items []string
	for i := range e1 {
		a, b := e1[i], e2[i]
		fa, fb := a.fields(), b.fields()
		names := []string{"type", "name", "linkname", "mode", "uid", "gid", "mtime", "size", "body", "maj", "min", "nx"}
		for k := range fa {
			if k < len(fb) && fa[k] != fb[k] {
				f := "xattr"
				if k < len(names) {
					f = names[k]
				}
				items = append(items, fmt.Sprintf("%d:%s:%s", i, hx(a.Name), f))
			}
		}
		if len(fa) != len(fb) {
			items = append(items, fmt.Sprintf("%d:%s:xattrs", i, hx(a.Name)))
		}
	}
	if len(items) == 0 {
		return "DIFF -1:-:bytes-only"
	}
	return "DIFF " + strings.Join(items, " ")
}
