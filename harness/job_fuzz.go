package main

import (
	"archive/tar"
	"bytes"
	"compress/bzip2"
	"compress/gzip"
	"encoding/binary"
	"encoding/hex"
	"encoding/json"
	"errors"
	"fmt"
	"hash/fnv"
	"io"
	"os"
	"runtime"
	"runtime/debug"
	"strconv"
	"strings"
	"sync"
	"time"

	"github.com/klauspost/compress/zstd"
	"golang.org/x/sys/unix"

	archive "github.com/moby/go-archive"
	"github.com/moby/go-archive/chrootarchive"
	"github.com/moby/go-archive/compression"
)

// Arena side of the "fuzz" stream (C19). One job = one case: rebuild the world, call ONE reader-side
// entry point of the real library on the hostile input under recover(), then evaluate the clauses:
//   returned   the call came back (a hang is seen by the arena parent: no result within its per-job timeout, confirmed by a second run)
//   no-panic   recover() caught nothing (a panic on a library goroutine kills the child; the parent reports it)
//   contained  everything outside the destination/root is unchanged, whether the call succeeded or failed
//   usable     umask, cwd and root are what they were, and a trivial Untar into a fresh directory succeeds

func init() { jobKinds["fuzz"] = runFuzzJob }

type fzProb struct {
	Clause string `json:"clause"`
	Msg    string `json:"msg"`
}

type fzOut struct {
	Ret      string   `json:"ret"` // ok | err
	Tags     []string `json:"tags"`
	Problems []fzProb `json:"problems,omitempty"`
	Canon    string   `json:"canon"`
	Trivial  bool     `json:"trivial"`
	ErrText  string   `json:"err,omitempty"`
	AllocMiB int      `json:"alloc_mib"` // bytes allocated (cumulative) during the call
	VmMiB    int      `json:"vm_mib"`    // address space of the child after the call
	CallMs   int64    `json:"call_ms"`
}

// fzAllocCeiling: a single call on an input of at most a few hundred KiB (drains capped at fzDrainCap) has no
// reason to allocate gigabytes; the largest legitimate figure observed on the unchanged tree is two orders below.
const fzAllocCeilingMiB = 2048

func fzVmMiB() int {
	b, err := os.ReadFile("/proc/self/statm")
	if err != nil {
		return 0
	}
	f := strings.Fields(string(b))
	if len(f) == 0 {
		return 0
	}
	pages, _ := strconv.Atoi(f[0])
	return pages * os.Getpagesize() >> 20
}

var fzLimitOnce sync.Once

// fzDrainCap bounds what OUR drains read from a returned stream (a sparse map may promise terabytes of zeros).
const fzDrainCap = 64 << 20

func runFuzzJob(j *Job, res *JobResult) {
	fzLimitOnce.Do(func() {
		debug.SetMemoryLimit(2 << 30)
		// hard ceiling: an allocation proportional to a declared size kills the child (reported by the parent)
		lim := unix.Rlimit{Cur: 8 << 30, Max: 8 << 30}
		_ = unix.Setrlimit(unix.RLIMIT_AS, &lim)
	})
	if len(j.Args) < 2 {
		res.Out, res.Err = "setup", "fuzz job needs [mode, payload]"
		return
	}
	var c *fzCase
	switch j.Args[0] {
	case "gen":
		seed, err := strconv.ParseUint(j.Args[1], 10, 64)
		if err != nil {
			res.Out, res.Err = "setup", "bad seed"
			return
		}
		plan := ""
		if len(j.Args) > 2 {
			plan = j.Args[2]
		}
		c = fzGen(seed, plan)
	case "case":
		c = &fzCase{}
		if err := json.Unmarshal([]byte(j.Args[1]), c); err != nil {
			res.Out, res.Err = "setup", "bad case json: "+err.Error()
			return
		}
	default:
		res.Out, res.Err = "setup", "bad mode"
		return
	}
	out := fzRun(c, res)
	if res.Out == "setup" {
		return
	}
	b, _ := json.Marshal(out)
	res.Extra = string(b)
	res.Out = out.Ret
	res.Err = truncate(out.ErrText, 300)
}

func fzCanon(c *fzCase) string {
	h := fnv.New64a()
	h.Write([]byte(c.EP + "\x00" + c.Opts + "\x00" + c.Dest + "\x00"))
	h.Write(c.Input)
	return hex.EncodeToString(h.Sum(nil))
}

// ---- readers ----

type fzChunkReader struct {
	b []byte
	r *Rng
}

func (c *fzChunkReader) Read(p []byte) (int, error) {
	if len(c.b) == 0 {
		return 0, io.EOF
	}
	n := 1 + c.r.intn(700)
	if c.r.chance(1, 4) {
		n = 1
	}
	n = fzMinInt(fzMinInt(n, len(p)), len(c.b))
	copy(p, c.b[:n])
	c.b = c.b[n:]
	return n, nil
}

// fzDataErrReader returns the final bytes together with the terminal error.
type fzTailReader struct {
	b       []byte
	err     error
	withEOF bool
}

func (t *fzTailReader) Read(p []byte) (int, error) {
	if len(t.b) == 0 {
		return 0, t.err
	}
	n := copy(p, t.b)
	t.b = t.b[n:]
	if len(t.b) == 0 && t.withEOF {
		return n, t.err
	}
	return n, nil
}

var errFzBroken = errors.New("fuzz: connection reset")

func fzReader(c *fzCase) io.Reader {
	switch c.Reader {
	case "chunk":
		return &fzChunkReader{b: c.Input, r: &Rng{s: c.RSeed}}
	case "dataerr":
		return &fzTailReader{b: c.Input, err: io.EOF, withEOF: true}
	case "errtail":
		return &fzTailReader{b: c.Input, err: errFzBroken}
	}
	return bytes.NewReader(c.Input)
}

// ---- own decoding, used only to decide whether the plain extractors' containment clause applies ----

func fzOwnDecompress(b []byte) ([]byte, bool) {
	lim := func(r io.Reader) ([]byte, bool) {
		out, err := io.ReadAll(io.LimitReader(r, fzDrainCap+1))
		return out, err == nil && len(out) <= fzDrainCap
	}
	switch {
	case bytes.HasPrefix(b, fzMagicGz):
		zr, err := gzip.NewReader(bytes.NewReader(b))
		if err != nil {
			return nil, false
		}
		return lim(zr)
	case bytes.HasPrefix(b, fzMagicBz):
		return lim(bzip2.NewReader(bytes.NewReader(b)))
	case bytes.HasPrefix(b, fzMagicXz):
		out := fzExternal("xz", []string{"-d", "-c", "-q"}, b)
		return out, out != nil
	case bytes.HasPrefix(b, fzMagicZstd) || (len(b) >= 8 && binary.LittleEndian.Uint32(b[:4])&0xfffffff0 == 0x184d2a50):
		zr, err := zstd.NewReader(bytes.NewReader(b), zstd.WithDecoderConcurrency(1), zstd.WithDecoderMaxMemory(256<<20))
		if err != nil {
			return nil, false
		}
		defer zr.Close()
		return lim(zr)
	}
	return b, true
}

// fzParse: what archive/tar yields for the stream, up to its first error.
func fzParse(b []byte) (ents int, hasSymlink bool, clean bool) {
	tr := tar.NewReader(bytes.NewReader(b))
	for ents < 100000 {
		h, err := tr.Next()
		if err == io.EOF {
			return ents, hasSymlink, true
		}
		if err != nil {
			return ents, hasSymlink, false
		}
		ents++
		if h.Typeflag == tar.TypeSymlink {
			hasSymlink = true
		}
	}
	return ents, hasSymlink, false
}

// ---- containment ----

// fzScan lists every object beneath top except the subtree at skip ("" = skip nothing), as
// path -> signature (type, mode, owner, mtime, link count, content or target, device numbers,
// capability xattr). Only regular files are opened. maxDepth < 0 = unlimited. An archive can make
// the inside of the destination arbitrarily deep (paths beyond PATH_MAX), which is why the
// boundary subtree is skipped rather than scanned.
func fzScan(top, skip string, maxDepth int, budget int) (map[string]string, error) {
	out := map[string]string{}
	var walk func(p string, depth int) error
	walk = func(p string, depth int) error {
		if skip != "" && p == skip {
			return nil
		}
		if len(out) >= budget {
			return nil
		}
		var st unix.Stat_t
		if err := unix.Lstat(p, &st); err != nil {
			return fmt.Errorf("lstat %s: %w", truncate(p, 200), err)
		}
		sig := fmt.Sprintf("mode=%o uid=%d gid=%d mtime=%d.%09d nlink=%d", st.Mode, st.Uid, st.Gid, st.Mtim.Sec, st.Mtim.Nsec, st.Nlink)
		switch st.Mode & unix.S_IFMT {
		case unix.S_IFREG:
			if st.Size <= 1<<20 {
				b, err := os.ReadFile(p)
				if err != nil {
					return err
				}
				h := fnv.New64a()
				h.Write(b)
				sig += fmt.Sprintf(" size=%d data=%x", len(b), h.Sum64())
			} else {
				sig += fmt.Sprintf(" size=%d", st.Size)
			}
		case unix.S_IFLNK:
			t, err := os.Readlink(p)
			if err != nil {
				return err
			}
			sig += fmt.Sprintf(" target=%q", t)
		case unix.S_IFCHR, unix.S_IFBLK:
			sig += fmt.Sprintf(" rdev=%d:%d", unix.Major(st.Rdev), unix.Minor(st.Rdev))
		}
		buf := make([]byte, 256)
		if sz, err := unix.Lgetxattr(p, "security.capability", buf); err == nil {
			sig += fmt.Sprintf(" cap=%x", buf[:sz])
		}
		if p != top {
			out[p] = sig
		}
		if st.Mode&unix.S_IFMT == unix.S_IFDIR && (maxDepth < 0 || depth < maxDepth) {
			ents, err := os.ReadDir(p)
			if err != nil {
				return err
			}
			for _, e := range ents {
				if err := walk(p+"/"+e.Name(), depth+1); err != nil {
					return err
				}
			}
		}
		return nil
	}
	err := walk(top, 0)
	return out, err
}

func fzScanDiff(before, after map[string]string) string {
	for p, b := range before {
		a, ok := after[p]
		if !ok {
			return "deleted: " + p
		}
		if a != b {
			return fmt.Sprintf("changed: %s (%s -> %s)", p, b, a)
		}
	}
	for p, a := range after {
		if _, ok := before[p]; !ok {
			return fmt.Sprintf("created: %s (%s)", p, a)
		}
	}
	return ""
}

// ---- the call ----

func fzFrames(stack []byte) string {
	var keep []string
	lines := strings.Split(string(stack), "\n")
	for i := 0; i+1 < len(lines) && len(keep) < 8; i++ {
		l := lines[i]
		if strings.HasPrefix(l, "\t") || strings.HasPrefix(l, "goroutine") {
			continue
		}
		if strings.Contains(l, "go-archive") || strings.HasPrefix(l, "archive/tar") || strings.Contains(l, "compress") || strings.HasPrefix(l, "panic(") {
			loc := strings.TrimSpace(lines[i+1])
			if k := strings.Index(loc, " +0x"); k > 0 {
				loc = loc[:k]
			}
			keep = append(keep, strings.SplitN(l, "(", 2)[0]+" @ "+loc)
		}
	}
	return strings.Join(keep, " | ")
}

func fzDrain(rc io.ReadCloser, limit int64) (int64, error) {
	n, err := io.Copy(io.Discard, io.LimitReader(rc, limit))
	cerr := rc.Close()
	if err == nil {
		err = cerr
	}
	return n, err
}

func fzOptions(c *fzCase) *archive.TarOptions {
	if c.Opts == "nil" {
		return nil
	}
	return tarOptions(parseOptSpec(c.Opts))
}

// fzCall runs the entry point. ret is "ok" or "err"; pan is non-empty when the call panicked.
func fzCall(c *fzCase, rd io.Reader) (ret string, errText string, pan string) {
	defer func() {
		if x := recover(); x != nil {
			pan = fmt.Sprintf("%v [%s]", x, fzFrames(debug.Stack()))
		}
	}()
	var err error
	switch c.EP {
	case "cu":
		err = chrootarchive.Untar(rd, c.Dest, fzOptions(c))
	case "cuu":
		err = chrootarchive.UntarUncompressed(rd, c.Dest, fzOptions(c))
	case "cur":
		err = chrootarchive.UntarWithRoot(rd, c.Dest, fzOptions(c), c.Root)
	case "cl":
		_, err = chrootarchive.ApplyLayer(c.Dest, rd)
	case "clu":
		_, err = chrootarchive.ApplyUncompressedLayer(c.Dest, rd, fzOptions(c))
	case "pu":
		err = archive.Untar(rd, c.Dest, fzOptions(c))
	case "puu":
		err = archive.UntarUncompressed(rd, c.Dest, fzOptions(c))
	case "pl":
		_, err = archive.ApplyLayer(c.Dest, rd)
	case "plu":
		_, err = archive.ApplyUncompressedLayer(c.Dest, rd, fzOptions(c))
	case "ie":
		_, err = archive.IsEmpty(rd)
	case "ap":
		if !archive.IsArchivePath("/w/in.bin") {
			err = errors.New("not an archive")
		}
	case "ds", "dsp":
		var rc io.ReadCloser
		rc, err = compression.DecompressStream(rd)
		if err == nil {
			limit := int64(fzDrainCap)
			if c.EP == "dsp" && len(c.Aux) > 0 {
				limit, _ = strconv.ParseInt(c.Aux[0], 10, 64)
			}
			_, err = fzDrain(rc, limit)
		}
	case "rb":
		oldB, newB := "a", "b"
		if len(c.Aux) >= 2 {
			oldB, newB = c.Aux[0], c.Aux[1]
		}
		_, err = fzDrain(archive.RebaseArchiveEntries(rd, oldB, newB), fzDrainCap)
	case "rf":
		mods := map[string]archive.TarModifierFunc{}
		for _, a := range c.Aux {
			kv := strings.SplitN(a, "=", 2)
			if len(kv) == 2 {
				mods[kv[0]] = fzModifier(kv[1])
			}
		}
		_, err = fzDrain(archive.ReplaceFileTarWrapper(io.NopCloser(rd), mods), fzDrainCap)
	case "dt":
		for k := 0; k <= len(c.Input) && k <= 16; k++ {
			_ = compression.Detect(c.Input[:k])
		}
		_ = compression.Detect(c.Input)
		_ = compression.Detect(nil)
	default:
		return "err", "unknown entry point " + c.EP, ""
	}
	if err != nil {
		return "err", err.Error(), ""
	}
	return "ok", "", ""
}

func fzModifier(beh string) archive.TarModifierFunc {
	return func(path string, h *tar.Header, content io.Reader) (*tar.Header, []byte, error) {
		var data []byte
		if content != nil && (beh == "read" || beh == "keep") {
			data, _ = io.ReadAll(io.LimitReader(content, 1<<20)) // our own read: capped
		}
		switch beh {
		case "drop":
			return nil, nil, nil
		case "error":
			return nil, nil, errors.New("modifier refuses")
		case "rename":
			return &tar.Header{Name: "renamed/" + path, Mode: 0o600, Typeflag: tar.TypeReg}, []byte("new"), nil
		}
		if h == nil {
			return &tar.Header{Name: path, Mode: 0o644, Typeflag: tar.TypeReg}, []byte("added"), nil
		}
		return h, data, nil
	}
}

var fzProbeTar = func() []byte {
	var b bytes.Buffer
	tw := tar.NewWriter(&b)
	tw.WriteHeader(&tar.Header{Name: "probe/file", Mode: 0o640, Size: 5, Typeflag: tar.TypeReg})
	tw.Write([]byte("alive"))
	tw.Close()
	return b.Bytes()
}()

func fzProbe(chroot bool) string {
	dir := "/w/probe"
	if err := os.Mkdir(dir, 0o755); err != nil {
		return "mkdir of a fresh directory fails: " + err.Error()
	}
	var err error
	if chroot {
		err = chrootarchive.Untar(bytes.NewReader(fzProbeTar), dir, nil)
	} else {
		err = archive.Untar(bytes.NewReader(fzProbeTar), dir, nil)
	}
	if err != nil {
		return fmt.Sprintf("trivial Untar (chrooted=%v) into a fresh directory fails afterwards: %v", chroot, err)
	}
	b, err := os.ReadFile(dir + "/probe/file")
	if err != nil || string(b) != "alive" {
		return fmt.Sprintf("trivial Untar (chrooted=%v) afterwards did not produce its file: %v %q", chroot, err, b)
	}
	return ""
}

func fzRun(c *fzCase, res *JobResult) *fzOut {
	out := &fzOut{Tags: append([]string{}, c.Tags...)}
	tag := func(s string) { out.Tags = append(out.Tags, s) }
	prob := func(clause, msg string) { out.Problems = append(out.Problems, fzProb{clause, msg}) }
	setup := func(err error) *fzOut {
		res.Out, res.Err = "setup", err.Error()
		return out
	}
	out.Canon = fzCanon(c)

	if err := resetWorld(); err != nil {
		return setup(err)
	}
	if err := buildWorld(c.Nodes); err != nil {
		return setup(err)
	}
	if c.EP == "ap" {
		if err := os.WriteFile("/w/in.bin", c.Input, 0o644); err != nil {
			return setup(err)
		}
	}
	_ = strayRootEntries()
	// does the containment clause apply? (plain extractors follow symlinks by design)
	boundary, check := "", true
	ents := -1
	if fzIsExtract(c.EP) {
		boundary = c.Dest
		if fzIsChroot(c.EP) {
			boundary = c.Root
		}
	}
	if fzIsPlain(c.EP) {
		stream, ok := c.Input, true
		if fzAutoDecompress(c.EP) {
			stream, ok = fzOwnDecompress(c.Input)
		}
		if !ok {
			check = false
			tag("contain:skipped(undecodable compressed input, plain)")
		} else {
			n, sym, _ := fzParse(stream)
			ents = n
			if sym {
				check = false
				tag("contain:skipped(symlink entry, plain)")
			}
		}
	}

	before, err := fzScan("/w", boundary, -1, 1<<20)
	if err != nil {
		return setup(err)
	}
	var inBefore map[string]string
	if boundary != "" {
		inBefore, _ = fzScan(boundary, "", 4, 400)
	}
	var ms0 runtime.MemStats
	runtime.ReadMemStats(&ms0)
	unix.Umask(0o022)
	// both gzip paths: the external unpigz helper and the built-in reader (chosen by the case's own seed, so a
	// replay takes the same path)
	if (c.RSeed>>7)&1 == 1 {
		os.Setenv("MOBY_DISABLE_PIGZ", "1")
		tag("gzip:builtin")
	} else {
		os.Unsetenv("MOBY_DISABLE_PIGZ")
		tag("gzip:unpigz")
	}
	t0 := time.Now()
	ret, errText, pan := fzCall(c, fzReader(c))
	el := time.Since(t0)
	um := unix.Umask(0o022)
	var ms1 runtime.MemStats
	runtime.ReadMemStats(&ms1)
	out.Ret, out.ErrText = ret, errText

	tag("ep:" + c.EP)
	tag("ret:" + c.EP + ":" + ret)
	tag("rd:" + c.Reader)
	if c.Opts == "nil" {
		tag("opts:nil")
	}
	switch {
	case el > 5*time.Second:
		tag("time:>5s")
	case el > time.Second:
		tag("time:1-5s")
	case el > 100*time.Millisecond:
		tag("time:0.1-1s")
	default:
		tag("time:<0.1s")
	}
	out.AllocMiB = int((ms1.TotalAlloc - ms0.TotalAlloc) >> 20)
	out.VmMiB = fzVmMiB()
	out.CallMs = el.Milliseconds()
	switch {
	case out.AllocMiB > 256:
		tag("alloc:>256MiB")
	case out.AllocMiB > 16:
		tag("alloc:16-256MiB")
	}
	if out.AllocMiB > fzAllocCeilingMiB {
		prob("bounded-memory", fmt.Sprintf("%s allocated %d MiB while reading an input of %d bytes (allocation proportional to a declared size?)", c.EP, out.AllocMiB, len(c.Input)))
	}
	if pan != "" {
		out.Ret = "err"
		prob("no-panic", c.EP+" panicked: "+pan)
	}
	if um != 0o022 {
		prob("usable", fmt.Sprintf("%s left the process umask at %04o (was 0022)", c.EP, um))
	}
	if wd, err := os.Getwd(); err != nil || wd != "/" {
		prob("usable", fmt.Sprintf("%s left the working directory at %q (%v)", c.EP, wd, err))
	}
	stray := strayRootEntries()
	if stray != "" && check {
		prob("contained", c.EP+" ("+ret+"): objects appeared in the arena root or /tmp: "+stray)
	}
	after, scanErr := fzScan("/w", boundary, -1, 1<<20)
	if check {
		what := "outside " + boundary
		if boundary == "" {
			what = "in the world (this entry point writes nothing)"
		}
		if scanErr != nil {
			// the world outside the boundary is ours and shallow: a failing scan means it was tampered with
			prob("contained", fmt.Sprintf("%s (%s): %s cannot be scanned afterwards: %v", c.EP, ret, what, scanErr))
		} else if d := fzScanDiff(before, after); d != "" {
			prob("contained", fmt.Sprintf("%s (%s): %s %s", c.EP, ret, what, d))
		}
		tag("contain:checked:" + ret)
	}
	if boundary != "" {
		inAfter, _ := fzScan(boundary, "", 4, 400)
		if fzScanDiff(inBefore, inAfter) != "" {
			tag("effect:inside-changed:" + ret)
		} else {
			tag("effect:none:" + ret)
		}
	}
	if ents < 0 {
		if stream, ok := fzOwnDecompress(c.Input); ok {
			ents, _, _ = fzParse(stream)
		}
	}
	switch {
	case ents < 0:
		tag("entries:undecodable")
	case ents == 0:
		tag("entries:0")
	case ents == 1:
		tag("entries:1")
	case ents < 5:
		tag("entries:2-4")
	default:
		tag("entries:5+")
	}
	out.Trivial = ents <= 0 && ret == "ok"

	// the process is still usable
	if err := resetWorld(); err != nil {
		prob("usable", "world cannot be emptied afterwards: "+err.Error())
		return out
	}
	if m := fzProbe(false); m != "" {
		prob("usable", "after "+c.EP+" ("+ret+"): "+m)
	}
	if fzIsChroot(c.EP) && (ret == "err" || c.RSeed%4 == 0) {
		_ = resetWorld()
		if m := fzProbe(true); m != "" {
			prob("usable", "after "+c.EP+" ("+ret+"): "+m)
		}
		tag("probe:chrooted")
	}
	if st, err := os.Stat("/w"); err != nil || !st.IsDir() {
		prob("usable", "the process no longer sees its root: /w is gone")
	}
	return out
}
