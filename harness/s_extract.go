package main

import (
	"archive/tar"
	"fmt"
	"path/filepath"
	"sort"
	"strconv"
	"strings"
	"time"
)

// Stream "extract": the extractor mechanism models (Lean: untarP, applyLayerP, chrootUntarP,
// chrootApplyLayerP) against the real Untar / ApplyLayer / chrootarchive entry points, plus the
// independent oracles of C01 (nothing outside the root changes) and C02 (escaping entries are
// refused; symlink-free containment) evaluated on the real outcome only.
func init() {
	subcmds["extract"] = func(cfg *Config) *Result { return runExtract(cfg, "mixed") }
	subcmds["extract-chroot"] = func(cfg *Config) *Result { return runExtract(cfg, "chroot") }
	subcmds["extract-plain"] = func(cfg *Config) *Result { return runExtract(cfg, "plain") }
	subcmds["extract-layer"] = func(cfg *Config) *Result { return runExtract(cfg, "layer") }
	subcmds["extract-untar"] = func(cfg *Config) *Result { return runExtract(cfg, "untar") }
}

var comps = []string{"a", "b", "c", "d", "e"}
var capRev2 = "\x00\x00\x00\x02\x01\x00\x00\x00\x00\x00\x00\x00\x00\x00\x00\x00\x00\x00\x00\x00"

type genCtx struct {
	r        *Rng
	hostile  bool
	symlinks bool
	layer    bool
	denorm   bool // spell some names non-canonically (exclusion prefixes are in force)
}

func (g *genCtx) comp() string {
	r := g.r
	if g.hostile && r.chance(1, 8) {
		return r.pick([]string{"..", ".", "", "dest2", "dest", ".wh.a"})
	}
	if g.layer && r.chance(1, 10) {
		return r.pick([]string{".wh.a", ".wh.b", ".wh..wh..opq", ".wh.c", ".wh.", ".wh..", ".wh..wh."})
	}
	return r.pick(comps)
}

func (g *genCtx) relName(maxDepth int) string {
	n := 1 + g.r.intn(maxDepth)
	var cs []string
	for i := 0; i < n; i++ {
		cs = append(cs, g.comp())
	}
	s := strings.Join(cs, "/")
	if g.hostile && g.r.chance(1, 25) {
		// names that clean to the destination itself
		return g.r.pick([]string{"/", "//", "./", ".", "a/..", "a/../", "/.", "b/../."})
	}
	if g.hostile && g.r.chance(1, 16) {
		// names of directories that exist next to the destination
		return g.r.pick([]string{"../outdir", "../outdir/", "../dest2/", "../", "a/../../outdir/", "../outdir/."})
	}
	if g.hostile && g.r.chance(1, 12) {
		s = "/" + s
	}
	if g.hostile && g.r.chance(1, 14) {
		s = "../" + s
	}
	return s
}

var idPool = []int{0, 0, 0, 1, 7, 1000, 1001, 65534, 100000, 100005, 165535, 165536}
var timePool = []int64{0, 1, 1000000000, 1700000000, 1700000001, -1000, -1, 9223372036, 9223372037, 1 << 40}
var permPool = []uint32{0o644, 0o755, 0o600, 0o700, 0o4755, 0o2755, 0o6711, 0o1777, 0o2770, 0o000, 0o777, 0o4711, 0o2644}

// genTree makes a prior tree under base.
func (g *genCtx) genTree(base string, size int, mt *int64) []Node {
	r := g.r
	var out []Node
	have := map[string]byte{}
	add := func(n Node) {
		if _, ok := have[n.Path]; ok {
			return
		}
		// parents must exist as directories
		par := filepath.Dir(n.Path)
		if par != base {
			if k, ok := have[par]; !ok || k != 'd' {
				return
			}
		}
		have[n.Path] = n.Kind
		*mt++
		n.Mtime = *mt
		out = append(out, n)
	}
	group := 0
	treeComp := func() string {
		if r.chance(1, 9) {
			return r.pick([]string{".cfg", ".wh.a", ".wh..wh..opq", ".x", "a.b"})
		}
		return r.pick(comps)
	}
	for i := 0; i < size; i++ {
		depth := 1 + r.intn(3)
		p := base
		for d := 0; d < depth; d++ {
			p = p + "/" + treeComp()
			if d < depth-1 {
				add(Node{Path: p, Kind: 'd', Perm: r.pickPerm(true), Uid: r.pickID(), Gid: r.pickID()})
			}
		}
		switch k := r.intn(20); {
		case k < 6:
			add(Node{Path: p, Kind: 'd', Perm: r.pickPerm(true), Uid: r.pickID(), Gid: r.pickID(), Opq: r.chance(1, 8)})
		case k < 13:
			n := Node{Path: p, Kind: 'r', Perm: r.pickPerm(false), Uid: r.pickID(), Gid: r.pickID(), Data: randData(r)}
			if r.chance(1, 8) {
				n.Cap = capRev2
			}
			if r.chance(1, 5) {
				group++
				n.Group = group
				add(n)
				for k := 1 + r.intn(3); k > 0; k-- {
					n2 := n
					n2.Path = filepath.Dir(p) + "/" + r.pick(comps) + r.pick([]string{"l", "m", "n"})
					add(n2)
				}
			} else {
				add(n)
			}
		case k < 16:
			if g.symlinks {
				t := r.pick([]string{"a", "../b", "../../secret", "/w/secret", "/w/outdir", "../../outdir", "nonexistent", "/w/dest2", ".", "..", "/", "b/c", "/w/dest/a"})
				n := Node{Path: p, Kind: 's', Perm: 0o777, Uid: r.pickID(), Gid: r.pickID(), Target: t}
				if r.chance(1, 4) {
					group++
					n.Group = group
					add(n)
					n.Path = filepath.Dir(p) + "/" + r.pick(comps) + "k"
				}
				add(n)
			} else {
				add(Node{Path: p, Kind: 'r', Perm: 0o644, Data: "x"})
			}
		case k < 17:
			n := Node{Path: p, Kind: 'f', Perm: r.pickPerm(false), Uid: r.pickID(), Gid: r.pickID()}
			if r.chance(1, 3) {
				group++
				n.Group = group
				add(n)
				n.Path = filepath.Dir(p) + "/" + r.pick(comps) + "k"
			}
			add(n)
		case k < 18:
			n := Node{Path: p, Kind: 'c', Perm: 0o644, Maj: uint32(r.intn(3)), Min: uint32(r.intn(3))}
			if r.chance(1, 3) {
				group++
				n.Group = group
				add(n)
				n.Path = filepath.Dir(p) + "/" + r.pick(comps) + "k"
			}
			add(n)
		default:
			add(Node{Path: p, Kind: 'r', Perm: 0o644, Data: ""})
		}
	}
	return out
}

func (r *Rng) pickPerm(dir bool) uint32 {
	if r.chance(1, 2) {
		if dir {
			return 0o755
		}
		return 0o644
	}
	return permPool[r.intn(len(permPool))]
}
func (r *Rng) pickID() int { return idPool[r.intn(len(idPool))] }

func randData(r *Rng) string {
	// now and then a body at a copy-buffer boundary: all zero, or ending in a zero block
	if r.chance(1, 60) {
		n := []int{32768, 65536, 32769}[r.intn(3)]
		b := make([]byte, n)
		if r.chance(1, 2) {
			for i := 0; i < n-32768; i++ {
				b[i] = byte('a' + i%26)
			}
		}
		return string(b)
	}
	n := r.intn(12)
	b := make([]byte, n)
	for i := range b {
		b[i] = byte('a' + r.intn(26))
	}
	return string(b)
}

func (g *genCtx) genEntries(n int, existing []string) ([]*tar.Header, []string) {
	r := g.r
	var hdrs []*tar.Header
	var bodies []string
	var names []string
	stagedNames := []string{}
	for i := 0; i < n; i++ {
		h := &tar.Header{Mode: int64(r.pickPerm(false)), Uid: r.pickID(), Gid: r.pickID(),
			ModTime: time.Unix(timePool[r.intn(len(timePool))], 0)}
		body := ""
		name := g.relName(3)
		if len(existing) > 0 && r.chance(1, 4) {
			name = existing[r.intn(len(existing))]
		}
		if len(names) > 0 && r.chance(1, 6) {
			name = names[r.intn(len(names))] // duplicate
			if r.chance(1, 2) {
				name = strings.TrimSuffix(name, "/") + "/" + r.pick(comps)
			}
		}
		k := r.intn(100)
		switch {
		case k < 30:
			h.Typeflag = tar.TypeReg
			body = randData(r)
			if r.chance(1, 10) {
				h.PAXRecords = map[string]string{"SCHILY.xattr.security.capability": capRev2}
			}
			if r.chance(1, 14) {
				if h.PAXRecords == nil {
					h.PAXRecords = map[string]string{}
				}
				h.PAXRecords["SCHILY.xattr.user.k"] = "v1"
			}
		case k < 52:
			h.Typeflag = tar.TypeDir
			h.Mode = int64(r.pickPerm(true))
			if !strings.HasSuffix(name, "/") && r.chance(1, 2) {
				name += "/"
			}
		case k < 64:
			h.Typeflag = tar.TypeSymlink
			h.Linkname = r.pick([]string{"a", "b/c", "../a", "../../x", "../../../secret", "/w/secret", "/w/outdir", ".", "..", "../dest2/f", "../../dest2", "x/../../..", "/w/dest2", "c"})
			if g.hostile && r.chance(1, 3) {
				h.Linkname = g.relName(3)
			}
		case k < 76:
			h.Typeflag = tar.TypeLink
			if len(names) > 0 && r.chance(2, 3) {
				h.Linkname = names[r.intn(len(names))]
			} else if len(existing) > 0 && r.chance(1, 2) {
				h.Linkname = existing[r.intn(len(existing))]
			} else {
				h.Linkname = r.pick([]string{"a", "../dest2/f", "../secret", "/w/secret", "..", "a/../../dest2/f", "b", "../dest/a", "/a"})
			}
			if g.hostile && r.chance(1, 6) {
				// an absolute link name that climbs: the same name as an earlier entry or an existing file, spelled so
				// that it leaves the destination unless ".." is resolved before the join
				t := "a"
				if len(names) > 0 && r.chance(1, 2) {
					t = names[r.intn(len(names))]
				} else if len(existing) > 0 {
					t = existing[r.intn(len(existing))]
				}
				h.Linkname = r.pick([]string{"/../", "//..//", "/x/../../", "/../../"}) + strings.TrimLeft(t, "/")
			}
			if g.layer && len(stagedNames) > 0 && r.chance(1, 2) {
				h.Linkname = ".wh..wh.plnk/" + stagedNames[r.intn(len(stagedNames))]
			}
			if g.layer && r.chance(1, 8) {
				// the way AUFS itself stores a whiteout: a hard link to its one whiteout inode
				t := "a"
				if len(existing) > 0 {
					t = existing[r.intn(len(existing))]
				}
				t = strings.TrimSuffix(t, "/")
				if i := strings.LastIndex(t, "/"); i >= 0 {
					name = t[:i+1] + ".wh." + t[i+1:]
				} else {
					name = ".wh." + t
				}
				h.Linkname = ".wh..wh.aufs"
			}
		case k < 80:
			h.Typeflag = tar.TypeFifo
		case k < 84:
			h.Typeflag = tar.TypeChar
			h.Devmajor, h.Devminor = int64(r.intn(3)), int64(r.intn(4))
		case k < 86:
			h.Typeflag = tar.TypeBlock
			h.Devmajor, h.Devminor = int64(r.intn(3)), int64(r.intn(4))
		case k < 88:
			h = &tar.Header{Typeflag: tar.TypeXGlobalHeader, PAXRecords: map[string]string{"comment": "x"}}
		case k < 89:
			h.Typeflag = 'Z'
		default:
			if g.layer {
				// whiteouts, opaque markers, staging area
				switch r.intn(6) {
				case 0, 1:
					d := ""
					if r.chance(1, 2) {
						d = r.pick(comps) + "/"
					}
					name = d + ".wh." + g.comp()
					h.Typeflag = tar.TypeReg
				case 2:
					d := ""
					if r.chance(2, 3) {
						d = r.pick(comps) + "/"
					}
					name = d + ".wh..wh..opq"
					h.Typeflag = tar.TypeReg
				case 3, 4:
					sn := "f" + strconv.Itoa(r.intn(3))
					name = ".wh..wh.plnk/" + sn
					stagedNames = append(stagedNames, sn)
					h.Typeflag = tar.TypeReg
					body = randData(r)
				default:
					name = r.pick([]string{".wh..wh.aufs", ".wh..wh.orph/x", ".wh..wh.plnk", ".wh..."})
					h.Typeflag = r.pickTyp()
				}
			} else {
				h.Typeflag = tar.TypeReg
				body = randData(r)
			}
		}
		if g.denorm && r.chance(1, 4) && !strings.HasPrefix(name, "/") {
			// the same path spelled differently: exclusion is decided on the cleaned name
			name = r.pick([]string{"./", "zz/../", "./././", "a/b/../../"}) + name
		}
		h.Name = name
		if h.Typeflag == tar.TypeReg {
			h.Size = int64(len(body))
		}
		names = append(names, strings.TrimSuffix(name, "/"))
		hdrs = append(hdrs, h)
		bodies = append(bodies, body)
	}
	return hdrs, bodies
}

func (r *Rng) pickTyp() byte {
	return []byte{tar.TypeReg, tar.TypeDir, tar.TypeSymlink}[r.intn(3)]
}

func (g *genCtx) genOpts(op string) OptSpec {
	r := g.r
	var o OptSpec
	if r.chance(1, 2) {
		return o
	}
	if r.chance(1, 4) {
		o.NoLchown = true
	}
	if r.chance(1, 5) {
		o.Chown = &[2]int{r.pickID(), r.pickID()}
	}
	if strings.HasPrefix(op, "untar") {
		if r.chance(1, 4) {
			o.NoOverwrite = true
		}
		if r.chance(1, 5) {
			o.Excludes = []string{r.pick([]string{"a", "a/b", "b/", "c", ".."})}
		}
		if r.chance(1, 6) {
			o.Overlay = true
		}
	}
	if r.chance(1, 4) {
		o.UidMap = []IDRange{{0, 100000, 65536}}
		o.GidMap = []IDRange{{0, 100000, 65536}}
		if r.chance(1, 3) {
			o.UidMap = []IDRange{{0, 1000, 1}, {1, 100000, 65535}}
			o.GidMap = []IDRange{{0, 1001, 1}, {1, 200000, 1000}}
		}
		if r.chance(1, 5) {
			// a map that does not cover container root: 0:0-owned entries are untranslatable
			o.UidMap = []IDRange{{1000, 100000, 1000}}
			o.GidMap = []IDRange{{1000, 100000, 1000}}
			if r.chance(1, 2) {
				o.GidMap = []IDRange{{0, 200000, 2000}}
			}
		}
	}
	if r.chance(1, 8) {
		o.UserNS = true
	}
	if r.chance(1, 8) {
		o.BestEffort = true
	}
	return o
}

// genCase builds one extraction case. family: mixed | chroot | plain | layer | untar
func genFsCase(r *Rng, family string) *FsCase {
	g := &genCtx{r: r}
	g.hostile = r.chance(1, 2)
	g.symlinks = r.chance(3, 5)
	var op string
	switch family {
	case "chroot":
		op = r.pick([]string{"untar-chroot", "untar-chroot", "layer-chroot"})
		g.hostile = r.chance(3, 4)
		g.symlinks = r.chance(4, 5)
	case "plain":
		op = r.pick([]string{"untar", "layer"})
	case "layer":
		op = r.pick([]string{"layer", "layer", "layer-chroot"})
	case "untar":
		op = r.pick([]string{"untar", "untar", "untar-chroot"})
	default:
		op = r.pick([]string{"untar", "layer", "untar-chroot", "layer-chroot"})
	}
	g.layer = strings.HasPrefix(op, "layer")
	c := &FsCase{Op: op, Umask: 0o022}
	if r.chance(1, 3) {
		// the umask of the moment of the call, not the one the process started with
		c.Umask = []int{0o077, 0o027, 0, 0o002, 0o177}[r.intn(5)]
	}
	mt := int64(2000000)
	dest := "/w/dest"
	root := ""
	world := []Node{
		{Path: "/w/dest2", Kind: 'd', Perm: 0o755, Mtime: 1500},
		{Path: "/w/dest2/f", Kind: 'r', Perm: 0o600, Uid: 5, Gid: 6, Data: "sibling", Mtime: 1501},
		{Path: "/w/secret", Kind: 'r', Perm: 0o4755, Uid: 0, Gid: 0, Data: "topsecret", Mtime: 1502, Cap: capRev2},
		{Path: "/w/outdir", Kind: 'd', Perm: 0o2770, Uid: 9, Gid: 9, Mtime: 1503},
		{Path: "/w/outdir/of", Kind: 'r', Perm: 0o644, Data: "out", Mtime: 1504},
	}
	switch op {
	case "untar-chroot":
		if r.chance(1, 2) {
			root = dest
		} else {
			root = "/w/root"
			dest = r.pick([]string{"/w/root/sub", "/w/root", "/w/root/sub/deep", "/w/root/a"})
			world = append(world, Node{Path: "/w/root", Kind: 'd', Perm: 0o755, Mtime: 1600})
			if dest != root && r.chance(5, 6) {
				world = append(world, Node{Path: "/w/root/sub", Kind: 'd', Perm: 0o755, Mtime: 1601})
				if dest == "/w/root/sub/deep" && r.chance(4, 5) {
					world = append(world, Node{Path: dest, Kind: 'd', Perm: 0o711, Uid: 3, Gid: 4, Mtime: 1602})
				}
			}
			if r.chance(1, 2) {
				world = append(world, g.genTree("/w/root", 2+r.intn(4), &mt)...)
			}
			switch r.intn(8) {
			case 0, 1:
				// the destination lies behind a symlink planted under the root that points outside it
				world = append(world, Node{Path: "/w/root/lnk", Kind: 's', Perm: 0o777, Target: r.pick([]string{"/w/outdir", "../outdir", "../dest2", "/w", ".."}), Mtime: 1603})
				dest = r.pick([]string{"/w/root/lnk/new", "/w/root/lnk", "/w/root/lnk/new/deeper", "/w/root/lnk/of"})
			case 2:
				// the root is not a directory: the jail cannot be set up and nothing may run
				root = r.pick([]string{"/w/secret", "/w/missing"})
				dest = root + r.pick([]string{"", "/sub"})
				c.Args = []string{"settle"}
			}
		}
	case "layer-chroot":
		root = dest
	}
	if dest == "/w/dest" {
		world = append(world, Node{Path: "/w/dest", Kind: 'd', Perm: uint32(r.pick2(0o755, 0o2775, 0o700)), Uid: r.pick2(0, 0, 1000), Gid: r.pick2(0, 0, 50), Mtime: 1700})
		world = append(world, g.genTree("/w/dest", r.intn(9), &mt)...)
	}
	// a file of the destination that has a second name outside it (a hard link across the boundary): whatever an
	// entry does to the inside name, the outside name keeps its object as it was
	if dest == "/w/dest" && (op == "untar" || op == "layer") && r.chance(1, 4) {
		maxg := 0
		for _, n := range world {
			if n.Group > maxg {
				maxg = n.Group
			}
		}
		for i := range world {
			if world[i].Kind == 'r' && strings.HasPrefix(world[i].Path, "/w/dest/") && world[i].Group == 0 {
				world[i].Group = maxg + 1
				twin := world[i]
				twin.Path = "/w/outdir/hl" + fmt.Sprint(r.intn(3))
				world = append(world, twin)
				break
			}
		}
	}
	// de-duplicate paths (later wins is not meaningful here: keep first)
	seen := map[string]bool{}
	for _, n := range world {
		if !seen[n.Path] {
			seen[n.Path] = true
			c.Nodes = append(c.Nodes, n)
		}
	}
	sort.SliceStable(c.Nodes, func(i, j int) bool { return c.Nodes[i].Path < c.Nodes[j].Path })
	c.Dest, c.Root = dest, root
	var existing []string
	for _, n := range c.Nodes {
		if strings.HasPrefix(n.Path, dest+"/") {
			existing = append(existing, strings.TrimPrefix(n.Path, dest+"/"))
		}
	}
	c.Opts = g.genOpts(op)
	if c.Opts.Overlay {
		g.layer = true // whiteout-named entries are what the overlay converter acts on
	}
	g.denorm = len(c.Opts.Excludes) > 0
	c.Hdrs, c.Bodies = g.genEntries(1+r.intn(7), existing)
	// a destination whose own name looks like a whiteout or an opaque marker, with an entry that names the
	// destination itself: the guards on the whiteout's directory and target are what keeps the siblings safe
	if (op == "layer" || op == "untar") && dest == "/w/dest" && r.chance(1, 14) {
		nd := r.pick([]string{"/w/.wh..wh..opq", "/w/.wh.dest2", "/w/.wh.secret", "/w/.wh.outdir", "/w/.wh.fresh", "/w/.wh.fresh"})
		if r.chance(1, 2) {
			c.Opts.Overlay = true // the overlay converter derives paths from the entry's path: also from the destination's own name
		}
		for i := range c.Nodes {
			if c.Nodes[i].Path == "/w/dest" {
				c.Nodes[i].Path = nd
			} else if strings.HasPrefix(c.Nodes[i].Path, "/w/dest/") {
				c.Nodes[i].Path = nd + strings.TrimPrefix(c.Nodes[i].Path, "/w/dest")
			}
		}
		sort.SliceStable(c.Nodes, func(i, j int) bool { return c.Nodes[i].Path < c.Nodes[j].Path })
		c.Dest = nd
		h := &tar.Header{Name: r.pick([]string{"./", ".", "a/..", "a/../"}), Typeflag: tar.TypeDir, Mode: 0o755, ModTime: time.Unix(1700000000, 0)}
		at := r.intn(len(c.Hdrs) + 1)
		c.Hdrs = append(c.Hdrs[:at], append([]*tar.Header{h}, c.Hdrs[at:]...)...)
		c.Bodies = append(c.Bodies[:at], append([]string{""}, c.Bodies[at:]...)...)
	}
	// chrooted entry points: host-side twins of what the archive names (see plantTwins), and now and then an
	// archive with many directories — work handed to other threads in batches only shows with enough of them
	if root != "" && (op == "untar-chroot" || op == "layer-chroot") {
		c.Args = append(c.Args, "twins")
		if root == dest && r.chance(1, 25) {
			n := 70 + r.intn(90)
			var hs []*tar.Header
			var bs []string
			for i := 0; i < n; i++ {
				hs = append(hs, &tar.Header{Name: fmt.Sprintf("tw/d%03d/", i), Typeflag: tar.TypeDir, Mode: 0o755, ModTime: time.Unix(1600000000+int64(i), 0)})
				bs = append(bs, "")
			}
			c.Hdrs = append(hs, c.Hdrs...)
			c.Bodies = append(bs, c.Bodies...)
		}
	}
	return c
}

func (r *Rng) pick2(a, b, c int) int { return []int{a, b, c}[r.intn(3)] }

func (c *FsCase) job(id int) Job {
	return Job{ID: id, Kind: "fs", Op: c.Op, Opts: c.Opts.String(), Dest: c.Dest, Root: c.Root, Umask: c.Umask,
		Nodes: c.Nodes, Archive: c.Archive, Gzip: c.Gzip, Args: c.Args}
}

func runExtract(cfg *Config, family string) *Result {
	res := newResult("random (prior world with planted symlinks/hard links/devices, entry list with hostile names, duplicates, links, whiteouts, staging area, option set) cases over the four extraction entry points, family=" + family +
		"; non-trivial = the archive has ≥2 entries or changes the tree; distinct by case line hash")
	rng := newRng(cfg.Seed ^ uint64(len(family))<<32)
	n := cfg.count(1500, 20000)
	var cases []*FsCase
	var jobs []Job
	var lines []string
	if cfg.Replay != "" {
		rc, err := loadReplayCase(cfg.Replay)
		if err != nil {
			res.SetupError = err.Error()
			return res
		}
		cases = append(cases, rc)
	} else {
		for i := 0; i < n; i++ {
			c := genFsCase(rng.fork(), family)
			if err := c.encode(); err != nil {
				res.count("gen-skip:" + truncate(err.Error(), 160))
				continue
			}
			cases = append(cases, c)
		}
	}
	for i, c := range cases {
		jobs = append(jobs, c.job(i))
		lines = append(lines, c.line())
	}
	res.Evaluations = len(cases)
	modelOut, err := runDriver(cfg.Driver, lines)
	if err != nil {
		res.SetupError = err.Error()
		return res
	}
	results := runArena(cfg, jobs, 20*time.Second)
	sigShown := map[string]int{}
	for i, c := range cases {
		jr := results[i]
		res.count("op:" + c.Op)
		res.count("impl:" + jr.Out)
		for _, e := range c.Ents {
			res.count("typ:" + e.Typ)
		}
		if jr.Out == "setup" || jr.ID < 0 {
			res.SetupError = fmt.Sprintf("case %d: %s", i, jr.Err)
			return res
		}
		caseText := encodeReplayCase(c)
		if jr.Out == "panic" || jr.Out == "hang" {
			res.problem(Problem{Kind: "oracle", Stream: "extract", Case: caseText, Impl: jr.Out, Msg: "extractor " + jr.Out + ": " + jr.Err})
			continue
		}
		implLine := fmt.Sprintf("%s %d %s", jr.Out, jr.Size, jr.After)
		impl, err1 := parseOutcome(implLine)
		model, err2 := parseOutcome(modelOut[i])
		if err1 != nil || err2 != nil {
			res.problem(Problem{Kind: "correspondence", Stream: "extract", Case: caseText, Impl: truncate(implLine, 300), Model: truncate(modelOut[i], 300), Msg: fmt.Sprint("unparsable outcome ", err1, err2)})
			continue
		}
		res.count("model:" + model.Out)
		res.Compared++
		if d := diffOutcomes(impl, model); d != "" {
			kind, msg := "correspondence", d
			// for C05 / C06 the property IS "the result equals the reference model": a differing case is the failing input
			if family == "untar" && c.Op == "untar" {
				kind, msg = "oracle", "C05: extraction result differs from the reference merge model: "+d
			}
			if family == "layer" && (c.Op == "layer" || c.Op == "layer-chroot") {
				kind, msg = "oracle", "C06: layer apply differs from the reference whiteout model: "+d
			}
			res.problem(Problem{Kind: kind, Stream: "extract", Case: caseText, Impl: jr.Out + " " + truncate(jr.Err, 200), Model: model.Out,
				Msg: msg})
		}
		if (c.Op == "layer" || c.Op == "layer-chroot") && jr.Out == "ok" {
			var sum int64
			for _, e := range c.Ents {
				sum += e.Size
			}
			if jr.Size != sum {
				res.problem(Problem{Kind: "oracle", Stream: "extract", Case: caseText, Msg: fmt.Sprintf("C06: returned size %d, sum of declared sizes %d", jr.Size, sum)})
			}
		}
		if len(c.Ents) >= 2 || jr.Before != jr.After {
			res.nontrivial(lines[i])
		}
		// independent oracles on the real outcome
		for _, p := range oracleExtract(c, &jr) {
			p.Case = caseText
			res.problem(p)
		}
		if family == "untar" {
			b, e1 := parseOutcome("x 0 " + jr.Before)
			a, e2 := parseOutcome("x 0 " + jr.After)
			if e1 == nil && e2 == nil {
				ps := oracleLastEntryWins(c, b, a, jr.Out)
				if c.Op == "untar" && jr.Out == "ok" {
					res.count("last-wins-evaluated")
				}
				for _, p := range ps {
					p.Case = caseText
					res.problem(p)
				}
			}
		}
		if family == "layer" {
			b, e1 := parseOutcome("x 0 " + jr.Before)
			a, e2 := parseOutcome("x 0 " + jr.After)
			if e1 == nil && e2 == nil {
				for _, p := range oracleLayerSpec(c, b, a, jr.Out) {
					p.Case = caseText
					res.count("layer-spec:" + p.Sig)
					if p.Sig != "" && sigShown[p.Sig] >= 2 {
						continue // known findings must not fill the problem list
					}
					sigShown[p.Sig]++
					res.problem(p)
				}
			}
		}
		if i < 3 {
			res.sample(truncate(lines[i], 400) + " => " + truncate(implLine, 200))
		}
	}
	return res
}
