package main

import (
	"bytes"
	"encoding/json"
	"fmt"
	"hash/fnv"
	"os"
	"path/filepath"
	"sort"
	"strconv"
	"strings"

	"golang.org/x/sys/unix"

	archive "github.com/moby/go-archive"
)

// Arena side of stream "changes" (property C10): everything that touches the filesystem.
// A case is identified by a short text ("dirs:<shape>:<storage>:<seed>", "readdir:<seed>",
// "layers:<seed>"); the whole case (trees, mutations, creation order) is derived from that seed
// inside the child, so a replay needs nothing but the text.

func init() { jobKinds["changes"] = runChangesJob }

type chgProb struct {
	Msg string `json:"msg"`
	Sig string `json:"sig,omitempty"`
}

type chgOut struct {
	Problems []chgProb      `json:"problems,omitempty"`
	Counts   map[string]int `json:"counts"`
	Canon    string         `json:"canon"`
	Nontriv  bool           `json:"nontriv"`
	Sample   string         `json:"sample,omitempty"`
	Notes    []string       `json:"notes,omitempty"`
	TreeLine string         `json:"tree_line,omitempty"` // model input: the two collected FileInfo trees
	TreeGot  []string       `json:"tree_got,omitempty"`  // what Changes returned on exactly those trees, in order
}

func (o *chgOut) count(k string)      { o.Counts[k]++ }
func (o *chgOut) add(k string, n int) { o.Counts[k] += n }
func (o *chgOut) problem(msg string)  { o.problemSig(msg, "") }
func (o *chgOut) note(msg string)     { o.Notes = append(o.Notes, msg) }
func (o *chgOut) problemSig(msg, sig string) {
	if len(o.Problems) < 8 {
		o.Problems = append(o.Problems, chgProb{Msg: msg, Sig: sig})
	}
}

const (
	chgOld = "/w/o"
	chgNew = "/w/n"
)

func runChangesJob(j *Job, res *JobResult) {
	out := &chgOut{Counts: map[string]int{}}
	defer func() {
		// never leave a mount behind, whatever happened
		chgUnmountAll()
		if r := recover(); r != nil {
			res.Out = "panic"
			res.Err = fmt.Sprint(r)
			return
		}
	}()
	chgUnmountAll()
	if err := resetWorld(); err != nil {
		res.Out, res.Err = "setup", "reset: "+err.Error()
		return
	}
	if len(j.Args) < 1 {
		res.Out, res.Err = "setup", "no case"
		return
	}
	f := strings.Split(j.Args[0], ":")
	var err error
	switch {
	case f[0] == "dirs" && len(f) == 4:
		seed, e := strconv.ParseUint(f[3], 10, 64)
		if e != nil {
			err = e
			break
		}
		err = chgRunDirs(f[1], f[2], seed, out)
	case f[0] == "readdir" && len(f) == 2:
		seed, e := strconv.ParseUint(f[1], 10, 64)
		if e != nil {
			err = e
			break
		}
		err = chgRunReaddir(seed, out)
	case f[0] == "layers" && len(f) == 2 && f[1] == "probe":
		err = chgLayersProbe(out)
	case f[0] == "layers" && len(f) == 2:
		seed, e := strconv.ParseUint(f[1], 10, 64)
		if e != nil {
			err = e
			break
		}
		err = chgRunLayers(seed, out)
	default:
		err = fmt.Errorf("bad case %q", j.Args[0])
	}
	if err != nil {
		res.Out, res.Err = "setup", err.Error()
		return
	}
	b, _ := json.Marshal(out)
	res.Out = "ok"
	res.Extra = string(b)
}

var chgMounts []string

// chgUnmountAll detaches every mount below /w (left by this or an earlier, crashed, case).
func chgUnmountAll() {
	for i := len(chgMounts) - 1; i >= 0; i-- {
		_ = unix.Unmount(chgMounts[i], unix.MNT_DETACH)
	}
	chgMounts = nil
	b, err := os.ReadFile("/proc/self/mountinfo")
	if err != nil {
		return
	}
	var pts []string
	for _, l := range strings.Split(string(b), "\n") {
		f := strings.Split(l, " ") // the kernel escapes space, tab, newline and backslash only
		if len(f) > 4 && strings.HasPrefix(f[4], "/w/") {
			pts = append(pts, chgUnescapeMount(f[4]))
		}
	}
	sort.Slice(pts, func(i, j int) bool { return len(pts[i]) > len(pts[j]) })
	for _, p := range pts {
		_ = unix.Unmount(p, unix.MNT_DETACH)
	}
}

func chgUnescapeMount(s string) string {
	var b []byte
	for i := 0; i < len(s); i++ {
		if s[i] == '\\' && i+3 < len(s) {
			if v, err := strconv.ParseUint(s[i+1:i+4], 8, 8); err == nil {
				b = append(b, byte(v))
				i += 3
				continue
			}
		}
		b = append(b, s[i])
	}
	return string(b)
}

// ---------------------------------------------------------------------------------------------
// abstract pair of trees

type chgNode struct {
	kind      byte // d r s c b f S(ocket)
	perm      uint32
	uid, gid  int
	sec, nsec int64
	size      int
	target    string
	maj, min  uint32
	cap       string
	mount     bool
	fs        string   // file system of the mount ("tmpfs" unless stated)
	linkFrom  *chgNode // created as a hard link to this (primary) node, of either tree
	path      string   // set once materialised
}

type chgPair struct {
	name      string
	o, n      *chgNode
	kids      []*chgPair
	fate      string
	metaField string
	metaDiff  bool
}

type chgGen struct {
	r          *Rng
	shared     bool
	shape      string
	budget     int
	maxDepth   int
	bigN       int // entries of the one big directory still to place (0 = none)
	bigDepth   int
	bigProf    string
	mountsLeft int
	symdirLeft int
	metaForce  string
	pool       []string
	capOnDir   bool
	noCap      bool       // inside a file system without extended attributes
	groups     []*chgNode // primaries of new-only hard-link groups that later directories may join
	out        *chgOut
}

var chgEvilNames = []string{"a", "b", "B", "A", "_", "-", "a-b", "a_b", "ab", "a b", "a.b", "10", "9", "1", "é", "É", "e", "z", "Z",
	"\xff", "\x80", "\xc3", "\x01", "a\nb", " ", "...", ".a", "..a", ".wh.a", ".wh..wh..opq", "a\\b", "*", "?", "[a]", "~", "ä", "ä", "ß", "ss",
	"ı", "I", "i", "a\xffb", "aa", "a\x7f", "\xe2\x82", "Ab", "aB", ":", "%", "#", "a=b", "\t"}

var chgCaps = []string{
	"\x00\x00\x00\x02\x01\x00\x00\x00\x00\x00\x00\x00\x00\x00\x00\x00\x00\x00\x00\x00",
	"\x01\x00\x00\x02\x01\x00\x00\x00\x00\x00\x00\x00\x00\x00\x00\x00\x00\x00\x00\x00",
	"\x00\x00\x00\x02\x00\x20\x00\x00\x00\x00\x00\x00\x00\x00\x00\x00\x00\x00\x00\x00",
	"\x01\x00\x00\x02\x00\x04\x00\x00\x00\x04\x00\x00\x00\x00\x00\x00\x00\x00\x00\x00",
}

var chgSecs = []int64{0, 1, 1000000000, 1700000000, 1700000001, -1, -1000, 1<<31 + 5, 1 << 33, 86400}
var chgIDs = []int{0, 0, 0, 1, 7, 1000, 65534, 100000}
var chgPerms = []uint32{0o644, 0o755, 0o600, 0o700, 0o4755, 0o2755, 0o6711, 0o1777, 0o2770, 0o000, 0o777, 0o4711, 0o2644, 0o1644, 0o664}

func (g *chgGen) nonzeroNs() int64 {
	switch g.r.intn(4) {
	case 0:
		return 1
	case 1:
		return 999999999
	case 2:
		return 500000000
	}
	return int64(1 + g.r.intn(999999999))
}

func (g *chgGen) pickKind(allowDir bool) byte {
	k := g.r.intn(100)
	switch {
	case k < 45:
		return 'r'
	case k < 70:
		if allowDir {
			return 'd'
		}
		return 'r'
	case k < 82:
		return 's'
	case k < 87:
		return 'f'
	case k < 92:
		return 'c'
	case k < 97:
		return 'b'
	}
	return 'S'
}

func (g *chgGen) attrs(kind byte) *chgNode {
	r := g.r
	n := &chgNode{kind: kind, uid: chgIDs[r.intn(len(chgIDs))], gid: chgIDs[r.intn(len(chgIDs))], sec: chgSecs[r.intn(len(chgSecs))]}
	if r.chance(1, 2) {
		n.nsec = g.nonzeroNs()
	}
	if r.chance(1, 2) {
		if kind == 'd' {
			n.perm = 0o755
		} else {
			n.perm = 0o644
		}
	} else {
		n.perm = chgPerms[r.intn(len(chgPerms))]
	}
	switch kind {
	case 'r':
		switch r.intn(6) {
		case 0:
			n.size = 0
		case 1:
			n.size = 4096 + r.intn(3)
		default:
			n.size = r.intn(64)
		}
		if r.chance(1, 8) && !g.noCap {
			n.cap = chgCaps[r.intn(len(chgCaps))]
		}
	case 's':
		n.perm = 0o777
		n.target = r.pick([]string{"a", "b", "../a", "/w/o", "/w/n/a", "nonexistent", ".", "..", "/", "a/b", "é", "xxxxxxxxxxxxxxxx"})
	case 'c', 'b':
		n.maj, n.min = uint32(1+r.intn(3)), uint32(r.intn(4))
	case 'd':
		if g.capOnDir && !g.noCap && r.chance(1, 20) {
			n.cap = chgCaps[r.intn(len(chgCaps))]
		}
	}
	return n
}

func chgCopy(n *chgNode) *chgNode {
	c := *n
	c.linkFrom = nil
	c.path = ""
	return &c
}

var chgMetaFieldsFile = []string{"perm", "suid", "sgid", "sticky", "uid", "gid", "cap", "size", "sec", "ns-both-nonzero", "ns-one-zero", "ns-new-zero", "rdev"}
var chgMetaFieldsDir = []string{"perm", "suid", "sgid", "sticky", "uid", "gid", "cap", "dmtime", "dmtime-ns"}

// mutate returns a changed copy of o (o itself may be adjusted for the ns cases); diff says
// whether the property calls the pair different.
func (g *chgGen) mutate(o *chgNode, want string) (n *chgNode, field string, diff bool) {
	for try := 0; ; try++ {
		n, field, diff = g.mutate1(o, want)
		if field != "none" || want != "" || try >= 4 {
			break
		}
	}
	if o.kind == 'd' && (field == "sec" || field == "ns-both-nonzero") {
		diff = false
	}
	return
}

func (g *chgGen) mutate1(o *chgNode, want string) (n *chgNode, field string, diff bool) {
	r := g.r
	n = chgCopy(o)
	fields := chgMetaFieldsFile
	if o.kind == 'd' {
		fields = chgMetaFieldsDir
	}
	field = want
	if field == "" {
		field = fields[r.intn(len(fields))]
	}
	diff = true
	switch field {
	case "perm":
		if o.kind == 's' {
			field, diff = "none", false
			break
		}
		n.perm = o.perm ^ (1 << uint(r.intn(9)))
	case "suid":
		if o.kind == 's' {
			field, diff = "none", false
			break
		}
		n.perm = o.perm ^ 0o4000
	case "sgid":
		if o.kind == 's' {
			field, diff = "none", false
			break
		}
		n.perm = o.perm ^ 0o2000
	case "sticky":
		if o.kind == 's' {
			field, diff = "none", false
			break
		}
		n.perm = o.perm ^ 0o1000
	case "uid":
		n.uid = o.uid + 1 + r.intn(3)
	case "gid":
		n.gid = o.gid + 1 + r.intn(3)
	case "cap":
		if g.noCap || o.kind != 'r' && !(o.kind == 'd' && g.capOnDir) {
			field, diff = "none", false
			break
		}
		switch {
		case o.cap == "":
			n.cap = chgCaps[r.intn(len(chgCaps))]
		case r.chance(1, 3):
			n.cap = ""
		default:
			for n.cap == o.cap {
				n.cap = chgCaps[r.intn(len(chgCaps))]
			}
		}
	case "size":
		switch o.kind {
		case 'r':
			n.size = o.size + 1 + r.intn(3)
			if o.size > 0 && r.chance(1, 3) {
				n.size = o.size - 1
			}
		case 's':
			n.target = o.target + "x"
		default:
			field, diff = "none", false
		}
	case "sec":
		n.sec = o.sec + int64(1+r.intn(2))
		if r.chance(1, 2) {
			n.sec = o.sec - 1
		}
	case "ns-both-nonzero":
		o.nsec = g.nonzeroNs()
		n.nsec = o.nsec
		for n.nsec == o.nsec {
			n.nsec = g.nonzeroNs()
		}
	case "ns-one-zero": // old has whole seconds: same by the library's rule
		o.nsec = 0
		n.nsec = g.nonzeroNs()
		diff = false
	case "ns-new-zero":
		o.nsec = g.nonzeroNs()
		n.nsec = 0
		diff = false
	case "rdev":
		if o.kind != 'c' && o.kind != 'b' {
			field, diff = "none", false
			break
		}
		if r.chance(1, 2) {
			n.maj = o.maj + 1
		} else {
			n.min = o.min + 1
		}
	case "dmtime":
		n.sec = o.sec + 100
		diff = false
	case "dmtime-ns":
		o.nsec = g.nonzeroNs()
		n.nsec = (o.nsec + 7) % 1000000000
		if n.nsec == 0 {
			n.nsec = 3
		}
		diff = false
	default:
		field, diff = "none", false
	}
	return n, field, diff
}

var chgProfiles = map[string][8]int{
	//           same meta swap old new fresh rename linkset
	"mixed":     {4, 3, 1, 2, 2, 1, 1, 1},
	"unchanged": {6, 0, 0, 0, 0, 1, 0, 0},
	"delonly":   {3, 0, 0, 2, 0, 0, 0, 0},
	"addonly":   {3, 0, 0, 0, 2, 0, 0, 1},
	"allmeta":   {0, 1, 0, 0, 0, 0, 0, 0},
	"disjoint":  {0, 0, 0, 1, 1, 0, 0, 0},
	"swapheavy": {1, 1, 3, 0, 0, 0, 0, 0},
	"sparse":    {40, 1, 0, 1, 1, 0, 0, 0},
	"alladd":    {0, 0, 0, 0, 1, 0, 0, 0},
	"alldel":    {0, 0, 0, 1, 0, 0, 0, 0},
	"metasame":  {1, 1, 0, 0, 0, 1, 0, 0},
}
var chgProfileNames = []string{"mixed", "mixed", "mixed", "unchanged", "delonly", "addonly", "allmeta", "disjoint", "swapheavy", "sparse", "alladd", "alldel", "metasame"}
var chgFateNames = []string{"same", "meta", "swap", "oldonly", "newonly", "fresh", "rename", "linkset"}

func (g *chgGen) pickFate(prof string) string {
	w := chgProfiles[prof]
	tot := 0
	for _, x := range w {
		tot += x
	}
	k := g.r.intn(tot)
	for i, x := range w {
		if k < x {
			return chgFateNames[i]
		}
		k -= x
	}
	return "same"
}

func (g *chgGen) randName(mode int) string {
	r := g.r
	var l int
	switch mode {
	case 0:
		l = 1 + r.intn(8)
	case 1:
		l = 200 + r.intn(56)
	case 2:
		l = 1 + r.intn(255)
	default:
		l = 230 + r.intn(26)
	}
	b := make([]byte, l)
	for i := range b {
		switch {
		case mode == 3 && i < 225:
			b[i] = 'p'
		case r.chance(1, 6):
			c := byte(1 + r.intn(255))
			if c == '/' {
				c = '_'
			}
			b[i] = c
		default:
			b[i] = "abcdefghijklmnopqrstuvwxyzABCXYZ0123456789-_. "[r.intn(46)]
		}
	}
	s := string(b)
	if s == "." || s == ".." {
		return "x" + s
	}
	return s
}

func (g *chgGen) pickNames(n int, big bool) []string {
	r := g.r
	used := map[string]bool{}
	var out []string
	if !big {
		for len(out) < n {
			var nm string
			if r.chance(5, 6) {
				nm = g.pool[r.intn(len(g.pool))]
			} else {
				nm = g.randName(r.intn(3))
			}
			if !used[nm] {
				used[nm] = true
				out = append(out, nm)
			} else if len(used) >= len(g.pool) {
				nm = g.randName(0)
				if !used[nm] {
					used[nm] = true
					out = append(out, nm)
				}
			}
		}
		return out
	}
	mode := r.intn(5) // 4 = per-name random mode
	for len(out) < n {
		m := mode
		if m == 4 {
			m = r.intn(4)
		}
		nm := g.randName(m)
		if r.chance(1, 40) {
			nm = chgEvilNames[r.intn(len(chgEvilNames))]
		}
		if !used[nm] {
			used[nm] = true
			out = append(out, nm)
		}
	}
	return out
}

func (g *chgGen) kidCount(depth int) int {
	r := g.r
	switch g.shape {
	case "small", "meta", "symdir":
		if depth == 0 {
			return 1 + r.intn(4)
		}
		return r.intn(5)
	case "deep":
		return 1 + r.intn(2)
	default:
		if depth == 0 {
			return 2 + r.intn(8)
		}
		return r.intn(7)
	}
}

// genKids makes the entries of one directory that exists as a directory on the given sides.
func (g *chgGen) genKids(depth int, haveO, haveN bool, inMount bool) []*chgPair {
	r := g.r
	nk := g.kidCount(depth)
	big := false
	prof := chgProfileNames[r.intn(len(chgProfileNames))]
	if g.bigN > 0 && depth == g.bigDepth {
		nk, big = g.bigN, true
		g.bigN = 0
		prof = g.bigProf
	}
	if g.shape == "meta" {
		prof = "unchanged"
	}
	if g.bigN > 0 && depth < g.bigDepth && nk == 0 {
		nk = 1
	}
	names := g.pickNames(nk, big)
	used := map[string]bool{}
	for _, nm := range names {
		used[nm] = true
	}
	extra := func(base string) string {
		for i := 0; i < 20; i++ {
			b := base
			if len(b) > 240 {
				b = b[:240]
			}
			nm := b + "~" + strconv.Itoa(r.intn(1000))
			if !used[nm] {
				used[nm] = true
				return nm
			}
		}
		return ""
	}
	var kids []*chgPair
	metaDone := false
	for i, nm := range names {
		if g.budget <= 0 && !big {
			break
		}
		g.budget--
		fate := g.pickFate(prof)
		if g.shape == "meta" && !metaDone && depth == 0 && (i == len(names)-1 || r.chance(1, 2)) {
			fate, metaDone = "meta", true
		}
		if depth == 0 && i == 0 && haveO && haveN && !inMount {
			if g.mountsLeft > 0 {
				fate = "mount"
				g.mountsLeft--
			} else if g.symdirLeft > 0 {
				fate = "symdir"
				g.symdirLeft--
			}
		} else if haveO && haveN && !inMount && g.symdirLeft > 0 && r.chance(1, 3) {
			fate = "symdir"
			g.symdirLeft--
		}
		switch {
		case !haveO && !haveN:
			return nil
		case !haveO:
			fate = "newonly"
		case !haveN:
			fate = "oldonly"
		}
		if (inMount || !g.shared) && fate == "rename" {
			fate = "oldonly"
		}
		if inMount && fate == "linkset" {
			fate = "newonly"
		}
		if g.bigN > 0 && depth < g.bigDepth && i == 0 {
			// the chain of directories leading to the big one
			p := &chgPair{name: nm, fate: "chain"}
			if haveO {
				p.o = g.attrs('d')
			}
			if haveN {
				p.n = g.attrs('d')
				if haveO {
					p.n = chgCopy(p.o)
					p.n.sec += int64(r.intn(2))
				}
			}
			p.kids = g.genKids(depth+1, haveO, haveN, inMount)
			kids = append(kids, p)
			continue
		}
		allowDir := depth < g.maxDepth
		if big && !r.chance(1, 12) {
			allowDir = false
		}
		if g.shape == "deep" && allowDir && r.chance(2, 3) && (fate == "same" || fate == "meta") {
			// keep the chain going
			o := g.attrs('d')
			p := &chgPair{name: nm, o: o, fate: fate}
			if fate == "meta" {
				p.n, p.metaField, p.metaDiff = g.mutate(o, "")
			} else {
				p.n = chgCopy(o)
			}
			p.kids = g.genKids(depth+1, true, true, inMount)
			kids = append(kids, p)
			continue
		}
		g.out.count("fate:" + fate)
		switch fate {
		case "same", "fresh":
			kind := g.pickKind(allowDir)
			o := g.attrs(kind)
			p := &chgPair{name: nm, o: o, n: chgCopy(o), fate: fate}
			if kind == 'd' {
				if r.chance(1, 2) {
					p.n, _, _ = g.mutate(o, r.pick([]string{"dmtime", "dmtime-ns"}))
				}
				p.kids = g.genKids(depth+1, true, true, inMount)
			} else if fate == "same" && g.shared && !inMount {
				p.n.linkFrom = o
			}
			kids = append(kids, p)
		case "meta":
			kind := g.pickKind(allowDir)
			want := ""
			if g.shape == "meta" {
				want = g.metaForce
				switch want {
				case "rdev":
					kind = chgPick2b(r, 'c', 'b')
				case "cap":
					kind = 'r'
				case "size":
					kind = chgPick2b(r, 'r', 's')
				case "dmtime", "dmtime-ns":
					kind = 'd'
				default:
					if kind == 's' && (want == "perm" || want == "suid" || want == "sgid" || want == "sticky") {
						kind = 'r'
					}
				}
			}
			o := g.attrs(kind)
			p := &chgPair{name: nm, o: o, fate: fate}
			p.n, p.metaField, p.metaDiff = g.mutate(o, want)
			g.out.count("metafield:" + p.metaField)
			if kind == 'd' {
				if g.shape == "meta" {
					// the directories differ in entry count (size) and mtime only
					p.kids = g.oneSide(depth+1, r.chance(1, 2), 1+r.intn(3), false)
					for _, k := range p.kids {
						if k.o == nil {
							k.o = chgCopy(k.n)
							if g.shared && k.o.kind != 'd' {
								k.n.linkFrom = k.o
							}
						} else {
							k.n = chgCopy(k.o)
							if g.shared && k.o.kind != 'd' {
								k.n.linkFrom = k.o
							}
						}
						k.kids = nil
						if k.o.kind == 'd' {
							k.o.kind, k.n.kind = 'r', 'r'
						}
					}
				} else {
					p.kids = g.genKids(depth+1, true, true, inMount)
				}
			}
			kids = append(kids, p)
		case "swap":
			ko := g.pickKind(allowDir)
			kn := g.pickKind(allowDir)
			for kn == ko {
				kn = g.pickKind(allowDir)
			}
			p := &chgPair{name: nm, o: g.attrs(ko), n: g.attrs(kn), fate: fate}
			if r.chance(1, 2) {
				// everything but the type agrees
				p.n.uid, p.n.gid, p.n.sec, p.n.nsec = p.o.uid, p.o.gid, p.o.sec, p.o.nsec
				if kn != 's' && ko != 's' {
					p.n.perm = p.o.perm
				}
			}
			g.out.count("swap:" + string(ko) + ">" + string(kn))
			if ko == 'd' {
				p.kids = g.genKids(depth+1, true, false, inMount)
			}
			if kn == 'd' {
				p.kids = g.genKids(depth+1, false, true, inMount)
			}
			kids = append(kids, p)
		case "oldonly":
			p := &chgPair{name: nm, o: g.attrs(g.pickKind(allowDir)), fate: fate}
			if p.o.kind == 'd' {
				p.kids = g.genKids(depth+1, true, false, inMount)
			}
			kids = append(kids, p)
		case "newonly":
			p := &chgPair{name: nm, n: g.attrs(g.pickKind(allowDir)), fate: fate}
			if p.n.kind == 'd' {
				p.kids = g.genKids(depth+1, false, true, inMount)
			} else if !inMount && len(g.groups) > 0 && r.chance(1, 4) {
				// join a hard-link group started in an earlier directory of the new tree
				prim := g.groups[r.intn(len(g.groups))]
				p.n = chgCopy(prim)
				p.n.linkFrom = prim
				g.out.count("linkset:cross-dir-member")
			}
			kids = append(kids, p)
		case "rename":
			// shared storage: the old inode reappears under another name (mv in the new tree)
			kind := g.pickKind(false)
			o := g.attrs(kind)
			n := chgCopy(o)
			n.linkFrom = o
			kids = append(kids, &chgPair{name: nm, o: o, fate: fate})
			if nm2 := extra(nm); nm2 != "" {
				kids = append(kids, &chgPair{name: nm2, n: n, fate: fate})
			}
		case "linkset":
			// 2..4 names of one inode inside the new tree: added, modified (all of them) or unchanged
			kind := byte('r')
			if r.chance(1, 5) {
				kind = chgPick2b(r, 'f', 'c')
			}
			variant := r.pick([]string{"added", "added", "modified", "same"})
			g.out.count("linkset:" + variant)
			k := 2 + r.intn(3)
			var primO, primN *chgNode
			base := g.attrs(kind)
			if kind == 'r' && base.size == 0 {
				base.size = 1 + r.intn(40)
			}
			for i := 0; i < k; i++ {
				name := nm
				if i > 0 {
					if name = extra(nm); name == "" {
						break
					}
				}
				p := &chgPair{name: name, fate: fate}
				if variant != "added" {
					p.o = chgCopy(base)
					if primO == nil {
						primO = p.o
					} else {
						p.o.linkFrom = primO
					}
				}
				switch variant {
				case "added":
					p.n = chgCopy(base)
				case "modified":
					p.n = chgCopy(base)
					p.n.size = base.size + 5
					p.n.perm = base.perm ^ 0o100
				case "same":
					p.n = chgCopy(base)
				}
				if primN == nil {
					primN = p.n
					if variant == "same" && g.shared {
						p.n.linkFrom = primO
					} else if variant == "added" {
						g.groups = append(g.groups, primN)
					}
				} else {
					if variant == "same" && g.shared {
						p.n.linkFrom = primO
					} else {
						p.n.linkFrom = primN
					}
				}
				kids = append(kids, p)
			}
		case "mount":
			o := g.attrs('d')
			o.mount = true
			o.cap = ""
			n := chgCopy(o)
			n.mount = true
			o.fs, n.fs = "tmpfs", "tmpfs"
			// ramfs keeps directory sizes at 0 and numbers inodes globally: with it on one side the
			// directories differ in size although their entries agree
			switch r.intn(4) {
			case 0:
				o.fs = "ramfs"
			case 1:
				n.fs = "ramfs"
			}
			g.noCap = o.fs == "ramfs" || n.fs == "ramfs"
			quiet := r.chance(1, 4)
			if !quiet && r.chance(1, 3) {
				n.perm = o.perm ^ 0o010
			}
			g.out.count(fmt.Sprintf("mount:fs=%s/%s,quiet=%v", o.fs, n.fs, quiet))
			p := &chgPair{name: nm, o: o, n: n, fate: fate}
			p.kids = g.genMountKids(1, quiet)
			g.noCap = false
			kids = append(kids, p)
		case "symdir":
			// a real directory on one side, on the other a symlink to a sibling directory that has
			// children of the same names
			sib := g.attrs('d')
			sibName := extra(nm)
			if sibName == "" {
				break
			}
			cn := g.pickNames(1+r.intn(3), false)
			mk := func(side int) []*chgPair {
				var ks []*chgPair
				for _, c := range cn {
					a := g.attrs(g.pickKind(false))
					if side == 0 {
						ks = append(ks, &chgPair{name: c, o: a, fate: "oldonly"})
					} else {
						ks = append(ks, &chgPair{name: c, n: a, fate: "newonly"})
					}
				}
				return ks
			}
			realDir := g.attrs('d')
			link := g.attrs('s')
			link.target = r.pick([]string{sibName, "./" + sibName})
			symOld := r.chance(1, 2)
			g.out.count(fmt.Sprintf("symdir:symlink-on-old=%v", symOld))
			// the sibling directory: same in both trees, same-named children
			sp := &chgPair{name: sibName, o: sib, n: chgCopy(sib), fate: "same"}
			for _, c := range cn {
				a := g.attrs(g.pickKind(false))
				k := &chgPair{name: c, o: a, n: chgCopy(a), fate: "same"}
				if g.shared {
					k.n.linkFrom = a
				}
				sp.kids = append(sp.kids, k)
			}
			p := &chgPair{name: nm, fate: fate}
			if symOld {
				p.o, p.n = link, realDir
				p.kids = mk(1)
			} else {
				p.o, p.n = realDir, link
				p.kids = mk(0)
			}
			if r.chance(1, 2) {
				// equal in everything the diff looks at except the type
				link.uid, link.gid = realDir.uid, realDir.gid
			}
			kids = append(kids, sp, p)
		}
	}
	return kids
}

func chgPick2b(r *Rng, a, b byte) byte {
	if r.chance(1, 2) {
		return a
	}
	return b
}

// oneSide makes n plain entries present on one side only.
func (g *chgGen) oneSide(depth int, old bool, n int, allowDir bool) []*chgPair {
	var ks []*chgPair
	for _, nm := range g.pickNames(n, false) {
		a := g.attrs(g.pickKind(allowDir))
		if old {
			ks = append(ks, &chgPair{name: nm, o: a, fate: "oldonly"})
		} else {
			ks = append(ks, &chgPair{name: nm, n: a, fate: "newonly"})
		}
	}
	return ks
}

// genMountKids: entries of a directory that is a separate tmpfs in both trees. Entries present on
// both sides come first and are created in the same order on both sides, so their inode numbers
// coincide although the objects are unrelated.
func (g *chgGen) genMountKids(level int, quiet bool) []*chgPair {
	r := g.r
	var both, dirs, tail []*chgPair
	names := g.pickNames(2+r.intn(7), false)
	for i, nm := range names {
		k := r.intn(10)
		if quiet {
			// nothing inside differs: neither the entries nor the mounted directory may be reported
			k = 3 + r.intn(2)
			if r.chance(1, 4) && level < 2 {
				k = 6
			}
		}
		switch {
		case !quiet && (k < 3 || i == 0):
			o := g.attrs(chgPick2b(r, 'r', g.pickKind(false)))
			n, field, diff := g.mutate(o, r.pick([]string{"size", "perm", "uid", "sec", "ns-both-nonzero", "cap", ""}))
			both = append(both, &chgPair{name: nm, o: o, n: n, fate: "meta", metaField: field, metaDiff: diff})
			g.out.count("mount:entry-meta")
		case k < 5:
			o := g.attrs(g.pickKind(false))
			both = append(both, &chgPair{name: nm, o: o, n: chgCopy(o), fate: "fresh"})
			g.out.count("mount:entry-same")
		case k < 6:
			ko, kn := g.pickKind(false), g.pickKind(false)
			if ko != kn {
				both = append(both, &chgPair{name: nm, o: g.attrs(ko), n: g.attrs(kn), fate: "swap"})
				g.out.count("mount:entry-swap")
			}
		case k < 7 && level < 2:
			o := g.attrs('d')
			p := &chgPair{name: nm, o: o, n: chgCopy(o), fate: "same"}
			p.kids = g.genMountKids(level+1, quiet)
			dirs = append(dirs, p)
			g.out.count("mount:entry-subdir")
		case k < 8:
			tail = append(tail, &chgPair{name: nm, o: g.attrs(g.pickKind(false)), fate: "oldonly"})
		default:
			tail = append(tail, &chgPair{name: nm, n: g.attrs(g.pickKind(false)), fate: "newonly"})
		}
	}
	return append(append(both, dirs...), tail...)
}

// ---------------------------------------------------------------------------------------------
// materialisation

type chgMat struct {
	r        *Rng
	prims    []*chgNode
	deferred []*chgNode
	all      []*chgNode
}

func (m *chgMat) tree(side int, dir string, kids []*chgPair, inMount bool) error {
	var mine []*chgPair
	for _, k := range kids {
		if (side == 0 && k.o != nil) || (side == 1 && k.n != nil) {
			mine = append(mine, k)
		}
	}
	if !inMount {
		// directory enumeration order follows creation order: vary it, independently per side
		for i := len(mine) - 1; i > 0; i-- {
			j := m.r.intn(i + 1)
			mine[i], mine[j] = mine[j], mine[i]
		}
	}
	for _, k := range mine {
		n := k.o
		if side == 1 {
			n = k.n
		}
		p := dir + "/" + k.name
		n.path = p
		m.all = append(m.all, n)
		if n.linkFrom != nil {
			if n.linkFrom.linkFrom != nil {
				return fmt.Errorf("link to a link at %q", p)
			}
			if n.linkFrom.path != "" && chgExists(n.linkFrom.path) {
				if err := os.Link(n.linkFrom.path, p); err != nil {
					return err
				}
			} else {
				m.deferred = append(m.deferred, n)
			}
			continue
		}
		var err error
		switch n.kind {
		case 'd':
			err = os.Mkdir(p, 0o755)
			if err == nil && n.mount {
				if n.fs == "ramfs" {
					err = unix.Mount("ramfs", p, "ramfs", 0, "")
				} else {
					err = unix.Mount("tmpfs", p, "tmpfs", 0, "size=4m,nr_inodes=4000")
				}
				if err == nil {
					chgMounts = append(chgMounts, p)
				}
			}
		case 'r':
			err = os.WriteFile(p, bytes.Repeat([]byte{'x'}, n.size), 0o644)
		case 's':
			err = os.Symlink(n.target, p)
		case 'c':
			err = unix.Mknod(p, unix.S_IFCHR|0o644, int(unix.Mkdev(n.maj, n.min)))
		case 'b':
			err = unix.Mknod(p, unix.S_IFBLK|0o644, int(unix.Mkdev(n.maj, n.min)))
		case 'f':
			err = unix.Mknod(p, unix.S_IFIFO|0o644, 0)
		case 'S':
			err = unix.Mknod(p, unix.S_IFSOCK|0o644, 0)
		default:
			err = fmt.Errorf("bad kind %c", n.kind)
		}
		if err != nil {
			return fmt.Errorf("create %q: %w", p, err)
		}
		m.prims = append(m.prims, n)
		if n.kind == 'd' {
			if err := m.tree(side, p, k.kids, inMount || n.mount); err != nil {
				return err
			}
		}
	}
	return nil
}

func chgExists(p string) bool {
	var st unix.Stat_t
	return unix.Lstat(p, &st) == nil
}

func (m *chgMat) finish() error {
	for _, n := range m.deferred {
		if n.linkFrom.path == "" {
			return fmt.Errorf("link source of %q never created", n.path)
		}
		if err := os.Link(n.linkFrom.path, n.path); err != nil {
			return err
		}
	}
	for _, n := range m.prims {
		if err := os.Lchown(n.path, n.uid, n.gid); err != nil {
			return err
		}
		if n.kind != 's' {
			if err := os.Chmod(n.path, modeFromPerm(n.perm)); err != nil {
				return err
			}
		}
		if n.cap != "" {
			if err := unix.Lsetxattr(n.path, "security.capability", []byte(n.cap), 0); err != nil {
				return fmt.Errorf("setcap %q: %w", n.path, err)
			}
		}
	}
	for _, n := range m.prims {
		ts := []unix.Timespec{{Sec: n.sec, Nsec: n.nsec}, {Sec: n.sec, Nsec: n.nsec}}
		if err := unix.UtimesNanoAt(unix.AT_FDCWD, n.path, ts, unix.AT_SYMLINK_NOFOLLOW); err != nil {
			return fmt.Errorf("utimes %q: %w", n.path, err)
		}
	}
	return nil
}

// ---------------------------------------------------------------------------------------------
// the naive reference: two full walks, then the four clauses of the property

type chgStat struct {
	mode      uint32
	uid, gid  uint32
	rdev      uint64
	size      int64
	sec, nsec int64
	cap       []byte
	ino, dev  uint64
	nlink     uint64
}

func (s *chgStat) isDir() bool { return s.mode&unix.S_IFMT == unix.S_IFDIR }

func chgLstat(p string) (*chgStat, error) {
	var st unix.Stat_t
	if err := unix.Lstat(p, &st); err != nil {
		return nil, err
	}
	s := &chgStat{mode: st.Mode, uid: st.Uid, gid: st.Gid, rdev: uint64(st.Rdev), size: st.Size, sec: int64(st.Mtim.Sec), nsec: int64(st.Mtim.Nsec),
		ino: st.Ino, dev: uint64(st.Dev), nlink: uint64(st.Nlink)}
	buf := make([]byte, 512)
	if sz, err := unix.Lgetxattr(p, "security.capability", buf); err == nil && sz > 0 {
		s.cap = append([]byte(nil), buf[:sz]...)
	}
	return s, nil
}

// chgScan maps "/rel/path" to the lstat of every object below root (root itself excluded).
func chgScan(root string) (map[string]*chgStat, error) {
	out := map[string]*chgStat{}
	var walk func(rel string) error
	walk = func(rel string) error {
		d, err := os.Open(root + rel)
		if err != nil {
			return err
		}
		names, err := d.Readdirnames(-1)
		d.Close()
		if err != nil {
			return err
		}
		for _, nm := range names {
			p := rel + "/" + nm
			st, err := chgLstat(root + p)
			if err != nil {
				return err
			}
			out[p] = st
			if st.isDir() {
				if err := walk(p); err != nil {
					return err
				}
			}
		}
		return nil
	}
	if err := walk(""); err != nil {
		return nil, err
	}
	return out, nil
}

// chgSameTime is the library's documented rule: equal, or the same second with whole seconds on one side.
func chgSameTime(s1, n1, s2, n2 int64) bool {
	if s1 == s2 && n1 == n2 {
		return true
	}
	return s1 == s2 && (n1 == 0 || n2 == 0)
}

func chgDiffers(a, b *chgStat) bool {
	if a.mode != b.mode || a.uid != b.uid || a.gid != b.gid || a.rdev != b.rdev || !bytes.Equal(a.cap, b.cap) {
		return true
	}
	if !a.isDir() {
		if a.size != b.size || !chgSameTime(a.sec, a.nsec, b.sec, b.nsec) {
			return true
		}
	}
	return false
}

func chgParent(p string) string {
	i := strings.LastIndexByte(p, '/')
	if i <= 0 {
		return "/"
	}
	return p[:i]
}

// chgReference returns the expected set; keys are kind letter + path ("A/x", "C/x", "D/x").
func chgReference(O, N map[string]*chgStat) map[string]bool {
	ref := map[string]bool{}
	dirBoth := func(p string) bool {
		if p == "/" {
			return true
		}
		o, n := O[p], N[p]
		return o != nil && n != nil && o.isDir() && n.isDir()
	}
	for p, n := range N {
		if o, ok := O[p]; !ok {
			ref["A"+p] = true
		} else if chgDiffers(o, n) {
			ref["C"+p] = true
		}
	}
	for p := range O {
		if _, ok := N[p]; !ok && dirBoth(chgParent(p)) {
			ref["D"+p] = true
		}
	}
	var base []string
	for k := range ref {
		base = append(base, k[1:])
	}
	for _, p := range base {
		for a := chgParent(p); a != "/"; a = chgParent(a) {
			if dirBoth(a) {
				ref["C"+a] = true
			}
		}
	}
	return ref
}

func chgKindLetter(k archive.ChangeType) string {
	switch k {
	case archive.ChangeAdd:
		return "A"
	case archive.ChangeModify:
		return "C"
	case archive.ChangeDelete:
		return "D"
	}
	return "?"
}

// chgCheckList compares one returned list with the expected set and checks duplicates and the
// parent-first order. Returns "" when everything holds.
func chgCheckList(got []archive.Change, ref map[string]bool, uniquePaths bool) string {
	pos := map[string]int{}
	seen := map[string]bool{}
	paths := map[string]bool{}
	for i, c := range got {
		k := chgKindLetter(c.Kind) + c.Path
		if seen[k] {
			return fmt.Sprintf("duplicate entry %s %q", k[:1], c.Path)
		}
		seen[k] = true
		if uniquePaths && paths[c.Path] {
			return fmt.Sprintf("path %q reported twice", c.Path)
		}
		paths[c.Path] = true
		if c.Kind != archive.ChangeDelete {
			pos[c.Path] = i
		}
	}
	var missing, extra []string
	for k := range ref {
		if !seen[k] {
			missing = append(missing, k[:1]+" "+strconv.Quote(k[1:]))
		}
	}
	for k := range seen {
		if !ref[k] {
			extra = append(extra, k[:1]+" "+strconv.Quote(k[1:]))
		}
	}
	if len(missing)+len(extra) > 0 {
		sort.Strings(missing)
		sort.Strings(extra)
		return fmt.Sprintf("set differs from the reference: missing %d %v, unexpected %d %v", len(missing), chgHead(missing, 4), len(extra), chgHead(extra, 4))
	}
	for i, c := range got {
		if !uniquePaths {
			// layer-based Changes: only the direct parent of an addition or deletion is promised to come first
			if a := chgParent(c.Path); a != "/" && c.Kind != archive.ChangeModify {
				if j, ok := pos[a]; ok && j > i {
					return fmt.Sprintf("order: entry for directory %q (index %d) comes after the added/deleted %q inside it (index %d)", a, j, c.Path, i)
				}
			}
			continue
		}
		for a := chgParent(c.Path); a != "/"; a = chgParent(a) {
			j, ok := pos[a]
			if !ok {
				continue // cannot happen once the sets agree
			}
			if j > i {
				return fmt.Sprintf("order: entry for directory %q (index %d) comes after the entry for %q inside it (index %d)", a, j, c.Path, i)
			}
		}
	}
	return ""
}

func chgHead(xs []string, n int) []string {
	if len(xs) > n {
		return append(append([]string{}, xs[:n]...), "…")
	}
	return xs
}

func chgSetKey(ref map[string]bool) string {
	ks := make([]string, 0, len(ref))
	for k := range ref {
		ks = append(ks, k)
	}
	sort.Strings(ks)
	h := fnv.New64a()
	for _, k := range ks {
		h.Write([]byte(k))
		h.Write([]byte{0})
	}
	return fmt.Sprintf("%d:%x", len(ks), h.Sum64())
}

func chgBucket(n int) string {
	switch {
	case n == 0:
		return "0"
	case n == 1:
		return "1"
	case n <= 4:
		return "2-4"
	case n <= 16:
		return "5-16"
	case n <= 64:
		return "17-64"
	case n <= 256:
		return "65-256"
	}
	return "257+"
}

// ---------------------------------------------------------------------------------------------
// the "dirs" case

func chgRunDirs(shape, storage string, seed uint64, out *chgOut) error {
	r := &Rng{s: seed}
	g := &chgGen{r: r, shared: storage == "shared", shape: shape, out: out, maxDepth: 3, budget: 40}
	oldEmpty := false
	sub := shape
	if shape == "oldempty" {
		oldEmpty = true
		sub = r.pick([]string{"small", "medium", "big"})
		g.shape = sub
		g.shared = false
	}
	// can this kernel keep a capability attribute on a directory?
	if err := os.Mkdir("/w/probe", 0o755); err == nil {
		g.capOnDir = unix.Lsetxattr("/w/probe", "security.capability", []byte(chgCaps[0]), 0) == nil
		os.Remove("/w/probe")
	}
	np := 3 + r.intn(5)
	for len(g.pool) < np {
		g.pool = append(g.pool, chgEvilNames[r.intn(len(chgEvilNames))])
	}
	switch sub {
	case "small":
		g.budget, g.maxDepth = 4+r.intn(10), 3
	case "medium":
		g.budget, g.maxDepth = 20+r.intn(50), 4
	case "big":
		g.budget, g.maxDepth = 15, 3
		switch r.intn(6) {
		case 0:
			g.bigN = 1 + r.intn(3)
		case 1:
			g.bigN = 600
		case 2:
			g.bigN = 140 + r.intn(60) // around one buffer of short names
		default:
			g.bigN = 1 + r.intn(600)
		}
		g.bigDepth = r.intn(3)
		g.bigProf = r.pick([]string{"mixed", "alladd", "alldel", "allmeta", "disjoint", "sparse", "metasame", "delonly", "addonly"})
		out.count("big:profile:" + g.bigProf)
	case "deep":
		g.budget, g.maxDepth = 30, 5+r.intn(4)
	case "mount":
		g.budget, g.maxDepth = 15+r.intn(20), 3
		g.mountsLeft = 1
	case "symdir":
		g.budget, g.maxDepth = 6+r.intn(12), 3
		g.symdirLeft = 1 + r.intn(2)
	case "meta":
		g.budget, g.maxDepth = 5, 1
		all := append(append([]string{}, chgMetaFieldsFile...), "dmtime", "dmtime-ns")
		g.metaForce = all[r.intn(len(all))]
	default:
		return fmt.Errorf("unknown shape %q", shape)
	}
	kids := g.genKids(0, !oldEmpty, true, false)
	if g.bigN > 0 {
		return fmt.Errorf("generator: big directory not placed")
	}

	// ---- materialise both trees
	m := &chgMat{r: r}
	rootO, rootN := g.attrs('d'), g.attrs('d')
	rootO.cap, rootN.cap = "", ""
	if err := os.Mkdir(chgNew, 0o755); err != nil {
		return err
	}
	rootN.path = chgNew
	m.prims = append(m.prims, rootN)
	if !oldEmpty {
		if err := os.Mkdir(chgOld, 0o755); err != nil {
			return err
		}
		rootO.path = chgOld
		m.prims = append(m.prims, rootO)
		if err := m.tree(0, chgOld, kids, false); err != nil {
			return err
		}
	}
	if err := m.tree(1, chgNew, kids, false); err != nil {
		return err
	}
	if err := m.finish(); err != nil {
		return err
	}

	// ---- reference
	O := map[string]*chgStat{}
	var err error
	if !oldEmpty {
		if O, err = chgScan(chgOld); err != nil {
			return err
		}
	}
	N, err := chgScan(chgNew)
	if err != nil {
		return err
	}
	ref := chgReference(O, N)

	// ---- the real code, three times
	oldArg := chgOld
	if oldEmpty {
		oldArg = ""
	}
	desc := fmt.Sprintf("shape=%s storage=%s old=%d new=%d expected=%d", shape, storage, len(O), len(N), len(ref))
	var first []archive.Change
	var firstKey string
	listOK := true
	for run := 0; run < 3; run++ {
		got, err := archive.ChangesDirs(chgNew, oldArg)
		if err != nil {
			out.problem(fmt.Sprintf("ChangesDirs returned an error on readable trees (%s): %q", desc, err.Error()))
			listOK = false
			break
		}
		if msg := chgCheckList(got, ref, true); msg != "" {
			out.problem(fmt.Sprintf("ChangesDirs run %d, %s: %s", run+1, desc, msg))
			listOK = false
			break
		}
		set := map[string]bool{}
		for _, c := range got {
			set[chgKindLetter(c.Kind)+c.Path] = true
		}
		key := chgSetKey(set)
		if run == 0 {
			first, firstKey = got, key
		} else if key != firstKey {
			out.problem(fmt.Sprintf("ChangesDirs run %d returned a different set than run 1 (%s)", run+1, desc))
			listOK = false
			break
		}
	}

	// ---- the recursive diff on the collected trees, for the Lean model (`TreeDiff.changes`)
	if listOK && !oldEmpty {
		ot, nt, got, err := archive.VerifChangesOnTrees(chgOld, chgNew)
		if err != nil {
			out.problem(fmt.Sprintf("collectFileInfoForChanges failed (%s): %q", desc, err.Error()))
		} else {
			// the model's sibling lookup is quadratic in the width of a directory: very large trees are left
			// to the reference-diff oracle above
			if chgTreeSize(ot)+chgTreeSize(nt) <= 400 {
				var sb strings.Builder
				sb.WriteString("changes")
				chgRenderTree(&sb, ot)
				chgRenderTree(&sb, nt)
				out.TreeLine = sb.String()
			} else {
				out.count("treediff:too-large-for-model")
			}
			set := map[string]bool{}
			for _, c := range got {
				out.TreeGot = append(out.TreeGot, chgKindLetter(c.Kind)+hx(c.Path)) // hex: JSON would mangle non-UTF-8 names
				set[chgKindLetter(c.Kind)+c.Path] = true
			}
			if chgSetKey(set) != firstKey {
				out.problem(fmt.Sprintf("Changes on the collected trees and ChangesDirs disagree as sets (%s)", desc))
			}
			out.count("treediff:cases")
		}
	}

	// ---- ChangesSize (clause 4)
	if listOK {
		var want int64
		var wantInoOnly int64
		seenDI := map[[2]uint64]bool{}
		seenI := map[uint64]bool{}
		links := 0
		for k := range ref {
			if k[0] == 'D' {
				continue
			}
			st := N[k[1:]]
			if st == nil || st.isDir() {
				continue
			}
			if !seenDI[[2]uint64{st.dev, st.ino}] {
				seenDI[[2]uint64{st.dev, st.ino}] = true
				want += st.size
			} else {
				links++
			}
			if st.nlink > 1 {
				if !seenI[st.ino] {
					seenI[st.ino] = true
					wantInoOnly += st.size
				}
			} else {
				wantInoOnly += st.size
			}
		}
		out.count("size:hardlinked-names-not-recounted:" + chgBucket(links))
		check := func(label string, list []archive.Change, want int64) {
			got := archive.ChangesSize(chgNew, list)
			if got == want {
				return
			}
			if label != "deletes" && got == wantInoOnly {
				out.problemSig(fmt.Sprintf("ChangesSize (%s, %s) = %d, expected %d: two distinct hard-linked inodes on different devices share an inode number and were counted once", label, desc, got, want), "C10-changessize-ino-without-dev")
				return
			}
			out.problem(fmt.Sprintf("ChangesSize (%s, %s) = %d, expected %d (sum over added/modified non-directories, each inode once)", label, desc, got, want))
		}
		check("as returned", first, want)
		perm := append([]archive.Change(nil), first...)
		for i := len(perm) - 1; i > 0; i-- {
			j := r.intn(i + 1)
			perm[i], perm[j] = perm[j], perm[i]
		}
		check("permuted", perm, want)
		var dels []archive.Change
		for p := range N {
			dels = append(dels, archive.Change{Path: p, Kind: archive.ChangeDelete})
			if len(dels) >= 50 {
				break
			}
		}
		check("deletes", dels, 0)
		if want > 0 {
			out.count("size:positive")
		} else {
			out.count("size:zero")
		}
	}

	// ---- pruning (distribution) and the completeness of the collected trees
	if !oldEmpty {
		coll, err := archive.VerifCollectFileInfoForChanges(chgOld, chgNew)
		if err != nil {
			out.problem(fmt.Sprintf("collectFileInfoForChanges failed (%s): %q", desc, err.Error()))
		} else {
			pruned := 0
			all := map[string]bool{}
			for p := range O {
				all[p] = true
			}
			for p := range N {
				all[p] = true
			}
			for p := range all {
				c := coll[p]
				if c == nil {
					pruned++
					continue
				}
				o, n := O[p], N[p]
				if c.In1 != (o != nil) || c.In2 != (n != nil) || (o != nil && c.IsDir1 != o.isDir()) || (n != nil && c.IsDir2 != n.isDir()) {
					out.problem(fmt.Sprintf("collected trees misrepresent %q (%s): in old=%v (disk %v) in new=%v (disk %v)", p, desc, c.In1, o != nil, c.In2, n != nil))
					break
				}
			}
			for p := range coll {
				if p != "/" && !all[p] {
					out.problem(fmt.Sprintf("collected trees contain %q which is in neither tree (%s)", p, desc))
					break
				}
			}
			out.count("pruned:" + storage + ":" + chgBucket(pruned))
			out.add("pruned-nodes:"+storage, pruned)
			if storage != "shared" && pruned > 0 {
				out.count("pruned:IN-INDEPENDENT-TREES")
			}
		}
	}

	// ---- distribution
	nA, nC, nD := 0, 0, 0
	for k := range ref {
		switch k[0] {
		case 'A':
			nA++
		case 'C':
			nC++
		case 'D':
			nD++
		}
	}
	out.add("kind:add", nA)
	out.add("kind:modify", nC)
	out.add("kind:delete", nD)
	out.count("shape:" + shape + "/" + storage)
	out.count("expected-entries:" + chgBucket(len(ref)))
	if len(ref) == 0 {
		out.count("case:no-change")
	}
	// directories reported only because of what they contain; deletion-only directories
	delOnly, contOnly, typeRepl, unreportedDirDiff := 0, 0, 0, 0
	for p, n := range N {
		o := O[p]
		if o == nil {
			continue
		}
		if o.mode&unix.S_IFMT != n.mode&unix.S_IFMT {
			typeRepl++
			if strings.Count(p, "/") >= 2 {
				out.count("type-replaced:at-depth>=2")
			}
			if (o.isDir() || n.isDir()) && (o.mode&unix.S_IFMT == unix.S_IFLNK || n.mode&unix.S_IFMT == unix.S_IFLNK) {
				out.count("type-replaced:symlink<>dir")
			}
		}
		if !(o.isDir() && n.isDir()) {
			continue
		}
		if !ref["C"+p] && (o.size != n.size || o.sec != n.sec || o.nsec != n.nsec) {
			unreportedDirDiff++
			if o.size != n.size {
				out.count("dir:size-differs-unreported")
			}
		}
		if ref["C"+p] && !chgDiffers(o, n) {
			contOnly++
			only := true
			dels := 0
			for k := range ref {
				q := k[1:]
				if !strings.HasPrefix(q, p+"/") {
					continue
				}
				if k[0] == 'D' && chgParent(q) == p {
					dels++
				} else {
					only = false
					break
				}
			}
			if only && dels > 0 {
				delOnly++
			}
		}
	}
	out.add("dir:reported-for-contents-only", contOnly)
	out.add("dir:deletion-only", delOnly)
	out.add("dir:size-or-mtime-differs-unreported", unreportedDirDiff)
	out.add("type-replaced", typeRepl)
	// old-only paths that must stay unreported because their parent is gone or no longer a directory
	hidden := 0
	for p := range O {
		if N[p] == nil && !ref["D"+p] {
			hidden++
		}
	}
	out.add("delete:suppressed-below-removed-or-replaced-parent", hidden)
	// largest directory and the getdents buffers it needs
	maxEnt, maxBytes := 0, 0
	for _, T := range []map[string]*chgStat{O, N} {
		cnt := map[string]int{}
		byt := map[string]int{}
		for p := range T {
			par := chgParent(p)
			cnt[par]++
			byt[par] += (19 + len(p) - strings.LastIndexByte(p, '/') - 1 + 1 + 7) &^ 7
		}
		for d, c := range cnt {
			if c > maxEnt {
				maxEnt = c
			}
			if byt[d] > maxBytes {
				maxBytes = byt[d]
			}
		}
	}
	out.count("largest-dir-entries:" + chgBucket(maxEnt))
	out.count("getdents-buffers-largest-dir:" + chgBucket((maxBytes+48+4095)/4096))
	// mount case: modifications the walker can only see because the devices differ
	sameInoChanged, sameIno := 0, 0
	for p, n := range N {
		o := O[p]
		if o == nil || o.dev == n.dev {
			continue
		}
		if o.ino == n.ino {
			sameIno++
			if ref["C"+p] && !n.isDir() {
				sameInoChanged++
			}
		}
	}
	if shape == "mount" {
		out.add("mount:same-ino-other-device", sameIno)
		out.add("mount:same-ino-other-device-and-modified", sameInoChanged)
		if sameInoChanged > 0 {
			out.count("mount:case-with-coinciding-inode-change")
		}
	}
	// self-check of the generator's intent for single-field changes (never a library problem)
	var walkPairs func(rel string, ks []*chgPair)
	walkPairs = func(rel string, ks []*chgPair) {
		for _, k := range ks {
			p := rel + "/" + k.name
			if k.metaField != "" && k.o != nil && k.n != nil && O[p] != nil && N[p] != nil {
				reported := ref["C"+p]
				if k.metaDiff && !reported || !k.metaDiff && reported && k.o.kind != 'd' {
					out.count("SELFCHECK-MISMATCH:" + k.metaField)
					out.note(fmt.Sprintf("generator intent not realised on disk: %q field %s intended differ=%v, reference reported=%v (dirs:%s:%s:%d)", p, k.metaField, k.metaDiff, reported, shape, storage, seed))
				} else {
					out.count(fmt.Sprintf("single-field:%s:differs=%v", k.metaField, k.metaDiff))
				}
			}
			walkPairs(p, k.kids)
		}
	}
	walkPairs("", kids)

	out.Canon = shape + "/" + storage + "/" + chgSetKey(ref)
	out.Nontriv = len(ref) > 0
	var smp []string
	for k := range ref {
		smp = append(smp, k[:1]+" "+strconv.Quote(k[1:]))
	}
	sort.Strings(smp)
	out.Sample = desc + " " + strings.Join(chgHead(smp, 6), ", ")
	return nil
}

// ---------------------------------------------------------------------------------------------
// the "readdir" case: readdirnames on real directories (clause 3)

func chgRunReaddir(seed uint64, out *chgOut) error {
	r := &Rng{s: seed}
	g := &chgGen{r: r, out: out, pool: chgEvilNames}
	dir := "/w/d"
	if err := os.Mkdir(dir, 0o755); err != nil {
		return err
	}
	var n int
	switch r.intn(8) {
	case 0:
		n = 0
	case 1:
		n = 1 + r.intn(3)
	case 2:
		n = 600
	default:
		n = r.intn(601)
	}
	names := g.pickNames(n, true)
	var prev string
	for _, nm := range names {
		p := dir + "/" + nm
		var err error
		switch k := r.intn(12); {
		case k < 6:
			err = os.WriteFile(p, nil, 0o644)
		case k < 8:
			err = os.Mkdir(p, 0o755)
		case k < 10:
			err = os.Symlink("t", p)
		case k < 11 && prev != "":
			if err = os.Link(prev, p); err != nil {
				err = os.WriteFile(p, nil, 0o644)
			}
			out.count("readdir:hardlink-entry")
		default:
			err = unix.Mknod(p, unix.S_IFIFO|0o644, 0)
		}
		if err != nil {
			return fmt.Errorf("create %q: %w", p, err)
		}
		var st unix.Stat_t
		if unix.Lstat(p, &st) == nil && st.Mode&unix.S_IFMT == unix.S_IFREG {
			prev = p
		}
	}
	// holes: remove some entries again, add a few afterwards
	kept := map[string]bool{}
	for _, nm := range names {
		kept[nm] = true
	}
	if n > 0 && r.chance(1, 2) {
		for k := r.intn(1 + n/3); k > 0; k-- {
			nm := names[r.intn(len(names))]
			if kept[nm] {
				if err := os.RemoveAll(dir + "/" + nm); err != nil {
					return err
				}
				delete(kept, nm)
			}
		}
		out.count("readdir:with-removed-entries")
	}
	gotNames, gotInos, err := archive.VerifReaddirnames(dir)
	desc := fmt.Sprintf("directory of %d entries", len(kept))
	out.count("readdir:entries:" + chgBucket(len(kept)))
	bytesTotal := 48
	for nm := range kept {
		bytesTotal += (19 + len(nm) + 1 + 7) &^ 7
	}
	out.count("readdir:getdents-buffers:" + chgBucket((bytesTotal+4095)/4096))
	out.Canon = fmt.Sprintf("readdir/%d/%d", len(kept), seed)
	out.Nontriv = len(kept) > 0
	if err != nil {
		out.problem(fmt.Sprintf("readdirnames failed on a readable %s: %q", desc, err.Error()))
		return nil
	}
	if len(gotNames) != len(gotInos) {
		out.problem("readdirnames: names and inode lists differ in length")
		return nil
	}
	for i := 1; i < len(gotNames); i++ {
		if bytes.Compare([]byte(gotNames[i-1]), []byte(gotNames[i])) >= 0 {
			out.problem(fmt.Sprintf("readdirnames (%s): result not strictly sorted bytewise at index %d: %q then %q", desc, i, gotNames[i-1], gotNames[i]))
			return nil
		}
	}
	got := map[string]uint64{}
	for i, nm := range gotNames {
		got[nm] = gotInos[i]
	}
	for nm := range kept {
		ino, ok := got[nm]
		if !ok {
			out.problem(fmt.Sprintf("readdirnames (%s): entry %q (length %d) missing from the result of %d names", desc, nm, len(nm), len(gotNames)))
			return nil
		}
		var st unix.Stat_t
		if err := unix.Lstat(dir+"/"+nm, &st); err != nil {
			return err
		}
		if st.Ino != ino {
			out.problem(fmt.Sprintf("readdirnames (%s): inode of %q is %d, lstat says %d", desc, nm, ino, st.Ino))
			return nil
		}
	}
	if len(got) != len(kept) {
		for nm := range got {
			if !kept[nm] {
				out.problem(fmt.Sprintf("readdirnames (%s): returned %q which is not in the directory", desc, nm))
				return nil
			}
		}
	}
	return nil
}

// ---------------------------------------------------------------------------------------------
// the "layers" case: the older archive.Changes(layers, rw) with aufs whiteouts (clause 5)

type chgLNode struct {
	path string // "/a/b"
	kind byte   // d r s
}

func chgRunLayers(seed uint64, out *chgOut) error {
	r := &Rng{s: seed}
	nl := 1 + r.intn(3)
	var layers []string
	for i := 0; i < nl; i++ {
		layers = append(layers, fmt.Sprintf("/w/l%d", i))
	}
	rw := "/w/rw"
	for _, d := range append([]string{rw}, layers...) {
		if err := os.Mkdir(d, 0o755); err != nil {
			return err
		}
	}
	comps := []string{"a", "b", "c", "B", "é", "d.e"}
	// rw tree
	var rwNodes []chgLNode
	kindOf := map[string]byte{"/": 'd'}
	var gen func(dir string, depth int)
	gen = func(dir string, depth int) {
		k := 1 + r.intn(4)
		if depth > 0 {
			k = r.intn(4)
		}
		for i := 0; i < k; i++ {
			nm := comps[r.intn(len(comps))]
			kind := byte('r')
			switch x := r.intn(10); {
			case x < 4 && depth < 3:
				kind = 'd'
			case x < 5:
				kind = 's'
			case x < 7:
				nm = ".wh." + nm
			}
			p := strings.TrimSuffix(dir, "/") + "/" + nm
			if _, dup := kindOf[p]; dup {
				continue
			}
			kindOf[p] = kind
			rwNodes = append(rwNodes, chgLNode{p, kind})
			if kind == 'd' {
				gen(p, depth+1)
			}
		}
	}
	gen("/", 0)
	if r.chance(1, 3) {
		// aufs bookkeeping at the top of the branch: never part of the diff
		for _, nm := range []string{".wh..wh.aufs", ".wh..wh.plnk", ".wh..wh.orph"} {
			if r.chance(1, 2) {
				rwNodes = append(rwNodes, chgLNode{"/" + nm, 'r'})
				kindOf["/"+nm] = 'r'
				out.count("layers:top-level-meta-entry")
			}
		}
	}
	secs := []int64{1000, 2000, 1700000000}
	type dirAttr struct {
		perm      uint32
		sec, nsec int64
	}
	dattr := map[string]dirAttr{}
	mk := func(root string, n chgLNode) error {
		p := root + n.path
		switch n.kind {
		case 'd':
			return os.Mkdir(p, 0o755)
		case 's':
			return os.Symlink("t", p)
		}
		return os.WriteFile(p, []byte("x"), 0o644)
	}
	for _, n := range rwNodes {
		if err := mk(rw, n); err != nil {
			return err
		}
		if n.kind == 'd' {
			a := dirAttr{perm: uint32(r.pick2(0o755, 0o700, 0o2755)), sec: secs[r.intn(len(secs))]}
			if r.chance(1, 2) {
				a.nsec = int64(1 + r.intn(999999999))
			}
			dattr[n.path] = a
		}
	}
	// layers: a directory of rw exists as a directory or not at all (the library stats
	// layer+path and a non-directory component would make that fail with ENOTDIR, which the
	// property says nothing about); a non-directory of rw exists as a file, an empty directory or not at all
	type ldir struct {
		root, path string
		attr       dirAttr
	}
	var ldirs []ldir
	for li, L := range layers {
		present := map[string]bool{"/": true}
		for _, n := range rwNodes {
			if strings.HasPrefix(filepath.Base(n.path), ".wh.") && !r.chance(1, 6) {
				continue
			}
			if !present[chgParent(n.path)] || !r.chance(1, 2) {
				continue
			}
			ln := chgLNode{n.path, n.kind}
			if n.kind != 'd' {
				ln.kind = 'r'
				if r.chance(1, 6) {
					ln.kind = 'd'
				}
			}
			if err := mk(L, ln); err != nil {
				return err
			}
			if n.kind == 'd' {
				present[n.path] = true
				a := dattr[n.path]
				switch r.intn(6) {
				case 0:
					a.perm ^= 0o011
					out.count("layers:dir-mode-differs")
				case 1:
					a.sec++
					out.count("layers:dir-mtime-differs")
				case 2:
					if a.nsec != 0 {
						a.nsec = 0 // whole seconds on one side: the same time
						out.count("layers:dir-mtime-whole-second-side")
					}
				case 3:
					a.nsec = (a.nsec + 1) % 1000000000
					out.count("layers:dir-mtime-ns-differs")
				}
				ldirs = append(ldirs, ldir{L, n.path, a})
			}
		}
		// the targets of whiteouts, and unrelated extras
		for _, n := range rwNodes {
			b := filepath.Base(n.path)
			if strings.HasPrefix(b, ".wh.") && !strings.HasPrefix(b, ".wh..wh.") && present[chgParent(n.path)] && r.chance(2, 3) {
				t := chgParent(n.path)
				t = strings.TrimSuffix(t, "/") + "/" + b[4:]
				if kindOf[t] != 'd' && !chgExists(L+t) {
					if err := os.WriteFile(L+t, []byte("gone"), 0o644); err != nil {
						return err
					}
					out.count("layers:whiteout-target-present-in-layer")
				}
			}
		}
		if r.chance(1, 2) {
			_ = os.WriteFile(fmt.Sprintf("%s/extra%d", L, li), nil, 0o644)
		}
	}
	// equalise or not the entry counts (directory size) of rw and layer directories
	for _, d := range ldirs {
		if r.chance(1, 2) {
			er, _ := os.ReadDir(rw + d.path)
			el, _ := os.ReadDir(d.root + d.path)
			for i := len(el); i < len(er); i++ {
				_ = os.WriteFile(fmt.Sprintf("%s%s/pad%d", d.root, d.path, i), nil, 0o644)
			}
		}
	}
	// attributes last
	for p, a := range dattr {
		if err := os.Chmod(rw+p, modeFromPerm(a.perm)); err != nil {
			return err
		}
	}
	for _, d := range ldirs {
		if err := os.Chmod(d.root+d.path, modeFromPerm(d.attr.perm)); err != nil {
			return err
		}
	}
	for p, a := range dattr {
		ts := []unix.Timespec{{Sec: a.sec, Nsec: a.nsec}, {Sec: a.sec, Nsec: a.nsec}}
		if err := unix.UtimesNanoAt(unix.AT_FDCWD, rw+p, ts, 0); err != nil {
			return err
		}
	}
	for _, d := range ldirs {
		ts := []unix.Timespec{{Sec: d.attr.sec, Nsec: d.attr.nsec}, {Sec: d.attr.sec, Nsec: d.attr.nsec}}
		if err := unix.UtimesNanoAt(unix.AT_FDCWD, d.root+d.path, ts, 0); err != nil {
			return err
		}
	}

	// ---- reference, from the disk
	RW, err := chgScan(rw)
	if err != nil {
		return err
	}
	ref := map[string]bool{}
	reportedDir := map[string]bool{}
	var paths []string
	for p := range RW {
		paths = append(paths, p)
	}
	sort.Strings(paths)
	type ev struct{ kind, path, at string }
	var evs []ev
	for _, p := range paths {
		st := RW[p]
		base := filepath.Base(p)
		if chgParent(p) == "/" && strings.HasPrefix(base, ".wh..wh.") {
			out.count("layers:skipped-meta")
			continue
		}
		if strings.HasPrefix(base, ".wh.") {
			t := strings.TrimSuffix(chgParent(p), "/") + "/" + base[4:]
			evs = append(evs, ev{"D", t, p})
			continue
		}
		kind := "A"
		for _, L := range layers {
			ls, err := chgLstat(L + p) // layers hold no symlinks, so lstat is stat
			if err != nil {
				continue
			}
			kind = "C"
			if ls.isDir() && st.isDir() && ls.size == st.size && ls.mode == st.mode && chgSameTime(ls.sec, ls.nsec, st.sec, st.nsec) {
				kind = ""
				out.count("layers:dir-unchanged-not-reported")
			} else if ls.isDir() && st.isDir() {
				out.count("layers:dir-changed")
			}
			break
		}
		if kind == "" {
			continue
		}
		if st.isDir() {
			reportedDir[p] = true
		}
		evs = append(evs, ev{kind, p, p})
	}
	for _, e := range evs {
		ref[e.kind+e.path] = true
		if e.kind == "A" || e.kind == "D" {
			if par := chgParent(e.at); par != "/" && !reportedDir[par] {
				if !ref["C"+par] {
					out.count("layers:parent-inserted")
				}
				ref["C"+par] = true
			}
		}
	}
	desc := fmt.Sprintf("%d layers, rw of %d entries, expected %d", nl, len(RW), len(ref))
	var firstKey string
	for run := 0; run < 2; run++ {
		got, err := archive.Changes(layers, rw)
		if err != nil {
			out.problem(fmt.Sprintf("Changes failed (%s): %q", desc, err.Error()))
			break
		}
		// (a whiteout next to a live entry of the same name yields D and A/C for one path: paths need not be unique here)
		if msg := chgCheckList(got, ref, false); msg != "" {
			var lst []string
			for _, c := range got {
				lst = append(lst, chgKindLetter(c.Kind)+" "+strconv.Quote(c.Path))
			}
			out.problem(fmt.Sprintf("Changes (%s): %s; returned %v", desc, msg, chgHead(lst, 12)))
			break
		}
		set := map[string]bool{}
		for _, c := range got {
			set[chgKindLetter(c.Kind)+c.Path] = true
		}
		if run == 0 {
			firstKey = chgSetKey(set)
		} else if chgSetKey(set) != firstKey {
			out.problem(fmt.Sprintf("Changes (%s): second run returned a different set", desc))
		}
	}
	for k := range ref {
		out.count("layers:kind:" + k[:1])
	}
	out.count(fmt.Sprintf("layers:count=%d", nl))
	out.Canon = "layers/" + chgSetKey(ref) + fmt.Sprint(nl)
	out.Nontriv = len(ref) > 0
	return nil
}

// chgLayersProbe records (as a note, not as a problem: C10 is about the directory diff) how the
// layer-based Changes treats aufs bookkeeping names below the top level.
func chgLayersProbe(out *chgOut) error {
	for _, d := range []string{"/w/l/a", "/w/rw/a", "/w/rw/.wh..wh.plnk/sub"} {
		if err := os.MkdirAll(d, 0o755); err != nil {
			return err
		}
	}
	for _, f := range []string{"/w/l/a/x", "/w/rw/a/.wh..wh..opq", "/w/rw/.wh..wh..opq", "/w/rw/.wh..wh.plnk/sub/f"} {
		if err := os.WriteFile(f, nil, 0o644); err != nil {
			return err
		}
	}
	got, err := archive.Changes([]string{"/w/l"}, "/w/rw")
	if err != nil {
		out.problem(fmt.Sprintf("Changes failed on the aufs bookkeeping probe: %q", err.Error()))
		return nil
	}
	var lst []string
	nested, plnk := false, false
	for _, c := range got {
		lst = append(lst, chgKindLetter(c.Kind)+" "+c.Path)
		if c.Path == "/a/.wh..opq" {
			nested = true
		}
		if strings.HasPrefix(c.Path, "/.wh..wh.plnk") {
			plnk = true
		}
		if c.Path == "/.wh..opq" || c.Path == "/.wh..wh..opq" {
			out.problem("Changes reports the top-level aufs bookkeeping entry .wh..wh..opq: " + strings.Join(lst, ", "))
		}
	}
	out.count(fmt.Sprintf("layers:probe:nested-opaque-marker-reported-as-deletion=%v", nested))
	out.count(fmt.Sprintf("layers:probe:contents-of-top-level-meta-dir-reported=%v", plnk))
	if nested || plnk {
		out.note("OBS-changes-aufs-meta-below-top: archive.Changes skips .wh..wh.* names only directly under the root: rw/a/.wh..wh..opq and rw/.wh..wh.plnk/sub/f give [" + strings.Join(lst, ", ") + "]")
	}
	out.Canon = "layers/probe"
	out.Nontriv = true
	return nil
}

func chgRenderTree(sb *strings.Builder, n *archive.VerifTreeNode) {
	b := "0"
	if n.IsDir {
		b = "1"
	}
	fmt.Fprintf(sb, " N %s %d %s %d %d %d %d %d %d %s %d", hx(n.Name), n.Mode, b, n.Uid, n.Gid, n.Rdev, n.Size, n.MtimeSec, n.MtimeNsec, hx(string(n.Cap)), len(n.Children))
	for _, c := range n.Children {
		chgRenderTree(sb, c)
	}
}

func chgTreeSize(n *archive.VerifTreeNode) int {
	k := 1
	for _, c := range n.Children {
		k += chgTreeSize(c)
	}
	return k
}
