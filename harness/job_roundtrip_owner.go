package main

import (
	"archive/tar"
	"bytes"
	"fmt"
	"io"
	"os"
	"path"
	"sort"
	"strings"
	"time"

	"golang.org/x/sys/unix"

	"github.com/moby/sys/user"

	archive "github.com/moby/go-archive"
	"github.com/moby/go-archive/chrootarchive"
)

// Family "owner" (C12): ID mappings (single/multi range, uid and gid maps differing), owner ids
// inside, on both edges of and outside every range, × {none, NoLchown, ChownOpts} ×
// {TarWithOptions/ExportChanges, Untar, ApplyUncompressedLayer, tar→untar, CopyWithTar,
// CopyFileWithTar}. The expectations come from the reference translation below, written from the
// documented meaning of a mapping (container id c in [C, C+N) <-> host id H + (c - C)).

type rtMap struct {
	U, G []IDRange // nil = no translation for that id kind
	Name string
}

func rtRefToHost(c int, rs []IDRange) (int, bool) {
	if rs == nil {
		return c, true
	}
	for _, r := range rs {
		if c >= r.C && c-r.C < r.N {
			return r.H + (c - r.C), true
		}
	}
	return -1, false
}

func rtRefToContainer(h int, rs []IDRange) (int, bool) {
	if rs == nil {
		return h, true
	}
	for _, r := range rs {
		if h >= r.H && h-r.H < r.N {
			return r.C + (h - r.H), true
		}
	}
	return -1, false
}

func (m rtMap) root() (int, int) {
	u, _ := rtRefToHost(0, m.U)
	g, _ := rtRefToHost(0, m.G)
	return u, g
}

func (m rtMap) empty() bool { return len(m.U) == 0 && len(m.G) == 0 }

func (m rtMap) real() user.IdentityMapping {
	conv := func(rs []IDRange) []user.IDMap {
		var out []user.IDMap
		for _, r := range rs {
			out = append(out, user.IDMap{ID: int64(r.C), ParentID: int64(r.H), Count: int64(r.N)})
		}
		return out
	}
	return user.IdentityMapping{UIDMaps: conv(m.U), GIDMaps: conv(m.G)}
}

func (m rtMap) String() string {
	return fmt.Sprintf("%s uid[%s] gid[%s]", m.Name, rangesStr(m.U), rangesStr(m.G))
}

// toHost: the plain translation of a container pair; ok=false when either id is untranslatable.
func (m rtMap) toHost(cu, cg int) (int, int, bool) {
	u, ok1 := rtRefToHost(cu, m.U)
	g, ok2 := rtRefToHost(cg, m.G)
	return u, g, ok1 && ok2
}

// toHostSC: the translation with the dependency's short-circuit (finding D5): an id equal to the
// HOST id of the mapped root is returned unchanged.
func (m rtMap) toHostSC(cu, cg int) (int, int, bool) {
	ru, rg := m.root()
	u, ok1 := rtRefToHost(cu, m.U)
	if cu == ru {
		u, ok1 = cu, true
	}
	g, ok2 := rtRefToHost(cg, m.G)
	if cg == rg {
		g, ok2 = cg, true
	}
	return u, g, ok1 && ok2
}

// d5 reports whether the short-circuit changes the outcome for this container pair.
func (m rtMap) d5(cu, cg int) bool {
	a, b, ok := m.toHost(cu, cg)
	c, d, ok2 := m.toHostSC(cu, cg)
	return ok != ok2 || (ok && (a != c || b != d))
}

func (m rtMap) toContainer(hu, hg int) (int, int, bool) {
	if m.empty() {
		return hu, hg, true
	}
	u, ok1 := rtRefToContainer(hu, m.U)
	g, ok2 := rtRefToContainer(hg, m.G)
	return u, g, ok1 && ok2
}

var rtMapPool = []rtMap{
	{Name: "single", U: []IDRange{{0, 100000, 65536}}, G: []IDRange{{0, 100000, 65536}}},
	{Name: "root+range", U: []IDRange{{0, 1000, 1}, {1, 100000, 65536}}, G: []IDRange{{0, 1001, 1}, {1, 200000, 1000}}},
	{Name: "stacked", U: []IDRange{{0, 100000, 100000}, {100000, 300000, 100000}}, G: []IDRange{{0, 200000, 200000}, {200000, 400000, 200000}}},
	{Name: "gapped", U: []IDRange{{0, 5000, 100}, {1000, 70000, 50}}, G: []IDRange{{0, 6000, 10}, {500, 80000, 2}}},
	{Name: "uid-only", U: []IDRange{{0, 100000, 65536}}},
	{Name: "gid-only", G: []IDRange{{0, 100000, 65536}}},
	{Name: "tiny", U: []IDRange{{0, 7, 1}}, G: []IDRange{{0, 8, 1}}},
	{Name: "small", U: []IDRange{{0, 1000, 10}}, G: []IDRange{{0, 2000, 3}}},
}

func rtGenRanges(r *Rng) []IDRange {
	n := 1 + r.intn(3)
	var out []IDRange
	c, h := 0, 1000*(1+r.intn(200))
	for i := 0; i < n; i++ {
		cnt := rtPickInt(r, []int{1, 2, 10, 1000, 65536})
		out = append(out, IDRange{c, h, cnt})
		c += cnt + rtPickInt(r, []int{0, 0, 1, 500})
		h += cnt + rtPickInt(r, []int{0, 1, 100000})
	}
	if r.chance(1, 4) && n > 1 {
		// the later container range starts at the first range's host ids (a second translation would succeed)
		out[1].C = out[0].H
		if out[0].C+out[0].N > out[1].C {
			out[1].C = out[0].C + out[0].N
		}
		for i := 2; i < len(out); i++ {
			out[i].C = out[i-1].C + out[i-1].N + 3
		}
	}
	return out
}

func rtGenMap(r *Rng) rtMap {
	if r.chance(3, 5) {
		return rtMapPool[r.intn(len(rtMapPool))]
	}
	return rtMap{Name: "random", U: rtGenRanges(r), G: rtGenRanges(r)}
}

// rtEdgeID picks an id of a class relative to the ranges, on the container side (host=false) or the host side.
// classes: low, high, inside, below, above, zero
func rtEdgeID(r *Rng, rs []IDRange, host bool) (int, string) {
	if rs == nil {
		return rtPickInt(r, []int{0, 1, 1000, 65534}), "nomap"
	}
	if r.chance(1, 12) {
		return 0, "zero"
	}
	rg := rs[r.intn(len(rs))]
	base := rg.C
	if host {
		base = rg.H
	}
	switch r.intn(8) {
	case 0, 1:
		return base, "low-edge"
	case 2, 3:
		return base + rg.N - 1, "high-edge"
	case 4:
		return base + r.intn(rg.N), "inside"
	case 5:
		if base > 0 {
			return base - 1, "below"
		}
		return base, "low-edge"
	case 6:
		return base + rg.N, "above"
	default:
		return base + rg.N/2, "inside"
	}
}

type rtOwnerOpt struct {
	Mode  string // none | nolchown | chown
	Chown [2]int
}

func (o rtOwnerOpt) apply(t *archive.TarOptions) {
	switch o.Mode {
	case "nolchown":
		t.NoLchown = true
	case "chown":
		t.ChownOpts = &archive.ChownOpts{UID: o.Chown[0], GID: o.Chown[1]}
	}
}

func rtGenOwnerOpt(r *Rng) rtOwnerOpt {
	switch r.intn(4) {
	case 0:
		return rtOwnerOpt{Mode: "nolchown"}
	case 1:
		return rtOwnerOpt{Mode: "chown", Chown: [2]int{rtPickInt(r, []int{0, 1, 42, 1000, 100000, 123456}), rtPickInt(r, []int{0, 2, 43, 1001, 100000, 654321})}}
	}
	return rtOwnerOpt{Mode: "none"}
}

func rtOwnerCase(r *Rng, out *rtOut) {
	m := rtGenMap(r)
	out.count("owner/cases")
	op := []string{"tar", "tar", "untar", "untar", "layer", "roundtrip", "roundtrip", "copydir", "copyfile", "copyfile"}[r.intn(10)]
	if op == "copyfile" && r.chance(1, 3) {
		// a later range whose container ids are an earlier range's host ids: a second translation would succeed silently
		m = rtMapPool[2]
		if r.chance(1, 2) {
			a, b := 1000*(1+r.intn(100)), 1000*(1+r.intn(100))
			m = rtMap{Name: "stacked-random", U: []IDRange{{0, a, a}, {a, 3 * a, a}}, G: []IDRange{{0, b, b}, {b, 5 * b, b}}}
		}
	}
	out.count("owner/op:" + op)
	out.count("owner/map:" + m.Name)
	if len(m.U) > 1 || len(m.G) > 1 {
		out.count("owner/map-multi-range")
	}
	if rangesStr(m.U) != rangesStr(m.G) {
		out.count("owner/map-uid-gid-differ")
	}
	var canon strings.Builder
	fmt.Fprintf(&canon, "owner %s %s\n", op, m)
	out.Nontrivial = !m.empty()
	switch op {
	case "tar":
		rtOwnerTar(r, m, out, &canon)
	case "untar", "layer":
		rtOwnerExtract(r, m, op, out, &canon)
	case "roundtrip":
		rtOwnerRoundtrip(r, m, out, &canon)
	case "copydir":
		rtOwnerCopyDir(r, m, out, &canon)
	case "copyfile":
		rtOwnerCopyFile(r, m, out, &canon)
	}
	out.Canon = canon.String()
	out.Sample = truncate(strings.ReplaceAll(out.Canon, "\n", " | "), 300)
}

// hostID picks a host-side owner pair for archiving; wantMapped=true keeps it translatable.
func rtHostPair(r *Rng, m rtMap, out *rtOut, wantMapped bool) (int, int) {
	for try := 0; try < 40; try++ {
		u, cu := rtEdgeID(r, m.U, true)
		g, cg := rtEdgeID(r, m.G, true)
		_, _, ok := m.toContainer(u, g)
		if wantMapped && !ok {
			continue
		}
		out.count("owner/host-id-uid:" + cu)
		out.count("owner/host-id-gid:" + cg)
		return u, g
	}
	u, g := m.root()
	return u, g
}

// ---- archiving side ----

func rtOwnerTar(r *Rng, m rtMap, out *rtOut, canon *strings.Builder) {
	opt := rtGenOwnerOpt(r)
	if opt.Mode == "nolchown" {
		opt.Mode = "none" // NoLchown is an extraction option
	}
	api := "TarWithOptions"
	if opt.Mode == "none" && r.chance(1, 4) {
		api = "ExportChanges"
	}
	out.count("owner/tar-api:" + api)
	out.count("owner/tar-mode:" + opt.Mode)
	var nodes []rtNode
	sec := int64(1600000000)
	add := func(rel string, kind byte, u, g int) {
		sec++
		n := rtNode{Rel: rel, Kind: kind, Perm: 0o644, Uid: u, Gid: g, Sec: sec}
		switch kind {
		case 'd':
			n.Perm = 0o755
		case 'r':
			n.Data = "x"
		case 's':
			n.Target = "t"
			n.Perm = 0o777
		}
		nodes = append(nodes, n)
	}
	pair := func() (int, int) { return rtHostPair(r, m, out, r.chance(3, 4)) }
	u, g := pair()
	add("sub", 'd', u, g)
	u, g = pair()
	add("sub/deeper", 'd', u, g)
	for i, k := 0, 3+r.intn(5); i < k; i++ {
		u, g = pair()
		dir := r.pick([]string{"", "sub", "sub/deeper"})
		add(rtJoin(dir, fmt.Sprintf("f%d", i)), []byte{'r', 'r', 'd', 's', 'f'}[r.intn(5)], u, g)
	}
	// whiteout-named files at every depth, with owners inside and outside the mapping
	for _, w := range []string{".wh.top", "sub/.wh.inner", "sub/deeper/.wh..wh..opq", "sub/deeper/.wh.x"} {
		if r.chance(3, 4) {
			u, g = rtHostPair(r, m, out, r.chance(1, 2))
			add(w, 'r', u, g)
			nodes[len(nodes)-1].Data = ""
		}
	}
	// an overlay whiteout device and an ordinary device
	if r.chance(1, 2) {
		u, g = rtHostPair(r, m, out, r.chance(1, 2))
		add(r.pick([]string{"wo", "sub/wo"}), 'c', u, g)
	}
	if r.chance(1, 2) {
		u, g = pair()
		add(r.pick([]string{"dev", "sub/dev"}), 'c', u, g)
		nodes[len(nodes)-1].Min = 1
	}
	fmt.Fprintf(canon, "api=%s mode=%s %v\n%s", api, opt.Mode, opt.Chown, rtTreeText(nodes))
	src := "/w/src"
	if err := rtMkTop(src, 0o755); err != nil {
		out.Setup = err.Error()
		return
	}
	if err := newRtBuilder().build(src, nodes, rtOneDomain, nil); err != nil {
		out.Setup = "build source: " + err.Error()
		return
	}
	var rc io.ReadCloser
	var err error
	if api == "ExportChanges" {
		changes, cerr := archive.ChangesDirs(src, "")
		if cerr != nil {
			out.problem("tar", "ChangesDirs failed: "+cerr.Error())
			return
		}
		rc, err = archive.ExportChanges(src, changes, m.real())
	} else {
		t := &archive.TarOptions{IDMap: m.real()}
		opt.apply(t)
		rc, err = archive.TarWithOptions(src, t)
	}
	if err != nil {
		out.problem("tar", api+" failed: "+err.Error())
		return
	}
	stream, err := io.ReadAll(rc)
	rc.Close()
	if err != nil {
		out.problem("tar", "reading the archive failed: "+err.Error())
		return
	}
	hdrs, err := rtParseTar(stream)
	if err != nil {
		out.problem("tar", "the archive does not parse: "+err.Error())
		return
	}
	byName := map[string]*tar.Header{}
	for _, h := range hdrs {
		byName[strings.TrimSuffix(h.H.Name, "/")] = h.H
	}
	for i := range nodes {
		n := &nodes[i]
		h := byName[n.Rel]
		whiteout := strings.HasPrefix(path.Base(n.Rel), ".wh.") || rtIsWhiteoutDev(n)
		cu, cg, ok := m.toContainer(n.Uid, n.Gid)
		switch {
		case whiteout:
			if h == nil {
				out.problem("tar-whiteout-owner-untranslated", fmt.Sprintf("%s: whiteout %q (owner %d:%d) is missing from the archive", m, n.Rel, n.Uid, n.Gid))
				continue
			}
			wu, wg := n.Uid, n.Gid
			if opt.Mode == "chown" {
				wu, wg = opt.Chown[0], opt.Chown[1]
				out.count("owner/clause:chownopts-wins-tar")
			} else {
				out.count("owner/clause:tar-whiteout-owner-untranslated")
				if !ok {
					out.count("owner/clause:tar-whiteout-owner-untranslated(unmappable owner)")
				}
				if strings.Contains(n.Rel, "/") {
					out.count("owner/clause:tar-whiteout-owner-untranslated(in subdirectory)")
				}
			}
			if h.Uid != wu || h.Gid != wg {
				out.problem("tar-whiteout-owner-untranslated", fmt.Sprintf("%s mode=%s: whiteout %q on-disk owner %d:%d has header owner %d:%d, want %d:%d", m, opt.Mode, n.Rel, n.Uid, n.Gid, h.Uid, h.Gid, wu, wg))
			}
		case !ok:
			// untranslatable: left out; if a variant keeps it, it must not carry an invented owner
			if h != nil && opt.Mode == "chown" && h.Uid == opt.Chown[0] && h.Gid == opt.Chown[1] {
				continue
			}
			if h != nil {
				out.problem("tar-unmapped-left-out", fmt.Sprintf("%s: %q with untranslatable owner %d:%d is in the archive as %d:%d", m, n.Rel, n.Uid, n.Gid, h.Uid, h.Gid))
			}
			out.count("owner/clause:tar-unmapped-left-out")
		default:
			if h == nil {
				out.problem("tar-header-ids", fmt.Sprintf("%s: %q (owner %d:%d, translatable) is missing from the archive", m, n.Rel, n.Uid, n.Gid))
				continue
			}
			wu, wg := cu, cg
			if opt.Mode == "chown" {
				wu, wg = opt.Chown[0], opt.Chown[1]
				out.count("owner/clause:chownopts-wins-tar")
			} else {
				out.count("owner/clause:tar-header-ids")
			}
			if h.Uid != wu || h.Gid != wg {
				out.problem("tar-header-ids", fmt.Sprintf("%s mode=%s: %q on-disk owner %d:%d has header owner %d:%d, want %d:%d", m, opt.Mode, n.Rel, n.Uid, n.Gid, h.Uid, h.Gid, wu, wg))
			}
		}
	}
	for name := range byName {
		found := false
		for i := range nodes {
			if nodes[i].Rel == name {
				found = true
			}
		}
		if !found {
			out.problem("tar-names", fmt.Sprintf("unexpected entry %q", name))
		}
	}
}

// ---- extraction side ----

type rtEnt struct {
	Name     string
	Typ      byte
	Uid, Gid int
	Link     string
	Implied  []string // parents created implicitly by this entry
	Class    string
}

func rtWriteTar(ents []rtEnt) []byte {
	var buf bytes.Buffer
	tw := tar.NewWriter(&buf)
	for _, e := range ents {
		h := &tar.Header{Name: e.Name, Typeflag: e.Typ, Uid: e.Uid, Gid: e.Gid, Mode: 0o644, ModTime: time.Unix(1600000000, 0), Format: tar.FormatPAX}
		body := ""
		switch e.Typ {
		case tar.TypeDir:
			h.Mode = 0o755
		case tar.TypeReg:
			body = "data"
			h.Size = int64(len(body))
		case tar.TypeSymlink:
			h.Linkname = "t"
		case tar.TypeLink:
			h.Linkname = e.Link
		}
		_ = tw.WriteHeader(h)
		if body != "" {
			_, _ = tw.Write([]byte(body))
		}
	}
	tw.Close()
	return buf.Bytes()
}

// containerPair picks a container-side pair of the requested kind: "ok" translatable and not in
// the D5 situation, "bad" untranslatable (and not rescued by the short-circuit), "d5" the known collision.
func rtContainerPair(r *Rng, m rtMap, kind string, out *rtOut) (int, int, bool) {
	ru, rg := m.root()
	for try := 0; try < 60; try++ {
		u, cu := rtEdgeID(r, m.U, false)
		g, cg := rtEdgeID(r, m.G, false)
		if kind == "d5" {
			if r.chance(1, 2) {
				u = ru
			} else {
				g = rg
			}
		}
		_, _, ok := m.toHost(u, g)
		_, _, okSC := m.toHostSC(u, g)
		d5 := m.d5(u, g)
		switch kind {
		case "ok":
			if !ok || d5 {
				continue
			}
		case "bad":
			if ok || okSC {
				continue
			}
		case "d5":
			if !d5 {
				continue
			}
		}
		out.count("owner/container-id-uid:" + cu)
		out.count("owner/container-id-gid:" + cg)
		return u, g, true
	}
	return 0, 0, false
}

// checkExtractedOwner compares an extracted object's owner with the translation of its header
// ids. Returns false when it reported something.
func rtCheckOwner(out *rtOut, m rtMap, opt rtOwnerOpt, what string, gotU, gotG, cu, cg int, clause string) bool {
	switch opt.Mode {
	case "chown":
		out.count("owner/clause:chownopts-wins-untar")
		if gotU != opt.Chown[0] || gotG != opt.Chown[1] {
			out.problem("chownopts-wins-untar", fmt.Sprintf("%s: %s owner %d:%d, want the ChownOpts pair %d:%d", m, what, gotU, gotG, opt.Chown[0], opt.Chown[1]))
			return false
		}
		return true
	case "nolchown":
		out.count("owner/clause:nolchown")
		if gotU != 0 || gotG != 0 {
			out.problem("nolchown", fmt.Sprintf("%s: %s owner %d:%d although NoLchown was set (creator is 0:0)", m, what, gotU, gotG))
			return false
		}
		return true
	}
	wu, wg, ok := m.toHost(cu, cg)
	if ok && gotU == wu && gotG == wg {
		out.count("owner/clause:" + clause)
		return true
	}
	su, sg, okSC := m.toHostSC(cu, cg)
	if m.d5(cu, cg) && okSC && gotU == su && gotG == sg {
		out.known("D5", clause, fmt.Sprintf("%s: %s with container ids %d:%d is owned by %d:%d, the translation is %s (the id equals the host id of the mapped root and is left untranslated)",
			m, what, cu, cg, gotU, gotG, rtPairOrErr(wu, wg, ok)))
		out.count("owner/known:D5")
		return false
	}
	out.problem(clause, fmt.Sprintf("%s: %s with container ids %d:%d is owned by %d:%d, want %s", m, what, cu, cg, gotU, gotG, rtPairOrErr(wu, wg, ok)))
	return false
}

func rtPairOrErr(u, g int, ok bool) string {
	if !ok {
		return "an error (untranslatable)"
	}
	return fmt.Sprintf("%d:%d", u, g)
}

func rtLstatOwner(p string) (int, int, error) {
	var st unix.Stat_t
	if err := unix.Lstat(p, &st); err != nil {
		return 0, 0, err
	}
	return int(st.Uid), int(st.Gid), nil
}

func rtOwnerExtract(r *Rng, m rtMap, op string, out *rtOut, canon *strings.Builder) {
	opt := rtGenOwnerOpt(r)
	ext := r.pick([]string{"plain", "chroot"})
	out.count("owner/" + op + "-mode:" + opt.Mode)
	out.count("owner/" + op + "-ext:" + ext)
	scenario := "ok"
	switch k := r.intn(20); {
	case k < 5:
		scenario = "bad"
	case k < 6:
		scenario = "d5"
	}
	var ents []rtEnt
	badAt := -1
	n := 3 + r.intn(6)
	if scenario != "ok" {
		badAt = r.intn(n)
	}
	seq := 0
	for i := 0; i < n; i++ {
		kind := "ok"
		if i == badAt {
			kind = scenario
		}
		cu, cg, found := rtContainerPair(r, m, kind, out)
		if !found {
			if kind != "ok" {
				scenario, badAt = "ok", -1
			}
			cu, cg = 0, 0
		}
		seq++
		e := rtEnt{Uid: cu, Gid: cg, Class: kind}
		switch r.intn(7) {
		case 0, 1:
			e.Name, e.Typ = fmt.Sprintf("f%d", seq), tar.TypeReg
		case 2:
			e.Name, e.Typ = fmt.Sprintf("d%d/", seq), tar.TypeDir
		case 3:
			e.Name, e.Typ = fmt.Sprintf("s%d", seq), tar.TypeSymlink
		case 4:
			e.Name, e.Typ = fmt.Sprintf("p%d", seq), tar.TypeFifo
		default:
			// implied parents: no entries for imp<seq> and imp<seq>/q
			e.Name, e.Typ = fmt.Sprintf("imp%d/q/f", seq), tar.TypeReg
			e.Implied = []string{fmt.Sprintf("imp%d", seq), fmt.Sprintf("imp%d/q", seq)}
			if r.chance(1, 3) {
				e.Name, e.Typ = fmt.Sprintf("imp%d/q/d/", seq), tar.TypeDir
			}
		}
		ents = append(ents, e)
	}
	if op == "layer" && scenario == "ok" && r.chance(1, 2) {
		// a staged file with two links to it: each link is translated exactly once
		cu, cg, found := rtContainerPair(r, m, "ok", out)
		if found {
			ents = append(ents, rtEnt{Name: ".wh..wh.plnk/77", Typ: tar.TypeReg, Uid: cu, Gid: cg, Class: "staged"})
			ents = append(ents, rtEnt{Name: "la", Typ: tar.TypeLink, Link: ".wh..wh.plnk/77", Uid: cu, Gid: cg, Class: "staged-link"})
			ents = append(ents, rtEnt{Name: "lb", Typ: tar.TypeLink, Link: ".wh..wh.plnk/77", Uid: cu, Gid: cg, Class: "staged-link"})
			out.count("owner/layer-staged-links")
		}
	}
	out.count("owner/" + op + "-scenario:" + scenario)
	destMissing := op == "untar" && ext == "chroot" && r.chance(1, 3)
	fmt.Fprintf(canon, "%s ext=%s mode=%s %v scenario=%s destMissing=%v\n", op, ext, opt.Mode, opt.Chown, scenario, destMissing)
	for _, e := range ents {
		fmt.Fprintf(canon, "%s %c %d:%d %s\n", e.Name, e.Typ, e.Uid, e.Gid, e.Class)
	}
	stream := rtWriteTar(ents)
	dst := "/w/dst"
	if !destMissing {
		if err := rtMkTop(dst, 0o755); err != nil {
			out.Setup = err.Error()
			return
		}
	} else {
		out.count("owner/untar-dest-created")
	}
	t := &archive.TarOptions{IDMap: m.real()}
	opt.apply(t)
	var err error
	unix.Umask(0o022)
	switch {
	case op == "untar" && ext == "plain":
		err = archive.Untar(bytes.NewReader(stream), dst, t)
	case op == "untar":
		err = chrootarchive.Untar(bytes.NewReader(stream), dst, t)
	case ext == "plain":
		_, err = archive.ApplyUncompressedLayer(dst, bytes.NewReader(stream), t)
	default:
		_, err = chrootarchive.ApplyUncompressedLayer(dst, bytes.NewReader(stream), t)
	}
	unix.Umask(0)
	ru, rg := m.root()
	if scenario == "bad" {
		out.count("owner/clause:untar-unmapped-is-error(" + opt.Mode + ")")
		if err == nil && opt.Mode == "none" {
			e := ents[badAt]
			gu, gg, _ := rtLstatOwner(dst + "/" + strings.TrimSuffix(e.Name, "/"))
			out.problem("untar-unmapped-is-error", fmt.Sprintf("%s %s/%s: entry %q with untranslatable container ids %d:%d was extracted without error (owner now %d:%d)", m, op, ext, e.Name, e.Uid, e.Gid, gu, gg))
		}
		if err == nil && opt.Mode != "none" {
			// an override may make the translation moot, but then it must really be the override that applied
			e := ents[badAt]
			if gu, gg, lerr := rtLstatOwner(dst + "/" + strings.TrimSuffix(e.Name, "/")); lerr == nil {
				rtCheckOwner(out, m, opt, fmt.Sprintf("%s/%s entry %q", op, ext, e.Name), gu, gg, e.Uid, e.Gid, "untar-translate")
			}
		}
		return
	}
	if err != nil {
		if scenario == "d5" {
			// the plain translation of the colliding id may be an error as well; nothing to compare
			out.count("owner/d5-scenario-error")
			return
		}
		out.problem("untar-translate", fmt.Sprintf("%s %s/%s mode=%s: extraction of entries with translatable ids failed: %v", m, op, ext, opt.Mode, err))
		return
	}
	if destMissing {
		gu, gg, lerr := rtLstatOwner(dst)
		if lerr != nil || gu != ru || gg != rg {
			out.problem("created-destination-root-pair", fmt.Sprintf("%s: the destination created by the chrooted Untar is owned by %d:%d (%v), want the root pair %d:%d", m, gu, gg, lerr, ru, rg))
		}
		out.count("owner/clause:created-destination-root-pair")
	}
	for _, e := range ents {
		if e.Class == "staged" {
			continue
		}
		p := dst + "/" + strings.TrimSuffix(e.Name, "/")
		gu, gg, lerr := rtLstatOwner(p)
		if lerr != nil {
			out.problem("untar-translate", fmt.Sprintf("%s %s/%s: entry %q was not extracted: %v", m, op, ext, e.Name, lerr))
			continue
		}
		clause := "untar-translate"
		if e.Class == "staged-link" {
			clause = "layer-staged-link-translated-once"
		}
		rtCheckOwner(out, m, opt, fmt.Sprintf("%s/%s entry %q", op, ext, e.Name), gu, gg, e.Uid, e.Gid, clause)
		for _, ip := range e.Implied {
			gu, gg, lerr := rtLstatOwner(dst + "/" + ip)
			if lerr != nil || gu != ru || gg != rg {
				out.problem("implied-parent-root-pair", fmt.Sprintf("%s %s/%s mode=%s: implied parent %q is owned by %d:%d (%v), want the root pair %d:%d", m, op, ext, opt.Mode, ip, gu, gg, lerr, ru, rg))
			}
			out.count("owner/clause:implied-parent-root-pair")
		}
	}
}

// ---- tar then untar under the same mapping ----

func rtOwnerRoundtrip(r *Rng, m rtMap, out *rtOut, canon *strings.Builder) {
	ext := r.pick([]string{"plain", "chroot"})
	d5case := r.chance(1, 25)
	var nodes []rtNode
	sec := int64(1600000000)
	ru, rg := m.root()
	// pick a host pair inside the mapped ranges; collide=true asks for the known collision (the
	// container id equals the host id of the mapped root), false avoids it
	pick := func(collide bool) (int, int, bool) {
		for try := 0; try < 60; try++ {
			u, g := rtHostPair(r, m, out, true)
			if collide {
				hu, okU := rtRefToHost(ru, m.U)
				hg, okG := rtRefToHost(rg, m.G)
				if okU && hu != ru && (r.chance(1, 2) || !okG || hg == rg) {
					u = hu
				} else if okG && hg != rg {
					g = hg
				}
			}
			cu, cg, ok := m.toContainer(u, g)
			if !ok || m.d5(cu, cg) != collide {
				continue
			}
			return u, g, true
		}
		return 0, 0, false
	}
	collideAt := -1
	kinds := []byte{'r', 'r', 'd', 's', 'f', 'c'}
	dirs := []string{""}
	count := 3 + r.intn(6)
	if d5case {
		collideAt = r.intn(count)
	}
	for i := 0; i < count; i++ {
		u, g, ok := pick(i == collideAt)
		if !ok && i == collideAt {
			d5case, collideAt = false, -1
			u, g, ok = pick(false)
		}
		if !ok {
			u, g = ru, rg
		}
		sec++
		kind := kinds[r.intn(len(kinds))]
		d := dirs[r.intn(len(dirs))]
		n := rtNode{Rel: rtJoin(d, fmt.Sprintf("n%d", i)), Kind: kind, Perm: 0o644, Uid: u, Gid: g, Sec: sec, Data: "x", Target: "t", Min: 1}
		if kind == 'd' {
			n.Perm = 0o755
			dirs = append(dirs, n.Rel)
		}
		if kind == 's' {
			n.Perm = 0o777
		}
		nodes = append(nodes, n)
	}
	// a whiteout-named file owned by the remapped root survives (that is what the short-circuit is for)
	if r.chance(1, 2) && ru >= 0 && rg >= 0 {
		sec++
		nodes = append(nodes, rtNode{Rel: rtJoin(dirs[r.intn(len(dirs))], ".wh.gone"), Kind: 'r', Perm: 0o600, Uid: ru, Gid: rg, Sec: sec})
		out.count("owner/roundtrip-whiteout-owned-by-root-pair")
	}
	sort.SliceStable(nodes, func(i, j int) bool { return nodes[i].Rel < nodes[j].Rel })
	fmt.Fprintf(canon, "roundtrip ext=%s d5=%v\n%s", ext, d5case, rtTreeText(nodes))
	if d5case {
		out.count("owner/roundtrip-d5-case")
	}
	src, dst := "/w/src", "/w/dst"
	if err := rtMkTop(src, 0o755); err != nil {
		out.Setup = err.Error()
		return
	}
	if err := rtMkTop(dst, 0o755); err != nil {
		out.Setup = err.Error()
		return
	}
	if err := newRtBuilder().build(src, nodes, rtOneDomain, nil); err != nil {
		out.Setup = "build source: " + err.Error()
		return
	}
	rc, err := archive.TarWithOptions(src, &archive.TarOptions{IDMap: m.real()})
	if err != nil {
		out.problem("roundtrip", "TarWithOptions failed: "+err.Error())
		return
	}
	stream, err := io.ReadAll(rc)
	rc.Close()
	if err != nil {
		out.problem("roundtrip", "reading the archive failed: "+err.Error())
		return
	}
	unix.Umask(0o022)
	if ext == "plain" {
		err = archive.Untar(bytes.NewReader(stream), dst, &archive.TarOptions{IDMap: m.real()})
	} else {
		err = chrootarchive.Untar(bytes.NewReader(stream), dst, &archive.TarOptions{IDMap: m.real()})
	}
	unix.Umask(0)
	out.count("owner/roundtrip-ext:" + ext)
	if err != nil {
		if d5case {
			out.count("owner/d5-scenario-error")
			return
		}
		out.problem("roundtrip-preserves-host-owner", fmt.Sprintf("%s (%s): tar→untar under the same mapping failed for owners inside the mapped ranges: %v", m, ext, err))
		return
	}
	for i := range nodes {
		n := &nodes[i]
		gu, gg, lerr := rtLstatOwner(dst + "/" + n.Rel)
		if lerr != nil {
			out.problem("roundtrip-preserves-host-owner", fmt.Sprintf("%s (%s): %q (owner %d:%d, inside the mapped ranges) is missing after tar→untar", m, ext, n.Rel, n.Uid, n.Gid))
			continue
		}
		if gu == n.Uid && gg == n.Gid {
			out.count("owner/clause:roundtrip-preserves-host-owner")
			continue
		}
		cu, cg, _ := m.toContainer(n.Uid, n.Gid)
		if !strings.HasPrefix(path.Base(n.Rel), ".wh.") && m.d5(cu, cg) {
			su, sg, _ := m.toHostSC(cu, cg)
			if gu == su && gg == sg {
				out.known("D5", "roundtrip-preserves-host-owner", fmt.Sprintf("%s (%s): %q host owner %d:%d ↔ container %d:%d comes back as %d:%d (the container id equals the host id of the mapped root)", m, ext, n.Rel, n.Uid, n.Gid, cu, cg, gu, gg))
				out.count("owner/known:D5")
				continue
			}
		}
		out.problem("roundtrip-preserves-host-owner", fmt.Sprintf("%s (%s): %q host owner %d:%d (container %d:%d) comes back as %d:%d", m, ext, n.Rel, n.Uid, n.Gid, cu, cg, gu, gg))
	}
}

// ---- copy helpers ----

func rtArchiver(r *Rng, m rtMap, out *rtOut) (*archive.Archiver, string) {
	if r.chance(1, 2) {
		out.count("owner/copy-untar:plain")
		return &archive.Archiver{Untar: archive.Untar, IDMapping: m.real()}, "plain"
	}
	out.count("owner/copy-untar:chroot")
	return &archive.Archiver{Untar: chrootarchive.Untar, IDMapping: m.real()}, "chroot"
}

func rtOwnerCopyDir(r *Rng, m rtMap, out *rtOut, canon *strings.Builder) {
	a, ext := rtArchiver(r, m, out)
	scenario := "ok"
	if r.chance(1, 5) {
		scenario = "bad"
	}
	var nodes []rtNode
	sec := int64(1600000000)
	n := 2 + r.intn(5)
	badAt := -1
	if scenario == "bad" {
		badAt = r.intn(n)
	}
	dirs := []string{""}
	for i := 0; i < n; i++ {
		kind := "ok"
		if i == badAt {
			kind = "bad"
		}
		u, g, found := rtContainerPair(r, m, kind, out)
		if !found {
			if kind == "bad" {
				scenario, badAt = "ok", -1
			}
			u, g = 0, 0
		}
		sec++
		k := []byte{'r', 'r', 'd', 's'}[r.intn(4)]
		d := dirs[r.intn(len(dirs))]
		nd := rtNode{Rel: rtJoin(d, fmt.Sprintf("n%d", i)), Kind: k, Perm: 0o644, Uid: u, Gid: g, Sec: sec, Data: "x", Target: "t"}
		if k == 'd' {
			nd.Perm = 0o755
			dirs = append(dirs, nd.Rel)
		}
		if k == 's' {
			nd.Perm = 0o777
		}
		nodes = append(nodes, nd)
	}
	dstVariant := r.pick([]string{"missing", "missing-nested", "existing"})
	fmt.Fprintf(canon, "copydir ext=%s scenario=%s dst=%s\n%s", ext, scenario, dstVariant, rtTreeText(nodes))
	out.count("owner/copydir-scenario:" + scenario)
	out.count("owner/copydir-dst:" + dstVariant)
	src := "/w/src"
	if err := rtMkTop(src, 0o755); err != nil {
		out.Setup = err.Error()
		return
	}
	if err := newRtBuilder().build(src, nodes, rtOneDomain, nil); err != nil {
		out.Setup = "build source: " + err.Error()
		return
	}
	dst := "/w/out"
	var created []string
	switch dstVariant {
	case "missing":
		created = []string{dst}
	case "missing-nested":
		dst = "/w/out/a/b"
		created = []string{dst}
	default:
		if err := rtMkTop(dst, 0o755); err != nil {
			out.Setup = err.Error()
			return
		}
		_ = os.Lchown(dst, 77, 88)
	}
	unix.Umask(0o022)
	err := a.CopyWithTar(src, dst)
	unix.Umask(0)
	ru, rg := m.root()
	if scenario == "bad" {
		out.count("owner/clause:copy-unmapped-is-error")
		if err == nil {
			e := nodes[badAt]
			gu, gg, _ := rtLstatOwner(dst + "/" + e.Rel)
			out.problem("copy-unmapped-is-error", fmt.Sprintf("%s CopyWithTar(%s): %q with untranslatable ids %d:%d was copied without error (owner now %d:%d)", m, ext, e.Rel, e.Uid, e.Gid, gu, gg))
		}
		return
	}
	if err != nil {
		out.problem("copywithtar-translate", fmt.Sprintf("%s CopyWithTar(%s) failed for translatable ids: %v", m, ext, err))
		return
	}
	for _, p := range created {
		gu, gg, lerr := rtLstatOwner(p)
		if lerr != nil || gu != ru || gg != rg {
			out.problem("created-destination-root-pair", fmt.Sprintf("%s CopyWithTar(%s): created destination directory %q is owned by %d:%d (%v), want the root pair %d:%d", m, ext, p, gu, gg, lerr, ru, rg))
		}
		out.count("owner/clause:created-destination-root-pair")
	}
	for i := range nodes {
		e := &nodes[i]
		gu, gg, lerr := rtLstatOwner(dst + "/" + e.Rel)
		if lerr != nil {
			out.problem("copywithtar-translate", fmt.Sprintf("%s CopyWithTar(%s): %q was not copied: %v", m, ext, e.Rel, lerr))
			continue
		}
		rtCheckOwner(out, m, rtOwnerOpt{Mode: "none"}, fmt.Sprintf("CopyWithTar(%s) %q", ext, e.Rel), gu, gg, e.Uid, e.Gid, "copywithtar-translate")
	}
}

func rtOwnerCopyFile(r *Rng, m rtMap, out *rtOut, canon *strings.Builder) {
	a, ext := rtArchiver(r, m, out)
	scenario := "ok"
	switch k := r.intn(20); {
	case k < 4:
		scenario = "bad"
	case k < 5:
		scenario = "d5"
	}
	u, g, found := rtContainerPair(r, m, scenario, out)
	if !found {
		scenario = "ok"
		u, g, _ = rtContainerPair(r, m, "ok", out)
	}
	api := r.pick([]string{"CopyFileWithTar", "CopyFileWithTar", "CopyWithTar"})
	dstForm := r.pick([]string{"file", "dir-slash", "new-parent"})
	if api == "CopyWithTar" && dstForm == "dir-slash" {
		dstForm = "file"
	}
	fmt.Fprintf(canon, "copyfile api=%s ext=%s scenario=%s dst=%s ids=%d:%d\n", api, ext, scenario, dstForm, u, g)
	out.count("owner/copyfile-scenario:" + scenario)
	out.count("owner/copyfile-api:" + api)
	out.count("owner/copyfile-dst:" + dstForm)
	if err := rtMkTop("/w/srcd", 0o755); err != nil {
		out.Setup = err.Error()
		return
	}
	data := rtBytes(r, rtPickInt(r, []int{0, 1, 512, 4097}))
	node := rtNode{Rel: "payload", Kind: 'r', Perm: rtPickU32(r, []uint32{0o644, 0o600, 0o755}), Uid: u, Gid: g, Sec: 1600000123, Data: data}
	if err := newRtBuilder().build("/w/srcd", []rtNode{node}, rtOneDomain, nil); err != nil {
		out.Setup = "build source: " + err.Error()
		return
	}
	if err := rtMkTop("/w/out", 0o755); err != nil {
		out.Setup = err.Error()
		return
	}
	dst, final := "/w/out/copy", "/w/out/copy"
	switch dstForm {
	case "dir-slash":
		dst, final = "/w/out/", "/w/out/payload"
	case "new-parent":
		dst, final = "/w/out/new/deep/copy", "/w/out/new/deep/copy"
	}
	unix.Umask(0o022)
	var err error
	if api == "CopyWithTar" {
		err = a.CopyWithTar("/w/srcd/payload", dst)
	} else {
		err = a.CopyFileWithTar("/w/srcd/payload", dst)
	}
	unix.Umask(0)
	if scenario == "bad" {
		out.count("owner/clause:copy-unmapped-is-error")
		if err == nil {
			gu, gg, _ := rtLstatOwner(final)
			out.problem("copy-unmapped-is-error", fmt.Sprintf("%s %s(%s): a file with untranslatable ids %d:%d was copied without error (owner now %d:%d)", m, api, ext, u, g, gu, gg))
		}
		return
	}
	if err != nil {
		if scenario == "d5" {
			out.count("owner/d5-scenario-error")
			return
		}
		wu, wg, _ := m.toHost(u, g)
		out.problem("copyfile-translates-once", fmt.Sprintf("%s %s(%s): copying a file owned by %d:%d (translation %d:%d) failed: %v", m, api, ext, u, g, wu, wg, err))
		return
	}
	gu, gg, lerr := rtLstatOwner(final)
	if lerr != nil {
		out.problem("copyfile-translates-once", fmt.Sprintf("%s %s(%s): destination %q missing: %v", m, api, ext, final, lerr))
		return
	}
	if rtCheckOwner(out, m, rtOwnerOpt{Mode: "none"}, fmt.Sprintf("%s(%s) of a file", api, ext), gu, gg, u, g, "copyfile-translates-once") {
		if hu, hg, ok := m.toHost(gu, gg); ok && (hu != gu || hg != gg) {
			out.count("owner/copyfile-second-translation-would-differ")
		} else if !ok {
			out.count("owner/copyfile-second-translation-would-fail")
		}
	}
}
