package main

import (
	"archive/tar"
	"bytes"
	"encoding/json"
	"fmt"
	"os"
	"path"
	"sort"
	"strconv"
	"strings"
	"time"
)

// Stream "fuzz" — independent oracle for C19 on the real code: arbitrary input never crashes or
// hangs the reader-side entry points, and whatever was created before a failure lies inside the
// destination. Generator: s_fuzz_gen.go. Arena job and clause oracles: job_fuzz.go.
//
//	clause      oracle
//	returned    the arena job produced a result within the per-job timeout (10 s); a job that did not is re-run
//	            alone in a fresh child with 30 s and reported ("hang") only if it again fails to return
//	no-panic    recover() around the call; a panic on a library goroutine kills the child ("died", confirmed by a re-run)
//	bounded mem cumulative allocation during one call stays under 2 GiB (largest legitimate figure: 513 MiB, a zstd
//	            frame declaring the decoder's maximum window); RLIMIT_AS of 8 GiB on the child turns a larger single
//	            allocation into a death of the child
//	contained   snapshot of the world before/after: nothing outside the root (chrooted entry points, prior tree with
//	            planted symlinks that point outside) / outside the destination (plain entry points, only when neither
//	            the prior tree nor the archive as parsed by archive/tar has a symlink) / nothing at all (stream entry
//	            points) is created, deleted or changed (type, mode, owner, mtime, link count, content, target, device,
//	            capability), and nothing appears in the arena root or /tmp — after success and after failure
//	usable      umask, cwd, root unchanged; a trivial Untar (plain, and chrooted after a chrooted call) into a fresh
//	            directory succeeds afterwards
//
// Entry points: cu/cuu/cur = chrootarchive.Untar/UntarUncompressed/UntarWithRoot, cl/clu = chrootarchive.ApplyLayer/
// ApplyUncompressedLayer, pu/puu/pl/plu = the same four in package archive, ie = IsEmpty, ap = IsArchivePath,
// ds/dsp = DecompressStream read to the end / partly then closed, rb = RebaseArchiveEntries, rf = ReplaceFileTarWrapper,
// dt = compression.Detect on every prefix.
func init() { subcmds["fuzz"] = runFuzz }

const fzPerJobTimeout = 10 * time.Second

type fzPlan struct {
	seed uint64
	plan string
}

func fzJobFor(id int, p fzPlan) Job {
	return Job{ID: id, Kind: "fuzz", Args: []string{"gen", strconv.FormatUint(p.seed, 10), p.plan}}
}

func fzCaseText(c *fzCase) string {
	b, _ := json.Marshal(c)
	return string(b)
}

func runFuzz(cfg *Config) *Result {
	res := newResult("mutational: seed archives built block by block (every type flag, links, whiteouts, staging area, PAX/GNU extension records, " +
		"sparse maps, long and hostile names, fifo/device followed by entries beneath) x 0-3 tar-level mutations (bit flips, header-field " +
		"overwrites, type-flag sweep over all 256 values, size lies, truncation at every block boundary +-1, duplicated/dropped/swapped blocks, " +
		"splices, concatenation) x optional compression layer (gzip/bzip2/xz/zstd: concatenated, nested, damaged) plus raw random/magic inputs, " +
		"over 16 reader-side entry points with 4 reader behaviours; non-trivial = the input made the library parse at least one header or " +
		"return an error; distinct by hash of (entry point, options, input bytes)")
	rng := newRng(cfg.Seed ^ 0xC19)
	var plans []fzPlan
	var replayCase string
	if cfg.Replay != "" {
		b, err := os.ReadFile(cfg.Replay)
		if err != nil {
			res.SetupError = err.Error()
			return res
		}
		var rp struct {
			Case string `json:"case"`
		}
		if err := json.Unmarshal(b, &rp); err != nil {
			res.SetupError = "replay file: " + err.Error()
			return res
		}
		var c fzCase
		if err := json.Unmarshal([]byte(rp.Case), &c); err != nil {
			res.SetupError = "replay case: " + err.Error()
			return res
		}
		replayCase = rp.Case
		plans = []fzPlan{{}}
	} else {
		n := cfg.count(4000, 60000)
		// dedicated families first: the full type-flag sweep, exhaustive truncation of a few seeds,
		// every entry point at least a few times; the rest is the random mix
		sweeps, truncSeeds, perEP := 1, 3, 6
		if cfg.thorough() {
			sweeps, truncSeeds, perEP = 6, 24, 40
		}
		if n < 2000 {
			sweeps, truncSeeds, perEP = 0, 0, 1
		}
		for s := 0; s < sweeps; s++ {
			for v := 0; v < 256; v++ {
				plans = append(plans, fzPlan{rng.next(), fmt.Sprintf("sweep:%d", v)})
			}
		}
		for s := 0; s < truncSeeds; s++ {
			// an archive of 8..60 blocks, cut at every block boundary -1, +0, +1
			var as uint64
			var pts []int
			for try := 0; try < 200; try++ {
				as = rng.next()
				data, _, _ := fzSeed(&Rng{s: as}, as%2 == 0)
				if len(data) >= 8*512 && len(data) <= 60*512 {
					pts = fzTruncPoints(data)
					break
				}
			}
			for i := range pts {
				plans = append(plans, fzPlan{rng.next(), fmt.Sprintf("trunc:%d:%d", as, i)})
			}
		}
		for _, ep := range append(append([]string{}, fzExtractEPs...), fzStreamEPs...) {
			for i := 0; i < perEP; i++ {
				plans = append(plans, fzPlan{rng.next(), "ep:" + ep})
			}
		}
		for len(plans) < n {
			plans = append(plans, fzPlan{rng.next(), ""})
		}
		// shuffle so that an early stop still sees every family
		for i := len(plans) - 1; i > 0; i-- {
			j := rng.intn(i + 1)
			plans[i], plans[j] = plans[j], plans[i]
		}
	}

	abnormalKind := map[int]string{}
	var abnormal []int // plans whose job hung or whose child died: confirmed at the end before being reported
	sweptFlags := map[int]bool{}
	type slow struct {
		ms   int64
		what string
	}
	var slowest []slow
	rounds := 4
	if cfg.thorough() {
		rounds = 12
	}
	if len(plans) < 64 {
		rounds = 1
	}
	// a small first round is the canary: a regression that makes many calls hang costs the timeout per hung job
	first := fzMinInt(256, len(plans)/8)
	per := (len(plans) - first + rounds - 1) / rounds
	for lo, hi := 0, 0; lo < len(plans); lo = hi {
		hi = fzMinInt(lo+per, len(plans))
		if lo == 0 && first > 0 {
			hi = first
		}
		var jobs []Job
		for i := lo; i < hi; i++ {
			if replayCase != "" {
				jobs = append(jobs, Job{ID: i - lo, Kind: "fuzz", Args: []string{"case", replayCase}})
			} else {
				jobs = append(jobs, fzJobFor(i-lo, plans[i]))
			}
		}
		results := runArena(cfg, jobs, fzPerJobTimeout)
		for k, jr := range results {
			p := plans[lo+k]
			caseText := func() string {
				if replayCase != "" {
					return replayCase
				}
				return fzCaseText(fzGen(p.seed, p.plan))
			}
			res.Evaluations++
			res.count("result:" + jr.Out)
			if jr.ID < 0 || jr.Out == "setup" {
				res.SetupError = fmt.Sprintf("job %d (seed %d plan %q): %s", lo+k, p.seed, p.plan, jr.Err)
				return res
			}
			if jr.Out == "hang" || jr.Out == "panic" {
				if jr.Out == "panic" && jr.Err != "arena child exited while running this job" {
					// a panic outside the guarded library call is a defect of this harness, not of the library
					res.SetupError = fmt.Sprintf("fuzz job panicked outside the library call (seed %d plan %q): %s", p.seed, p.plan, jr.Err)
					return res
				}
				abnormal = append(abnormal, lo+k)
				abnormalKind[lo+k] = map[string]string{"hang": "hang", "panic": "died"}[jr.Out]
				continue
			}
			var out fzOut
			if err := json.Unmarshal([]byte(jr.Extra), &out); err != nil {
				res.SetupError = fmt.Sprintf("job %d: unreadable result: %v", lo+k, err)
				return res
			}
			res.Compared++
			for _, t := range out.Tags {
				res.count(t)
			}
			if out.CallMs > int64(res.Distribution["max:call-ms"]) {
				res.Distribution["max:call-ms"] = int(out.CallMs)
			}
			if out.CallMs >= 500 && replayCase == "" {
				c := fzGen(p.seed, p.plan)
				slowest = append(slowest, slow{out.CallMs, fmt.Sprintf("%d ms: %s input=%dB {%s} => %s %s", out.CallMs, c.EP, len(c.Input), truncate(c.Desc, 160), jr.Out, truncate(jr.Err, 80))})
			}
			if out.AllocMiB > res.Distribution["max:alloc-MiB-in-one-call"] {
				res.Distribution["max:alloc-MiB-in-one-call"] = out.AllocMiB
			}
			if out.VmMiB > res.Distribution["max:child-address-space-MiB"] {
				res.Distribution["max:child-address-space-MiB"] = out.VmMiB
			}
			if strings.HasPrefix(p.plan, "sweep:") {
				v, _ := strconv.Atoi(p.plan[6:])
				sweptFlags[v] = true
			}
			if !out.Trivial {
				res.nontrivial(out.Canon)
			}
			for _, pr := range out.Problems {
				msg := "C19 " + pr.Clause + ": " + pr.Msg
				if replayCase == "" && fzCanon(fzGen(p.seed, p.plan)) != out.Canon {
					msg += fmt.Sprintf(" [the reproducer regenerated from seed %d plan %q differs from the input the arena child ran: helper tools (xz, bzip2) differ between the two environments]", p.seed, p.plan)
				}
				res.problem(Problem{Kind: "oracle", Stream: "fuzz", Case: caseText(), Impl: jr.Out + " " + truncate(jr.Err, 200), Msg: msg})
			}
			if lo+k < 6 && replayCase == "" {
				c := fzGen(p.seed, p.plan)
				res.sample(fmt.Sprintf("%s opts=%s rd=%s dest=%s input=%dB {%s} => %s %s", c.EP, c.Opts, c.Reader, c.Dest, len(c.Input), truncate(c.Desc, 200), jr.Out, truncate(jr.Err, 100)))
			}
		}
		if len(res.Problems)+len(abnormal) >= 10 && hi < len(plans) {
			res.Notes = append(res.Notes, fmt.Sprintf("stopped after %d of %d cases: %d problems, %d jobs without a result", hi, len(plans), len(res.Problems), len(abnormal)))
			break
		}
	}
	if !fzConfirm(cfg, res, plans, abnormal, abnormalKind, replayCase) {
		return res
	}
	sort.Slice(slowest, func(i, j int) bool { return slowest[i].ms > slowest[j].ms })
	for i := 0; i < len(slowest) && i < 5; i++ {
		res.Notes = append(res.Notes, "slow call: "+slowest[i].what)
	}
	if len(sweptFlags) > 0 {
		res.Distribution["typeflag-sweep:distinct-values"] = len(sweptFlags)
	}
	return res
}

// fzConfirm re-runs, each alone in a fresh arena child and with three times the deadline, the cases whose job
// did not come back (at most one wave of 16 per run). A hang or a death caused by the input repeats; one
// caused by a loaded machine or by what an earlier job left behind in its child does not, and is only noted.
func fzConfirm(cfg *Config, res *Result, plans []fzPlan, abnormal []int, kinds map[int]string, replayCase string) bool {
	if len(abnormal) == 0 {
		return true
	}
	sample := abnormal
	if len(sample) > 16 {
		sample = sample[:16]
	}
	var jobs []Job
	for i, pi := range sample {
		if replayCase != "" {
			jobs = append(jobs, Job{ID: i, Kind: "fuzz", Args: []string{"case", replayCase}})
		} else {
			jobs = append(jobs, fzJobFor(i, plans[pi]))
		}
	}
	results := runArena(cfg, jobs, 3*fzPerJobTimeout)
	confirmed := 0
	report := func(pi int, kind string, rerun bool) {
		p := plans[pi]
		c := fzGen(p.seed, p.plan)
		text := fzCaseText(c)
		if replayCase != "" {
			_ = json.Unmarshal([]byte(replayCase), c)
			text = replayCase
		}
		how := "confirmed alone in a fresh process"
		if !rerun {
			how = "not re-run individually; other cases of the same run were confirmed"
		}
		res.count("ep:" + c.EP)
		if kind == "hang" {
			res.problem(Problem{Kind: "oracle", Stream: "fuzz", Case: text, Impl: "hang", Sig: fzKnownSig(c, kind),
				Msg: fmt.Sprintf("C19 returned: entry point %s did not return within %s, nor within %s on a second run (%s) (input: %s)", c.EP, fzPerJobTimeout, 3*fzPerJobTimeout, how, c.Desc)})
			return
		}
		res.problem(Problem{Kind: "oracle", Stream: "fuzz", Case: text, Impl: "died",
			Msg: fmt.Sprintf("C19 no-panic: the process died while %s was running, twice (%s): panic on a library goroutine, a fatal runtime error, or the "+
				"address-space ceiling — the goroutine trace is on stderr; replay to see it (input: %s)", c.EP, how, c.Desc)})
	}
	for i, jr := range results {
		switch {
		case jr.ID < 0 || jr.Out == "setup":
			res.SetupError = fmt.Sprintf("confirmation of job %d: %s", sample[i], jr.Err)
			return false
		case jr.Out == "hang":
			confirmed++
			report(sample[i], "hang", true)
		case jr.Out == "panic" && jr.Err == "arena child exited while running this job":
			confirmed++
			report(sample[i], "died", true)
		case jr.Out == "panic":
			res.SetupError = "fuzz job panicked outside the library call: " + jr.Err
			return false
		default:
			res.count("unconfirmed:no-result-in-first-run-but-" + jr.Out + "-when-re-run-alone")
			res.Notes = append(res.Notes, fmt.Sprintf("job for seed %d plan %q gave no result in its round (%s) but returned (%s) when re-run alone with a %s deadline: not reported",
				plans[sample[i]].seed, plans[sample[i]].plan, kinds[sample[i]], jr.Out, 3*fzPerJobTimeout))
		}
	}
	if confirmed > 0 {
		for _, pi := range abnormal[len(sample):] {
			report(pi, kinds[pi], false)
		}
	} else if len(abnormal) > len(sample) {
		res.Notes = append(res.Notes, fmt.Sprintf("%d further jobs without a result were not re-run (none of the 16 re-run ones repeated)", len(abnormal)-len(sample)))
	}
	return true
}

// fzSigWhiteoutOwnDir is the signature of a genuine finding made by this stream on /repo at eec6817 (residue of
// D16, repaired since by 12fb974 "guard the directory os.RemoveAll will open"; kept so that a return is named): a layer with a fifo F (or a fifo F already in the destination) and a whiteout entry
// F/x/.wh. or F/x/.wh.. — the whiteout's target is its own directory F/x. The guard in UnpackLayer stats
// only that directory (ENOTDIR, so it does not fire); os.RemoveAll(F/x) then gets ENOTDIR from unlink and
// opens the parent F: the open of a fifo without a writer never returns.
const fzSigWhiteoutOwnDir = "C19-layer-whiteout-of-own-directory-beneath-fifo"

// fzKnownSig recognises that finding from the case itself (never from the outcome text).
func fzKnownSig(c *fzCase, kind string) string {
	if kind != "hang" || !fzIsLayer(c.EP) {
		return ""
	}
	stream, ok := c.Input, true
	if fzAutoDecompress(c.EP) {
		stream, ok = fzOwnDecompress(c.Input)
	}
	if !ok {
		return ""
	}
	fifos := map[string]bool{}
	for _, n := range c.Nodes {
		if n.Kind == 'f' && strings.HasPrefix(n.Path, c.Dest+"/") {
			fifos[strings.TrimPrefix(n.Path, c.Dest)] = true
		}
	}
	tr := tar.NewReader(bytes.NewReader(stream))
	for {
		h, err := tr.Next()
		if err != nil {
			return ""
		}
		name := path.Clean("/" + h.Name)
		if b := path.Base(name); (b == ".wh." || b == ".wh..") && fifos[path.Dir(path.Dir(name))] {
			return fzSigWhiteoutOwnDir
		}
		if h.Typeflag == tar.TypeFifo {
			fifos[name] = true
		}
	}
}
