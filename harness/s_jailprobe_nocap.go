package main

import (
	"archive/tar"
	"bytes"
	"fmt"
	"os"
	"os/exec"
	"runtime"
	"strconv"
	"strings"
	"sync"
	"sync/atomic"
	"time"

	"github.com/moby/go-archive/chrootarchive"
	"golang.org/x/sys/unix"
)

// "nocap": a process that may chroot but may not unshare (an unprivileged container: CAP_SYS_CHROOT without
// CAP_SYS_ADMIN). A chrooted call there may fail; it must not change the root or working directory that the rest
// of the process sees — there is no jail without a thread of its own to put it in.
const jpNocapMarker = "NOCAP-RESULT:"

type jpView struct {
	dev, ino uint64
	cwd      string
	canary   bool
}

func jpLook(canary string) (jpView, error) {
	var v jpView
	var st unix.Stat_t
	if err := unix.Stat("/", &st); err != nil {
		return v, err
	}
	v.dev, v.ino = uint64(st.Dev), st.Ino
	cwd, err := os.Getwd()
	if err != nil {
		return v, err
	}
	v.cwd = cwd
	_, err = os.Lstat(canary)
	v.canary = err == nil
	return v, nil
}

func (v jpView) String() string {
	return fmt.Sprintf("{/ = dev %d ino %d, cwd %q, canary visible %v}", v.dev, v.ino, v.cwd, v.canary)
}

// jpNocapChild runs in the re-executed harness (no CAP_SYS_ADMIN).
func jpNocapChild(work string) {
	report := func(f string, a ...any) { fmt.Printf("\n"+jpNocapMarker+" "+f+"\n", a...) }
	status, err := os.ReadFile("/proc/self/status")
	if err != nil {
		report("setup: %v", err)
		return
	}
	var capEff uint64
	for _, l := range strings.Split(string(status), "\n") {
		if f, ok := strings.CutPrefix(l, "CapEff:"); ok {
			capEff, _ = strconv.ParseUint(strings.TrimSpace(f), 16, 64)
		}
	}
	if capEff&(1<<unix.CAP_SYS_ADMIN) != 0 || capEff&(1<<unix.CAP_SYS_CHROOT) == 0 {
		report("setup: capabilities %x", capEff)
		return
	}
	dest, canary := work+"/dest", work+"/canary"
	before, err := jpLook(canary)
	if err != nil || !before.canary {
		report("setup: first look: %v %v", before, err)
		return
	}
	var stop atomic.Bool
	var wg sync.WaitGroup
	var mu sync.Mutex
	during := ""
	wg.Add(1)
	go func() {
		defer wg.Done()
		runtime.LockOSThread()
		defer runtime.UnlockOSThread()
		for !stop.Load() {
			if v, err := jpLook(canary); err != nil || v != before {
				mu.Lock()
				if during == "" {
					during = fmt.Sprintf("%v (err %v)", v, err)
				}
				mu.Unlock()
			}
			time.Sleep(200 * time.Microsecond)
		}
	}()
	var buf bytes.Buffer
	tw := tar.NewWriter(&buf)
	_ = tw.WriteHeader(&tar.Header{Name: "f", Typeflag: tar.TypeReg, Mode: 0o644, Size: 1})
	_, _ = tw.Write([]byte("x"))
	_ = tw.Close()
	var errs []string
	for i := 0; i < 3; i++ {
		errs = append(errs, fmt.Sprint(chrootarchive.UntarUncompressed(bytes.NewReader(buf.Bytes()), dest, nil)))
		time.Sleep(5 * time.Millisecond)
	}
	stop.Store(true)
	wg.Wait()
	after, err := jpLook(canary)
	mu.Lock()
	d := during
	mu.Unlock()
	switch {
	case d != "":
		report("changed during the calls: another thread saw %s, before %v (results %v)", d, before, errs)
	case err != nil || after != before:
		report("changed after the calls: %v (err %v), before %v (results %v)", after, err, before, errs)
	default:
		report("ok (results %v)", errs)
	}
}

// jpNocapProbe re-executes the harness from a thread whose capability bounding set lacks CAP_SYS_ADMIN.
func jpNocapProbe(res *Result) {
	work, err := os.MkdirTemp("", "jpnocap")
	if err != nil {
		return
	}
	defer os.RemoveAll(work)
	_ = os.Mkdir(work+"/dest", 0o755)
	_ = os.WriteFile(work+"/canary", []byte("c"), 0o644)
	type outT struct {
		out []byte
		err error
	}
	done := make(chan outT, 1)
	go func() {
		runtime.LockOSThread() // never unlocked: the thread's bounding set is reduced for good
		if err := unix.Prctl(unix.PR_CAPBSET_DROP, unix.CAP_SYS_ADMIN, 0, 0, 0); err != nil {
			done <- outT{err: err}
			return
		}
		cmd := exec.Command("/proc/self/exe", "__nocap", work)
		cmd.Dir = work
		o, err := cmd.CombinedOutput()
		done <- outT{out: o, err: err}
	}()
	var r outT
	select {
	case r = <-done:
	case <-time.After(60 * time.Second):
		res.count("nocap:timeout")
		return
	}
	result := ""
	for _, l := range strings.Split(string(r.out), "\n") {
		if i := strings.Index(l, jpNocapMarker); i >= 0 {
			result = strings.TrimSpace(l[i+len(jpNocapMarker):])
		}
	}
	switch {
	case result == "" || strings.HasPrefix(result, "setup"):
		res.count("skipped:nocap")
		res.Notes = append(res.Notes, "skipped nocap: "+truncate(result+" "+fmt.Sprint(r.err), 200))
	case strings.HasPrefix(result, "ok"):
		res.Evaluations++
		res.Compared++
		res.count("ran:nocap")
	default:
		res.Evaluations++
		res.Compared++
		res.count("ran:nocap")
		res.problem(Problem{Kind: "oracle", Stream: "jailprobe", Case: "jailprobe nocap",
			Msg: "C13 no CAP_SYS_ADMIN: in a process that may chroot but not unshare, chrooted untar calls " + result})
	}
}
