package main

// Stream "export" (C09, C04): archive.ExportChanges(dir, changes, idMap) on generated trees and change
// lists, compared entry by entry with the Lean model (`exportP`), plus independent oracles on the real
// stream: links follow a non-link entry of the same archive, directory names and only they end in "/",
// names are relative, entries come in the order of the sorted change paths, every deletion yields its
// marker, and two runs differ at most in the time stamps of deletion markers.

import (
	"encoding/json"
	"fmt"
	"io"
	"path/filepath"
	"sort"
	"strings"
	"time"

	"github.com/moby/go-archive"
	"github.com/moby/sys/user"
)

func init() {
	subcmds["export"] = runExport
	jobKinds["export"] = runExportJob
}

type ExpChange struct {
	Path string
	Kind int // 0 modify, 1 add, 2 delete
}

type ExportCase struct {
	Dir     string
	Nodes   []Node
	Changes []ExpChange
	UidMap  []IDRange
	GidMap  []IDRange
}

func (c *ExportCase) line() string {
	pc := &PackCase{UidMap: c.UidMap, GidMap: c.GidMap}
	parts := []string{"export", pc.optString(nil), hx(c.Dir), hx(""), "18", renderTree(c.Nodes), "C", fmt.Sprint(len(c.Changes))}
	for _, ch := range c.Changes {
		parts = append(parts, hx(ch.Path), string("mad"[ch.Kind]))
	}
	return strings.Join(parts, " ")
}

func expRunOnce(c *ExportCase) ([]byte, error) {
	var m user.IdentityMapping
	for _, r := range c.UidMap {
		m.UIDMaps = append(m.UIDMaps, user.IDMap{ID: int64(r.C), ParentID: int64(r.H), Count: int64(r.N)})
	}
	for _, r := range c.GidMap {
		m.GIDMaps = append(m.GIDMaps, user.IDMap{ID: int64(r.C), ParentID: int64(r.H), Count: int64(r.N)})
	}
	var chs []archive.Change
	for _, ch := range c.Changes {
		chs = append(chs, archive.Change{Path: ch.Path, Kind: archive.ChangeType(ch.Kind)})
	}
	rc, err := archive.ExportChanges(c.Dir, chs, m)
	if err != nil {
		return nil, err
	}
	b, rerr := io.ReadAll(rc)
	rc.Close()
	return b, rerr
}

func runExportJob(j *Job, res *JobResult) {
	var c ExportCase
	if err := json.Unmarshal([]byte(j.Args[0]), &c); err != nil {
		res.Out, res.Err = "setup", err.Error()
		return
	}
	if err := resetWorld(); err != nil {
		res.Out, res.Err = "setup", err.Error()
		return
	}
	if err := buildWorld(c.Nodes); err != nil {
		res.Out, res.Err = "setup", err.Error()
		return
	}
	if err := pkSubSecond(c.Nodes); err != nil {
		res.Out, res.Err = "setup", err.Error()
		return
	}
	b, err := expRunOnce(&c)
	if err != nil {
		res.Out, res.Err, res.Extra = "err", err.Error(), "E 0"
		return
	}
	b2, err2 := expRunOnce(&c)
	es, _, perr := parseTarStream(b)
	if perr != nil {
		res.Out, res.Err = "badstream", perr.Error()
		return
	}
	res.Out = "ok"
	res.Extra = renderEnts(es)
	if err2 != nil {
		res.After = "second run failed: " + err2.Error()
		return
	}
	es2, _, perr2 := parseTarStream(b2)
	if perr2 != nil {
		res.After = "second run unparsable: " + perr2.Error()
		return
	}
	res.After = renderEnts(es2)
}

func expWhiteoutName(p string) string {
	return filepath.Join(filepath.Dir(p), ".wh."+filepath.Base(p))[1:]
}

func genExportCase(r *Rng) *ExportCase {
	pc := genPackCase(r.fork(), "mixed")
	for pc.Op != "tar" {
		pc = genPackCase(r.fork(), "mixed")
	}
	c := &ExportCase{Dir: "/w/src", Nodes: pc.Nodes, UidMap: pc.UidMap, GidMap: pc.GidMap}
	if r.chance(1, 4) {
		c.Dir = "/w/src/"
	}
	seen := map[string]bool{}
	add := func(p string, k int) {
		if p == "/" || p == "" || seen[p] {
			return
		}
		seen[p] = true
		c.Changes = append(c.Changes, ExpChange{Path: p, Kind: k})
	}
	var inside []string
	for _, n := range c.Nodes {
		if strings.HasPrefix(n.Path, "/w/src/") {
			inside = append(inside, strings.TrimPrefix(n.Path, "/w/src"))
		}
	}
	keep := 1 + r.intn(3)
	for _, p := range inside {
		if r.intn(3) < keep {
			add(p, r.intn(2))
		}
	}
	for i := r.intn(4); i > 0; i-- {
		switch r.intn(4) {
		case 0:
			if len(inside) > 0 { // deletion recorded for something that (still) exists
				add(inside[r.intn(len(inside))], 2)
			}
		case 1:
			add("/"+r.pick([]string{"gone", "a/gone", "a/b/gone", ".wh.gone", "d2/x", "a.b", "zz/deep/er"}), 2)
		case 2:
			add("/"+r.pick([]string{"missing", "a/missing", "nodir/f"}), r.intn(2)) // vanished since the diff: left out
		case 3:
			if len(inside) > 0 { // a deletion marker right next to a sibling of the same directory
				p := inside[r.intn(len(inside))]
				add(filepath.Join(filepath.Dir(p), "rm-"+filepath.Base(p)), 2)
			}
		}
	}
	// the order given must not matter
	for i := len(c.Changes) - 1; i > 0; i-- {
		j := r.intn(i + 1)
		c.Changes[i], c.Changes[j] = c.Changes[j], c.Changes[i]
	}
	return c
}

func oracleExport(c *ExportCase, jr *JobResult) []Problem {
	var out []Problem
	prob := func(f string, a ...interface{}) {
		out = append(out, Problem{Kind: "oracle", Stream: "export", Msg: fmt.Sprintf(f, a...)})
	}
	es, err := parseEnts(jr.Extra)
	if err != nil {
		return nil
	}
	delNames := map[string]bool{}
	sorted := append([]ExpChange(nil), c.Changes...)
	sort.Slice(sorted, func(i, j int) bool { return sorted[i].Path < sorted[j].Path })
	for _, ch := range sorted {
		if ch.Kind == 2 {
			delNames[expWhiteoutName(ch.Path)] = true
		}
	}
	seenName := map[string]int{}
	for i, e := range es {
		if strings.HasPrefix(e.Name, "/") || strings.Contains(e.Name, "//") || e.Name == "" {
			prob("C09: entry %d has a non-canonical name %q", i, e.Name)
		}
		if (e.Typ == "dir") != strings.HasSuffix(e.Name, "/") {
			prob("C09: entry %d %q: trailing slash does not match its type %s", i, e.Name, e.Typ)
		}
		if e.Typ == "link" {
			j, ok := seenName[e.Linkname]
			if !ok {
				prob("C09: link entry %d %q names %q, which no earlier entry of the layer has", i, e.Name, e.Linkname)
			} else if es[j].Typ == "link" {
				prob("C09: link entry %d %q names %q, which is itself a link entry", i, e.Name, e.Linkname)
			}
			if e.Size != 0 {
				prob("C09: link entry %d %q declares size %d", i, e.Name, e.Size)
			}
		}
		// (a deletion of "x" next to an object literally named ".wh.x" puts two different paths on one name: the caller's input)
		if _, dup := seenName[e.Name]; dup && !delNames[strings.TrimSuffix(e.Name, "/")] {
			prob("C09: name %q appears twice in the layer", e.Name)
		}
		seenName[e.Name] = i
	}
	// order: the entries are a subsequence of what the sorted change list prescribes, deletions never missing
	pos := 0
	for _, ch := range sorted {
		want := strings.TrimPrefix(ch.Path, "/")
		if ch.Kind == 2 {
			want = expWhiteoutName(ch.Path)
		}
		if pos < len(es) && strings.TrimSuffix(es[pos].Name, "/") == want {
			if ch.Kind == 2 && (es[pos].Typ != "reg" || es[pos].Size != 0) {
				prob("C04/C09: deletion marker %q is a %s of size %d", es[pos].Name, es[pos].Typ, es[pos].Size)
			}
			pos++
		} else if ch.Kind == 2 {
			prob("C04: the deletion of %q has no marker %q at its place in the layer", ch.Path, want)
		}
	}
	if pos != len(es) {
		prob("C09: entry %d %q is out of order or was not asked for (changes sorted by path)", pos, es[pos].Name)
	}
	// reproducibility up to the marker time stamps
	if jr.After != "" {
		es2, err2 := parseEnts(jr.After)
		if err2 != nil {
			prob("C09: %s", truncate(jr.After, 200))
		} else if len(es2) != len(es) {
			prob("C09: a second export of the unchanged tree has %d entries, the first %d", len(es2), len(es))
		} else {
			for i := range es {
				a, b := es[i], es2[i]
				if delNames[a.Name] && a.Typ == "reg" {
					a.Mtime, b.Mtime = 0, 0
				}
				if strings.Join(a.fields(), " ") != strings.Join(b.fields(), " ") {
					prob("C09: a second export of the unchanged tree differs at entry %d (%q) beyond a deletion marker's time stamp", i, a.Name)
					break
				}
			}
		}
	}
	return out
}

// parseEnts reads the "E n fields…" rendering back.
func parseEnts(s string) ([]Ent, error) {
	f := strings.Fields(s)
	if len(f) < 2 || f[0] != "E" {
		return nil, fmt.Errorf("bad entry list")
	}
	var n int
	fmt.Sscan(f[1], &n)
	f = f[2:]
	var es []Ent
	for i := 0; i < n; i++ {
		if len(f) < 12 {
			return nil, fmt.Errorf("short entry list")
		}
		var e Ent
		e.Typ, e.Name, e.Linkname = f[0], unhx(f[1]), unhx(f[2])
		fmt.Sscan(f[3], &e.Mode)
		fmt.Sscan(f[4], &e.Uid)
		fmt.Sscan(f[5], &e.Gid)
		fmt.Sscan(f[6], &e.Mtime)
		fmt.Sscan(f[7], &e.Size)
		e.Body = unhx(f[8])
		fmt.Sscan(f[9], &e.Maj)
		fmt.Sscan(f[10], &e.Min)
		var nx int
		fmt.Sscan(f[11], &nx)
		f = f[12:]
		for k := 0; k < nx; k++ {
			if len(f) < 2 {
				return nil, fmt.Errorf("short xattr list")
			}
			e.Xattrs = append(e.Xattrs, [2]string{unhx(f[0]), unhx(f[1])})
			f = f[2:]
		}
		es = append(es, e)
	}
	return es, nil
}

func runExport(cfg *Config) *Result {
	res := newResult("random (tree with hard links, symlinks, devices, set-id bits, capabilities; change list of additions, modifications and deletions — existing, vanished and never-existing paths — in random order; ID map) cases through ExportChanges, run twice; " +
		"entries compared with the model in order; non-trivial = ≥2 entries produced; distinct by case line")
	rng := newRng(cfg.Seed ^ 0x6578706f).fork()
	n := cfg.count(400, 4000)
	var cases []*ExportCase
	if cfg.Replay != "" {
		cs, err := replayCaseString(cfg.Replay)
		if err != nil {
			res.SetupError = err.Error()
			return res
		}
		var c ExportCase
		if err := json.Unmarshal([]byte(cs), &c); err != nil {
			res.SetupError = err.Error()
			return res
		}
		cases = append(cases, &c)
	} else {
		for i := 0; i < n; i++ {
			cases = append(cases, genExportCase(rng.fork()))
		}
	}
	var lines []string
	var jobs []Job
	for i, c := range cases {
		b, _ := json.Marshal(c)
		jobs = append(jobs, Job{ID: i, Kind: "export", Args: []string{string(b)}})
		lines = append(lines, c.line())
	}
	res.Evaluations = len(cases)
	modelOut, err := runDriver(cfg.Driver, lines)
	if err != nil {
		res.SetupError = err.Error()
		return res
	}
	results := runArena(cfg, jobs, 30*time.Second)
	for i, c := range cases {
		jr := results[i]
		cb, _ := json.Marshal(c)
		caseText := string(cb)
		res.count("impl:" + jr.Out)
		for _, ch := range c.Changes {
			res.count("change:" + string("mad"[ch.Kind]))
		}
		if len(c.UidMap) > 0 || len(c.GidMap) > 0 {
			res.count("idmap")
		}
		if jr.Out == "setup" || jr.ID < 0 {
			res.SetupError = fmt.Sprintf("case %d: %s", i, jr.Err)
			return res
		}
		if jr.Out == "panic" || jr.Out == "hang" || jr.Out == "badstream" {
			res.problem(Problem{Kind: "oracle", Stream: "export", Case: caseText, Impl: jr.Out, Msg: "C09: ExportChanges " + jr.Out + ": " + jr.Err})
			continue
		}
		implLine := jr.Out + " " + jr.Extra
		res.Compared++
		if !fieldsEqualWild(implLine, modelOut[i]) {
			res.problem(Problem{Kind: "correspondence", Stream: "export", Case: caseText, Impl: truncate(implLine, 600), Model: truncate(modelOut[i], 600),
				Msg: firstEntryDiff(implLine, modelOut[i])})
		}
		if strings.Count(jr.Extra, " ") > 24 {
			res.nontrivial(lines[i])
		}
		if strings.Contains(jr.Extra, " link ") {
			res.count("has-link-entry")
		}
		for _, p := range oracleExport(c, &jr) {
			p.Case = caseText
			res.problem(p)
		}
		if i < 3 {
			res.sample(truncate(lines[i], 300) + " => " + truncate(implLine, 300))
		}
	}
	return res
}
