package main

import (
	"archive/tar"
	"bytes"
	"compress/gzip"
	"encoding/binary"
	"fmt"
	"os/exec"
	"sort"
	"strings"
	"time"

	"github.com/klauspost/compress/zstd"
)

// Generator of the "fuzz" stream (C19): valid seed archives built block by block (own writer, so
// that every header field, extension record and sparse layout is under control), a mutation
// layer on the tar bytes, a compression layer with its own mutations, and raw byte inputs.
// Everything is a pure function of (seed, plan): the arena child generates the case from the
// seed, the parent regenerates it only to print a reproducer.

// fzCase is one self-contained, replayable case.
type fzCase struct {
	EP     string   `json:"ep"`
	Opts   string   `json:"opts"` // OptSpec text, or "nil" for a nil *TarOptions
	Reader string   `json:"rd"`   // bytes | chunk | dataerr | errtail
	RSeed  uint64   `json:"rseed"`
	Dest   string   `json:"dest"`
	Root   string   `json:"root"`
	Nodes  []Node   `json:"nodes"`
	Input  []byte   `json:"input"`
	Aux    []string `json:"aux,omitempty"`
	Desc   string   `json:"desc"`
	Tags   []string `json:"-"`
}

var fzExtractEPs = []string{"cu", "cuu", "cur", "cl", "clu", "pu", "puu", "pl", "plu"}
var fzStreamEPs = []string{"ie", "ap", "ds", "dsp", "rb", "rf", "dt"}

func fzIsChroot(ep string) bool { return len(ep) > 0 && ep[0] == 'c' }
func fzIsPlain(ep string) bool  { return len(ep) > 0 && ep[0] == 'p' }
func fzIsLayer(ep string) bool  { return ep == "cl" || ep == "clu" || ep == "pl" || ep == "plu" }
func fzIsExtract(ep string) bool {
	return fzIsChroot(ep) || fzIsPlain(ep)
}

// fzAutoDecompress: the entry point sniffs and decompresses its input.
func fzAutoDecompress(ep string) bool {
	switch ep {
	case "cu", "cur", "cl", "pu", "pl", "ie", "ap", "ds", "dsp", "dt":
		return true
	}
	return false
}

// ---------------------------------------------------------------- raw tar blocks

const (
	fzMagicUstar = "ustar\x0000"
	fzMagicGNU   = "ustar  \x00"
)

type fzHdr struct {
	Name, Link   string
	Mode         int64
	Uid, Gid     int64
	Size         int64
	Mtime        int64
	Type         byte
	Magic        string
	Uname, Gname string
	Maj, Min     int64
	Prefix       string
}

// fzNum writes v into a numeric field: octal with a trailing NUL when it fits, base-256 otherwise.
func fzNum(f []byte, v int64) {
	for i := range f {
		f[i] = 0
	}
	digits := len(f) - 1
	if v >= 0 && v < int64(1)<<(3*uint(digits)) {
		s := fmt.Sprintf("%0*o", digits, v)
		copy(f, s)
		return
	}
	// base-256 (GNU): two's complement, big endian, top bit of the first byte set
	if v < 0 {
		for i := range f {
			f[i] = 0xff
		}
	}
	u := uint64(v)
	for i := len(f) - 1; i >= 0 && i >= len(f)-8; i-- {
		f[i] = byte(u)
		u >>= 8
	}
	f[0] |= 0x80
}

func fzChecksum(b []byte) {
	if len(b) < 512 {
		return
	}
	for i := 148; i < 156; i++ {
		b[i] = ' '
	}
	var sum int64
	for _, c := range b[:512] {
		sum += int64(c)
	}
	copy(b[148:156], fmt.Sprintf("%06o\x00 ", sum))
}

func fzBlock(h fzHdr) []byte {
	b := make([]byte, 512)
	copy(b[0:100], h.Name)
	fzNum(b[100:108], h.Mode)
	fzNum(b[108:116], h.Uid)
	fzNum(b[116:124], h.Gid)
	fzNum(b[124:136], h.Size)
	fzNum(b[136:148], h.Mtime)
	b[156] = h.Type
	copy(b[157:257], h.Link)
	copy(b[257:265], h.Magic)
	copy(b[265:297], h.Uname)
	copy(b[297:329], h.Gname)
	if h.Magic != "" {
		fzNum(b[329:337], h.Maj)
		fzNum(b[337:345], h.Min)
	}
	copy(b[345:500], h.Prefix)
	fzChecksum(b)
	return b
}

func fzPad(n int) int { return (512 - n%512) % 512 }

func fzWithBody(hdr []byte, body []byte) []byte {
	out := append([]byte{}, hdr...)
	out = append(out, body...)
	return append(out, make([]byte, fzPad(len(body)))...)
}

// fzPaxBody renders records "<len> k=v\n" with the self-referential length.
func fzPaxBody(recs [][2]string) []byte {
	var b bytes.Buffer
	for _, kv := range recs {
		rec := " " + kv[0] + "=" + kv[1] + "\n"
		n := len(rec) + 1
		for len(fmt.Sprint(n))+len(rec) != n {
			n = len(fmt.Sprint(n)) + len(rec)
		}
		fmt.Fprintf(&b, "%d%s", n, rec)
	}
	return b.Bytes()
}

func fzMeta(typ byte, name string, magic string, body []byte) []byte {
	return fzWithBody(fzBlock(fzHdr{Name: name, Mode: 0o644, Size: int64(len(body)), Type: typ, Magic: magic}), body)
}

// ---------------------------------------------------------------- seed archives

type fzEnt struct {
	Name, Link string
	Type       byte
	Mode       int64
	Uid, Gid   int64
	Mtime      int64
	Body       []byte
	Maj, Min   int64
	Pax        [][2]string
}

type fzBuilder struct {
	r     *Rng
	buf   bytes.Buffer
	form  int // 0 pax, 1 gnu, 2 ustar
	feats map[string]bool
	names []string
	first string
	links []string // names of the hard link entries
	// benign: only names and targets that stay inside (so that complete, successful extractions are exercised too)
	benign bool
}

var fzBenignNames = []string{"a", "b", "c", "a/f", "a/g", "d/sub/new", "d/sub/old", "d/", "a/", "e/f/g", "h1", "x/y", "d", "./a", "a//g", "n1", "n2/", "n3/z"}
var fzBenignTargets = []string{"a/f", "b", "d/sub/old", "a", "d"}

func (b *fzBuilder) feat(s string) { b.feats[s] = true }

func (b *fzBuilder) std(name string, typ byte) fzEnt {
	r := b.r
	e := fzEnt{Name: name, Type: typ, Mode: int64(r.pickPerm(typ == tar.TypeDir)), Uid: int64(r.pickID()), Gid: int64(r.pickID()),
		Mtime: timePool[r.intn(len(timePool))]}
	return e
}

// viaWriter renders an ordinary entry with archive/tar's writer (for realism); nil when it refuses.
func (b *fzBuilder) viaWriter(e fzEnt) []byte {
	var buf bytes.Buffer
	tw := tar.NewWriter(&buf)
	h := &tar.Header{Name: e.Name, Linkname: e.Link, Typeflag: e.Type, Mode: e.Mode, Uid: int(e.Uid), Gid: int(e.Gid),
		ModTime: time.Unix(e.Mtime, 0), Devmajor: e.Maj, Devminor: e.Min, Size: int64(len(e.Body))}
	if len(e.Pax) > 0 {
		h.PAXRecords = map[string]string{}
		for _, kv := range e.Pax {
			h.PAXRecords[kv[0]] = kv[1]
		}
	}
	switch b.form {
	case 0:
		h.Format = tar.FormatPAX
	case 1:
		h.Format = tar.FormatGNU
	}
	if err := tw.WriteHeader(h); err != nil {
		return nil
	}
	if len(e.Body) > 0 {
		if _, err := tw.Write(e.Body); err != nil {
			return nil
		}
	}
	if err := tw.Flush(); err != nil {
		return nil
	}
	return buf.Bytes()
}

func (b *fzBuilder) add(e fzEnt) {
	if b.first == "" {
		b.first = e.Name
	}
	b.names = append(b.names, strings.TrimSuffix(e.Name, "/"))
	if e.Type == tar.TypeLink {
		b.links = append(b.links, e.Name)
	}
	if b.r.chance(1, 4) && e.Name != "" {
		if out := b.viaWriter(e); out != nil {
			b.feat("via-tar.Writer")
			b.buf.Write(out)
			return
		}
	}
	b.buf.Write(b.render(e))
}

func (b *fzBuilder) render(e fzEnt) []byte {
	var out []byte
	h := fzHdr{Name: e.Name, Link: e.Link, Mode: e.Mode, Uid: e.Uid, Gid: e.Gid, Size: int64(len(e.Body)), Mtime: e.Mtime, Type: e.Type,
		Magic: fzMagicUstar, Maj: e.Maj, Min: e.Min}
	longName, longLink := len(e.Name) > 100, len(e.Link) > 100
	form := b.form
	if len(e.Pax) > 0 {
		form = 0
	}
	if form == 2 && (longName || longLink) {
		// USTAR prefix split when the name allows it, PAX otherwise
		if !longLink && len(e.Name) <= 256 {
			if i := strings.LastIndex(e.Name[:fzMinInt(len(e.Name), 156)], "/"); i > 0 && len(e.Name)-i-1 <= 100 {
				h.Prefix, h.Name = e.Name[:i], e.Name[i+1:]
				longName = false
				b.feat("ustar-prefix")
			}
		}
		if longName || longLink {
			form = 0
		}
	}
	switch form {
	case 1:
		h.Magic = fzMagicGNU
		if longLink {
			out = append(out, fzMeta('K', "././@LongLink", fzMagicGNU, []byte(e.Link+"\x00"))...)
			b.feat("gnu-longlink")
		}
		if longName {
			out = append(out, fzMeta('L', "././@LongLink", fzMagicGNU, []byte(e.Name+"\x00"))...)
			b.feat("gnu-longname")
		}
	case 0:
		var recs [][2]string
		if longName {
			recs = append(recs, [2]string{"path", e.Name})
		}
		if longLink {
			recs = append(recs, [2]string{"linkpath", e.Link})
		}
		recs = append(recs, e.Pax...)
		if len(recs) > 0 {
			out = append(out, fzMeta('x', "PaxHeaders.0/x", fzMagicUstar, fzPaxBody(recs))...)
			b.feat("pax-records")
		}
	}
	if len(h.Name) > 100 {
		h.Name = h.Name[:100]
	}
	if len(h.Link) > 100 {
		h.Link = h.Link[:100]
	}
	return append(out, fzWithBody(fzBlock(h), e.Body)...)
}

func fzBody(r *Rng) []byte {
	sizes := []int{0, 1, 5, 11, 511, 512, 513, 1023, 1024, 1025, 4096, 32767, 32768, 32769, 65537}
	n := sizes[r.intn(len(sizes))]
	if r.chance(3, 5) {
		n = r.intn(40)
	}
	b := make([]byte, n)
	for i := range b {
		b[i] = byte('a' + (i*7+n)%26)
	}
	return b
}

var fzNames = []string{"a", "b", "c", "a/f", "a/g", "d/sub/new", "d/sub/old", "d/", "a/", "e/f/g", "pf", "pd", "h1", "h2", "d",
	"esc/x", "esc", "escrel/canary", "escfile", "abs/w/outside/canary", "a/up/outside/x", "loop/x", "dang/x", "escfifo", "escup/outside/new",
	"../outside/canary", "../outside/new", "../dest2/f", "../dest2", "../newdir/sub/x", "../n1/x", "../outside/nd/x", "../dest2/nd/y", "a/../../nd2/x/y", "/../nd3/x", "..", "../..", "/w/outside/canary", "/", "/a",
	"a/../..", "a/../../outside/x", ".", "./", "./a", "", "//", "a//b", "a/./b", "/../x", "dest2/f", "../dest/a/f", "..a", "...", "a/..",
	"a/../b", "sub/x", "lnk/x", "w/outside/canary", "a\nb", "a\\b", "\xff\xfe", "é/ü", " ", "a ", "-rf"}

var fzLinkTargets = []string{"a/f", "b", "a", "h1", "../dest2/f", "../outside/canary", "/w/outside/canary", "/w/dest2/f", "..", ".", "", "/",
	"a/../../dest2/f", "pf", "pd", "esc", "escfile", ".wh..wh.plnk/f0", ".wh..wh.plnk/nope", "/.wh..wh.plnk/f0", "../dest/a/f", "dest2/f",
	".wh..wh.plnk/../../outside/canary", "d/sub/old", "./b", "esc/canary"}

var fzSymTargets = []string{"a", "a/f", "b", "..", "../..", "../outside", "../outside/canary", "/w/outside", "/w/outside/canary", "/", "s1", "self",
	".", "", "../dest2", "/w/dest2/f", "x/../../..", "/proc/self/root", "/w/outside/ofifo", "../../../../../../w/outside", "pf", "d/sub"}

func (b *fzBuilder) name() string {
	r := b.r
	if len(b.names) > 0 && r.chance(1, 5) {
		n := b.names[r.intn(len(b.names))]
		if r.chance(1, 2) {
			b.feat("dup-name")
			return n
		}
		b.feat("beneath-earlier")
		return n + "/" + r.pick([]string{"x", "b", ".wh.x"})
	}
	if b.benign {
		return fzBenignNames[r.intn(len(fzBenignNames))]
	}
	return fzNames[r.intn(len(fzNames))]
}

func (b *fzBuilder) linkTarget() string {
	if b.benign {
		return fzBenignTargets[b.r.intn(len(fzBenignTargets))]
	}
	return fzLinkTargets[b.r.intn(len(fzLinkTargets))]
}

func (b *fzBuilder) symTarget() string {
	if b.benign {
		return fzBenignTargets[b.r.intn(len(fzBenignTargets))]
	}
	return fzSymTargets[b.r.intn(len(fzSymTargets))]
}

func fzLong(r *Rng, n int, sep int) string {
	var sb strings.Builder
	for i := 0; sb.Len() < n; i++ {
		if sep > 0 && i > 0 && i%sep == 0 {
			sb.WriteByte('/')
		} else {
			sb.WriteByte(byte('a' + i%26))
		}
	}
	return sb.String()[:n]
}

// oldGNUSparse renders a typeflag 'S' entry: up to four map entries in the header, optional
// extension blocks, realsize capped by the caller.
func (b *fzBuilder) oldGNUSparse(name string, segs [][2]int64, realsize int64, data []byte) []byte {
	h := fzBlock(fzHdr{Name: name, Mode: 0o644, Size: int64(len(data)), Mtime: 1700000000, Type: 'S', Magic: fzMagicGNU})
	for i := 0; i < 4 && i < len(segs); i++ {
		fzNum(h[386+24*i:386+24*i+12], segs[i][0])
		fzNum(h[386+24*i+12:386+24*i+24], segs[i][1])
	}
	fzNum(h[483:495], realsize)
	rest := segs
	if len(rest) > 4 {
		rest = rest[4:]
		h[482] = 1
	} else {
		rest = nil
	}
	fzChecksum(h)
	out := h
	for len(rest) > 0 {
		ext := make([]byte, 512)
		n := fzMinInt(len(rest), 21)
		for i := 0; i < n; i++ {
			fzNum(ext[24*i:24*i+12], rest[i][0])
			fzNum(ext[24*i+12:24*i+24], rest[i][1])
		}
		rest = rest[n:]
		if len(rest) > 0 {
			ext[504] = 1
		}
		out = append(out, ext...)
	}
	return append(append(out, data...), make([]byte, fzPad(len(data)))...)
}

// feature adds one structural feature (one or several entries) to the seed.
func (b *fzBuilder) feature(layerBias bool, linkBias bool) {
	r := b.r
	k := r.intn(100)
	if layerBias && r.chance(1, 3) {
		k = 52 + r.intn(22)
	}
	if b.benign {
		k = []int{0, 5, 12, 20, 28, 45, 70, 80, 88}[r.intn(9)]
	}
	if linkBias && r.chance(1, 3) {
		k = 24 + r.intn(8)
	}
	switch {
	case k < 10:
		b.feat("reg")
		e := b.std(b.name(), tar.TypeReg)
		e.Body = fzBody(r)
		if r.chance(1, 12) {
			e.Type = 0 // old-style regular
			b.feat("type-NUL")
		}
		b.add(e)
	case k < 16:
		b.feat("dir")
		n := b.name()
		if r.chance(1, 2) && !strings.HasSuffix(n, "/") {
			n += "/"
		}
		b.add(b.std(n, tar.TypeDir))
		if r.chance(1, 2) {
			e := b.std(strings.TrimSuffix(n, "/")+"/in", tar.TypeReg)
			e.Body = fzBody(r)
			b.add(e)
		}
	case k < 24:
		b.feat("symlink")
		n := b.name()
		e := b.std(n, tar.TypeSymlink)
		e.Link = b.symTarget()
		sw := r.intn(6)
		if b.benign {
			sw = 5
		}
		switch sw {
		case 0: // chain
			b.feat("symlink-chain")
			e.Name, e.Link = "s1", "s2"
			b.add(e)
			e2 := b.std("s2", tar.TypeSymlink)
			e2.Link = r.pick([]string{"s3", "..", "/w/outside", "s1"})
			b.add(e2)
			e3 := b.std("s1/x", tar.TypeReg)
			e3.Body = []byte("through")
			b.add(e3)
			return
		case 1:
			b.feat("symlink-self")
			e.Name, e.Link = "self", "self"
		case 2:
			b.feat("symlink-then-through")
			e.Name = "lnk"
			e.Link = r.pick([]string{"../outside", "/w/outside", "..", "../..", "a", "/"})
			b.add(e)
			e2 := b.std("lnk/"+r.pick([]string{"canary", "new", "dir/of", "ofifo", "x/y"}), r.fzPickByte([]byte{tar.TypeReg, tar.TypeDir, tar.TypeLink, tar.TypeFifo}))
			if e2.Type == tar.TypeReg {
				e2.Body = []byte("pwn")
			}
			if e2.Type == tar.TypeLink {
				e2.Link = "b"
			}
			b.add(e2)
			return
		}
		b.add(e)
	case k < 32:
		b.feat("hardlink")
		e := b.std(b.name(), tar.TypeLink)
		if len(b.names) > 0 && r.chance(1, 2) {
			e.Link = b.names[r.intn(len(b.names))]
			if r.chance(1, 6) {
				e.Name = e.Link
				b.feat("hardlink-self")
			}
		} else {
			e.Link = b.linkTarget()
		}
		b.add(e)
	case k < 37:
		// fifo, then something beneath its name
		b.feat("fifo")
		n := r.pick([]string{"ff", "a/ff", "pf", "b", "d", "ff", "a/ff", "pf", "b", "d", ".", "", "a/.."})
		b.add(b.std(n, tar.TypeFifo))
		if n == "." || n == "" || n == "a/.." {
			b.feat("fifo-named-as-destination")
			return
		}
		if r.chance(3, 4) {
			b.feat("beneath-fifo")
			sub := r.pick([]string{"x", ".wh.x", ".wh..wh..opq", "d/", "x/y/z", ".wh.", ".wh...", "x/.wh.", "x/.wh..", "x/y/.wh.", "x/.wh.y", "x/.wh..wh..opq"})
			typ := r.fzPickByte([]byte{tar.TypeReg, tar.TypeReg, tar.TypeDir, tar.TypeLink, tar.TypeSymlink, tar.TypeFifo})
			e := b.std(n+"/"+sub, typ)
			if typ == tar.TypeLink || typ == tar.TypeSymlink {
				e.Link = "b"
			}
			b.add(e)
		}
	case k < 42:
		b.feat("device")
		n := r.pick([]string{"dv", "a/dv", "pd", "b", "d"})
		e := b.std(n, r.fzPickByte([]byte{tar.TypeChar, tar.TypeChar, tar.TypeBlock}))
		if e.Type == tar.TypeChar {
			mm := [][2]int64{{0, 0}, {1, 3}, {1, 5}, {1, 7}}[r.intn(4)]
			e.Maj, e.Min = mm[0], mm[1]
		} else {
			mm := [][2]int64{{0, 0}, {7, 0}, {7, 7}}[r.intn(3)]
			e.Maj, e.Min = mm[0], mm[1]
		}
		b.add(e)
		if r.chance(3, 4) {
			b.feat("beneath-device")
			sub := r.pick([]string{"x", ".wh.x", ".wh..wh..opq", "d/", "x/y"})
			e2 := b.std(n+"/"+sub, r.fzPickByte([]byte{tar.TypeReg, tar.TypeDir, tar.TypeLink}))
			if e2.Type == tar.TypeLink {
				e2.Link = "b"
			}
			b.add(e2)
		}
	case k < 52:
		// PAX records: xattrs, overrides, malformed values
		b.feat("pax")
		e := b.std(b.name(), tar.TypeReg)
		e.Body = fzBody(r)
		for i, n := 0, 1+r.intn(3); i < n; i++ {
			switch r.intn(16) {
			case 0:
				e.Pax = append(e.Pax, [2]string{"SCHILY.xattr.user.k", "v1"})
				b.feat("pax-xattr")
			case 1:
				e.Pax = append(e.Pax, [2]string{"SCHILY.xattr.security.capability", capRev2})
				b.feat("pax-xattr")
			case 2:
				e.Pax = append(e.Pax, [2]string{"SCHILY.xattr.", "noname"})
				b.feat("pax-xattr-emptyname")
			case 3:
				e.Pax = append(e.Pax, [2]string{"SCHILY.xattr.user.big", strings.Repeat("V", []int{255, 4096, 65536, 70000}[r.intn(4)])})
				b.feat("pax-xattr-big")
			case 4:
				e.Pax = append(e.Pax, [2]string{"SCHILY.xattr.trusted.overlay.opaque", "y"}, [2]string{"SCHILY.xattr.user.bin", "\x01\xff\x00x"})
				b.feat("pax-xattr")
			case 5:
				e.Pax = append(e.Pax, [2]string{"mtime", r.pick([]string{"1700000000.123456789", "-1.5", "99999999999999999999", "1e9", "", "0", "9223372036854775807.999999999", "-9223372036854775808"})})
				b.feat("pax-time")
			case 6:
				e.Pax = append(e.Pax, [2]string{r.pick([]string{"uid", "gid"}), r.pick([]string{"100000000", "-1", "4294967296", "abc", "9223372036854775807", "2147483648"})})
				b.feat("pax-id")
			case 7:
				e.Pax = append(e.Pax, [2]string{"size", r.pick([]string{"0", "1", "-1", "512", "9223372036854775807", "99999999999999999999", "x", "8589934592"})})
				b.feat("pax-size")
			case 8:
				e.Pax = append(e.Pax, [2]string{"path", r.pick([]string{"", "../outside/canary", "/w/outside/canary", "a/", ".", "..", fzLong(r, 300, 40), fzLong(r, 5000, 0), "esc/x", ".wh..wh.plnk/z"})})
				b.feat("pax-path")
			case 9:
				e.Type = r.fzPickByte([]byte{tar.TypeLink, tar.TypeSymlink})
				e.Body = nil
				e.Link = "b"
				e.Pax = append(e.Pax, [2]string{"linkpath", r.pick([]string{"", "../dest2/f", "/w/outside/canary", fzLong(r, 300, 40), ".wh..wh.plnk/f0", "../outside"})})
				b.feat("pax-linkpath")
			case 10:
				e.Pax = append(e.Pax, [2]string{"atime", "1700000001.5"}, [2]string{"ctime", "1.000000001"}, [2]string{"uname", "root"}, [2]string{"gname", strings.Repeat("g", 40)},
					[2]string{"comment", "c"}, [2]string{"hdrcharset", "BINARY"}, [2]string{"VENDOR.unknown", "\xff"})
				b.feat("pax-misc")
			case 11:
				e.Pax = append(e.Pax, [2]string{"GNU.sparse.major", r.pick([]string{"1", "0", "9", ""})}, [2]string{"GNU.sparse.minor", r.pick([]string{"0", "1", "x"})},
					[2]string{"GNU.sparse.name", "spx"}, [2]string{"GNU.sparse.realsize", r.pick([]string{"100", "-1", "x", "1048576"})})
				b.feat("pax-sparse-garbage")
			case 12:
				e.Pax = append(e.Pax, [2]string{"path", "first"}, [2]string{"path", "second"})
				b.feat("pax-duplicate-key")
			default:
				e.Pax = append(e.Pax, [2]string{"SCHILY.xattr.user." + fzLong(r, 1+r.intn(300), 0), "v"})
				b.feat("pax-xattr")
			}
		}
		b.add(e)
	case k < 60:
		// whiteouts and opaque markers
		b.feat("whiteout")
		d := r.pick([]string{"", "", "a/", "d/", "d/sub/", "newdir/", "pf/", "pf/", "pf/", "pd/", "esc/", "../", "b/", "a/up/", "pf/x/", "pd/x/", "b/x/"})
		w := r.pick([]string{".wh.f", ".wh.b", ".wh.a", ".wh.d", ".wh.old", ".wh.missing", ".wh..wh..opq", ".wh..wh..opq", ".wh...", ".wh.", ".wh..", ".wh.pf", ".wh.esc", ".wh..wh.foo", ".wh.h1"})
		e := b.std(d+w, r.fzPickByte([]byte{tar.TypeReg, tar.TypeReg, tar.TypeReg, tar.TypeDir, tar.TypeSymlink, tar.TypeLink}))
		if e.Type == tar.TypeSymlink || e.Type == tar.TypeLink {
			e.Link = "b"
		}
		b.add(e)
	case k < 68:
		// staging area and hard links into it
		b.feat("staging")
		switch r.intn(6) {
		case 0, 1, 2:
			sn := "f" + fmt.Sprint(r.intn(2))
			e := b.std(".wh..wh.plnk/"+sn, tar.TypeReg)
			e.Body = fzBody(r)
			if r.chance(1, 6) {
				e.Name = ".wh..wh.plnk/sub/" + sn
			}
			b.add(e)
			for i, n := 0, r.intn(3); i < n; i++ {
				l := b.std(r.pick([]string{"l0", "l1", "a/l", "b", "esc/l", "../outside/l"}), tar.TypeLink)
				l.Link = ".wh..wh.plnk/" + sn
				b.add(l)
				b.feat("staging-link")
			}
			if r.chance(1, 5) {
				// the staging directory exists now; then an entry that names the destination itself
				b.add(b.std(r.pick([]string{".", "", "a/..", "./"}), r.fzPickByte([]byte{tar.TypeFifo, tar.TypeFifo, tar.TypeReg, tar.TypeChar, tar.TypeSymlink})))
				b.feat("staging-then-entry-named-as-destination")
			}
		case 3:
			l := b.std("lz", tar.TypeLink)
			l.Link = r.pick([]string{".wh..wh.plnk/unstaged", ".wh..wh.plnk", ".wh..wh.plnk/", ".wh..wh.plnkx", "./.wh..wh.plnk/f0", ".wh..wh.plnk/../b"})
			b.add(l)
			b.feat("staging-link-unstaged")
		case 4:
			b.add(b.std(r.pick([]string{".wh..wh.plnk", ".wh..wh.plnk/", ".wh..wh.aufs", ".wh..wh.orph/x", ".wh..wh.plnk/d/"}), r.fzPickByte([]byte{tar.TypeReg, tar.TypeDir, tar.TypeSymlink, tar.TypeFifo})))
			b.feat("staging-meta")
		default:
			e := b.std(".wh..wh.plnk/f0", r.fzPickByte([]byte{tar.TypeDir, tar.TypeSymlink, tar.TypeChar, tar.TypeFifo, 'Z'}))
			e.Link = "../outside"
			b.add(e)
			l := b.std("l0", tar.TypeLink)
			l.Link = ".wh..wh.plnk/f0"
			b.add(l)
			b.feat("staging-nonregular")
		}
	case k < 74:
		b.feat("long-name")
		n := []int{99, 100, 101, 155, 156, 255, 256, 257, 300, 1000, 4095, 4096, 5000}[r.intn(13)]
		sep := []int{0, 10, 50, 101, 200, 256, 300}[r.intn(7)]
		e := b.std(fzLong(r, n, sep), r.fzPickByte([]byte{tar.TypeReg, tar.TypeDir, tar.TypeSymlink, tar.TypeLink}))
		if e.Type == tar.TypeReg {
			e.Body = fzBody(r)
		} else if e.Type != tar.TypeDir {
			e.Link = "b"
			if r.chance(1, 2) {
				e.Link = fzLong(r, []int{100, 101, 256, 1000, 4096}[r.intn(5)], 30)
				b.feat("long-link")
			}
		}
		if r.chance(1, 8) {
			e.Name = strings.Repeat("a/", 100+r.intn(500)) + "x"
			b.feat("deep-nesting")
		}
		b.add(e)
	case k < 79:
		// GNU long-name / long-link oddities, written by hand
		b.feat("gnu-long-odd")
		switch r.intn(6) {
		case 0:
			b.buf.Write(fzMeta('L', "././@LongLink", fzMagicGNU, nil)) // empty long name
		case 1:
			b.buf.Write(fzMeta('L', "././@LongLink", fzMagicGNU, []byte(fzLong(r, 200, 20)+"\x00")))
			b.buf.Write(fzMeta('L', "././@LongLink", fzMagicGNU, []byte("second\x00")))
		case 2:
			b.buf.Write(fzMeta('K', "././@LongLink", fzMagicGNU, []byte("../outside/canary\x00")))
		case 3:
			// declared size far larger than what follows
			h := fzBlock(fzHdr{Name: "././@LongLink", Size: 1 << 19, Type: 'L', Magic: fzMagicGNU})
			b.buf.Write(fzWithBody(h, []byte("short\x00")))
		case 4:
			b.buf.Write(fzMeta('L', "././@LongLink", fzMagicGNU, []byte("no-terminator")))
		default:
			b.buf.Write(fzMeta('L', "././@LongLink", fzMagicGNU, []byte("a\x00b\x00c")))
		}
		if r.chance(3, 4) {
			e := b.std("after-long", r.fzPickByte([]byte{tar.TypeReg, tar.TypeSymlink, tar.TypeLink}))
			e.Link = "b"
			b.buf.Write(fzWithBody(fzBlock(fzHdr{Name: e.Name, Link: e.Link, Mode: 0o644, Type: e.Type, Magic: fzMagicGNU}), nil))
			b.names = append(b.names, e.Name)
		}
	case k < 86:
		b.feat("sparse")
		data := fzBody(r)
		switch r.intn(5) {
		case 0, 1:
			b.feat("sparse-oldgnu")
			nseg := []int{0, 1, 3, 4, 5, 26}[r.intn(6)]
			var segs [][2]int64
			off, left := int64(0), len(data)
			for i := 0; i < nseg; i++ {
				off += int64(r.intn(3000))
				l := 0
				if left > 0 {
					l = r.intn(left + 1)
					if i == nseg-1 {
						l = left
					}
				}
				segs = append(segs, [2]int64{off, int64(l)})
				off += int64(l)
				left -= l
			}
			real := off + int64(r.intn(4096))
			if r.chance(1, 6) {
				real = 1 << 20 // capped logical size
			}
			if r.chance(1, 8) {
				real = off - 1 // map overruns the real size
			}
			b.buf.Write(b.oldGNUSparse(r.pick([]string{"sp", "a/sp", "b"}), segs, real, data))
			b.names = append(b.names, "sp")
		case 2, 3:
			b.feat("sparse-pax1.0")
			nseg := r.intn(4)
			m := fmt.Sprintf("%d\n", nseg)
			off, left := int64(0), len(data)
			for i := 0; i < nseg; i++ {
				off += int64(r.intn(2000))
				l := r.intn(left + 1)
				if i == nseg-1 {
					l = left
				}
				m += fmt.Sprintf("%d\n%d\n", off, l)
				off += int64(l)
				left -= l
			}
			if r.chance(1, 6) {
				m = r.pick([]string{"-1\n", "99999999999999999999\n", "4611686018427387904\n", "2\n0\n", "x\n", "1\n-5\n3\n", "3\n0\n1\n"})
				b.feat("sparse-map-malformed")
			}
			mb := append([]byte(m), make([]byte, fzPad(len(m)))...)
			real := off + int64(r.intn(2000))
			if r.chance(1, 6) {
				real = 1 << 20
			}
			e := b.std("GNUSparseFile.0/sp", tar.TypeReg)
			e.Body = append(mb, data...)
			e.Pax = [][2]string{{"GNU.sparse.major", "1"}, {"GNU.sparse.minor", "0"}, {"GNU.sparse.name", r.pick([]string{"sp", "a/sp", "../outside/sp", ""})},
				{"GNU.sparse.realsize", fmt.Sprint(real)}}
			b.buf.Write(b.render(e))
			b.names = append(b.names, "sp")
		default:
			b.feat("sparse-pax0.x")
			e := b.std("GNUSparseFile.0/sp", tar.TypeReg)
			e.Body = data
			if r.chance(1, 2) {
				e.Pax = [][2]string{{"GNU.sparse.size", fmt.Sprint(len(data) + 1000)}, {"GNU.sparse.numblocks", "1"}, {"GNU.sparse.name", "sp"},
					{"GNU.sparse.map", fmt.Sprintf("1000,%d", len(data))}}
			} else {
				e.Pax = [][2]string{{"GNU.sparse.size", fmt.Sprint(len(data) + 700)}, {"GNU.sparse.numblocks", "1"},
					{"GNU.sparse.offset", "700"}, {"GNU.sparse.numbytes", fmt.Sprint(len(data))}, {"GNU.sparse.name", "sp"}}
			}
			if r.chance(1, 5) {
				e.Pax = append(e.Pax, [2]string{"GNU.sparse.map", r.pick([]string{"1,2,3", ",", "-1,5", "0,99999999999999999999", ""})})
				b.feat("sparse-map-malformed")
			}
			b.buf.Write(b.render(e))
			b.names = append(b.names, "sp")
		}
	case k < 90:
		b.feat("global-header")
		recs := [][2]string{{"comment", "global"}}
		if r.chance(1, 2) {
			recs = append(recs, [2]string{r.pick([]string{"path", "size", "mtime", "uid", "linkpath", "SCHILY.xattr.user.g", "GNU.sparse.major"}),
				r.pick([]string{"../outside/canary", "5", "-1", "x", "1"})})
		}
		b.buf.Write(fzMeta(tar.TypeXGlobalHeader, r.pick([]string{"pax_global_header", "", "../outside/g", "a"}), fzMagicUstar, fzPaxBody(recs)))
	case k < 95:
		b.feat("unknown-type")
		e := b.std(b.name(), r.fzPickByte([]byte{'Z', 'V', 'M', 'D', 'N', '7', 'A', 'I', 'X', 0xff, 0x80, ' ', '8', '9'}))
		if r.chance(1, 2) {
			e.Body = fzBody(r)
		}
		if e.Type == '7' {
			b.feat("type-contiguous")
		}
		b.buf.Write(b.render(e))
		b.names = append(b.names, e.Name)
	default:
		// malformed PAX extended header bodies, written by hand
		b.feat("pax-malformed")
		body := r.pick([]string{"0 a=b\n", "5 a=b\n", "99999999999 path=x\n", "12 path=abc", "9 path\n", "-1 a=b\n", "6 =b\n", "11 path=a\x00b\n", "08 a=b\n\n",
			"18 size=4294967296\n", " 7 a=b\n", "7 a=b\n7 a=b", "30 mtime=1.1.1\n", "1000000 x=", "13 path=../x\n13 path=../y\n"})
		b.buf.Write(fzMeta(r.fzPickByte([]byte{'x', 'x', 'g'}), "PaxHeaders.0/m", fzMagicUstar, []byte(body)))
		e := b.std("after-pax", tar.TypeReg)
		e.Body = []byte("x")
		b.buf.Write(fzWithBody(fzBlock(fzHdr{Name: e.Name, Mode: 0o644, Size: 1, Type: tar.TypeReg, Magic: fzMagicUstar}), e.Body))
		b.names = append(b.names, e.Name)
	}
}

func (r *Rng) fzPickByte(bs []byte) byte { return bs[r.intn(len(bs))] }

// fzSeed builds one valid-by-construction archive (as far as the format allows the chosen features).
type fzSeedInfo struct {
	first string
	links []string
}

// fzSeedX is fzSeed with a bias towards hard link entries (for the rewriters) and the names it used.
func fzSeedX(r *Rng, layerBias, linkBias bool) (data []byte, feats []string, info fzSeedInfo) {
	b := &fzBuilder{r: r, form: r.intn(3), feats: map[string]bool{}}
	data, feats = b.build(layerBias, linkBias)
	return data, feats, fzSeedInfo{b.first, b.links}
}

func fzSeed(r *Rng, layerBias bool) (data []byte, feats []string, first string) {
	b := &fzBuilder{r: r, form: r.intn(3), feats: map[string]bool{}}
	data, feats = b.build(layerBias, false)
	return data, feats, b.first
}

func (b *fzBuilder) build(layerBias, linkBias bool) (data []byte, feats []string) {
	r := b.r
	b.benign = r.chance(1, 3)
	if b.benign {
		b.feat("benign-names")
	}
	n := 1 + r.intn(6)
	if r.chance(1, 12) {
		n = 0
		b.feat("empty-archive")
	}
	for i := 0; i < n; i++ {
		b.feature(layerBias, linkBias)
	}
	b.feat([]string{"fmt-pax", "fmt-gnu", "fmt-ustar"}[b.form])
	switch r.intn(10) {
	case 0:
		b.feat("no-trailer")
	case 1:
		b.buf.Write(make([]byte, 512))
		b.feat("half-trailer")
	case 2:
		b.buf.Write(make([]byte, 10240))
		b.feat("long-trailer")
	default:
		b.buf.Write(make([]byte, 1024))
	}
	for f := range b.feats {
		feats = append(feats, f)
	}
	sort.Strings(feats)
	return b.buf.Bytes(), feats
}

// ---------------------------------------------------------------- tar-level mutations

// fzHeaderOffsets walks the stream block by block the way a tar reader would (by declared sizes).
func fzHeaderOffsets(b []byte) []int {
	var out []int
	off := 0
	for off+512 <= len(b) && len(out) < 4096 {
		blk := b[off : off+512]
		zero := true
		for _, c := range blk {
			if c != 0 {
				zero = false
				break
			}
		}
		if zero {
			off += 512
			continue
		}
		out = append(out, off)
		size := fzParseNum(blk[124:136])
		next := off + 512
		if blk[156] == 'S' && blk[482] != 0 {
			for next+512 <= len(b) {
				more := b[next+504] != 0
				next += 512
				if !more {
					break
				}
			}
		}
		if size < 0 || size > int64(len(b)) {
			break
		}
		off = next + int(size) + fzPad(int(size))
	}
	return out
}

func fzParseNum(f []byte) int64 {
	if len(f) > 0 && f[0]&0x80 != 0 {
		var v uint64
		for i, c := range f {
			if i == 0 {
				c &= 0x7f
			}
			v = v<<8 | uint64(c)
		}
		return int64(v)
	}
	s := strings.Trim(string(f), " \x00")
	var v int64
	for _, c := range s {
		if c < '0' || c > '7' {
			return -1
		}
		v = v*8 + int64(c-'0')
	}
	return v
}

type fzField struct {
	name     string
	off, len int
	numeric  bool
}

var fzFields = []fzField{
	{"name", 0, 100, false}, {"mode", 100, 8, true}, {"uid", 108, 8, true}, {"gid", 116, 8, true}, {"size", 124, 12, true},
	{"mtime", 136, 12, true}, {"chksum", 148, 8, true}, {"typeflag", 156, 1, false}, {"linkname", 157, 100, false},
	{"magic", 257, 6, false}, {"version", 263, 2, false}, {"uname", 265, 32, false}, {"gname", 297, 32, false},
	{"devmajor", 329, 8, true}, {"devminor", 337, 8, true}, {"prefix", 345, 155, false},
	{"gnu-atime", 345, 12, true}, {"gnu-sparse", 386, 96, true}, {"gnu-isextended", 482, 1, false}, {"gnu-realsize", 483, 12, true},
}

func fzNumValue(r *Rng, n int) []byte {
	f := make([]byte, n)
	switch r.intn(14) {
	case 0: // all NUL
	case 1:
		copy(f, strings.Repeat("7", n-1))
	case 2:
		copy(f, strings.Repeat("7", n)) // no terminator
	case 3:
		copy(f, strings.Repeat(" ", n))
	case 4:
		copy(f, "-1")
	case 5:
		f[0] = 0x80
		f[n-1] = byte(1 + r.intn(255)) // small base-256
	case 6:
		for i := range f {
			f[i] = 0xff
		}
		f[0] = 0x80 | 0x7f // base-256 maximum
	case 7:
		for i := range f {
			f[i] = 0xff // base-256 negative one
		}
	case 8:
		copy(f, "8")
	case 9:
		copy(f, fmt.Sprintf("%o", r.next()%(uint64(1)<<uint(fzMinInt(3*(n-1), 60)))))
	case 10:
		copy(f, fmt.Sprintf("%*o ", n-2, r.intn(4096)))
	case 11:
		f[0] = 0x80
		if n >= 9 {
			binary.BigEndian.PutUint64(f[n-8:], uint64(1)<<62) // huge but positive
		}
	case 12:
		if n >= 9 {
			f[0] = 0x80
			binary.BigEndian.PutUint64(f[n-8:], uint64(1)<<33+uint64(r.intn(1000)))
		}
	default:
		for i := range f {
			f[i] = byte(r.intn(256))
		}
	}
	return f
}

func fzStrValue(r *Rng, n int) []byte {
	f := make([]byte, n)
	switch r.intn(8) {
	case 0:
	case 1:
		for i := range f {
			f[i] = 'a' // fills the field, no terminator
		}
	case 2:
		copy(f, fzNames[r.intn(len(fzNames))])
	case 3:
		copy(f, fzLinkTargets[r.intn(len(fzLinkTargets))])
	case 4:
		copy(f, fzSymTargets[r.intn(len(fzSymTargets))])
	case 5:
		for i := range f {
			f[i] = byte(r.intn(256))
		}
	case 6:
		copy(f, r.pick([]string{"ustar\x00", "ustar ", "ustar", "USTAR\x00", "tar\x00", "ustar\x0001", "00", " \x00", "\x00\x00"}))
	default:
		copy(f, r.pick([]string{".wh..wh..opq", ".wh.a", ".wh..wh.plnk/f0", "../", "/", "a/"}))
	}
	return f
}

func fzPickHdr(r *Rng, b []byte, hdrs []int) int {
	if len(hdrs) == 0 {
		if len(b) < 512 {
			return -1
		}
		return 512 * r.intn(len(b)/512)
	}
	return hdrs[r.intn(len(hdrs))]
}

var fzMutNames = []string{"flip-any", "flip-header", "field", "typeflag", "size-lie", "trunc-block", "trunc-any", "dup-block", "drop-block",
	"swap-blocks", "splice-random", "overwrite-range", "concat", "zero-block", "bad-checksum"}

// fzMutate applies one tar-level mutation; sweep >= 0 forces a typeflag sweep with that value.
func fzMutate(r *Rng, b []byte, layerBias bool, which string, sweep int) ([]byte, string) {
	b = append([]byte{}, b...)
	hdrs := fzHeaderOffsets(b)
	if which == "" {
		which = fzMutNames[r.intn(len(fzMutNames))]
	}
	fix := func(h int) {
		if r.chance(4, 5) {
			fzChecksum(b[h:])
		}
	}
	switch which {
	case "flip-any":
		if len(b) == 0 {
			return b, which
		}
		for i, n := 0, 1+r.intn(4); i < n; i++ {
			p := r.intn(len(b))
			b[p] ^= 1 << uint(r.intn(8))
		}
	case "flip-header":
		h := fzPickHdr(r, b, hdrs)
		if h < 0 {
			return b, which
		}
		for i, n := 0, 1+r.intn(3); i < n; i++ {
			b[h+r.intn(512)] ^= 1 << uint(r.intn(8))
		}
		fix(h)
	case "field":
		h := fzPickHdr(r, b, hdrs)
		if h < 0 {
			return b, which
		}
		f := fzFields[r.intn(len(fzFields))]
		var v []byte
		if f.numeric {
			v = fzNumValue(r, f.len)
			if f.name == "devmajor" || f.name == "devminor" {
				v = make([]byte, f.len)
				copy(v, r.pick([]string{"0000000", "0000001", "0000003", "0000005", "0000007", "7777777", "", "x"}))
			}
		} else {
			v = fzStrValue(r, f.len)
		}
		copy(b[h+f.off:h+f.off+f.len], v)
		if f.name != "chksum" {
			fix(h)
		}
		which += ":" + f.name
	case "typeflag":
		h := fzPickHdr(r, b, hdrs)
		if h < 0 {
			return b, which
		}
		v := byte(r.intn(256))
		if sweep >= 0 {
			v = byte(sweep)
		} else if r.chance(1, 2) {
			v = r.fzPickByte([]byte("0123456xgLKSDMNV7\x00"))
		}
		b[h+156] = v
		fzChecksum(b[h:])
	case "size-lie":
		h := fzPickHdr(r, b, hdrs)
		if h < 0 {
			return b, which
		}
		cur := fzParseNum(b[h+124 : h+136])
		if cur < 0 {
			cur = 0
		}
		deltas := []int64{-cur, -513, -512, -511, -1, 1, 511, 512, 513, 1024, 1 << 20, 1<<33 - cur - 1, 1<<62 - cur, 1<<63 - 1 - cur}
		nv := cur + deltas[r.intn(len(deltas))]
		if nv < 0 {
			nv = 0
		}
		fzNum(b[h+124:h+136], nv)
		fzChecksum(b[h:])
	case "trunc-block":
		pts := fzTruncPoints(b)
		if len(pts) > 0 {
			b = b[:pts[r.intn(len(pts))]]
		}
	case "trunc-any":
		if len(b) > 0 {
			b = b[:r.intn(len(b))]
		}
	case "dup-block":
		if len(b) >= 512 {
			k := 512 * r.intn(len(b)/512)
			n := 512 * (1 + r.intn(3))
			if k+n > len(b) {
				n = 512
			}
			b = append(b[:k+n:k+n], b[k:]...)
		}
	case "drop-block":
		if len(b) >= 512 {
			k := 512 * r.intn(len(b)/512)
			b = append(b[:k:k], b[k+512:]...)
		}
	case "swap-blocks":
		if len(b) >= 1024 {
			i, j := 512*r.intn(len(b)/512), 512*r.intn(len(b)/512)
			tmp := append([]byte{}, b[i:i+512]...)
			copy(b[i:i+512], b[j:j+512])
			copy(b[j:j+512], tmp)
		}
	case "splice-random":
		n := []int{1, 7, 511, 512, 513, 1024}[r.intn(6)]
		junk := make([]byte, n)
		for i := range junk {
			junk[i] = byte(r.next())
		}
		p := 0
		if len(b) > 0 {
			p = r.intn(len(b) + 1)
			if r.chance(1, 2) {
				p -= p % 512
			}
		}
		b = append(b[:p:p], append(junk, b[p:]...)...)
	case "overwrite-range":
		if len(b) > 0 {
			p := r.intn(len(b))
			n := fzMinInt(1+r.intn(600), len(b)-p)
			fill := r.fzPickByte([]byte{0, 0xff, ' ', '7', 'x'})
			rnd := r.chance(1, 3)
			for i := 0; i < n; i++ {
				if rnd {
					b[p+i] = byte(r.next())
				} else {
					b[p+i] = fill
				}
			}
		}
	case "concat":
		other, _, _ := fzSeed(r.fork(), layerBias)
		if r.chance(1, 2) {
			// drop this archive's end-of-archive marker so the second continues it
			b = bytes.TrimRight(b, "\x00")
			b = append(b, make([]byte, fzPad(len(b)))...)
		}
		b = append(b, other...)
	case "zero-block":
		if len(b) >= 512 {
			k := 512 * r.intn(len(b)/512)
			n := 512 * (1 + r.intn(2))
			b = append(b[:k:k], append(make([]byte, n), b[k:]...)...)
		}
	case "bad-checksum":
		h := fzPickHdr(r, b, hdrs)
		if h < 0 {
			return b, which
		}
		copy(b[h+148:h+156], fzNumValue(r, 8))
	}
	return b, which
}

// fzTruncPoints: every block boundary ±1 (and the boundary itself).
func fzTruncPoints(b []byte) []int {
	var pts []int
	for k := 0; k*512 <= len(b); k++ {
		for _, d := range []int{-1, 0, 1} {
			if p := k*512 + d; p >= 0 && p < len(b) {
				pts = append(pts, p)
			}
		}
	}
	return pts
}

// ---------------------------------------------------------------- compression layer

func fzGzip(r *Rng, b []byte) []byte {
	var out bytes.Buffer
	lvl := []int{gzip.NoCompression, gzip.BestSpeed, gzip.DefaultCompression, gzip.HuffmanOnly}[r.intn(4)]
	zw, _ := gzip.NewWriterLevel(&out, lvl)
	if r.chance(1, 4) {
		zw.Name = "layer.tar"
		zw.Comment = "c"
		zw.Extra = []byte{1, 2, 3, 4}
	}
	zw.Write(b)
	zw.Close()
	return out.Bytes()
}

func fzZstd(r *Rng, b []byte) []byte {
	var out bytes.Buffer
	zw, err := zstd.NewWriter(&out, zstd.WithEncoderConcurrency(1), zstd.WithEncoderCRC(r.chance(1, 2)),
		zstd.WithEncoderLevel([]zstd.EncoderLevel{zstd.SpeedFastest, zstd.SpeedDefault}[r.intn(2)]))
	if err != nil {
		return b
	}
	zw.Write(b)
	zw.Close()
	return out.Bytes()
}

func fzExternal(tool string, args []string, b []byte) []byte {
	path, err := exec.LookPath(tool)
	if err != nil {
		return nil
	}
	cmd := exec.Command(path, args...)
	cmd.Stdin = bytes.NewReader(b)
	var out bytes.Buffer
	cmd.Stdout = &out
	if err := cmd.Run(); err != nil {
		return nil
	}
	return out.Bytes()
}

var (
	fzMagicGz   = []byte{0x1f, 0x8b, 0x08}
	fzMagicBz   = []byte{0x42, 0x5a, 0x68}
	fzMagicXz   = []byte{0xfd, 0x37, 0x7a, 0x58, 0x5a, 0x00}
	fzMagicZstd = []byte{0x28, 0xb5, 0x2f, 0xfd}
)

// fzCompress wraps b with one codec; returns the codec actually used.
func fzCompress(r *Rng, codec string, b []byte) ([]byte, string) {
	switch codec {
	case "bzip2":
		if out := fzExternal("bzip2", []string{"-c", "-" + fmt.Sprint(1+r.intn(2))}, b); out != nil {
			return out, codec
		}
		return fzGzip(r, b), "gzip(no-bzip2-tool)"
	case "xz":
		if out := fzExternal("xz", []string{"-c", "-0", "-T1"}, b); out != nil {
			return out, codec
		}
		return fzGzip(r, b), "gzip(no-xz-tool)"
	case "zstd":
		return fzZstd(r, b), codec
	}
	return fzGzip(r, b), "gzip"
}

// fzCompressLayer: wrap, nest, concatenate, then damage the compressed bytes.
func fzCompressLayer(r *Rng, tarBytes []byte, layerBias bool, tags *[]string) []byte {
	codec := r.pick([]string{"gzip", "gzip", "gzip", "bzip2", "xz", "zstd", "zstd"})
	out, used := fzCompress(r, codec, tarBytes)
	*tags = append(*tags, "comp:"+used)
	switch r.intn(12) {
	case 0:
		other, _, _ := fzSeed(r.fork(), layerBias)
		o2, _ := fzCompress(r, codec, other)
		out = append(out, o2...)
		*tags = append(*tags, "comp-shape:concat-members")
	case 1:
		inner := r.pick([]string{"gzip", "zstd", "xz", "bzip2"})
		in2, _ := fzCompress(r, inner, tarBytes)
		out, _ = fzCompress(r, codec, in2)
		*tags = append(*tags, "comp-shape:nested")
	case 2:
		out = append(out, tarBytes[:fzMinInt(len(tarBytes), 1024)]...)
		*tags = append(*tags, "comp-shape:member+raw-tar")
	case 3:
		// zstd skippable frame in front (any codec: the sniffing must cope)
		sk := make([]byte, 8+r.intn(20))
		binary.LittleEndian.PutUint32(sk[0:], 0x184D2A50+uint32(r.intn(16)))
		binary.LittleEndian.PutUint32(sk[4:], uint32(len(sk)-8))
		if r.chance(1, 4) {
			binary.LittleEndian.PutUint32(sk[4:], uint32(r.next()))
		}
		out = append(sk, out...)
		*tags = append(*tags, "comp-shape:skippable-frame-first")
	case 4:
		n := 1 + r.intn(64)
		junk := make([]byte, n)
		for i := range junk {
			junk[i] = byte(r.next())
		}
		out = append(out, junk...)
		*tags = append(*tags, "comp-shape:trailing-garbage")
	default:
		*tags = append(*tags, "comp-shape:single")
	}
	switch r.intn(8) {
	case 0, 1:
		if len(out) > 0 {
			for i, n := 0, 1+r.intn(3); i < n; i++ {
				p := r.intn(len(out))
				if r.chance(1, 3) {
					p = r.intn(fzMinInt(len(out), 24)) // inside the container header
				}
				out[p] ^= 1 << uint(r.intn(8))
			}
		}
		*tags = append(*tags, "comp-mut:flip")
	case 2:
		if len(out) > 0 {
			out = out[:r.intn(len(out))]
		}
		*tags = append(*tags, "comp-mut:truncate")
	case 3:
		if len(out) > 16 {
			p := 8 + r.intn(len(out)-8)
			n := fzMinInt(1+r.intn(40), len(out)-p)
			for i := 0; i < n; i++ {
				out[p+i] = byte(r.next())
			}
		}
		*tags = append(*tags, "comp-mut:overwrite")
	default:
		*tags = append(*tags, "comp-mut:none")
	}
	return out
}

// fzRawInput: inputs that are not derived from an archive.
func fzRawInput(r *Rng, tags *[]string) []byte {
	rnd := func(n int) []byte {
		b := make([]byte, n)
		for i := range b {
			b[i] = byte(r.next())
		}
		return b
	}
	lens := []int{0, 1, 2, 3, 4, 5, 6, 7, 8, 9, 10, 11, 100, 511, 512, 513, 1023, 1024, 1025, 4096, 20000}
	switch r.intn(9) {
	case 8:
		// hand-made zstd frame: hostile window descriptor, raw and run-length blocks (4 bytes -> up to 128 KiB each)
		*tags = append(*tags, "raw:zstd-crafted-frame")
		b := append([]byte{}, fzMagicZstd...)
		// window descriptor: small, beyond the decoder's limit, or (rarely: each costs the decoder half a GiB) its maximum
		wd := r.fzPickByte([]byte{0x00, 0x08, 0x30, 0x50, 0x60, 0x99, 0xa0, 0xf8, 0xff})
		if r.chance(1, 8) {
			wd = r.fzPickByte([]byte{0x88, 0x90, 0x98})
		}
		b = append(b, 0x00, wd)
		nb := 1 + r.intn(40)
		for i := 0; i < nb; i++ {
			last := uint32(0)
			if i == nb-1 && r.chance(3, 4) {
				last = 1
			}
			if r.chance(1, 2) {
				n := uint32(1 + r.intn(20))
				h := n<<3 | 0<<1 | last
				b = append(b, byte(h), byte(h>>8), byte(h>>16))
				b = append(b, rnd(int(n))...)
			} else {
				n := uint32([]int{1, 1000, 131072, 131073, 2097151}[r.intn(5)])
				h := n<<3 | 1<<1 | last
				b = append(b, byte(h), byte(h>>8), byte(h>>16), byte(r.next()))
			}
		}
		return b
	case 0:
		*tags = append(*tags, "raw:random")
		return rnd(lens[r.intn(len(lens))])
	case 1:
		*tags = append(*tags, "raw:zeros")
		return make([]byte, lens[r.intn(len(lens))])
	case 2:
		*tags = append(*tags, "raw:magic-prefix")
		m := [][]byte{fzMagicGz, fzMagicBz, fzMagicXz, fzMagicZstd, {0x50, 0x2a, 0x4d, 0x18}, {0x5f, 0x2a, 0x4d, 0x18}}[r.intn(6)]
		return append([]byte{}, m[:r.intn(len(m)+1)]...)
	case 3:
		*tags = append(*tags, "raw:ustar-magic-in-random")
		b := rnd(512 * (1 + r.intn(3)))
		copy(b[257:], fzMagicUstar)
		if r.chance(1, 2) {
			fzChecksum(b)
		}
		return b
	default:
		ms := []struct {
			n string
			m []byte
		}{{"gzip", fzMagicGz}, {"bzip2", fzMagicBz}, {"xz", fzMagicXz}, {"zstd", fzMagicZstd}, {"zstd-skippable", []byte{0x50 + byte(r.intn(16)), 0x2a, 0x4d, 0x18}},
			{"bzip2-level", []byte("BZh9")}, {"bzip2-block", []byte("BZh91AY&SY")}}
		m := ms[r.intn(len(ms))]
		*tags = append(*tags, "raw:magic+random:"+m.n)
		return append(append([]byte{}, m.m...), rnd(lens[r.intn(len(lens))])...)
	}
}

// ---------------------------------------------------------------- worlds and options

// fzWorld: destination, root and prior tree. Chrooted entry points get planted symlinks that
// point outside the root; the plain ones get a symlink-free world.
func fzWorld(r *Rng, ep string) (dest, root string, nodes []Node) {
	mt := int64(1500)
	add := func(n Node) {
		mt++
		n.Mtime = mt
		nodes = append(nodes, n)
	}
	add(Node{Path: "/w/outside", Kind: 'd', Perm: 0o755})
	add(Node{Path: "/w/outside/canary", Kind: 'r', Perm: 0o4755, Data: "canary", Cap: capRev2})
	add(Node{Path: "/w/outside/dir", Kind: 'd', Perm: 0o2770, Uid: 9, Gid: 9})
	add(Node{Path: "/w/outside/dir/of", Kind: 'r', Perm: 0o644, Data: "out"})
	add(Node{Path: "/w/outside/ofifo", Kind: 'f', Perm: 0o600})
	add(Node{Path: "/w/dest2", Kind: 'd', Perm: 0o755})
	add(Node{Path: "/w/dest2/f", Kind: 'r', Perm: 0o600, Uid: 5, Gid: 6, Data: "sibling"})
	if !fzIsExtract(ep) {
		return "", "", nodes
	}
	dest, root = "/w/dest", ""
	base := dest
	exists := !r.chance(1, 10)
	switch {
	case ep == "cur":
		root = "/w/root"
		add(Node{Path: root, Kind: 'd', Perm: 0o755})
		switch r.intn(6) {
		case 0:
			dest, exists = "/w/root/new", false
		case 1:
			dest, exists = "/w/root", true
		case 2:
			add(Node{Path: "/w/root/lnk", Kind: 's', Perm: 0o777, Target: r.pick([]string{"/w/outside", "../outside", "/w", ".."})})
			dest, exists = r.pick([]string{"/w/root/lnk/new", "/w/root/lnk", "/w/root/lnk/dir"}), false
		default:
			dest, exists = "/w/root/sub", true
		}
		base = dest
		if exists && dest != root {
			add(Node{Path: dest, Kind: 'd', Perm: 0o755})
		}
	case fzIsChroot(ep):
		root = dest
		if fzIsLayer(ep) {
			exists = !r.chance(1, 25)
		}
		if exists {
			add(Node{Path: dest, Kind: 'd', Perm: uint32(r.pick2(0o755, 0o2775, 0o700))})
		}
	default:
		if exists {
			add(Node{Path: dest, Kind: 'd', Perm: uint32(r.pick2(0o755, 0o2775, 0o700))})
		}
	}
	if !exists {
		return dest, root, nodes
	}
	add(Node{Path: base + "/a", Kind: 'd', Perm: 0o755})
	add(Node{Path: base + "/a/f", Kind: 'r', Perm: 0o644, Data: "af"})
	add(Node{Path: base + "/b", Kind: 'r', Perm: 0o600, Uid: 1000, Gid: 1000, Data: "bb"})
	add(Node{Path: base + "/d", Kind: 'd', Perm: 0o711})
	add(Node{Path: base + "/d/sub", Kind: 'd', Perm: 0o755})
	add(Node{Path: base + "/d/sub/old", Kind: 'r', Perm: 0o644, Data: "old"})
	if r.chance(2, 3) {
		add(Node{Path: base + "/pf", Kind: 'f', Perm: 0o644})
	}
	if r.chance(2, 3) {
		add(Node{Path: base + "/pd", Kind: 'c', Perm: 0o644, Maj: 1, Min: 3})
	}
	if r.chance(1, 2) {
		add(Node{Path: base + "/h1", Kind: 'r', Perm: 0o4755, Data: "hh", Group: 1})
		add(Node{Path: base + "/h2", Kind: 'r', Perm: 0o4755, Data: "hh", Group: 1})
	}
	if fzIsChroot(ep) {
		for _, s := range [][2]string{{"esc", "/w/outside"}, {"escrel", "../outside"}, {"escfile", "/w/outside/canary"}, {"a/up", "../.."},
			{"abs", "/"}, {"loop", "loop"}, {"dang", "nonexistent"}, {"escfifo", "/w/outside/ofifo"}, {"escup", "../../../.."}, {"lnk", "../dest2"}} {
			if r.chance(4, 5) {
				add(Node{Path: base + "/" + s[0], Kind: 's', Perm: 0o777, Target: s[1]})
			}
		}
	}
	return dest, root, nodes
}

func fzOpts(r *Rng, ep string) string {
	switch ep {
	case "cl", "pl", "ie", "ap", "ds", "dsp", "rb", "rf", "dt":
		return "-"
	}
	if r.chance(1, 10) {
		return "nil"
	}
	var o OptSpec
	if r.chance(1, 2) {
		return o.String()
	}
	if r.chance(1, 4) {
		o.NoLchown = true
	}
	if r.chance(1, 6) {
		o.Chown = &[2]int{r.pickID(), r.pickID()}
	}
	if r.chance(1, 5) {
		o.NoOverwrite = true
	}
	if r.chance(1, 6) {
		o.Excludes = []string{r.pick([]string{"a", "a/b", "b/", "..", ".wh.", "/"})}
	}
	if r.chance(1, 5) {
		o.UidMap = []IDRange{{0, 100000, 65536}}
		o.GidMap = []IDRange{{0, 100000, 65536}}
	}
	if r.chance(1, 8) {
		o.UserNS = true
	}
	if r.chance(1, 6) {
		o.BestEffort = true
	}
	if r.chance(1, 8) {
		o.Overlay = true
	}
	return o.String()
}

// ---------------------------------------------------------------- the case generator

// fzGen builds the case for (seed, plan). plan: "" | "sweep:<v>" | "trunc:<archive seed>:<index>" | "ep:<name>".
func fzGen(seed uint64, plan string) *fzCase {
	r := &Rng{s: seed}
	c := &fzCase{}
	sweep := -1
	truncSeed, truncIdx := uint64(0), -1
	forceEP := ""
	switch {
	case strings.HasPrefix(plan, "sweep:"):
		fmt.Sscanf(plan, "sweep:%d", &sweep)
	case strings.HasPrefix(plan, "trunc:"):
		fmt.Sscanf(plan, "trunc:%d:%d", &truncSeed, &truncIdx)
	case strings.HasPrefix(plan, "ep:"):
		forceEP = plan[3:]
	}
	switch {
	case forceEP != "":
		c.EP = forceEP
	case sweep >= 0 || truncIdx >= 0 || r.chance(7, 10):
		c.EP = fzExtractEPs[r.intn(len(fzExtractEPs))]
		if truncIdx >= 0 && r.chance(1, 3) {
			c.EP = r.pick([]string{"rb", "rf", "ie", "ds"})
		}
	default:
		c.EP = fzStreamEPs[r.intn(len(fzStreamEPs))]
	}
	layer := fzIsLayer(c.EP)
	c.Dest, c.Root, c.Nodes = fzWorld(r, c.EP)
	c.Opts = fzOpts(r, c.EP)
	c.Reader = r.pick([]string{"bytes", "bytes", "bytes", "chunk", "dataerr", "errtail"})
	c.RSeed = r.next()
	tag := func(s string) { c.Tags = append(c.Tags, s) }

	var desc []string
	kind := r.intn(100)
	first := ""
	var links []string
	switch {
	case sweep >= 0:
		data, feats, f := fzSeed(r, layer)
		first = f
		for _, ft := range feats {
			tag("feat:" + ft)
		}
		c.Input, _ = fzMutate(r, data, layer, "typeflag", sweep)
		tag("mut:typeflag-sweep")
		desc = append(desc, fmt.Sprintf("seed[%s] typeflag:=%d", strings.Join(feats, ","), sweep))
	case truncIdx >= 0:
		data, feats, f := fzSeed(&Rng{s: truncSeed}, truncSeed%2 == 0)
		first = f
		pts := fzTruncPoints(data)
		for _, ft := range feats {
			tag("feat:" + ft)
		}
		if truncIdx < len(pts) {
			c.Input = data[:pts[truncIdx]]
			tag("mut:trunc-exhaustive")
			desc = append(desc, fmt.Sprintf("seed[%s] truncated at %d of %d", strings.Join(feats, ","), pts[truncIdx], len(data)))
		} else {
			c.Input, _ = fzMutate(r, data, layer, "", -1)
			tag("mut:trunc-exhaustive-past-end")
		}
	case kind < 84:
		data, feats, info := fzSeedX(r, layer, c.EP == "rb" || c.EP == "rf")
		first = info.first
		links = info.links
		for _, ft := range feats {
			tag("feat:" + ft)
		}
		nm := []int{0, 1, 1, 1, 1, 2, 2, 3}[r.intn(8)]
		var ms []string
		for i := 0; i < nm; i++ {
			var m string
			data, m = fzMutate(r, data, layer, "", -1)
			ms = append(ms, m)
			tag("mut:" + strings.SplitN(m, ":", 2)[0])
			if strings.HasPrefix(m, "field:") {
				tag("mut-" + m)
			}
		}
		if nm == 0 {
			tag("mut:none(valid seed)")
		}
		c.Input = data
		desc = append(desc, fmt.Sprintf("seed[%s] muts[%s]", strings.Join(feats, ","), strings.Join(ms, ",")))
	default:
		c.Input = fzRawInput(r, &c.Tags)
		desc = append(desc, "raw")
	}
	// compression layer: usual for sniffing entry points, rare for the others (they must just fail cleanly)
	p := 3
	if fzAutoDecompress(c.EP) {
		p = 35
	}
	if c.EP == "ds" || c.EP == "dsp" || c.EP == "dt" {
		p = 75
	}
	if kind < 84 && r.intn(100) < p {
		c.Input = fzCompressLayer(r, c.Input, layer, &c.Tags)
		desc = append(desc, "compressed")
	} else {
		tag("comp:none")
	}
	switch c.EP {
	case "rb":
		// old base: a leading part of the first entry's name or of a name the seeds use, or an oddity
		olds := []string{"a", "a/", "d", "d/sub", "d/sub/", "e/f", "esc", ".wh..wh.plnk", "/", "", "dest", first, first}
		if i := strings.LastIndex(first, "/"); i > 0 {
			olds = append(olds, first[:i], first[:i])
		}
		for _, l := range links {
			// a hard link entry's own name, its directory, a leading piece of it
			olds = append(olds, l, l[:r.intn(len(l)+1)])
			if i := strings.LastIndex(l, "/"); i > 0 {
				olds = append(olds, l[:i], l[:i+1])
			}
		}
		news := []string{"b", "x", "p/", "", "..", "../../outside", "renamed", fzLong(r, 120, 30), fzLong(r, 300, 0), "/"}
		c.Aux = []string{olds[r.intn(len(olds))], news[r.intn(len(news))]}
	case "rf":
		// modifiers: name=behaviour
		beh := []string{"keep", "drop", "error", "rename", "read"}
		c.Aux = []string{first + "=" + r.pick(beh), "nonexistent=" + r.pick(beh)}
		if r.chance(1, 3) {
			c.Aux = append(c.Aux, "a="+r.pick(beh), "b="+r.pick(beh))
		}
	case "dsp":
		c.Aux = []string{fmt.Sprint([]int{0, 1, 511, 512, 513, 4096, 40000}[r.intn(7)])}
	}
	c.Desc = strings.Join(desc, " ")
	return c
}

func fzMinInt(a, b int) int {
	if a < b {
		return a
	}
	return b
}
