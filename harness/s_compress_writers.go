package main

import (
	"bytes"
	"compress/gzip"
	"fmt"
	"io"

	"github.com/moby/go-archive/compression"
)

// Compressing writers whose lifetimes overlap, after a writer has been closed twice (`defer w.Close()` plus an
// explicit Close is common): whatever the library keeps between calls, each destination must receive a stream
// that decompresses to exactly what was written to its writer.
func czWriterProbe(res *Result, seed uint64) {
	r := &Rng{s: seed ^ 0x777269746572}
	for round := 0; round < 6; round++ {
		caseText := fmt.Sprintf("writers round=%d seed=%d", round, seed)
		res.Evaluations++
		res.Compared++
		res.count("writers")
		// one stream, closed twice (sometimes three times)
		var first bytes.Buffer
		w0, err := compression.CompressStream(&first, compression.Gzip)
		if err != nil {
			res.problem(Problem{Kind: "oracle", Stream: "compress", Case: caseText, Msg: "C16: CompressStream(gzip) failed: " + err.Error()})
			return
		}
		p0 := czPayload("text", 1000+r.intn(5000), r.next(), false)
		_, _ = w0.Write(p0)
		_ = w0.Close()
		for k := 0; k < 1+r.intn(2); k++ {
			_ = w0.Close()
		}
		// several writers open at the same time, written to in turns
		n := 2 + r.intn(3)
		bufs := make([]bytes.Buffer, n)
		ws := make([]io.WriteCloser, n)
		pay := make([][]byte, n)
		for i := 0; i < n; i++ {
			ws[i], err = compression.CompressStream(&bufs[i], compression.Gzip)
			if err != nil {
				res.problem(Problem{Kind: "oracle", Stream: "compress", Case: caseText, Msg: "C16: CompressStream(gzip) failed: " + err.Error()})
				return
			}
			pay[i] = czPayload([]string{"text", "rand"}[r.intn(2)], 2000+r.intn(60000), r.next(), false)
		}
		off := make([]int, n)
		for {
			done := true
			for i := 0; i < n; i++ {
				if off[i] < len(pay[i]) {
					done = false
					k := 1 + r.intn(9000)
					if off[i]+k > len(pay[i]) {
						k = len(pay[i]) - off[i]
					}
					if _, err := ws[i].Write(pay[i][off[i] : off[i]+k]); err != nil {
						res.problem(Problem{Kind: "oracle", Stream: "compress", Case: caseText, Msg: fmt.Sprintf("C16: writer %d of %d open at once failed: %v", i, n, err)})
						return
					}
					off[i] += k
				}
			}
			if done {
				break
			}
		}
		for i := n - 1; i >= 0; i-- {
			if err := ws[i].Close(); err != nil {
				res.problem(Problem{Kind: "oracle", Stream: "compress", Case: caseText, Msg: fmt.Sprintf("C16: closing writer %d failed: %v", i, err)})
				return
			}
		}
		check := func(name string, b []byte, want []byte) bool {
			zr, err := gzip.NewReader(bytes.NewReader(b))
			var got []byte
			if err == nil {
				got, err = io.ReadAll(zr)
			}
			if err != nil || !bytes.Equal(got, want) {
				res.problem(Problem{Kind: "oracle", Stream: "compress", Case: caseText,
					Msg: fmt.Sprintf("C16: what was written to %s (%d bytes) does not come back from its destination (%d compressed bytes): %d bytes, first difference at %d, error %v — %d gzip writers were open at once after an earlier writer had been closed twice",
						name, len(want), len(b), len(got), czFirstDiff(got, want), err, n)})
				return false
			}
			return true
		}
		if !check("the first writer", first.Bytes(), p0) {
			return
		}
		for i := 0; i < n; i++ {
			if !check(fmt.Sprintf("writer %d", i), bufs[i].Bytes(), pay[i]) {
				return
			}
		}
	}
}
