package main

import (
	"bytes"
	"fmt"
	"os"
	"time"

	"github.com/moby/go-archive/chrootarchive"
)

// A chrooted untar that is refused before anything is extracted — the destination does not exist and cannot be
// made (a dangling symbolic link, a read-only parent): the call returns its error and leaves no helper process
// behind, whichever decompressor the stream would have needed.
func stRefusedDestProbe(res *Result) {
	dir, err := os.MkdirTemp("", "strefused")
	if err != nil {
		return
	}
	defer os.RemoveAll(dir)
	for _, format := range []string{"xz", "gzip", "gzip-builtin", "none"} {
		base := format
		if format == "gzip-builtin" {
			base = "gzip"
			os.Setenv("MOBY_DISABLE_PIGZ", "1")
		} else {
			os.Unsetenv("MOBY_DISABLE_PIGZ")
		}
		blob, err := stBlob(base, 7, 400000)
		if err != nil {
			res.count("refused-skipped:" + format)
			continue
		}
		dest := fmt.Sprintf("%s/dest-%s", dir, format)
		if err := os.Symlink("nowhere/at/all", dest); err != nil {
			continue
		}
		caseText := "refused format=" + format
		before := stChildren()
		done := make(chan error, 1)
		go func() { done <- chrootarchive.Untar(bytes.NewReader(blob), dest, nil) }()
		var uerr error
		select {
		case uerr = <-done:
		case <-time.After(30 * time.Second):
			res.Evaluations++
			res.problem(Problem{Kind: "oracle", Stream: "streams", Case: caseText, Msg: "C17: chrooted untar into a destination that cannot be created (a dangling symbolic link) did not return within 30 s"})
			continue
		}
		res.Evaluations++
		res.count("refused:" + format)
		if uerr == nil {
			res.count("refused-accepted:" + format)
			continue
		}
		left := ""
		for t0 := time.Now(); time.Since(t0) < 8*time.Second; time.Sleep(50 * time.Millisecond) {
			left = ""
			for pid, d := range stChildren() {
				if _, ok := before[pid]; !ok {
					left += fmt.Sprintf(" child process %d (%s)", pid, d)
				}
			}
			if left == "" {
				break
			}
		}
		if left != "" {
			res.problem(Problem{Kind: "oracle", Stream: "streams", Case: caseText,
				Msg: fmt.Sprintf("C17: chrooted untar of a %s stream into a destination that cannot be created returned %q and left behind:%s", format, uerr.Error(), left)})
		}
	}
	os.Unsetenv("MOBY_DISABLE_PIGZ")
}
