package main

import (
	"archive/tar"
	"bytes"
	"encoding/json"
	"fmt"
	"hash/fnv"
	"os"
	"path"
	"sort"
	"strings"
	"time"
)

// Stream "faults": independent oracle for C20 (extraction never reports success for an archive
// it did not fully write) on the real code.
//
// A case is (archive, entry point, option set, fault kind).  One arena job runs the reference
// (no fault, effectively unlimited tmpfs) and then EVERY fault index of its kind:
//   inode     destination file system with exactly k free inodes, k = 0,1,2,… until two consecutive complete runs
//   block     destination file system with exactly k free 4 KiB pages, same enumeration
//   rd-*      the input stream fails after n bytes (custom error | io.ErrUnexpectedEOF | clean io.EOF)
//   gz-*      the same on the gzip-compressed stream (Go gzip or unpigz)
//   producer  CopyFileWithTar with a failing producing side
// Oracle per run: a nil result requires the destination tree to equal the reference tree; a cut that
// removes a byte of any entry's header or body requires a non-nil result.

func init() { subcmds["faults"] = runFaults }

const fSigEOF = "C20-clean-eof-between-entries"

// fEnt is one generated tar entry (bodies are derived from the index and the size).
type fEnt struct {
	T  string      `json:"t"` // dir reg link sym fifo chr blk xglobal
	N  string      `json:"n"`
	L  string      `json:"l,omitempty"`
	S  int         `json:"s,omitempty"`
	M  int64       `json:"m"`
	U  int         `json:"u,omitempty"`
	G  int         `json:"g,omitempty"`
	Mt int64       `json:"mt"`
	X  [][2]string `json:"x,omitempty"` // xattr name (after SCHILY.xattr.), value
	Dv [2]int64    `json:"dv,omitempty"`
}

// fCase is one replayable case.
type fCase struct {
	Ents  []fEnt `json:"ents"`
	Base  []fEnt `json:"base,omitempty"` // content of the destination before the call
	Layer bool   `json:"layer,omitempty"`
	EP    string `json:"ep"`
	Opts  string `json:"opts"`
	Var   int    `json:"var,omitempty"` // entry-point specific variant bits
	Aux   string `json:"aux,omitempty"` // entry-point specific path
	Fault string `json:"fault"`
	Pigz  bool   `json:"pigz,omitempty"`
	K     int    `json:"k"`             // -1: enumerate every fault index; otherwise only this one
	Sub   string `json:"sub,omitempty"` // with K>=0 for rd-*/gz-*: the error kind is in Fault; for producer: the sub-case
	Salt  uint64 `json:"salt"`
	Quick bool   `json:"quick,omitempty"`
}

// Variant bits.
const (
	fVarChroot      = 1 // Archiver.Untar = chrootarchive.Untar
	fVarIDMap       = 2 // Archiver.IDMapping = 0→100000 ×65536
	fVarDestMissing = 4 // the destination directory does not exist before the call
	fVarShift       = 3 // copy shapes start at bit 3
)

type fViol struct {
	K   int    `json:"k"`
	Sub string `json:"sub,omitempty"`
	Msg string `json:"msg"`
}

// fOut is what a job reports.
type fOut struct {
	RefErr   string         `json:"ref_err,omitempty"`
	Setup    string         `json:"setup,omitempty"`
	RefI     int            `json:"ref_i"`
	RefP     int            `json:"ref_p"`
	Runs     int            `json:"runs"`
	N        map[string]int `json:"n"`
	Outcomes string         `json:"outcomes"` // one letter per fault index: e error, o complete success, V violation, k known finding
	Viol     []fViol        `json:"viol,omitempty"`
	Known    []fViol        `json:"known,omitempty"`
	Notes    []string       `json:"notes,omitempty"`
}

// ---- entry points ----

type fEPInfo struct {
	Name    string
	Stream  bool // takes the archive as an io.Reader
	Auto    bool // decompresses automatically
	Layer   bool // layer semantics (whiteouts allowed)
	Opts    bool // takes TarOptions
	Copy    bool // works from a source tree
	Missing bool // tolerates a destination that does not exist yet
}

var fEPs = []fEPInfo{
	{Name: "archive.Untar", Stream: true, Auto: true, Opts: true, Missing: true},
	{Name: "archive.UntarUncompressed", Stream: true, Opts: true, Missing: true},
	{Name: "chrootarchive.Untar", Stream: true, Auto: true, Opts: true, Missing: true},
	{Name: "chrootarchive.UntarUncompressed", Stream: true, Opts: true},
	{Name: "chrootarchive.UntarWithRoot", Stream: true, Auto: true, Opts: true, Missing: true},
	{Name: "archive.ApplyLayer", Stream: true, Auto: true, Layer: true},
	{Name: "archive.ApplyUncompressedLayer", Stream: true, Layer: true, Opts: true},
	{Name: "chrootarchive.ApplyLayer", Stream: true, Auto: true, Layer: true},
	{Name: "chrootarchive.ApplyUncompressedLayer", Stream: true, Layer: true, Opts: true},
	{Name: "Archiver.CopyWithTar", Copy: true},
	{Name: "Archiver.TarUntar", Copy: true},
	{Name: "Archiver.UntarPath"},
	{Name: "archive.CopyResource", Copy: true},
	{Name: "archive.CopyTo", Copy: true, Stream: true},
	{Name: "Archiver.CopyFileWithTar"},
}

func fEP(name string) *fEPInfo {
	for i := range fEPs {
		if fEPs[i].Name == name {
			return &fEPs[i]
		}
	}
	return nil
}

// ---- archive construction (shared by parent and child) ----

// fBody is the deterministic content of entry i.
func fBody(i, size int) []byte {
	b := make([]byte, size)
	x := uint32(i*2654435761 + 12345)
	for k := range b {
		x = x*1664525 + 1013904223
		b[k] = byte('a' + (x>>24)%26)
	}
	return b
}

func fTypeflag(t string) byte {
	switch t {
	case "dir":
		return tar.TypeDir
	case "reg":
		return tar.TypeReg
	case "link":
		return tar.TypeLink
	case "sym":
		return tar.TypeSymlink
	case "fifo":
		return tar.TypeFifo
	case "chr":
		return tar.TypeChar
	case "blk":
		return tar.TypeBlock
	case "xglobal":
		return tar.TypeXGlobalHeader
	}
	return tar.TypeReg
}

// fBuildTar encodes entries; extraX adds an xattr record the kernel refuses with ENOTSUP to the first regular entry.
func fBuildTar(ents []fEnt, extraX bool) ([]byte, error) {
	var buf bytes.Buffer
	tw := tar.NewWriter(&buf)
	for i, e := range ents {
		h := &tar.Header{Typeflag: fTypeflag(e.T), Name: e.N, Linkname: e.L, Mode: e.M, Uid: e.U, Gid: e.G,
			ModTime: time.Unix(e.Mt, 0), Format: tar.FormatPAX, Devmajor: e.Dv[0], Devminor: e.Dv[1]}
		if e.T == "xglobal" {
			h = &tar.Header{Typeflag: tar.TypeXGlobalHeader, Name: e.N, PAXRecords: map[string]string{"comment": "x"}, Format: tar.FormatPAX}
		}
		for _, x := range e.X {
			if h.PAXRecords == nil {
				h.PAXRecords = map[string]string{}
			}
			h.PAXRecords["SCHILY.xattr."+x[0]] = x[1]
		}
		if extraX && e.T == "reg" {
			if h.PAXRecords == nil {
				h.PAXRecords = map[string]string{}
			}
			h.PAXRecords["SCHILY.xattr.foo.bar"] = "nope"
			extraX = false
		}
		if e.T == "reg" {
			h.Size = int64(e.S)
		}
		if err := tw.WriteHeader(h); err != nil {
			return nil, fmt.Errorf("header %q: %w", e.N, err)
		}
		if e.T == "reg" && e.S > 0 {
			if _, err := tw.Write(fBody(i, e.S)); err != nil {
				return nil, err
			}
		}
	}
	if err := tw.Close(); err != nil {
		return nil, err
	}
	return buf.Bytes(), nil
}

// fRec is one raw record of a tar stream (a header block and its data).
type fRec struct {
	Start, BodyStart, BodyEnd, Next int
	Meta                            bool
}

// fLayout walks the raw blocks of a well-formed stream.
func fLayout(ar []byte) (recs []fRec, trailer int) {
	p := 0
	for p+512 <= len(ar) {
		blk := ar[p : p+512]
		zero := true
		for _, c := range blk {
			if c != 0 {
				zero = false
				break
			}
		}
		if zero {
			break
		}
		size := 0
		for _, c := range blk[124:136] {
			if c >= '0' && c <= '7' {
				size = size*8 + int(c-'0')
			}
		}
		tf := blk[156]
		hasData := tf == tar.TypeReg || tf == 0 || tf == tar.TypeXHeader || tf == tar.TypeXGlobalHeader || tf == 'L' || tf == 'K'
		if !hasData {
			size = 0
		}
		r := fRec{Start: p, BodyStart: p + 512, BodyEnd: p + 512 + size, Meta: tf == tar.TypeXHeader || tf == 'L' || tf == 'K'}
		r.Next = r.BodyStart + (size+511)/512*512
		recs = append(recs, r)
		p = r.Next
	}
	return recs, p
}

// ---- generator ----

var fComps = []string{"a", "b", "c", "d", "e", "f", "g"}
var fSizes = []int{0, 1, 4095, 4096, 4097, 20000}
var fIDs = []int{0, 0, 1, 1000}
var fTimes = []int64{1, 1000000000, 1700000000, 1700000001, 1234567890}
var fFileModes = []int64{0o644, 0o644, 0o600, 0o755, 0o4755, 0o444, 0o2711}
var fDirModes = []int64{0o755, 0o755, 0o700, 0o1777, 0o2755}

type fModel struct {
	kind     map[string]byte
	unpacked map[string]bool
}

func (m *fModel) rmTree(p string) {
	for q := range m.kind {
		if q == p || strings.HasPrefix(q, p+"/") {
			delete(m.kind, q)
		}
	}
}

func (m *fModel) dirs() []string {
	out := []string{""}
	for q, k := range m.kind {
		if k == 'd' {
			out = append(out, q)
		}
	}
	sort.Strings(out)
	return out
}

func (m *fModel) ofKind(ks string) []string {
	var out []string
	for q, k := range m.kind {
		if strings.IndexByte(ks, k) >= 0 {
			out = append(out, q)
		}
	}
	sort.Strings(out)
	return out
}

func fJoin(a, b string) string {
	if a == "" {
		return b
	}
	return a + "/" + b
}

// opaque applies the walk of an opaque marker in dir: children not unpacked by this layer go, with their subtrees.
func (m *fModel) opaque(dir string) {
	var walk func(d string)
	walk = func(d string) {
		var kids []string
		for q := range m.kind {
			if path.Dir("/"+q) == "/"+d || (d == "" && !strings.Contains(q, "/")) {
				kids = append(kids, q)
			}
		}
		sort.Strings(kids)
		for _, q := range kids {
			if _, ok := m.kind[q]; !ok {
				continue
			}
			if !m.unpacked[q] {
				m.rmTree(q)
			} else if m.kind[q] == 'd' {
				walk(q)
			}
		}
	}
	walk(dir)
}

type fGen struct {
	r      *Rng
	m      *fModel
	layer  bool
	staged []string
	small  bool
	dirHdr map[string]bool // paths that got a directory header: their times are set when the archive ends
}

// tryEntry generates one entry and takes it back when it would make the extractor fail by construction
// (a directory header whose path is gone, or a dangling symlink, when the deferred directory times are applied).
func (g *fGen) tryEntry() (fEnt, bool) {
	saveK := map[string]byte{}
	for k, v := range g.m.kind {
		saveK[k] = v
	}
	saveU := map[string]bool{}
	for k, v := range g.m.unpacked {
		saveU[k] = v
	}
	nStaged := len(g.staged)
	e, ok := g.entry()
	if ok && e.T == "dir" {
		if g.dirHdr == nil {
			g.dirHdr = map[string]bool{}
		}
		g.dirHdr[path.Clean(e.N)] = true
	}
	if ok {
		for p := range g.dirHdr {
			if k, ex := g.m.kind[p]; !ex || k == 's' || k == 'c' || k == 'b' { // (device nodes are skipped in a user namespace)
				ok = false
			}
		}
	}
	if !ok {
		g.m.kind, g.m.unpacked, g.staged = saveK, saveU, g.staged[:nStaged]
		if e.T == "dir" {
			delete(g.dirHdr, path.Clean(e.N))
		}
	}
	return e, ok
}

func (g *fGen) name() (string, bool) {
	r := g.r
	for try := 0; try < 8; try++ {
		ds := g.m.dirs()
		p := ds[r.intn(len(ds))]
		if r.chance(1, 4) {
			// implied parents: one or two components that do not exist yet
			n := 1 + r.intn(2)
			ok := true
			for i := 0; i < n; i++ {
				p = fJoin(p, r.pick(fComps)+"i")
				if _, ex := g.m.kind[p]; ex {
					ok = false
				}
			}
			if !ok || strings.Count(p, "/") > 3 {
				continue
			}
		}
		full := fJoin(p, r.pick(fComps))
		if _, ex := g.m.kind[full]; ex && !r.chance(1, 2) {
			continue
		}
		return full, true
	}
	return "", false
}

// place records full as kind k, creating implied parents and dropping what it replaces.
func (g *fGen) place(full string, k byte) {
	parts := strings.Split(full, "/")
	for i := 1; i < len(parts); i++ {
		anc := strings.Join(parts[:i], "/")
		if _, ok := g.m.kind[anc]; !ok {
			g.m.kind[anc] = 'd'
		}
	}
	if old, ok := g.m.kind[full]; ok && !(old == 'd' && k == 'd') {
		g.m.rmTree(full)
	}
	g.m.kind[full] = k
	g.m.unpacked[full] = true
}

func (g *fGen) size() int {
	if g.small {
		return []int{0, 1, 4097}[g.r.intn(3)]
	}
	return fSizes[g.r.intn(len(fSizes))]
}

func (g *fGen) xattrs(e *fEnt) {
	r := g.r
	if g.small {
		return
	}
	switch e.T {
	case "reg", "dir":
		if r.chance(1, 4) {
			e.X = append(e.X, [2]string{"user.k", "v" + fmt.Sprint(r.intn(10))})
		}
		if r.chance(1, 10) {
			e.X = append(e.X, [2]string{"user.big", strings.Repeat("B", 1100)})
		}
	case "sym", "fifo", "chr":
		if r.chance(1, 5) {
			e.X = append(e.X, [2]string{"user.k", "refused"}) // EPERM from the kernel: tolerated by the extractor
		}
	}
}

func (g *fGen) entry() (fEnt, bool) {
	r := g.r
	e := fEnt{U: fIDs[r.intn(len(fIDs))], G: fIDs[r.intn(len(fIDs))], Mt: fTimes[r.intn(len(fTimes))], M: fFileModes[r.intn(len(fFileModes))]}
	if g.layer && r.chance(28, 100) {
		k := 72 + r.intn(28)
		switch {
		case k < 80: // whiteout
			ds := g.m.dirs()
			d := ds[r.intn(len(ds))]
			victim := r.pick(fComps)
			if kids := g.m.ofKind("drsfcb"); len(kids) > 0 && r.chance(2, 3) {
				v := kids[r.intn(len(kids))]
				d, victim = path.Dir(v), path.Base(v)
				if d == "." {
					d = ""
				}
			}
			e.T, e.N, e.S = "reg", fJoin(d, ".wh."+victim), 0
			g.m.rmTree(fJoin(d, victim))
			return e, true
		case k < 84: // opaque marker
			ds := g.m.dirs()
			d := ds[r.intn(len(ds))]
			if d == "" {
				// at the layer root the walk would also remove the extractor's own staging directory
				return e, false
			}
			e.T, e.N = "reg", fJoin(d, ".wh..wh..opq")
			g.m.opaque(d)
			return e, true
		case k < 92: // staged file
			id := "s" + fmt.Sprint(len(g.staged))
			g.staged = append(g.staged, id)
			e.T, e.N, e.S = "reg", ".wh..wh.plnk/"+id, g.size()
			g.xattrs(&e)
			return e, true
		default: // hard link into the staging area
			if len(g.staged) == 0 {
				return e, false
			}
			full, ok := g.name()
			if !ok {
				return e, false
			}
			e.T, e.N, e.L = "link", full, ".wh..wh.plnk/"+g.staged[r.intn(len(g.staged))]
			g.place(full, 'r')
			return e, true
		}
	}
	k := r.intn(100)
	if k >= 98 && !g.small {
		e = fEnt{T: "xglobal", N: "pax_global_header"}
		return e, true
	}
	full, ok := g.name()
	if !ok {
		return e, false
	}
	e.N = full
	switch {
	case k < 34:
		e.T, e.S = "reg", g.size()
		g.place(full, 'r')
	case k < 50:
		e.T, e.M = "dir", fDirModes[r.intn(len(fDirModes))]
		if r.chance(1, 2) {
			e.N += "/"
		}
		g.place(full, 'd')
	case k < 62:
		e.T, e.M = "sym", 0o777
		par := path.Dir(full)
		cands := []string{"nx", r.pick(fComps), "/" + r.pick(fComps), "/etc/passwd", "./" + r.pick(fComps)}
		if par != "." {
			cands = append(cands, "../"+r.pick(fComps), "../"+path.Base(par))
		}
		e.L = cands[r.intn(len(cands))]
		g.place(full, 's')
	case k < 78:
		var cands []string
		pool := "r"
		if r.chance(1, 5) {
			pool = "rsf"
		}
		for _, q := range g.m.ofKind(pool) {
			if q != full && !strings.HasPrefix(q, full+"/") {
				cands = append(cands, q)
			}
		}
		if len(cands) == 0 {
			e.T, e.S = "reg", g.size()
			g.place(full, 'r')
			break
		}
		t := cands[r.intn(len(cands))]
		e.T, e.L = "link", t
		if r.chance(1, 6) {
			e.L = "./" + t
		}
		g.place(full, g.m.kind[t])
	case g.small:
		// prior content holds no special files
		e.T, e.S = "reg", g.size()
		g.place(full, 'r')
	case k < 86:
		e.T = "fifo"
		g.place(full, 'f')
	case k < 94:
		e.T, e.Dv = "chr", [2]int64{int64(r.intn(3)), int64(r.intn(4))}
		g.place(full, 'c')
	default:
		e.T, e.Dv = "blk", [2]int64{int64(r.intn(3)), int64(r.intn(4))}
		g.place(full, 'b')
	}
	g.xattrs(&e)
	return e, true
}

// fGenArchive makes a prior destination content (base) and an entry list that the extractor accepts.
func fGenArchive(r *Rng, layer bool, n int, nbase int) (base, ents []fEnt) {
	m := &fModel{kind: map[string]byte{}, unpacked: map[string]bool{}}
	g := &fGen{r: r, m: m, small: true}
	for tries := 0; len(base) < nbase && tries < 60; tries++ {
		if e, ok := g.tryEntry(); ok {
			base = append(base, e)
		}
	}
	m.unpacked = map[string]bool{}
	g = &fGen{r: r, m: m, layer: layer}
	if layer && r.chance(1, 3) {
		// a staged file and a link to it before anything else takes a page: the copy out of the staging area is
		// then the first thing a full file system refuses
		g.staged = append(g.staged, "s0")
		st := fEnt{T: "reg", N: ".wh..wh.plnk/s0", S: fSizes[1+r.intn(len(fSizes)-1)], M: 0o644, Mt: fTimes[r.intn(len(fTimes))]}
		if full, ok := g.name(); ok {
			g.place(full, 'r')
			ents = append(ents, st, fEnt{T: "link", N: full, L: ".wh..wh.plnk/s0", M: 0o644, Mt: st.Mt})
		}
	}
	for tries := 0; len(ents) < n && tries < 4*n; tries++ {
		if e, ok := g.tryEntry(); ok {
			ents = append(ents, e)
		}
	}
	if layer && r.chance(1, 3) {
		// … and one as the last consumer of pages: with exactly the pages of everything before it, the staged
		// file is the first write that is refused
		id := "s" + fmt.Sprint(len(g.staged))
		st := fEnt{T: "reg", N: ".wh..wh.plnk/" + id, S: fSizes[1+r.intn(len(fSizes)-1)], M: 0o600, Mt: fTimes[r.intn(len(fTimes))]}
		if full, ok := g.name(); ok {
			if _, ex := m.kind[full]; !ex {
				ents = append(ents, st, fEnt{T: "link", N: full, L: ".wh..wh.plnk/" + id, M: 0o600, Mt: st.Mt})
			}
		}
	}
	return base, ents
}

var fOptPool = []string{"-", "noLchown=1", "chown=1000:1000", "uidmap=0:100000:65536,gidmap=0:100000:65536", "userns=1", "best=1", "noLchown=1,userns=1", "noLchown=1,best=1"}

func fArchiveHash(c *fCase) string {
	b, _ := json.Marshal(struct {
		E []fEnt
		B []fEnt
	}{c.Ents, c.Base})
	h := fnv.New64a()
	h.Write(b)
	return fmt.Sprintf("%016x", h.Sum64())
}

func (c *fCase) text() string {
	b, _ := json.Marshal(c)
	return string(b)
}

// fCasesFor expands one archive into the jobs of every applicable entry point and fault kind.
func fCasesFor(r *Rng, base, ents []fEnt, layer bool, idx int, quick bool) []fCase {
	var out []fCase
	hasBase := len(base) > 0
	for ei, ep := range fEPs {
		if ep.Name == "Archiver.CopyFileWithTar" {
			continue
		}
		if layer && !ep.Layer {
			continue
		}
		if ep.Copy && layer {
			continue
		}
		c := fCase{Ents: ents, Base: base, Layer: layer, EP: ep.Name, Opts: "-", K: -1, Salt: r.next(), Quick: quick}
		if ep.Opts {
			c.Opts = fOptPool[(idx+ei+r.intn(2))%len(fOptPool)]
		}
		if ep.Missing && !hasBase && r.chance(1, 3) {
			c.Var |= fVarDestMissing
		}
		switch ep.Name {
		case "Archiver.CopyWithTar", "Archiver.TarUntar", "Archiver.UntarPath":
			c.Var |= r.intn(4) // chroot / idmap bits
			if ep.Name == "Archiver.CopyWithTar" && !hasBase && r.chance(1, 2) {
				c.Var |= fVarDestMissing
			}
		case "archive.CopyResource", "archive.CopyTo":
			shape := r.intn(4)
			if shape == 3 {
				// a single regular file of the source tree
				c.Aux = ""
				for _, e := range ents {
					if e.T == "reg" && !strings.Contains(e.N, ".wh.") {
						c.Aux = path.Clean(e.N)
					}
				}
				if c.Aux == "" {
					shape = 0
				}
			}
			c.Var |= shape << fVarShift
		}
		kinds := []string{"inode", "block"}
		if ep.Stream {
			kinds = append(kinds, "rd-custom", "rd-ueof", "rd-eof")
		}
		if ep.Name == "Archiver.UntarPath" {
			kinds = append(kinds, "rd-eof")
		}
		if ep.Auto {
			kinds = append(kinds, "gz-custom", "gz-eof", "gzm-custom")
		}
		for _, k := range kinds {
			cc := c
			cc.Fault = k
			if strings.HasPrefix(k, "gz-") || strings.HasPrefix(k, "gzm-") {
				cc.Pigz = r.chance(1, 2)
			}
			out = append(out, cc)
		}
	}
	return out
}

func fCopyFileCases(r *Rng, quick bool) []fCase {
	var out []fCase
	for _, sz := range fSizes {
		e := fEnt{T: "reg", N: "srcfile", S: sz, M: fFileModes[r.intn(len(fFileModes))], U: fIDs[r.intn(len(fIDs))], G: fIDs[r.intn(len(fIDs))], Mt: fTimes[r.intn(len(fTimes))]}
		c := fCase{Ents: []fEnt{e}, EP: "Archiver.CopyFileWithTar", Opts: "-", K: -1, Quick: quick}
		for _, k := range []string{"inode", "block"} {
			cc := c
			cc.Fault = k
			cc.Salt = r.next()
			cc.Var = r.intn(4) | r.intn(3)<<fVarShift
			out = append(out, cc)
		}
	}
	for v := 0; v < 4; v++ {
		e := fEnt{T: "reg", N: "srcfile", S: fSizes[r.intn(len(fSizes))], M: 0o644, Mt: 1700000000}
		out = append(out, fCase{Ents: []fEnt{e}, EP: "Archiver.CopyFileWithTar", Opts: "-", K: -1, Fault: "producer", Var: v, Salt: r.next(), Quick: quick})
	}
	return out
}

func runFaults(cfg *Config) *Result {
	res := newResult("archives drawn from the PRNG (dirs, files of sizes 0/1/4095/4096/4097/20000, implied parents, hard links, symlinks, fifos, devices, user.* xattrs, replaced entries; layers with whiteouts, opaque markers and the .wh..wh.plnk staging area) × 15 entry points × fault kind; " +
		"every fault index is run (free inodes k, free pages k, input cut at byte n over all 512-byte boundaries ±1 and a spread inside bodies, gzip cuts, producer failures); " +
		"a run is non-trivial when the fault fired (error) or it is the first complete success; distinct by (archive, entry point, options, fault kind, index)")
	// newRng(s+1) is newRng(s) advanced by one step, so the seed is mixed first: adjacent seeds must not replay each other's archives
	rng := newRng(fMix(cfg.Seed, 0xC20C20))
	var cases []fCase
	if cfg.Replay != "" {
		b, err := os.ReadFile(cfg.Replay)
		if err != nil {
			res.SetupError = err.Error()
			return res
		}
		var rp struct {
			Case string `json:"case"`
		}
		if err := json.Unmarshal(b, &rp); err != nil {
			res.SetupError = err.Error()
			return res
		}
		var c fCase
		if err := json.Unmarshal([]byte(rp.Case), &c); err != nil {
			res.SetupError = "replay case: " + err.Error()
			return res
		}
		cases = append(cases, c)
	} else {
		quick := !cfg.thorough()
		nArch := cfg.count(24, 160)
		for i := 0; i < nArch; i++ {
			r := rng.fork()
			layer := i%3 == 2
			n := 2 + r.intn(7)
			if i%5 == 0 {
				n = 1 + r.intn(2) // tiny archives: exhaustive cuts stay cheap and single-entry boundaries are hit
			}
			nbase := 0
			if layer || r.chance(1, 3) {
				nbase = r.intn(5)
			}
			base, ents := fGenArchive(r, layer, n, nbase)
			if len(ents) == 0 {
				continue
			}
			if _, err := fBuildTar(ents, false); err != nil {
				res.count("gen-skip")
				continue
			}
			for _, e := range ents {
				res.count("entry:" + e.T)
				if e.T == "reg" {
					res.count(fmt.Sprintf("regsize:%d", e.S))
				}
				if len(e.X) > 0 {
					res.count("entry-with-xattr:" + e.T)
				}
				if strings.Contains(e.N, ".wh.") {
					res.count("entry:whiteout-family")
				}
			}
			res.count(fmt.Sprintf("archive:layer=%v,base=%v", layer, nbase > 0))
			cases = append(cases, fCasesFor(r, base, ents, layer, i, quick)...)
		}
		cases = append(cases, fCopyFileCases(rng.fork(), quick)...)
		// spread heavy and light jobs over the workers
		perm := make([]fCase, 0, len(cases))
		stride := 16
		for s := 0; s < stride; s++ {
			for i := s; i < len(cases); i += stride {
				perm = append(perm, cases[i])
			}
		}
		cases = perm
	}
	jobs := make([]Job, len(cases))
	for i := range cases {
		jobs[i] = Job{ID: i, Kind: "faults", Args: []string{cases[i].text()}}
	}
	results := runArena(cfg, jobs, 300*time.Second)
	var known *Problem
	noted := map[string]bool{}
	knownK := -1
	for i := range cases {
		c := &cases[i]
		jr := results[i]
		key := c.EP + "|" + c.Fault
		if jr.ID < 0 || jr.Out == "setup" {
			res.SetupError = fmt.Sprintf("case %d (%s): %s", i, key, jr.Err)
			return res
		}
		if jr.Millis > 20000 {
			fmt.Fprintf(os.Stderr, "faults: slow job %d (%s, %d ms)\n", i, key, jr.Millis)
		}
		if jr.Out == "panic" || jr.Out == "hang" {
			fmt.Fprintf(os.Stderr, "faults: job %d (%s) %s: %s\n", i, key, jr.Out, truncate(jr.Err, 200))
			res.problem(Problem{Kind: "oracle", Stream: "faults", Case: c.text(), Impl: jr.Out, Msg: "C20: " + c.EP + " under fault " + c.Fault + " did not return: " + jr.Out + " " + truncate(jr.Err, 300)})
			res.count(key + "|" + jr.Out)
			continue
		}
		var o fOut
		if err := json.Unmarshal([]byte(jr.Extra), &o); err != nil {
			res.SetupError = fmt.Sprintf("case %d: bad job output: %v", i, err)
			return res
		}
		if o.Setup != "" {
			res.SetupError = fmt.Sprintf("case %d (%s): %s\ncase: %s", i, key, o.Setup, truncate(c.text(), 3000))
			return res
		}
		if o.RefErr != "" {
			res.count("reference-failed|" + c.EP)
			if os.Getenv("FAULTS_DEBUG") != "" {
				fmt.Fprintf(os.Stderr, "faults: reference failed: %s\n  %s\n", o.RefErr, c.text())
			}
			if note := "reference failed (case skipped): " + c.EP + ": " + truncate(o.RefErr, 160); !noted[note] && len(noted) < 12 {
				noted[note] = true
				res.Notes = append(res.Notes, note)
			}
			continue
		}
		res.count("opts:" + c.Opts)
		res.Evaluations += o.Runs
		res.Compared += o.Runs
		for k, v := range o.N {
			res.Distribution[key+"|"+k] += v
		}
		ah := fArchiveHash(c)
		for k, ch := range o.Outcomes {
			if ch == 'e' || ch == 'V' || ch == 'k' || (ch == 'o' && (k == 0 || o.Outcomes[k-1] != 'o')) {
				res.nontrivial(fmt.Sprintf("%s|%s|%s|%d|%s|%d", ah, c.EP, c.Opts, c.Var, c.Fault, k))
			}
		}
		for _, n := range o.Notes {
			res.count("note:" + n)
		}
		for _, v := range o.Viol {
			cc := *c
			cc.K, cc.Sub = v.K, v.Sub
			res.problem(Problem{Kind: "oracle", Stream: "faults", Case: cc.text(), Impl: "nil error", Msg: "C20: " + c.EP + " [" + c.Fault + " index " + fmt.Sprint(v.K) + " " + v.Sub + "]: " + v.Msg})
		}
		for _, v := range o.Known {
			// one reproducer per run, preferably a cut in the middle of a multi-entry archive
			if known == nil || (knownK == 0 && v.K > 0) {
				cc := *c
				cc.K, cc.Sub = v.K, v.Sub
				known = &Problem{Kind: "oracle", Stream: "faults", Sig: fSigEOF, Case: cc.text(), Impl: "nil error", Msg: "C20: " + c.EP + " [" + c.Fault + " cut at byte " + fmt.Sprint(v.K) + "]: " + v.Msg}
				knownK = v.K
			}
		}
		if i < 4 {
			res.sample(fmt.Sprintf("%s opts=%s var=%d fault=%s entries=%d base=%d refInodes=%d refPages=%d outcomes=%s", c.EP, c.Opts, c.Var, c.Fault, len(c.Ents), len(c.Base), o.RefI, o.RefP, truncate(o.Outcomes, 120)))
		}
	}
	if known != nil {
		res.Problems = append([]Problem{*known}, res.Problems...)
		if len(res.Problems) > 50 {
			res.Problems = res.Problems[:50]
		}
	}
	return res
}
