package main

import (
	"fmt"
	"path/filepath"
	"strings"
)

// Spec-level oracles for C06 on the REAL outcome, for symlink-free worlds and layers with plain
// relative names (there the lexical reading of the property is the kernel's reading):
//
//   - a whiteout entry creates nothing            (known deviation D9: it creates the implied parents)
//   - an opaque marker never removes what this layer itself provides, wherever it stands
//     (known deviation D7: a parent directory that has no header of its own is not remembered)
//
// A failure that does not have exactly the shape of D7 / D9 carries no signature and is a violation.

func layerCleanRel(name string) (string, bool) {
	if name == "" || strings.HasPrefix(name, "/") {
		return "", false
	}
	for _, c := range strings.Split(name, "/") {
		if c == ".." {
			return "", false
		}
	}
	return filepath.Clean(name), true
}

func pathIsOrUnder(p, anc string) bool {
	return anc == "." || p == anc || strings.HasPrefix(p, anc+"/")
}

func oracleLayerSpec(c *FsCase, before, after *Outcome, out string) []Problem {
	if c.Op != "layer" || out != "ok" || worldHasSymlink(before) {
		return nil
	}
	type le struct {
		name     string // clean relative name
		wh       bool   // plain whiteout
		opq      bool   // opaque marker
		reserved bool   // other .wh..wh. metadata
		nocreate bool   // a device entry inside a user namespace: what is at the path is removed, nothing is created (documented tolerance)
		target   string // what a whiteout/marker acts on
	}
	var es []le
	for _, e := range c.Ents {
		if e.Typ == "sym" {
			return nil
		}
		n, ok := layerCleanRel(e.Name)
		if !ok {
			return nil
		}
		x := le{name: n}
		base := filepath.Base(n)
		switch {
		case n == ".wh..wh..opq" || base == ".wh..wh..opq" && !strings.HasPrefix(n, ".wh..wh."):
			x.opq, x.target = true, filepath.Dir(n)
		case strings.HasPrefix(n, ".wh..wh."):
			x.reserved = true
		case strings.HasPrefix(base, ".wh."):
			x.wh, x.target = true, filepath.Join(filepath.Dir(n), base[len(".wh."):])
		case e.Typ == "xglobal":
			x.reserved = true // PAX global header under an ordinary name: consumed, nothing is created for it
		case (e.Typ == "chr" || e.Typ == "blk") && c.Opts.UserNS:
			x.nocreate = true
		}
		es = append(es, x)
	}
	dest := strings.TrimSuffix(c.Dest, "/")
	kindBefore := map[string]string{}
	for _, n := range before.Nodes {
		kindBefore[unhx(n[0])] = n[1]
	}
	kindAfter := map[string]string{}
	for _, n := range after.Nodes {
		kindAfter[unhx(n[0])] = n[1]
	}
	abs := func(rel string) string {
		if rel == "." {
			return dest
		}
		return dest + "/" + rel
	}
	var probs []Problem

	// D9 shape: whiteout p/.wh.x, p absent before, nothing else in the layer provides p or anything under it
	for i, e := range es {
		if !e.wh {
			continue
		}
		p := filepath.Dir(e.name)
		if p == "." {
			continue
		}
		top := strings.Split(p, "/")[0] // topmost implied directory
		for _, cand := range []string{p, top} {
			if _, was := kindBefore[abs(cand)]; was {
				continue
			}
			provided := false
			for j, o := range es {
				if j != i && !o.wh && !o.reserved && !o.opq && !o.nocreate && pathIsOrUnder(o.name, cand) {
					provided = true
				}
				if j != i && o.opq && pathIsOrUnder(o.target, cand) {
					provided = true // the marker's own implied parents: same deviation, reported once below
				}
			}
			if !provided && kindAfter[abs(cand)] != "" {
				onlyWh := true
				for j, o := range es {
					if j != i && (o.wh || o.opq) && pathIsOrUnder(o.name, cand) {
						onlyWh = onlyWh && true
					}
				}
				probs = append(probs, Problem{Kind: "oracle", Stream: "extract", Sig: "D9",
					Msg: fmt.Sprintf("C06: whiteout entry %d (%q) created %q, which neither existed before nor is provided by the layer [D9: implied parents are created for whiteout entries too]", i, e.name, cand)})
				return probs
			}
		}
	}

	// marker never removes what the layer provides
	for i, m := range es {
		if !m.opq {
			continue
		}
		d := m.target
		for j := 0; j < i; j++ {
			e := es[j]
			if e.wh || e.opq || e.reserved || e.nocreate || e.name == d || !pathIsOrUnder(e.name, d) {
				continue
			}
			// skip when any later entry (other than this marker) acts on e or an ancestor of e
			touched := false
			for k := j + 1; k < len(es); k++ {
				if k == i {
					continue
				}
				o := es[k]
				t := o.name
				if o.wh || o.opq {
					t = o.target
				}
				if o.reserved {
					continue
				}
				if pathIsOrUnder(e.name, t) {
					touched = true
				}
			}
			if touched || kindAfter[abs(e.name)] != "" {
				continue
			}
			// topmost vanished ancestor strictly between d and e
			rel := e.name
			if d != "." {
				rel = strings.TrimPrefix(e.name, d+"/")
			}
			comps := strings.Split(rel, "/")
			sig := ""
			// D7: the marker's walk removed a directory on the way to e that is not remembered as unpacked — the
			// highest ancestor of e beneath d that has no header of its own before the marker (the walk does not
			// descend into what it removes, so that ancestor decides)
			for depth := 1; depth < len(comps); depth++ {
				anc := filepath.Join(d, filepath.Join(comps[:depth]...))
				hasHeader := false
				for k := 0; k < i; k++ {
					if es[k].name == anc && !es[k].wh && !es[k].opq && !es[k].reserved {
						hasHeader = true
					}
				}
				if !hasHeader {
					sig = "D7"
					break
				}
			}
			msg := fmt.Sprintf("C06: opaque marker (entry %d, %q) removed %q, which this layer itself provides (entry %d)", i, m.name, e.name, j)
			if sig == "D7" {
				msg += " [D7: its parent directory has no header of its own before the marker, so it is not remembered as unpacked]"
			}
			probs = append(probs, Problem{Kind: "oracle", Stream: "extract", Sig: sig, Msg: msg})
			return probs
		}
	}

	// the frame: a path that existed before and that nothing in the layer names — no entry at or above it, no
	// whiteout target at or above it, no opaque marker for a directory above it — is still there
	// (PAX global headers name nothing: D26)
	for _, n := range before.Nodes {
		q := unhx(n[0])
		if q == dest || !strings.HasPrefix(q, dest+"/") {
			continue
		}
		rel := strings.TrimPrefix(q, dest+"/")
		named := false
		for _, e := range es {
			switch {
			case e.reserved:
			case e.wh:
				if pathIsOrUnder(rel, e.target) {
					named = true
				}
			case e.opq:
				if e.target == "." || strings.HasPrefix(rel, e.target+"/") {
					named = true
				}
			default:
				if pathIsOrUnder(rel, e.name) {
					named = true
				}
			}
		}
		if !named && kindAfter[q] == "" {
			probs = append(probs, Problem{Kind: "oracle", Stream: "extract",
				Msg: fmt.Sprintf("C06: %q existed before the layer was applied and is gone, although no entry, whiteout or opaque marker of the layer names it or anything above it", rel)})
			return probs
		}
	}
	return probs
}
