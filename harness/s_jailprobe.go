package main

import (
	"archive/tar"
	"bytes"
	"encoding/json"
	"fmt"
	"io"
	"os"
	"runtime"
	"sort"
	"strings"
	"sync"
	"sync/atomic"
	"time"

	"golang.org/x/sys/unix"

	archive "github.com/moby/go-archive"
	"github.com/moby/go-archive/chrootarchive"
)

// "jailprobe": a handful of deterministic probes of the jail's set-up in mount layouts the random streams do
// not build — each one came out of a seeded change that only shows there:
//
//	shared   the root lies on a shared mount: nothing the jailed thread mounts may propagate back (C13-m5)
//	nested   an unrelated shared mount with a mount nested in it: the detach of the old root must not take the
//	         host's mounts with it (C01-m7)
//	slash    the root is "/" itself: the call must not change the working directory or umask the rest of the
//	         process sees (C13-m7)
//	readonly the root lies on a read-only mount and the include list climbs with "..": either the call
//	         refuses, or what it archives comes from inside the root (C07-m7)
func init() {
	subcmds["jailprobe"] = runJailProbe
	jobKinds["jailprobe"] = runJailProbeJob
}

type jailProbeOut struct {
	Ran      []string `json:"ran"`
	Skipped  []string `json:"skipped"`
	Problems []string `json:"problems"`
}

func jpMountLines() []string {
	l, _ := thrMountLines()
	return l
}

func jpDiff(before, after []string) string {
	cnt := map[string]int{}
	for _, l := range before {
		cnt[l]--
	}
	for _, l := range after {
		cnt[l]++
	}
	var d []string
	for l, n := range cnt {
		if n != 0 {
			d = append(d, fmt.Sprintf("%+d %s", n, l))
		}
	}
	sort.Strings(d)
	return strings.Join(d, "; ")
}

func jpSmallTar() []byte {
	var buf bytes.Buffer
	tw := tar.NewWriter(&buf)
	_ = tw.WriteHeader(&tar.Header{Name: "d/", Typeflag: tar.TypeDir, Mode: 0o755})
	_ = tw.WriteHeader(&tar.Header{Name: "d/f", Typeflag: tar.TypeReg, Mode: 0o644, Size: 1})
	_, _ = tw.Write([]byte("y"))
	_ = tw.Close()
	return buf.Bytes()
}

func jpUnmountAll(top string) {
	for i := 0; i < 8; i++ {
		if unix.Unmount(top, unix.MNT_DETACH) != nil {
			break
		}
	}
}

func runJailProbeJob(j *Job, res *JobResult) {
	out := &jailProbeOut{}
	defer func() {
		b, _ := json.Marshal(out)
		res.Extra = string(b)
		res.Out = "ok"
	}()
	if err := resetWorld(); err != nil {
		res.Err = err.Error()
		return
	}
	skip := func(name string, err error) { out.Skipped = append(out.Skipped, name+": "+err.Error()) }
	prob := func(f string, a ...any) { out.Problems = append(out.Problems, fmt.Sprintf(f, a...)) }
	small := jpSmallTar()

	// ---- shared: the probe of the threads stream
	if st, leak := thrMountProbe(); strings.HasPrefix(st, "skipped") {
		out.Skipped = append(out.Skipped, "shared: "+st)
	} else {
		out.Ran = append(out.Ran, "shared")
		if leak != "" {
			prob("C13 mount-table: after chrooted untar, layer apply and tar on a root that lies on a shared mount, the mount table seen by the rest of the process differs: %s", leak)
		}
	}

	// ---- nested: a shared mount elsewhere, with a mount inside it, and a root that has nothing to do with either
	func() {
		const top = "/w/.shared2"
		_ = os.MkdirAll(top, 0o755)
		if err := unix.Mount("tmpfs", top, "tmpfs", 0, "size=4m,mode=0755"); err != nil {
			skip("nested", err)
			return
		}
		defer jpUnmountAll(top)
		if err := unix.Mount("", top, "", unix.MS_SHARED, ""); err != nil {
			skip("nested", err)
			return
		}
		_ = os.MkdirAll(top+"/inner", 0o755)
		if err := unix.Mount("tmpfs", top+"/inner", "tmpfs", 0, "size=1m,mode=0755"); err != nil {
			skip("nested", err)
			return
		}
		_ = os.WriteFile(top+"/inner/victim", []byte("v"), 0o644)
		root := "/w/.jroot"
		_ = os.MkdirAll(root, 0o755)
		before := jpMountLines()
		if err := chrootarchive.UntarUncompressed(bytes.NewReader(small), root, nil); err != nil {
			skip("nested", fmt.Errorf("untar: %v", err))
			return
		}
		if _, err := chrootarchive.ApplyUncompressedLayer(root, bytes.NewReader(small), nil); err != nil {
			skip("nested", fmt.Errorf("layer: %v", err))
			return
		}
		out.Ran = append(out.Ran, "nested")
		if d := jpDiff(before, jpMountLines()); d != "" {
			prob("C01 host mounts: a chrooted extraction into %s changed the mount table of the rest of the process (a shared mount with a nested mount exists elsewhere): %s", root, d)
		}
		if _, err := os.Stat(top + "/inner/victim"); err != nil {
			prob("C01 host mounts: after a chrooted extraction into %s the file %s/inner/victim, on a mount outside the root, is gone: %v", root, top, err)
		}
	}()

	// ---- slash: the root is "/"
	func() {
		home := "/w/.cwd"
		_ = os.MkdirAll(home, 0o755)
		_ = os.MkdirAll("/w/.src/sub", 0o755)
		_ = os.WriteFile("/w/.src/sub/f", []byte("x"), 0o644)
		if err := os.Chdir(home); err != nil {
			skip("slash", err)
			return
		}
		defer os.Chdir("/")
		oldMask := unix.Umask(0o027)
		defer unix.Umask(oldMask)
		cwd0, _ := os.Readlink("/proc/self/cwd")
		rc, err := chrootarchive.Tar("/w/.src", &archive.TarOptions{}, "/")
		if err != nil {
			skip("slash", fmt.Errorf("tar with root /: %v", err))
			return
		}
		_, _ = io.Copy(io.Discard, rc)
		rc.Close()
		out.Ran = append(out.Ran, "slash")
		cwd1, _ := os.Readlink("/proc/self/cwd")
		m := unix.Umask(0o027)
		if cwd1 != cwd0 {
			prob("C13 working directory: a chrooted tar whose root is \"/\" changed the working directory of the process from %s to %s", cwd0, cwd1)
		}
		if m != 0o027 {
			prob("C13 umask: a chrooted tar whose root is \"/\" changed the umask of the calling thread from 027 to %03o", m)
		}
	}()

	// ---- readonly: the root is on a read-only mount; the include climbs out with ".."
	func() {
		const top = "/w/.ro"
		_ = os.MkdirAll(top, 0o755)
		if err := unix.Mount("tmpfs", top, "tmpfs", 0, "size=4m,mode=0755"); err != nil {
			skip("readonly", err)
			return
		}
		defer jpUnmountAll(top)
		_ = os.MkdirAll(top+"/root/sub", 0o755)
		_ = os.WriteFile(top+"/root/sub/in", []byte("inside"), 0o644)
		_ = os.MkdirAll("/w/.rocanary", 0o755)
		_ = os.WriteFile("/w/.rocanary/secret", []byte("CANARY-outside-the-readonly-root"), 0o644)
		_ = os.Symlink("../../../../w/.rocanary", top+"/root/sub/up")
		// a second mount of the same file system whose own flag stays read-write: it is read-only only as long as
		// the file system is
		_ = os.MkdirAll(top+"2", 0o755)
		if err := unix.Mount(top, top+"2", "", unix.MS_BIND, ""); err == nil {
			defer jpUnmountAll(top + "2")
		}
		if err := unix.Mount("", top, "", unix.MS_REMOUNT|unix.MS_RDONLY, ""); err != nil {
			skip("readonly", err)
			return
		}
		out.Ran = append(out.Ran, "readonly")
		for _, inc := range [][]string{{"sub/../../../w/.rocanary/secret"}, {"sub/../../../../w/.rocanary"}, {"sub/up/secret"}, {"sub"}} {
			rc, err := chrootarchive.Tar(top+"/root", &archive.TarOptions{IncludeFiles: inc}, top+"/root")
			if err != nil {
				continue // refusing is fine
			}
			b, _ := io.ReadAll(rc)
			rc.Close()
			if bytes.Contains(b, []byte("CANARY-outside")) || bytes.Contains(b, []byte(".rocanary/secret")) {
				prob("C07 read-only root: chrooted tar of %s/root (on a read-only mount) with include %q archived the name or content of /w/.rocanary/secret, which lies outside the root", top, inc)
				break
			}
		}
		// the calls above and an extraction attempt must leave the mount as read-only as it was, for everybody
		_ = chrootarchive.UntarUncompressed(bytes.NewReader(small), top+"/root", nil)
		if err := os.WriteFile(top+"/root/jp-written-after", []byte("x"), 0o644); err == nil {
			prob("C13 read-only root: after chrooted tar/untar calls on a root that lies on a read-only mount (%s) the rest of the process can write to that mount: it is no longer read-only", top)
		}
		if err := os.WriteFile(top+"2/root/jp-written-after", []byte("x"), 0o644); err == nil {
			prob("C13 read-only root: after chrooted tar/untar calls on a root that lies on a read-only file system (%s) the rest of the process can write to it through its other mount %s2: the file system is no longer read-only", top, top)
		}
		if mi, err := os.ReadFile("/proc/self/mountinfo"); err == nil {
			for _, l := range strings.Split(string(mi), "\n") {
				f := strings.Fields(l)
				if len(f) < 7 || f[4] != top {
					continue
				}
				super := f[len(f)-1]
				if !strings.HasPrefix(f[5], "ro") || !(super == "ro" || strings.HasPrefix(super, "ro,")) {
					prob("C13 read-only root: the mount %s was read-only before the chrooted calls; its options are now %q, those of its file system %q", top, f[5], super)
				}
			}
		}
	}()
	// ---- mountroot: the root is itself a mount point (a volume, a tmpfs): the jail is still a jail — an archive
	//      that reaches for "/" through a link of its own lands inside the root, not in the process's "/"
	func() {
		const top = "/w/.mr"
		_ = os.MkdirAll(top, 0o755)
		if err := unix.Mount("tmpfs", top, "tmpfs", 0, "size=4m,mode=0755"); err != nil {
			skip("mountroot", err)
			return
		}
		defer jpUnmountAll(top)
		defer os.Remove("/jp-mr-canary")
		var buf bytes.Buffer
		tw := tar.NewWriter(&buf)
		_ = tw.WriteHeader(&tar.Header{Name: "esc", Typeflag: tar.TypeSymlink, Linkname: "/", Mode: 0o777})
		_ = tw.WriteHeader(&tar.Header{Name: "esc/jp-mr-canary", Typeflag: tar.TypeReg, Mode: 0o644, Size: 1})
		_, _ = tw.Write([]byte("z"))
		_ = tw.Close()
		out.Ran = append(out.Ran, "mountroot")
		for _, call := range []string{"untar", "layer"} {
			var err error
			if call == "untar" {
				err = chrootarchive.UntarUncompressed(bytes.NewReader(buf.Bytes()), top, nil)
			} else {
				_, err = chrootarchive.ApplyUncompressedLayer(top, bytes.NewReader(buf.Bytes()), nil)
			}
			if _, e := os.Lstat("/jp-mr-canary"); e == nil {
				prob("C01 mount-point root: chrooted %s into %s (a mount point; result %v) of an archive with a link esc -> / and a file esc/jp-mr-canary created /jp-mr-canary in the process's own root, outside the jail", call, top, err)
				os.Remove("/jp-mr-canary")
				break
			}
			os.Remove(top + "/jp-mr-canary")
			os.Remove(top + "/esc")
		}
	}()
	// ---- busyfile: the destination holds a bind-mounted regular file at an entry's path (a container's /etc/hosts):
	//      the plain extraction either fails, or the file holds exactly the entry's bytes afterwards
	func() {
		const top = "/w/.busy"
		_ = os.MkdirAll(top+"/dest", 0o755)
		old := bytes.Repeat([]byte("old-content-of-the-mounted-file\n"), 10)
		_ = os.WriteFile(top+"/mounted", old, 0o644)
		_ = os.WriteFile(top+"/dest/hosts", nil, 0o644)
		if err := unix.Mount(top+"/mounted", top+"/dest/hosts", "", unix.MS_BIND, ""); err != nil {
			skip("busyfile", err)
			return
		}
		defer unix.Unmount(top+"/dest/hosts", unix.MNT_DETACH)
		out.Ran = append(out.Ran, "busyfile")
		fresh := []byte("127.0.0.1 localhost\n")
		for _, call := range []string{"untar", "layer"} {
			var buf bytes.Buffer
			tw := tar.NewWriter(&buf)
			_ = tw.WriteHeader(&tar.Header{Name: "hosts", Typeflag: tar.TypeReg, Mode: 0o644, Size: int64(len(fresh))})
			_, _ = tw.Write(fresh)
			_ = tw.Close()
			var err error
			if call == "untar" {
				err = archive.Untar(bytes.NewReader(buf.Bytes()), top+"/dest", nil)
			} else {
				_, err = archive.ApplyUncompressedLayer(top+"/dest", bytes.NewReader(buf.Bytes()), nil)
			}
			got, _ := os.ReadFile(top + "/dest/hosts")
			if err == nil && !bytes.Equal(got, fresh) {
				prob("C20 busy file: plain %s of a %d-byte file \"hosts\" over a bind-mounted file of %d bytes reported success, and the file now holds %d bytes (%q…): the entry is not what the path holds", call, len(fresh), len(old), len(got), string(got[:min(len(got), 40)]))
				break
			}
			_ = os.WriteFile(top+"/mounted", old, 0o644)
		}
	}()
	// ---- bigdir: a layer that whites out (or replaces) a directory with many entries — whatever does the removing does
	//      it inside the jail: the arena's own objects at the same absolute paths stay
	func() {
		const root = "/w/.big/root"
		_ = os.MkdirAll(root+"/jpbig/sub", 0o755)
		_ = os.MkdirAll("/jpbig/sub", 0o755)
		defer os.RemoveAll("/jpbig")
		for i := 0; i < 700; i++ {
			n := fmt.Sprintf("f%04d", i)
			_ = os.WriteFile(root+"/jpbig/"+n, []byte("in"), 0o644)
			_ = os.WriteFile("/jpbig/"+n, []byte("host"), 0o644)
		}
		for i := 0; i < 20; i++ {
			n := fmt.Sprintf("g%02d", i)
			_ = os.WriteFile(root+"/jpbig/sub/"+n, []byte("in"), 0o644)
			_ = os.WriteFile("/jpbig/sub/"+n, []byte("host"), 0o644)
		}
		before, err := scanWorld("/jpbig")
		if err != nil {
			skip("bigdir", err)
			return
		}
		out.Ran = append(out.Ran, "bigdir")
		for _, variant := range []string{"whiteout", "replace", "opaque"} {
			var buf bytes.Buffer
			tw := tar.NewWriter(&buf)
			switch variant {
			case "whiteout":
				_ = tw.WriteHeader(&tar.Header{Name: ".wh.jpbig", Typeflag: tar.TypeReg, Mode: 0o644})
			case "replace":
				_ = tw.WriteHeader(&tar.Header{Name: "jpbig", Typeflag: tar.TypeReg, Mode: 0o644, Size: 1})
				_, _ = tw.Write([]byte("r"))
			default:
				_ = tw.WriteHeader(&tar.Header{Name: "jpbig/", Typeflag: tar.TypeDir, Mode: 0o755})
				_ = tw.WriteHeader(&tar.Header{Name: "jpbig/.wh..wh..opq", Typeflag: tar.TypeReg, Mode: 0o644})
			}
			_ = tw.Close()
			_, aerr := chrootarchive.ApplyUncompressedLayer(root, bytes.NewReader(buf.Bytes()), nil)
			time.Sleep(50 * time.Millisecond) // stragglers of a removal that was handed to other goroutines
			after, err := scanWorld("/jpbig")
			if err != nil || renderTree(before) != renderTree(after) {
				prob("C01 large directory: a chrooted layer apply (%s of a directory with 700 entries under the root %s; result %v) changed /jpbig, the directory of the same absolute name outside the root%s", variant, root, aerr, twinDiff(renderTree(before), after))
				break
			}
			// put the inside back for the next variant
			_ = os.RemoveAll(root + "/jpbig")
			_ = os.MkdirAll(root+"/jpbig/sub", 0o755)
			for i := 0; i < 700; i++ {
				_ = os.WriteFile(root+"/jpbig/"+fmt.Sprintf("f%04d", i), []byte("in"), 0o644)
			}
		}
	}()
	// ---- deeproot: a root whose path is longer than PATH_MAX components allow in one go: the calls may refuse it, the
	//      working directory the rest of the process sees stays what it was while they run
	func() {
		comp := strings.Repeat("d", 200)
		deep := "/w/.deep"
		_ = os.MkdirAll(deep, 0o755)
		cwd0, _ := os.Getwd()
		if err := os.Chdir(deep); err != nil {
			skip("deeproot", err)
			return
		}
		made := true
		for i := 0; i < 22 && made; i++ { // 22 * 201 > 4096
			if err := os.Mkdir(comp, 0o755); err != nil {
				made = false
				break
			}
			if err := os.Chdir(comp); err != nil {
				made = false
			}
			deep += "/" + comp
		}
		_ = os.Chdir(cwd0)
		if !made {
			skip("deeproot", fmt.Errorf("could not build a %d-byte path", len(deep)))
			return
		}
		out.Ran = append(out.Ran, "deeproot")
		var stop atomic.Bool
		var seen atomic.Value
		done := make(chan struct{})
		go func() {
			defer close(done)
			runtime.LockOSThread()
			defer runtime.UnlockOSThread()
			for !stop.Load() {
				if d, err := os.Getwd(); err == nil && d != cwd0 {
					seen.Store(d)
				} else if err != nil {
					seen.Store("getwd: " + err.Error())
				}
				time.Sleep(100 * time.Microsecond)
			}
		}()
		for i := 0; i < 5; i++ {
			_ = chrootarchive.UntarUncompressed(bytes.NewReader(small), deep, nil)
			_, _ = chrootarchive.ApplyUncompressedLayer(deep, bytes.NewReader(small), nil)
		}
		stop.Store(true)
		<-done
		if v := seen.Load(); v != nil {
			s := v.(string)
			prob("C13 long root: while chrooted calls ran on a root of %d bytes, another thread saw the working directory %q…, before and after it is %s", len(deep), s[:min(len(s), 60)], cwd0)
		}
		if d, _ := os.Getwd(); d != cwd0 {
			prob("C13 long root: after chrooted calls on a root of %d bytes the working directory of the process is no longer %s", len(deep), cwd0)
			_ = os.Chdir(cwd0)
		}
	}()
	// ---- busydir: an opaque marker (or a whiteout) over a directory that holds something the kernel refuses to remove
	//      (a mount point): the layer apply reports the refusal, or the thing is gone
	func() {
		const top = "/w/.busyd"
		_ = os.MkdirAll(top+"/dest/d/sub", 0o755)
		_ = os.WriteFile(top+"/dest/d/plain", []byte("p"), 0o644)
		if err := unix.Mount("tmpfs", top+"/dest/d/sub", "tmpfs", 0, "size=1m"); err != nil {
			skip("busydir", err)
			return
		}
		defer unix.Unmount(top+"/dest/d/sub", unix.MNT_DETACH)
		_ = os.WriteFile(top+"/dest/d/sub/old", []byte("o"), 0o644)
		out.Ran = append(out.Ran, "busydir")
		for _, variant := range []string{"opaque", "whiteout"} {
			var buf bytes.Buffer
			tw := tar.NewWriter(&buf)
			if variant == "opaque" {
				_ = tw.WriteHeader(&tar.Header{Name: "d/", Typeflag: tar.TypeDir, Mode: 0o755})
				_ = tw.WriteHeader(&tar.Header{Name: "d/.wh..wh..opq", Typeflag: tar.TypeReg, Mode: 0o644})
			} else {
				_ = tw.WriteHeader(&tar.Header{Name: "d/.wh.sub", Typeflag: tar.TypeReg, Mode: 0o644})
			}
			_ = tw.Close()
			_, err := archive.ApplyUncompressedLayer(top+"/dest", bytes.NewReader(buf.Bytes()), nil)
			_, serr := os.Lstat(top + "/dest/d/sub")
			if err == nil && serr == nil {
				prob("C20 busy directory: a layer with %s for a directory that holds a mount point (d/sub) reported success, and d/sub is still there: a removal was refused and the refusal was not reported", map[string]string{"opaque": "an opaque marker in its parent", "whiteout": "a whiteout"}[variant])
				break
			}
		}
	}()
	// ---- twiceclosed: a chrooted tar stream closed twice (a deferred Close after an explicit one), then two chrooted tar
	//      streams on other roots open at the same time: each gives what it gives alone
	func() {
		mk := func(root string, names ...string) {
			_ = os.MkdirAll(root+"/src", 0o755)
			for _, n := range names {
				_ = os.WriteFile(root+"/src/"+n, []byte(strings.Repeat(n, 3000)), 0o644)
			}
		}
		mk("/w/.dc/A", "a1", "a2")
		mk("/w/.dc/B", "b1", "b2", "b3")
		mk("/w/.dc/C", "c1")
		list := func(rc io.ReadCloser) string {
			var ns []string
			tr := tar.NewReader(rc)
			for {
				h, err := tr.Next()
				if err != nil {
					break
				}
				ns = append(ns, h.Name)
			}
			return strings.Join(ns, " ")
		}
		solo := func(root string) (string, error) {
			rc, err := chrootarchive.Tar(root+"/src", nil, root)
			if err != nil {
				return "", err
			}
			defer rc.Close()
			return list(rc), nil
		}
		wantB, err1 := solo("/w/.dc/B")
		wantC, err2 := solo("/w/.dc/C")
		if err1 != nil || err2 != nil {
			skip("twiceclosed", fmt.Errorf("%v %v", err1, err2))
			return
		}
		out.Ran = append(out.Ran, "twiceclosed")
		for round := 0; round < 3; round++ {
			if rc, err := chrootarchive.Tar("/w/.dc/A/src", nil, "/w/.dc/A"); err == nil {
				_ = list(rc)
				_ = rc.Close()
				_ = rc.Close()
			}
			rcB, eB := chrootarchive.Tar("/w/.dc/B/src", nil, "/w/.dc/B")
			rcC, eC := chrootarchive.Tar("/w/.dc/C/src", nil, "/w/.dc/C")
			if eB != nil || eC != nil {
				continue
			}
			var gotB, gotC string
			var wg sync.WaitGroup
			wg.Add(2)
			go func() { defer wg.Done(); gotB = list(rcB) }()
			go func() { defer wg.Done(); gotC = list(rcC) }()
			wg.Wait()
			rcB.Close()
			rcC.Close()
			if gotB != wantB || gotC != wantC {
				prob("C13/C18 independence: after a chrooted tar stream was closed twice, two chrooted tar streams on other roots open at the same time gave [%s] and [%s]; alone they give [%s] and [%s]", gotB, gotC, wantB, wantC)
				break
			}
		}
	}()
	// ---- procdir: a root that has a directory named proc and a link into /proc/self/root: inside the jail that link
	//      leads nowhere (nothing is mounted there), so nothing from outside the root can be archived through it
	func() {
		const root = "/w/.pj/root"
		_ = os.MkdirAll(root+"/proc", 0o755)
		_ = os.MkdirAll(root+"/sub", 0o755)
		_ = os.WriteFile(root+"/sub/in", []byte("inside"), 0o644)
		_ = os.MkdirAll("/w/.pjcanary", 0o755)
		_ = os.WriteFile("/w/.pjcanary/secret", []byte("CANARY-through-proc-self-root"), 0o644)
		_ = os.Symlink("/proc/self/root/w/.pjcanary", root+"/esc")
		_ = os.Symlink("../proc/self/root/w/.pjcanary/secret", root+"/sub/rel")
		out.Ran = append(out.Ran, "procdir")
		for _, v := range []struct {
			src string
			inc []string
		}{{root, []string{"esc/secret"}}, {root, []string{"proc/self/root/w/.pjcanary/secret"}}, {root + "/esc", nil}, {root, []string{"sub/rel"}}, {root, nil}} {
			rc, err := chrootarchive.Tar(v.src, &archive.TarOptions{IncludeFiles: v.inc}, root)
			if err != nil {
				continue
			}
			b, _ := io.ReadAll(rc)
			rc.Close()
			if bytes.Contains(b, []byte("CANARY-through-proc")) {
				prob("C07 proc in the root: chrooted tar of %s (include %q, root %s, which has a directory named proc) archived the content of /w/.pjcanary/secret, which lies outside the root", v.src, v.inc, root)
				break
			}
		}
		// and nothing stays mounted on the root's proc directory for the rest of the process
		if mi, err := os.ReadFile("/proc/self/mountinfo"); err == nil && strings.Contains(string(mi), " "+root+"/proc ") {
			prob("C13 proc in the root: after chrooted tar calls something is mounted on %s/proc in the mount table of the rest of the process", root)
		}
	}()
	// ---- nilopts: calls with nil options are independent of each other (nothing a call writes into "its"
	//      options may be visible to the next call)
	func() {
		_ = os.MkdirAll("/w/.n/root1/src/sub", 0o755)
		_ = os.WriteFile("/w/.n/root1/src/a", []byte("a"), 0o644)
		_ = os.WriteFile("/w/.n/root1/src/sub/b", []byte("b"), 0o644)
		_ = os.MkdirAll("/w/.n/root2", 0o755)
		_ = os.WriteFile("/w/.n/root2/single", []byte("s"), 0o644)
		names := func() (string, error) {
			rc, err := chrootarchive.Tar("/w/.n/root1/src", nil, "/w/.n/root1")
			if err != nil {
				return "", err
			}
			defer rc.Close()
			var ns []string
			tr := tar.NewReader(rc)
			for {
				h, err := tr.Next()
				if err != nil {
					break
				}
				ns = append(ns, h.Name)
			}
			return strings.Join(ns, " "), nil
		}
		a, err := names()
		if err != nil {
			skip("nilopts", err)
			return
		}
		if rc, err := chrootarchive.Tar("/w/.n/root2/single", nil, "/w/.n/root2"); err == nil {
			_, _ = io.Copy(io.Discard, rc)
			rc.Close()
		}
		_ = chrootarchive.UntarUncompressed(bytes.NewReader(small), "/w/.n/root2", nil)
		_, _ = chrootarchive.ApplyUncompressedLayer("/w/.n/root2", bytes.NewReader(small), nil)
		b, err := names()
		out.Ran = append(out.Ran, "nilopts")
		if err != nil || a != b {
			prob("C18 independence: chrooted tar of a directory with nil options gave entries [%s]; after an unrelated chrooted tar of a single file, an untar and a layer apply — all with nil options, on another root — the same call gives [%s] (error %v)", a, b, err)
		}
	}()
	// ---- relative: a root given relative to the working directory is that directory's child, not "/"'s
	func() {
		_ = os.MkdirAll("/w/.rel/jail", 0o755)
		_ = os.MkdirAll("/jail/d", 0o755) // the arena's own "/jail": what "/"+root would name
		_ = os.WriteFile("/jail/d/victim", []byte("v"), 0o644)
		defer os.RemoveAll("/jail")
		if err := os.Chdir("/w/.rel"); err != nil {
			skip("relative", err)
			return
		}
		defer os.Chdir("/")
		before, _ := scanWorld("/jail")
		err1 := chrootarchive.UntarUncompressed(bytes.NewReader(small), "jail", nil)
		err2 := chrootarchive.UntarWithRoot(bytes.NewReader(small), "jail", nil, "jail")
		out.Ran = append(out.Ran, "relative")
		after, _ := scanWorld("/jail")
		if renderTree(before) != renderTree(after) {
			prob("C01 relative root: chrooted untar with the relative root \"jail\" (working directory /w/.rel; results %v, %v) changed /jail, a directory outside the chosen root%s", err1, err2, twinDiff(renderTree(before), after))
		}
	}()

	// ---- pending: chrooted tar streams that nobody reads yet must not keep other chrooted calls from running
	func() {
		oldp := runtime.GOMAXPROCS(2)
		defer runtime.GOMAXPROCS(oldp)
		var open []io.ReadCloser
		var mu sync.Mutex
		opened := make(chan error, 8)
		for i := 0; i < 8; i++ {
			r := fmt.Sprintf("/w/.p/r%d", i)
			_ = os.MkdirAll(r+"/src", 0o755)
			_ = os.WriteFile(r+"/src/big", bytes.Repeat([]byte("p"), 300000), 0o644)
			go func() {
				rc, err := chrootarchive.Tar(r+"/src", nil, r)
				if err == nil {
					mu.Lock()
					open = append(open, rc)
					mu.Unlock()
				}
				opened <- err
			}()
		}
		drainAll := func() {
			mu.Lock()
			defer mu.Unlock()
			for _, rc := range open {
				go func(rc io.ReadCloser) { _, _ = io.Copy(io.Discard, rc); rc.Close() }(rc)
			}
			open = nil
		}
		for i := 0; i < 8; i++ {
			select {
			case err := <-opened:
				if err != nil {
					skip("pending", err)
					drainAll()
					return
				}
			case <-time.After(20 * time.Second):
				out.Ran = append(out.Ran, "pending")
				prob("C13/C18 independence: opening 8 chrooted tar streams on distinct roots (GOMAXPROCS=2, nothing read yet): the call for stream %d did not return within 20 s — a call that hands out a stream must not wait for other streams to be read", i+1)
				drainAll()
				time.Sleep(500 * time.Millisecond)
				drainAll()
				return
			}
		}
		_ = os.MkdirAll("/w/.p/other", 0o755)
		done := make(chan error, 1)
		go func() { done <- chrootarchive.UntarUncompressed(bytes.NewReader(small), "/w/.p/other", nil) }()
		out.Ran = append(out.Ran, "pending")
		select {
		case <-done:
		case <-time.After(20 * time.Second):
			prob("C13/C18 independence: with 8 chrooted tar streams open and not yet read (GOMAXPROCS=2), a chrooted untar on an unrelated root did not finish within 20 s — alone it finishes at once")
		}
		drainAll()
		select {
		case <-done:
		case <-time.After(5 * time.Second):
		}
		time.Sleep(200 * time.Millisecond)
	}()
	_ = resetWorld()
}

func runJailProbe(cfg *Config) *Result {
	res := newResult("deterministic probes of the jail's set-up in four mount layouts (root on a shared mount; an unrelated shared mount with a nested mount; root = \"/\"; root on a read-only mount with includes that climb); non-trivial = every probe that ran")
	results := runArena(cfg, []Job{{ID: 0, Kind: "jailprobe"}}, 60*time.Second)
	jr := results[0]
	if jr.Out == "hang" || jr.Out == "panic" {
		res.Evaluations++
		res.problem(Problem{Kind: "oracle", Stream: "jailprobe", Case: "jailprobe", Msg: "C13/C19: the jail probes (chrooted tar, untar, layer apply in seven mount and option layouts) ended in a " + jr.Out + ": " + jr.Err})
		return res
	}
	if jr.ID < 0 || jr.Out != "ok" {
		res.SetupError = "jailprobe: " + jr.Out + " " + jr.Err
		return res
	}
	var out jailProbeOut
	if err := json.Unmarshal([]byte(jr.Extra), &out); err != nil {
		res.SetupError = "jailprobe: unreadable result"
		return res
	}
	for _, r := range out.Ran {
		res.Evaluations++
		res.Compared++
		res.count("ran:" + r)
		res.nontrivial("jailprobe " + r)
	}
	for _, s := range out.Skipped {
		res.count("skipped:" + strings.SplitN(s, ":", 2)[0])
		res.Notes = append(res.Notes, "skipped "+s)
	}
	for _, p := range out.Problems {
		res.problem(Problem{Kind: "oracle", Stream: "jailprobe", Case: "jailprobe", Msg: p})
	}
	jpNocapProbe(res)
	if res.Evaluations == 0 {
		res.SetupError = "jailprobe: no probe could run: " + strings.Join(out.Skipped, "; ")
	}
	return res
}
