package main

// Stream "streams" (property C17), arena-child side: run one case at a time against the real library.

import (
	"archive/tar"
	"bytes"
	"compress/gzip"
	"encoding/json"
	"errors"
	"fmt"
	"io"
	"os"
	"os/exec"
	"path/filepath"
	"runtime"
	"runtime/debug"
	"strings"
	"sync"
	"sync/atomic"
	"time"

	"github.com/klauspost/compress/zstd"
	"github.com/sirupsen/logrus"
	"golang.org/x/sys/unix"

	archive "github.com/moby/go-archive"
	"github.com/moby/go-archive/chrootarchive"
	"github.com/moby/go-archive/compression"
	"github.com/moby/sys/user"
)

func init() { jobKinds["streams"] = runStreamsJob }

const (
	stCaseDeadline = 20 * time.Second
	stSettleCeil   = 10 * time.Second
)

var (
	stInitOnce  sync.Once
	stInitErr   string
	stCurTree   string // JSON of the tree currently in /w/src ("" = none / dirty)
	stFullMount bool
	stDryCache  = map[string]stDryInfo{}
	stBlobCache = map[string][]byte{}
)

type stDryInfo struct {
	Total      int64
	VictimBody int64 // offset of the victim's body (0 = not found)
}

var stSinceGC int64
var stBadCases int

func stChildInit() {
	logrus.SetOutput(io.Discard)
	debug.SetGCPercent(-1)
	for _, b := range []string{"xz", "bzip2", "unpigz"} {
		if _, err := exec.LookPath(b); err != nil {
			stInitErr = "helper binary missing in arena: " + b
			return
		}
	}
	// warm up the runtime (netpoller fds, exec machinery) before any baseline is taken
	for i := 0; i < 2; i++ {
		if out, err := exec.Command("xz", "--version").CombinedOutput(); err != nil {
			stInitErr = fmt.Sprintf("xz --version: %v %s", err, out)
			return
		}
	}
	r, w, err := os.Pipe()
	if err == nil {
		go func() { w.Write([]byte("x")); w.Close() }()
		io.ReadAll(r)
		r.Close()
	}
}

func runStreamsJob(j *Job, res *JobResult) {
	stInitOnce.Do(stChildInit)
	if stInitErr != "" {
		res.Out, res.Err = "setup", stInitErr
		return
	}
	var cases []stCase
	if len(j.Args) < 1 || json.Unmarshal([]byte(j.Args[0]), &cases) != nil {
		res.Out, res.Err = "setup", "bad streams job"
		return
	}
	var outs []stOut
	for i := range cases {
		c := &cases[i]
		if stBadCases >= 3 { // per child process: a pervasive regression must not cost a deadline per case
			outs = append(outs, stOut{I: c.I, Skip: "after-problems"})
			continue
		}
		t0 := time.Now()
		o := stOut{I: c.I}
		stRunCase(c, &o)
		o.Ms = time.Since(t0).Milliseconds()
		// The collector is off while a case and its census run (a finalizer closing a leaked *os.File would
		// hide the leak); collect between cases instead.
		stSinceGC += o.Bytes + 1<<16
		if stSinceGC > 8<<20 {
			runtime.GC()
			stSinceGC = 0
		}
		for _, p := range o.P {
			if p.Sig == "" {
				stBadCases++
				break
			}
		}
		outs = append(outs, o)
		if o.Setup != "" {
			break
		}
	}
	stUnmountFull()
	b, _ := json.Marshal(outs)
	res.Out, res.Extra = "ok", string(b)
}

func stUnmountFull() {
	if stFullMount {
		_ = unix.Unmount("/w/full", unix.MNT_DETACH)
		stFullMount = false
	}
}

func stEnsureTree(t stTree) error {
	b, _ := json.Marshal(t)
	if stCurTree == string(b) {
		return nil
	}
	stCurTree = ""
	stUnmountFull()
	if err := resetWorld(); err != nil {
		return err
	}
	if err := stBuildTree(t); err != nil {
		return err
	}
	stCurTree = string(b)
	return nil
}

func stRunCase(c *stCase, o *stOut) {
	if err := stEnsureTree(c.Tree); err != nil {
		o.Setup = "build tree: " + err.Error()
		return
	}
	if c.Copy != nil {
		stRunCopy(c, o)
		return
	}
	if c.Prod == nil || c.Cons == nil {
		o.Setup = "empty case"
		return
	}
	info := stDryInfo{}
	if c.Cons.K < 0 {
		var ok bool
		if info, ok = stDry(c, o); !ok {
			return
		}
	}
	stRunStreamInfo(c, o, info, nil)
}

// ---- producers ----

type stStream struct {
	r        io.Reader
	closer   io.Closer
	pipe     *io.PipeReader
	after    func()         // what the caller owes afterwards (closing a live source)
	input    *stFaultReader // in-memory input handed to a rewriter / decompressor
	mustShut bool           // the producer is documented to close its input
	expect   string         // eof | err | any : how a full drain must end
}

func stTarOpts(p *stProd) *archive.TarOptions {
	o := &archive.TarOptions{IncludeSourceDir: p.SrcDir}
	o.IncludeFiles = append(o.IncludeFiles, p.Inc...)
	o.ExcludePatterns = append(o.ExcludePatterns, p.Exc...)
	if p.Rebase != nil {
		o.RebaseNames = map[string]string{}
		for k, v := range p.Rebase {
			o.RebaseNames[k] = v
		}
	}
	o.Compression = stComp(p.Comp)
	if p.IDMap {
		o.IDMap = user.IdentityMapping{UIDMaps: []user.IDMap{{ID: 0, ParentID: 0, Count: 65536}}, GIDMaps: []user.IDMap{{ID: 0, ParentID: 0, Count: 65536}}}
	}
	return o
}

func stComp(s string) compression.Compression {
	switch s {
	case "gzip":
		return compression.Gzip
	case "xz":
		return compression.Xz
	case "bzip2":
		return compression.Bzip2
	}
	return compression.None
}

func stChanges(dir string) []archive.Change {
	var out []archive.Change
	i := 0
	_ = filepath.WalkDir(dir, func(p string, d os.DirEntry, err error) error {
		if err != nil || p == dir {
			return nil
		}
		rel := p[len(dir):]
		var k archive.ChangeType = archive.ChangeAdd
		if d.IsDir() || i%7 == 0 {
			k = archive.ChangeModify
		}
		out = append(out, archive.Change{Path: rel, Kind: k})
		if i%11 == 0 {
			out = append(out, archive.Change{Path: filepath.Dir(rel) + fmt.Sprintf("/gone%d", i), Kind: archive.ChangeDelete})
		}
		i++
		return nil
	})
	out = append(out, archive.Change{Path: "/nope/missing", Kind: archive.ChangeAdd})
	// ExportChanges sorts; hand them over unsorted
	for a, b := 0, len(out)-1; a < b; a, b = a+1, b-1 {
		out[a], out[b] = out[b], out[a]
	}
	return out
}

func stBlob(format string, seed uint64, size int) ([]byte, error) {
	key := fmt.Sprintf("%s/%d/%d", format, seed, size)
	if b, ok := stBlobCache[key]; ok {
		return b, nil
	}
	pl := stPayload(seed, size)
	var out bytes.Buffer
	var err error
	switch format {
	case "none":
		out.Write(pl)
	case "gzip":
		zw := gzip.NewWriter(&out)
		zw.Write(pl)
		err = zw.Close()
	case "zstd":
		var zw *zstd.Encoder
		if zw, err = zstd.NewWriter(&out, zstd.WithEncoderConcurrency(1)); err == nil {
			zw.Write(pl)
			err = zw.Close()
		}
	case "xz", "bzip2":
		args := []string{"-c", "-1"}
		cmd := exec.Command(format, args...)
		cmd.Stdin = bytes.NewReader(pl)
		cmd.Stdout = &out
		err = cmd.Run()
	default:
		err = fmt.Errorf("unknown format %s", format)
	}
	if err != nil {
		return nil, err
	}
	if len(stBlobCache) > 64 {
		stBlobCache = map[string][]byte{}
	}
	stBlobCache[key] = out.Bytes()
	return out.Bytes(), nil
}

// stModifiers builds the modifier map and tells whether some modifier is certain to fail.
func stModifiers(specs []string) map[string]archive.TarModifierFunc {
	mods := map[string]archive.TarModifierFunc{}
	for _, s := range specs {
		i := strings.LastIndex(s, "=")
		name, act := s[:i], s[i+1:]
		switch act {
		case "replace":
			mods[name] = func(p string, h *tar.Header, content io.Reader) (*tar.Header, []byte, error) {
				if h == nil {
					return &tar.Header{Typeflag: tar.TypeReg, Name: p, Mode: 0o600}, []byte("added"), nil
				}
				return &tar.Header{Typeflag: tar.TypeReg, Name: h.Name, Mode: 0o600, ModTime: h.ModTime}, bytes.Repeat([]byte("r"), 70000), nil
			}
		case "readreplace":
			mods[name] = func(p string, h *tar.Header, content io.Reader) (*tar.Header, []byte, error) {
				if content == nil {
					return &tar.Header{Typeflag: tar.TypeReg, Name: p, Mode: 0o600}, nil, nil
				}
				b, err := io.ReadAll(content)
				if err != nil {
					return nil, nil, err
				}
				return &tar.Header{Typeflag: tar.TypeReg, Name: h.Name, Mode: 0o600, ModTime: h.ModTime}, append(b, "tail"...), nil
			}
		case "remove":
			mods[name] = func(string, *tar.Header, io.Reader) (*tar.Header, []byte, error) { return nil, nil, nil }
		case "error":
			mods[name] = func(string, *tar.Header, io.Reader) (*tar.Header, []byte, error) { return nil, nil, stErrMod }
		}
	}
	return mods
}

// stReferenceEnd replays what the rewriter will read from a faulty input with the standard library's
// tar reader alone and says how a full drain of the rewritten stream has to end.
func stReferenceEnd(data []byte, f stFault, modSpecs []string) string {
	acts := map[string]string{}
	for _, s := range modSpecs {
		i := strings.LastIndex(s, "=")
		acts[s[:i]] = s[i+1:]
	}
	tr := tar.NewReader(stNewFaultReader(data, f))
	for {
		h, err := tr.Next()
		if err == io.EOF {
			break
		}
		if err != nil {
			return "err"
		}
		if a, ok := acts[h.Name]; ok {
			delete(acts, h.Name)
			if a == "error" {
				return "err"
			}
			if a == "readreplace" {
				if _, err := io.Copy(io.Discard, tr); err != nil {
					return "err"
				}
			}
			continue
		}
		if _, err := io.Copy(io.Discard, tr); err != nil {
			return "err"
		}
	}
	for _, a := range acts {
		if a == "error" {
			return "err"
		}
	}
	return "eof"
}

// stOpen builds the stream for p. constructErr reports whether failing to construct is the expected outcome.
func stOpen(p *stProd) (s *stStream, err error, constructErr bool) {
	s = &stStream{expect: "eof"}
	set := func(rc io.ReadCloser, e error) {
		err = e
		if e == nil {
			s.r, s.closer = rc, rc
			s.pipe, _ = rc.(*io.PipeReader)
		}
	}
	switch p.Kind {
	case "tar":
		constructErr = p.Comp == "xz" || p.Comp == "bzip2"
		for _, e := range p.Exc {
			if e == "[" {
				constructErr = true
			}
		}
		set(archive.TarWithOptions(p.Src, stTarOpts(p)))
	case "tarplain":
		constructErr = p.Comp == "xz" || p.Comp == "bzip2"
		set(archive.Tar(p.Src, stComp(p.Comp)))
	case "chroottar":
		constructErr = p.Comp == "xz" || p.Comp == "bzip2"
		set(chrootarchive.Tar(p.Src, stTarOpts(p), p.Root))
	case "export":
		set(archive.ExportChanges(p.Src, stChanges(p.Src), stTarOpts(p).IDMap))
	case "resource":
		_, e := os.Lstat(p.Src)
		constructErr = e != nil
		if p.New != "" {
			set(archive.TarResourceRebase(p.Src, p.New))
		} else {
			set(archive.TarResource(archive.CopyInfo{Path: p.Src}))
		}
	case "rebase", "replace":
		var in io.ReadCloser
		if p.Input == "live" {
			live, e := archive.TarWithOptions("/w/src", &archive.TarOptions{})
			if e != nil {
				return nil, e, false
			}
			in = live
			if p.Kind == "rebase" {
				s.after = func() { live.Close() }
			}
		} else {
			data, _ := stBuildMemTar(*p.Mem)
			s.input = stNewFaultReader(data, p.Fault)
			in = s.input
			s.expect = stReferenceEnd(data, p.Fault, p.Mods)
		}
		if p.Kind == "rebase" {
			set(archive.RebaseArchiveEntries(in, p.Old, p.New), nil)
		} else {
			s.mustShut = true
			if p.Input == "live" {
				for _, m := range p.Mods {
					if strings.HasSuffix(m, "=error") {
						s.expect = "err"
					}
				}
			}
			set(archive.ReplaceFileTarWrapper(in, stModifiers(p.Mods)), nil)
		}
	case "decomp":
		format := p.Comp
		blob, e := stBlob(format, p.PSeed, p.Payload)
		if e != nil {
			return nil, fmt.Errorf("setup: %w", e), false
		}
		s.input = stNewFaultReader(blob, p.Fault)
		if s.input.faulty() {
			switch {
			case p.Fault.Kind == "fail":
				s.expect = "err"
				constructErr = s.input.limit < 10
			case format == "none":
				s.expect = "eof"
			case s.input.limit >= 10:
				s.expect = "err"
			default:
				s.expect = "any"
			}
		}
		if p.NoPigz {
			os.Setenv("MOBY_DISABLE_PIGZ", "1")
		} else {
			os.Unsetenv("MOBY_DISABLE_PIGZ")
		}
		rc, e := compression.DecompressStream(s.input)
		if e != nil && s.input.faulty() && s.expect != "eof" {
			constructErr = true // a faulty input may already be refused while the format header is read
		}
		set(rc, e)
	case "generate":
		r, e := archive.Generate(p.Pairs...)
		err = e
		s.r = r
	default:
		err = fmt.Errorf("setup: unknown producer %s", p.Kind)
	}
	return
}

// ---- consumer ----

type stProgress struct {
	phase atomic.Value
	n     atomic.Int64
}

func (p *stProgress) set(s string) { p.phase.Store(s) }
func (p *stProgress) get() string  { s, _ := p.phase.Load().(string); return s }

// stReadN reads up to k bytes (k < 0: until an error) and returns the error that ended the reading (nil when k bytes were read).
func stReadN(r io.Reader, k int64, buf []byte, pr *stProgress) error {
	var got int64
	for k < 0 || got < k {
		b := buf
		if k >= 0 && int64(len(b)) > k-got {
			b = b[:k-got]
		}
		n, err := r.Read(b)
		got += int64(n)
		pr.n.Add(int64(n))
		if err != nil {
			return err
		}
	}
	return nil
}

func stMutate(kind string) error {
	switch kind {
	case "truncate":
		return os.Truncate(stVictim, 0)
	case "shrink":
		fi, err := os.Stat(stVictim)
		if err != nil {
			return err
		}
		return os.Truncate(stVictim, fi.Size()/2+1)
	case "grow":
		f, err := os.OpenFile(stVictim, os.O_WRONLY|os.O_APPEND, 0)
		if err != nil {
			return err
		}
		_, err = f.Write(make([]byte, 100000))
		f.Close()
		return err
	case "remove":
		return os.Remove(stVictim)
	case "rmdir":
		return os.RemoveAll(stVictimDir)
	}
	return fmt.Errorf("unknown mutation %s", kind)
}

// stWithDeadline runs fn in its own goroutine; false = it did not come back in time.
func stWithDeadline(d time.Duration, fn func()) bool {
	done := make(chan struct{})
	go func() { defer close(done); fn() }()
	t := time.NewTimer(d)
	defer t.Stop()
	select {
	case <-done:
		return true
	case <-t.C:
		return false
	}
}

// stDry drains the case's producer once to learn the stream length and the victim's offset.
func stDry(c *stCase, o *stOut) (stDryInfo, bool) {
	pb, _ := json.Marshal(c.Prod)
	tb, _ := json.Marshal(c.Tree)
	key := string(tb) + string(pb)
	if v, ok := stDryCache[key]; ok {
		return v, true
	}
	dc := &stCase{Tree: c.Tree, Prod: c.Prod, Cons: &stCons{Mode: "drain", K: 0, Buf: 32768}}
	var info stDryInfo
	before, beforeC := len(o.P), len(o.C)
	stRunStreamInfo(dc, o, stDryInfo{}, &info)
	for i := beforeC; i < len(o.C); i++ {
		o.C[i] = "measure-drain:" + o.C[i]
	}
	if len(o.P) > before || o.Setup != "" {
		for i := before; i < len(o.P); i++ {
			o.P[i].Msg = "(while measuring the stream with a plain drain) " + o.P[i].Msg
		}
		return info, false
	}
	if len(stDryCache) > 256 {
		stDryCache = map[string]stDryInfo{}
	}
	stDryCache[key] = info
	return info, true
}

type stCountReader struct {
	r io.Reader
	n int64
}

func (c *stCountReader) Read(p []byte) (int, error) {
	n, err := c.r.Read(p)
	c.n += int64(n)
	return n, err
}

// stRunStreamInfo runs producer × consumer and the census. When measure != nil the stream is parsed as tar on
// the way (plain drain only) to find the victim's offset.
func stRunStreamInfo(c *stCase, o *stOut, info stDryInfo, measure *stDryInfo) {
	p, cons := c.Prod, c.Cons
	base := stBaseline()
	var s *stStream
	var openErr error
	var wantConstructErr bool
	if !stWithDeadline(stCaseDeadline, func() { s, openErr, wantConstructErr = stOpen(p) }) {
		o.probT("hang: constructing the %s stream did not return within %s", p.Kind, stCaseDeadline)
		stAbsorb()
		stCurTree = ""
		return
	}
	if openErr != nil && strings.HasPrefix(openErr.Error(), "setup:") {
		o.Setup = openErr.Error()
		return
	}
	if openErr != nil {
		o.count("end:construct-err")
		if !wantConstructErr {
			o.prob("producer %s failed to hand out a stream: %v", p.Kind, openErr)
		}
	} else {
		if wantConstructErr && p.Kind != "decomp" {
			o.prob("producer %s handed out a stream although construction had to fail", p.Kind)
		}
		if stConsume(c, s, o, info, measure) {
			return // hung: already reported, debris absorbed
		}
	}
	left, took := base.settle(stSettleCeil)
	o.count(stSettleBucket(took))
	if left != "" {
		o.probT("left behind %s after the %s stream was %s (settle ceiling %s): %s", "resources", p.Kind, cons.Mode, stSettleCeil, left)
		stAbsorb()
		stCurTree = ""
	}
	if openErr == nil && s != nil && s.input != nil && s.mustShut && s.input.closed == 0 {
		o.prob("%s did not close its input stream (consumer: %s k=%d)", p.Kind, cons.Mode, cons.K)
	}
}

func stConsume(c *stCase, s *stStream, o *stOut, info stDryInfo, measure *stDryInfo) (hung bool) {
	p, cons := c.Prod, c.Cons
	k := int64(cons.K)
	switch cons.K {
	case -1:
		k = info.Total - 1
	case -2:
		k = info.Total
	case -3:
		k = 1024
		if info.VictimBody > 0 {
			k = info.VictimBody - 1
		}
	}
	if k < 0 {
		k = 0
	}
	bufN := cons.Buf
	if bufN <= 0 {
		bufN = 32768
	}
	pr := &stProgress{}
	var endErr, mutErr error
	reached := false // the reading reached the stream's end (error or EOF)
	run := func() {
		buf := make([]byte, bufN)
		rd := s.r
		switch cons.Mode {
		case "drain":
			pr.set("read to the end")
			if measure != nil && p.Kind != "decomp" && p.Kind != "generate" && p.Comp != "gzip" {
				cr := &stCountReader{r: rd}
				tr := tar.NewReader(cr)
				for {
					h, err := tr.Next()
					if err != nil {
						break
					}
					if strings.HasSuffix(h.Name, "zz_big.bin") && h.Typeflag == tar.TypeReg {
						measure.VictimBody = cr.n
					}
				}
				pr.n.Store(cr.n)
			}
			endErr = stReadN(rd, -1, buf, pr)
			reached = true
		default:
			pr.set(fmt.Sprintf("read the first %d bytes", k))
			if err := stReadN(rd, k, buf, pr); err != nil {
				endErr, reached = err, true
			}
			if !reached && (cons.Mode == "mutdrain" || cons.Mode == "mutstop") {
				pr.set("mutate")
				mutErr = stMutate(cons.Mut)
				stCurTree = ""
				if cons.Mode == "mutdrain" {
					pr.set("read to the end after the mutation")
					endErr = stReadN(rd, -1, buf, pr)
					reached = true
				} else {
					pr.set("read on after the mutation")
					if err := stReadN(rd, int64(cons.More), buf, pr); err != nil {
						endErr, reached = err, true
					}
				}
			}
		}
		if s.closer != nil {
			if cons.CloseErr && s.pipe != nil {
				pr.set("CloseWithError")
				s.pipe.CloseWithError(stErrClose)
			} else {
				pr.set("Close")
				s.closer.Close()
			}
		}
		if s.after != nil {
			pr.set("close the live source")
			s.after()
		}
		pr.set("done")
	}
	if !stWithDeadline(stCaseDeadline, run) {
		o.probT("hang: consumer %s of the %s stream stuck in phase %q after %d bytes (deadline %s)", cons.Mode, p.Kind, pr.get(), pr.n.Load(), stCaseDeadline)
		// try to unstick the producer so that the child stays usable, then hide the debris from later cases
		stWithDeadline(2*time.Second, func() {
			if s.closer != nil {
				s.closer.Close()
			}
			if s.after != nil {
				s.after()
			}
		})
		stAbsorb()
		stCurTree = ""
		o.count("end:hang")
		return true
	}
	o.Bytes = pr.n.Load()
	if measure != nil {
		measure.Total = o.Bytes
	}
	if mutErr != nil {
		o.Setup = "mutation failed: " + mutErr.Error()
		return false
	}
	if cons.Mode == "mutdrain" && cons.K == -3 && info.VictimBody > 0 && reached {
		switch {
		case o.Bytes < info.Total:
			o.count("mut-effect:" + cons.Mut + "/stream-shorter")
		case o.Bytes == info.Total:
			o.count("mut-effect:" + cons.Mut + "/stream-same-length")
		default:
			o.count("mut-effect:" + cons.Mut + "/stream-longer")
		}
	}
	if !reached {
		o.count("end:closed-early")
		return false
	}
	switch {
	case endErr == io.EOF:
		o.count("end:eof")
	case endErr != nil:
		o.count("end:err")
	}
	if cons.Mode != "drain" && cons.Mode != "mutdrain" {
		o.count("end:short-stream")
	}
	expect := s.expect
	if cons.Mode == "mutdrain" || cons.Mode == "mutstop" {
		expect = "any"
	}
	switch expect {
	case "eof":
		if endErr != io.EOF {
			o.prob("reading the %s stream to the end gave %v instead of io.EOF after %d bytes", p.Kind, endErr, o.Bytes)
		}
	case "err":
		if endErr == nil || endErr == io.EOF {
			o.prob("the %s stream over a failing input ended with a clean end-of-stream after %d bytes instead of an error", p.Kind, o.Bytes)
		}
	}
	if p.Kind == "replace" && s.expect == "err" && p.Input == "mem" && !s.input.faulty() && !errors.Is(endErr, stErrMod) {
		o.prob("the replace stream did not end with the modifier's error but with %v", endErr)
	}
	return false
}
