package main

import (
	"bytes"
	"fmt"
	"io"
	"os"
	"strings"

	"github.com/moby/go-archive/compression"
)

// Stream "detect": the Lean model of compression.Detect and of the sniffing step of
// DecompressStream (GA/M/Compress.lean, over the regenerated magic tables) against the real functions.
func init() { subcmds["detect"] = runDetect }

func runDetect(cfg *Config) *Result {
	res := newResult("all 65536 two-byte prefixes × 3 tails, every magic with every truncation and every one-bit neighbour, skippable-frame range edges, random strings of 0..14 bytes biased to magic prefixes; non-trivial = the real Detect returns a format; distinct by input")
	rng := newRng(cfg.Seed)
	var inputs [][]byte
	if cfg.Replay != "" {
		c, err := replayCaseString(cfg.Replay)
		if err != nil {
			res.SetupError = err.Error()
			return res
		}
		inputs = append(inputs, []byte(unhx(c)))
	} else {
		tails := [][]byte{{}, {0x08, 0, 0, 0, 0, 0, 0, 0}, {0x4d, 0x18, 1, 2, 3, 4, 5, 6}}
		for a := 0; a < 256; a++ {
			for b := 0; b < 256; b++ {
				for _, t := range tails {
					inputs = append(inputs, append([]byte{byte(a), byte(b)}, t...))
				}
			}
		}
		magics := [][]byte{{0x42, 0x5A, 0x68}, {0x1F, 0x8B, 0x08}, {0xFD, 0x37, 0x7A, 0x58, 0x5A, 0x00}, {0x28, 0xb5, 0x2f, 0xfd},
			{0x50, 0x2A, 0x4D, 0x18, 0, 0, 0, 0}, {0x5F, 0x2A, 0x4D, 0x18, 9, 9, 9, 9}, {0x4F, 0x2A, 0x4D, 0x18, 0, 0, 0, 0}, {0x60, 0x2A, 0x4D, 0x18, 0, 0, 0, 0}}
		for _, m := range magics {
			for l := 0; l <= len(m); l++ {
				inputs = append(inputs, append([]byte(nil), m[:l]...))
				inputs = append(inputs, append(append([]byte(nil), m[:l]...), 1, 2, 3, 4, 5, 6, 7, 8, 9, 10))
			}
			for i := 0; i < len(m)*8; i++ {
				x := append([]byte(nil), m...)
				x[i/8] ^= 1 << (i % 8)
				inputs = append(inputs, x, append(x, 0, 0, 0, 0, 0, 0, 0, 0))
			}
		}
		n := cfg.count(20000, 400000)
		for i := 0; i < n; i++ {
			var b []byte
			if rng.chance(1, 2) {
				m := magics[rng.intn(len(magics))]
				b = append(b, m[:rng.intn(len(m)+1)]...)
			}
			for k := rng.intn(15 - len(b)); k > 0; k-- {
				b = append(b, byte(rng.intn(256)))
			}
			inputs = append(inputs, b)
		}
	}
	var lines, impl []string
	for _, in := range inputs {
		lines = append(lines, "detect "+hx(string(in)))
		d := int(compression.Detect(in))
		peek := in
		if len(peek) > 10 {
			peek = peek[:10]
		}
		impl = append(impl, fmt.Sprintf("OK %d %d", d, int(compression.Detect(peek))))
		res.count(fmt.Sprintf("format:%d", d))
		if d != 0 {
			res.nontrivial(hx(string(in)))
		}
	}
	res.Evaluations = len(lines)
	model, err := runDriver(cfg.Driver, lines)
	if err != nil {
		res.SetupError = err.Error()
		return res
	}
	for i := range lines {
		res.Compared++
		if model[i] != impl[i] {
			res.problem(Problem{Kind: "correspondence", Stream: "detect", Case: hx(string(inputs[i])), Impl: impl[i], Model: model[i], Msg: "Detect model differs"})
		}
	}
	// pass-through at every length: what is not recognised comes back unchanged (real code only)
	for l := 0; l <= 40; l++ {
		for rep := 0; rep < 4; rep++ {
			b := make([]byte, l)
			for i := range b {
				b[i] = byte('a' + rng.intn(20))
			}
			rc, err := compression.DecompressStream(bytes.NewReader(b))
			if err != nil {
				res.problem(Problem{Kind: "oracle", Stream: "detect", Case: hx(string(b)), Msg: "C16: pass-through of an unrecognised stream failed: " + err.Error()})
				continue
			}
			out, err := io.ReadAll(rc)
			rc.Close()
			res.Evaluations++
			res.count("passthrough")
			if err != nil || !bytes.Equal(out, b) {
				res.problem(Problem{Kind: "oracle", Stream: "detect", Case: hx(string(b)), Msg: fmt.Sprintf("C16: pass-through altered %d bytes (err=%v)", l, err)})
			}
		}
	}
	// short streams (below the 10-byte sniffing window) that start with a magic must still be routed
	// to their codec: the model's `sniff` says so; observable as "not handed back unchanged"
	os.Setenv("MOBY_DISABLE_PIGZ", "1")
	shorts := [][]byte{{0x28, 0xb5, 0x2f, 0xfd, 0x20, 0x00, 0x01, 0x00, 0x00}, {0x1F, 0x8B, 0x08}, {0x1F, 0x8B, 0x08, 0, 0, 0, 0, 0, 0},
		{0x42, 0x5A, 0x68, 0x39}, {0xFD, 0x37, 0x7A, 0x58, 0x5A, 0x00}, {0xFD, 0x37, 0x7A, 0x58, 0x5A, 0x00, 0, 4}, {0x28, 0xb5, 0x2f, 0xfd},
		{0x50, 0x2A, 0x4D, 0x18, 0, 0, 0, 0}, {0x28, 0xb5, 0x2f, 0xfd, 0x24, 0x00, 0x01, 0x00, 0x00}}
	for _, b := range shorts {
		res.Evaluations++
		res.count("short-compressed")
		rc, err := compression.DecompressStream(bytes.NewReader(b))
		if err != nil {
			continue // refused up front: not a pass-through
		}
		out, rerr := io.ReadAll(rc)
		rc.Close()
		if rerr == nil && bytes.Equal(out, b) {
			res.problem(Problem{Kind: "oracle", Stream: "detect", Case: hx(string(b)),
				Msg: fmt.Sprintf("C16: a %d-byte stream starting with a compression magic was passed through as if uncompressed", len(b))})
		}
	}
	os.Unsetenv("MOBY_DISABLE_PIGZ")
	res.sample(lines[0] + " => " + impl[0])
	res.sample(lines[len(lines)/2] + " => " + impl[len(lines)/2])
	res.sample(strings.Join([]string{lines[len(lines)-1], impl[len(lines)-1]}, " => "))
	return res
}
