package main

import (
	"bytes"
	"encoding/json"
	"fmt"
	"io"
	"os"
	"runtime"
	"strings"

	archive "github.com/moby/go-archive"
	"github.com/moby/go-archive/chrootarchive"
)

// "packshrink": a file under the root shrinks after the packer has looked at it (the header with the old size is
// on its way) and before its body is read — the container is still running.  Whatever the packer does about the
// missing bytes (fail, as the pinned code does, or pad), the stream must not carry bytes that come from anywhere
// else: before the chrooted tar, a plain tar of a directory OUTSIDE the root runs in the same process, so that
// pooled buffers hold outside content.
func init() { jobKinds["packshrink"] = runPackShrinkJob }

type packShrinkCase struct {
	Size   int    `json:"size"`
	Keep   int    `json:"keep"`
	Chroot bool   `json:"chroot"`
	Comp   string `json:"comp"`
}

const shrinkMarker = "MARKER-outside-the-root/"

func runPackShrinkJob(j *Job, res *JobResult) {
	var c packShrinkCase
	if len(j.Args) < 1 || json.Unmarshal([]byte(j.Args[0]), &c) != nil {
		res.Out, res.Err = "setup", "bad case"
		return
	}
	if err := resetWorld(); err != nil {
		res.Out, res.Err = "setup", err.Error()
		return
	}
	old := runtime.GOMAXPROCS(1)
	defer runtime.GOMAXPROCS(old)
	_ = os.MkdirAll("/w/out", 0o755)
	_ = os.MkdirAll("/w/root/src", 0o755)
	outside := strings.Repeat(shrinkMarker, c.Size/len(shrinkMarker)+2)[:c.Size]
	inside := strings.Repeat("i", c.Size)
	if err := os.WriteFile("/w/out/marker.bin", []byte(outside), 0o644); err != nil {
		res.Out, res.Err = "setup", err.Error()
		return
	}
	if err := os.WriteFile("/w/root/src/a.bin", []byte(inside), 0o644); err != nil {
		res.Out, res.Err = "setup", err.Error()
		return
	}
	// 1. an unconfined tar of the outside directory, read to the end
	rc0, err := archive.Tar("/w/out", 0)
	if err != nil {
		res.Out, res.Err = "setup", "tar of the outside directory: "+err.Error()
		return
	}
	_, _ = io.Copy(io.Discard, rc0)
	rc0.Close()
	// 2. the tar under test; the producer blocks while writing the first header (a.bin's: the source directory
	//    itself is not archived), i.e. after its lstat and before it opens the file
	var rc io.ReadCloser
	if c.Chroot {
		rc, err = chrootarchive.Tar("/w/root/src", &archive.TarOptions{}, "/w/root")
	} else {
		rc, err = archive.TarWithOptions("/w/root/src", &archive.TarOptions{})
	}
	if err != nil {
		res.Out, res.Err = "setup", "tar under test: "+err.Error()
		return
	}
	one := make([]byte, 1)
	if _, err := io.ReadFull(rc, one); err != nil {
		rc.Close()
		res.Out, res.Err = "setup", "first byte: "+err.Error()
		return
	}
	if err := os.Truncate("/w/root/src/a.bin", int64(c.Keep)); err != nil {
		rc.Close()
		res.Out, res.Err = "setup", err.Error()
		return
	}
	rest, rerr := io.ReadAll(rc)
	rc.Close()
	stream := append(one, rest...)
	res.Out = "ok"
	if rerr != nil {
		res.Out = "err"
		res.Err = rerr.Error()
	}
	if i := bytes.Index(stream, []byte(shrinkMarker[:16])); i >= 0 {
		res.Extra = fmt.Sprintf("the stream carries bytes of /w/out/marker.bin (outside the root) at offset %d of %d: %q", i, len(stream), truncate(string(stream[i:]), 48))
		return
	}
	// anything in the body of a.bin that is neither the file's own byte nor zero padding came from elsewhere
	if len(stream) >= 512+c.Size {
		body := stream[512 : 512+c.Size]
		for k, b := range body {
			if b != 'i' && b != 0 {
				res.Extra = fmt.Sprintf("the body of a.bin carries a byte that is not the file's (offset %d: %q)", k, truncate(string(body[k:]), 32))
				return
			}
		}
	}
}
