package main

import (
	"archive/tar"
	"bytes"
	"encoding/json"
	"fmt"
	"io"
	"path/filepath"
	"sort"
	"strconv"
	"strings"
	"time"

	"github.com/moby/patternmatcher"
	"github.com/moby/sys/user"

	archive "github.com/moby/go-archive"
	"github.com/moby/go-archive/chrootarchive"
)

// Stream "pack": the producer mechanism model (Lean: tarP, chrootTarP over the same kernel model)
// against the real TarWithOptions / chrootarchive.Tar, entry by entry, in order.
func init() {
	subcmds["pack"] = func(cfg *Config) *Result { return runPack(cfg, "mixed") }
	subcmds["pack-chroot"] = func(cfg *Config) *Result { return runPack(cfg, "chroot") }
	subcmds["pack-select"] = func(cfg *Config) *Result { return runPack(cfg, "select") }
	jobKinds["pack"] = runPackJob
}

type PatSpec struct {
	Raw  string // as given to TarOptions.ExcludePatterns
	Text string // cleaned, without '!'
	Excl bool
	Hits []string
}

type PackCase struct {
	Op       string // tar | tar-chroot
	Src      string
	Root     string
	Includes []string
	ISD      bool
	Rebase   map[string]string
	Patterns []string
	UidMap   []IDRange
	GidMap   []IDRange
	Chown    *[2]int
	Overlay  bool
	Nodes    []Node
}

func (c *PackCase) pats() ([]PatSpec, error) {
	var out []PatSpec
	cands := c.candidates()
	for _, raw := range c.Patterns {
		p := strings.TrimSpace(raw)
		if p == "" {
			continue
		}
		p = filepath.Clean(p)
		ps := PatSpec{Raw: raw}
		if p[0] == '!' {
			if len(p) == 1 {
				return nil, fmt.Errorf("illegal pattern")
			}
			ps.Excl = true
			p = p[1:]
		}
		ps.Text = p
		pm, err := patternmatcher.New([]string{p})
		if err != nil {
			return nil, err
		}
		for _, cand := range cands {
			m, err := pm.MatchesUsingParentResult(cand, false) //nolint:staticcheck // raw per-pattern match
			if err != nil {
				return nil, err
			}
			if m {
				ps.Hits = append(ps.Hits, cand)
			}
		}
		out = append(out, ps)
	}
	return out, nil
}

// candidates: every path string the walker can hand to the matcher for this case (generously).
func (c *PackCase) candidates() []string {
	set := map[string]bool{}
	add := func(s string) {
		if s == "" {
			return
		}
		set[s] = true
		set["./"+s] = true
	}
	incs := append([]string{}, c.Includes...)
	incs = append(incs, ".", filepath.Base(c.Src))
	for _, n := range c.Nodes {
		cs := strings.Split(strings.Trim(n.Path, "/"), "/")
		for i := 0; i < len(cs); i++ {
			for j := i + 1; j <= len(cs); j++ {
				sl := strings.Join(cs[i:j], "/")
				add(sl)
				for _, inc := range incs {
					ic := filepath.Clean(inc)
					if ic != "." && ic != "" {
						add(ic + "/" + sl)
					}
				}
			}
		}
	}
	for _, inc := range incs {
		add(filepath.Clean(inc))
		// prefixes of the include itself
		parts := strings.Split(filepath.Clean(inc), "/")
		for i := 1; i <= len(parts); i++ {
			add(strings.Join(parts[:i], "/"))
		}
	}
	var out []string
	for k := range set {
		out = append(out, k)
	}
	sort.Strings(out)
	return out
}

func (c *PackCase) optString(pats []PatSpec) string {
	var p []string
	if len(c.Includes) > 0 {
		var xs []string
		for _, x := range c.Includes {
			xs = append(xs, hx(x))
		}
		p = append(p, "inc="+strings.Join(xs, ";"))
	}
	if c.ISD {
		p = append(p, "isd=1")
	}
	if len(c.Rebase) > 0 {
		var xs []string
		var ks []string
		for k := range c.Rebase {
			ks = append(ks, k)
		}
		sort.Strings(ks)
		for _, k := range ks {
			xs = append(xs, hx(k)+":"+hx(c.Rebase[k]))
		}
		p = append(p, "rebase="+strings.Join(xs, ";"))
	}
	if len(pats) > 0 {
		var xs []string
		for _, ps := range pats {
			var hs []string
			for _, h := range ps.Hits {
				hs = append(hs, hx(h))
			}
			e := "0"
			if ps.Excl {
				e = "1"
			}
			xs = append(xs, e+":"+hx(ps.Text)+":"+strings.Join(hs, "|"))
		}
		p = append(p, "pats="+strings.Join(xs, ";"))
	}
	if len(c.UidMap) > 0 {
		p = append(p, "uidmap="+rangesStr(c.UidMap))
	}
	if len(c.GidMap) > 0 {
		p = append(p, "gidmap="+rangesStr(c.GidMap))
	}
	if c.Chown != nil {
		p = append(p, fmt.Sprintf("chown=%d:%d", c.Chown[0], c.Chown[1]))
	}
	if c.Overlay {
		p = append(p, "overlay=1")
	}
	if len(p) == 0 {
		return "-"
	}
	return strings.Join(p, ",")
}

func (c *PackCase) line() (string, error) {
	pats, err := c.pats()
	if err != nil {
		return "", err
	}
	return strings.Join([]string{c.Op, c.optString(pats), hx(c.Src), hx(c.Root), "18", renderTree(c.Nodes)}, " "), nil
}

func (c *PackCase) tarOptions() *archive.TarOptions {
	o := &archive.TarOptions{IncludeFiles: append([]string(nil), c.Includes...), IncludeSourceDir: c.ISD,
		ExcludePatterns: append([]string(nil), c.Patterns...)}
	if len(c.Rebase) > 0 {
		o.RebaseNames = map[string]string{}
		for k, v := range c.Rebase {
			o.RebaseNames[k] = v
		}
	}
	for _, r := range c.UidMap {
		o.IDMap.UIDMaps = append(o.IDMap.UIDMaps, user.IDMap{ID: int64(r.C), ParentID: int64(r.H), Count: int64(r.N)})
	}
	for _, r := range c.GidMap {
		o.IDMap.GIDMaps = append(o.IDMap.GIDMaps, user.IDMap{ID: int64(r.C), ParentID: int64(r.H), Count: int64(r.N)})
	}
	if c.Chown != nil {
		o.ChownOpts = &archive.ChownOpts{UID: c.Chown[0], GID: c.Chown[1]}
	}
	if c.Overlay {
		o.WhiteoutFormat = archive.OverlayWhiteoutFormat
	}
	return o
}

func renderEnts(es []Ent) string {
	parts := []string{"E", strconv.Itoa(len(es))}
	for _, e := range es {
		parts = append(parts, e.fields()...)
	}
	return strings.Join(parts, " ")
}

// parseTarStream parses a produced stream; also returns stream-level facts for the oracles.
func parseTarStream(b []byte) ([]Ent, []*tar.Header, error) {
	var es []Ent
	var hs []*tar.Header
	tr := tar.NewReader(bytes.NewReader(b))
	for {
		h, err := tr.Next()
		if err == io.EOF {
			return es, hs, nil
		}
		if err != nil {
			return es, hs, err
		}
		body, err := io.ReadAll(tr)
		if err != nil {
			return es, hs, err
		}
		e := Ent{Typ: typName(h.Typeflag), Name: h.Name, Linkname: h.Linkname, Mode: h.Mode, Uid: h.Uid, Gid: h.Gid,
			Mtime: h.ModTime.Unix(), Size: h.Size, Body: string(body), Maj: h.Devmajor, Min: h.Devminor, TypeByte: h.Typeflag}
		var keys []string
		for k := range h.PAXRecords {
			if strings.HasPrefix(k, "SCHILY.xattr.") {
				keys = append(keys, k)
			}
		}
		sort.Strings(keys)
		for _, k := range keys {
			e.Xattrs = append(e.Xattrs, [2]string{strings.TrimPrefix(k, "SCHILY.xattr."), h.PAXRecords[k]})
		}
		es = append(es, e)
		hs = append(hs, h)
	}
}

func runPackJob(j *Job, res *JobResult) {
	var c PackCase
	if err := json.Unmarshal([]byte(j.Args[0]), &c); err != nil {
		res.Out, res.Err = "setup", err.Error()
		return
	}
	if err := resetWorld(); err != nil {
		res.Out, res.Err = "setup", err.Error()
		return
	}
	if err := buildWorld(c.Nodes); err != nil {
		res.Out, res.Err = "setup", err.Error()
		return
	}
	var rc io.ReadCloser
	var err error
	if c.Op == "tar-chroot" {
		rc, err = chrootarchive.Tar(c.Src, c.tarOptions(), c.Root)
	} else {
		rc, err = archive.TarWithOptions(c.Src, c.tarOptions())
	}
	if err != nil {
		res.Out, res.Err = "err", err.Error()
		res.Extra = "E 0"
		return
	}
	b, rerr := io.ReadAll(rc)
	rc.Close()
	if rerr != nil {
		res.Out, res.Err = "err", rerr.Error()
		res.Extra = "E 0"
		return
	}
	es, _, perr := parseTarStream(b)
	if perr != nil {
		res.Out, res.Err = "badstream", perr.Error()
		return
	}
	res.Out = "ok"
	res.Extra = renderEnts(es)
	res.Archive64 = b
}

var patPool = []string{"a", "a/b", "!a/b", "*", "!*/c", "**/d", "a*", "b/", "?", "[ab]", "!a", "d/**", "a/*/c", "!a/b/c", "**", "!**/e", "c/d", "!c", "*l", "!b/*l", "e/*", "a/b/*", "!a/b/d", ".*", "!.cfg/a", "!.cfg/b", ".cfg", "!.x", "**/.wh.*", "a.b"}

func genPackCase(r *Rng, family string) *PackCase {
	g := &genCtx{r: r}
	g.symlinks = r.chance(1, 2)
	c := &PackCase{Op: "tar", Src: "/w/src"}
	if family == "chroot" || (family == "mixed" && r.chance(1, 3)) {
		c.Op = "tar-chroot"
		g.symlinks = r.chance(4, 5)
	}
	mt := int64(3000000)
	world := []Node{
		{Path: "/w/secret", Kind: 'r', Perm: 0o600, Uid: 42, Gid: 43, Data: "CANARY-secret", Mtime: 1502},
		{Path: "/w/outdir", Kind: 'd', Perm: 0o755, Uid: 44, Gid: 45, Mtime: 1503},
		{Path: "/w/outdir/of", Kind: 'r', Perm: 0o644, Uid: 46, Data: "CANARY-out", Mtime: 1504},
		{Path: "/w/dest2", Kind: 'd', Perm: 0o755, Mtime: 1505},
		{Path: "/w/dest2/f", Kind: 'r', Perm: 0o644, Data: "CANARY-sib", Mtime: 1506},
	}
	if c.Op == "tar-chroot" {
		c.Root = "/w/root"
		world = append(world, Node{Path: "/w/root", Kind: 'd', Perm: 0o755, Mtime: 1600})
		world = append(world, Node{Path: "/w/root/src", Kind: 'd', Perm: 0o755, Mtime: 1601})
		world = append(world, g.genTree("/w/root/src", 2+r.intn(9), &mt)...)
		if r.chance(1, 2) {
			world = append(world, Node{Path: "/w/root/w", Kind: 'd', Perm: 0o755, Mtime: 1610},
				Node{Path: "/w/root/w/secret", Kind: 'r', Perm: 0o644, Data: "inside-lookalike", Mtime: 1611},
				Node{Path: "/w/root/outdir", Kind: 'd', Perm: 0o700, Mtime: 1612},
				Node{Path: "/w/root/outdir/of", Kind: 'r', Perm: 0o644, Data: "inside-of", Mtime: 1613})
		}
		c.Src = r.pick([]string{"/w/root/src", "/w/root/src/", "/w/root", "/w/root/src/a", "/w/root/src/a/", "/w/root/lnk", "/w/root/lnk/", "/w/root/../outdir", "/w/outdir"})
		if r.chance(1, 10) {
			// the root cannot be turned into a jail: nothing may be archived at all
			c.Root = r.pick([]string{"/w/secret", "/w/missing"})
			c.Src = c.Root + r.pick([]string{"", "/x", "/../outdir"})
		}
		if strings.Contains(c.Src, "lnk") {
			world = append(world, Node{Path: "/w/root/lnk", Kind: 's', Perm: 0o777, Target: r.pick([]string{"/w/outdir", "../outdir", "src", "/src", "../../w/outdir", "/w/secret"}), Mtime: 1620})
		}
	} else {
		world = append(world, Node{Path: "/w/src", Kind: 'd', Perm: uint32(r.pick2(0o755, 0o2775, 0o700)), Uid: r.pick2(0, 0, 1000), Mtime: 1601})
		world = append(world, g.genTree("/w/src", 1+r.intn(12), &mt)...)
		c.Src = r.pick([]string{"/w/src", "/w/src", "/w/src/", "/w/src/a", "/w/src/."})
	}
	seen := map[string]bool{}
	for _, n := range world {
		if !seen[n.Path] {
			seen[n.Path] = true
			c.Nodes = append(c.Nodes, n)
		}
	}
	sort.SliceStable(c.Nodes, func(i, j int) bool { return c.Nodes[i].Path < c.Nodes[j].Path })
	switch r.intn(10) {
	case 0, 1, 2:
	case 3:
		c.Includes = []string{"."}
	case 4:
		c.Includes = []string{r.pick(comps)}
	case 5:
		c.Includes = []string{r.pick(comps), r.pick(comps)}
	case 6:
		c.Includes = []string{"a/b", "a"}
	case 7:
		c.Includes = []string{r.pick(comps) + "/" + r.pick(comps), r.pick(comps)}
	case 8:
		c.Includes = []string{r.pick([]string{"../outdir", "..", "/w/secret", "a/../..", "lnk"}), "a"}
	default:
		c.Includes = []string{"a", "a"}
	}
	c.ISD = r.chance(1, 4)
	if len(c.Includes) > 0 && r.chance(1, 3) {
		c.Rebase = map[string]string{c.Includes[0]: r.pick([]string{"new", "x/y", "/", "a"})}
	}
	if family == "select" || r.chance(1, 2) {
		n := 1 + r.intn(4)
		for i := 0; i < n; i++ {
			c.Patterns = append(c.Patterns, patPool[r.intn(len(patPool))])
		}
	}
	if r.chance(1, 5) {
		c.UidMap = []IDRange{{0, 100000, 65536}}
		c.GidMap = []IDRange{{0, 100000, 65536}}
		if r.chance(1, 2) {
			c.UidMap = []IDRange{{0, 1000, 2}, {2, 100000, 65534}}
		}
	}
	if r.chance(1, 8) {
		c.Chown = &[2]int{r.pickID(), r.pickID()}
	}
	return c
}

func runPack(cfg *Config, family string) *Result {
	res := newResult("random (tree with hard links, symlinks in and out, devices, fifos, set-id bits, capabilities; include list; IncludeSourceDir; rebase map; exclude patterns incl. '!' forms; ID map; ChownOpts) cases through TarWithOptions and chrootarchive.Tar, family=" + family +
		"; entries compared with the model in order; non-trivial = ≥2 entries produced; distinct by case line")
	rng := newRng(cfg.Seed ^ 0x7061636b)
	n := cfg.count(1500, 20000)
	var cases []*PackCase
	var lines []string
	var jobs []Job
	if cfg.Replay != "" {
		cs, err := replayCaseString(cfg.Replay)
		if err != nil {
			res.SetupError = err.Error()
			return res
		}
		var c PackCase
		if err := json.Unmarshal([]byte(cs), &c); err != nil {
			res.SetupError = err.Error()
			return res
		}
		cases = append(cases, &c)
	} else {
		for i := 0; i < n; i++ {
			cases = append(cases, genPackCase(rng.fork(), family))
		}
	}
	var kept []*PackCase
	for _, c := range cases {
		l, err := c.line()
		if err != nil {
			res.count("gen-skip")
			continue
		}
		b, _ := json.Marshal(c)
		jobs = append(jobs, Job{ID: len(kept), Kind: "pack", Args: []string{string(b)}})
		lines = append(lines, l)
		kept = append(kept, c)
	}
	cases = kept
	res.Evaluations = len(cases)
	modelOut, err := runDriver(cfg.Driver, lines)
	if err != nil {
		res.SetupError = err.Error()
		return res
	}
	results := runArena(cfg, jobs, 20*time.Second)
	for i, c := range cases {
		jr := results[i]
		cb, _ := json.Marshal(c)
		caseText := string(cb)
		res.count("op:" + c.Op)
		res.count("impl:" + jr.Out)
		if jr.Out == "setup" || jr.ID < 0 {
			res.SetupError = fmt.Sprintf("case %d: %s", i, jr.Err)
			return res
		}
		if jr.Out == "panic" || jr.Out == "hang" || jr.Out == "badstream" {
			res.problem(Problem{Kind: "oracle", Stream: "pack", Case: caseText, Impl: jr.Out, Msg: "C09: producer " + jr.Out + ": " + jr.Err})
			continue
		}
		implLine := jr.Out + " " + jr.Extra
		res.Compared++
		if !fieldsEqualWild(implLine, modelOut[i]) {
			res.problem(Problem{Kind: "correspondence", Stream: "pack", Case: caseText, Impl: truncate(implLine, 600), Model: truncate(modelOut[i], 600),
				Msg: firstEntryDiff(implLine, modelOut[i])})
		}
		if strings.Count(jr.Extra, " ") > 24 {
			res.nontrivial(lines[i])
		}
		for _, p := range oraclePack(c, &jr) {
			p.Case = caseText
			res.problem(p)
		}
		if i < 3 {
			res.sample(truncate(lines[i], 300) + " => " + truncate(implLine, 300))
		}
	}
	return res
}

// fieldsEqualWild: equal field by field; "*" on the model side matches anything (implicit mtimes)
func fieldsEqualWild(impl, model string) bool {
	fa, fb := strings.Fields(impl), strings.Fields(model)
	if len(fa) != len(fb) {
		return false
	}
	for i := range fa {
		if fa[i] != fb[i] && fb[i] != "*" {
			return false
		}
	}
	return true
}

func firstEntryDiff(a, b string) string {
	fa, fb := strings.Fields(a), strings.Fields(b)
	for i := 0; i < len(fa) && i < len(fb); i++ {
		if fa[i] != fb[i] && fb[i] != "*" {
			return fmt.Sprintf("field %d: impl=%s model=%s (impl has %d fields, model %d)", i, truncate(fa[i], 60), truncate(fb[i], 60), len(fa), len(fb))
		}
	}
	return fmt.Sprintf("length: impl has %d fields, model %d", len(fa), len(fb))
}
