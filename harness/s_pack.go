package main

import (
	"archive/tar"
	"bytes"
	"encoding/json"
	"fmt"
	"io"
	"os"
	"path/filepath"
	"sort"
	"strconv"
	"strings"
	"time"

	"github.com/moby/patternmatcher"
	"github.com/moby/sys/user"

	archive "github.com/moby/go-archive"
	"github.com/moby/go-archive/chrootarchive"
)

// Stream "pack": the producer mechanism model (Lean: tarP, chrootTarP over the same kernel model)
// against the real TarWithOptions / chrootarchive.Tar, entry by entry, in order.
func init() {
	subcmds["pack"] = func(cfg *Config) *Result { return runPack(cfg, "mixed") }
	subcmds["pack-chroot"] = func(cfg *Config) *Result { return runPack(cfg, "chroot") }
	subcmds["pack-select"] = func(cfg *Config) *Result { return runPack(cfg, "select") }
	jobKinds["pack"] = runPackJob
}

type PatSpec struct {
	Raw  string // as given to TarOptions.ExcludePatterns
	Text string // cleaned, without '!'
	Excl bool
	Hits []string
}

type PackCase struct {
	HostNodes []Node `json:",omitempty"` // objects at the chroot-relative source path on the HOST side (outside /w): never part of the model's world
	Op        string // tar | tar-chroot
	Src       string
	Root      string
	Includes  []string
	ISD       bool
	Rebase    map[string]string
	Patterns  []string
	UidMap    []IDRange
	GidMap    []IDRange
	Chown     *[2]int
	Overlay   bool
	Nodes     []Node
}

func (c *PackCase) pats() ([]PatSpec, error) {
	var out []PatSpec
	cands := c.candidates()
	for _, raw := range c.Patterns {
		p := strings.TrimSpace(raw)
		if p == "" {
			continue
		}
		p = filepath.Clean(p)
		ps := PatSpec{Raw: raw}
		if p[0] == '!' {
			if len(p) == 1 {
				return nil, fmt.Errorf("illegal pattern")
			}
			ps.Excl = true
			p = p[1:]
		}
		ps.Text = p
		pm, err := patternmatcher.New([]string{p})
		if err != nil {
			return nil, err
		}
		for _, cand := range cands {
			m, err := pm.MatchesUsingParentResult(cand, false) //nolint:staticcheck // raw per-pattern match
			if err != nil {
				return nil, err
			}
			if m {
				ps.Hits = append(ps.Hits, cand)
			}
		}
		out = append(out, ps)
	}
	return out, nil
}

// candidates: every path string the walker can hand to the matcher for this case (generously).
func (c *PackCase) candidates() []string {
	set := map[string]bool{}
	add := func(s string) {
		if s == "" {
			return
		}
		set[s] = true
		set["./"+s] = true
	}
	incs := append([]string{}, c.Includes...)
	incs = append(incs, ".", filepath.Base(c.Src))
	for _, n := range c.Nodes {
		cs := strings.Split(strings.Trim(n.Path, "/"), "/")
		for i := 0; i < len(cs); i++ {
			for j := i + 1; j <= len(cs); j++ {
				sl := strings.Join(cs[i:j], "/")
				add(sl)
				for _, inc := range incs {
					ic := filepath.Clean(inc)
					if ic != "." && ic != "" {
						add(ic + "/" + sl)
					}
				}
			}
		}
	}
	for _, inc := range incs {
		add(filepath.Clean(inc))
		// prefixes of the include itself
		parts := strings.Split(filepath.Clean(inc), "/")
		for i := 1; i <= len(parts); i++ {
			add(strings.Join(parts[:i], "/"))
		}
	}
	// whatever an independent walk of the case hands to the matcher (names that pass through ".." or links)
	for _, s := range pkWalkStrings(c) {
		add(s)
	}
	var out []string
	for k := range set {
		out = append(out, k)
	}
	sort.Strings(out)
	return out
}

func (c *PackCase) optString(pats []PatSpec) string {
	var p []string
	if len(c.Includes) > 0 {
		var xs []string
		for _, x := range c.Includes {
			xs = append(xs, hx(x))
		}
		p = append(p, "inc="+strings.Join(xs, ";"))
	}
	if c.ISD {
		p = append(p, "isd=1")
	}
	if len(c.Rebase) > 0 {
		var xs []string
		var ks []string
		for k := range c.Rebase {
			ks = append(ks, k)
		}
		sort.Strings(ks)
		for _, k := range ks {
			xs = append(xs, hx(k)+":"+hx(c.Rebase[k]))
		}
		p = append(p, "rebase="+strings.Join(xs, ";"))
	}
	if len(pats) > 0 {
		var xs []string
		for _, ps := range pats {
			var hs []string
			for _, h := range ps.Hits {
				hs = append(hs, hx(h))
			}
			e := "0"
			if ps.Excl {
				e = "1"
			}
			xs = append(xs, e+":"+hx(ps.Text)+":"+strings.Join(hs, "|"))
		}
		p = append(p, "pats="+strings.Join(xs, ";"))
	}
	if len(c.UidMap) > 0 {
		p = append(p, "uidmap="+rangesStr(c.UidMap))
	}
	if len(c.GidMap) > 0 {
		p = append(p, "gidmap="+rangesStr(c.GidMap))
	}
	if c.Chown != nil {
		p = append(p, fmt.Sprintf("chown=%d:%d", c.Chown[0], c.Chown[1]))
	}
	if c.Overlay {
		p = append(p, "overlay=1")
	}
	if len(p) == 0 {
		return "-"
	}
	return strings.Join(p, ",")
}

func (c *PackCase) line() (string, error) {
	pats, err := c.pats()
	if err != nil {
		return "", err
	}
	return strings.Join([]string{c.Op, c.optString(pats), hx(c.Src), hx(c.Root), "18", renderTree(c.Nodes)}, " "), nil
}

func (c *PackCase) tarOptions() *archive.TarOptions {
	o := &archive.TarOptions{IncludeFiles: append([]string(nil), c.Includes...), IncludeSourceDir: c.ISD,
		ExcludePatterns: append([]string(nil), c.Patterns...)}
	if len(c.Rebase) > 0 {
		o.RebaseNames = map[string]string{}
		for k, v := range c.Rebase {
			o.RebaseNames[k] = v
		}
	}
	for _, r := range c.UidMap {
		o.IDMap.UIDMaps = append(o.IDMap.UIDMaps, user.IDMap{ID: int64(r.C), ParentID: int64(r.H), Count: int64(r.N)})
	}
	for _, r := range c.GidMap {
		o.IDMap.GIDMaps = append(o.IDMap.GIDMaps, user.IDMap{ID: int64(r.C), ParentID: int64(r.H), Count: int64(r.N)})
	}
	if c.Chown != nil {
		o.ChownOpts = &archive.ChownOpts{UID: c.Chown[0], GID: c.Chown[1]}
	}
	if c.Overlay {
		o.WhiteoutFormat = archive.OverlayWhiteoutFormat
	}
	return o
}

func renderEnts(es []Ent) string {
	parts := []string{"E", strconv.Itoa(len(es))}
	for _, e := range es {
		parts = append(parts, e.fields()...)
	}
	return strings.Join(parts, " ")
}

// parseTarStream parses a produced stream; also returns stream-level facts for the oracles.
func parseTarStream(b []byte) ([]Ent, []*tar.Header, error) {
	var es []Ent
	var hs []*tar.Header
	tr := tar.NewReader(bytes.NewReader(b))
	for {
		h, err := tr.Next()
		if err == io.EOF {
			return es, hs, nil
		}
		if err != nil {
			return es, hs, err
		}
		body, err := io.ReadAll(tr)
		if err != nil {
			return es, hs, err
		}
		e := Ent{Typ: typName(h.Typeflag), Name: h.Name, Linkname: h.Linkname, Mode: h.Mode, Uid: h.Uid, Gid: h.Gid,
			Mtime: h.ModTime.Unix(), Size: h.Size, Body: string(body), Maj: h.Devmajor, Min: h.Devminor, TypeByte: h.Typeflag}
		var keys []string
		for k := range h.PAXRecords {
			if strings.HasPrefix(k, "SCHILY.xattr.") {
				keys = append(keys, k)
			}
		}
		sort.Strings(keys)
		for _, k := range keys {
			e.Xattrs = append(e.Xattrs, [2]string{strings.TrimPrefix(k, "SCHILY.xattr."), h.PAXRecords[k]})
		}
		es = append(es, e)
		hs = append(hs, h)
	}
}

func runPackOnce(c *PackCase) ([]byte, error) {
	var rc io.ReadCloser
	var err error
	if c.Op == "tar-chroot" {
		rc, err = chrootarchive.Tar(c.Src, c.tarOptions(), c.Root)
	} else {
		rc, err = archive.TarWithOptions(c.Src, c.tarOptions())
	}
	if err != nil {
		return nil, err
	}
	b, rerr := io.ReadAll(rc)
	rc.Close()
	return b, rerr
}

// pkReuseProbe: one options value used for two archives, its pattern and include lists edited in place in
// between (a caller that keeps an options struct around and tweaks it). The second archive must be what a fresh
// options value with the same lists gives — `want`, the archive the job has just produced.
func pkReuseProbe(c *PackCase, want []byte) string {
	if c.Op == "tar-chroot" {
		return ""
	}
	o := c.tarOptions()
	if len(o.ExcludePatterns) == 0 && len(o.IncludeFiles) == 0 {
		return ""
	}
	origEx := append([]string{}, o.ExcludePatterns...)
	origIn := append([]string{}, o.IncludeFiles...)
	for i := range o.ExcludePatterns {
		o.ExcludePatterns[i] = "zz-no-such-name"
	}
	for i := range o.IncludeFiles {
		o.IncludeFiles[i] = "."
	}
	if rc, err := archive.TarWithOptions(c.Src, o); err == nil {
		_, _ = io.Copy(io.Discard, rc)
		rc.Close()
	}
	copy(o.ExcludePatterns, origEx)
	copy(o.IncludeFiles, origIn)
	run := func(o *archive.TarOptions) ([]byte, error) {
		rc, err := archive.TarWithOptions(c.Src, o)
		if err != nil {
			return nil, err
		}
		b, rerr := io.ReadAll(rc)
		rc.Close()
		return b, rerr
	}
	b, err := run(o)
	if err != nil {
		return "second use of one options value (lists edited in place and restored) failed: " + err.Error()
	}
	if !bytes.Equal(b, want) {
		return "second use of one options value (pattern/include lists edited in place, then restored): the archive differs from the one a fresh options value gives: " + pkDescribeDiff(want, b)
	}
	o2 := *o
	if b, err = run(&o2); err == nil && !bytes.Equal(b, want) {
		return "a struct copy of a used options value gives a different archive: " + pkDescribeDiff(want, b)
	}
	return ""
}

func runPackJob(j *Job, res *JobResult) {
	var c PackCase
	if err := json.Unmarshal([]byte(j.Args[0]), &c); err != nil {
		res.Out, res.Err = "setup", err.Error()
		return
	}
	if err := resetWorld(); err != nil {
		res.Out, res.Err = "setup", err.Error()
		return
	}
	if err := buildWorld(c.Nodes); err != nil {
		res.Out, res.Err = "setup", err.Error()
		return
	}
	// sub-second file times (seconds as in the case): makes the whole-second clause of C09 observable
	if err := pkSubSecond(c.Nodes); err != nil {
		res.Out, res.Err = "setup", err.Error()
		return
	}
	for _, hn := range c.HostNodes {
		top := "/" + strings.Split(strings.TrimPrefix(hn.Path, "/"), "/")[0]
		defer os.RemoveAll(top)
		os.MkdirAll(filepath.Dir(hn.Path), 0o755)
		switch hn.Kind {
		case 'd':
			os.MkdirAll(hn.Path, 0o755)
		case 's':
			os.Symlink(hn.Target, hn.Path)
		default:
			os.WriteFile(hn.Path, []byte(hn.Data), 0o644)
		}
	}
	b, err := runPackOnce(&c)
	// an unrelated archive operation in the same process, on a file system without extended attributes: whatever
	// the library remembers from it must not show in the next archive
	if rc, e := archive.TarWithOptions("/proc/version", &archive.TarOptions{}); e == nil {
		_, _ = io.Copy(io.Discard, rc)
		rc.Close()
	}
	// C09 reproducibility: the same call once more on the unchanged tree
	b2, err2 := runPackOnce(&c)
	res.Before, res.After = "err", "err"
	if err == nil {
		res.Before = pkSha(b)
	}
	if err2 == nil {
		res.After = pkSha(b2)
		if err == nil && !bytes.Equal(b, b2) {
			res.After = pkDescribeDiff(b, b2)
		}
	}
	if err != nil {
		res.Out, res.Err = "err", err.Error()
		res.Extra = "E 0"
		return
	}
	es, _, perr := parseTarStream(b)
	if perr != nil {
		res.Out, res.Err = "badstream", perr.Error()
		return
	}
	res.Note = pkReuseProbe(&c, b)
	res.Out = "ok"
	res.Extra = renderEnts(es)
	res.Archive64 = b
}

var patPool = []string{"a", "a/b", "!a/b", "*", "!*/c", "**/d", "a*", "b/", "?", "[ab]", "!a", "d/**", "a/*/c", "!a/b/c", "**", "!**/e", "c/d", "!c", "*l", "!b/*l", "e/*", "a/b/*", "!a/b/d", ".*", "!.cfg/a", "!.cfg/b", ".cfg", "!.x", "**/.wh.*", "a.b",
	"d", "!d2", "d*", "!d.x", "!d/x", "d2", "d.x", "a/b/c", "!a/b/c/keep", "a/d", "!top", "**/x", "!**/keep", "*/*", "!*/*/c", "d?", "a/b/c/f", " a ", "./a", "a/", "a/../d"}

// patCombos: pattern lists whose ORDER and interplay matter (exclusion + '!' re-inclusion below it, prefix-related
// sibling names, dot-directories, deep climbs, the same pattern before and after a '!').
var patCombos = [][]string{
	{".*", "!.cfg/a"}, {"a", "!a/b"}, {"a/b", "!a/b/c/keep"}, {"*", "!*/c"}, {"a", "!a/b/c/keep"},
	{"d", "!d2"}, {"d*", "!d.x"}, {"d", "!d/x"}, {"d2"}, {"d.x", "!d"}, {"d"}, {"**/c", "!a/b/c"},
	{"*", "!a", "!a/b"}, {"a/b", "!a/b/c", "a/b/c/f"}, {"a/*", "!a/b", "a/b/c"}, {"!a/b/c/keep", "a/b"},
	{".cfg", "!.cfg"}, {"*/b", "!a/b/d"}, {"a/b/**", "!a/b/c/**"}, {"**", "!a/**"}, {"*", "!d2/x"},
	{".*", "!.cfg/a", ".cfg/a"}, {"a", "!a/b", "a/b/c"}, {"a/b/c", "!a/b/c/keep", "!a/d"}, {"?", "!?/b"},
	{"a", "!a/b/c/keep", "!a/d"}, {"d", "d2", "!d.x"}, {"**/keep", "!a/b/c/keep"}, {"a/b/c/f", "a/d"},
	{"*", "!.cfg", "!.cfg/a"}, {"a/b", "!a/b/c/keep", "top"}, {"a/b/c/**", "!a/b/c/keep"},
	{".*", "!.cfg/a"}, {".*", "!.cfg/b"}, {".cfg", "!.cfg/a"}, {".*", "!.cfg/a"}, {"d", "!d2"}, {"d", "!d/x"}, {"d*", "!d.x/x"}, {"d", "!d2/x"}, {"d.x", "!d.x/x"},
	{"a/b", "!a/b/c/keep"}, {"a", "!a/b"}, {"a", "!a/b/c/keep"}, {"a/b/c", "!a/b/c/keep"},
	// the same pattern before and after a re-inclusion; a re-inclusion of a directory reached only through its parent
	{"a", "!a/b", "a"}, {"e/*", "!**/e"}, {"a/*", "!**/a"},
}

// packSkeleton: fixed shapes the selection logic is sensitive to.
func packSkeleton(r *Rng, base string, mt *int64) []Node {
	var out []Node
	add := func(rel string, kind byte, data string) {
		*mt++
		n := Node{Path: base + "/" + rel, Kind: kind, Perm: 0o644, Mtime: *mt, Data: data, Uid: r.pick2(0, 0, 1000), Gid: r.pick2(0, 0, 7)}
		if kind == 'd' {
			n.Perm = 0o755
		}
		if kind == 'r' && r.chance(1, 40) {
			// a time before the epoch, or beyond what a nanosecond count in 64 bits reaches: archived as it is
			n.Mtime = []int64{-5, -86400 * 365, 9223372037, 1 << 36}[r.intn(4)]
		}
		out = append(out, n)
	}
	if r.chance(2, 3) { // deep climb: a/b/c/... followed by a/d, then top-level entries
		add("a", 'd', "")
		add("a/b", 'd', "")
		add("a/b/c", 'd', "")
		add("a/b/c/f", 'r', "f")
		add("a/b/c/keep", 'r', "keep")
		if r.chance(1, 2) {
			add("a/b/d", 'r', "abd")
		}
		if r.chance(1, 2) {
			add("a/d", 'r', "ad")
		} else {
			add("a/d", 'd', "")
			add("a/d/x", 'r', "adx")
		}
		add("top", 'r', "top")
	}
	if r.chance(1, 2) { // sibling names that are string prefixes of each other
		add("d", 'd', "")
		add("d/x", 'r', "dx")
		add("d2", 'd', "")
		add("d2/x", 'r', "d2x")
		add("d.x", 'd', "")
		add("d.x/x", 'r', "d.xx")
		if r.chance(1, 2) {
			add("d/c", 'd', "")
			add("d/c/keep", 'r', "k")
		}
	}
	if r.chance(1, 2) { // dot-directory
		add(".cfg", 'd', "")
		add(".cfg/a", 'r', "cfga")
		add(".cfg/b", 'r', "cfgb")
		if r.chance(1, 2) {
			add(".x", 'r', "dotx")
		}
	}
	if r.chance(1, 12) { // a whiteout-named link of a file whose owner an ID map does not cover, met after the plain name
		*mt++
		add("b", 'd', "")
		add("zd", 'd', "")
		n := Node{Kind: 'r', Perm: 0o644, Uid: 7, Gid: 7, Mtime: *mt, Data: "wl", Group: 90}
		for _, nm := range []string{"b/keepl", "zd/.wh.keepl"} {
			n.Path = base + "/" + nm
			out = append(out, n)
		}
	}
	if r.chance(1, 3) { // hard-link group of three whose first name sorts first and can be excluded on its own
		g := 100 + r.intn(50)
		*mt++
		n := Node{Kind: 'r', Perm: uint32(r.pick2(0o644, 0o4755, 0o600)), Mtime: *mt, Data: "linked-content", Group: g}
		names := [][]string{{"a/b/c/f", "a/d", "zl"}, {"a", "d2x", "zz"}, {"d/x", "d2/x", "e"}, {"a/b/c/keep", "a/b/d", "top"}}[r.intn(4)]
		for _, nm := range names {
			n.Path = base + "/" + nm
			out = append(out, n)
		}
	}
	return out
}

// packSanitize: first description of a path wins; a node stays only if its parent chain consists of directories.
func packSanitize(world []Node) []Node {
	seen := map[string]bool{}
	var ns []Node
	for _, n := range world {
		if !seen[n.Path] {
			seen[n.Path] = true
			ns = append(ns, n)
		}
	}
	sort.SliceStable(ns, func(i, j int) bool { return ns[i].Path < ns[j].Path })
	kind := map[string]byte{"/w": 'd'}
	var out []Node
	for _, n := range ns {
		if k, ok := kind[filepath.Dir(n.Path)]; !ok || k != 'd' {
			continue
		}
		kind[n.Path] = n.Kind
		out = append(out, n)
	}
	// a hard-link group must keep one attribute set (the generator copies the node) and at least two names
	cnt := map[int]int{}
	for _, n := range out {
		cnt[n.Group]++
	}
	for i := range out {
		if out[i].Group != 0 && cnt[out[i].Group] < 2 {
			out[i].Group = 0
		}
	}
	return out
}

func genPackCase(r *Rng, family string) *PackCase {
	g := &genCtx{r: r}
	g.symlinks = r.chance(1, 2)
	c := &PackCase{Op: "tar", Src: "/w/src"}
	if family == "chroot" || (family == "mixed" && r.chance(1, 3)) {
		c.Op = "tar-chroot"
		g.symlinks = r.chance(4, 5)
	}
	mt := int64(3000000)
	world := []Node{
		{Path: "/w/secret", Kind: 'r', Perm: 0o600, Uid: 42, Gid: 43, Data: "CANARY-secret", Mtime: 1502},
		{Path: "/w/outdir", Kind: 'd', Perm: 0o755, Uid: 44, Gid: 45, Mtime: 1503},
		{Path: "/w/outdir/of", Kind: 'r', Perm: 0o644, Uid: 46, Data: "CANARY-out", Mtime: 1504},
		{Path: "/w/dest2", Kind: 'd', Perm: 0o755, Mtime: 1505},
		{Path: "/w/dest2/f", Kind: 'r', Perm: 0o644, Data: "CANARY-sib", Mtime: 1506},
	}
	srcBase := "/w/src"
	var linkIncludes []string
	if c.Op == "tar-chroot" {
		c.Root = "/w/root"
		srcBase = "/w/root/src"
		world = append(world, Node{Path: "/w/root", Kind: 'd', Perm: 0o755, Mtime: 1600})
		world = append(world, Node{Path: "/w/root/src", Kind: 'd', Perm: 0o755, Mtime: 1601})
		if r.chance(3, 4) {
			world = append(world, packSkeleton(r, srcBase, &mt)...)
		}
		world = append(world, g.genTree("/w/root/src", 2+r.intn(9), &mt)...)
		// look-alikes inside the root, at the places where an outward link lands once the root is "/"
		if r.chance(2, 3) {
			world = append(world, Node{Path: "/w/root/w", Kind: 'd', Perm: 0o755, Mtime: 1610},
				Node{Path: "/w/root/w/secret", Kind: 'r', Perm: 0o644, Data: "inside-lookalike", Mtime: 1611},
				Node{Path: "/w/root/outdir", Kind: 'd', Perm: 0o700, Mtime: 1612},
				Node{Path: "/w/root/outdir/of", Kind: 'r', Perm: 0o644, Data: "inside-of", Mtime: 1613})
			if r.chance(2, 3) {
				world = append(world, Node{Path: "/w/root/w/outdir", Kind: 'd', Perm: 0o750, Uid: 7, Mtime: 1614},
					Node{Path: "/w/root/w/outdir/of", Kind: 'r', Perm: 0o640, Uid: 7, Data: "inside-w-of", Mtime: 1615},
					Node{Path: "/w/root/secret", Kind: 'r', Perm: 0o640, Data: "inside-secret", Mtime: 1616})
			}
		}
		outward := []string{"/w/outdir", "../outdir", "../../outdir", "/outdir", "/w/secret", "../../w/outdir", "/w", "..", "/", "../../../w/outdir", "/w/outdir/", "/w/dest2"}
		// outward links at fixed names: directly under the root (chained), and inside the source tree at depth
		if r.chance(2, 3) {
			world = append(world,
				Node{Path: "/w/root/l1", Kind: 's', Perm: 0o777, Target: r.pick([]string{"l2", "/l2", "./l2", "src/../l2"}), Mtime: 1621},
				Node{Path: "/w/root/l2", Kind: 's', Perm: 0o777, Target: r.pick(outward), Mtime: 1622},
				Node{Path: "/w/root/src/out", Kind: 's', Perm: 0o777, Target: r.pick(outward), Mtime: 1623},
				Node{Path: "/w/root/src/up", Kind: 's', Perm: 0o777, Target: r.pick([]string{"../../outdir", "../../../../w/outdir", "../outdir", "../../secret"}), Mtime: 1624},
				Node{Path: "/w/root/src/chain", Kind: 's', Perm: 0o777, Target: r.pick([]string{"../l1", "/l1", "out", "up"}), Mtime: 1625})
			if r.chance(1, 2) {
				world = append(world, Node{Path: "/w/root/src/a", Kind: 'd', Perm: 0o755, Mtime: 1626},
					Node{Path: "/w/root/src/a/deep", Kind: 's', Perm: 0o777, Target: r.pick([]string{"../../../outdir", "/w/outdir", "../chain", "../../l1"}), Mtime: 1627})
			}
			linkIncludes = []string{"out", "out/of", "out/", "out/.", "up", "up/of", "chain", "chain/of", "../l1", "../l1/of", "../l1/", "a/deep/of", "a/deep", "../../outdir", "../../outdir/of", "/w/outdir", "/w/outdir/of", "a/../../outdir", "../outdir/of", "../w/secret", "../../w/secret"}
		}
		if r.chance(2, 3) {
			c.Src = r.pick([]string{"/w/root/src", "/w/root/src", "/w/root/src/", "/w/root", "/w/root/", "/w/root/./src/."})
		} else {
			c.Src = r.pick([]string{"/w/root/src/a", "/w/root/src/a/", "/w/root/lnk", "/w/root/lnk/", "/w/root/lnk/of", "/w/root/../outdir", "/w/outdir", "/w/outdir/of", "/w/secret",
				"/w/root/l1", "/w/root/l1/", "/w/root/l1/of", "/w/root/src/out", "/w/root/src/out/", "/w/root/src/out/of", "/w/root/src/up/of", "/w/root/src/chain/", "/w/root/src/chain/of", "/w/root/src/a/deep/", "/w/root/src/../../outdir", "/w/root/src/../../outdir/", "/w/root/w/../../outdir/of"})
		}
		if r.chance(1, 10) {
			// the root cannot be turned into a jail: nothing may be archived at all
			c.Root = r.pick([]string{"/w/secret", "/w/missing", "/w/outdir/of"})
			c.Src = c.Root + r.pick([]string{"", "/x", "/../outdir", "/."})
		}
		if strings.Contains(c.Src, "lnk") {
			world = append(world, Node{Path: "/w/root/lnk", Kind: 's', Perm: 0o777, Target: r.pick([]string{"/w/outdir", "../outdir", "src", "/src", "../../w/outdir", "/w/secret", "/outdir", "l1", "/w/root/src", "src/out"}), Mtime: 1620})
		}
	} else {
		world = append(world, Node{Path: "/w/src", Kind: 'd', Perm: uint32(r.pick2(0o755, 0o2775, 0o700)), Uid: r.pick2(0, 0, 1000), Mtime: 1601})
		if family == "select" || r.chance(3, 4) {
			world = append(world, packSkeleton(r, srcBase, &mt)...)
		}
		world = append(world, g.genTree("/w/src", 1+r.intn(12), &mt)...)
		c.Src = r.pick([]string{"/w/src", "/w/src", "/w/src", "/w/src/", "/w/src/", "/w/src/a", "/w/src/.", "/w/src/top"})
	}
	c.Nodes = packSanitize(world)
	// names that exist under the source directory (includes mostly name something real)
	var existing []string
	exists := map[string]bool{}
	if sd := strings.TrimSuffix(strings.TrimSuffix(c.Src, "/."), "/"); strings.HasPrefix(sd, srcBase+"/") {
		for _, n := range c.Nodes {
			if n.Path == sd && n.Kind == 'd' {
				srcBase = sd
			}
		}
	}
	for _, n := range c.Nodes {
		if strings.HasPrefix(n.Path, srcBase+"/") {
			exists[n.Path[len(srcBase)+1:]] = true
			if strings.Count(n.Path[len(srcBase)+1:], "/") <= 2 {
				existing = append(existing, n.Path[len(srcBase)+1:])
			}
		}
	}
	pickName := func() string {
		if len(existing) > 0 && r.chance(3, 4) {
			return existing[r.intn(len(existing))]
		}
		return r.pick(comps)
	}
	if c.Op == "tar" && strings.HasPrefix(c.Src, "/w/src/") && len(c.Src) > len("/w/src/.") {
		found := false
		for _, n := range c.Nodes {
			if n.Path == c.Src {
				found = true
			}
		}
		if !found && r.chance(3, 4) {
			c.Src = "/w/src"
		}
	}
	pairs := [][]string{{"a/b", "a"}, {"a", "a/b"}, {"a/b/c", "a"}, {"a/b/c/keep", "a"}, {"d", "d2"}, {"d2", "d"}, {"d.x", "d"}, {".cfg/a", ".cfg"}, {".cfg"}, {"a/b/c/keep"}, {"a/d", "a/b"}, {"a/b", "a/d", "a"}, {"top", "a"}, {"a/b/c"}, {"d/x", "d2/x", "d"}, {".", "a"}, {"a", "."}}
	switch r.intn(12) {
	case 0, 1, 2:
	case 3:
		c.Includes = []string{"."}
	case 4:
		c.Includes = []string{pickName()}
	case 5:
		c.Includes = []string{pickName(), pickName()}
	case 6:
		c.Includes = []string{"a/b", "a"}
	case 7:
		c.Includes = []string{r.pick(comps) + "/" + r.pick(comps), r.pick(comps)}
		if r.chance(1, 2) {
			c.Includes = []string{pickName(), pickName(), pickName()}
		}
	case 8:
		c.Includes = []string{r.pick([]string{"../outdir", "..", "/w/secret", "a/../..", "lnk"}), "a"}
	case 9, 10:
		c.Includes = append([]string(nil), pairs[r.intn(len(pairs))]...)
	default:
		c.Includes = []string{"a", "a"}
	}
	if len(c.Includes) > 0 {
		any := false
		for _, inc := range c.Includes {
			if ic := filepath.Clean(inc); exists[ic] || ic == "." || strings.HasPrefix(ic, "..") {
				any = true
			}
		}
		if !any && r.chance(4, 5) {
			c.Includes = []string{pickName()}
			if r.chance(1, 2) {
				c.Includes = append(c.Includes, pickName())
			}
		}
	}
	if len(linkIncludes) > 0 && r.chance(1, 3) {
		c.Includes = []string{r.pick(linkIncludes)}
		if r.chance(1, 3) {
			c.Includes = append(c.Includes, r.pick(linkIncludes))
		}
		if r.chance(2, 3) {
			c.Includes = append(c.Includes, r.pick([]string{"a", ".", "d", "a/b"}))
		}
	}
	c.ISD = r.chance(1, 4)
	if len(c.Includes) > 0 && r.chance(1, 3) {
		key := c.Includes[r.intn(len(c.Includes))]
		c.Rebase = map[string]string{key: r.pick([]string{"new", "x/y", "/", "a", "d", "b/c"})}
	} else if len(c.Includes) == 0 && r.chance(1, 8) {
		// rebasing "." must leave every name alone unless IncludeSourceDir spells them "./..."
		c.Rebase = map[string]string{".": r.pick([]string{"r", "new", "a"})}
	}
	if family == "select" || r.chance(1, 2) {
		if r.chance(1, 2) {
			c.Patterns = append(c.Patterns, patCombos[r.intn(len(patCombos))]...)
			for k := r.intn(3); k > 0; k-- {
				p := patPool[r.intn(len(patPool))]
				if r.chance(1, 2) {
					c.Patterns = append(c.Patterns, p)
				} else {
					c.Patterns = append([]string{p}, c.Patterns...)
				}
			}
		} else {
			n := 1 + r.intn(4)
			for i := 0; i < n; i++ {
				c.Patterns = append(c.Patterns, patPool[r.intn(len(patPool))])
			}
		}
	}
	// two arrangements behind known findings, reached on purpose so that they are reported every run, not by luck
	switch r.intn(50) {
	case 0: // D20: an excluded directory with re-included content, listed verbatim after an include above it
		c.Includes = []string{r.pick([]string{"a", "."}), "a/b"}
		c.Patterns = append([]string{"a/b", "!a/b/c/keep"}, c.Patterns...)
		c.Rebase = nil
	case 1: // D21: IncludeSourceDir + "." + a second include
		c.ISD = true
		c.Includes = []string{".", pickName()}
		if r.chance(1, 2) {
			c.Includes[0], c.Includes[1] = c.Includes[1], c.Includes[0]
		}
		c.Rebase = nil
	}
	if r.chance(1, 5) {
		c.UidMap = []IDRange{{0, 100000, 65536}}
		c.GidMap = []IDRange{{0, 100000, 65536}}
		if r.chance(1, 2) {
			c.UidMap = []IDRange{{0, 1000, 2}, {2, 100000, 65534}}
		}
	}
	if r.chance(1, 8) {
		c.Chown = &[2]int{r.pickID(), r.pickID()}
	}
	c.Overlay = r.chance(1, 5)
	if c.Overlay && r.chance(1, 3) {
		// an overlay whiteout (0/0 character device) archived on its own and renamed on the way: the standard whiteout
		// carries the new name
		for _, n := range c.Nodes {
			if n.Kind == 'c' && n.Maj == 0 && n.Min == 0 && strings.HasPrefix(n.Path, c.Src+"/") {
				rel := strings.TrimPrefix(n.Path, c.Src+"/")
				c.Includes = []string{rel}
				nn := "gone" + fmt.Sprint(r.intn(3))
				if i := strings.LastIndex(rel, "/"); i >= 0 {
					nn = rel[:i+1] + nn
				}
				c.Rebase = map[string]string{rel: nn}
				c.ISD = false
				break
			}
		}
	}
	// the host side of the jail: something unrelated lives, on the host, at the path the source has INSIDE the
	// root (the host's /src is not the root's /src). A producer that looks before it is jailed sees it.
	if c.Op == "tar-chroot" && r.chance(1, 3) {
		cs, cr := filepath.Clean(c.Src), filepath.Clean(c.Root)
		if strings.HasPrefix(cs, cr+"/") {
			rel := strings.TrimPrefix(cs, cr)
			top := strings.Split(strings.TrimPrefix(rel, "/"), "/")[0]
			reserved := map[string]bool{"w": true, "proc": true, "dev": true, "usr": true, "lib": true, "lib64": true, "bin": true, "sbin": true, "opt": true, "root": true, "etc": true, "tmp": true, "sys": true, "": true, "..": true, ".": true}
			if !reserved[top] && !strings.Contains(rel, "..") {
				switch r.intn(3) {
				case 0:
					c.HostNodes = []Node{{Path: rel, Kind: 'r', Data: "CANARY-host-side"}}
				case 1:
					c.HostNodes = []Node{{Path: rel, Kind: 's', Target: "/w/secret"}}
				default:
					c.HostNodes = []Node{{Path: rel, Kind: 'd'}, {Path: rel + "/CANARY-host-file", Kind: 'r', Data: "CANARY-host-side"}}
				}
			}
		}
	}
	// host-side twins of the regular files under the root: a read that happens outside the jailed thread (another
	// goroutine, a helper process) resolves the in-root path against the host's root and gets the twin's bytes.
	// Now and then one file is large: read-ahead, buffering and helper thresholds sit in the megabyte range.
	if c.Op == "tar-chroot" && len(c.HostNodes) == 0 && filepath.Clean(c.Root) == "/w/root" {
		reserved := map[string]bool{"w": true, "proc": true, "dev": true, "usr": true, "lib": true, "lib64": true, "bin": true, "sbin": true, "opt": true, "root": true, "etc": true, "tmp": true, "sys": true, "old": true}
		if r.chance(1, 30) {
			big := strings.Repeat("big-inside-the-root/", (1<<20)/19+3000)
			c.Nodes = append(c.Nodes, Node{Path: "/w/root/src/big.bin", Kind: 'r', Perm: 0o644, Data: big, Mtime: 1650})
			sort.SliceStable(c.Nodes, func(i, j int) bool { return c.Nodes[i].Path < c.Nodes[j].Path })
		}
		for _, n := range c.Nodes {
			if n.Kind != 'r' || !strings.HasPrefix(n.Path, "/w/root/") {
				continue
			}
			rel := strings.TrimPrefix(n.Path, "/w/root")
			top := strings.Split(strings.TrimPrefix(rel, "/"), "/")[0]
			if reserved[top] || strings.Contains(rel, "..") {
				continue
			}
			twin := strings.Repeat("T", len(n.Data))
			if len(twin) < 16 {
				twin = "TWIN-host-side-of-" + rel
			}
			c.HostNodes = append(c.HostNodes, Node{Path: rel, Kind: 'r', Data: twin})
		}
	}
	return c
}

func runPack(cfg *Config, family string) *Result {
	res := newResult("random (tree with hard links, symlinks in and out, devices, fifos, set-id bits, capabilities; include list; IncludeSourceDir; rebase map; exclude patterns incl. '!' forms; ID map; ChownOpts) cases through TarWithOptions and chrootarchive.Tar, family=" + family +
		"; entries compared with the model in order; non-trivial = ≥2 entries produced; distinct by case line")
	// fork once: consecutive seeds of newRng are the same sequence shifted by one step
	rng := newRng(cfg.Seed ^ 0x7061636b).fork()
	n := cfg.count(1500, 20000)
	var cases []*PackCase
	var lines []string
	var jobs []Job
	if cfg.Replay != "" {
		cs, err := replayCaseString(cfg.Replay)
		if err != nil {
			res.SetupError = err.Error()
			return res
		}
		if strings.HasPrefix(cs, "packshrink ") {
			runPackShrink(cfg, res, []string{cs})
			return res
		}
		var c PackCase
		if err := json.Unmarshal([]byte(cs), &c); err != nil {
			res.SetupError = err.Error()
			return res
		}
		cases = append(cases, &c)
	} else {
		for i := 0; i < n; i++ {
			cases = append(cases, genPackCase(rng.fork(), family))
		}
	}
	var kept []*PackCase
	for _, c := range cases {
		l, err := c.line()
		if err != nil {
			res.count("gen-skip")
			continue
		}
		b, _ := json.Marshal(c)
		jobs = append(jobs, Job{ID: len(kept), Kind: "pack", Args: []string{string(b)}})
		lines = append(lines, l)
		kept = append(kept, c)
	}
	cases = kept
	res.Evaluations = len(cases)
	modelOut, err := runDriver(cfg.Driver, lines)
	if err != nil {
		res.SetupError = err.Error()
		return res
	}
	results := runArena(cfg, jobs, 20*time.Second)
	sigShown := map[string]int{}
	for i, c := range cases {
		jr := results[i]
		cb, _ := json.Marshal(c)
		caseText := string(cb)
		res.count("op:" + c.Op)
		res.count("impl:" + jr.Out)
		if jr.Out == "setup" || jr.ID < 0 {
			res.SetupError = fmt.Sprintf("case %d: %s", i, jr.Err)
			return res
		}
		if jr.Out == "panic" || jr.Out == "hang" || jr.Out == "badstream" {
			res.problem(Problem{Kind: "oracle", Stream: "pack", Case: caseText, Impl: jr.Out, Msg: "C09: producer " + jr.Out + ": " + jr.Err})
			continue
		}
		implLine := jr.Out + " " + jr.Extra
		res.Compared++
		if !fieldsEqualWild(implLine, modelOut[i]) {
			res.problem(Problem{Kind: "correspondence", Stream: "pack", Case: caseText, Impl: truncate(implLine, 600), Model: truncate(modelOut[i], 600),
				Msg: firstEntryDiff(implLine, modelOut[i])})
		}
		if strings.Count(jr.Extra, " ") > 24 {
			res.nontrivial(lines[i])
		}
		for _, p := range oraclePack(c, &jr) {
			if p.Sig != "" && !pkSigReportable(family, p.Sig) {
				res.count("known-finding-of-another-property:" + p.Sig)
				continue
			}
			if p.Sig != "" {
				// a few examples per known finding; the rest must not crowd real problems out of the capped list
				sigShown[p.Sig]++
				if sigShown[p.Sig] > 2 {
					continue
				}
			}
			p.Case = caseText
			res.problem(p)
		}
		if i < 3 {
			res.sample(truncate(lines[i], 300) + " => " + truncate(implLine, 300))
		}
	}
	// a file that shrinks while it is being archived (see job_packshrink.go)
	if (family == "chroot" || family == "mixed") && cfg.Replay == "" {
		var sc []string
		for i, sz := range []int{32768, 40000, 100000, 32768} {
			c := packShrinkCase{Size: sz, Keep: []int{16, 0, 33000, 1}[i], Chroot: family == "chroot" || i%2 == 0}
			b, _ := json.Marshal(c)
			sc = append(sc, "packshrink "+string(b))
		}
		runPackShrink(cfg, res, sc)
	}
	for k, v := range packOracleStats {
		res.Distribution[k] += v
	}
	return res
}

func runPackShrink(cfg *Config, res *Result, sc []string) {
	{
		var sj []Job
		for i, c := range sc {
			sj = append(sj, Job{ID: i, Kind: "packshrink", Args: []string{strings.TrimPrefix(c, "packshrink ")}})
		}
		for i, jr := range runArena(cfg, sj, 30*time.Second) {
			res.Evaluations++
			res.count("shrink:" + jr.Out)
			if jr.Out == "setup" || jr.ID < 0 {
				res.count("shrink-setup-failed")
				continue
			}
			if jr.Out == "panic" || jr.Out == "hang" {
				res.problem(Problem{Kind: "oracle", Stream: "pack", Case: sc[i], Msg: "C09: producer " + jr.Out + " when a file shrank while being archived: " + jr.Err})
				continue
			}
			if jr.Extra != "" {
				res.problem(Problem{Kind: "oracle", Stream: "pack", Case: sc[i], Msg: "C07: a file under the root shrank while being archived: " + jr.Extra})
			}
		}
	}
}

// fieldsEqualWild: equal field by field; "*" on the model side matches anything (implicit mtimes)
func fieldsEqualWild(impl, model string) bool {
	fa, fb := strings.Fields(impl), strings.Fields(model)
	if len(fa) != len(fb) {
		return false
	}
	for i := range fa {
		if fa[i] != fb[i] && fb[i] != "*" {
			return false
		}
	}
	return true
}

func firstEntryDiff(a, b string) string {
	fa, fb := strings.Fields(a), strings.Fields(b)
	for i := 0; i < len(fa) && i < len(fb); i++ {
		if fa[i] != fb[i] && fb[i] != "*" {
			return fmt.Sprintf("field %d: impl=%s model=%s (impl has %d fields, model %d)", i, truncate(fa[i], 60), truncate(fb[i], 60), len(fa), len(fb))
		}
	}
	return fmt.Sprintf("length: impl has %d fields, model %d", len(fa), len(fb))
}
