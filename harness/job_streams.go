package main

// Stream "streams" (property C17), code shared by parent and arena child: case types, the
// deterministic tree / archive / payload builders and the process census.

import (
	"archive/tar"
	"bytes"
	"encoding/json"
	"fmt"
	"io"
	"os"
	"path/filepath"
	"runtime"
	"sort"
	"strconv"
	"strings"
	"time"

	"golang.org/x/sys/unix"
)

// ---- case description (self-contained: a case is replayable from its JSON alone) ----

type stTree struct {
	Seed   uint64 `json:"seed"`
	Small  int    `json:"small"`          // number of small files
	Big    []int  `json:"big,omitempty"`  // sizes of the large files; the last one is /w/src/zz_big.bin (the mutation victim)
	Fifo   bool   `json:"fifo,omitempty"` // fifos in the tree
	Sock   bool   `json:"sock,omitempty"` // a socket in the tree (tar cannot archive it: logged and skipped)
	Owners bool   `json:"own,omitempty"`  // some files owned by uid/gid 5000
}

type stFault struct {
	Kind    string `json:"kind,omitempty"` // "" | fail (custom error at byte Pos) | trunc (EOF at byte Pos)
	Pos     int    `json:"pos,omitempty"`
	FromEnd bool   `json:"fromEnd,omitempty"` // Pos counts back from the end of the input
	Chunk   int    `json:"chunk,omitempty"`   // max bytes per Read of the input reader (0 = unlimited)
}

type stMem struct {
	Seed  uint64 `json:"seed"`
	Sizes []int  `json:"sizes"` // one regular entry per size, plus fixed dir / link / symlink / long-name entries
}

type stProd struct {
	Kind    string            `json:"kind"` // tar tarplain export rebase replace resource chroottar decomp generate
	Comp    string            `json:"comp,omitempty"`
	Src     string            `json:"src,omitempty"` // source path (absolute)
	Root    string            `json:"root,omitempty"`
	Inc     []string          `json:"inc,omitempty"`
	Exc     []string          `json:"exc,omitempty"`
	SrcDir  bool              `json:"srcdir,omitempty"`
	Rebase  map[string]string `json:"rebase,omitempty"`
	IDMap   bool              `json:"idmap,omitempty"`
	Input   string            `json:"input,omitempty"` // mem | live
	Mem     *stMem            `json:"mem,omitempty"`
	Fault   stFault           `json:"fault,omitempty"`
	Mods    []string          `json:"mods,omitempty"` // "name=action"
	Old     string            `json:"old,omitempty"`
	New     string            `json:"new,omitempty"`
	Payload int               `json:"payload,omitempty"` // decomp: payload size
	PSeed   uint64            `json:"pseed,omitempty"`
	NoPigz  bool              `json:"nopigz,omitempty"`
	Pairs   []string          `json:"pairs,omitempty"` // generate
}

type stCons struct {
	Mode     string `json:"mode"` // drain | stop | mutdrain | mutstop
	K        int    `json:"k"`    // >=0 bytes; -1 = total-1; -2 = total; -3 = inside the victim's header block
	Buf      int    `json:"buf"`
	CloseErr bool   `json:"closeErr,omitempty"` // CloseWithError(custom) when the stream is an *io.PipeReader
	Mut      string `json:"mut,omitempty"`      // truncate | shrink | grow | remove | rmdir
	More     int    `json:"more,omitempty"`     // mutstop: bytes to read after the mutation
}

type stCopy struct {
	Method string `json:"method"` // CopyFileWithTar CopyWithTar TarUntar UntarPath
	Arch   string `json:"arch"`   // default | chroot
	IDMap  bool   `json:"idmap,omitempty"`
	Src    string `json:"src"` // file:<size> dir missing sock nodev tar tgz ownedfile owneddir ownedtar
	Dst    string `json:"dst"` // new slash deep parentfile full fullino
}

type stCase struct {
	I    int     `json:"i"`
	Tree stTree  `json:"tree"`
	Prod *stProd `json:"prod,omitempty"`
	Cons *stCons `json:"cons,omitempty"`
	Copy *stCopy `json:"copy,omitempty"`
}

func (c *stCase) text() string {
	cc := *c
	cc.I = 0
	b, _ := json.Marshal(cc)
	return string(b)
}

type stProb struct {
	Msg    string `json:"msg"`
	Sig    string `json:"sig,omitempty"`
	Timing bool   `json:"timing,omitempty"` // verdict rests on a deadline / settle ceiling: confirmed by an isolated re-run
}

type stOut struct {
	I     int      `json:"i"`
	P     []stProb `json:"p,omitempty"`
	C     []string `json:"c,omitempty"`
	Skip  string   `json:"skip,omitempty"`
	Setup string   `json:"setup,omitempty"`
	Bytes int64    `json:"bytes"`
	Ms    int64    `json:"ms"`
}

func (o *stOut) count(k string) { o.C = append(o.C, k) }
func (o *stOut) prob(f string, a ...interface{}) {
	o.P = append(o.P, stProb{Msg: fmt.Sprintf(f, a...)})
}
func (o *stOut) probT(f string, a ...interface{}) {
	o.P = append(o.P, stProb{Msg: fmt.Sprintf(f, a...), Timing: true})
}

// ---- deterministic content ----

// stFill fills b with half-compressible bytes derived from seed.
func stFill(b []byte, seed uint64) {
	r := &Rng{s: seed*0x9E3779B97F4A7C15 + 77}
	for i := 0; i < len(b); {
		w := r.next()
		n := 64
		if len(b)-i < n {
			n = len(b) - i
		}
		if w&1 == 0 {
			c := byte(w >> 8)
			for k := 0; k < n; k++ {
				b[i+k] = c
			}
		} else {
			for k := 0; k < n; k += 8 {
				v := r.next()
				for q := 0; q < 8 && k+q < n; q++ {
					b[i+k+q] = byte(v >> (8 * q))
				}
			}
		}
		i += n
	}
}

func stPayload(seed uint64, size int) []byte {
	b := make([]byte, size)
	stFill(b, seed)
	copy(b, "PAYLOAD\n........")
	return b
}

var stSmallSizes = []int{0, 0, 1, 1, 7, 100, 100, 511, 512, 513, 1000, 1000, 4096, 20000, 32767, 32768, 32769, 65536, 65537}

const stVictim = "/w/src/zz_big.bin"
const stVictimDir = "/w/src/zz_dir"

// stBuildTree creates /w/src from the spec (and empty /w/dst, regular file /w/dstfile).
func stBuildTree(t stTree) error {
	old := unix.Umask(0)
	defer unix.Umask(old)
	r := newRng(t.Seed)
	dirs := []string{"/w/src", "/w/src/d00", "/w/src/d01", "/w/src/d02", "/w/src/d03", "/w/src/d03/sub", "/w/src/d03/sub/deep", "/w/src/d04", "/w/src/d05", stVictimDir}
	for _, d := range append([]string{"/w/dst"}, dirs...) {
		if err := os.MkdirAll(d, 0o755); err != nil {
			return err
		}
	}
	if err := os.WriteFile("/w/dstfile", []byte("regular"), 0o644); err != nil {
		return err
	}
	buf := make([]byte, 70000)
	prev := ""
	for i := 0; i < t.Small; i++ {
		d := dirs[r.intn(len(dirs))]
		name := fmt.Sprintf("f%03d", i)
		if i%37 == 5 {
			name = fmt.Sprintf("f%03d-%s", i, strings.Repeat("longname", 15)) // > 100 bytes: PAX path record
		}
		p := d + "/" + name
		sz := stSmallSizes[r.intn(len(stSmallSizes))]
		stFill(buf[:sz], t.Seed+uint64(i)*31)
		if err := os.WriteFile(p, buf[:sz], os.FileMode(0o600+r.intn(2)*0o44)); err != nil {
			return err
		}
		if t.Owners && i%9 == 4 {
			if err := os.Lchown(p, 5000, 5000); err != nil {
				return err
			}
		}
		if i%10 == 3 && prev != "" {
			if err := os.Link(prev, dirs[r.intn(len(dirs))]+fmt.Sprintf("/h%03d", i)); err != nil {
				return err
			}
		}
		if i%12 == 7 {
			target := name
			if i%24 == 7 {
				target = "nonexistent"
			}
			if err := os.Symlink(target, d+fmt.Sprintf("/s%03d", i)); err != nil {
				return err
			}
		}
		prev = p
	}
	if err := os.Symlink("../d00", "/w/src/d01/updir"); err != nil {
		return err
	}
	if t.Fifo {
		for _, p := range []string{"/w/src/a_fifo", "/w/src/d01/p01", "/w/src/zz_fifo", stVictimDir + "/p02"} {
			if err := unix.Mknod(p, unix.S_IFIFO|0o644, 0); err != nil {
				return err
			}
		}
	}
	if t.Sock {
		if err := unix.Mknod("/w/src/d02/sock", unix.S_IFSOCK|0o644, 0); err != nil {
			return err
		}
	}
	for i := 0; i < 5; i++ {
		if err := os.WriteFile(fmt.Sprintf("%s/v%d", stVictimDir, i), buf[:3000+i], 0o644); err != nil {
			return err
		}
	}
	for i, sz := range t.Big {
		p := fmt.Sprintf("/w/src/d03/m_big%d.bin", i)
		if i == len(t.Big)-1 {
			p = stVictim
		}
		if err := stWriteBig(p, sz, t.Seed+uint64(i)*977); err != nil {
			return err
		}
	}
	return nil
}

func stWriteBig(p string, sz int, seed uint64) error {
	b := make([]byte, sz)
	stFill(b, seed)
	return os.WriteFile(p, b, 0o644)
}

// ---- in-memory tar input for the rewriters ----

type stMemEntry struct {
	Name           string
	HdrStart, Body int // offsets: start of the entry's first header block, start of its body
	Size           int
	End            int // end of padding
}

// stBuildMemTar is pure: parent (to choose fault offsets) and child (to run) build the same bytes.
func stBuildMemTar(m stMem) ([]byte, []stMemEntry) {
	var buf bytes.Buffer
	tw := tar.NewWriter(&buf)
	var ents []stMemEntry
	mt := time.Unix(1700000000, 0)
	add := func(h *tar.Header, body []byte) {
		h.ModTime = mt
		h.Format = tar.FormatPAX
		_ = tw.Flush()
		e := stMemEntry{Name: h.Name, HdrStart: buf.Len(), Size: len(body)}
		if err := tw.WriteHeader(h); err != nil {
			panic(err)
		}
		e.Body = buf.Len()
		if len(body) > 0 {
			tw.Write(body)
		}
		_ = tw.Flush()
		e.End = buf.Len()
		ents = append(ents, e)
	}
	add(&tar.Header{Typeflag: tar.TypeDir, Name: "base/", Mode: 0o755}, nil)
	for i, sz := range m.Sizes {
		b := make([]byte, sz)
		stFill(b, m.Seed+uint64(i))
		name := fmt.Sprintf("base/m%02d", i)
		if i%5 == 3 {
			name = fmt.Sprintf("base/m%02d-%s", i, strings.Repeat("x", 120))
		}
		add(&tar.Header{Typeflag: tar.TypeReg, Name: name, Mode: 0o644, Size: int64(sz), Uid: i, Gid: i}, b)
		if i == 0 {
			add(&tar.Header{Typeflag: tar.TypeLink, Name: "base/hard", Linkname: name, Mode: 0o644}, nil)
			add(&tar.Header{Typeflag: tar.TypeSymlink, Name: "base/sym", Linkname: "m00", Mode: 0o777}, nil)
		}
	}
	add(&tar.Header{Typeflag: tar.TypeFifo, Name: "base/fifo", Mode: 0o644}, nil)
	tw.Close()
	return buf.Bytes(), ents
}

// ---- fault-injecting input reader (deliberately no Seek / WriteTo) ----

type stCustomErr struct{ s string }

func (e *stCustomErr) Error() string { return e.s }

var stErrInput = &stCustomErr{"streams: injected input failure"}
var stErrClose = &stCustomErr{"streams: consumer closed with custom error"}
var stErrMod = &stCustomErr{"streams: modifier failure"}

type stFaultReader struct {
	data   []byte
	off    int
	limit  int // fault position (len(data) when no fault)
	fail   bool
	chunk  int
	closed int
}

func stNewFaultReader(data []byte, f stFault) *stFaultReader {
	r := &stFaultReader{data: data, limit: len(data), chunk: f.Chunk}
	if f.Kind != "" {
		p := f.Pos
		if f.FromEnd {
			p = len(data) - f.Pos
		}
		if p < 0 {
			p = 0
		}
		if p < len(data) {
			r.limit = p
			r.fail = f.Kind == "fail"
		}
	}
	return r
}

func (r *stFaultReader) faulty() bool { return r.limit < len(r.data) }

func (r *stFaultReader) Read(p []byte) (int, error) {
	if r.off >= r.limit {
		if r.fail {
			return 0, stErrInput
		}
		return 0, io.EOF
	}
	n := len(p)
	if r.chunk > 0 && n > r.chunk {
		n = r.chunk
	}
	if n > r.limit-r.off {
		n = r.limit - r.off
	}
	copy(p, r.data[r.off:r.off+n])
	r.off += n
	return n, nil
}

func (r *stFaultReader) Close() error { r.closed++; return nil }

// ---- census: goroutines, fds, children ----

var stLeakPatterns = []string{"github.com/moby/go-archive", "os/exec.", "klauspost/compress/zstd"}

// stGoroutines returns id -> (first matching pattern + top frames) for goroutines that run library code or
// helpers the library started.
func stGoroutines() map[string]string {
	buf := make([]byte, 1<<16)
	for {
		n := runtime.Stack(buf, true)
		if n < len(buf) {
			buf = buf[:n]
			break
		}
		buf = make([]byte, 2*len(buf))
	}
	out := map[string]string{}
	for _, blk := range strings.Split(string(buf), "\n\n") {
		if !strings.HasPrefix(blk, "goroutine ") {
			continue
		}
		if strings.Contains(blk, "main.stGoroutines") {
			continue
		}
		hit := ""
		for _, p := range stLeakPatterns {
			if strings.Contains(blk, p) {
				hit = p
				break
			}
		}
		if hit == "" {
			continue
		}
		f := strings.Fields(blk)
		id := f[1]
		var frames []string
		lib := ""
		for _, l := range strings.Split(blk, "\n")[1:] {
			if strings.HasPrefix(l, "\t") {
				continue
			}
			if i := strings.LastIndex(l, "("); i > 0 {
				l = l[:i]
			}
			if len(frames) < 4 {
				frames = append(frames, l)
			} else if lib == "" && strings.Contains(l, hit) {
				lib = l
			}
		}
		if lib != "" {
			frames = append(frames, "...", lib)
		}
		out[id] = strings.Join(frames, " < ")
	}
	return out
}

func stFds() map[int]string {
	out := map[int]string{}
	d, err := os.Open("/proc/self/fd")
	if err != nil {
		return out
	}
	self := int(d.Fd())
	names, _ := d.Readdirnames(-1)
	for _, n := range names {
		fd, err := strconv.Atoi(n)
		if err != nil || fd == self {
			continue
		}
		t, err := os.Readlink("/proc/self/fd/" + n)
		if err != nil {
			continue
		}
		out[fd] = t
	}
	d.Close()
	return out
}

// stChildren lists processes whose parent is this process (zombies included), pid -> "comm state".
func stChildren() map[int]string {
	out := map[int]string{}
	self := os.Getpid()
	ents, err := os.ReadDir("/proc")
	if err != nil {
		return out
	}
	for _, e := range ents {
		pid, err := strconv.Atoi(e.Name())
		if err != nil || pid == self {
			continue
		}
		b, err := os.ReadFile("/proc/" + e.Name() + "/stat")
		if err != nil {
			continue
		}
		s := string(b)
		i, j := strings.Index(s, "("), strings.LastIndex(s, ")")
		if i < 0 || j < i {
			continue
		}
		f := strings.Fields(s[j+1:])
		if len(f) < 2 {
			continue
		}
		if ppid, _ := strconv.Atoi(f[1]); ppid == self {
			out[pid] = s[i+1:j] + " " + f[0]
		}
	}
	return out
}

type stCensus struct {
	fds      map[int]string
	children map[int]string
}

// ignored across cases of one child: whatever an earlier (already reported) case left behind
var stIgnoreGo = map[string]bool{}
var stIgnorePid = map[int]bool{}

func stBaseline() stCensus { return stCensus{fds: stFds(), children: stChildren()} }

func stFdRuntime(t string) bool {
	return strings.HasPrefix(t, "anon_inode:[eventpoll]") || strings.HasPrefix(t, "anon_inode:[eventfd]")
}

// leftovers describes what is still there relative to the baseline ("" = clean).
func (b stCensus) leftovers() string {
	var out []string
	for id, fr := range stGoroutines() {
		if !stIgnoreGo[id] {
			out = append(out, "goroutine "+id+" ["+fr+"]")
		}
	}
	for fd, t := range stFds() {
		if bt, ok := b.fds[fd]; ok && bt == t {
			continue
		}
		if stFdRuntime(t) {
			continue
		}
		out = append(out, fmt.Sprintf("fd %d -> %s", fd, t))
	}
	for pid, d := range stChildren() {
		if _, ok := b.children[pid]; ok || stIgnorePid[pid] {
			continue
		}
		out = append(out, fmt.Sprintf("child process %d (%s)", pid, d))
	}
	sort.Strings(out)
	return strings.Join(out, "; ")
}

// settle polls until nothing is left or the ceiling is hit; returns what is left and the time taken.
func (b stCensus) settle(ceiling time.Duration) (string, time.Duration) {
	t0 := time.Now()
	wait := time.Millisecond
	for {
		left := b.leftovers()
		if left == "" || time.Since(t0) > ceiling {
			return left, time.Since(t0)
		}
		time.Sleep(wait)
		if wait < 50*time.Millisecond {
			wait *= 2
		}
	}
}

// absorb makes everything currently left behind invisible to later cases of this child.
func stAbsorb() {
	for id := range stGoroutines() {
		stIgnoreGo[id] = true
	}
	for pid := range stChildren() {
		stIgnorePid[pid] = true
	}
}

func stSettleBucket(d time.Duration) string {
	switch {
	case d < time.Millisecond:
		return "settle:<1ms"
	case d < 10*time.Millisecond:
		return "settle:<10ms"
	case d < 100*time.Millisecond:
		return "settle:<100ms"
	case d < time.Second:
		return "settle:<1s"
	}
	return "settle:>=1s"
}

func stRel(p string) string { r, _ := filepath.Rel("/w/src", p); return r }
