package main

import (
	"bufio"
	"encoding/json"
	"fmt"
	"os"
	"path"
	"sort"
	"strconv"
	"strings"
	"time"

	"golang.org/x/sys/unix"

	archive "github.com/moby/go-archive"
)

// Arena side of the "roundtrip" stream (C03, C04, C11, C12): shared tree builder, scanner and
// comparison. Every case is generated INSIDE the arena child from (family, seed): file bodies of
// 64 KiB with arbitrary bytes and capability values are not valid JSON strings, so only the seed
// crosses the process boundary. A case is therefore replayable from "<family> <seed>".

func init() { jobKinds["roundtrip"] = rtJob }

// rtNode is one object of a generated tree, path relative to the tree's top directory.
type rtNode struct {
	Rel    string
	Kind   byte // d r s c b f
	Perm   uint32
	Uid    int
	Gid    int
	Sec    int64
	Nsec   int64
	Data   string
	Target string
	Maj    uint32
	Min    uint32
	Ino    int    // abstract inode id: names with the same non-zero id are hard links of one inode
	Cap    string // security.capability value as written
	Opaque string // trusted.overlay.opaque value ("" = none)
}

func (n rtNode) brief() string {
	s := fmt.Sprintf("%s %c %o %d:%d %d.%09d", strconv.Quote(n.Rel), n.Kind, n.Perm, n.Uid, n.Gid, n.Sec, n.Nsec)
	switch n.Kind {
	case 'r':
		s += fmt.Sprintf(" len=%d", len(n.Data))
	case 's':
		s += " ->" + strconv.Quote(n.Target)
	case 'c', 'b':
		s += fmt.Sprintf(" %d/%d", n.Maj, n.Min)
	}
	if n.Ino != 0 {
		s += fmt.Sprintf(" ino=%d", n.Ino)
	}
	if n.Cap != "" {
		s += fmt.Sprintf(" cap=rev%d", n.Cap[3])
	}
	if n.Opaque != "" {
		s += " opaque=" + n.Opaque
	}
	return s
}

// rtOut is what one case reports back to the parent.
type rtOut struct {
	Problems   []rtProb       `json:"p,omitempty"`
	Counts     map[string]int `json:"c"`
	Canon      string         `json:"k"`
	Nontrivial bool           `json:"nt"`
	Sample     string         `json:"s,omitempty"`
	Setup      string         `json:"setup,omitempty"`
}

type rtProb struct {
	Clause string `json:"clause"`
	Msg    string `json:"msg"`
	Sig    string `json:"sig,omitempty"`
}

func (o *rtOut) count(k string) { o.Counts[k]++ }
func (o *rtOut) countN(k string, n int) {
	if n != 0 {
		o.Counts[k] += n
	}
}
func (o *rtOut) problem(clause, msg string) {
	if len(o.Problems) < 4 {
		o.Problems = append(o.Problems, rtProb{Clause: clause, Msg: msg})
	}
}
func (o *rtOut) known(sig, clause, msg string) {
	if len(o.Problems) < 4 {
		o.Problems = append(o.Problems, rtProb{Clause: clause, Msg: msg, Sig: sig})
	}
}

func rtJob(j *Job, res *JobResult) {
	out := &rtOut{Counts: map[string]int{}}
	if len(j.Args) < 2 {
		res.Out, res.Err = "setup", "roundtrip job needs family and seed"
		return
	}
	seed, err := strconv.ParseUint(j.Args[1], 10, 64)
	if err != nil {
		res.Out, res.Err = "setup", "bad seed "+j.Args[1]
		return
	}
	if err := rtCleanWorld(); err != nil {
		res.Out, res.Err = "setup", "clean world: "+err.Error()
		return
	}
	old := unix.Umask(0)
	defer unix.Umask(old)
	defer rtCleanWorld()
	r := &Rng{s: seed}
	switch j.Args[0] {
	case "tar":
		rtTarCase(r, out)
	case "diff":
		rtDiffCase(r, out)
	case "overlay":
		rtOverlayCase(r, out)
	case "owner":
		rtOwnerCase(r, out)
	default:
		out.Setup = "unknown family " + j.Args[0]
	}
	unix.Umask(0)
	if s := strayRootEntries(); s != "" {
		// nothing in these families is specified to write outside /w; report it as an environment fact
		out.count("stray-root-entries")
	}
	res.Out = "ok"
	if out.Setup != "" {
		res.Out, res.Err = "setup", out.Setup
	}
	b, _ := json.Marshal(out)
	res.Extra = string(b)
}

// rtCleanWorld unmounts everything mounted beneath /w (deepest first) and empties /w.
func rtCleanWorld() error {
	f, err := os.Open("/proc/self/mountinfo")
	if err == nil {
		var mps []string
		sc := bufio.NewScanner(f)
		for sc.Scan() {
			fs := strings.Fields(sc.Text())
			if len(fs) > 4 && strings.HasPrefix(fs[4], "/w/") {
				mps = append(mps, fs[4])
			}
		}
		f.Close()
		sort.Sort(sort.Reverse(sort.StringSlice(mps)))
		for _, mp := range mps {
			_ = unix.Unmount(mp, unix.MNT_DETACH)
		}
	}
	return resetWorld()
}

// ---- building ----

// rtBuilder creates trees from node lists. inoPath remembers, per (domain, abstract inode), one path
// that already holds the inode: a later name of the same inode becomes a hard link to it. The
// domain separates filesystems and, for independent snapshot storage, snapshots.
type rtBuilder struct {
	inoPath map[string]string
}

func newRtBuilder() *rtBuilder { return &rtBuilder{inoPath: map[string]string{}} }

// build creates nodes below top (which must exist). domain(rel) names the inode namespace of a
// path; mount lists relative directories on which a fresh tmpfs is mounted before their children
// are created.
func (b *rtBuilder) build(top string, nodes []rtNode, domain func(rel string) string, mounts map[string]bool) error {
	ns := append([]rtNode(nil), nodes...)
	sort.SliceStable(ns, func(i, j int) bool { return ns[i].Rel < ns[j].Rel })
	fresh := make([]bool, len(ns))
	for i, n := range ns {
		p := top + "/" + n.Rel
		if n.Kind != 'd' && n.Ino != 0 {
			key := domain(n.Rel) + "#" + strconv.Itoa(n.Ino)
			if first, ok := b.inoPath[key]; ok {
				if err := os.Link(first, p); err != nil {
					return fmt.Errorf("link %s: %w", n.Rel, err)
				}
				continue
			}
			b.inoPath[key] = p
		}
		fresh[i] = true
		var err error
		switch n.Kind {
		case 'd':
			err = os.Mkdir(p, 0o700)
			if err == nil && mounts[n.Rel] {
				err = unix.Mount("tmpfs", p, "tmpfs", 0, "size=4m,mode=0700")
			}
		case 'r':
			err = os.WriteFile(p, []byte(n.Data), 0o600)
		case 's':
			err = os.Symlink(n.Target, p)
		case 'c':
			err = unix.Mknod(p, unix.S_IFCHR|0o600, int(unix.Mkdev(n.Maj, n.Min)))
		case 'b':
			err = unix.Mknod(p, unix.S_IFBLK|0o600, int(unix.Mkdev(n.Maj, n.Min)))
		case 'f':
			err = unix.Mknod(p, unix.S_IFIFO|0o600, 0)
		default:
			err = fmt.Errorf("bad kind %c", n.Kind)
		}
		if err != nil {
			return fmt.Errorf("create %s: %w", strconv.Quote(n.Rel), err)
		}
	}
	// owner first (chown clears set-id bits and capabilities), then mode, then xattrs
	for i, n := range ns {
		if !fresh[i] {
			continue
		}
		p := top + "/" + n.Rel
		if err := os.Lchown(p, n.Uid, n.Gid); err != nil {
			return fmt.Errorf("lchown %s: %w", n.Rel, err)
		}
		if n.Kind != 's' {
			if err := unix.Chmod(p, n.Perm&0o7777); err != nil {
				return fmt.Errorf("chmod %s: %w", n.Rel, err)
			}
		}
		if n.Cap != "" {
			if err := unix.Lsetxattr(p, "security.capability", []byte(n.Cap), 0); err != nil {
				return fmt.Errorf("setcap %s: %w", n.Rel, err)
			}
		}
		if n.Opaque != "" {
			if err := unix.Setxattr(p, "trusted.overlay.opaque", []byte(n.Opaque), 0); err != nil {
				return fmt.Errorf("set opaque %s: %w", n.Rel, err)
			}
		}
	}
	// times last, deepest first, so that creating children does not disturb a parent
	for i := len(ns) - 1; i >= 0; i-- {
		n := ns[i]
		ts := []unix.Timespec{{Sec: n.Sec, Nsec: n.Nsec}, {Sec: n.Sec, Nsec: n.Nsec}}
		if err := unix.UtimesNanoAt(unix.AT_FDCWD, top+"/"+n.Rel, ts, unix.AT_SYMLINK_NOFOLLOW); err != nil {
			return fmt.Errorf("utimes %s: %w", n.Rel, err)
		}
	}
	return nil
}

func rtOneDomain(string) string { return "x" }

// rtMkTop creates an empty top directory.
func rtMkTop(p string, perm uint32) error {
	if err := os.Mkdir(p, 0o700); err != nil {
		return err
	}
	return unix.Chmod(p, perm)
}

// ---- scanning ----

// rtS is one scanned object: scanWorld's node with the path made relative, plus the nanosecond
// part of the mtime and the overlay opaque attribute.
type rtS struct {
	Node
	Nsec   int64
	Opaque string
}

func rtScan(top string) ([]rtS, error) {
	ns, err := scanWorld(top)
	if err != nil {
		return nil, err
	}
	out := make([]rtS, 0, len(ns))
	type devIno struct{ dev, ino uint64 }
	ids := make([]devIno, 0, len(ns))
	cnt := map[devIno]int{}
	for _, n := range ns {
		s := rtS{Node: n}
		var st unix.Stat_t
		if err := unix.Lstat(n.Path, &st); err != nil {
			return nil, err
		}
		ids = append(ids, devIno{st.Dev, st.Ino})
		if n.Kind != 'd' {
			cnt[devIno{st.Dev, st.Ino}]++
		}
		s.Nsec = st.Mtim.Nsec
		if n.Kind == 'd' {
			buf := make([]byte, 64)
			if sz, err := unix.Lgetxattr(n.Path, "trusted.overlay.opaque", buf); err == nil {
				s.Opaque = string(buf[:sz])
			}
		}
		s.Path = strings.TrimPrefix(n.Path, top+"/")
		out = append(out, s)
	}
	// hard-link groups by (device, inode): scanWorld groups by inode number alone, which merges
	// unrelated files of different filesystems (the submount variant of the diff family)
	next, assigned := 1, map[devIno]int{}
	for i := range out {
		out[i].Group = 0
		if out[i].Kind == 'd' || cnt[ids[i]] < 2 {
			continue
		}
		if g, ok := assigned[ids[i]]; ok {
			out[i].Group = g
		} else {
			assigned[ids[i]] = next
			out[i].Group = next
			next++
		}
	}
	return out, nil
}

// rtSpecScan renders a node list the way rtScan would see the tree built from it (groups
// renumbered in path order), for checking the builder and for expected-tree comparisons.
func rtSpecScan(nodes []rtNode) []rtS {
	ns := append([]rtNode(nil), nodes...)
	sort.SliceStable(ns, func(i, j int) bool { return ns[i].Rel < ns[j].Rel })
	cnt := map[int]int{}
	for _, n := range ns {
		if n.Kind != 'd' && n.Ino != 0 {
			cnt[n.Ino]++
		}
	}
	next, assigned := 1, map[int]int{}
	var out []rtS
	for _, n := range ns {
		s := rtS{Node: Node{Path: n.Rel, Kind: n.Kind, Perm: n.Perm & 0o7777, Uid: n.Uid, Gid: n.Gid, Mtime: n.Sec, Cap: n.Cap}, Nsec: n.Nsec, Opaque: n.Opaque}
		switch n.Kind {
		case 'r':
			s.Data = n.Data
		case 's':
			s.Target = n.Target
			s.Perm = 0o777
		case 'c', 'b':
			s.Maj, s.Min = n.Maj, n.Min
		}
		if n.Kind != 'd' && cnt[n.Ino] >= 2 {
			if g, ok := assigned[n.Ino]; ok {
				s.Group = g
			} else {
				assigned[n.Ino] = next
				s.Group = next
				next++
			}
		}
		out = append(out, s)
	}
	return out
}

// rtCapNorm is the documented rewrite of a revision-3 capability to revision 2.
func rtCapNorm(c string) string {
	if len(c) >= 20 && c[3] == 3 {
		b := []byte(c[:20])
		b[3] = 2
		return string(b)
	}
	return c
}

// rtCmp selects what a comparison covers.
type rtCmp struct {
	DirMtime  bool
	FileMtime bool // seconds
	FsTime    bool // non-directory mtimes by the library's own sameFsTime rule at ns resolution
	Groups    bool
	Caps      bool
	Opaque    bool
	Skip      func(rel string, want, got *rtS) bool // exclude a path from the per-field comparison (still must exist)
}

// rtCompare returns the first difference (clause, message) between the wanted and the observed
// tree, or "", "". count is called once per non-vacuous check.
func rtCompare(want, got []rtS, c rtCmp, count func(string)) (string, string) {
	wm := map[string]*rtS{}
	for i := range want {
		wm[want[i].Path] = &want[i]
	}
	gm := map[string]*rtS{}
	for i := range got {
		gm[got[i].Path] = &got[i]
	}
	var keys []string
	for k := range wm {
		keys = append(keys, k)
	}
	for k := range gm {
		if _, ok := wm[k]; !ok {
			keys = append(keys, k)
		}
	}
	sort.Strings(keys)
	for _, k := range keys {
		w, g := wm[k], gm[k]
		if g == nil {
			return "paths", fmt.Sprintf("%s (%c) is missing from the result", strconv.Quote(k), w.Kind)
		}
		if w == nil {
			return "paths", fmt.Sprintf("%s (%c) exists in the result only", strconv.Quote(k), g.Kind)
		}
		count("paths")
		if c.Skip != nil && c.Skip(k, w, g) {
			continue
		}
		if w.Kind != g.Kind {
			return "type", fmt.Sprintf("%s: type %c, want %c", strconv.Quote(k), g.Kind, w.Kind)
		}
		count("type")
		if w.Perm != g.Perm {
			return "perm", fmt.Sprintf("%s (%c): mode %o, want %o", strconv.Quote(k), w.Kind, g.Perm, w.Perm)
		}
		if w.Kind != 's' {
			count("perm")
			if w.Perm&0o7000 != 0 {
				count("perm-special")
			}
		}
		if w.Uid != g.Uid || w.Gid != g.Gid {
			return "owner", fmt.Sprintf("%s (%c): owner %d:%d, want %d:%d", strconv.Quote(k), w.Kind, g.Uid, g.Gid, w.Uid, w.Gid)
		}
		count("owner")
		switch w.Kind {
		case 'r':
			if w.Data != g.Data {
				return "content", fmt.Sprintf("%s: content differs (len %d, want %d)", strconv.Quote(k), len(g.Data), len(w.Data))
			}
			count("content")
		case 's':
			if w.Target != g.Target {
				return "symlink-target", fmt.Sprintf("%s: target %s, want %s", strconv.Quote(k), strconv.Quote(g.Target), strconv.Quote(w.Target))
			}
			count("symlink-target")
		case 'c', 'b':
			if w.Maj != g.Maj || w.Min != g.Min {
				return "rdev", fmt.Sprintf("%s: device %d/%d, want %d/%d", strconv.Quote(k), g.Maj, g.Min, w.Maj, w.Min)
			}
			count("rdev")
		}
		if c.Caps {
			if rtCapNorm(w.Cap) != g.Cap {
				return "capability", fmt.Sprintf("%s: security.capability %q, want %q", strconv.Quote(k), g.Cap, rtCapNorm(w.Cap))
			}
			if w.Cap != "" {
				count("capability")
			}
		}
		if c.Opaque && w.Kind == 'd' {
			wo, gopq := w.Opaque == "y", g.Opaque == "y"
			if wo != gopq {
				return "opaque", fmt.Sprintf("%s: opaque attribute %q, want %q", strconv.Quote(k), g.Opaque, w.Opaque)
			}
			if wo {
				count("opaque")
			}
		}
		if w.Kind == 'd' {
			if c.DirMtime {
				if w.Mtime != g.Mtime {
					return "mtime-dir", fmt.Sprintf("%s: directory mtime %d, want %d", strconv.Quote(k), g.Mtime, w.Mtime)
				}
				count("mtime-dir")
			}
		} else if c.FsTime {
			if !archive.VerifSameFsTime(time.Unix(w.Mtime, w.Nsec), time.Unix(g.Mtime, g.Nsec)) {
				return "mtime-file", fmt.Sprintf("%s (%c): mtime %d.%09d, want %d.%09d (sameFsTime rule)", strconv.Quote(k), w.Kind, g.Mtime, g.Nsec, w.Mtime, w.Nsec)
			}
			count("mtime-file")
		} else if c.FileMtime {
			if w.Mtime != g.Mtime {
				return "mtime-file", fmt.Sprintf("%s (%c): mtime %d, want %d", strconv.Quote(k), w.Kind, g.Mtime, w.Mtime)
			}
			count("mtime-file")
		}
	}
	if c.Groups {
		wp, gp := rtPartition(want, c.Skip), rtPartition(got, c.Skip)
		if wp != gp {
			return "hardlinks", fmt.Sprintf("hard-link partition %s, want %s", gp, wp)
		}
		if wp != "" {
			count("hardlinks")
		}
	}
	return "", ""
}

// rtPartition renders the hard-link partition as a canonical string.
func rtPartition(ns []rtS, skip func(string, *rtS, *rtS) bool) string {
	gs := map[int][]string{}
	for i := range ns {
		n := &ns[i]
		if n.Group == 0 || (skip != nil && skip(n.Path, n, n)) {
			continue
		}
		gs[n.Group] = append(gs[n.Group], n.Path)
	}
	var parts []string
	for _, g := range gs {
		if len(g) < 2 {
			continue
		}
		sort.Strings(g)
		parts = append(parts, "{"+strings.Join(g, ",")+"}")
	}
	sort.Strings(parts)
	return strings.Join(parts, "")
}

// rtCheckBuilt verifies that a freshly built tree is what the generator specified; a difference
// is a harness/environment defect (reported as setup error), never a finding.
func rtCheckBuilt(top string, nodes []rtNode) error {
	got, err := rtScan(top)
	if err != nil {
		return err
	}
	want := rtSpecScan(nodes)
	clause, msg := rtCompare(want, got, rtCmp{DirMtime: true, FsTime: true, Groups: true, Caps: false, Opaque: true}, func(string) {})
	if clause != "" {
		return fmt.Errorf("built tree differs from its specification (%s): %s", clause, msg)
	}
	for i := range want {
		// exact nanoseconds and capability presence
		if want[i].Nsec != got[i].Nsec || want[i].Mtime != got[i].Mtime {
			return fmt.Errorf("built tree: mtime of %q is %d.%09d, specified %d.%09d", want[i].Path, got[i].Mtime, got[i].Nsec, want[i].Mtime, want[i].Nsec)
		}
		if (want[i].Cap == "") != (got[i].Cap == "") {
			return fmt.Errorf("built tree: capability of %q present=%v, specified present=%v", want[i].Path, got[i].Cap != "", want[i].Cap != "")
		}
	}
	return nil
}

// ---- small generator helpers shared by the families ----

var rtCapRev2 = "\x00\x00\x00\x02\x01" + strings.Repeat("\x00", 15)
var rtCapRev3 = "\x00\x00\x00\x03\x01" + strings.Repeat("\x00", 15) + "\xe8\x03\x00\x00" // rootid 1000

func rtBytes(r *Rng, n int) string {
	b := make([]byte, n)
	var x uint64
	for i := range b {
		if i%8 == 0 {
			x = r.next()
		}
		b[i] = byte(x)
		x >>= 8
	}
	return string(b)
}

// rtShapedBytes: file content with structure a copy loop may treat specially — all zero, a zero tail, a zero
// head, or zero and random 32 KiB blocks mixed (holes) — besides plain random bytes.
func rtShapedBytes(r *Rng, n int) (string, string) {
	b := []byte(rtBytes(r, n))
	shape := "random"
	switch r.intn(8) {
	case 0:
		shape = "zeros"
		for i := range b {
			b[i] = 0
		}
	case 1:
		shape = "zero-tail"
		for i := n / 2; i < n; i++ {
			b[i] = 0
		}
		if n > 32768 {
			for i := n - 32768; i < n; i++ {
				b[i] = 0
			}
		}
	case 2:
		shape = "zero-head"
		for i := 0; i < n/2; i++ {
			b[i] = 0
		}
	case 3:
		shape = "holes"
		for blk := 0; blk*32768 < n; blk++ {
			if r.chance(1, 2) {
				for i := blk * 32768; i < (blk+1)*32768 && i < n; i++ {
					b[i] = 0
				}
			}
		}
	}
	return string(b), shape
}

func rtPickInt(r *Rng, xs []int) int       { return xs[r.intn(len(xs))] }
func rtPickU32(r *Rng, xs []uint32) uint32 { return xs[r.intn(len(xs))] }
func rtPickI64(r *Rng, xs []int64) int64   { return xs[r.intn(len(xs))] }
func rtParent(rel string) string {
	d := path.Dir(rel)
	if d == "." {
		return ""
	}
	return d
}
func rtJoin(dir, name string) string {
	if dir == "" {
		return name
	}
	return dir + "/" + name
}
func rtUnder(dir, rel string) bool { return dir == "" || rel == dir || strings.HasPrefix(rel, dir+"/") }
func rtDepth(rel string) int {
	if rel == "" {
		return 0
	}
	return strings.Count(rel, "/") + 1
}

// rtStaysInside reports whether a symlink at rel with the given target stays lexically inside the
// tree (the documented precondition of C03; evaluated without the library).
func rtStaysInside(rel, target string) bool {
	if strings.HasPrefix(target, "/") {
		return false
	}
	c := path.Clean(path.Join(rtParent(rel), target))
	if rtParent(rel) == "" {
		c = path.Clean(target)
	}
	return c != ".." && !strings.HasPrefix(c, "../")
}

func rtHash(s string) string {
	var h uint64 = 14695981039346656037
	for i := 0; i < len(s); i++ {
		h ^= uint64(s[i])
		h *= 1099511628211
	}
	return strconv.FormatUint(h, 16)
}

func rtTreeText(nodes []rtNode) string {
	var sb strings.Builder
	for _, n := range nodes {
		sb.WriteString(n.brief())
		if n.Kind == 'r' {
			sb.WriteString(" h=" + rtHash(n.Data))
		}
		sb.WriteByte('\n')
	}
	return sb.String()
}
