package main

import (
	"encoding/json"
	"fmt"
	"os"
	"path/filepath"
	"strings"
)

// ---- replay encoding ----

type replayFs struct {
	Op      string
	Opts    string
	Dest    string
	Root    string
	Umask   int
	Nodes   []Node
	Archive []byte
	Gzip    bool
}

func encodeReplayCase(c *FsCase) string {
	b, _ := json.Marshal(replayFs{c.Op, c.Opts.String(), c.Dest, c.Root, c.Umask, c.Nodes, c.Archive, c.Gzip})
	return string(b)
}

func decodeFsCase(s string) (*FsCase, error) {
	var r replayFs
	if err := json.Unmarshal([]byte(s), &r); err != nil {
		return nil, err
	}
	c := &FsCase{Op: r.Op, Opts: parseOptSpec(r.Opts), Dest: r.Dest, Root: r.Root, Umask: r.Umask, Nodes: r.Nodes, Archive: r.Archive, Gzip: r.Gzip}
	if err := c.parse(); err != nil {
		return nil, err
	}
	return c, nil
}

func loadReplayCase(path string) (*FsCase, error) {
	b, err := os.ReadFile(path)
	if err != nil {
		return nil, err
	}
	var rp struct {
		Case string `json:"case"`
	}
	if err := json.Unmarshal(b, &rp); err != nil {
		return nil, err
	}
	return decodeFsCase(rp.Case)
}

// ---- independent lexical evaluator (no use of path/filepath) ----

func splitComps(s string) []string { return strings.Split(s, "/") }

// pushRaw resolves the components of s on top of base: "" and "." are skipped, ".." pops (the
// root clamps).  This is what Join(base, s) means when s is not cleaned on its own first.
func pushRaw(base []string, s string) []string {
	st := append([]string(nil), base...)
	for _, c := range splitComps(s) {
		switch c {
		case "", ".":
		case "..":
			if len(st) > 0 {
				st = st[:len(st)-1]
			}
		default:
			st = append(st, c)
		}
	}
	return st
}

// pushCleanFirst: the entry name is cleaned on its own first (an absolute name clamps at its own
// root, a relative one keeps its leading ".."s), then joined to base.
func pushCleanFirst(base []string, name string) []string {
	if strings.HasPrefix(name, "/") {
		return append(append([]string(nil), base...), pushRaw(nil, name)...)
	}
	up := 0
	var st []string
	for _, c := range splitComps(name) {
		switch c {
		case "", ".":
		case "..":
			if len(st) > 0 {
				st = st[:len(st)-1]
			} else {
				up++
			}
		default:
			st = append(st, c)
		}
	}
	b := append([]string(nil), base...)
	for i := 0; i < up && len(b) > 0; i++ {
		b = b[:len(b)-1]
	}
	return append(b, st...)
}

func compsWithin(dest, p []string) bool {
	if len(p) < len(dest) {
		return false
	}
	for i := range dest {
		if dest[i] != p[i] {
			return false
		}
	}
	return true
}

func cleanIsDot(name string) bool {
	return len(pushCleanFirst(nil, name)) == 0 && !strings.HasPrefix(name, "/") && !strings.HasPrefix(strings.TrimLeft(name, "./"), "..") && len(pushRaw(nil, name)) == 0 && !containsUp(name)
}

func containsUp(name string) bool {
	up := 0
	depth := 0
	for _, c := range splitComps(name) {
		switch c {
		case "", ".":
		case "..":
			if depth > 0 {
				depth--
			} else {
				up++
			}
		default:
			depth++
		}
	}
	return up > 0
}

// escapingEntry reports which entry of the archive (if any) the plain extractor must refuse.
func escapingEntry(c *FsCase) (int, string) {
	dest := pushRaw(nil, c.Dest)
	layer := c.Op == "layer"
	for i, e := range c.Ents {
		if e.Typ == "xglobal" {
			continue // PAX global headers are ignored by both extractors before any effect (layers: since fix D26)
		}
		cleaned := strings.Join(pushCleanFirst(nil, e.Name), "/")
		if !layer {
			skip := false
			// Unpack skips names with an excluded (string) prefix; the cleaned relative name is what is compared
			cn := cleaned
			if strings.HasPrefix(e.Name, "/") {
				cn = "/" + cn
			}
			if containsUp(e.Name) && !strings.HasPrefix(e.Name, "/") {
				cn = "" // names with leading ".." are compared in their "../x" form; handled below conservatively
			}
			for _, x := range c.Opts.Excludes {
				if cn != "" && strings.HasPrefix(cn, x) || (cn == "" && (strings.HasPrefix("..", x))) {
					skip = true
				}
			}
			if skip {
				continue
			}
		}
		if layer && !strings.HasPrefix(e.Name, "/") && !containsUp(e.Name) && strings.HasPrefix(cleaned, ".wh..wh.") && cleaned != ".wh..wh..opq" {
			continue // reserved metadata entry: filtered before the guard
		}
		p := pushCleanFirst(dest, e.Name)
		if !compsWithin(dest, p) {
			return i, "name " + e.Name
		}
		if len(p) == len(dest) && !layer {
			continue // the "." entry: Unpack skips it when the destination is a directory
		}
		base := ""
		if len(p) > 0 {
			base = p[len(p)-1]
		}
		dirp := p
		if len(p) > 0 {
			dirp = p[:len(p)-1]
		}
		if layer && strings.HasPrefix(base, ".wh.") {
			if !compsWithin(dest, dirp) {
				return i, "whiteout directory of " + e.Name
			}
			if base != ".wh..wh..opq" {
				t := pushRaw(dirp, base[4:])
				if !compsWithin(dest, t) {
					return i, "whiteout target of " + e.Name
				}
			}
			continue
		}
		if !layer && c.Opts.Overlay && strings.HasPrefix(base, ".wh.") {
			// overlay whiteout format: ConvertRead turns the entry into a whiteout device / opaque xattr at a
			// path derived from its (already checked) name; its type and link fields are never used
			continue
		}
		switch e.Typ {
		case "link":
			if layer && strings.HasPrefix(strings.Join(pushCleanFirst(nil, e.Linkname), "/"), ".wh..wh.plnk") && !strings.HasPrefix(e.Linkname, "/") && !containsUp(e.Linkname) {
				continue // re-sourced from the staging area
			}
			t := pushRaw(dest, e.Linkname)
			if !compsWithin(dest, t) {
				return i, "hard link target " + e.Linkname
			}
		case "sym":
			if strings.HasPrefix(e.Linkname, "/") {
				continue // absolute targets are outside the statement
			}
			t := pushRaw(dirp, e.Linkname)
			if !compsWithin(dest, t) {
				return i, "symlink target " + e.Linkname
			}
		}
	}
	return -1, ""
}

func nodesOutside(o *Outcome, dir string) map[string]string {
	m := map[string]string{}
	for _, n := range o.Nodes {
		p := unhx(n[0])
		if !isUnder(dir, p) {
			// everything but the hard-link group number (checked separately)
			m[p] = strings.Join(n[1:10], " ") + " " + n[11]
		}
	}
	return m
}

// crossGroups: hard-link groups that span the boundary of dir, as sets of paths.
func crossGroups(o *Outcome, dir string) map[string]bool {
	g := map[string][]string{}
	for _, n := range o.Nodes {
		if n[10] != "0" {
			g[n[10]] = append(g[n[10]], unhx(n[0]))
		}
	}
	out := map[string]bool{}
	for _, ps := range g {
		in, outn := false, false
		for _, p := range ps {
			if isUnder(dir, p) {
				in = true
			} else {
				outn = true
			}
		}
		if in && outn {
			for _, p := range ps {
				if !isUnder(dir, p) {
					out[p] = true
				}
			}
		}
	}
	return out
}

// contentOf: kind, content, link target and device numbers of a node record (what a hard-link entry that reaches the
// object through another of its names cannot change; mode, owner and times it can — they belong to the shared inode)
func contentOf(v string) string {
	f := strings.Fields(v)
	if len(f) < 9 {
		return v
	}
	return f[0] + " " + strings.Join(f[5:9], " ")
}

func outsideUnchanged(before, after *Outcome, dir string) string {
	b, a := nodesOutside(before, dir), nodesOutside(after, dir)
	// an outside name whose object also had a name inside the destination when the call started: the object is in the
	// destination as well, and an entry that legitimately names it there (a hard-link entry carries mode, owner and
	// times for the inode it links to) re-times it for every name. Its content, kind and existence stay.
	shared := crossGroups(before, dir)
	for p, v := range b {
		w, ok := a[p]
		if !ok {
			return "deleted outside " + dir + ": " + p
		}
		if shared[p] {
			if contentOf(v) != contentOf(w) {
				return fmt.Sprintf("changed outside %s: the content of %s, which shares its object with a name inside (%s -> %s)", dir, p, v, w)
			}
			continue
		}
		if v != w {
			return fmt.Sprintf("changed outside %s: %s (%s -> %s)", dir, p, v, w)
		}
	}
	for p := range a {
		if _, ok := b[p]; !ok {
			return "created outside " + dir + ": " + p
		}
	}
	cb, ca := crossGroups(before, dir), crossGroups(after, dir)
	for p := range ca {
		if !cb[p] {
			return "outside object newly hard-linked into " + dir + ": " + p
		}
	}
	return ""
}

func worldHasSymlink(o *Outcome) bool {
	for _, n := range o.Nodes {
		if n[1] == "s" {
			return true
		}
	}
	return false
}

// oracleExtract evaluates the property oracles on the real outcome only (never on the model).
func oracleExtract(c *FsCase, jr *JobResult) []Problem {
	var out []Problem
	before, err1 := parseOutcome("x 0 " + jr.Before)
	after, err2 := parseOutcome("x 0 " + jr.After)
	if err1 != nil || err2 != nil {
		return nil
	}
	switch c.Op {
	case "untar-chroot", "layer-chroot":
		// C01: nothing outside the root changes, whether the call succeeds or fails
		rootExists := false
		for _, n := range before.Nodes {
			if unhx(n[0]) == strings.TrimSuffix(c.Root, "/") && n[1] == "d" {
				rootExists = true
			}
		}
		if jr.Extra != "" {
			out = append(out, Problem{Kind: "oracle", Stream: "extract", Msg: "C01: objects appeared outside the world while a jailed operation ran: " + jr.Extra})
		}
		if !rootExists {
			if d := outsideUnchanged(before, after, "/w/nonexistent-root"); d != "" && c.Root != c.Dest {
				out = append(out, Problem{Kind: "oracle", Stream: "extract", Msg: "C01: root is not a directory, yet " + d})
			}
		}
		if rootExists {
			if d := outsideUnchanged(before, after, c.Root); d != "" {
				out = append(out, Problem{Kind: "oracle", Stream: "extract", Msg: "C01: " + d + " (result " + jr.Out + ")"})
			}
		}
	case "untar", "layer":
		// the destination's own name belongs to its parent directory, which is outside the destination:
		// a destination that was a directory must still be one, whatever the archive says
		{
			kb, ka := "", ""
			d := strings.TrimSuffix(c.Dest, "/")
			for _, n := range before.Nodes {
				if unhx(n[0]) == d {
					kb = n[1]
				}
			}
			for _, n := range after.Nodes {
				if unhx(n[0]) == d {
					ka = n[1]
				}
			}
			// (lexical statement: with a symbolic link planted inside the destination — `b -> ..` and an entry `b/dest` —
			// the plain extractor is led to the destination through the link; that is outside C02, and what the chrooted
			// variant is for)
			lexical := !worldHasSymlink(before)
			for _, e := range c.Ents {
				if e.Typ == "sym" {
					lexical = false
				}
			}
			for _, e := range c.Ents {
				if n := filepath.Clean("/" + e.Name); n == "/" {
					lexical = true // the entry names the destination itself, whatever else is in the tree
				}
			}
			if kb == "d" && ka != "d" && lexical {
				out = append(out, Problem{Kind: "oracle", Stream: "extract", Msg: fmt.Sprintf("C02: the destination directory itself was replaced (now %q; result %s): its entry in the parent directory, outside the destination, changed", ka, jr.Out)})
			}
		}
		if i, why := escapingEntry(c); i >= 0 && jr.Out == "ok" {
			out = append(out, Problem{Kind: "oracle", Stream: "extract", Msg: fmt.Sprintf("C02: entry %d escapes the destination (%s) but the call succeeded", i, why)})
		}
		hasSym := worldHasSymlink(before)
		for _, e := range c.Ents {
			if e.Typ == "sym" {
				hasSym = true
			}
		}
		if !hasSym {
			if d := outsideUnchanged(before, after, c.Dest); d != "" {
				out = append(out, Problem{Kind: "oracle", Stream: "extract", Msg: "C02: symlink-free world, " + d + " (result " + jr.Out + ")"})
			}
		}
	}
	return out
}
