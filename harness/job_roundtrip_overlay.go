package main

import (
	"archive/tar"
	"bytes"
	"fmt"
	"io"
	"path"
	"sort"
	"strconv"
	"strings"

	"golang.org/x/sys/unix"

	archive "github.com/moby/go-archive"
	"github.com/moby/go-archive/chrootarchive"
)

// Family "overlay" (C11): trees holding overlay whiteouts (0/0 character devices, also several
// names of ONE such inode) and opaque directories, archived with OverlayWhiteoutFormat; the
// stream is inspected with archive/tar, then extracted with the overlay and the default format.

var rtOvlNames = []string{"a", "b", "c", "f1", "lib", "etc", ".bashrc", "hosts", "hostname", "www", "wgetrc", ".hushlogin", "w", "h", ".w", ".h", "wh", ".wh", "..x", "...", "w.h", "hw.", "whw", ".hw", "h.w.", "日本", "é"}

func rtIsWhiteoutDev(n *rtNode) bool { return n.Kind == 'c' && n.Maj == 0 && n.Min == 0 }

func rtGenOverlayTree(r *Rng) ([]rtNode, map[string]int) {
	g := newRtTreeGen(r)
	name := func(dir string) string {
		for i := 0; i < 8; i++ {
			n := r.pick(rtOvlNames)
			if _, ok := g.have[rtJoin(dir, n)]; !ok {
				return n
			}
		}
		g.seq++
		return fmt.Sprintf("%s%d", r.pick([]string{"w", "h", ".", "n"}), g.seq)
	}
	// directories, some opaque; nesting makes opaque-in-opaque and whiteout-in-opaque likely
	for i, nd := 0, 2+r.intn(6); i < nd; i++ {
		d := g.pickDir(3)
		rel := g.addDir(d, name(d))
		if rel == "" {
			continue
		}
		n := &g.nodes[len(g.nodes)-1]
		switch k := r.intn(10); {
		case k < 5:
			n.Opaque = "y"
			g.feat["opaque-dir"]++
			if n.Perm != 0o755 || n.Uid != 0 || n.Gid != 0 {
				g.feat["opaque-dir-nondefault-mode-or-owner"]++
			}
			for p := rtParent(rel); p != ""; p = rtParent(p) {
				for _, m := range g.nodes {
					if m.Rel == p && m.Opaque == "y" {
						g.feat["opaque-dir-nested-in-opaque"]++
					}
				}
			}
		case k < 6:
			n.Opaque = r.pick([]string{"n", "yy", "Y"})
			g.feat["opaque-attr-other-value"]++
		}
	}
	// whiteouts: single ones and groups of names of one inode
	for i, nw := 0, 1+r.intn(5); i < nw; i++ {
		d := g.pickDir(4)
		n := g.leaf(rtJoin(d, name(d)), 'c')
		n.Maj, n.Min = 0, 0
		n.Perm = rtPickU32(r, []uint32{0, 0, 0o644, 0o600})
		if !g.add(n) {
			continue
		}
		g.feat["whiteout"]++
		if n.Uid != 0 || n.Gid != 0 {
			g.feat["whiteout-owned"]++
		}
		if strings.IndexAny(n.Rel[len(rtParent(n.Rel)):], ".wh") >= 0 {
			c := path.Base(n.Rel)[0]
			if c == '.' || c == 'w' || c == 'h' {
				g.feat["whiteout-name-starts-with-.wh-char"]++
			}
		}
		if r.chance(1, 3) {
			g.ino++
			g.nodes[len(g.nodes)-1].Ino = g.ino
			first := g.nodes[len(g.nodes)-1]
			for k := 1 + r.intn(3); k > 0; k-- {
				m := first
				d2 := g.pickDir(4)
				m.Rel = rtJoin(d2, name(d2))
				if g.add(m) {
					g.feat["whiteout-extra-name-of-one-inode"]++
				}
			}
		}
	}
	// ordinary devices that must not be converted
	for i, nd := 0, 1+r.intn(4); i < nd; i++ {
		d := g.pickDir(4)
		kind, maj, min := byte('c'), uint32(0), uint32(0)
		switch r.intn(6) {
		case 0:
			maj, min = 0, uint32(1+r.intn(300))
		case 1:
			maj, min = uint32(1+r.intn(300)), 0
		case 5:
			// numbers whose low bits are all zero: 0/0 only to a decoder that drops the high bits
			if r.chance(1, 2) {
				maj, min = 0, []uint32{256, 65536, 196608, 1 << 19}[r.intn(4)]
			} else {
				maj, min = []uint32{256, 2048}[r.intn(2)], 0
			}
		case 2:
			kind = 'b'
		case 3:
			kind, min = 'b', uint32(1+r.intn(5))
		default:
			maj, min = 1, 3
		}
		n := g.leaf(rtJoin(d, name(d)), kind)
		n.Maj, n.Min = maj, min
		if g.add(n) {
			g.feat[fmt.Sprintf("ordinary-dev-%c-%s", kind, map[bool]string{true: "0", false: "N"}[maj == 0]+"/"+map[bool]string{true: "0", false: "N"}[min == 0])]++
		}
	}
	// ordinary content
	for i, nf := 0, 1+r.intn(5); i < nf; i++ {
		d := g.pickDir(4)
		k := []byte{'r', 'r', 'r', 's', 'f'}[r.intn(5)]
		n := g.leaf(rtJoin(d, name(d)), k)
		if k == 'r' && r.chance(1, 4) {
			n.Data = "" // an empty regular file is not a whiteout
			g.feat["empty-regular-file"]++
		}
		g.add(n)
	}
	if r.chance(1, 3) {
		g.linkGroup('r')
	}
	for i := range g.nodes {
		n := &g.nodes[i]
		if rtIsWhiteoutDev(n) {
			for p := rtParent(n.Rel); p != ""; p = rtParent(p) {
				for _, m := range g.nodes {
					if m.Rel == p && m.Opaque == "y" {
						g.feat["whiteout-inside-opaque-dir"]++
					}
				}
			}
		}
	}
	sort.SliceStable(g.nodes, func(i, j int) bool { return g.nodes[i].Rel < g.nodes[j].Rel })
	return g.nodes, g.feat
}

type rtHdr struct {
	H    *tar.Header
	Size int64
	Idx  int
}

func rtParseTar(b []byte) ([]rtHdr, error) {
	tr := tar.NewReader(bytes.NewReader(b))
	var out []rtHdr
	for {
		h, err := tr.Next()
		if err == io.EOF {
			return out, nil
		}
		if err != nil {
			return out, err
		}
		n, err := io.Copy(io.Discard, tr)
		if err != nil {
			return out, err
		}
		out = append(out, rtHdr{H: h, Size: n, Idx: len(out)})
	}
}

func rtOverlayCase(r *Rng, out *rtOut) {
	nodes, feat := rtGenOverlayTree(r)
	for k, v := range feat {
		out.countN("overlay/feat:"+k, v)
	}
	out.count("overlay/cases")
	out.Canon = "overlay\n" + rtTreeText(nodes)
	nWh, nOpq := 0, 0
	for i := range nodes {
		if rtIsWhiteoutDev(&nodes[i]) {
			nWh++
		}
		if nodes[i].Opaque == "y" {
			nOpq++
		}
	}
	out.Nontrivial = nWh+nOpq > 0
	out.Sample = fmt.Sprintf("overlay: %d nodes, %d whiteouts, %d opaque dirs", len(nodes), nWh, nOpq)
	src := "/w/src"
	if err := rtMkTop(src, 0o755); err != nil {
		out.Setup = err.Error()
		return
	}
	if err := newRtBuilder().build(src, nodes, rtOneDomain, nil); err != nil {
		out.Setup = "build source: " + err.Error()
		return
	}
	if err := rtCheckBuilt(src, nodes); err != nil {
		out.Setup = err.Error()
		return
	}
	rc, err := archive.TarWithOptions(src, &archive.TarOptions{WhiteoutFormat: archive.OverlayWhiteoutFormat})
	if err != nil {
		out.problem("archive", "TarWithOptions(overlay) failed: "+err.Error())
		return
	}
	stream, err := io.ReadAll(rc)
	rc.Close()
	if err != nil {
		out.problem("archive", "reading the overlay-format archive failed: "+err.Error())
		return
	}
	hdrs, err := rtParseTar(stream)
	if err != nil {
		out.problem("stream", "the produced stream does not parse: "+err.Error())
		return
	}

	// ---- the stream ----
	byName := map[string][]rtHdr{}
	for _, h := range hdrs {
		byName[h.H.Name] = append(byName[h.H.Name], h)
		if h.H.Typeflag == tar.TypeChar && h.H.Devmajor == 0 && h.H.Devminor == 0 {
			out.problem("stream-no-whiteout-device", fmt.Sprintf("the stream contains a 0/0 character device entry %q", h.H.Name))
		}
		for k := range h.H.PAXRecords {
			if strings.Contains(k, "overlay.opaque") {
				out.problem("stream-no-opaque-record", fmt.Sprintf("entry %q carries the PAX record %q", h.H.Name, k))
			}
		}
	}
	out.countN("overlay/clause:stream-no-whiteout-device", len(hdrs))
	out.countN("overlay/clause:stream-no-opaque-record", len(hdrs))
	expected := map[string]bool{}
	for i := range nodes {
		n := &nodes[i]
		switch {
		case rtIsWhiteoutDev(n):
			name := rtJoin(rtParent(n.Rel), ".wh."+path.Base(n.Rel))
			expected[name] = true
			hs := byName[name]
			if len(hs) != 1 {
				out.problem("whiteout-entry", fmt.Sprintf("whiteout %q: %d entries named %q in the stream, want 1 (names in the stream: %s)", n.Rel, len(hs), name, rtNames(hdrs)))
				continue
			}
			h := hs[0].H
			if h.Typeflag != tar.TypeReg || h.Size != 0 || hs[0].Size != 0 {
				out.problem("whiteout-entry", fmt.Sprintf("whiteout %q: entry %q has type %q size %d, want an empty regular file", n.Rel, name, string(h.Typeflag), h.Size))
			}
			if h.Uid != n.Uid || h.Gid != n.Gid {
				out.problem("whiteout-entry-owner", fmt.Sprintf("whiteout %q: entry owner %d:%d, want %d:%d", n.Rel, h.Uid, h.Gid, n.Uid, n.Gid))
			}
			if len(byName[n.Rel]) != 0 {
				out.problem("whiteout-entry", fmt.Sprintf("whiteout %q also appears under its own name in the stream", n.Rel))
			}
			out.count("overlay/clause:whiteout-entry")
		case n.Kind == 'd':
			name := n.Rel + "/"
			expected[name] = true
			hs := byName[name]
			if len(hs) != 1 || hs[0].H.Typeflag != tar.TypeDir {
				out.problem("dir-entry", fmt.Sprintf("directory %q: %d entries in the stream", n.Rel, len(hs)))
				continue
			}
			marker := n.Rel + "/.wh..wh..opq"
			if n.Opaque == "y" {
				expected[marker] = true
				idx := hs[0].Idx
				if idx+1 >= len(hdrs) || hdrs[idx+1].H.Name != marker {
					nxt := "<end>"
					if idx+1 < len(hdrs) {
						nxt = hdrs[idx+1].H.Name
					}
					out.problem("opaque-marker-follows-dir", fmt.Sprintf("opaque directory %q is followed by %q, want %q", n.Rel, nxt, marker))
				} else if m := hdrs[idx+1].H; m.Typeflag != tar.TypeReg || m.Size != 0 {
					out.problem("opaque-marker-follows-dir", fmt.Sprintf("marker %q has type %q size %d", marker, string(m.Typeflag), m.Size))
				}
				out.count("overlay/clause:opaque-marker-follows-dir")
			} else {
				if len(byName[marker]) != 0 {
					out.problem("opaque-marker-only-for-opaque", fmt.Sprintf("directory %q (opaque attribute %q) got a marker entry", n.Rel, n.Opaque))
				}
				out.count("overlay/clause:no-marker-for-non-opaque")
			}
		default:
			expected[n.Rel] = true
			hs := byName[n.Rel]
			if len(hs) != 1 {
				out.problem("entry", fmt.Sprintf("%q (%c): %d entries in the stream, want 1", n.Rel, n.Kind, len(hs)))
				continue
			}
			h := hs[0].H
			if n.Kind == 'c' || n.Kind == 'b' {
				wantT := byte(tar.TypeChar)
				if n.Kind == 'b' {
					wantT = tar.TypeBlock
				}
				if (h.Typeflag != wantT && h.Typeflag != tar.TypeLink) || (h.Typeflag == wantT && (uint32(h.Devmajor) != n.Maj || uint32(h.Devminor) != n.Min)) {
					out.problem("ordinary-device-untouched", fmt.Sprintf("device %q %c %d/%d appears as type %q %d/%d", n.Rel, n.Kind, n.Maj, n.Min, string(h.Typeflag), h.Devmajor, h.Devminor))
				}
				out.count("overlay/clause:ordinary-device-untouched")
			}
		}
	}
	for _, h := range hdrs {
		if !expected[h.H.Name] {
			out.problem("stream-names", fmt.Sprintf("unexpected entry %q (type %q) in the stream", h.H.Name, string(h.H.Typeflag)))
		}
	}
	if len(out.Problems) > 0 {
		return
	}

	// ---- extraction with the overlay format: the same whiteouts and opaque directories ----
	want := rtSpecScan(nodes)
	isWh := map[string]bool{}
	for i := range nodes {
		if rtIsWhiteoutDev(&nodes[i]) {
			isWh[nodes[i].Rel] = true
		}
	}
	for _, ext := range []string{"plain", "chroot"} {
		dst := "/w/dst_ovl_" + ext
		if err := rtMkTop(dst, 0o755); err != nil {
			out.Setup = err.Error()
			return
		}
		opts := &archive.TarOptions{WhiteoutFormat: archive.OverlayWhiteoutFormat}
		unix.Umask(0o022)
		if ext == "plain" {
			err = archive.Untar(bytes.NewReader(stream), dst, opts)
		} else {
			err = chrootarchive.Untar(bytes.NewReader(stream), dst, opts)
		}
		unix.Umask(0)
		out.count("overlay/run:overlay+" + ext)
		if err != nil {
			out.problem("extract-overlay", fmt.Sprintf("%s: extracting the overlay-format archive with the overlay format failed: %v", ext, err))
			continue
		}
		got, err := rtScan(dst)
		if err != nil {
			out.Setup = err.Error()
			return
		}
		cmp := rtCmp{DirMtime: true, FileMtime: true, Groups: true, Opaque: true, Skip: func(rel string, w, g *rtS) bool { return isWh[rel] }}
		clause, msg := rtCompare(want, got, cmp, func(c string) { out.count("overlay/clause:roundtrip-" + c) })
		if clause != "" {
			out.problem("roundtrip-"+clause, fmt.Sprintf("overlay→overlay (%s): %s", ext, msg))
			continue
		}
		gm := map[string]*rtS{}
		for i := range got {
			gm[got[i].Path] = &got[i]
		}
		for i := range nodes {
			n := &nodes[i]
			if !isWh[n.Rel] {
				continue
			}
			g := gm[n.Rel]
			if g.Kind != 'c' || g.Maj != 0 || g.Min != 0 {
				out.problem("roundtrip-whiteout", fmt.Sprintf("overlay→overlay (%s): %q is %c %d/%d, want a 0/0 character device", ext, n.Rel, g.Kind, g.Maj, g.Min))
			} else if g.Uid != n.Uid || g.Gid != n.Gid {
				out.problem("roundtrip-whiteout-owner", fmt.Sprintf("overlay→overlay (%s): whiteout %q owner %d:%d, want %d:%d", ext, n.Rel, g.Uid, g.Gid, n.Uid, n.Gid))
			}
			out.count("overlay/clause:roundtrip-whiteout")
		}
	}

	// ---- extraction with the default format: standard whiteout files stay ordinary files ----
	var plain []rtNode
	fake := map[string]bool{}
	for i := range nodes {
		n := nodes[i]
		if rtIsWhiteoutDev(&n) {
			f := rtNode{Rel: rtJoin(rtParent(n.Rel), ".wh."+path.Base(n.Rel)), Kind: 'r'}
			fake[f.Rel] = true
			plain = append(plain, f)
			continue
		}
		plain = append(plain, n)
		if n.Kind == 'd' && n.Opaque == "y" {
			f := rtNode{Rel: n.Rel + "/.wh..wh..opq", Kind: 'r'}
			fake[f.Rel] = true
			plain = append(plain, f)
		}
	}
	wantPlain := rtSpecScan(plain)
	dst := "/w/dst_default"
	if err := rtMkTop(dst, 0o755); err != nil {
		out.Setup = err.Error()
		return
	}
	useChroot := r.chance(1, 3)
	unix.Umask(0o022)
	if useChroot {
		err = chrootarchive.Untar(bytes.NewReader(stream), dst, nil)
	} else {
		err = archive.Untar(bytes.NewReader(stream), dst, &archive.TarOptions{})
	}
	unix.Umask(0)
	out.count("overlay/run:default")
	if err != nil {
		out.problem("extract-default", "extracting the overlay-format archive with the default format failed: "+err.Error())
		return
	}
	got, err := rtScan(dst)
	if err != nil {
		out.Setup = err.Error()
		return
	}
	cmp := rtCmp{DirMtime: true, FileMtime: true, Groups: true, Skip: func(rel string, w, g *rtS) bool { return fake[rel] }}
	clause, msg := rtCompare(wantPlain, got, cmp, func(c string) { out.count("overlay/clause:default-" + c) })
	if clause != "" {
		out.problem("default-"+clause, "overlay→default: "+msg)
		return
	}
	for i := range got {
		g := &got[i]
		if fake[g.Path] {
			if g.Kind != 'r' || g.Data != "" {
				out.problem("default-plain-files", fmt.Sprintf("overlay→default: %q is %c with %d bytes, want an ordinary empty regular file", g.Path, g.Kind, len(g.Data)))
			}
			out.count("overlay/clause:default-plain-files")
		}
		if g.Opaque != "" {
			out.problem("default-no-opaque", fmt.Sprintf("overlay→default: %q carries the opaque attribute", g.Path))
		}
	}
}

func rtNames(hs []rtHdr) string {
	var s []string
	for _, h := range hs {
		s = append(s, strconv.Quote(h.H.Name)+":"+string(h.H.Typeflag))
	}
	return truncate(strings.Join(s, " "), 400)
}
