package main

import (
	"bufio"
	"encoding/hex"
	"encoding/json"
	"flag"
	"fmt"
	"hash/fnv"
	"os"
	"os/exec"
	"sort"
	"strings"
)

// Config is shared by all streams.
type Config struct {
	Tier   string
	Seed   uint64
	Driver string
	Out    string
	Replay string
	N      int
	Work   string
}

func parseConfig(args []string) *Config {
	fs := flag.NewFlagSet("harness", flag.ExitOnError)
	c := &Config{}
	fs.StringVar(&c.Tier, "tier", "quick", "quick|thorough")
	fs.Uint64Var(&c.Seed, "seed", 1, "PRNG seed")
	fs.StringVar(&c.Driver, "driver", "/verif/lean/.lake/build/bin/driver", "model driver binary")
	fs.StringVar(&c.Out, "out", "", "result JSON path (default stdout)")
	fs.StringVar(&c.Replay, "replay", "", "replay file")
	fs.IntVar(&c.N, "n", 0, "override case count")
	fs.StringVar(&c.Work, "work", "", "work directory")
	_ = fs.Parse(args)
	return c
}

func (c *Config) thorough() bool { return c.Tier == "thorough" }

// count picks the case budget by tier unless overridden.
func (c *Config) count(quick, thorough int) int {
	if c.N > 0 {
		return c.N
	}
	if c.thorough() {
		return thorough
	}
	return quick
}

// Problem is one disagreement or oracle failure.
type Problem struct {
	Kind   string `json:"kind"` // "oracle" (property fails on the real code) | "correspondence" (model and code differ)
	Case   string `json:"case"`
	Impl   string `json:"impl,omitempty"`
	Model  string `json:"model,omitempty"`
	Msg    string `json:"msg"`
	Sig    string `json:"sig,omitempty"`    // known-finding signature matched, if any
	Stream string `json:"stream,omitempty"` // correspondence stream name
}

// Result is what a stream reports to the check script.
type Result struct {
	Stream             string         `json:"stream"`
	Evaluations        int            `json:"evaluations"`
	DistinctNontrivial int            `json:"distinct_nontrivial"`
	Rule               string         `json:"rule"`
	Samples            []string       `json:"samples"`
	Distribution       map[string]int `json:"distribution"`
	Compared           int            `json:"traces_validated_against_impl"`
	Exhaustive         bool           `json:"exhaustive"`
	Problems           []Problem      `json:"problems"`
	Notes              []string       `json:"notes,omitempty"`
	SetupError         string         `json:"setup_error,omitempty"`

	distinct map[uint64]struct{}
}

func newResult(rule string) *Result {
	return &Result{Rule: rule, Distribution: map[string]int{}, distinct: map[uint64]struct{}{}}
}

func (r *Result) count(key string) { r.Distribution[key]++ }

// nontrivial records a case that is non-trivial by the stream's rule; distinct by hash of its canonical text.
func (r *Result) nontrivial(canon string) {
	h := fnv.New64a()
	h.Write([]byte(canon))
	r.distinct[h.Sum64()] = struct{}{}
}

func (r *Result) sample(s string) {
	if len(r.Samples) < 6 {
		r.Samples = append(r.Samples, s)
	}
}

func (r *Result) problem(p Problem) {
	if len(r.Problems) < 50 {
		r.Problems = append(r.Problems, p)
	}
}

func (r *Result) merge(o *Result) {
	r.Evaluations += o.Evaluations
	r.Compared += o.Compared
	for k, v := range o.Distribution {
		r.Distribution[k] += v
	}
	for k := range o.distinct {
		r.distinct[k] = struct{}{}
	}
	for _, s := range o.Samples {
		r.sample(s)
	}
	for _, p := range o.Problems {
		r.problem(p)
	}
	r.Notes = append(r.Notes, o.Notes...)
	if o.SetupError != "" {
		r.SetupError = o.SetupError
	}
}

func (r *Result) write(path string) {
	r.DistinctNontrivial = len(r.distinct)
	if r.Problems == nil {
		r.Problems = []Problem{}
	}
	if r.Samples == nil {
		r.Samples = []string{}
	}
	b, _ := json.MarshalIndent(r, "", " ")
	if path == "" {
		fmt.Println(string(b))
		return
	}
	if err := os.WriteFile(path, b, 0o644); err != nil {
		fmt.Fprintln(os.Stderr, "write result:", err)
		os.Exit(2)
	}
}

// ---- PRNG: one splitmix64 state, everything derives from it ----

type Rng struct{ s uint64 }

func newRng(seed uint64) *Rng {
	// mix the seed so that neighbouring seeds give unrelated sequences
	z := seed + 0x9E3779B97F4A7C15
	z = (z ^ (z >> 30)) * 0xBF58476D1CE4E5B9
	z = (z ^ (z >> 27)) * 0x94D049BB133111EB
	z ^= z >> 31
	return &Rng{s: z*0x9E3779B97F4A7C15 + 0x1234567}
}

func (r *Rng) next() uint64 {
	r.s += 0x9E3779B97F4A7C15
	z := r.s
	z = (z ^ (z >> 30)) * 0xBF58476D1CE4E5B9
	z = (z ^ (z >> 27)) * 0x94D049BB133111EB
	return z ^ (z >> 31)
}
func (r *Rng) intn(n int) int {
	if n <= 0 {
		return 0
	}
	return int(r.next() % uint64(n))
}
func (r *Rng) chance(num, den int) bool { return r.intn(den) < num }
func (r *Rng) pick(xs []string) string  { return xs[r.intn(len(xs))] }
func (r *Rng) fork() *Rng               { return &Rng{s: r.next()} }

// ---- driver ----

func hx(s string) string {
	if s == "" {
		return "-"
	}
	return hex.EncodeToString([]byte(s))
}

func unhx(s string) string {
	if s == "-" {
		return ""
	}
	b, err := hex.DecodeString(s)
	if err != nil {
		return "<badhex:" + s + ">"
	}
	return string(b)
}

// runDriver pipes the case lines through the Lean model driver and returns one output line per case.
func runDriver(driver string, lines []string) ([]string, error) {
	cmd := exec.Command(driver)
	cmd.Stdin = strings.NewReader(strings.Join(lines, "\n") + "\n")
	cmd.Stderr = os.Stderr
	outp, err := cmd.StdoutPipe()
	if err != nil {
		return nil, err
	}
	if err := cmd.Start(); err != nil {
		return nil, err
	}
	var out []string
	sc := bufio.NewScanner(outp)
	sc.Buffer(make([]byte, 1<<20), 1<<26)
	for sc.Scan() {
		out = append(out, sc.Text())
	}
	if err := cmd.Wait(); err != nil {
		return out, fmt.Errorf("driver: %w", err)
	}
	if len(out) != len(lines) {
		return out, fmt.Errorf("driver returned %d lines for %d cases", len(out), len(lines))
	}
	return out, nil
}

func sortedKeys(m map[string]int) []string {
	ks := make([]string, 0, len(m))
	for k := range m {
		ks = append(ks, k)
	}
	sort.Strings(ks)
	return ks
}

// replayCaseString reads the "case" field of a replay file.
func replayCaseString(path string) (string, error) {
	b, err := os.ReadFile(path)
	if err != nil {
		return "", err
	}
	var rp struct {
		Case string `json:"case"`
	}
	if err := json.Unmarshal(b, &rp); err != nil {
		return "", err
	}
	return rp.Case, nil
}
