package main

import (
	"archive/tar"
	"bytes"
	"compress/gzip"
	"encoding/binary"
	"fmt"
	"os/exec"
	"path/filepath"
	"sort"
	"strings"
	"time"

	"github.com/klauspost/compress/zstd"
)

// Generators of the "race" job: byte bodies around the 32 KiB pool-buffer size, small trees with
// hard links / symlinks / special files, tar streams (plain, layer with whiteouts, damaged) and
// the compressed encodings of every format DecompressStream understands.

type raceGen struct {
	r   *Rng
	cnt map[string]int
	tag string // unique to the case
}

var raceSmallSizes = []int{0, 1, 9, 10, 11, 100, 511, 512, 513, 4095, 4096, 10000}
var raceBigSizes = []int{32767, 32768, 32769, 40000, 65535, 65536, 65537, 100000, 131073, 200000, 262149}
var raceNames = []string{"a", "b", "c", "d", "e", "f.log", "g.txt", "keep", "h"}

// directories are named from raceDirNames, everything else from raceLeafNames, so that a path
// rarely runs through a non-directory (that happens only by the explicit "clash" choice)
var raceDirNames = []string{"a", "b", "c", "d", "e"}
var raceLeafNames = []string{"f.log", "g.txt", "keep", "h", "i.bin", "j"}
var raceIDs = []int{0, 0, 0, 1, 7, 1000, 65534, 100000, 100005}
var raceTimes = []int64{0, 1, 1000000000, 1500000000, 1600000001, 1234567890}
var raceFilePerms = []uint32{0o644, 0o644, 0o600, 0o755, 0o4755, 0o444, 0o2755}
var raceDirPerms = []uint32{0o755, 0o755, 0o700, 0o711, 0o2775, 0o1777}

func (g *raceGen) size(big bool) int {
	if big || g.r.chance(1, 4) {
		return raceBigSizes[g.r.intn(len(raceBigSizes))]
	}
	return raceSmallSizes[g.r.intn(len(raceSmallSizes))]
}

// body makes n bytes: incompressible noise, or a compressible pattern stamped with its offset.
func (g *raceGen) body(n int) []byte {
	b := make([]byte, n)
	r := g.r.fork()
	if g.r.chance(1, 2) {
		for i := 0; i+8 <= n; i += 8 {
			binary.LittleEndian.PutUint64(b[i:], r.next())
		}
		for i := n - n%8; i < n; i++ {
			b[i] = byte(r.next())
		}
		return b
	}
	tag := r.next()
	for i := 0; i < n; i++ {
		if i%64 < 8 {
			b[i] = byte((tag + uint64(i/64)) >> (8 * uint(i%8)))
		} else {
			b[i] = byte('a' + (i/64+i%64)%26)
		}
	}
	return b
}

func (g *raceGen) id() int { return raceIDs[g.r.intn(len(raceIDs))] }

// tree generates n objects under base (base itself included as the first node).
func (g *raceGen) tree(base string, n int, mt *int64, grp *int, bigFiles int) []Node {
	r := g.r
	*mt++
	out := []Node{{Path: base, Kind: 'd', Perm: 0o755, Mtime: *mt}}
	have := map[string]byte{base: 'd'}
	add := func(nd Node) bool {
		if _, ok := have[nd.Path]; ok {
			return false
		}
		if k, ok := have[filepath.Dir(nd.Path)]; !ok || k != 'd' {
			return false
		}
		have[nd.Path] = nd.Kind
		*mt++
		nd.Mtime = *mt
		out = append(out, nd)
		return true
	}
	for i := 0; i < n; i++ {
		depth := 1 + r.intn(3)
		p := base
		for d := 0; d < depth-1; d++ {
			p = p + "/" + r.pick(raceDirNames)
			add(Node{Path: p, Kind: 'd', Perm: raceDirPerms[r.intn(len(raceDirPerms))], Uid: g.id(), Gid: g.id()})
		}
		kk := r.intn(20)
		if kk < 4 {
			p = p + "/" + r.pick(raceDirNames)
		} else {
			p = p + "/" + r.pick(raceLeafNames)
		}
		switch {
		case kk < 4:
			add(Node{Path: p, Kind: 'd', Perm: raceDirPerms[r.intn(len(raceDirPerms))], Uid: g.id(), Gid: g.id()})
		case kk < 13:
			big := bigFiles > 0
			nd := Node{Path: p, Kind: 'r', Perm: raceFilePerms[r.intn(len(raceFilePerms))], Uid: g.id(), Gid: g.id(), Data: string(g.body(g.size(big)))}
			if r.chance(1, 8) {
				nd.Cap = capRev2
			}
			if r.chance(1, 4) {
				*grp++
				nd.Group = *grp
				if add(nd) {
					if big {
						bigFiles--
					}
					n2 := nd
					n2.Path = filepath.Dir(p) + "/" + r.pick(raceLeafNames) + ".lnk"
					add(n2)
				}
			} else if add(nd) && big {
				bigFiles--
			}
		case kk < 16:
			add(Node{Path: p, Kind: 's', Perm: 0o777, Uid: g.id(), Gid: g.id(), Target: g.linkTarget(depth)})
		case kk < 17:
			add(Node{Path: p, Kind: 'f', Perm: 0o644, Uid: g.id(), Gid: g.id()})
		case kk < 18:
			add(Node{Path: p, Kind: 'c', Perm: 0o644, Maj: uint32(1 + r.intn(2)), Min: uint32(3 + r.intn(3))})
		default:
			add(Node{Path: p, Kind: 'r', Perm: 0o644, Data: ""})
		}
	}
	return out
}

func (g *raceGen) linkTarget(depth int) string {
	if depth >= 2 && g.r.chance(1, 3) {
		return "../" + g.r.pick(raceLeafNames)
	}
	return g.r.pick([]string{"a", "keep", "nonexistent", ".", "b/c", "f.log"})
}

// relNames lists node paths relative to base (base excluded).
func raceRel(nodes []Node, base string) []string {
	var out []string
	for _, n := range nodes {
		if strings.HasPrefix(n.Path, base+"/") {
			out = append(out, strings.TrimPrefix(n.Path, base+"/"))
		}
	}
	sort.Strings(out)
	return out
}

type raceArch struct {
	hdrs   []*tar.Header
	bodies [][]byte
	big    int // bodies larger than the 32 KiB pool buffer
}

// relName: up to depth-1 directory components and a last component from the pool of its class;
// one name in twelve ignores the classes (an entry may then replace an object of another kind).
func (g *raceGen) relName(depth int, dir bool) string {
	n := 1 + g.r.intn(depth)
	var cs []string
	clash := g.r.chance(1, 12)
	for i := 0; i < n; i++ {
		switch {
		case clash:
			cs = append(cs, g.r.pick(raceNames))
		case i < n-1 || dir:
			cs = append(cs, g.r.pick(raceDirNames))
		default:
			cs = append(cs, g.r.pick(raceLeafNames))
		}
	}
	return strings.Join(cs, "/")
}

func raceIsDirName(name string) bool {
	b := filepath.Base(name)
	for _, d := range raceDirNames {
		if b == d {
			return true
		}
	}
	return false
}

// arch generates a tar entry list.  flavor: plain | layer.  bad != "" plants one damaged entry.
func (g *raceGen) arch(flavor string, n int, existing []string, bigBodies int, bad string) *raceArch {
	r := g.r
	a := &raceArch{}
	var regs, names []string
	var staged []string
	badAt := -1
	if bad != "" && bad != "truncate" && bad != "checksum" {
		badAt = r.intn(n)
	}
	for i := 0; i < n; i++ {
		h := &tar.Header{Mode: int64(raceFilePerms[r.intn(len(raceFilePerms))]), Uid: g.id(), Gid: g.id(),
			ModTime: time.Unix(raceTimes[r.intn(len(raceTimes))], 0)}
		var body []byte
		kk := r.intn(100)
		isDir := kk >= 45 && kk < 65
		name := g.relName(3, isDir)
		if len(existing) > 0 && r.chance(1, 4) {
			// replace (or merge with) an object of the prior tree, normally one of the same class
			if e := existing[r.intn(len(existing))]; raceIsDirName(e) == isDir || r.chance(1, 6) {
				name = e
			}
		}
		if len(names) > 0 && r.chance(1, 8) {
			if e := names[r.intn(len(names))]; raceIsDirName(e) == isDir {
				name = e
			}
		}
		if i == badAt {
			switch bad {
			case "dotdot":
				name = "../escape" + fmt.Sprint(r.intn(3))
				kk = 0
			case "symlink":
				kk = 200
			case "hardlink":
				kk = 201
			case "type":
				kk = 202
			}
		}
		switch {
		case kk < 45:
			h.Typeflag = tar.TypeReg
			big := bigBodies > 0
			body = g.body(g.size(big))
			if big {
				bigBodies--
			}
			if r.chance(1, 10) {
				h.PAXRecords = map[string]string{"SCHILY.xattr.security.capability": capRev2}
			}
		case kk < 65:
			h.Typeflag = tar.TypeDir
			h.Mode = int64(raceDirPerms[r.intn(len(raceDirPerms))])
			if r.chance(1, 2) {
				name += "/"
			}
		case kk < 75:
			h.Typeflag = tar.TypeSymlink
			h.Linkname = r.pick([]string{"a", "b/c", "keep", ".", "nonexistent", "f.log"})
		case kk < 85:
			h.Typeflag = tar.TypeLink
			if len(regs) > 0 && regs[len(regs)-1] != name && !strings.HasPrefix(name, regs[len(regs)-1]+"/") {
				h.Linkname = regs[r.intn(len(regs))]
				if h.Linkname == name {
					h.Linkname = regs[len(regs)-1]
				}
			} else {
				h.Typeflag = tar.TypeReg
				body = g.body(g.size(false))
			}
			if flavor == "layer" && len(staged) > 0 && r.chance(1, 2) {
				h.Typeflag = tar.TypeLink
				body = nil
				h.Linkname = ".wh..wh.plnk/" + staged[r.intn(len(staged))]
			}
		case kk < 88:
			h.Typeflag = tar.TypeFifo
		case kk < 91:
			h.Typeflag = tar.TypeChar
			h.Devmajor, h.Devminor = 1, int64(3+r.intn(3))
		case kk < 93:
			h = &tar.Header{Typeflag: tar.TypeXGlobalHeader, PAXRecords: map[string]string{"comment": "x"}}
		case kk == 200:
			h.Typeflag = tar.TypeSymlink
			h.Linkname = "../../../outside"
		case kk == 201:
			h.Typeflag = tar.TypeLink
			h.Linkname = "../../outside"
		case kk == 202:
			h.Typeflag = 'Z'
		default:
			if flavor == "layer" {
				switch r.intn(5) {
				case 0, 1:
					d := ""
					if r.chance(1, 2) {
						d = r.pick(raceDirNames) + "/"
					}
					base := r.pick(raceNames)
					if len(existing) > 0 && r.chance(2, 3) {
						e := existing[r.intn(len(existing))]
						d, base = filepath.Dir(e)+"/", filepath.Base(e)
						if d == "./" {
							d = ""
						}
					}
					name = d + ".wh." + base
					h.Typeflag = tar.TypeReg
				case 2:
					d := ""
					if r.chance(2, 3) {
						d = r.pick(raceDirNames) + "/"
					}
					name = d + ".wh..wh..opq"
					h.Typeflag = tar.TypeReg
				default:
					sn := "s" + fmt.Sprint(r.intn(3))
					name = ".wh..wh.plnk/" + sn
					staged = append(staged, sn)
					h.Typeflag = tar.TypeReg
					body = g.body(g.size(false))
				}
			} else {
				h.Typeflag = tar.TypeReg
				body = g.body(g.size(false))
			}
		}
		if h.Typeflag != tar.TypeXGlobalHeader {
			h.Name = name
		}
		if h.Typeflag == tar.TypeReg {
			h.Size = int64(len(body))
			if len(body) > 32*1024 {
				a.big++
			}
			if !strings.Contains(name, ".wh.") {
				regs = append(regs, strings.TrimSuffix(name, "/"))
			}
		} else {
			body = nil
		}
		if h.Typeflag != tar.TypeXGlobalHeader {
			names = append(names, strings.TrimSuffix(name, "/"))
		}
		a.hdrs = append(a.hdrs, h)
		a.bodies = append(a.bodies, body)
	}
	return a
}

func (a *raceArch) encode() ([]byte, error) {
	var buf bytes.Buffer
	tw := tar.NewWriter(&buf)
	for i, h := range a.hdrs {
		hh := *h
		hh.Format = tar.FormatPAX
		if err := tw.WriteHeader(&hh); err != nil {
			return nil, fmt.Errorf("header %q: %w", h.Name, err)
		}
		if len(a.bodies[i]) > 0 {
			if _, err := tw.Write(a.bodies[i]); err != nil {
				return nil, err
			}
		}
	}
	if err := tw.Close(); err != nil {
		return nil, err
	}
	return buf.Bytes(), nil
}

var raceBadKinds = []string{"dotdot", "symlink", "hardlink", "type", "truncate", "checksum"}

// stream makes an encoded (uncompressed) tar stream; about one in seven is damaged.
func (g *raceGen) stream(flavor string, n int, existing []string, bigBodies int, allowBad bool) ([]byte, *raceArch, string, error) {
	bad := ""
	if allowBad && g.r.chance(1, 7) {
		bad = g.r.pick(raceBadKinds)
	}
	a := g.arch(flavor, n, existing, bigBodies, bad)
	b, err := a.encode()
	if err != nil {
		return nil, nil, "", err
	}
	switch bad {
	case "truncate":
		if len(b) > 1024 {
			b = b[:512+g.r.intn(len(b)-1024)]
		}
	case "checksum":
		// damage the header of a later entry: the entries before it are extracted, then an error
		blk := 0
		if len(b) > 4096 {
			blk = (g.r.intn(len(b)/512-2) / 2) * 512
		}
		b = append([]byte(nil), b...)
		b[blk+150] ^= 0x55
	}
	if bad != "" {
		g.cnt["damaged:"+bad]++
	}
	return b, a, bad, nil
}

var raceFormats = []string{"none", "gzip", "bzip2", "xz", "zstd", "zstd-skip"}
var raceToolMissing = map[string]bool{}

func raceExecFilter(data []byte, name string, args ...string) ([]byte, error) {
	cmd := exec.Command(name, args...)
	cmd.Stdin = bytes.NewReader(data)
	var out bytes.Buffer
	cmd.Stdout = &out
	if err := cmd.Run(); err != nil {
		return nil, err
	}
	return out.Bytes(), nil
}

// compress encodes data in the given format (test input preparation, not the code under test).
// A missing bzip2/xz tool downgrades the format to gzip and is counted.
func (g *raceGen) compress(data []byte, format string) ([]byte, string) {
	switch format {
	case "bzip2", "xz":
		if !raceToolMissing[format] {
			args := []string{"-c", "-1"}
			if format == "xz" {
				args = []string{"-c", "-0", "-T1"}
			}
			if out, err := raceExecFilter(data, format, args...); err == nil {
				return out, format
			}
			raceToolMissing[format] = true
		}
		g.cnt["format-tool-missing:"+format]++
		return g.compress(data, "gzip")
	case "gzip":
		var b bytes.Buffer
		lvl := []int{gzip.BestSpeed, gzip.DefaultCompression, gzip.NoCompression}[g.r.intn(3)]
		zw, _ := gzip.NewWriterLevel(&b, lvl)
		zw.Write(data)
		zw.Close()
		return b.Bytes(), "gzip"
	case "zstd", "zstd-skip":
		var b bytes.Buffer
		if format == "zstd-skip" {
			// a skippable frame (magic 0x184D2A5x) precedes the data frame
			pay := g.body(g.r.intn(40))
			var hdr [8]byte
			binary.LittleEndian.PutUint32(hdr[:4], 0x184D2A50+uint32(g.r.intn(16)))
			binary.LittleEndian.PutUint32(hdr[4:], uint32(len(pay)))
			b.Write(hdr[:])
			b.Write(pay)
		}
		zw, err := zstd.NewWriter(&b, zstd.WithEncoderConcurrency(1))
		if err != nil {
			return g.compress(data, "gzip")
		}
		zw.Write(data)
		zw.Close()
		return b.Bytes(), format
	}
	return data, "none"
}

func (g *raceGen) format() string { return g.r.pick(raceFormats) }
