package main

import (
	"fmt"
	"path/filepath"
	"strings"
)

// Stream "path": the Lean model of path/filepath against the real functions.
func init() { subcmds["path"] = runPath }

func allStrings(alpha string, maxLen int) []string {
	out := []string{""}
	prev := []string{""}
	for l := 1; l <= maxLen; l++ {
		var cur []string
		for _, p := range prev {
			for _, c := range alpha {
				cur = append(cur, p+string(c))
			}
		}
		out = append(out, cur...)
		prev = cur
	}
	return out
}

func implPath(op string, a, b string) string {
	switch op {
	case "clean":
		return "OK " + hx(filepath.Clean(a))
	case "dir":
		return "OK " + hx(filepath.Dir(a))
	case "base":
		return "OK " + hx(filepath.Base(a))
	case "split":
		d, f := filepath.Split(a)
		return "OK " + hx(d) + " " + hx(f)
	case "join":
		return "OK " + hx(filepath.Join(a, b))
	case "rel":
		r, err := filepath.Rel(a, b)
		if err != nil {
			return "ERR"
		}
		return "OK " + hx(r)
	}
	return "?"
}

func runPath(cfg *Config) *Result {
	res := newResult("all strings over {a,b,.,/} up to a length bound (unary ops: 8 quick / 10 thorough; binary ops: 4 quick / 5 thorough) plus random longer strings over {a,b,c,.,/,-}; a case is non-trivial when the result differs from its (first) argument; distinct by (op,args)")
	rng := newRng(cfg.Seed)
	var lines []string
	var impl []string
	add := func(op, a, b string) {
		var l string
		if op == "join" || op == "rel" {
			l = op + " " + hx(a) + " " + hx(b)
		} else {
			l = op + " " + hx(a)
		}
		lines = append(lines, l)
		o := implPath(op, a, b)
		impl = append(impl, o)
		res.count("op:" + op)
		if o == "ERR" {
			res.count("rel-error")
		}
		if o != "OK "+hx(a) {
			res.nontrivial(l)
		}
	}
	un := allStrings("ab./", cfg.count(8, 10))
	for _, s := range un {
		for _, op := range []string{"clean", "dir", "base", "split"} {
			add(op, s, "")
		}
	}
	bin := allStrings("ab./", cfg.count(4, 5))
	for _, a := range bin {
		for _, b := range bin {
			add("join", a, b)
			add("rel", a, b)
		}
	}
	nr := cfg.count(20000, 300000)
	alpha := []string{"a", "b", "c", ".", "/", "-", "..", "/", "a"}
	for i := 0; i < nr; i++ {
		mk := func() string {
			n := rng.intn(12)
			var sb strings.Builder
			for j := 0; j < n; j++ {
				sb.WriteString(rng.pick(alpha))
			}
			return sb.String()
		}
		a, b := mk(), mk()
		switch rng.intn(6) {
		case 0:
			add("clean", a, "")
		case 1:
			add("dir", a, "")
		case 2:
			add("base", a, "")
		case 3:
			add("split", a, "")
		case 4:
			add("join", a, b)
		default:
			add("rel", a, b)
		}
	}
	res.Evaluations = len(lines)
	model, err := runDriver(cfg.Driver, lines)
	if err != nil {
		res.SetupError = err.Error()
		return res
	}
	for i := range lines {
		res.Compared++
		if model[i] != impl[i] {
			res.problem(Problem{Kind: "correspondence", Stream: "path", Case: lines[i], Impl: impl[i], Model: model[i],
				Msg: fmt.Sprintf("filepath model differs on %q", lines[i])})
		}
	}
	res.Exhaustive = true
	res.sample(lines[len(un)*2] + " => " + impl[len(un)*2])
	res.sample(lines[len(lines)-1] + " => " + impl[len(lines)-1])
	res.sample(lines[len(lines)/2] + " => " + impl[len(lines)/2])
	return res
}
