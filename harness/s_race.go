package main

import (
	"encoding/json"
	"fmt"
	"os"
	"strings"
	"time"
)

// Stream "race" (property C18): independent operations are race-free and do not influence each
// other.  Every case is one arena job (kind "race", job_race*.go): K ∈ {2,8,32} operations drawn
// from the public API over disjoint directories and streams, GOMAXPROCS ∈ {1,2,16}; each
// operation's result is computed solo and then inside the concurrent mix and must be equal.  When
// the harness binary is built with -race the race detector's reports (GORACE log_path inside the
// arena) are oracle problems as well.
func init() {
	subcmds["race"] = runRace
}

var raceKs = []int{2, 8, 32}
var raceProcs = []int{1, 2, 16}

type raceCase struct {
	Seed  uint64
	K     int
	Procs int
}

func (c raceCase) text() string {
	return fmt.Sprintf("race1 seed=%d k=%d procs=%d", c.Seed, c.K, c.Procs)
}

func parseRaceCase(s string) (raceCase, error) {
	var c raceCase
	if _, err := fmt.Sscanf(s, "race1 seed=%d k=%d procs=%d", &c.Seed, &c.K, &c.Procs); err != nil {
		return c, fmt.Errorf("bad race case %q: %v", s, err)
	}
	return c, nil
}

func runRace(cfg *Config) *Result {
	res := newResult("each case = (seed, K, GOMAXPROCS): K operations generated from the seed (tar/untar/chrooted untar+layer+tar/changes+export/" +
		"rebase/replace/decompress/compress/copy/IsArchivePath/IsEmpty/process-state witness) over disjoint directories, run solo then concurrently; " +
		"non-trivial = K>=2 operations of >=2 different kinds; distinct by the generated operation list (kinds and parameters)")
	// The arena child inherits the parent's environment: the race runtime of the child reads GORACE
	// at start-up and opens the log lazily, i.e. inside the arena's /tmp.
	os.Setenv("GORACE", "halt_on_error=0 exitcode=66 log_path="+raceLogPath)
	if raceDetector {
		res.count("race-detector:on")
	} else {
		res.count("race-detector:off")
		res.Notes = append(res.Notes, "harness built without -race: only the solo/concurrent comparison is active")
	}
	var cases []raceCase
	if cfg.Replay != "" {
		b, err := os.ReadFile(cfg.Replay)
		if err != nil {
			res.SetupError = err.Error()
			return res
		}
		var rp struct {
			Case string `json:"case"`
		}
		if err := json.Unmarshal(b, &rp); err != nil {
			res.SetupError = err.Error()
			return res
		}
		c, err := parseRaceCase(rp.Case)
		if err != nil {
			res.SetupError = err.Error()
			return res
		}
		cases = append(cases, c)
	} else {
		rng := newRng(cfg.Seed ^ 0xC18C18)
		n := cfg.count(72, 576)
		for i := 0; i < n; i++ {
			// K cycles fastest so that every worker's contiguous share of the jobs is balanced
			cases = append(cases, raceCase{Seed: rng.next() >> 1, K: raceKs[i%3], Procs: raceProcs[(i/3)%3]})
		}
	}
	var jobs []Job
	for i, c := range cases {
		jobs = append(jobs, Job{ID: i, Kind: "race", Args: []string{fmt.Sprint(c.Seed), fmt.Sprint(c.K), fmt.Sprint(c.Procs)}})
	}
	results := runArena(cfg, jobs, 180*time.Second)
	var soloMs, concMs int64
	for i, c := range cases {
		jr := results[i]
		res.Evaluations++
		res.count(fmt.Sprintf("case:K=%d", c.K))
		res.count(fmt.Sprintf("case:GOMAXPROCS=%d", c.Procs))
		if jr.ID < 0 || jr.Out == "setup" {
			res.SetupError = fmt.Sprintf("case %s: %s", c.text(), jr.Err)
			return res
		}
		if jr.Out == "panic" || jr.Out == "hang" {
			res.count("outcome:" + jr.Out)
			res.problem(Problem{Kind: "oracle", Stream: "race", Case: c.text(), Impl: jr.Out,
				Msg: fmt.Sprintf("the mix of %d operations (GOMAXPROCS=%d) ended in a %s of the process: %s", c.K, c.Procs, jr.Out, truncate(jr.Err, 300))})
			continue
		}
		var rep raceReport
		if err := json.Unmarshal([]byte(jr.Extra), &rep); err != nil {
			res.SetupError = fmt.Sprintf("case %s: unreadable report: %v", c.text(), err)
			return res
		}
		soloMs += rep.SoloMs
		concMs += rep.ConcMs
		for k, v := range rep.Counters {
			res.Distribution[k] += v
		}
		res.Distribution["concurrent-rounds"] += rep.Rounds
		res.Compared += len(rep.Kinds) * rep.Rounds
		kinds := map[string]bool{}
		for _, k := range rep.Kinds {
			kinds[k] = true
		}
		if len(rep.Kinds) >= 2 && len(kinds) >= 2 {
			res.nontrivial(rep.Canon)
		}
		if i < 4 {
			res.sample(c.text() + " :: " + strings.Join(rep.Kinds, ",") + " :: " + rep.Sample)
		}
		if len(rep.Problems) == 0 {
			res.count("outcome:equal")
		}
		for _, p := range rep.Problems {
			res.count("outcome:" + p.What)
			res.problem(Problem{Kind: "oracle", Stream: "race", Case: c.text(), Impl: p.What, Msg: p.Msg})
		}
	}
	res.Notes = append(res.Notes, fmt.Sprintf("time inside the jobs: solo %d ms, concurrent %d ms", soloMs, concMs))
	return res
}
