package main

import (
	"archive/tar"
	"bytes"
	"encoding/json"
	"errors"
	"fmt"
	"io"
	"io/fs"
	"os"
	"strings"

	archive "github.com/moby/go-archive"
)

// Arena side of the "copy" stream (C14).  Two job kinds:
//
//	copy    : build a world, probe the read-only building blocks on it, run archive.CopyResource once,
//	          report the scans before/after and the raw outputs;
//	copystr : the pure (string / in-memory archive) building blocks on a list of queries.
//
// No expectation is computed here; the parent holds the oracle.
func init() {
	jobKinds["copy"] = runCopyJob
	jobKinds["copystr"] = runCopyStrJob
}

type cpInfoOut struct {
	Path   string
	Exists bool
	IsDir  bool
	Rebase string
	Err    string // error text ("" = nil)
	Class  string
}

type cpJobOut struct {
	Before    []Node
	After     []Node
	Stray     string
	CopyErr   string
	CopyClass string
	Src       cpInfoOut // CopyInfoSourcePath(src, follow)
	Res       cpInfoOut // ResolveHostSourcePath(src, follow): Path, Rebase, Err
	Dst       cpInfoOut // CopyInfoDestinationPath(dst)
	Probed    bool      // the read-only probes left the world untouched
	// the producing half of the split API on a source that is not there (removed between the two steps of a copy,
	// or never there): error class and the number of bytes the stream gave when it gave one
	TarAbsent [2]string
}

// cpErrClass maps an error onto the classes the documentation of the table distinguishes
// (copy_unix_test.go: ErrDirNotExists, ErrCannotCopyDir, os.IsNotExist, isNotDir = text contains
// "not a directory").
func cpErrClass(err error) string {
	switch {
	case err == nil:
		return ""
	case errors.Is(err, archive.ErrDirNotExists):
		return "dirnotexists"
	case errors.Is(err, archive.ErrCannotCopyDir):
		return "cannotcopydir"
	case os.IsNotExist(err) || errors.Is(err, fs.ErrNotExist):
		return "notexist"
	case strings.Contains(err.Error(), "not a directory"):
		return "notdir"
	}
	return "other"
}

func cpErrText(err error) string {
	if err == nil {
		return ""
	}
	s := err.Error()
	if s == "" {
		s = "<empty error text>"
	}
	return s
}

func runCopyJob(j *Job, res *JobResult) {
	if len(j.Args) < 3 {
		res.Out, res.Err = "setup", "copy job needs src dst follow"
		return
	}
	src, dst, follow := j.Args[0], j.Args[1], j.Args[2] == "1"
	if err := resetWorld(); err != nil {
		res.Out, res.Err = "setup", err.Error()
		return
	}
	if err := buildWorld(j.Nodes); err != nil {
		res.Out, res.Err = "setup", err.Error()
		return
	}
	_ = strayRootEntries()
	var out cpJobOut
	before0, err := scanWorld("/w")
	if err != nil {
		res.Out, res.Err = "setup", err.Error()
		return
	}
	// read-only building blocks on the same world
	si, err := archive.CopyInfoSourcePath(src, follow)
	out.Src = cpInfoOut{Path: si.Path, Exists: si.Exists, IsDir: si.IsDir, Rebase: si.RebaseName, Err: cpErrText(err), Class: cpErrClass(err)}
	rp, rb, err := archive.ResolveHostSourcePath(src, follow)
	out.Res = cpInfoOut{Path: rp, Rebase: rb, Err: cpErrText(err), Class: cpErrClass(err)}
	di, err := archive.CopyInfoDestinationPath(dst)
	out.Dst = cpInfoOut{Path: di.Path, Exists: di.Exists, IsDir: di.IsDir, Rebase: di.RebaseName, Err: cpErrText(err), Class: cpErrClass(err)}

	absent := func(rc io.ReadCloser, err error) string {
		if err != nil {
			return cpErrClass(err)
		}
		n, rerr := io.Copy(io.Discard, rc)
		rc.Close()
		if rerr != nil {
			return cpErrClass(rerr)
		}
		return fmt.Sprintf("no error, a stream of %d bytes", n)
	}
	out.TarAbsent[0] = absent(archive.TarResource(archive.CopyInfo{Path: "/w/zz-absent-source"}))
	out.TarAbsent[1] = absent(archive.TarResourceRebase("/w/zz-absent-dir/zz-absent-source", "x"))

	out.Before, err = scanWorld("/w")
	if err != nil {
		res.Out, res.Err = "setup", err.Error()
		return
	}
	out.Probed = renderTree(before0) == renderTree(out.Before)

	cerr := archive.CopyResource(src, dst, follow)
	out.CopyErr, out.CopyClass = cpErrText(cerr), cpErrClass(cerr)

	out.Stray = strayRootEntries()
	out.After, err = scanWorld("/w")
	if err != nil {
		res.Out, res.Err = "setup", "scan after: "+err.Error()
		return
	}
	b, _ := json.Marshal(out)
	res.Extra = string(b)
	if cerr != nil {
		res.Out, res.Err = "err", cerr.Error()
	} else {
		res.Out = "ok"
	}
}

// ---- pure building blocks ----

type cpStrQuery struct {
	Fn string // split | preserve | rebase | prepare
	A  string
	B  string
	// prepare:
	SrcPath   string
	SrcIsDir  bool
	SrcRebase string
	DstPath   string
	DstExists bool
	DstIsDir  bool
	Entries   []cpTarEnt
}

type cpTarEnt struct {
	Name string
	Typ  byte // tar typeflag
	Link string
	Body string
}

type cpStrAnswer struct {
	R1, R2  string
	Class   string
	Err     string
	Entries []cpTarEnt
}

func cpMakeTar(ents []cpTarEnt) []byte {
	var buf bytes.Buffer
	tw := tar.NewWriter(&buf)
	for _, e := range ents {
		h := &tar.Header{Name: e.Name, Typeflag: e.Typ, Linkname: e.Link, Mode: 0o644, Format: tar.FormatPAX}
		if e.Typ == tar.TypeDir {
			h.Mode = 0o755
		}
		if e.Typ == tar.TypeReg {
			h.Size = int64(len(e.Body))
		}
		_ = tw.WriteHeader(h)
		if e.Typ == tar.TypeReg {
			_, _ = tw.Write([]byte(e.Body))
		}
	}
	_ = tw.Close()
	return buf.Bytes()
}

func cpReadTar(r io.Reader) ([]cpTarEnt, error) {
	var out []cpTarEnt
	tr := tar.NewReader(r)
	for {
		h, err := tr.Next()
		if err == io.EOF {
			return out, nil
		}
		if err != nil {
			return out, err
		}
		body, err := io.ReadAll(tr)
		if err != nil {
			return out, err
		}
		out = append(out, cpTarEnt{Name: h.Name, Typ: h.Typeflag, Link: h.Linkname, Body: string(body)})
	}
}

func runCopyStrJob(j *Job, res *JobResult) {
	var qs []cpStrQuery
	if err := json.Unmarshal(j.Archive, &qs); err != nil {
		res.Out, res.Err = "setup", err.Error()
		return
	}
	ans := make([]cpStrAnswer, len(qs))
	for i, q := range qs {
		a := &ans[i]
		switch q.Fn {
		case "split":
			a.R1, a.R2 = archive.SplitPathDirEntry(q.A)
		case "preserve":
			a.R1 = archive.PreserveTrailingDotOrSeparator(q.A, q.B)
		case "rebase":
			a.R1, a.R2 = archive.GetRebaseName(q.A, q.B)
		case "prepare":
			srcInfo := archive.CopyInfo{Path: q.SrcPath, Exists: true, IsDir: q.SrcIsDir, RebaseName: q.SrcRebase}
			dstInfo := archive.CopyInfo{Path: q.DstPath, Exists: q.DstExists, IsDir: q.DstIsDir}
			dstDir, content, err := archive.PrepareArchiveCopy(bytes.NewReader(cpMakeTar(q.Entries)), srcInfo, dstInfo)
			a.R1, a.Err, a.Class = dstDir, cpErrText(err), cpErrClass(err)
			if err == nil && content != nil {
				ents, rerr := cpReadTar(content)
				content.Close()
				a.Entries = ents
				if rerr != nil {
					a.R2 = "read: " + rerr.Error()
				}
			} else if err == nil {
				a.R2 = "nil content without error"
			}
		default:
			a.Err = "bad fn"
		}
	}
	b, _ := json.Marshal(ans)
	res.Extra = string(b)
	res.Out = "ok"
}
