package main

import (
	"bytes"
	"fmt"
	"io"
	"os"
	"sync"
	"time"

	"github.com/moby/go-archive/compression"
)

// A consumer that pauses near the end of a decompressed stream (it is busy writing what it has read): when it
// comes back, the rest of the stream must still be there — whether the helper process has long exited or not.
// Started at the beginning of the stream's run and collected at its end, so the pause costs no wall time.
type czSlowTail struct {
	wg    sync.WaitGroup
	mu    sync.Mutex
	probs []Problem
	ran   int
}

func czStartSlowTail(seed uint64) *czSlowTail {
	st := &czSlowTail{}
	payload := czPayload("rand", 262144, seed^0x736c6f77, false)
	for _, f := range []string{"xz", "gzip-lib"} {
		if (f == "xz" && czTools["xz"] == "") || (f == "gzip-lib" && czTools["unpigz"] == "") {
			continue
		}
		enc := czEncode(f, payload, seed)
		if enc.skip != "" || enc.prob != "" {
			continue
		}
		st.wg.Add(1)
		go func(f string, data []byte) {
			defer st.wg.Done()
			caseText := fmt.Sprintf("slowtail fmt=%s seed=%d", f, seed)
			rc, err := compression.DecompressStream(bytes.NewReader(data))
			if err != nil {
				return
			}
			defer rc.Close()
			head := make([]byte, len(payload)-40000)
			if _, err := io.ReadFull(rc, head); err != nil {
				st.add(Problem{Kind: "oracle", Stream: "compress", Case: caseText, Msg: fmt.Sprintf("C16: reading the first %d bytes of a %s stream failed: %v", len(head), f, err)})
				return
			}
			time.Sleep(6500 * time.Millisecond)
			rest, err := io.ReadAll(rc)
			st.mu.Lock()
			st.ran++
			st.mu.Unlock()
			got := append(head, rest...)
			if err != nil || !bytes.Equal(got, payload) {
				st.add(Problem{Kind: "oracle", Stream: "compress", Case: caseText,
					Msg: fmt.Sprintf("C16: a consumer that paused 6.5 s with 40000 bytes of a %s stream still to read got %d of %d bytes and then %v — a clean end of stream after missing bytes", f, len(got), len(payload), err)})
			}
		}(f, enc.data)
	}
	return st
}

func (st *czSlowTail) add(p Problem) {
	st.mu.Lock()
	st.probs = append(st.probs, p)
	st.mu.Unlock()
}

func (st *czSlowTail) collect(res *Result) {
	st.wg.Wait()
	res.Evaluations += st.ran
	res.Compared += st.ran
	res.Distribution["slowtail"] += st.ran
	for _, p := range st.probs {
		res.problem(p)
	}
	_ = os.Unsetenv
}
