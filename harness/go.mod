module verifharness

go 1.23.0

require (
	github.com/containerd/log v0.1.0
	github.com/klauspost/compress v1.18.2
	github.com/moby/go-archive v0.0.0
	github.com/moby/patternmatcher v0.6.0
	github.com/moby/sys/user v0.4.0
	github.com/sirupsen/logrus v1.9.3
	golang.org/x/sys v0.31.0
)

require (
	github.com/moby/sys/mount v0.3.4 // indirect
	github.com/moby/sys/mountinfo v0.7.2 // indirect
	github.com/moby/sys/sequential v0.6.0 // indirect
	github.com/moby/sys/userns v0.1.0 // indirect
)

replace github.com/moby/go-archive => /repo
