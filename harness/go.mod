module verifharness

go 1.23.0

require github.com/moby/go-archive v0.0.0

replace github.com/moby/go-archive => /repo
