package main

import (
	"archive/tar"
	"bytes"
	"fmt"
	"io"
	"sort"
	"strings"

	"golang.org/x/sys/unix"

	"github.com/moby/sys/user"

	archive "github.com/moby/go-archive"
	"github.com/moby/go-archive/chrootarchive"
)

// Family "diff" (C04): a history of snapshots derived from one tree by mutation sequences; every
// step is diffed (ChangesDirs), exported (ExportChanges) and applied (plain and chrooted) on the
// previously applied tree; after every step the applied tree must equal the snapshot.
//
// The generator works on an abstract state (path -> node with an abstract inode id). A mutation
// that changes an inode in place allocates a new id for ALL names of the inode (that is what the
// change means on a real filesystem, and what copy-on-write must do for hard-link-shared
// snapshots); a replacement allocates a new id for the one name. Snapshots are materialised from
// the state: equal ids share an inode (within a snapshot always; across snapshots in the shared,
// cp -al style storage).

var rtDiffNames = []string{"a", "b", "c", "d", "e", "f", "g", "x", "y", "lib", "bin", "etc", "conf", "run", "app", ".cfg", "w", "h", ".w", "wh.x", "é", "日本", "a b"}
var rtDiffIDs = []int{0, 0, 0, 1, 50, 1000, 1001, 65534, 100000}
var rtDiffFilePerms = []uint32{0o644, 0o600, 0o755, 0o4755, 0o2755, 0o6711, 0o000, 0o777, 0o640, 0o1644}
var rtDiffDirPerms = []uint32{0o755, 0o700, 0o1777, 0o2775, 0o750, 0o711}
var rtDiffSizes = []int{0, 1, 5, 100, 511, 512, 513, 4096, 32768, 32769}

type rtHist struct {
	r     *Rng
	cur   map[string]*rtNode
	ino   int
	clock int64
	seq   int
	mnt   bool
	feat  map[string]int
}

func (h *rtHist) keys() []string {
	ks := make([]string, 0, len(h.cur))
	for k := range h.cur {
		ks = append(ks, k)
	}
	sort.Strings(ks)
	return ks
}

func (h *rtHist) snapshot() []rtNode {
	var out []rtNode
	for _, k := range h.keys() {
		out = append(out, *h.cur[k])
	}
	return out
}

func (h *rtHist) clone() map[string]*rtNode {
	c := make(map[string]*rtNode, len(h.cur))
	for k, n := range h.cur {
		m := *n
		c[k] = &m
	}
	return c
}

// valid: every parent is a directory, every symlink stays lexically inside the tree, keys match.
func (h *rtHist) valid() bool {
	for k, n := range h.cur {
		if n.Rel != k || k == "" {
			return false
		}
		if par := rtParent(k); par != "" {
			if p, ok := h.cur[par]; !ok || p.Kind != 'd' {
				return false
			}
		}
		if n.Kind == 's' && !rtStaysInside(k, n.Target) {
			return false
		}
		if n.Kind != 'd' && n.Ino == 0 {
			return false
		}
	}
	return true
}

func (h *rtHist) newIno() int { h.ino++; return h.ino }

// tick returns a fresh mtime whose second differs from every earlier one.
func (h *rtHist) tick() (int64, int64) {
	h.clock += int64(1 + h.r.intn(3000))
	return h.clock, rtPickI64(h.r, []int64{0, 0, 1, 500000000, 999999999, 123456789})
}

func (h *rtHist) dirs() []string {
	ds := []string{""}
	for _, k := range h.keys() {
		if h.cur[k].Kind == 'd' {
			ds = append(ds, k)
		}
	}
	return ds
}

func (h *rtHist) pickDir() string {
	ds := h.dirs()
	if h.mnt && h.r.chance(1, 3) {
		var ms []string
		for _, d := range ds {
			if rtUnder("mnt", d) && d != "" {
				ms = append(ms, d)
			}
		}
		if len(ms) > 0 {
			return ms[h.r.intn(len(ms))]
		}
	}
	for i := 0; i < 6; i++ {
		d := ds[h.r.intn(len(ds))]
		if rtDepth(d) <= 4 {
			return d
		}
	}
	return ""
}

// pick returns a random existing path accepted by ok ("" if none).
func (h *rtHist) pick(ok func(rel string, n *rtNode) bool) string {
	var c []string
	for _, k := range h.keys() {
		if h.protected(k) {
			continue
		}
		if ok == nil || ok(k, h.cur[k]) {
			c = append(c, k)
		}
	}
	if len(c) == 0 {
		return ""
	}
	if h.mnt && h.r.chance(1, 3) {
		var ms []string
		for _, k := range c {
			if rtUnder("mnt", k) {
				ms = append(ms, k)
			}
		}
		if len(ms) > 0 {
			return ms[h.r.intn(len(ms))]
		}
	}
	return c[h.r.intn(len(c))]
}

func (h *rtHist) protected(rel string) bool { return h.mnt && rel == "mnt" }

func (h *rtHist) inMnt(rel string) bool {
	return h.mnt && rel != "" && rtUnder("mnt", rel) && rel != "mnt"
}

func (h *rtHist) freshName(dir string) string {
	for i := 0; i < 5; i++ {
		n := h.r.pick(rtDiffNames)
		if h.r.chance(1, 20) {
			n = rtFill(h.r, "long", rtPickInt(h.r, []int{99, 100, 101, 120}))
		}
		if _, ok := h.cur[rtJoin(dir, n)]; !ok {
			return n
		}
	}
	h.seq++
	return fmt.Sprintf("n%d", h.seq)
}

func (h *rtHist) owner() (int, int) {
	if h.r.chance(1, 2) {
		return 0, 0
	}
	return rtPickInt(h.r, rtDiffIDs), rtPickInt(h.r, rtDiffIDs)
}

func (h *rtHist) mkNode(rel string, kind byte) *rtNode {
	r := h.r
	u, g := h.owner()
	n := &rtNode{Rel: rel, Kind: kind, Uid: u, Gid: g}
	n.Sec, n.Nsec = h.tick()
	switch kind {
	case 'd':
		n.Perm = 0o755
		if r.chance(1, 3) {
			n.Perm = rtPickU32(r, rtDiffDirPerms)
		}
		return n
	case 'r':
		n.Data = rtBytes(r, rtPickInt(r, rtDiffSizes[:7]))
		if r.chance(1, 12) {
			n.Cap = rtCapRev2 // carried along, not compared (C04 does not list it)
		}
	case 's':
		n.Target = h.target(rel)
	case 'c', 'b':
		n.Maj, n.Min = uint32(r.intn(3)), uint32(1+r.intn(4))
		if r.chance(1, 3) {
			// numbers beyond the 8-bit halves of the old device encoding
			n.Maj = rtPickU32(r, []uint32{1, 8, 255, 259, 4000})
			n.Min = rtPickU32(r, []uint32{255, 256, 1000, 65535, 1048000})
		}
	}
	n.Ino = h.newIno()
	n.Perm = 0o644
	if r.chance(1, 2) {
		n.Perm = rtPickU32(r, rtDiffFilePerms)
	}
	if kind == 's' {
		n.Perm = 0o777
	}
	return n
}

// target: a relative target that stays inside the tree; preferably an existing sibling.
func (h *rtHist) target(rel string) string {
	r := h.r
	par := rtParent(rel)
	var sib []string
	for _, k := range h.keys() {
		if rtParent(k) == par && k != rel {
			sib = append(sib, k[len(par):])
		}
	}
	for i := range sib {
		sib[i] = strings.TrimPrefix(sib[i], "/")
	}
	if len(sib) > 0 && r.chance(2, 3) {
		t := sib[r.intn(len(sib))]
		if r.chance(1, 4) {
			t = "./" + t
		}
		return t
	}
	t := r.pick([]string{"x", "./x", "nonexistent", "a/b", "a//b", "x/../y", "."})
	if rtDepth(rel) >= 2 && r.chance(1, 3) {
		t = "../" + r.pick(rtDiffNames)
	}
	if r.chance(1, 10) {
		// a target longer than one header field, than 255 and than 256 bytes
		t = "./" + strings.Repeat("long-target-", []int{9, 21, 22, 40, 90}[r.intn(5)]) + "x"
	}
	if !rtStaysInside(rel, t) {
		return "x"
	}
	return t
}

func (h *rtHist) put(n *rtNode) bool {
	if n.Rel == "" {
		return false
	}
	if _, ok := h.cur[n.Rel]; ok {
		return false
	}
	if par := rtParent(n.Rel); par != "" {
		if p, ok := h.cur[par]; !ok || p.Kind != 'd' {
			return false
		}
	}
	if strings.HasPrefix(n.Rel, ".wh.") || strings.Contains(n.Rel, "/.wh.") {
		return false // reserved names are outside C04
	}
	h.cur[n.Rel] = n
	return true
}

func (h *rtHist) subtree(p string) []string {
	var out []string
	for _, k := range h.keys() {
		if rtUnder(p, k) {
			out = append(out, k)
		}
	}
	return out
}

func (h *rtHist) removeSubtree(p string) {
	for _, k := range h.subtree(p) {
		delete(h.cur, k)
	}
}

func (h *rtHist) children(d string) []string {
	var out []string
	for _, k := range h.keys() {
		if k != "" && rtParent(k) == d && (d != "" || !strings.Contains(k, "/")) {
			out = append(out, k)
		}
	}
	return out
}

// inplace applies f to every name of rel's inode and gives the inode a new identity.
func (h *rtHist) inplace(rel string, f func(n *rtNode)) {
	n := h.cur[rel]
	if n.Kind == 'd' {
		f(n)
		return
	}
	old, nu := n.Ino, h.newIno()
	for _, k := range h.keys() {
		if m := h.cur[k]; m.Kind != 'd' && m.Ino == old {
			f(m)
			m.Ino = nu
		}
	}
}

func (h *rtHist) addSubtree(dir string, depth int) bool {
	r := h.r
	kind := []byte{'r', 'r', 'r', 'd', 'd', 's', 'f', 'c', 'b'}[r.intn(9)]
	n := h.mkNode(rtJoin(dir, h.freshName(dir)), kind)
	if !h.put(n) {
		return false
	}
	if kind == 'd' && depth < 2 {
		for i, k := 0, r.intn(4); i < k; i++ {
			h.addSubtree(n.Rel, depth+1)
		}
	}
	return true
}

func (h *rtHist) linkCount(ino int) int {
	c := 0
	for _, n := range h.cur {
		if n.Kind != 'd' && n.Ino == ino {
			c++
		}
	}
	return c
}

// relTo gives the relative path from directory `from` to `to` (both relative to the top).
func rtRelTo(from, to string) string {
	return strings.Repeat("../", rtDepth(from)) + to
}

// resolveDir resolves a symlink's target lexically to a directory of the state ("" if it is none).
func (h *rtHist) resolveDir(rel string) string {
	n := h.cur[rel]
	if n == nil || n.Kind != 's' || strings.HasPrefix(n.Target, "/") {
		return ""
	}
	c := rtCleanRel(rtJoin(rtParent(rel), n.Target))
	if c == "." || strings.HasPrefix(c, "..") {
		return ""
	}
	if d, ok := h.cur[c]; ok && d.Kind == 'd' {
		return c
	}
	return ""
}

// copyTree copies the subtree at src to dst (dst must be free). Attributes are kept exactly (what
// `cp -a` produces); regular children either share the inode (cp -al) or get a new one.
func (h *rtHist) copyTree(src, dst string, shareInodes bool) {
	for _, k := range h.subtree(src) {
		n := *h.cur[k]
		n.Rel = dst + k[len(src):]
		if n.Kind != 'd' && (!shareInodes || h.inMnt(k) != h.inMnt(n.Rel)) {
			n.Ino = h.newIno()
		}
		m := n
		h.cur[m.Rel] = &m
	}
}

// mutate applies one random mutation; returns its kind ("" if it did not apply).
func (h *rtHist) mutate() string {
	r := h.r
	notDir := func(_ string, n *rtNode) bool { return n.Kind != 'd' }
	switch k := r.intn(100); {
	case k < 14: // add
		if h.addSubtree(h.pickDir(), 0) {
			return "add"
		}
	case k < 22: // delete subtree
		if p := h.pick(nil); p != "" {
			h.removeSubtree(p)
			return "delete"
		}
	case k < 34: // rewrite content: the size changes, or the mtime second does
		if p := h.pick(func(_ string, n *rtNode) bool { return n.Kind == 'r' }); p != "" {
			old := h.cur[p]
			sz := rtPickInt(r, rtDiffSizes)
			sameSize := len(old.Data) > 0 && r.chance(1, 3)
			if sameSize {
				sz = len(old.Data)
			} else if sz == len(old.Data) {
				sz++
			}
			data := rtBytes(r, sz)
			if data == old.Data {
				data = string([]byte{data[0] ^ 0x55}) + data[1:]
			}
			oldSec := old.Sec
			sec, nsec := old.Sec, old.Nsec
			if sameSize || r.chance(1, 2) {
				sec, nsec = h.tick()
			}
			h.inplace(p, func(n *rtNode) { n.Data, n.Sec, n.Nsec = data, sec, nsec })
			if sameSize {
				return "rewrite-same-size-new-second"
			}
			if sec == oldSec {
				return "rewrite-new-size-same-mtime"
			}
			return "rewrite"
		}
	case k < 42: // chmod
		if p := h.pick(func(_ string, n *rtNode) bool { return n.Kind != 's' }); p != "" {
			old := h.cur[p]
			pool := rtDiffFilePerms
			if old.Kind == 'd' {
				pool = rtDiffDirPerms
			}
			np := rtPickU32(r, pool)
			if np == old.Perm {
				np = old.Perm ^ 0o010
			}
			h.inplace(p, func(n *rtNode) { n.Perm = np })
			return "chmod"
		}
	case k < 50: // chown
		if p := h.pick(nil); p != "" {
			old := h.cur[p]
			u, g := old.Uid, old.Gid
			switch r.intn(3) {
			case 0:
				u = u + 1 + r.intn(5)
			case 1:
				g = g + 1 + r.intn(5)
			default:
				u, g = rtPickInt(r, rtDiffIDs)+7, rtPickInt(r, rtDiffIDs)+9
			}
			h.inplace(p, func(n *rtNode) { n.Uid, n.Gid = u, g })
			return "chown-" + string(old.Kind)
		}
	case k < 57: // retime
		if p := h.pick(nil); p != "" {
			old := h.cur[p]
			sec, nsec := h.tick()
			kind := "retime"
			if r.chance(1, 4) && old.Nsec != 0 && old.Kind != 'd' {
				// same second, another non-zero nanosecond value: a change by the sameFsTime rule
				sec, nsec = old.Sec, old.Nsec%999999998+1
				kind = "retime-ns"
			}
			if r.chance(1, 8) && old.Kind != 'd' {
				// the first second of the epoch and other values a "no time given" test could mistake for unset
				sec, nsec = []int64{0, 0, 1}[r.intn(3)], 0 // (times before the epoch are clamped by design: not generated)
				kind = "retime-epoch"
			}
			h.inplace(p, func(n *rtNode) { n.Sec, n.Nsec = sec, nsec })
			return kind + "-" + string(old.Kind)
		}
	case k < 66: // rename
		if p := h.pick(nil); p != "" {
			d := h.pickDir()
			if rtUnder(p, d) && d != "" {
				return ""
			}
			dst := rtJoin(d, h.freshName(d))
			if _, ok := h.cur[dst]; ok {
				return ""
			}
			moved := h.subtree(p)
			var ns []*rtNode
			for _, k := range moved {
				n := h.cur[k]
				delete(h.cur, k)
				wasMnt := h.inMnt(k)
				n.Rel = dst + k[len(p):]
				if n.Kind != 'd' && wasMnt != h.inMnt(n.Rel) {
					n.Ino = h.newIno() // a move across filesystems is a copy
				}
				ns = append(ns, n)
			}
			for _, n := range ns {
				h.cur[n.Rel] = n
			}
			kind := "rename"
			if len(moved) > 1 {
				kind = "rename-dir"
				// delete inside the renamed directory, in the same step
				if r.chance(1, 2) {
					if c := h.children(dst); len(c) > 0 {
						h.removeSubtree(c[r.intn(len(c))])
						kind = "rename-dir+delete-inside"
					}
				}
			}
			return kind
		}
	case k < 78: // replace by another type, at any depth
		if p := h.pick(nil); p != "" {
			old := *h.cur[p]
			if (old.Kind == 'c' || old.Kind == 'b') && r.chance(1, 2) {
				// the node is made again with other device numbers; in half of the cases nothing else changes
				keepTime := r.chance(1, 2)
				sec, nsec := h.tick()
				dMin, dMaj := 1+uint32(r.intn(3)), uint32(r.intn(3)/2)
				h.inplace(p, func(n *rtNode) {
					n.Min += dMin
					n.Maj += dMaj
					if !keepTime {
						n.Sec, n.Nsec = sec, nsec
					}
				})
				if keepTime {
					return "rdev-change-only"
				}
				return "rdev-change"
			}
			kinds := []byte{'r', 'd', 's', 'r', 'd', 's', 'f', 'c'}
			nk := kinds[r.intn(len(kinds))]
			if nk == old.Kind && nk != 'r' {
				return ""
			}
			h.removeSubtree(p)
			n := h.mkNode(p, nk)
			if nk == 'r' && old.Kind == 'r' && len(n.Data) == len(old.Data) {
				n.Data += "+"
			}
			h.cur[p] = n
			if nk == 'd' {
				for i, c := 0, r.intn(3); i < c; i++ {
					h.addSubtree(p, 1)
				}
			}
			at := "top"
			if rtDepth(p) > 1 {
				at = "deep"
			}
			return fmt.Sprintf("replace-%c-by-%c@%s", old.Kind, nk, at)
		}
	case k < 84: // a symlink to a directory becomes a real directory with same-named children
		var cands []string
		for _, k := range h.keys() {
			if d := h.resolveDir(k); d != "" && !rtUnder(d, k) && !h.protected(k) && len(h.children(d)) > 0 {
				cands = append(cands, k)
			}
		}
		if len(cands) > 0 {
			l := cands[r.intn(len(cands))]
			d := h.resolveDir(l)
			delete(h.cur, l)
			mode := r.intn(3)
			h.copyTree(d, l, mode == 0)
			if mode == 2 {
				// same names, other content
				for _, k := range h.subtree(l) {
					if n := h.cur[k]; n.Kind == 'r' {
						n.Data = rtBytes(r, len(n.Data)+1)
						n.Sec, n.Nsec = h.tick()
						n.Ino = h.newIno()
					}
				}
			}
			return []string{"symdir-to-dir-linked-copy", "symdir-to-dir-exact-copy", "symdir-to-dir-other-content"}[mode]
		}
	case k < 89: // a directory becomes a symlink to another directory (often one with same-named children)
		p := h.pick(func(k string, n *rtNode) bool { return n.Kind == 'd' })
		if p != "" {
			var cands []string
			for _, d := range h.dirs() {
				if d != "" && !rtUnder(p, d) && !rtUnder(d, p) {
					cands = append(cands, d)
				}
			}
			if len(cands) > 0 {
				d := cands[r.intn(len(cands))]
				if r.chance(1, 2) && len(h.children(d)) == 0 {
					// give the target the same children first (so the two sides of the diff look alike through the link)
					for _, k := range h.subtree(p) {
						if k == p {
							continue
						}
						n := *h.cur[k]
						n.Rel = d + k[len(p):]
						if n.Kind != 'd' && h.inMnt(k) != h.inMnt(n.Rel) {
							n.Ino = h.newIno()
						}
						m := n
						h.cur[m.Rel] = &m
					}
				}
				h.removeSubtree(p)
				n := h.mkNode(p, 's')
				n.Target = rtRelTo(rtParent(p), d)
				h.cur[p] = n
				return "dir-to-symdir"
			}
		}
	case k < 94: // one more name for an existing inode
		if p := h.pick(notDir); p != "" {
			d := h.pickDir()
			n := *h.cur[p]
			n.Rel = rtJoin(d, h.freshName(d))
			if h.inMnt(p) != h.inMnt(n.Rel) {
				return ""
			}
			if h.put(&n) {
				return "link-add-" + string(n.Kind)
			}
		}
	default: // of several names of one inode, replace exactly one
		if p := h.pick(func(_ string, n *rtNode) bool { return n.Kind != 'd' && h.linkCount(n.Ino) >= 2 }); p != "" {
			old := *h.cur[p]
			n := h.mkNode(p, 'r')
			n.Data = rtBytes(r, len(old.Data)+1+r.intn(20))
			h.cur[p] = n
			return "replace-one-of-linked"
		}
	}
	return ""
}

func rtGenHistory(r *Rng) (snaps [][]rtNode, h *rtHist, muts [][]string) {
	h = &rtHist{r: r, cur: map[string]*rtNode{}, clock: 1500000000 + int64(r.intn(100000)), feat: map[string]int{}}
	h.mnt = r.chance(1, 4)
	// initial tree
	if h.mnt {
		m := h.mkNode("mnt", 'd')
		m.Perm = rtPickU32(r, []uint32{0o755, 0o700, 0o2775})
		h.put(m)
		for i, k := 0, 2+r.intn(3); i < k; i++ {
			h.put(h.mkNode(rtJoin("mnt", h.freshName("mnt")), 'r'))
		}
		sub := h.mkNode("mnt/sub", 'd')
		h.put(sub)
		h.put(h.mkNode("mnt/sub/f", 'r'))
	}
	for i, k := 0, 3+r.intn(6); i < k; i++ {
		h.addSubtree(h.pickDir(), 0)
	}
	// twins: a versioned directory and a "current" name that is a symlink to it (or a copy of it)
	if r.chance(3, 4) {
		base := ""
		if r.chance(1, 3) {
			if d := h.mkNode(h.freshName(""), 'd'); h.put(d) {
				base = d.Rel
			}
		}
		v1 := h.mkNode(rtJoin(base, "v1"), 'd')
		if h.put(v1) {
			h.put(h.mkNode(v1.Rel+"/app.conf", 'r'))
			if b := h.mkNode(v1.Rel+"/bin", 'd'); h.put(b) {
				h.put(h.mkNode(b.Rel+"/run", 'r'))
			}
			cur := rtJoin(base, "current")
			if r.chance(2, 3) {
				l := h.mkNode(cur, 's')
				l.Target = r.pick([]string{"v1", "./v1", "v1/"})
				h.put(l)
			} else if _, ok := h.cur[cur]; !ok {
				h.copyTree(v1.Rel, cur, r.chance(1, 2))
			}
		}
	}
	// hard-link groups
	for i, k := 0, 1+r.intn(2); i < k; i++ {
		p := h.pick(func(_ string, n *rtNode) bool { return n.Kind != 'd' })
		if p == "" {
			break
		}
		for j, c := 0, 1+r.intn(2); j < c; j++ {
			d := h.pickDir()
			n := *h.cur[p]
			n.Rel = rtJoin(d, h.freshName(d))
			if h.inMnt(p) == h.inMnt(n.Rel) {
				h.put(&n)
			}
		}
	}
	for _, k := range h.keys() {
		if n := h.cur[k]; n.Kind == 's' && !rtStaysInside(k, n.Target) {
			// an extra name of a symlink in another directory: keep the tree inside the documented precondition
			h.inplace(k, func(m *rtNode) { m.Target = "x" })
		}
	}
	snaps = append(snaps, h.snapshot())
	muts = append(muts, nil)
	for s, steps := 0, 1+r.intn(5); s < steps; s++ {
		var ms []string
		want := 1 + r.intn(4)
		for tries := 0; len(ms) < want && tries < 20; tries++ {
			saved := h.clone()
			if m := h.mutate(); m != "" {
				if !h.valid() {
					h.cur = saved // e.g. a moved symlink whose target would now leave the tree (refused by design)
					continue
				}
				ms = append(ms, m)
			}
		}
		// C04 does not track a rewrite that keeps both size and mtime-second. Single mutations never
		// produce one, but two of them in one step can (size A→B→A): make the NET change detectable.
		prev := map[string]*rtNode{}
		for i := range snaps[len(snaps)-1] {
			prev[snaps[len(snaps)-1][i].Rel] = &snaps[len(snaps)-1][i]
		}
		for _, k := range h.keys() {
			n, o := h.cur[k], prev[k]
			if o == nil || n.Kind != 'r' || o.Kind != 'r' || n.Data == o.Data || len(n.Data) != len(o.Data) {
				continue
			}
			if (n.Sec == o.Sec && n.Nsec == o.Nsec) || (n.Sec == o.Sec && (n.Nsec == 0 || o.Nsec == 0)) {
				sec, nsec := h.tick()
				h.inplace(k, func(m *rtNode) { m.Sec, m.Nsec = sec, nsec })
				h.feat["net-rewrite-made-detectable"]++
			}
		}
		snaps = append(snaps, h.snapshot())
		muts = append(muts, ms)
	}
	return snaps, h, muts
}

func rtDiffCase(r *Rng, out *rtOut) {
	snaps, h, muts := rtGenHistory(r)
	storage := "independent"
	if r.chance(1, 2) {
		storage = "shared"
	}
	fromEmpty := r.chance(1, 4)
	out.count("diff/cases")
	for k, v := range h.feat {
		out.countN("diff/gen:"+k, v)
	}
	out.count("diff/storage=" + storage)
	out.count(fmt.Sprintf("diff/snapshots=%d", len(snaps)))
	if h.mnt {
		out.count("diff/variant:submount")
	}
	if fromEmpty {
		out.count("diff/variant:first-layer-from-empty")
	}
	var canon strings.Builder
	fmt.Fprintf(&canon, "diff %s mnt=%v empty=%v\n", storage, h.mnt, fromEmpty)
	for k, s := range snaps {
		fmt.Fprintf(&canon, "S%d %v\n%s", k, muts[k], rtTreeText(s))
		for _, m := range muts[k] {
			out.count("diff/mut:" + m)
		}
	}
	out.Canon = canon.String()
	out.Nontrivial = len(snaps) >= 2
	out.Sample = fmt.Sprintf("diff: %s, %d snapshots, S0 %d nodes, steps %v", storage, len(snaps), len(snaps[0]), muts[1:])

	// materialise every snapshot
	b := newRtBuilder()
	mounts := map[string]bool{}
	if h.mnt {
		mounts["mnt"] = true
	}
	dir := func(k int) string { return fmt.Sprintf("/w/s%d", k) }
	for k, s := range snaps {
		k := k
		if err := rtMkTop(dir(k), 0o755); err != nil {
			out.Setup = err.Error()
			return
		}
		dom := func(rel string) string {
			d := "shared"
			if storage == "independent" {
				d = fmt.Sprintf("s%d", k)
			}
			if h.mnt && rtUnder("mnt", rel) && rel != "mnt" {
				d = fmt.Sprintf("s%d/mnt", k)
			}
			return d
		}
		if err := b.build(dir(k), s, dom, mounts); err != nil {
			out.Setup = fmt.Sprintf("build snapshot %d: %v", k, err)
			return
		}
	}
	var scans [][]rtS
	for k, s := range snaps {
		if err := rtCheckBuilt(dir(k), s); err != nil {
			out.Setup = fmt.Sprintf("snapshot %d: %v", k, err)
			return
		}
		sc, err := rtScan(dir(k))
		if err != nil {
			out.Setup = err.Error()
			return
		}
		scans = append(scans, sc)
	}
	if storage == "shared" {
		// how much is actually shared between consecutive snapshots
		for k := 1; k < len(snaps); k++ {
			out.countN("diff/shared-inodes-between-consecutive-snapshots", rtSharedInodes(dir(k-1), dir(k), snaps[k]))
		}
	}
	if h.mnt {
		for k := 1; k < len(snaps); k++ {
			out.countN("diff/submount:changed-file-with-coinciding-inode-number", rtCoincidingChanged(dir(k-1), dir(k), scans[k-1], scans[k]))
		}
	}

	// the applied trees: one chain per extractor
	chains := []string{"plain", "chroot"}
	applied := map[string]string{"plain": "/w/ap", "chroot": "/w/ac"}
	broken := map[string]bool{}
	first := 1
	for _, c := range chains {
		if err := rtMkTop(applied[c], 0o755); err != nil {
			out.Setup = err.Error()
			return
		}
		if !fromEmpty {
			if err := newRtBuilder().build(applied[c], snaps[0], rtOneDomain, nil); err != nil {
				out.Setup = "build applied tree: " + err.Error()
				return
			}
		}
	}
	if fromEmpty {
		first = 0
	}
	for k := first; k < len(snaps); k++ {
		oldDir := ""
		if k > 0 {
			oldDir = dir(k - 1)
		}
		changes, err := archive.ChangesDirs(dir(k), oldDir)
		if err != nil {
			out.problem("diff", fmt.Sprintf("step %d: ChangesDirs failed: %v", k, err))
			return
		}
		for _, c := range changes {
			out.count("diff/change:" + c.Kind.String())
		}
		rc, err := archive.ExportChanges(dir(k), changes, user.IdentityMapping{})
		if err != nil {
			out.problem("export", fmt.Sprintf("step %d: ExportChanges failed: %v", k, err))
			return
		}
		layer, err := io.ReadAll(rc)
		rc.Close()
		if err != nil {
			out.problem("export", fmt.Sprintf("step %d: reading the exported layer failed: %v", k, err))
			return
		}
		// C09 on the exported layer: each path appears at most once (a change list that reports a path twice
		// would make ExportChanges write its entry twice)
		{
			seenName := map[string]int{}
			tr := tar.NewReader(bytes.NewReader(layer))
			for {
				hdr, terr := tr.Next()
				if terr != nil {
					break
				}
				seenName[strings.TrimSuffix(hdr.Name, "/")]++
			}
			out.count("diff/export-names-checked")
			for n, cnt := range seenName {
				if cnt > 1 {
					out.problem("export-unique", fmt.Sprintf("C09: step %d (mutations %v): path %q appears %d times in the exported layer", k, muts[k], n, cnt))
					break
				}
			}
		}
		for _, c := range chains {
			if broken[c] {
				continue
			}
			var opts *archive.TarOptions
			if r.chance(1, 2) {
				opts = &archive.TarOptions{}
			}
			unix.Umask(0o022)
			if c == "plain" {
				_, err = archive.ApplyUncompressedLayer(applied[c], bytes.NewReader(layer), opts)
			} else {
				_, err = chrootarchive.ApplyUncompressedLayer(applied[c], bytes.NewReader(layer), opts)
			}
			unix.Umask(0)
			out.count("diff/apply:" + c)
			if err != nil {
				out.problem("apply", fmt.Sprintf("step %d (%s, %s; mutations %v): applying the exported layer failed: %v", k, c, storage, muts[k], err))
				broken[c] = true
				continue
			}
			got, err := rtScan(applied[c])
			if err != nil {
				out.Setup = "scan applied: " + err.Error()
				return
			}
			clause, msg := rtCompare(scans[k], got, rtCmp{FsTime: true}, func(cl string) { out.count("diff/clause:" + cl) })
			if clause != "" {
				out.problem("step-"+clause, fmt.Sprintf("after step %d of %d (%s, %s storage, submount=%v; mutations %v) the applied tree differs from snapshot %d: %s",
					k, len(snaps)-1, c, storage, h.mnt, muts[k], k, msg))
				broken[c] = true
				continue
			}
			out.count("diff/step-equal")
		}
	}
}

// rtSharedInodes counts the non-directory names of the new snapshot whose inode is also the inode
// of the same name in the old one.
func rtSharedInodes(oldDir, newDir string, nodes []rtNode) int {
	c := 0
	for _, n := range nodes {
		if n.Kind == 'd' {
			continue
		}
		var a, b unix.Stat_t
		if unix.Lstat(oldDir+"/"+n.Rel, &a) == nil && unix.Lstat(newDir+"/"+n.Rel, &b) == nil && a.Ino == b.Ino && a.Dev == b.Dev {
			c++
		}
	}
	return c
}

// rtCoincidingChanged counts names that differ between two snapshots although their inode
// NUMBERS are equal (different filesystems).
func rtCoincidingChanged(oldDir, newDir string, old, nu []rtS) int {
	om := map[string]*rtS{}
	for i := range old {
		om[old[i].Path] = &old[i]
	}
	c := 0
	for i := range nu {
		n := &nu[i]
		o := om[n.Path]
		if o == nil || n.Kind == 'd' {
			continue
		}
		if o.Kind == n.Kind && o.Data == n.Data && o.Perm == n.Perm && o.Uid == n.Uid && o.Gid == n.Gid && o.Mtime == n.Mtime && o.Nsec == n.Nsec && o.Target == n.Target {
			continue
		}
		var a, b unix.Stat_t
		if unix.Lstat(oldDir+"/"+n.Path, &a) == nil && unix.Lstat(newDir+"/"+n.Path, &b) == nil && a.Ino == b.Ino && a.Dev != b.Dev {
			c++
		}
	}
	return c
}
