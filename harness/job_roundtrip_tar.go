package main

import (
	"bytes"
	"fmt"
	"io"
	"sort"
	"strings"

	"golang.org/x/sys/unix"

	archive "github.com/moby/go-archive"
	"github.com/moby/go-archive/chrootarchive"
	"github.com/moby/go-archive/compression"
)

// Family "tar" (C03): tar a generated tree, extract it into an empty directory, compare
// independent scans of source and destination.

var rtSizes = []int{0, 1, 511, 512, 513, 32767, 32768, 32769, 65536, 65537, 98304}
var rtPathLens = []int{99, 100, 101, 155, 255, 256, 300}
var rtShortNames = []string{"a", "b", "c", "d", "e", "f", "x", "y", "dir", "file.txt", "lib", ".cfg", "w", "h", ".w", "wh.x", "-n", "a b", "é", "日本語", "😀x", "ñandú", "Ω.tar", "ü",
	"..data", "...", "..2024_01_01", ".x.", "~", "#x", "x:y", "%41", "\\x", "a*", "[a]", "?", "a\tb", "back\\slash", "\\", "a\\b\\c"}
var rtRunes = []string{"é", "日", "😀", "ß", "語"}
var rtIDs = []int{0, 0, 1, 1000, 1001, 65534, 65535, 100000, 2097151, 2097152, 4294967294}
var rtFilePerms = []uint32{0o644, 0o600, 0o755, 0o4755, 0o2755, 0o6711, 0o4711, 0o2644, 0o1644, 0o000, 0o777, 0o6777, 0o4000}
var rtDirPerms = []uint32{0o755, 0o700, 0o1777, 0o2775, 0o2755, 0o3777, 0o711, 0o555, 0o750}
var rtTimes = []int64{0, 1, 999999999, 1000000000, 1700000000, 2147483647, 2147483648, 4294967296, 8589934591, 8589934592, 9223372036}
var rtNsecs = []int64{0, 0, 1, 500000000, 999999999, 123456789}

// rtFill returns a valid UTF-8 string of exactly n bytes that starts with tag; multi-byte runes are
// placed so that they straddle the 100-byte header-field boundary when the string is long enough.
func rtFill(r *Rng, tag string, n int) string {
	if len(tag) > n {
		tag = tag[:n]
	}
	var sb strings.Builder
	sb.WriteString(tag)
	multibyte := r.chance(1, 2)
	for sb.Len() < n {
		left := n - sb.Len()
		pos := sb.Len()
		if multibyte && (pos == 98 || pos == 99 || pos == 153 || pos == 154 || pos == 254 || r.chance(1, 12)) {
			ru := r.pick(rtRunes)
			if len(ru) <= left {
				sb.WriteString(ru)
				continue
			}
		}
		sb.WriteByte(byte('a' + pos%26))
	}
	return sb.String()
}

type rtTreeGen struct {
	r     *Rng
	nodes []rtNode
	have  map[string]byte
	dirs  []string // existing directories, "" = top
	ino   int
	clock int64
	feat  map[string]int
	seq   int
}

func newRtTreeGen(r *Rng) *rtTreeGen {
	return &rtTreeGen{r: r, have: map[string]byte{}, dirs: []string{""}, clock: 1600000000 + int64(r.intn(1000)), feat: map[string]int{}}
}

func (g *rtTreeGen) times() (int64, int64) {
	r := g.r
	if r.chance(1, 7) {
		return rtPickI64(r, rtTimes), rtPickI64(r, rtNsecs)
	}
	g.clock += int64(1 + r.intn(5000))
	return g.clock, rtPickI64(r, rtNsecs)
}

func (g *rtTreeGen) owner() (int, int) {
	r := g.r
	if r.chance(1, 3) {
		return 0, 0
	}
	return rtPickInt(r, rtIDs), rtPickInt(r, rtIDs)
}

// add inserts a node if its name is free and its parent is a directory; fills owner/time defaults.
func (g *rtTreeGen) add(n rtNode) bool {
	if n.Rel == "" || len(n.Rel) > 3500 {
		return false
	}
	if _, ok := g.have[n.Rel]; ok {
		return false
	}
	par := rtParent(n.Rel)
	if par != "" && g.have[par] != 'd' {
		return false
	}
	if len(n.Rel)-len(par) > 255+1 {
		return false
	}
	g.have[n.Rel] = n.Kind
	if n.Kind == 'd' {
		g.dirs = append(g.dirs, n.Rel)
	}
	g.nodes = append(g.nodes, n)
	return true
}

func (g *rtTreeGen) pickDir(maxDepth int) string {
	for i := 0; i < 8; i++ {
		d := g.dirs[g.r.intn(len(g.dirs))]
		if rtDepth(d) <= maxDepth {
			return d
		}
	}
	return ""
}

func (g *rtTreeGen) freshName(dir string) string {
	r := g.r
	for i := 0; i < 6; i++ {
		n := r.pick(rtShortNames)
		if r.chance(1, 3) {
			g.seq++
			n = fmt.Sprintf("%s%d", n, g.seq)
		}
		if _, ok := g.have[rtJoin(dir, n)]; !ok {
			return n
		}
	}
	g.seq++
	return fmt.Sprintf("n%d", g.seq)
}

func (g *rtTreeGen) addDir(dir string, name string) string {
	u, gid := g.owner()
	perm := uint32(0o755)
	if g.r.chance(1, 2) {
		perm = rtPickU32(g.r, rtDirPerms)
	}
	rel := rtJoin(dir, name)
	sec, nsec := g.times()
	if g.add(rtNode{Rel: rel, Kind: 'd', Perm: perm, Uid: u, Gid: gid, Sec: sec, Nsec: nsec}) {
		if perm&0o7000 != 0 {
			g.feat["dir-special-bits"]++
		}
		return rel
	}
	return ""
}

// leaf creates one non-directory node of the given kind (not yet added).
func (g *rtTreeGen) leaf(rel string, kind byte) rtNode {
	r := g.r
	u, gid := g.owner()
	n := rtNode{Rel: rel, Kind: kind, Uid: u, Gid: gid, Perm: 0o644}
	n.Sec, n.Nsec = g.times()
	if r.chance(1, 2) {
		n.Perm = rtPickU32(r, rtFilePerms)
	}
	switch kind {
	case 'r':
		n.Data = rtBytes(r, rtPickInt(r, []int{0, 1, 7, 100, 511, 512, 513}))
	case 's':
		n.Perm = 0o777
		n.Target = g.target(rel)
	case 'c', 'b':
		n.Maj = rtPickU32(r, []uint32{0, 0, 1, 5, 255, 4095})
		n.Min = rtPickU32(r, []uint32{0, 0, 1, 255, 256, 65535, 1048575})
	}
	return n
}

// target makes a symlink target for a link at rel: often not in clean form, always lexically inside.
func (g *rtTreeGen) target(rel string) string {
	r := g.r
	base := []string{"x", "./x", "a//b", "dir/", "x/../y", "./", ".", "a/./b", "x/", "a/b/../../c", "nonexistent", "x//", ".//x", "a/../a/../a"}
	if rtDepth(rel) >= 2 {
		base = append(base, "../x", "..", "../", "../a/./b", "./../y", "x/../../z", "../dir/")
	}
	if rtDepth(rel) >= 3 {
		base = append(base, "../../x", "../..", "../../a//b")
	}
	// sometimes point at something that exists (a directory or a file of the tree), relative to the link's directory
	for try := 0; try < 12; try++ {
		t := r.pick(base)
		if r.chance(1, 4) && len(g.nodes) > 0 {
			o := g.nodes[r.intn(len(g.nodes))].Rel
			up := strings.Repeat("../", rtDepth(rel)-1)
			t = up + o
			if r.chance(1, 3) {
				t = "./" + t
			}
		}
		if r.chance(1, 25) {
			t = "./" + rtFill(r, "long", rtPickInt(r, []int{98, 99, 100, 101, 150, 254, 255, 256, 257, 600, 1100}))
		}
		if t != "" && rtStaysInside(rel, t) {
			if t != rtCleanRel(t) {
				g.feat["symlink-unclean-target"]++
			}
			return t
		}
	}
	return "x"
}

// rtCleanRel is the clean form of a relative target (what a normalising extractor would write).
func rtCleanRel(t string) string {
	parts := strings.Split(t, "/")
	var out []string
	for _, p := range parts {
		switch p {
		case "", ".":
		case "..":
			if len(out) > 0 && out[len(out)-1] != ".." {
				out = out[:len(out)-1]
			} else {
				out = append(out, "..")
			}
		default:
			out = append(out, p)
		}
	}
	if len(out) == 0 {
		return "."
	}
	return strings.Join(out, "/")
}

// longPath adds an object whose relative path is exactly total bytes long.
func (g *rtTreeGen) longPath(total int) {
	r := g.r
	dir := g.pickDir(2)
	for tries := 0; tries < 4 && len(dir) > 40; tries++ {
		dir = g.pickDir(1)
	}
	if len(dir) > 40 {
		dir = ""
	}
	g.seq++
	tag := fmt.Sprintf("L%d_%d_", total, g.seq)
	remain := total
	if dir != "" {
		remain = total - len(dir) - 1
	}
	// split into components of at most 255 bytes; sometimes more components than necessary
	for remain > 255 || (remain > 60 && r.chance(1, 3)) {
		clen := 20 + r.intn(120)
		if remain-clen-1 < 1 {
			break
		}
		if remain-clen-1 > 255*3 {
			clen = 255
		}
		d := g.addDir(dir, rtFill(r, tag, clen))
		if d == "" {
			return
		}
		dir = d
		remain -= clen + 1
	}
	if remain < 1 || remain > 255 {
		return
	}
	name := rtFill(r, tag, remain)
	rel := rtJoin(dir, name)
	if len(rel) != total {
		return
	}
	ok := false
	switch k := r.intn(10); {
	case k < 4:
		ok = g.add(g.leaf(rel, 'r'))
	case k < 7:
		ok = g.addDir(dir, name) != ""
	case k < 8:
		ok = g.add(g.leaf(rel, 's'))
	case k < 9:
		ok = g.add(g.leaf(rel, 'f'))
	default:
		// a long name that is also a member of a hard-link group: Linkname beyond the header field
		g.ino++
		n := g.leaf(rel, 'r')
		n.Ino = g.ino
		ok = g.add(n)
		if ok {
			n2 := g.nodes[len(g.nodes)-1]
			n2.Rel = rtJoin(g.pickDir(3), g.freshName("")+"_lnk")
			if g.add(n2) {
				g.feat["hardlink-long-name"]++
			}
		}
	}
	if ok {
		g.feat[fmt.Sprintf("pathlen=%d", total)]++
		if strings.IndexFunc(name, func(c rune) bool { return c > 127 }) >= 0 {
			g.feat["long-name-multibyte"]++
		}
	}
}

// linkGroup adds 2-4 names of one inode.
func (g *rtTreeGen) linkGroup(kind byte) {
	r := g.r
	g.ino++
	dir := g.pickDir(4)
	first := g.leaf(rtJoin(dir, g.freshName(dir)), kind)
	first.Ino = g.ino
	if kind == 'r' {
		first.Perm = rtPickU32(r, []uint32{0o4755, 0o2755, 0o6755, 0o4711, 0o2711, 0o6711, 0o644, 0o755, 0o2644})
		first.Data = rtBytes(r, rtPickInt(r, rtSizes[:6]))
		if r.chance(1, 2) {
			first.Cap = rtCapRev2
			if r.chance(1, 3) {
				first.Cap = rtCapRev3
			}
		}
		if first.Uid == 0 && r.chance(2, 3) {
			first.Uid, first.Gid = 1000, 50
		}
	}
	if !g.add(first) {
		return
	}
	first = g.nodes[len(g.nodes)-1]
	names := 1
	for k := 1 + r.intn(3); k > 0; k-- {
		n := first
		d := dir
		if r.chance(2, 3) {
			d = g.pickDir(4)
		}
		n.Rel = rtJoin(d, g.freshName(d))
		if kind == 's' && !rtStaysInside(n.Rel, n.Target) {
			continue // the same target text must stay inside the tree from every name of the link
		}
		if g.add(n) {
			names++
		}
	}
	if names >= 2 {
		g.feat["hardlink-group-"+string(kind)]++
		if kind == 'r' && first.Perm&0o6000 != 0 {
			g.feat["hardlink+setid"]++
		}
		if first.Cap != "" {
			g.feat["hardlink+cap"]++
		}
	}
}

func rtGenTarTree(r *Rng) ([]rtNode, map[string]int) {
	g := newRtTreeGen(r)
	if r.chance(1, 60) {
		return nil, g.feat // the empty tree
	}
	// directory skeleton
	for i, nd := 0, 2+r.intn(7); i < nd; i++ {
		d := g.pickDir(4)
		g.addDir(d, g.freshName(d))
	}
	if r.chance(1, 4) {
		// one deep chain
		d := ""
		for i, n := 0, 5+r.intn(5); i < n; i++ {
			if nd := g.addDir(d, r.pick([]string{"p", "q", "日", "deep"})); nd != "" {
				d = nd
			}
		}
	}
	// regular files over the boundary sizes (one large body at most twice per tree)
	big := 0
	for i, nf := 0, 3+r.intn(6); i < nf; i++ {
		d := g.pickDir(5)
		n := g.leaf(rtJoin(d, g.freshName(d)), 'r')
		sz := rtPickInt(r, rtSizes)
		if sz > 32769 {
			if big >= 1 {
				sz = rtPickInt(r, rtSizes[:6])
			}
			big++
		}
		var shape string
		n.Data, shape = rtShapedBytes(r, sz)
		g.feat["content="+shape]++
		if r.chance(1, 8) {
			n.Cap = rtCapRev2
			if r.chance(1, 3) {
				n.Cap = rtCapRev3
			}
		}
		if g.add(n) {
			g.feat[fmt.Sprintf("size=%d", sz)]++
			if n.Cap != "" {
				g.feat[fmt.Sprintf("cap-rev%d", n.Cap[3])]++
			}
			if n.Perm&0o6000 != 0 {
				g.feat["setid-file"]++
			}
		}
	}
	for i, nl := 0, 1+r.intn(3); i < nl; i++ {
		g.longPath(rtPickInt(r, rtPathLens))
	}
	for i, ng := 0, 1+r.intn(3); i < ng; i++ {
		k := []byte{'r', 'r', 'r', 's', 'f', 'c', 'b'}[r.intn(7)]
		g.linkGroup(k)
	}
	for i, ns := 0, 1+r.intn(5); i < ns; i++ {
		d := g.pickDir(5)
		if g.add(g.leaf(rtJoin(d, g.freshName(d)), 's')) {
			g.feat["symlink"]++
		}
	}
	for i, nd := 0, r.intn(4); i < nd; i++ {
		d := g.pickDir(5)
		k := []byte{'c', 'b', 'f', 'f'}[r.intn(4)]
		n := g.leaf(rtJoin(d, g.freshName(d)), k)
		if g.add(n) {
			g.feat["special-"+string(k)]++
			if n.Uid != 0 || n.Gid != 0 {
				g.feat["special-owned"]++
			}
		}
	}
	if r.chance(1, 2) {
		d := g.pickDir(5)
		n := g.leaf(rtJoin(d, g.freshName(d)), 'r')
		n.Data = ""
		if g.add(n) {
			g.feat["empty-file"]++
		}
	}
	for _, n := range g.nodes {
		if n.Uid > 2097151 || n.Gid > 2097151 {
			g.feat["id-beyond-octal-field"]++
		}
		if n.Sec >= 8589934592 {
			g.feat["mtime-beyond-octal-field"]++
		}
	}
	empties := 0
	for _, d := range g.dirs {
		if d == "" {
			continue
		}
		has := false
		for _, n := range g.nodes {
			if rtParent(n.Rel) == d {
				has = true
				break
			}
		}
		if !has {
			empties++
		}
	}
	g.feat["empty-dir"] += empties
	sort.SliceStable(g.nodes, func(i, j int) bool { return g.nodes[i].Rel < g.nodes[j].Rel })
	return g.nodes, g.feat
}

func rtTarCase(r *Rng, out *rtOut) {
	nodes, feat := rtGenTarTree(r)
	for k, v := range feat {
		out.countN("tar/feat:"+k, v)
	}
	out.count("tar/cases")
	out.Canon = "tar\n" + rtTreeText(nodes)
	out.Nontrivial = len(nodes) >= 3
	if len(nodes) > 0 {
		out.Sample = fmt.Sprintf("tar: %d nodes, first: %s", len(nodes), truncate(nodes[0].brief(), 120))
	}
	src := "/w/src"
	if err := rtMkTop(src, 0o755); err != nil {
		out.Setup = err.Error()
		return
	}
	if err := newRtBuilder().build(src, nodes, rtOneDomain, nil); err != nil {
		out.Setup = "build source: " + err.Error()
		return
	}
	if err := rtCheckBuilt(src, nodes); err != nil {
		out.Setup = err.Error()
		return
	}
	want, err := rtScan(src)
	if err != nil {
		out.Setup = "scan source: " + err.Error()
		return
	}
	umask := rtPickInt(r, []int{0, 0o022, 0o077, 0o027})
	out.count(fmt.Sprintf("tar/umask=%03o", umask))
	for ci, comp := range []compression.Compression{compression.None, compression.Gzip} {
		cname := []string{"none", "gzip"}[ci]
		var rc io.ReadCloser
		var err error
		api := "TarWithOptions"
		if r.chance(1, 2) {
			api = "Tar"
			rc, err = archive.Tar(src, comp)
		} else {
			rc, err = archive.TarWithOptions(src, &archive.TarOptions{Compression: comp})
		}
		out.count("tar/api=" + api)
		if err != nil {
			out.problem("archive", fmt.Sprintf("%s(%s) failed: %v", api, cname, err))
			continue
		}
		stream, err := io.ReadAll(rc)
		rc.Close()
		if err != nil {
			out.problem("archive", fmt.Sprintf("reading the %s stream of %s failed: %v", cname, api, err))
			continue
		}
		for _, ext := range []string{"plain", "chroot"} {
			dst := fmt.Sprintf("/w/dst_%s_%s", cname, ext)
			if err := rtMkTop(dst, 0o755); err != nil {
				out.Setup = err.Error()
				return
			}
			var opts *archive.TarOptions
			if r.chance(1, 2) {
				opts = &archive.TarOptions{}
			}
			unix.Umask(umask)
			if ext == "plain" {
				err = archive.Untar(bytes.NewReader(stream), dst, opts)
			} else {
				err = chrootarchive.Untar(bytes.NewReader(stream), dst, opts)
			}
			unix.Umask(0)
			out.count("tar/run:" + cname + "+" + ext)
			if err != nil {
				out.problem("extract", fmt.Sprintf("%s/%s: extracting the archive of the tree into an empty directory failed: %v", cname, ext, err))
				continue
			}
			got, err := rtScan(dst)
			if err != nil {
				out.Setup = "scan destination: " + err.Error()
				return
			}
			clause, msg := rtCompare(want, got, rtCmp{DirMtime: true, FileMtime: true, Groups: true, Caps: true}, func(c string) { out.count("tar/clause:" + c) })
			if clause != "" {
				out.problem(clause, fmt.Sprintf("%s/%s (%s): %s", cname, ext, api, msg))
			}
		}
	}
}
