package main

import (
	"archive/tar"
	"bytes"
	"io"
	"strconv"
	"strings"
	"time"

	archive "github.com/moby/go-archive"
)

// Stream "rebase": the Lean model of RebaseArchiveEntries (GA/M/Rewrite.lean) against the real
// function on parsed entries (names, link names, every other field, order).
func init() { subcmds["rebase"] = runRebase }

func runRebase(cfg *Config) *Result {
	res := newResult("random archives (all entry types, names containing the old base at the start / in the middle / repeatedly, link names of hard links and symlinks with and without the old base, shorter than it) × (oldBase, newBase) incl. '/', '.', long new bases; non-trivial = some name changes; distinct by case")
	rng := newRng(cfg.Seed ^ 0x72656261)
	n := cfg.count(1500, 20000)
	bases := []string{"src", "a", "/", ".", "dir/sub", "x", "srcdir"}
	news := []string{"dst", "b", "", "new/name", strings.Repeat("n", 120), "src", "/"}
	type rc struct {
		old, nw string
		arch    []byte
		ents    []Ent
	}
	var cases []rc
	var lines []string
	for i := 0; i < n; i++ {
		old, nw := rng.pick(bases), rng.pick(news)
		var buf bytes.Buffer
		tw := tar.NewWriter(&buf)
		k := 1 + rng.intn(6)
		ok := true
		for j := 0; j < k; j++ {
			name := rng.pick([]string{old, old + "/f", old + "/" + old + "/g", "x" + old + "/y", old + ".txt", "lib/" + old, "other", old + "/d/"})
			name = strings.TrimPrefix(name, "/")
			if name == "" {
				name = "root"
			}
			h := &tar.Header{Name: name, Mode: int64(rng.pickPerm(false)), Uid: rng.pickID(), Gid: rng.pickID(), ModTime: time.Unix(int64(1000+rng.intn(1000)), 0), Format: tar.FormatPAX}
			body := ""
			switch rng.intn(6) {
			case 0:
				h.Typeflag = tar.TypeDir
			case 1:
				h.Typeflag = tar.TypeSymlink
				h.Linkname = rng.pick([]string{"/usr/" + old + "/linux", "../" + old + "s/lib", old, "t", old + "/f"})
			case 2:
				h.Typeflag = tar.TypeLink
				h.Linkname = rng.pick([]string{old + "/f", "x", old, "lib/" + old, old + "/" + old + "/g"})
			case 3:
				h.Typeflag = tar.TypeChar
				h.Devmajor, h.Devminor = 1, 3
			default:
				h.Typeflag = tar.TypeReg
				body = randData(rng)
				h.Size = int64(len(body))
				if rng.chance(1, 5) {
					h.PAXRecords = map[string]string{"SCHILY.xattr.user.k": "v"}
				}
			}
			if h.Typeflag != tar.TypeDir {
				h.Name = strings.TrimSuffix(h.Name, "/")
			}
			if err := tw.WriteHeader(h); err != nil {
				ok = false
				break
			}
			if body != "" {
				tw.Write([]byte(body))
			}
		}
		tw.Close()
		if !ok {
			res.count("gen-skip")
			continue
		}
		ents, _, err := parseTarStream(buf.Bytes())
		if err != nil {
			res.count("gen-skip")
			continue
		}
		parts := []string{"rebase", hx(old), hx(nw), "E", strconv.Itoa(len(ents))}
		for _, e := range ents {
			parts = append(parts, e.fields()...)
		}
		cases = append(cases, rc{old, nw, buf.Bytes(), ents})
		lines = append(lines, strings.Join(parts, " "))
	}
	res.Evaluations = len(cases)
	model, err := runDriver(cfg.Driver, lines)
	if err != nil {
		res.SetupError = err.Error()
		return res
	}
	for i, c := range cases {
		out := archive.RebaseArchiveEntries(bytes.NewReader(c.arch), c.old, c.nw)
		b, rerr := io.ReadAll(out)
		out.Close()
		impl := "err"
		if rerr == nil {
			es, _, perr := parseTarStream(b)
			if perr == nil {
				impl = "ok " + renderEnts(es)
			}
		}
		res.Compared++
		res.count("impl:" + strings.Fields(impl)[0])
		if impl == "err" {
			// the writer refused a renamed header (e.g. empty name): outside the model
			res.count("writer-refused")
			continue
		}
		if impl != model[i] {
			res.problem(Problem{Kind: "correspondence", Stream: "rebase", Case: lines[i], Impl: truncate(impl, 400), Model: truncate(model[i], 400), Msg: "rebase model differs: " + firstEntryDiff(impl, model[i])})
		}
		if impl != "ok "+renderEnts(c.ents) {
			res.nontrivial(lines[i])
		}
		if i < 2 {
			res.sample(truncate(lines[i], 200) + " => " + truncate(impl, 200))
		}
	}
	return res
}
