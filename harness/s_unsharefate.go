package main

import (
	"errors"
	"fmt"
	"os"
	"runtime"
	"strconv"
	"time"

	"golang.org/x/sys/unix"

	"github.com/moby/go-archive/chrootarchive"
)

// Stream "unsharefate": the Lean machine for unshare.Go (GA/M/Unshare.lean) against the real
// function (hook VerifUnshareGo): error returned, whether fn ran, and whether the thread survived.
func init() { subcmds["unsharefate"] = runUnshareFate }

func tidAlive(tid int) bool {
	_, err := os.Stat("/proc/self/task/" + strconv.Itoa(tid))
	return err == nil
}

func runUnshareFate(cfg *Config) *Result {
	res := newResult("flag words over {0, NEWUTS, NEWNET, NEWUTS|NEWNET, FS, NEWNS|FS, FS|NEWUTS, NEWIPC} × setup {succeeds, fails}, repeated; non-trivial = flags ≠ 0; distinct by (flags, setup)")
	flagSets := []int{0, unix.CLONE_NEWUTS, unix.CLONE_NEWNET, unix.CLONE_NEWUTS | unix.CLONE_NEWNET, unix.CLONE_FS,
		unix.CLONE_NEWNS | unix.CLONE_FS, unix.CLONE_FS | unix.CLONE_NEWUTS, unix.CLONE_NEWIPC, unix.CLONE_NEWCGROUP, unix.CLONE_NEWTIME | unix.CLONE_FS}
	reps := cfg.count(3, 20)
	var lines, impl, cases []string
	for rep := 0; rep < reps; rep++ {
		for _, fl := range flagSets {
			for _, setupOK := range []bool{true, false} {
				tidc := make(chan int, 2)
				fnRan := make(chan bool, 1)
				done := make(chan struct{})
				err := chrootarchive.VerifUnshareGo(fl, func() error {
					tidc <- unix.Gettid()
					if !setupOK {
						return errors.New("setup refused")
					}
					return nil
				}, func() { fnRan <- true; close(done) })
				ran := false
				if err == nil {
					select {
					case <-done:
						ran = <-fnRan
					case <-time.After(10 * time.Second):
						res.problem(Problem{Kind: "oracle", Stream: "unsharefate", Case: fmt.Sprint(fl, setupOK), Msg: "C13: fn did not run after a successful setup"})
					}
				} else {
					select {
					case ran = <-fnRan:
					case <-time.After(50 * time.Millisecond):
					}
				}
				tid := -1
				select {
				case tid = <-tidc:
				default:
				}
				// settle: a dying thread disappears from /proc/self/task; a released one stays
				alive := tid >= 0 && tidAlive(tid)
				// a thread that is going to die does so as soon as it is scheduled again; on a busy machine
				// (other checks running next to this one) that can take longer than on an idle one
				patience := 300 * time.Millisecond
				if machineBusy() {
					patience = 4 * time.Second
				}
				t0 := time.Now()
				for alive && time.Since(t0) < patience {
					time.Sleep(2 * time.Millisecond)
					alive = tidAlive(tid)
				}
				// still there after that: treat as released
				su := "0"
				if setupOK {
					su = "1"
				}
				lines = append(lines, fmt.Sprintf("unshare %d 1 %s", fl, su))
				impl = append(impl, fmt.Sprintf("OK released=%v fn=%v err=%v", alive, ran, err != nil))
				cases = append(cases, fmt.Sprintf("%d %s", fl, su))
				res.count(fmt.Sprintf("flags:%#x", fl))
				if fl != 0 {
					res.nontrivial(fmt.Sprintf("%d %s", fl, su))
				}
			}
		}
	}
	res.Evaluations = len(lines)
	model, err := runDriver(cfg.Driver, lines)
	if err != nil {
		res.SetupError = err.Error()
		return res
	}
	for i := range lines {
		res.Compared++
		if model[i] != impl[i] {
			res.problem(Problem{Kind: "correspondence", Stream: "unsharefate", Case: cases[i], Impl: impl[i], Model: model[i], Msg: "unshare.Go thread fate differs from the model"})
		}
	}
	res.sample(lines[0] + " => " + impl[0])
	res.sample(lines[11] + " => " + impl[11])
	return res
}

// machineBusy: the one-minute load average exceeds a third of the processors
func machineBusy() bool {
	b, err := os.ReadFile("/proc/loadavg")
	if err != nil {
		return false
	}
	var l float64
	if _, err := fmt.Sscanf(string(b), "%f", &l); err != nil {
		return false
	}
	return l > float64(runtime.NumCPU())/3
}
