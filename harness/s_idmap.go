package main

import (
	"fmt"
	"strings"

	"github.com/moby/sys/user"
)

// Stream "idmap": the Lean model of moby/sys/user's IdentityMapping (ToHost with its root-pair
// short-circuit, ToContainer, RootPair) against the real type, on generated maps and ids at, inside
// and outside every range edge.
func init() { subcmds["idmap"] = runIDMap }

func idmapOf(rs []IDRange) []user.IDMap {
	var out []user.IDMap
	for _, r := range rs {
		out = append(out, user.IDMap{ID: int64(r.C), ParentID: int64(r.H), Count: int64(r.N)})
	}
	return out
}

func runIDMap(cfg *Config) *Result {
	res := newResult("maps: nil, single range, multi-range, uid/gid maps differing, overlapping and gapped ranges; ids: every range edge ±1 plus random; three functions; non-trivial = the map is non-empty; distinct by (function, maps, ids)")
	rng := newRng(cfg.Seed)
	mapPool := [][]IDRange{nil, {{0, 100000, 65536}}, {{0, 1000, 1}, {1, 100000, 65535}}, {{0, 1001, 1}, {1, 200000, 1000}},
		{{0, 5, 10}, {10, 100, 10}, {30, 300, 5}}, {{5, 50, 5}}, {{0, 0, 1}, {1, 1, 1}}, {{0, 100, 10}, {5, 500, 10}}, {{1, 100000, 10}}}
	var lines, impl []string
	addCase := func(um, gm []IDRange, u, g int) {
		m := user.IdentityMapping{UIDMaps: idmapOf(um), GIDMaps: idmapOf(gm)}
		us, gs := rangesStr(um), rangesStr(gm)
		if us == "" {
			us = "-"
		}
		if gs == "" {
			gs = "-"
		}
		for _, fn := range []string{"tohost", "tocontainer", "rootpair"} {
			lines = append(lines, fmt.Sprintf("idmap %s %s %s %d %d", fn, us, gs, u, g))
			var a, b int
			var err error
			switch fn {
			case "tohost":
				a, b, err = m.ToHost(u, g)
			case "tocontainer":
				a, b, err = m.ToContainer(u, g)
			default:
				a, b = m.RootPair()
				if a < 0 || b < 0 {
					err = fmt.Errorf("unmapped root")
				}
			}
			if err != nil {
				impl = append(impl, "ERR")
				res.count(fn + ":err")
			} else {
				impl = append(impl, fmt.Sprintf("OK %d %d", a, b))
				res.count(fn + ":ok")
			}
			if len(um)+len(gm) > 0 {
				res.nontrivial(lines[len(lines)-1])
			}
		}
	}
	edges := func(rs []IDRange) []int {
		ids := []int{0, 1, 2}
		for _, r := range rs {
			for _, b := range []int{r.C, r.C + r.N, r.H, r.H + r.N} {
				ids = append(ids, b-1, b, b+1)
			}
		}
		var out []int
		for _, i := range ids {
			if i >= 0 {
				out = append(out, i)
			}
		}
		return out
	}
	if cfg.Replay != "" {
		c, err := replayCaseString(cfg.Replay)
		if err != nil {
			res.SetupError = err.Error()
			return res
		}
		f := strings.Fields(c)
		if len(f) == 6 {
			var u, g int
			fmt.Sscan(f[4], &u)
			fmt.Sscan(f[5], &g)
			um, gm := parseRangesStr(f[2]), parseRangesStr(f[3])
			addCase(um, gm, u, g)
		}
	} else {
		for _, um := range mapPool {
			for _, gm := range mapPool {
				es := append(edges(um), edges(gm)...)
				for _, u := range es {
					g := es[rng.intn(len(es))]
					addCase(um, gm, u, g)
					addCase(um, gm, g, u)
				}
			}
		}
		for i := 0; i < cfg.count(2000, 50000); i++ {
			addCase(mapPool[rng.intn(len(mapPool))], mapPool[rng.intn(len(mapPool))], rng.intn(210000), rng.intn(210000))
		}
	}
	res.Evaluations = len(lines)
	model, err := runDriver(cfg.Driver, lines)
	if err != nil {
		res.SetupError = err.Error()
		return res
	}
	for i := range lines {
		res.Compared++
		if model[i] != impl[i] {
			res.problem(Problem{Kind: "correspondence", Stream: "idmap", Case: lines[i], Impl: impl[i], Model: model[i], Msg: "identity mapping model differs"})
		}
	}
	res.sample(lines[3] + " => " + impl[3])
	res.sample(lines[len(lines)/2] + " => " + impl[len(lines)/2])
	return res
}
