package main

import (
	"encoding/json"
	"fmt"
	"strconv"
	"strings"
	"time"
)

// Stream "roundtrip": independent oracles on the real code for
//
//	C03 (family tar)     tar then untar reproduces the tree
//	C04 (family diff)    applying exported diffs in order reproduces each snapshot
//	C11 (family overlay) overlay whiteouts convert to the standard form and back
//	C12 (family owner)   ownership mapping and override
//
// Every case runs as one arena job of kind "roundtrip" (job_roundtrip*.go); the job generates its
// tree/history/archive from (family, seed), runs the real library and evaluates the clauses.
// A reported case is the string "<family> <seed>" and is replayable as such.
func init() {
	subcmds["roundtrip"] = func(cfg *Config) *Result { return runRoundtrip(cfg, []string{"tar", "diff", "overlay", "owner"}) }
	subcmds["roundtrip-tar"] = func(cfg *Config) *Result { return runRoundtrip(cfg, []string{"tar"}) }
	subcmds["roundtrip-diff"] = func(cfg *Config) *Result { return runRoundtrip(cfg, []string{"diff"}) }
	subcmds["roundtrip-overlay"] = func(cfg *Config) *Result { return runRoundtrip(cfg, []string{"overlay"}) }
	subcmds["roundtrip-owner"] = func(cfg *Config) *Result { return runRoundtrip(cfg, []string{"owner"}) }
}

// case budgets per family (quick, thorough)
var rtBudget = map[string][2]int{
	"tar":     {800, 5000},
	"diff":    {1200, 8000},
	"overlay": {1000, 8000},
	"owner":   {3000, 20000},
}

type rtCase struct {
	Family string
	Seed   uint64
}

func (c rtCase) String() string { return c.Family + " " + strconv.FormatUint(c.Seed, 10) }

func runRoundtrip(cfg *Config, fams []string) *Result {
	res := newResult("per family, one case = one PRNG seed expanded inside the arena: tar = random tree (boundary sizes, path lengths 99..300, UTF-8, hard-link groups of every type with set-id bits/capabilities, devices, fifos, unclean in-tree symlink targets, extreme mtimes/ids) × {none,gzip} × {Untar, chrootarchive.Untar}; " +
		"diff = history of 2-6 snapshots by mutation sequences × {independent, hard-link-shared} storage × optional tmpfs submount × {plain, chrooted} layer apply; " +
		"overlay = tree with 0/0 whiteout devices (also several names of one inode), opaque directories, ordinary devices, names starting with . w h; " +
		"owner = (ID mapping, ids on/inside/outside range edges, NoLchown/ChownOpts/none, tar | untar | layer | tar→untar | CopyWithTar | CopyFileWithTar); " +
		"non-trivial: tar ≥3 nodes, diff ≥2 snapshots, overlay ≥1 whiteout or opaque dir, owner non-empty mapping; distinct by hash of the generated case text")
	var cases []rtCase
	if cfg.Replay != "" {
		s, err := replayCaseString(cfg.Replay)
		if err != nil {
			res.SetupError = "replay: " + err.Error()
			return res
		}
		f := strings.Fields(s)
		if len(f) != 2 {
			res.SetupError = "replay: case must be \"<family> <seed>\", got " + truncate(s, 80)
			return res
		}
		seed, err := strconv.ParseUint(f[1], 10, 64)
		if err != nil || rtBudget[f[0]] == [2]int{} {
			res.SetupError = "replay: bad case " + truncate(s, 80)
			return res
		}
		cases = append(cases, rtCase{f[0], seed})
	} else {
		// newRng(seed) starts at seed*K and steps by K, so neighbouring seeds walk the same sequence
		// shifted by one; forking first makes the states of different seeds unrelated. Every family
		// gets its generator in a fixed order, so a sub-stream sees the same cases as the full stream.
		base := newRng(cfg.Seed).fork()
		famRng := map[string]*Rng{}
		for _, fam := range []string{"tar", "diff", "overlay", "owner"} {
			famRng[fam] = base.fork()
		}
		for _, fam := range fams {
			rng := famRng[fam]
			n := cfg.count(rtBudget[fam][0], rtBudget[fam][1])
			for i := 0; i < n; i++ {
				cases = append(cases, rtCase{fam, rng.next()})
			}
		}
		// interleave the families so that every arena worker gets a similar mix
		mixed := make([]rtCase, 0, len(cases))
		shuf := base.fork()
		idx := make([]int, len(cases))
		for i := range idx {
			idx[i] = i
		}
		for i := len(idx) - 1; i > 0; i-- {
			j := shuf.intn(i + 1)
			idx[i], idx[j] = idx[j], idx[i]
		}
		for _, i := range idx {
			mixed = append(mixed, cases[i])
		}
		cases = mixed
	}
	jobs := make([]Job, len(cases))
	for i, c := range cases {
		jobs[i] = Job{ID: i, Kind: "roundtrip", Args: []string{c.Family, strconv.FormatUint(c.Seed, 10)}}
	}
	results := runArena(cfg, jobs, 60*time.Second)
	samples := map[string]int{}
	knownSeen := map[string]int{}
	for i, c := range cases {
		jr := results[i]
		res.Evaluations++
		res.count(c.Family + "/job:" + jr.Out)
		switch jr.Out {
		case "ok":
		case "panic", "hang":
			res.problem(Problem{Kind: "oracle", Stream: "roundtrip", Case: c.String(), Impl: jr.Out,
				Msg: fmt.Sprintf("%s: the library call did not return normally (%s): %s", rtProp(c.Family), jr.Out, truncate(jr.Err, 300))})
			continue
		default:
			res.SetupError = fmt.Sprintf("case %q: %s %s", c.String(), jr.Out, truncate(jr.Err, 400))
			return res
		}
		var out rtOut
		if err := json.Unmarshal([]byte(jr.Extra), &out); err != nil {
			res.SetupError = fmt.Sprintf("case %q: unreadable job output: %v", c.String(), err)
			return res
		}
		for k, v := range out.Counts {
			res.Distribution[k] += v
		}
		res.Compared++
		if out.Nontrivial {
			res.nontrivial(out.Canon)
		}
		if samples[c.Family] < 2 && out.Sample != "" {
			samples[c.Family]++
			res.sample(c.String() + ": " + out.Sample)
		}
		for _, p := range out.Problems {
			if p.Sig != "" {
				// a known finding is listed twice at most: the result keeps 50 problems and new ones must not be crowded out
				res.count(c.Family + "/known:" + p.Sig)
				knownSeen[p.Sig]++
				if knownSeen[p.Sig] > 2 {
					continue
				}
			}
			res.problem(Problem{Kind: "oracle", Stream: "roundtrip", Case: c.String(), Sig: p.Sig,
				Msg: fmt.Sprintf("%s clause %s: %s", rtProp(c.Family), p.Clause, p.Msg)})
			res.count(c.Family + "/problem:" + p.Clause)
		}
	}
	return res
}

func rtProp(fam string) string {
	switch fam {
	case "tar":
		return "C03"
	case "diff":
		return "C04"
	case "overlay":
		return "C11"
	case "owner":
		return "C12"
	}
	return fam
}
