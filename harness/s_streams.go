package main

// Stream "streams": independent oracle for C17 (every returned stream terminates and cleans up after
// itself) on the real library. Parent side: case generation, job packing, aggregation, replay.

import (
	"encoding/json"
	"fmt"
	"os"
	"strings"
	"time"
)

func init() { subcmds["streams"] = runStreams }

var stStopKs = []int{0, 1, 511, 512, 513, 1024, 65535, 65536, 65537, 200000, -1, -2}
var stBufs = []int{512, 4096, 32768, 32768, 65536, 1 << 20, 7}
var stMemSizes = []int{0, 1, 511, 512, 513, 4096, 32768, 65536, 65537, 200000, 1 << 20}

func stPickBuf(r *Rng, big bool) int {
	b := stBufs[r.intn(len(stBufs))]
	if b == 7 && big {
		b = 333
	}
	return b
}

// consumers for one producer: a full drain, m stop points, and (tree producers) mid-walk mutations.
func stGenConsumers(r *Rng, m int, pipe bool, mutable string) []stCons {
	out := []stCons{{Mode: "drain", Buf: stPickBuf(r, true)}}
	perm := append([]int(nil), stStopKs...)
	for i := len(perm) - 1; i > 0; i-- {
		j := r.intn(i + 1)
		perm[i], perm[j] = perm[j], perm[i]
	}
	for i := 0; i < m && i < len(perm); i++ {
		c := stCons{Mode: "stop", K: perm[i], Buf: stPickBuf(r, true)}
		if pipe && r.chance(1, 3) {
			c.CloseErr = true
		}
		out = append(out, c)
	}
	if mutable != "" {
		muts := []string{"truncate", "shrink", "grow", "remove", "rmdir"}
		n := 1 + r.intn(2)
		for i := 0; i < n; i++ {
			c := stCons{Mode: "mutdrain", K: -3, Buf: stPickBuf(r, true), Mut: muts[r.intn(len(muts))]}
			if mutable == "blind" { // compressed: offsets unknown, mutate early
				c.K = []int{0, 1, 1024, 40000}[r.intn(4)]
			} else if r.chance(1, 4) {
				c.K = []int{0, 512, 1024, 65536}[r.intn(4)]
			}
			if r.chance(1, 4) {
				c.Mode, c.More = "mutstop", []int{0, 1, 100000, 1 << 20}[r.intn(4)]
				c.CloseErr = pipe && r.chance(1, 3)
			}
			out = append(out, c)
		}
	}
	return out
}

func stGenTree(r *Rng, thorough bool) stTree {
	t := stTree{Seed: uint64(1 + r.intn(1<<30)), Small: 100 + r.intn(300), Fifo: r.chance(4, 5), Sock: r.chance(1, 3), Owners: r.chance(1, 4)}
	nb := 1 + r.intn(2)
	for i := 0; i < nb; i++ {
		sz := (1 << 20) + r.intn(1<<20)
		if thorough && r.chance(1, 4) {
			sz = (3 << 20) + r.intn(1<<20)
		}
		if r.chance(1, 5) {
			sz = 1 << 20 // exact multiple of the copy buffer and of the block size
		}
		t.Big = append(t.Big, sz)
	}
	return t
}

var stNoTree = stTree{Seed: 1}

func stGenTreeProd(r *Rng) stProd {
	p := stProd{Src: "/w/src"}
	switch k := r.intn(20); {
	case k < 6:
		p.Kind = "tar"
		p.Comp = r.pick([]string{"", "", "", "gzip"})
		switch r.intn(8) {
		case 0:
			p.Inc = []string{"d01", "zz_big.bin", "d03/sub", "zz_dir", "a_fifo"}
		case 1:
			p.Inc = []string{"zz_big.bin", "nope", "d02", "zz_big.bin", "zz_dir/v1", "d02"}
		case 2:
			p.Exc = []string{"d0*", "**/f00?"}
		case 3:
			p.Exc = []string{"d03", "!d03/sub"}
			p.Inc = []string{".", "zz_big.bin"}
		case 4:
			p.SrcDir = true
			p.Inc = []string{"."}
			p.Rebase = map[string]string{".": "moved"}
		case 5:
			p.Exc = []string{"*.bin"}
		}
		p.IDMap = r.chance(1, 5)
	case k < 8:
		p.Kind = "tar"
		p.Comp = "gzip"
	case k < 9:
		p.Kind = "tar"
		p.Comp = r.pick([]string{"xz", "bzip2"})
		if r.chance(1, 3) {
			p.Comp, p.Exc = "", []string{"["}
		}
	case k < 11:
		p.Kind = "tarplain"
		p.Comp = r.pick([]string{"", "gzip", ""})
		p.Src = r.pick([]string{"/w/src", "/w/src/", "/w/src/zz_big.bin", "/w/src/d03", "/w/src/a_fifo", "/w/src/missing"})
	case k < 13:
		p.Kind = "export"
		p.IDMap = r.chance(1, 4)
	case k < 15:
		p.Kind = "resource"
		p.Src = r.pick([]string{"/w/src", "/w/src/.", "/w/src/", "/w/src/zz_big.bin", "/w/src/d03", "/w/src/nope", "/w/src/zz_dir/."})
		p.New = r.pick([]string{"", "renamed", "/"})
	case k < 17:
		p.Kind = "chroottar"
		p.Root = r.pick([]string{"/w/src", "/w", "/w/src"})
		p.Src = r.pick([]string{"/w/src", "/w/src/", "/w/src/d03"})
		p.Comp = r.pick([]string{"", "", "gzip"})
		if r.chance(1, 3) {
			p.Exc = []string{"d00"}
		}
	case k < 18:
		p.Kind, p.Input = "rebase", "live"
		p.Old, p.New = r.pick([]string{"zz_", "d0", "/"}), r.pick([]string{"yy_", "renamed/", strings.Repeat("n", 130)})
	default:
		p.Kind, p.Input = "replace", "live"
		p.Mods = []string{"zz_big.bin=" + r.pick([]string{"replace", "readreplace", "remove", "error"}), "zz_dir/v0=" + r.pick([]string{"replace", "remove", "readreplace"}),
			"newfile=" + r.pick([]string{"replace", "remove", "error", "replace"})}
	}
	return p
}

func stMutability(p *stProd) string {
	switch p.Kind {
	case "tar", "tarplain", "export", "resource", "chroottar", "rebase", "replace":
		if p.Comp == "xz" || p.Comp == "bzip2" {
			return ""
		}
		if p.Comp == "gzip" {
			return "blind"
		}
		return "offset"
	}
	return ""
}

func stGenMemProd(r *Rng) stProd {
	m := &stMem{Seed: uint64(r.intn(1000))}
	n := 2 + r.intn(4)
	for i := 0; i < n; i++ {
		m.Sizes = append(m.Sizes, stMemSizes[r.intn(len(stMemSizes))])
	}
	data, ents := stBuildMemTar(*m)
	p := stProd{Input: "mem", Mem: m}
	if r.chance(1, 2) {
		p.Kind = "rebase"
		p.Old, p.New = r.pick([]string{"base", "base/", "/", "nomatch"}), r.pick([]string{"renamed", "x/y", strings.Repeat("n", 130), ""})
	} else {
		p.Kind = "replace"
		var regs []string
		for _, e := range ents {
			if strings.HasPrefix(e.Name, "base/m") {
				regs = append(regs, e.Name)
			}
		}
		acts := []string{"replace", "readreplace", "remove", "error", "replace", "remove"}
		for i := 0; i < 1+r.intn(3); i++ {
			p.Mods = append(p.Mods, regs[r.intn(len(regs))]+"="+acts[r.intn(len(acts))])
		}
		if r.chance(1, 2) {
			p.Mods = append(p.Mods, "base/hard="+acts[r.intn(len(acts))])
		}
		if r.chance(2, 3) {
			p.Mods = append(p.Mods, "base/added="+r.pick([]string{"replace", "readreplace", "remove", "error"}))
		}
		// one action per name
		seen := map[string]bool{}
		var ms []string
		for _, s := range p.Mods {
			name := s[:strings.LastIndex(s, "=")]
			if !seen[name] {
				seen[name] = true
				ms = append(ms, s)
			}
		}
		p.Mods = ms
	}
	if r.chance(3, 5) {
		e := ents[r.intn(len(ents))]
		last := ents[len(ents)-1]
		var pos int
		region := ""
		switch r.intn(8) {
		case 0:
			pos, region = e.HdrStart+r.intn(e.Body-e.HdrStart), "header"
		case 1:
			if e.Size > 0 {
				pos, region = e.Body+r.intn(e.Size), "body"
			} else {
				pos, region = e.HdrStart+511, "header"
			}
		case 2:
			if pad := e.End - e.Body - e.Size; pad > 0 {
				pos, region = e.Body+e.Size+r.intn(pad), "padding"
			} else {
				pos, region = e.Body, "boundary"
			}
		case 3:
			pos, region = last.End+r.intn(1024), "trailer"
		case 4:
			pos, region = e.HdrStart, "boundary"
		case 5:
			pos, region = e.End, "boundary"
		case 6:
			pos, region = []int{0, 1, 511, 512, last.End, last.End + 512, last.End + 1023}[r.intn(7)], "edge"
		default:
			pos, region = r.intn(len(data)), "anywhere"
		}
		_ = region
		p.Fault = stFault{Kind: r.pick([]string{"fail", "fail", "trunc"}), Pos: pos}
	}
	p.Fault.Chunk = []int{0, 0, 1 << 16, 4096, 512, 100}[r.intn(6)]
	return p
}

func stGenDecompProd(r *Rng) stProd {
	p := stProd{Kind: "decomp"}
	p.Comp = r.pick([]string{"gzip", "gzip", "xz", "bzip2", "zstd", "none"})
	if p.Comp == "gzip" {
		p.NoPigz = r.chance(1, 2)
	}
	p.Payload = []int{0, 1, 65536, 300000, 300000, 1 << 20}[r.intn(6)]
	p.PSeed = uint64(1 + r.intn(2))
	if r.chance(2, 5) {
		p.Fault = stFault{Kind: r.pick([]string{"fail", "fail", "trunc"})}
		if r.chance(1, 2) {
			p.Fault.FromEnd = true
			p.Fault.Pos = []int{1, 2, 4, 8, 9, 100, 5000}[r.intn(7)]
		} else {
			p.Fault.Pos = []int{0, 1, 2, 3, 5, 9, 10, 11, 100, 4096, 32768, 32769, 65536}[r.intn(13)]
		}
	}
	p.Fault.Chunk = []int{0, 0, 1 << 16, 4096, 1000}[r.intn(5)]
	return p
}

var stCopyCombos = func() []stCopy {
	var out []stCopy
	srcs := map[string][]string{
		"CopyFileWithTar": {"file:0", "file:1", "file:32768", "file:65537", "file:2097152", "missing", "sock", "nodev", "ownedfile"},
		"CopyWithTar":     {"file:511", "file:2097152", "dir", "missing", "sock", "nodev", "ownedfile", "owneddir"},
		"TarUntar":        {"dir", "owneddir", "missing"},
		"UntarPath":       {"tar", "tgz", "ownedtar", "missing", "sock", "nodev"},
	}
	for _, m := range []string{"CopyFileWithTar", "CopyWithTar", "TarUntar", "UntarPath"} {
		for _, s := range srcs[m] {
			for _, d := range []string{"new", "slash", "deep", "parentfile", "full", "fullino"} {
				if d == "full" && strings.HasPrefix(s, "file:") && s != "file:2097152" {
					continue
				}
				if d == "full" && s == "ownedfile" {
					continue // 70000 bytes: may or may not fit
				}
				for _, a := range []string{"default", "chroot"} {
					for _, idm := range []bool{false, true} {
						out = append(out, stCopy{Method: m, Arch: a, IDMap: idm, Src: s, Dst: d})
					}
				}
			}
		}
	}
	return out
}()

// The copy scenarios every run must contain (method, source, destination, needs an ID mapping); arch and the
// mapping of the others are drawn at random, and random combinations are mixed in.
var stCopyKeys = []stCopy{
	{Method: "CopyFileWithTar", Src: "file:2097152", Dst: "full"}, {Method: "CopyFileWithTar", Src: "file:65537", Dst: "fullino"},
	{Method: "CopyFileWithTar", Src: "file:1", Dst: "fullino"}, {Method: "CopyFileWithTar", Src: "sock", Dst: "new"},
	{Method: "CopyFileWithTar", Src: "nodev", Dst: "deep"}, {Method: "CopyFileWithTar", Src: "ownedfile", Dst: "new", IDMap: true},
	{Method: "CopyFileWithTar", Src: "missing", Dst: "new"}, {Method: "CopyFileWithTar", Src: "file:511", Dst: "parentfile"},
	{Method: "CopyFileWithTar", Src: "file:0", Dst: "new"}, {Method: "CopyFileWithTar", Src: "file:32768", Dst: "slash"},
	{Method: "CopyFileWithTar", Src: "file:2097152", Dst: "deep"}, {Method: "CopyFileWithTar", Src: "ownedfile", Dst: "slash"},
	{Method: "CopyWithTar", Src: "file:2097152", Dst: "full"}, {Method: "CopyWithTar", Src: "dir", Dst: "full"},
	{Method: "CopyWithTar", Src: "dir", Dst: "fullino"}, {Method: "CopyWithTar", Src: "dir", Dst: "new"},
	{Method: "CopyWithTar", Src: "owneddir", Dst: "new", IDMap: true}, {Method: "CopyWithTar", Src: "dir", Dst: "parentfile"},
	{Method: "CopyWithTar", Src: "missing", Dst: "new"}, {Method: "CopyWithTar", Src: "sock", Dst: "deep"},
	{Method: "CopyWithTar", Src: "ownedfile", Dst: "new", IDMap: true}, {Method: "CopyWithTar", Src: "file:65537", Dst: "slash"},
	{Method: "TarUntar", Src: "dir", Dst: "new"}, {Method: "TarUntar", Src: "dir", Dst: "full"},
	{Method: "TarUntar", Src: "dir", Dst: "parentfile"}, {Method: "TarUntar", Src: "owneddir", Dst: "new", IDMap: true},
	{Method: "TarUntar", Src: "missing", Dst: "new"}, {Method: "TarUntar", Src: "dir", Dst: "fullino"}, {Method: "TarUntar", Src: "owneddir", Dst: "deep"},
	{Method: "UntarPath", Src: "tar", Dst: "new"}, {Method: "UntarPath", Src: "tgz", Dst: "deep"},
	{Method: "UntarPath", Src: "tar", Dst: "full"}, {Method: "UntarPath", Src: "tgz", Dst: "fullino"}, {Method: "UntarPath", Src: "tgz", Dst: "full"},
	{Method: "UntarPath", Src: "ownedtar", Dst: "new", IDMap: true}, {Method: "UntarPath", Src: "missing", Dst: "new"},
	{Method: "UntarPath", Src: "sock", Dst: "new"}, {Method: "UntarPath", Src: "tar", Dst: "parentfile"}, {Method: "UntarPath", Src: "ownedtar", Dst: "new"},
}

// stGenCopyGroups returns groups of n copy cases; the key scenarios are dealt in a shuffled cycle.
func stGenCopyGroups(r *Rng, groups, n int) [][]stCase {
	order := make([]int, len(stCopyKeys))
	for i := range order {
		order[i] = i
	}
	for i := len(order) - 1; i > 0; i-- {
		j := r.intn(i + 1)
		order[i], order[j] = order[j], order[i]
	}
	next := 0
	var out [][]stCase
	for g := 0; g < groups; g++ {
		t := stTree{Seed: uint64(1 + r.intn(1000)), Small: 40 + r.intn(40), Big: []int{(1 << 20) + r.intn(1<<19)}, Fifo: r.chance(1, 2)}
		var cs []stCase
		for i := 0; i < n; i++ {
			var cp stCopy
			if r.chance(3, 4) {
				cp = stCopyKeys[order[next%len(order)]]
				next++
				cp.Arch = r.pick([]string{"default", "chroot"})
				if !cp.IDMap && !strings.HasPrefix(cp.Src, "owned") {
					cp.IDMap = r.chance(1, 3)
				}
			} else {
				cp = stCopyCombos[r.intn(len(stCopyCombos))]
			}
			c := cp
			cs = append(cs, stCase{Tree: t, Copy: &c})
		}
		out = append(out, cs)
	}
	return out
}

// stGenGroup returns the cases of one group (they share a tree).
func stGenGroup(r *Rng, thorough bool) []stCase {
	m := 3
	if thorough {
		m = 6
	}
	var out []stCase
	switch k := r.intn(20); {
	case k < 9: // producers over a source tree
		t := stGenTree(r, thorough)
		var plain, mut []stCase
		for i := 0; i < 3; i++ {
			p := stGenTreeProd(r)
			pp := p
			for _, c := range stGenConsumers(r, m, true, stMutability(&p)) {
				cc := c
				sc := stCase{Tree: t, Prod: &pp, Cons: &cc}
				if c.Mut != "" {
					mut = append(mut, sc)
				} else {
					plain = append(plain, sc)
				}
			}
		}
		out = append(plain, mut...) // mutations last: each one forces a rebuild of the tree
	case k < 14: // rewriters over in-memory archives with injected input faults
		for i := 0; i < 4; i++ {
			p := stGenMemProd(r)
			pp := p
			mm := m - 2
			if p.Fault.Kind != "" {
				mm = 1
			}
			for _, c := range stGenConsumers(r, mm, true, "") {
				cc := c
				out = append(out, stCase{Tree: stNoTree, Prod: &pp, Cons: &cc})
			}
		}
	case k < 19: // decompressors
		for i := 0; i < 4; i++ {
			p := stGenDecompProd(r)
			pp := p
			mm := m - 1
			if p.Fault.Kind != "" {
				mm = 1
			}
			for _, c := range stGenConsumers(r, mm, false, "") {
				cc := c
				out = append(out, stCase{Tree: stNoTree, Prod: &pp, Cons: &cc})
			}
		}
	default:
		p := stProd{Kind: "generate", Pairs: [][]string{{"a", "content", "b"}, {}, {"only"}, {"x", strings.Repeat("y", 70000), "z", ""}}[r.intn(4)]}
		out = append(out, stCase{Tree: stNoTree, Prod: &p, Cons: &stCons{Mode: "drain", Buf: 512}})
		out = append(out, stCase{Tree: stNoTree, Prod: &p, Cons: &stCons{Mode: "stop", K: 100, Buf: 512}})
	}
	return out
}

func stKClass(k int) string {
	switch k {
	case -1:
		return "end-1"
	case -2:
		return "end"
	case -3:
		return "victim-header"
	}
	return fmt.Sprint(k)
}

func stFaultClass(f stFault) string {
	if f.Kind == "" {
		return "none"
	}
	return f.Kind
}

// stRunJobs runs the packed cases in the arena. It returns the per-case outcomes by case index, problems of
// whole jobs (child died / silent), and a setup error text.
func stRunJobs(cfg *Config, jobCases [][]stCase) (map[int]*stOut, []Problem, string) {
	var jobs []Job
	for j, cs := range jobCases {
		b, _ := json.Marshal(cs)
		jobs = append(jobs, Job{ID: j, Kind: "streams", Args: []string{string(b)}})
	}
	outs := map[int]*stOut{}
	var probs []Problem
	if len(jobs) == 0 {
		return outs, nil, ""
	}
	// interleave jobs over the workers: runArena hands out contiguous chunks
	results := runArena(cfg, stInterleave(jobs), 180*time.Second)
	byID := map[int]JobResult{}
	for _, jr := range results {
		byID[jr.ID] = jr
	}
	for j, cs := range jobCases {
		jr, ok := byID[j]
		if !ok || jr.ID < 0 || jr.Out == "setup" {
			return outs, probs, fmt.Sprintf("job %d: %s", j, jr.Err)
		}
		if jr.Out == "panic" || jr.Out == "hang" {
			probs = append(probs, Problem{Kind: "oracle", Stream: "streams", Case: cs[0].text(), Impl: jr.Out,
				Msg: fmt.Sprintf("C17: arena child %s while running a job of %d cases starting with this one: %s", jr.Out, len(cs), truncate(jr.Err, 300))})
			continue
		}
		var list []stOut
		if err := json.Unmarshal([]byte(jr.Extra), &list); err != nil {
			return outs, probs, fmt.Sprintf("job %d: bad result: %v", j, err)
		}
		for i := range list {
			outs[list[i].I] = &list[i]
		}
	}
	return outs, probs, ""
}

func runStreams(cfg *Config) *Result {
	res := newResult("random groups of (source tree with hundreds of small files, 1-4 MiB files, hard links, symlinks, fifos, sockets | in-memory archive with an injected read fault | compressed payload with an injected read fault) x producer (tar variants, export, rewriters, resource, chrooted tar, six decompressors, generate, four convenience copies x two archivers) x consumer (drain | stop after k bytes and Close/CloseWithError | mutate the not-yet-archived file mid-stream then drain/stop); after every case the census (library goroutines, fds, children) must settle; non-trivial = a stream was handed out or a copy was attempted; distinct by case text")
	// newRng(seed) walks one additive sequence: seed k+1 is seed k shifted by one draw, so per-group forks of
	// neighbouring seeds would be the same groups shifted by one. Fork once first: the working state is then a
	// mixed output, unrelated between seeds.
	rng := newRng(cfg.Seed).fork()
	var jobCases [][]stCase
	if cfg.Replay != "" {
		b, err := os.ReadFile(cfg.Replay)
		var rp struct {
			Case string `json:"case"`
		}
		var c stCase
		if err == nil {
			err = json.Unmarshal(b, &rp)
		}
		if err == nil && strings.HasPrefix(rp.Case, "endless ") {
			stEndlessProbe(res)
			return res
		}
		if err == nil && strings.HasPrefix(rp.Case, "stall ") {
			stStallProbe(res)
			return res
		}
		if err == nil && strings.HasPrefix(rp.Case, "refused ") {
			stRefusedDestProbe(res)
			return res
		}
		if err == nil {
			err = json.Unmarshal([]byte(rp.Case), &c)
		}
		if err != nil {
			res.SetupError = "replay: " + err.Error()
			return res
		}
		jobCases = append(jobCases, []stCase{c})
	} else {
		groups := cfg.count(90, 1200)
		copyGroups, perGroup := groups/7, 7
		if cfg.thorough() {
			perGroup = 10
		}
		jobCases = append(jobCases, stGenCopyGroups(rng.fork(), copyGroups, perGroup)...)
		for g := 0; g < groups-copyGroups; g++ {
			gc := stGenGroup(rng.fork(), cfg.thorough())
			// split long groups so that one job stays short
			for len(gc) > 0 {
				n := len(gc)
				if n > 24 {
					n = 24
				}
				jobCases = append(jobCases, gc[:n])
				gc = gc[n:]
			}
		}
	}
	idx := 0
	for _, cs := range jobCases {
		for i := range cs {
			cs[i].I = idx
			idx++
		}
	}
	outs, jobProbs, setupErr := stRunJobs(cfg, jobCases)
	if setupErr != "" {
		res.SetupError = setupErr
		return res
	}
	for _, p := range jobProbs {
		res.problem(p)
	}
	knownSeen := map[string]bool{}
	sampled := map[string]bool{}
	type pending struct {
		c stCase
		p stProb
	}
	var timing []pending
	for _, cs := range jobCases {
		for i := range cs {
			c := &cs[i]
			o := outs[c.I]
			if o == nil {
				res.count("case:not-run")
				continue
			}
			if o.Setup != "" {
				res.SetupError = fmt.Sprintf("case %s: %s", c.text(), o.Setup)
				return res
			}
			if o.Skip != "" {
				res.count("case:skipped-" + o.Skip)
				continue
			}
			res.Evaluations++
			res.Compared++
			text := c.text()
			res.nontrivial(text)
			stCountCase(res, c, o)
			sk := "copy"
			if c.Prod != nil {
				sk = c.Prod.Kind + c.Cons.Mode
			}
			if !sampled[sk] && (c.Copy != nil || c.Cons.Mode != "drain") {
				sampled[sk] = true
				res.sample(truncate(text, 300) + fmt.Sprintf(" => %v bytes=%d", o.C, o.Bytes))
			}
			for _, p := range o.P {
				if p.Sig != "" {
					if knownSeen[p.Sig] {
						res.count("known:" + p.Sig)
						continue
					}
					knownSeen[p.Sig] = true
				}
				if p.Timing && cfg.Replay == "" {
					timing = append(timing, pending{*c, p})
					continue
				}
				res.problem(Problem{Kind: "oracle", Stream: "streams", Case: text, Msg: "C17: " + p.Msg, Sig: p.Sig})
			}
		}
	}
	// Verdicts that rest on a deadline or on the settle ceiling are re-run in isolation (one case per child,
	// at most 16 of them, so the machine is nearly idle) and count only when they show again.
	if len(timing) > 0 {
		n := len(timing)
		if n > 16 {
			res.Notes = append(res.Notes, fmt.Sprintf("%d timing verdicts; only the first 16 were re-run and can be listed", n))
			n = 16
		}
		var again [][]stCase
		for i := 0; i < n; i++ {
			c := timing[i].c
			c.I = i
			again = append(again, []stCase{c})
		}
		outs2, jobProbs2, setupErr2 := stRunJobs(cfg, again)
		if setupErr2 != "" {
			res.SetupError = setupErr2
			return res
		}
		for _, p := range jobProbs2 {
			res.problem(p)
		}
		for i := 0; i < n; i++ {
			o := outs2[i]
			confirmed := false
			if o != nil {
				for _, p := range o.P {
					if p.Sig == "" {
						confirmed = true
						res.problem(Problem{Kind: "oracle", Stream: "streams", Case: timing[i].c.text(), Msg: "C17: " + p.Msg + " [seen twice: in the batch and again alone]"})
						break
					}
				}
			}
			if confirmed {
				res.count("timing-verdict:confirmed")
			} else {
				res.count("timing-verdict:not-reproduced")
				res.Notes = append(res.Notes, "timing verdict not reproduced in isolation (not counted): "+truncate(timing[i].p.Msg, 300)+" case "+truncate(timing[i].c.text(), 400))
			}
		}
	}
	if cfg.Replay == "" {
		stEndlessProbe(res)
		stStallProbe(res)
		stRefusedDestProbe(res)
	}
	return res
}

// stCountCase records the distribution of one executed case, clause by clause.
func stCountCase(res *Result, c *stCase, o *stOut) {
	ended := func(k string) bool {
		for _, x := range o.C {
			if x == k {
				return true
			}
		}
		return false
	}
	if c.Copy != nil {
		res.count("copy:" + c.Copy.Method + "/" + c.Copy.Arch)
		res.count("copy-src:" + strings.SplitN(c.Copy.Src, ":", 2)[0])
		res.count("copy-dst:" + c.Copy.Dst)
		if stCopyExpect(c.Copy) == "err" {
			res.count("clause:copy-failure-must-be-reported")
		} else {
			res.count("clause:copy-success-must-produce-files")
		}
	} else {
		pk := c.Prod.Kind
		if c.Prod.Comp != "" {
			pk += "/" + c.Prod.Comp
		}
		if c.Prod.Kind == "decomp" && c.Prod.Comp == "gzip" {
			if c.Prod.NoPigz {
				pk += "-go"
			} else {
				pk += "-unpigz"
			}
		}
		if c.Prod.Input != "" {
			pk += "/" + c.Prod.Input
		}
		res.count("prod:" + pk)
		res.count("cons:" + c.Cons.Mode)
		if c.Cons.Mode != "drain" {
			res.count("k:" + stKClass(c.Cons.K))
		}
		if c.Cons.CloseErr {
			res.count("cons:CloseWithError")
		}
		if c.Cons.Mut != "" {
			res.count("mut:" + c.Cons.Mut)
		}
		if c.Prod.Input == "mem" || c.Prod.Kind == "decomp" {
			res.count("fault:" + c.Prod.Kind + "/" + stFaultClass(c.Prod.Fault))
		}
		switch {
		case o.Bytes == 0:
			res.count("bytes:0")
		case o.Bytes < 65536:
			res.count("bytes:<64K")
		case o.Bytes < 1<<20:
			res.count("bytes:<1M")
		default:
			res.count("bytes:>=1M")
		}
		switch {
		case ended("end:construct-err"):
			res.count("clause:no-stream-handed-out(census-only)")
		case c.Cons.Mode == "drain" && ended("end:eof"):
			res.count("clause:a-drain-reaches-EOF")
		case c.Cons.Mode == "drain" && ended("end:err"):
			res.count("clause:a-drain-of-failing-input-ends-in-error")
		case c.Cons.Mode == "mutdrain":
			res.count("clause:a-drain-terminates-after-mid-walk-mutation")
		case ended("end:closed-early") && c.Cons.CloseErr:
			res.count("clause:b-stop-and-CloseWithError")
		case ended("end:closed-early"):
			res.count("clause:b-stop-and-Close")
		default:
			res.count("clause:b-stop-point-beyond-the-end")
		}
	}
	res.count("clause:census-after-case")
	for _, k := range o.C {
		res.count(k)
	}
}

// stInterleave reorders jobs so that the contiguous chunks runArena gives to its workers are a
// round-robin deal of the original order (long and short groups spread evenly). IDs stay unchanged.
func stInterleave(jobs []Job) []Job {
	w := 16
	if len(jobs) < w {
		return jobs
	}
	chunk := (len(jobs) + w - 1) / w
	out := make([]Job, 0, len(jobs))
	for k := 0; k < w; k++ {
		for i := k; i < len(jobs); i += w {
			out = append(out, jobs[i])
		}
	}
	_ = chunk
	return out
}
