package main

import (
	"archive/tar"
	"bufio"
	"bytes"
	"compress/gzip"
	"encoding/json"
	"fmt"
	"io"
	"os"
	"os/exec"
	"path/filepath"
	"runtime"
	"runtime/debug"
	"sort"
	"strings"
	"sync"
	"syscall"
	"time"

	"golang.org/x/sys/unix"

	archive "github.com/moby/go-archive"
	"github.com/moby/go-archive/chrootarchive"
	"github.com/moby/sys/user"
)

// Job is one unit of work executed inside the arena.
type Job struct {
	ID      int      `json:"id"`
	Kind    string   `json:"kind"` // "fs"
	Op      string   `json:"op"`
	Opts    string   `json:"opts"`
	Dest    string   `json:"dest"`
	Root    string   `json:"root"`
	Umask   int      `json:"umask"`
	Nodes   []Node   `json:"nodes"`
	Archive []byte   `json:"archive"`
	Gzip    bool     `json:"gzip"`
	Args    []string `json:"args,omitempty"`
}

// JobResult is what the arena child reports per job.
type JobResult struct {
	ID        int    `json:"id"`
	Out       string `json:"out"` // ok | err | panic | hang | setup
	Err       string `json:"err"` // error text (diagnostics only, never compared)
	Size      int64  `json:"size"`
	Before    string `json:"before"`
	After     string `json:"after"`
	Extra     string `json:"extra,omitempty"`
	Note      string `json:"note,omitempty"` // a finding of the job's own in-process probe (empty = none)
	Archive64 []byte `json:"archive,omitempty"`
	Millis    int64  `json:"ms"`
}

func fatal(msg string, err error) {
	fmt.Fprintf(os.Stderr, "arena child: %s: %v\n", msg, err)
	os.Exit(3)
}

// setupArena: fresh tmpfs, minimal world, pivot_root into it. Everything the library can reach
// afterwards is this tmpfs (plus read-only binds of the system directories for helper binaries).
func setupArena(dir string, sizeMB int, inodes int) {
	if err := unix.Mount("", "/", "", unix.MS_REC|unix.MS_PRIVATE, ""); err != nil {
		fatal("make / private", err)
	}
	opts := fmt.Sprintf("size=%dm,mode=0755", sizeMB)
	if inodes > 0 {
		opts += fmt.Sprintf(",nr_inodes=%d", inodes)
	}
	if err := unix.Mount("tmpfs", dir, "tmpfs", 0, opts); err != nil {
		fatal("mount tmpfs", err)
	}
	for _, d := range []string{"w", "proc", "dev", "usr", "lib", "lib64", "bin", "sbin", "etc", "tmp", "old", "opt", "root"} {
		_ = os.Mkdir(filepath.Join(dir, d), 0o755)
	}
	_ = os.Chmod(filepath.Join(dir, "tmp"), 0o1777)
	for _, d := range []string{"usr", "lib", "lib64", "bin", "sbin", "opt", "root"} {
		src := "/" + d
		if fi, err := os.Stat(src); err != nil || !fi.IsDir() {
			continue
		}
		if err := unix.Mount(src, filepath.Join(dir, d), "", unix.MS_BIND|unix.MS_REC, ""); err != nil {
			continue
		}
		_ = unix.Mount("", filepath.Join(dir, d), "", unix.MS_BIND|unix.MS_REMOUNT|unix.MS_RDONLY|unix.MS_REC, "")
	}
	if err := unix.Mount("proc", filepath.Join(dir, "proc"), "proc", 0, ""); err != nil {
		fatal("mount proc", err)
	}
	_ = unix.Mknod(filepath.Join(dir, "dev", "null"), unix.S_IFCHR|0o666, int(unix.Mkdev(1, 3)))
	_ = os.Chmod(filepath.Join(dir, "dev", "null"), 0o666)
	_ = os.WriteFile(filepath.Join(dir, "etc", "passwd"), []byte("root:x:0:0:root:/root:/bin/sh\n"), 0o644)
	_ = os.WriteFile(filepath.Join(dir, "etc", "group"), []byte("root:x:0:\n"), 0o644)
	if err := unix.PivotRoot(dir, filepath.Join(dir, "old")); err != nil {
		fatal("pivot_root", err)
	}
	if err := unix.Chdir("/"); err != nil {
		fatal("chdir", err)
	}
	if err := unix.Unmount("/old", unix.MNT_DETACH); err != nil {
		fatal("umount old", err)
	}
	_ = os.Remove("/old")
}

// The jobs file lives outside the arena, so the child opens it (and the results file) before pivoting.
func childMain(args []string) {
	if len(args) < 3 {
		fatal("usage", fmt.Errorf("__child arena jobs results"))
	}
	jf, err := os.Open(args[1])
	if err != nil {
		fatal("open jobs", err)
	}
	rf, err := os.OpenFile(args[2], os.O_CREATE|os.O_WRONLY|os.O_APPEND, 0o644)
	if err != nil {
		fatal("open results", err)
	}
	setupArena(args[0], 256, 0)
	debug.SetTraceback("single")
	sc := bufio.NewScanner(jf)
	sc.Buffer(make([]byte, 1<<20), 1<<28)
	w := bufio.NewWriter(rf)
	for sc.Scan() {
		var j Job
		if err := json.Unmarshal(sc.Bytes(), &j); err != nil {
			fatal("job json", err)
		}
		// announce the job first so the parent knows which one hangs or crashes
		fmt.Fprintf(w, "START %d\n", j.ID)
		w.Flush()
		res := runJob(&j)
		b, _ := json.Marshal(res)
		w.Write(b)
		w.WriteByte('\n')
		w.Flush()
	}
	os.Exit(0)
}

func runJob(j *Job) (res JobResult) {
	res.ID = j.ID
	t0 := time.Now()
	defer func() {
		res.Millis = time.Since(t0).Milliseconds()
		if r := recover(); r != nil {
			res.Out = "panic"
			res.Err = fmt.Sprint(r)
		}
	}()
	switch j.Kind {
	case "fs":
		runFsJob(j, &res)
	default:
		if fn, ok := jobKinds[j.Kind]; ok {
			fn(j, &res)
		} else {
			res.Out = "setup"
			res.Err = "unknown job kind " + j.Kind
		}
	}
	return
}

var jobKinds = map[string]func(*Job, *JobResult){}

// ---- world building and scanning ----

func resetWorld() error {
	// the previous case may have left anything at all in place of the world root (a seeded defect can
	// trade it for a device node): whatever is there that is not a directory goes first
	if fi, lerr := os.Lstat("/w"); lerr != nil || !fi.IsDir() {
		_ = os.Remove("/w")
		if err := os.Mkdir("/w", 0o755); err != nil {
			return err
		}
	}
	ents, err := os.ReadDir("/w")
	if err != nil {
		return err
	}
	for _, e := range ents {
		if err := os.RemoveAll(filepath.Join("/w", e.Name())); err != nil {
			return err
		}
	}
	return nil
}

func buildWorld(nodes []Node) error {
	ns := append([]Node(nil), nodes...)
	sort.SliceStable(ns, func(i, j int) bool { return ns[i].Path < ns[j].Path })
	groups := map[int]string{}
	old := unix.Umask(0)
	defer unix.Umask(old)
	for _, n := range ns {
		if err := os.MkdirAll(filepath.Dir(n.Path), 0o755); err != nil {
			return err
		}
		if n.Group != 0 {
			if first, ok := groups[n.Group]; ok {
				if err := os.Link(first, n.Path); err != nil {
					return err
				}
				continue
			}
			groups[n.Group] = n.Path
		}
		var err error
		switch n.Kind {
		case 'd':
			err = os.Mkdir(n.Path, 0o755)
			if os.IsExist(err) {
				err = nil
			}
		case 'r':
			err = os.WriteFile(n.Path, []byte(n.Data), 0o644)
		case 's':
			err = os.Symlink(n.Target, n.Path)
		case 'c':
			err = unix.Mknod(n.Path, unix.S_IFCHR|0o644, int(unix.Mkdev(n.Maj, n.Min)))
		case 'b':
			err = unix.Mknod(n.Path, unix.S_IFBLK|0o644, int(unix.Mkdev(n.Maj, n.Min)))
		case 'f':
			err = unix.Mknod(n.Path, unix.S_IFIFO|0o644, 0)
		}
		if err != nil {
			return fmt.Errorf("build %s: %w", n.Path, err)
		}
	}
	// ownership, mode, capability, then times (deepest first so parents are not re-touched)
	for _, n := range ns {
		if n.Group != 0 && groups[n.Group] != n.Path {
			continue
		}
		if err := os.Lchown(n.Path, n.Uid, n.Gid); err != nil {
			return err
		}
		if n.Kind != 's' {
			if err := os.Chmod(n.Path, modeFromPerm(n.Perm)); err != nil {
				return err
			}
		}
		if n.Cap != "" {
			if err := unix.Lsetxattr(n.Path, "security.capability", []byte(n.Cap), 0); err != nil {
				return fmt.Errorf("setcap %s: %w", n.Path, err)
			}
		}
		if n.Opq {
			if err := unix.Lsetxattr(n.Path, "trusted.overlay.opaque", []byte("y"), 0); err != nil {
				return fmt.Errorf("set opaque %s: %w", n.Path, err)
			}
		}
	}
	for i := len(ns) - 1; i >= 0; i-- {
		n := ns[i]
		ts := []unix.Timespec{{Sec: n.Mtime}, {Sec: n.Mtime}}
		if err := unix.UtimesNanoAt(unix.AT_FDCWD, n.Path, ts, unix.AT_SYMLINK_NOFOLLOW); err != nil {
			return err
		}
	}
	ts := []unix.Timespec{{Sec: 0}, {Sec: 0}}
	return unix.UtimesNanoAt(unix.AT_FDCWD, "/w", ts, 0)
}

var arenaBaseline = map[string]bool{"w": true, "proc": true, "dev": true, "usr": true, "lib": true, "lib64": true, "bin": true,
	"sbin": true, "etc": true, "tmp": true, "opt": true, "root": true}

// strayRootEntries lists (and removes) anything that appeared in the arena's root directory or /tmp:
// objects a jailed operation can only have created by running outside its jail.
func strayRootEntries() string {
	var out []string
	for _, d := range []string{"/", "/tmp"} {
		ents, _ := os.ReadDir(d)
		for _, e := range ents {
			if d == "/" && arenaBaseline[e.Name()] {
				continue
			}
			p := filepath.Join(d, e.Name())
			out = append(out, p)
			_ = os.RemoveAll(p)
		}
	}
	sort.Strings(out)
	return strings.Join(out, ",")
}

func modeFromPerm(p uint32) os.FileMode {
	m := os.FileMode(p & 0o777)
	if p&0o4000 != 0 {
		m |= os.ModeSetuid
	}
	if p&0o2000 != 0 {
		m |= os.ModeSetgid
	}
	if p&0o1000 != 0 {
		m |= os.ModeSticky
	}
	return m
}

func scanWorld(top string) ([]Node, error) {
	var out []Node
	var walk func(p string) error
	walk = func(p string) error {
		var st unix.Stat_t
		if err := unix.Lstat(p, &st); err != nil {
			return err
		}
		n := Node{Path: p, Perm: st.Mode & 0o7777, Uid: int(st.Uid), Gid: int(st.Gid), Mtime: st.Mtim.Sec}
		switch st.Mode & unix.S_IFMT {
		case unix.S_IFDIR:
			n.Kind = 'd'
		case unix.S_IFREG:
			n.Kind = 'r'
			if st.Size <= 1<<20 {
				b, err := os.ReadFile(p)
				if err != nil {
					return err
				}
				n.Data = string(b)
			} else {
				n.Data = fmt.Sprintf("<%d bytes>", st.Size)
			}
		case unix.S_IFLNK:
			n.Kind = 's'
			t, err := os.Readlink(p)
			if err != nil {
				return err
			}
			n.Target = t
		case unix.S_IFCHR:
			n.Kind = 'c'
			n.Maj, n.Min = unix.Major(st.Rdev), unix.Minor(st.Rdev)
		case unix.S_IFBLK:
			n.Kind = 'b'
			n.Maj, n.Min = unix.Major(st.Rdev), unix.Minor(st.Rdev)
		case unix.S_IFIFO:
			n.Kind = 'f'
		default:
			n.Kind = '?'
		}
		buf := make([]byte, 256)
		if sz, err := unix.Lgetxattr(p, "security.capability", buf); err == nil {
			n.Cap = string(buf[:sz])
		}
		if sz, err := unix.Lgetxattr(p, "trusted.overlay.opaque", buf); err == nil && string(buf[:sz]) == "y" {
			n.Opq = true
		}
		n.Group = int(st.Ino) // raw inode for now; renumbered below
		if p != top {
			out = append(out, n)
		}
		if n.Kind == 'd' {
			ents, err := os.ReadDir(p)
			if err != nil {
				return err
			}
			for _, e := range ents {
				if err := walk(filepath.Join(p, e.Name())); err != nil {
					return err
				}
			}
		}
		return nil
	}
	if err := walk(top); err != nil {
		return nil, err
	}
	sort.Slice(out, func(i, j int) bool { return out[i].Path < out[j].Path })
	count := map[int]int{}
	for _, n := range out {
		if n.Kind != 'd' {
			count[n.Group]++
		}
	}
	next := 1
	assigned := map[int]int{}
	for i := range out {
		ino := out[i].Group
		if out[i].Kind == 'd' || count[ino] < 2 {
			out[i].Group = 0
			continue
		}
		if g, ok := assigned[ino]; ok {
			out[i].Group = g
		} else {
			assigned[ino] = next
			out[i].Group = next
			next++
		}
	}
	return out, nil
}

func tarOptions(o OptSpec) *archive.TarOptions {
	t := &archive.TarOptions{NoLchown: o.NoLchown, NoOverwriteDirNonDir: o.NoOverwrite, InUserNS: o.UserNS, BestEffortXattrs: o.BestEffort}
	if o.Chown != nil {
		t.ChownOpts = &archive.ChownOpts{UID: o.Chown[0], GID: o.Chown[1]}
	}
	if len(o.Excludes) > 0 {
		t.ExcludePatterns = append([]string{}, o.Excludes...)
	}
	for _, r := range o.UidMap {
		t.IDMap.UIDMaps = append(t.IDMap.UIDMaps, user.IDMap{ID: int64(r.C), ParentID: int64(r.H), Count: int64(r.N)})
	}
	for _, r := range o.GidMap {
		t.IDMap.GIDMaps = append(t.IDMap.GIDMaps, user.IDMap{ID: int64(r.C), ParentID: int64(r.H), Count: int64(r.N)})
	}
	if o.Overlay {
		t.WhiteoutFormat = archive.OverlayWhiteoutFormat
	}
	return t
}

func runFsJob(j *Job, res *JobResult) {
	if err := resetWorld(); err != nil {
		res.Out, res.Err = "setup", err.Error()
		return
	}
	if err := buildWorld(j.Nodes); err != nil {
		res.Out, res.Err = "setup", err.Error()
		return
	}
	before, err := scanWorld("/w")
	if err != nil {
		res.Out, res.Err = "setup", err.Error()
		return
	}
	res.Before = renderTree(before)
	unix.Umask(j.Umask)
	opts := tarOptions(parseOptSpec(j.Opts))
	stream := j.Archive
	if j.Gzip {
		var b bytes.Buffer
		zw := gzip.NewWriter(&b)
		zw.Write(stream)
		zw.Close()
		stream = b.Bytes()
	}
	// "twins": objects at the same absolute paths the jailed extractor will use, but on the host side of the jail
	// (the arena's own root).  Work that escapes the jailed thread (another goroutine, a helper) resolves its
	// in-jail paths against the host root and lands on them.
	var twinTops []string
	twinBefore := map[string]string{}
	for _, a := range j.Args {
		if a == "twins" && j.Root != "" {
			twinTops = plantTwins(j)
			for _, t := range twinTops {
				if ns, err := scanWorld(t); err == nil {
					twinBefore[t] = renderTree(ns)
				}
			}
		}
	}
	var size int64
	var opErr error
	rd := bytes.NewReader(stream)
	switch j.Op {
	case "untar":
		if j.Gzip {
			opErr = archive.Untar(rd, j.Dest, opts)
		} else {
			opErr = archive.UntarUncompressed(rd, j.Dest, opts)
		}
	case "layer":
		if j.Gzip {
			size, opErr = archive.ApplyLayer(j.Dest, rd)
		} else {
			size, opErr = archive.ApplyUncompressedLayer(j.Dest, rd, opts)
		}
	case "untar-chroot":
		if j.Root == j.Dest && !j.Gzip {
			opErr = chrootarchive.UntarUncompressed(rd, j.Dest, opts)
		} else {
			opErr = chrootarchive.UntarWithRoot(rd, j.Dest, opts, j.Root)
		}
	case "layer-chroot":
		if j.Gzip {
			size, opErr = chrootarchive.ApplyLayer(j.Dest, rd)
		} else {
			size, opErr = chrootarchive.ApplyUncompressedLayer(j.Dest, rd, opts)
		}
	default:
		res.Out, res.Err = "setup", "bad op "+j.Op
		return
	}
	unix.Umask(0o022)
	for _, a := range j.Args {
		if a == "settle" {
			time.Sleep(150 * time.Millisecond)
		}
	}
	var twinMsgs []string
	for _, t := range twinTops {
		ns, err := scanWorld(t)
		if err != nil || renderTree(ns) != twinBefore[t] {
			twinMsgs = append(twinMsgs, "host-side twin tree "+t+" changed"+twinDiff(twinBefore[t], ns))
		}
		_ = os.RemoveAll(t)
	}
	res.Extra = strayRootEntries()
	if len(twinMsgs) > 0 {
		if res.Extra != "" {
			res.Extra += ","
		}
		res.Extra += strings.Join(twinMsgs, ",")
	}
	after, err := scanWorld("/w")
	if err != nil {
		res.Out, res.Err = "setup", "scan after: "+err.Error()
		return
	}
	res.After = renderTree(after)
	res.Size = size
	if opErr != nil {
		res.Out, res.Err = "err", opErr.Error()
	} else {
		res.Out = "ok"
	}
}

// ---- parent side: run jobs in arena children, 16 at a time ----

func runArena(cfg *Config, jobs []Job, perJobTimeout time.Duration) []JobResult {
	results := make([]JobResult, len(jobs))
	for i := range results {
		results[i].ID = -1
	}
	idx := map[int]int{}
	for i, j := range jobs {
		idx[j.ID] = i
	}
	workers := runtime.NumCPU()
	if workers > 16 {
		workers = 16
	}
	if workers > len(jobs) {
		workers = len(jobs)
	}
	if workers < 1 {
		workers = 1
	}
	var wg sync.WaitGroup
	chunk := (len(jobs) + workers - 1) / workers
	var mu sync.Mutex
	for w := 0; w < workers; w++ {
		lo, hi := w*chunk, (w+1)*chunk
		if lo >= len(jobs) {
			break
		}
		if hi > len(jobs) {
			hi = len(jobs)
		}
		wg.Add(1)
		go func(w int, part []Job) {
			defer wg.Done()
			for len(part) > 0 {
				done := runArenaChild(cfg, w, part, perJobTimeout, func(r JobResult) {
					mu.Lock()
					results[idx[r.ID]] = r
					mu.Unlock()
				})
				part = part[done:]
			}
		}(w, jobs[lo:hi])
	}
	wg.Wait()
	return results
}

var arenaSeq int
var arenaSeqMu sync.Mutex

// runArenaChild runs as many of the jobs as the child survives; returns how many were consumed.
func runArenaChild(cfg *Config, w int, jobs []Job, perJob time.Duration, emit func(JobResult)) int {
	arenaSeqMu.Lock()
	arenaSeq++
	seq := arenaSeq
	arenaSeqMu.Unlock()
	base := cfg.Work
	if base == "" {
		base = filepath.Join("/verif/.work", fmt.Sprintf("h%d", os.Getpid()))
	}
	dir := filepath.Join(base, fmt.Sprintf("arena_%d_%d", os.Getpid(), seq))
	_ = os.MkdirAll(dir, 0o755)
	defer os.RemoveAll(dir)
	arena := filepath.Join(dir, "mnt")
	_ = os.Mkdir(arena, 0o755)
	jobsFile := filepath.Join(dir, "jobs")
	resFile := filepath.Join(dir, "results")
	jf, _ := os.Create(jobsFile)
	bw := bufio.NewWriter(jf)
	for _, j := range jobs {
		b, _ := json.Marshal(j)
		bw.Write(b)
		bw.WriteByte('\n')
	}
	bw.Flush()
	jf.Close()
	os.WriteFile(resFile, nil, 0o644)

	cmd := exec.Command("/proc/self/exe", "__child", arena, jobsFile, resFile)
	cmd.Stderr = os.Stderr
	cmd.SysProcAttr = &syscall.SysProcAttr{Unshareflags: syscall.CLONE_NEWNS, Setpgid: true, Pdeathsig: syscall.SIGKILL}
	cmd.Env = append(os.Environ(), "GOMAXPROCS=4")
	if err := cmd.Start(); err != nil {
		for _, j := range jobs {
			emit(JobResult{ID: j.ID, Out: "setup", Err: "start child: " + err.Error()})
		}
		return len(jobs)
	}
	exited := make(chan error, 1)
	go func() { exited <- cmd.Wait() }()

	rf, _ := os.Open(resFile)
	defer rf.Close()
	rd := bufio.NewReaderSize(rf, 1<<20)
	consumed := 0
	started := -1
	lastProgress := time.Now()
	var pending []byte
	childDone := false
	for consumed < len(jobs) {
		line, err := rd.ReadBytes('\n')
		pending = append(pending, line...)
		if err == nil {
			l := strings.TrimRight(string(pending), "\n")
			pending = nil
			lastProgress = time.Now()
			if strings.HasPrefix(l, "START ") {
				fmt.Sscanf(l, "START %d", &started)
				continue
			}
			var r JobResult
			if e := json.Unmarshal([]byte(l), &r); e == nil {
				emit(r)
				consumed++
				started = -1
			}
			continue
		}
		if err != io.EOF {
			break
		}
		if childDone {
			break
		}
		select {
		case <-exited:
			childDone = true
			continue
		case <-time.After(5 * time.Millisecond):
		}
		if time.Since(lastProgress) > perJob {
			// the job announced by START hangs
			syscall.Kill(-cmd.Process.Pid, syscall.SIGKILL)
			<-exited
			childDone = true
			if started >= 0 {
				emit(JobResult{ID: started, Out: "hang", Err: fmt.Sprintf("no result within %s", perJob)})
				consumed++
			}
			return maxInt(consumed, 1)
		}
	}
	if !childDone {
		syscall.Kill(-cmd.Process.Pid, syscall.SIGKILL)
		<-exited
	}
	if consumed < len(jobs) {
		// the child died: blame the job it had started
		id := jobs[consumed].ID
		if started >= 0 {
			id = started
		}
		emit(JobResult{ID: id, Out: "panic", Err: "arena child exited while running this job"})
		consumed++
	}
	return consumed
}

func maxInt(a, b int) int {
	if a > b {
		return a
	}
	return b
}

// plantTwins creates, for every directory and regular-file entry of the job's archive, an object at the path the
// jailed extractor will use for it, resolved against the arena's root instead of the jail's.  Returns the
// top-level directories it created.
func plantTwins(j *Job) []string {
	relDest, err := filepath.Rel(j.Root, j.Dest)
	if err != nil || strings.HasPrefix(relDest, "..") {
		return nil
	}
	tops := map[string]bool{}
	tr := tar.NewReader(bytes.NewReader(j.Archive))
	var made []string
	for n := 0; n < 400; n++ {
		h, err := tr.Next()
		if err != nil {
			break
		}
		if h.Typeflag != tar.TypeDir && h.Typeflag != tar.TypeReg {
			continue
		}
		p := filepath.Join("/", relDest, filepath.Join("/", h.Name))
		comps := strings.Split(strings.TrimPrefix(p, "/"), "/")
		if len(comps) == 0 || comps[0] == "" || arenaBaseline[comps[0]] || comps[0] == "old" {
			continue
		}
		if err := os.MkdirAll(filepath.Dir(p), 0o755); err != nil {
			continue
		}
		if h.Typeflag == tar.TypeDir {
			if err := os.MkdirAll(p, 0o755); err != nil {
				continue
			}
		} else if _, err := os.Lstat(p); err != nil {
			if err := os.WriteFile(p, []byte("TWIN-host-side"), 0o600); err != nil {
				continue
			}
		}
		tops["/"+comps[0]] = true
		made = append(made, p)
	}
	ts := []unix.Timespec{{Sec: 777}, {Sec: 777}}
	var out []string
	for t := range tops {
		out = append(out, t)
		_ = filepath.Walk(t, func(p string, _ os.FileInfo, err error) error {
			if err == nil {
				_ = unix.UtimesNanoAt(unix.AT_FDCWD, p, ts, unix.AT_SYMLINK_NOFOLLOW)
			}
			return nil
		})
		_ = unix.UtimesNanoAt(unix.AT_FDCWD, t, ts, 0)
	}
	sort.Strings(out)
	_ = made
	return out
}

func twinDiff(before string, after []Node) string {
	b, err := parseOutcome("x 0 " + before)
	if err != nil {
		return ""
	}
	old := map[string]string{}
	for _, n := range b.Nodes {
		old[unhx(n[0])] = strings.Join(n[1:], " ")
	}
	cnt := 0
	first := ""
	for _, n := range after {
		f := n.fields()
		if v, ok := old[n.Path]; !ok || v != strings.Join(f[1:], " ") {
			cnt++
			if first == "" {
				first = n.Path
			}
		}
	}
	if cnt == 0 {
		return ""
	}
	return fmt.Sprintf(" (%d object(s) differ, first %s)", cnt, first)
}
