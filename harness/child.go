package main

func childMain(args []string) {}
