package main

// Arena-side code of the "threads" stream (property C13). Two job kinds:
//
//   threads-fate  drives internal/unshare.Go through the verif hook and measures what happens to the
//                 OS thread the callbacks ran on (died / still there, namespace links restored).
//   threads-obs   runs N chrooted library calls on distinct roots, concurrently (with gates that hold
//                 them inside their jails at the same time) and one at a time, while M observer
//                 goroutines watch the process-wide root, cwd, canary, umask; then inspects every task.
//
// The child only MEASURES; every verdict is taken by the parent (s_threads.go).

import (
	"archive/tar"
	"bytes"
	"crypto/sha256"
	"encoding/hex"
	"encoding/json"
	"errors"
	"fmt"
	"io"
	"os"
	"runtime"
	"sort"
	"strconv"
	"strings"
	"sync"
	"sync/atomic"
	"time"

	"golang.org/x/sys/unix"

	"github.com/moby/go-archive/chrootarchive"
	"github.com/moby/go-archive/compression"
)

func init() {
	jobKinds["threads-fate"] = runThrFateJob
	jobKinds["threads-obs"] = runThrObsJob
}

var errThrInjected = errors.New("threads: injected failure")

// ---------------------------------------------------------------------------------------------
// task inspection through /proc
// ---------------------------------------------------------------------------------------------

// thrTaskStart returns the start time (clock ticks since boot) of a task of this process; a tid is
// only ever identified together with its start time, so a recycled tid is never mistaken for the
// thread that had it before.
func thrTaskStart(tid int) (uint64, bool) {
	b, err := os.ReadFile("/proc/self/task/" + strconv.Itoa(tid) + "/stat")
	if err != nil {
		return 0, false
	}
	s := string(b)
	i := strings.LastIndexByte(s, ')')
	if i < 0 {
		return 0, false
	}
	f := strings.Fields(s[i+1:])
	if len(f) < 20 || f[0] == "Z" || f[0] == "X" {
		return 0, false
	}
	v, err := strconv.ParseUint(f[19], 10, 64)
	return v, err == nil
}

func thrAlive(tid int, start uint64) bool {
	s, ok := thrTaskStart(tid)
	return ok && s == start
}

// thrView is everything about one task that the property says must stay common to all tasks.
type thrView struct {
	Ns    map[string]string // every entry of ns/ (mnt, uts, net, pid_for_children, ...)
	Root  [2]uint64         // dev, ino of the task's root directory
	Cwd   [2]uint64
	Umask string
}

func thrReadView(tid int) (thrView, error) {
	v := thrView{Ns: map[string]string{}}
	base := "/proc/self/task/" + strconv.Itoa(tid)
	ents, err := os.ReadDir(base + "/ns")
	if err != nil {
		return v, err
	}
	for _, e := range ents {
		l, err := os.Readlink(base + "/ns/" + e.Name())
		if err != nil {
			return v, err
		}
		v.Ns[e.Name()] = l
	}
	var st unix.Stat_t
	if err := unix.Stat(base+"/root", &st); err != nil {
		return v, err
	}
	v.Root = [2]uint64{uint64(st.Dev), st.Ino}
	if err := unix.Stat(base+"/cwd", &st); err != nil {
		return v, err
	}
	v.Cwd = [2]uint64{uint64(st.Dev), st.Ino}
	b, err := os.ReadFile(base + "/status")
	if err != nil {
		return v, err
	}
	v.Umask = thrUmaskLine(string(b))
	return v, nil
}

func thrUmaskLine(status string) string {
	for _, l := range strings.Split(status, "\n") {
		if strings.HasPrefix(l, "Umask:") {
			return strings.TrimSpace(strings.TrimPrefix(l, "Umask:"))
		}
	}
	return "?"
}

func (v thrView) diff(main thrView) string {
	var d []string
	var keys []string
	for k := range main.Ns {
		keys = append(keys, k)
	}
	sort.Strings(keys)
	for _, k := range keys {
		if got, ok := v.Ns[k]; ok && got != main.Ns[k] {
			d = append(d, fmt.Sprintf("ns/%s=%s (main %s)", k, got, main.Ns[k]))
		}
	}
	if v.Root != main.Root {
		d = append(d, fmt.Sprintf("root=%v (main %v)", v.Root, main.Root))
	}
	if v.Cwd != main.Cwd {
		d = append(d, fmt.Sprintf("cwd=%v (main %v)", v.Cwd, main.Cwd))
	}
	if v.Umask != main.Umask {
		d = append(d, fmt.Sprintf("umask=%s (main %s)", v.Umask, main.Umask))
	}
	return strings.Join(d, ", ")
}

func thrTids() []int {
	ents, err := os.ReadDir("/proc/self/task")
	if err != nil {
		return nil
	}
	var out []int
	for _, e := range ents {
		if t, err := strconv.Atoi(e.Name()); err == nil {
			out = append(out, t)
		}
	}
	return out
}

type thrIdent struct {
	Tid   int
	Start uint64
}

// thrDirtyTasks lists the tasks whose view differs from the startup thread's. A task that cannot be
// read (it is exiting) is skipped: a dead thread cannot leak anything.
func thrDirtyTasks(ignore map[thrIdent]bool) []string {
	pid := os.Getpid()
	main, err := thrReadView(pid)
	if err != nil {
		return []string{"cannot read the startup thread's view: " + err.Error()}
	}
	var out []string
	for _, t := range thrTids() {
		if t == pid {
			continue
		}
		st, ok := thrTaskStart(t)
		if !ok || ignore[thrIdent{t, st}] {
			continue
		}
		v, err := thrReadView(t)
		if err != nil {
			continue
		}
		if d := v.diff(main); d != "" {
			if thrAlive(t, st) {
				out = append(out, fmt.Sprintf("task %d/%d: %s", t, st, d))
			}
		}
	}
	return out
}

// thrPreexisting: tasks that already differ from the startup thread (or have a private fs_struct)
// when a job starts were left behind by an earlier job of this arena child, which has reported them;
// they are set aside so that every job only answers for its own threads.
func thrPreexisting() map[thrIdent]bool {
	ign := map[thrIdent]bool{}
	pid := os.Getpid()
	main, err := thrReadView(pid)
	if err != nil {
		return ign
	}
	for _, t := range thrTids() {
		if t == pid {
			continue
		}
		st, ok := thrTaskStart(t)
		if !ok {
			continue
		}
		if v, err := thrReadView(t); err == nil && v.diff(main) != "" {
			ign[thrIdent{t, st}] = true
		}
	}
	return ign
}

// thrSettleClean polls until no task differs from the startup thread, or the ceiling passes.
func thrSettleClean(ceil time.Duration, ignore map[thrIdent]bool) ([]string, time.Duration) {
	t0 := time.Now()
	for {
		d := thrDirtyTasks(ignore)
		if len(d) == 0 || time.Since(t0) > ceil {
			return d, time.Since(t0)
		}
		time.Sleep(300 * time.Microsecond)
	}
}

// thrForeignMnt counts the tasks that currently live in a mount namespace other than the startup
// thread's: the number of jails that exist at this very moment.
func thrForeignMnt() int {
	pid := strconv.Itoa(os.Getpid())
	mainMnt, err := os.Readlink("/proc/self/task/" + pid + "/ns/mnt")
	if err != nil {
		return 0
	}
	n := 0
	for _, t := range thrTids() {
		l, err := os.Readlink("/proc/self/task/" + strconv.Itoa(t) + "/ns/mnt")
		if err == nil && l != mainMnt {
			n++
		}
	}
	return n
}

// thrFsShareProbe changes the process's working directory and requires every task to follow: a task
// that does not has a private fs_struct (it called unshare(CLONE_FS) and was handed back).
func thrFsShareProbe(dir, back string, ceil time.Duration, ignore map[thrIdent]bool) string {
	if err := unix.Chdir(dir); err != nil {
		return "" // environment, not the library
	}
	defer unix.Chdir(back)
	var want unix.Stat_t
	if err := unix.Stat(dir, &want); err != nil {
		return ""
	}
	t0 := time.Now()
	for {
		var bad []string
		for _, t := range thrTids() {
			st, ok := thrTaskStart(t)
			if !ok || ignore[thrIdent{t, st}] {
				continue
			}
			var got unix.Stat_t
			if err := unix.Stat("/proc/self/task/"+strconv.Itoa(t)+"/cwd", &got); err != nil {
				continue
			}
			if (got.Dev != want.Dev || got.Ino != want.Ino) && thrAlive(t, st) {
				bad = append(bad, fmt.Sprintf("task %d/%d did not follow chdir(%s)", t, st, dir))
			}
		}
		if len(bad) == 0 {
			return ""
		}
		if time.Since(t0) > ceil {
			return strings.Join(bad, "; ")
		}
		time.Sleep(300 * time.Microsecond)
	}
}

// thrFdShareProbe opens a file and requires every task to see the new descriptor: a task that does
// not has a private descriptor table (it called unshare(CLONE_FILES) and was handed back).
func thrFdShareProbe(path string, ceil time.Duration, ignore map[thrIdent]bool) string {
	fd, err := unix.Open(path, unix.O_CREAT|unix.O_RDWR|unix.O_CLOEXEC, 0o600)
	if err != nil {
		return ""
	}
	defer unix.Close(fd)
	t0 := time.Now()
	for {
		var bad []string
		for _, t := range thrTids() {
			st, ok := thrTaskStart(t)
			if !ok || ignore[thrIdent{t, st}] {
				continue
			}
			dir := "/proc/self/task/" + strconv.Itoa(t) + "/fd"
			if _, err := os.Readlink(dir + "/" + strconv.Itoa(fd)); err != nil {
				// distinguish "no such descriptor there" from "task is going away"
				if _, derr := os.ReadDir(dir); derr == nil && thrAlive(t, st) {
					bad = append(bad, fmt.Sprintf("task %d/%d does not see descriptor %d opened by the startup thread", t, st, fd))
				}
			}
		}
		if len(bad) == 0 {
			return ""
		}
		if time.Since(t0) > ceil {
			return strings.Join(bad, "; ")
		}
		time.Sleep(300 * time.Microsecond)
	}
}

// thrMainPinned: the job function runs on the main goroutine; with the startup-thread lock of
// internal/unshare in place it can never leave the startup thread, whatever it blocks on.
func thrMainMoved() int {
	moved := 0
	pid := unix.Getpid()
	ch := make(chan int)
	for i := 0; i < 20; i++ {
		go func() { runtime.Gosched(); ch <- 1 }()
		<-ch
		runtime.Gosched()
		if unix.Gettid() != pid {
			moved++
		}
	}
	return moved
}

// ---------------------------------------------------------------------------------------------
// job threads-fate
// ---------------------------------------------------------------------------------------------

type thrFateCase struct {
	Flags    int    `json:"f"`
	Setup    string `json:"s"`  // nil | ok | fail
	Fn       string `json:"fn"` // nil | ok | sabotage (drops CAP_SYS_ADMIN on its own thread: the restoring setns must fail)
	WaitGone bool   `json:"w"`  // measurement hint: wait (generous ceiling) for the thread to disappear
}

type thrFateBatch struct {
	Procs    int           `json:"procs"`
	Spinners int           `json:"spin"`
	Group    int           `json:"group"` // cases launched at the same time (1 = one at a time)
	Cases    []thrFateCase `json:"cases"`
}

type thrFateObs struct {
	Err            bool   `json:"err"`
	ErrText        string `json:"errText,omitempty"`
	SetupCalls     int32  `json:"setupCalls"`
	FnCalls        int32  `json:"fnCalls"`
	Tid            int    `json:"tid"` // 0 = neither callback ran
	Start          uint64 `json:"start"`
	TidMismatch    bool   `json:"tidMismatch"`    // setupfn and fn ran on different threads
	OnStartup      bool   `json:"onStartup"`      // a callback ran on the startup thread
	InsideDiff     string `json:"insideDiff"`     // names of ns links that differed from the startup thread's inside the callbacks
	SabotageOK     bool   `json:"sabotageOK"`     // the capability drop took effect
	FnTimedOut     bool   `json:"fnTimedOut"`     // Go returned nil but fn did not finish within the ceiling
	Lingered       bool   `json:"lingered"`       // the goroutine count did not come back within the ceiling
	Gone           bool   `json:"gone"`           // the thread disappeared within the waiting window
	GoneMs         int64  `json:"goneMs"`         // how long that took
	LinkDiff       string `json:"linkDiff"`       // if still alive after the window: differences to the startup thread's view
	DiedBefore     int    `json:"diedBefore"`     // index of the first later group before which the thread was found dead (-1: alive to the end)
	Reused         bool   `json:"reused"`         // a spinner goroutine was later seen on this very thread
	ProbeOK        bool   `json:"probeOK"`        // a plain unshare(flags) on a throw-away thread succeeds here
	ProbeRestoreOK bool   `json:"probeRestoreOK"` // ... and setns back into the saved namespaces succeeds here
	Group          int    `json:"group"`
}

type thrFateOut struct {
	PreDirty  int          `json:"preDirty"`
	MainMoved int          `json:"mainMoved"`
	Obs       []thrFateObs `json:"obs"`
	Dirty     []string     `json:"dirty"`   // tasks differing from the startup thread at a quiescent point (with the group index)
	FsShare   []string     `json:"fsShare"` // tasks that did not follow a chdir
	FdShare   []string     `json:"fdShare"` // tasks that do not see a descriptor opened by the startup thread
	Threads   int          `json:"threads"`
}

// thrNsNames: which ns/ link belongs to which reversible flag (from the specification of the property).
var thrNsNames = []struct {
	flag int
	name string
}{{unix.CLONE_NEWCGROUP, "cgroup"}, {unix.CLONE_NEWNET, "net"}, {unix.CLONE_NEWUTS, "uts"}, {unix.CLONE_NEWPID, "pid"}, {unix.CLONE_NEWTIME, "time"}}

// thrProbeUnshare measures the environment on a throw-away thread: does unshare(flags) succeed
// here, and can the namespaces named by the reversible flags be re-entered with setns afterwards?
func thrProbeUnshare(flags int) (unshareOK, restoreOK bool) {
	type r struct{ u, s bool }
	ch := make(chan r)
	go func() {
		runtime.LockOSThread() // never unlocked: the throw-away thread dies with this goroutine
		var fds []int
		for _, n := range thrNsNames {
			if flags&n.flag != 0 {
				if fd, err := unix.Open("/proc/thread-self/ns/"+n.name, unix.O_RDONLY|unix.O_CLOEXEC, 0); err == nil {
					fds = append(fds, fd)
				}
			}
		}
		out := r{u: unix.Unshare(flags) == nil, s: true}
		for _, fd := range fds {
			if unix.Setns(fd, 0) != nil {
				out.s = false
			}
			unix.Close(fd)
		}
		ch <- out
	}()
	o := <-ch
	return o.u, o.s
}

func thrDropSysAdmin() bool {
	hdr := unix.CapUserHeader{Version: unix.LINUX_CAPABILITY_VERSION_3, Pid: 0}
	var data [2]unix.CapUserData
	if err := unix.Capget(&hdr, &data[0]); err != nil {
		return false
	}
	data[0].Effective &^= 1 << uint(unix.CAP_SYS_ADMIN)
	return unix.Capset(&hdr, &data[0]) == nil
}

func runThrFateJob(j *Job, res *JobResult) {
	var b thrFateBatch
	if len(j.Args) < 1 || json.Unmarshal([]byte(j.Args[0]), &b) != nil {
		res.Out, res.Err = "setup", "bad batch"
		return
	}
	if err := resetWorld(); err != nil {
		res.Out, res.Err = "setup", err.Error()
		return
	}
	_ = os.Mkdir("/w/probe", 0o755)
	out := thrFateOut{}
	out.MainMoved = thrMainMoved()
	old := runtime.GOMAXPROCS(b.Procs)
	defer runtime.GOMAXPROCS(old)
	pid := unix.Getpid()

	ignore := thrPreexisting()
	out.PreDirty = len(ignore)
	// environment probe, once per distinct flag set
	probe := map[int][2]bool{}
	for _, c := range b.Cases {
		if _, ok := probe[c.Flags]; !ok {
			u, s := thrProbeUnshare(c.Flags)
			probe[c.Flags] = [2]bool{u, s}
		}
	}
	if d, _ := thrSettleClean(20*time.Second, ignore); len(d) > 0 {
		res.Out, res.Err = "setup", "throw-away probe threads did not go away: "+strings.Join(d, "; ")
		return
	}

	// spinners: ordinary goroutines that keep the scheduler busy and note which threads they run on
	var stop int32
	var spinWG sync.WaitGroup
	var seenMu sync.Mutex
	seen := map[int]uint64{} // tid -> sequence number of the last sighting
	var seq uint64
	for i := 0; i < b.Spinners; i++ {
		spinWG.Add(1)
		go func(i int) {
			defer spinWG.Done()
			n := 0
			for atomic.LoadInt32(&stop) == 0 {
				n++
				t := unix.Gettid()
				seenMu.Lock()
				seen[t] = atomic.AddUint64(&seq, 1)
				seenMu.Unlock()
				if n%7 == i%7 {
					ts := unix.Timespec{Nsec: 30000}
					_ = unix.Nanosleep(&ts, nil)
				}
				runtime.Gosched()
			}
		}(i)
	}
	defer func() {
		atomic.StoreInt32(&stop, 1)
		spinWG.Wait()
	}()

	mainView, err := thrReadView(pid)
	if err != nil {
		res.Out, res.Err = "setup", "read main view: "+err.Error()
		return
	}
	out.Obs = make([]thrFateObs, len(b.Cases))
	ceil := 12 * time.Second
	fnCeil := int64(ceil)
	restoreCeil := ceil
	timeouts := 0
	group := b.Group
	if group < 1 {
		group = 1
	}
	type released struct {
		idx int
		id  thrIdent
		seq uint64
	}
	var watch []released
	fdReported := false

	for lo, g := 0, 0; lo < len(b.Cases); lo, g = lo+group, g+1 {
		hi := lo + group
		if hi > len(b.Cases) {
			hi = len(b.Cases)
		}
		// threads released earlier must still be there (unless a later case legitimately took them down)
		for _, w := range watch {
			if out.Obs[w.idx].DiedBefore < 0 && !thrAlive(w.id.Tid, w.id.Start) {
				out.Obs[w.idx].DiedBefore = g
			}
		}
		baseG := runtime.NumGoroutine()
		var mu sync.Mutex
		fnDone := make([]chan struct{}, hi-lo)
		var wg sync.WaitGroup
		for i := lo; i < hi; i++ {
			c := b.Cases[i]
			o := &out.Obs[i]
			o.DiedBefore = -1
			o.Group = g
			o.ProbeOK, o.ProbeRestoreOK = probe[c.Flags][0], probe[c.Flags][1]
			done := make(chan struct{})
			fnDone[i-lo] = done
			record := func() {
				tid := unix.Gettid()
				st, _ := thrTaskStart(tid)
				var diffs []string
				for name, want := range mainView.Ns {
					if l, err := os.Readlink("/proc/thread-self/ns/" + name); err == nil && l != want {
						diffs = append(diffs, name)
					}
				}
				sort.Strings(diffs)
				mu.Lock()
				if o.Tid != 0 && o.Tid != tid {
					o.TidMismatch = true
				}
				o.Tid, o.Start = tid, st
				if tid == pid {
					o.OnStartup = true
				}
				if s := strings.Join(diffs, ","); len(s) > len(o.InsideDiff) {
					o.InsideDiff = s
				}
				mu.Unlock()
			}
			var setupfn func() error
			switch c.Setup {
			case "ok":
				setupfn = func() error { atomic.AddInt32(&o.SetupCalls, 1); record(); return nil }
			case "fail":
				setupfn = func() error { atomic.AddInt32(&o.SetupCalls, 1); record(); return errThrInjected }
			}
			var fn func()
			switch c.Fn {
			case "ok":
				fn = func() {
					if atomic.AddInt32(&o.FnCalls, 1) == 1 {
						record()
						close(done)
					}
				}
			case "sabotage":
				fn = func() {
					if atomic.AddInt32(&o.FnCalls, 1) == 1 {
						record()
						ok := thrDropSysAdmin()
						mu.Lock()
						o.SabotageOK = ok
						mu.Unlock()
						close(done)
					}
				}
			}
			call := func() {
				err := chrootarchive.VerifUnshareGo(c.Flags, setupfn, fn)
				mu.Lock()
				o.Err = err != nil
				if err != nil {
					o.ErrText = truncate(err.Error(), 120)
				}
				mu.Unlock()
				if err == nil && fn != nil {
					select {
					case <-done:
					case <-time.After(time.Duration(atomic.LoadInt64(&fnCeil))):
						mu.Lock()
						o.FnTimedOut = true
						mu.Unlock()
						atomic.StoreInt64(&fnCeil, int64(400*time.Millisecond)) // on record; keep the job short
					}
				}
			}
			if hi-lo == 1 {
				call()
			} else {
				wg.Add(1)
				go func() { defer wg.Done(); call() }()
			}
		}
		wg.Wait()
		// the goroutines started by Go are over when the goroutine count is back
		t0 := time.Now()
		for runtime.NumGoroutine() > baseG {
			if time.Since(t0) > ceil {
				for i := lo; i < hi; i++ {
					out.Obs[i].Lingered = true
				}
				break
			}
			time.Sleep(100 * time.Microsecond)
		}
		mu.Lock()
		// fate of the threads
		for i := lo; i < hi; i++ {
			c := b.Cases[i]
			o := &out.Obs[i]
			if o.Tid == 0 || o.Tid == pid {
				continue
			}
			id := thrIdent{o.Tid, o.Start}
			t0 := time.Now()
			window := 25 * time.Millisecond             // observation window for a thread that is expected to stay
			mustWait := c.WaitGone || !o.ProbeRestoreOK // e.g. time namespaces cannot be re-entered by a multi-threaded process
			if mustWait {
				window = ceil
			}
			for {
				if !thrAlive(id.Tid, id.Start) {
					o.Gone = true
					break
				}
				if time.Since(t0) > window {
					break
				}
				time.Sleep(200 * time.Microsecond)
			}
			o.GoneMs = time.Since(t0).Milliseconds()
			if !o.Gone {
				if mustWait {
					timeouts++
					if timeouts >= 1 {
						ceil = 400 * time.Millisecond // the defect is on record; do not let the job run into its timeout
					}
					ignore[id] = true
				}
				// The restoring setns calls ran before the goroutine ended, so a thread that stays is
				// normally clean at once. In a concurrent group it may meanwhile have been taken by another
				// call of the group that must kill its thread and be on its way out (slow under load): wait
				// for it to be clean or gone, with the generous ceiling.
				t1 := time.Now()
				for {
					v, err := thrReadView(id.Tid)
					if err != nil || !thrAlive(id.Tid, id.Start) {
						if !thrAlive(id.Tid, id.Start) {
							o.Gone = true
						}
						o.LinkDiff = ""
						break
					}
					o.LinkDiff = v.diff(mainView)
					if o.LinkDiff == "" || time.Since(t1) > restoreCeil || mustWait {
						if o.LinkDiff != "" && !mustWait {
							restoreCeil = 100 * time.Millisecond // on record; keep the job short
						}
						break
					}
					time.Sleep(300 * time.Microsecond)
				}
				if o.Gone {
					continue
				}
				if !mustWait {
					watch = append(watch, released{i, id, atomic.LoadUint64(&seq)})
					if o.LinkDiff != "" {
						ignore[id] = true
					}
				}
			}
		}
		mu.Unlock()
		// quiescent point: nothing but clean tasks may be left
		if d, _ := thrSettleClean(ceil, ignore); len(d) > 0 {
			for _, s := range d {
				out.Dirty = append(out.Dirty, fmt.Sprintf("after group %d: %s", g, s))
			}
			for _, t := range thrTids() {
				if st, ok := thrTaskStart(t); ok {
					if v, err := thrReadView(t); err == nil && v.diff(mainView) != "" {
						ignore[thrIdent{t, st}] = true
					}
				}
			}
		}
		if s := thrFdShareProbe("/w/probe/fd", ceil, ignore); s != "" && !fdReported {
			fdReported = true // the same thread would be reported after every group
			out.FdShare = append(out.FdShare, fmt.Sprintf("after group %d: %s", g, s))
		}
		if fdReported {
			ceil = 400 * time.Millisecond
		}
		if s := thrFsShareProbe("/w/probe", "/", ceil, ignore); s != "" {
			out.FsShare = append(out.FsShare, fmt.Sprintf("after group %d: %s", g, s))
			// do not repeat the same finding after every group
			for _, t := range thrTids() {
				if st, ok := thrTaskStart(t); ok {
					var a, m unix.Stat_t
					if unix.Stat("/proc/self/task/"+strconv.Itoa(t)+"/cwd", &a) == nil && unix.Stat("/", &m) == nil && a.Ino != m.Ino {
						ignore[thrIdent{t, st}] = true
					}
				}
			}
		}
	}
	ngroups := (len(b.Cases) + group - 1) / group
	for _, w := range watch {
		o := &out.Obs[w.idx]
		if o.DiedBefore < 0 && !thrAlive(w.id.Tid, w.id.Start) {
			o.DiedBefore = ngroups
		}
		seenMu.Lock()
		if s, ok := seen[w.id.Tid]; ok && s > w.seq && thrAlive(w.id.Tid, w.id.Start) {
			o.Reused = true
		}
		seenMu.Unlock()
	}
	out.Threads = len(thrTids())
	bb, _ := json.Marshal(out)
	res.Extra = string(bb)
	res.Out = "ok"
}

// ---------------------------------------------------------------------------------------------
// job threads-obs
// ---------------------------------------------------------------------------------------------

type thrCall struct {
	Op       string   `json:"op"`   // tar | untar | untar-unc | untar-root | layer | layer-unc
	Root     string   `json:"root"` // /w/r<i>
	RootKind string   `json:"rk"`   // dir | missing | file
	Dest     string   `json:"dest"` // extraction destination / tar source
	Nodes    []Node   `json:"nodes"`
	Archive  []byte   `json:"ar"`
	Opts     string   `json:"opts"`
	TarGzip  bool     `json:"tgz"`   // tar: compress the produced stream
	Include  []string `json:"inc"`   // tar: IncludeFiles
	Chunk    int      `json:"chunk"` // reader hands out at most this many bytes per Read
	Gate     int      `json:"gate"`  // byte offset at which the call is held (-1: never)
	FailAt   int      `json:"fail"`  // byte offset at which the reader returns an error (-1: never)
	Note     string   `json:"note"`  // generator's label of the case (distribution only)
}

type thrScenario struct {
	Procs     int       `json:"procs"`
	Observers int       `json:"obs"`
	Blockers  int       `json:"blk"`
	ConcFirst bool      `json:"concFirst"`
	NoPigz    bool      `json:"noPigz"`
	Calls     []thrCall `json:"calls"`
}

type thrCallRes struct {
	Returned bool   `json:"returned"`
	Err      bool   `json:"err"`
	ErrText  string `json:"errText,omitempty"`
	Size     int64  `json:"size"`
	Tar      string `json:"tar"`  // length:sha256 of the produced stream
	Tree     string `json:"tree"` // renderTree of the root's content, volatile mtimes masked
	RootStat string `json:"rootStat"`
	Arrived  bool   `json:"arrived"` // reached its gate
}

type thrPhaseRes struct {
	Calls        []thrCallRes `json:"calls"`
	Deviations   []string     `json:"deviations"`
	Observations int64        `json:"observations"`
	DuringHold   int64        `json:"duringHold"`
	AfterQuiet   int64        `json:"afterQuiet"`
	ObsTids      int          `json:"obsTids"`
	Gated        int          `json:"gated"`
	Arrived      int          `json:"arrived"`
	Overlap      int          `json:"overlap"` // most tasks seen in a foreign mount namespace at one moment
	Dirty        []string     `json:"dirty"`
	FsShare      string       `json:"fsShare"`
	QuietMs      int64        `json:"quietMs"`
	Hung         int          `json:"hung"`
	Stray        string       `json:"stray"`
}

type thrObsOut struct {
	PreDirty   int         `json:"preDirty"`
	MainMoved  int         `json:"mainMoved"`
	Conc       thrPhaseRes `json:"conc"`
	Seq        thrPhaseRes `json:"seq"`
	MountLeak  string      `json:"mountLeak,omitempty"`
	MountProbe string      `json:"mountProbe,omitempty"` // ran | skipped:<why>
}

type thrGate struct {
	release chan struct{}
	arrived []int32
}

type thrReader struct {
	data   []byte
	off    int
	chunk  int
	gateAt int
	failAt int
	passed bool
	id     int
	g      *thrGate
}

func (r *thrReader) Read(p []byte) (int, error) {
	if r.gateAt >= 0 && !r.passed && r.off >= r.gateAt {
		r.passed = true
		atomic.StoreInt32(&r.g.arrived[r.id], 1)
		<-r.g.release // the coordinator always closes this (ceilings on every wait of its own)
	}
	if r.failAt >= 0 && r.off >= r.failAt {
		return 0, errThrInjected
	}
	if r.off >= len(r.data) {
		return 0, io.EOF
	}
	n := len(p)
	if r.chunk > 0 && n > r.chunk {
		n = r.chunk
	}
	if n > len(r.data)-r.off {
		n = len(r.data) - r.off
	}
	if r.failAt >= 0 && r.off+n > r.failAt {
		n = r.failAt - r.off
	}
	copy(p, r.data[r.off:r.off+n])
	r.off += n
	return n, nil
}

type thrSample struct {
	RootDev, RootIno uint64
	Wd               string
	SysWd            string
	DotDev, DotIno   uint64
	Canary           string
	FMode, DMode     uint32
	Umask            string
}

func thrObserve(scratch string) (s thrSample, errs string) {
	var e []string
	var st unix.Stat_t
	if err := unix.Stat("/", &st); err != nil {
		e = append(e, "stat /: "+err.Error())
	}
	s.RootDev, s.RootIno = uint64(st.Dev), st.Ino
	wd, err := os.Getwd()
	if err != nil {
		e = append(e, "getwd: "+err.Error())
	}
	s.Wd = wd
	buf := make([]byte, 4096)
	if n, err := unix.Getcwd(buf); err != nil {
		e = append(e, "getcwd: "+err.Error())
	} else {
		s.SysWd = strings.TrimRight(string(buf[:n]), "\x00")
	}
	if err := unix.Stat(".", &st); err != nil {
		e = append(e, "stat .: "+err.Error())
	}
	s.DotDev, s.DotIno = uint64(st.Dev), st.Ino
	b, err := os.ReadFile("/w/canary")
	if err != nil {
		e = append(e, "canary: "+err.Error())
	}
	s.Canary = string(b)
	f := scratch + "/f"
	fd, err := unix.Open(f, unix.O_CREAT|unix.O_EXCL|unix.O_WRONLY|unix.O_CLOEXEC, 0o777)
	if err != nil {
		e = append(e, "create probe file: "+err.Error())
	} else {
		if err := unix.Fstat(fd, &st); err == nil {
			s.FMode = st.Mode & 0o7777
		}
		unix.Close(fd)
		unix.Unlink(f)
	}
	d := scratch + "/d"
	if err := unix.Mkdir(d, 0o777); err != nil {
		e = append(e, "create probe dir: "+err.Error())
	} else {
		if err := unix.Lstat(d, &st); err == nil {
			s.DMode = st.Mode & 0o7777
		}
		unix.Rmdir(d)
	}
	// "thread-self" is resolved when the file is opened but its content is produced when it is read:
	// the goroutine has to stay on one thread in between, or it would report the umask of a thread it
	// has left (which may since have become a jail's thread, legitimately). Everything else here is a
	// single system call on whatever thread the goroutine happens to be on.
	runtime.LockOSThread()
	sb, err := os.ReadFile("/proc/thread-self/status")
	runtime.UnlockOSThread()
	if err != nil {
		e = append(e, "thread-self status: "+err.Error())
	}
	s.Umask = thrUmaskLine(string(sb))
	return s, strings.Join(e, "; ")
}

func (s thrSample) String() string {
	return fmt.Sprintf("root=%d:%d wd=%q syswd=%q dot=%d:%d canary=%q fmode=%o dmode=%o umask=%s",
		s.RootDev, s.RootIno, s.Wd, s.SysWd, s.DotDev, s.DotIno, s.Canary, s.FMode, s.DMode, s.Umask)
}

const thrHome = "/w/.home"
const thrCanary = "canary-7f3a"

func thrBuildInputs(sc *thrScenario) error {
	if err := resetWorld(); err != nil {
		return err
	}
	for _, c := range sc.Calls {
		if err := buildWorld(c.Nodes); err != nil {
			return err
		}
	}
	for _, d := range []string{thrHome, "/w/.home2", "/w/.obs"} {
		if err := os.MkdirAll(d, 0o755); err != nil {
			return err
		}
	}
	for i := 0; i < sc.Observers+1; i++ {
		if err := os.MkdirAll("/w/.obs/"+strconv.Itoa(i), 0o755); err != nil {
			return err
		}
	}
	return os.WriteFile("/w/canary", []byte(thrCanary), 0o644)
}

func thrRootStat(p string) string {
	var st unix.Stat_t
	if err := unix.Lstat(p, &st); err != nil {
		return "absent"
	}
	s := fmt.Sprintf("%o %d:%d", st.Mode&^0, st.Uid, st.Gid)
	if st.Mode&unix.S_IFMT == unix.S_IFREG {
		b, _ := os.ReadFile(p)
		s += " " + hx(string(b))
	}
	return s
}

func thrRunCall(c *thrCall, id int, g *thrGate, cr *thrCallRes) {
	opts := tarOptions(parseOptSpec(c.Opts))
	rd := &thrReader{data: c.Archive, chunk: c.Chunk, gateAt: c.Gate, failAt: c.FailAt, id: id, g: g}
	var err error
	switch c.Op {
	case "untar":
		err = chrootarchive.Untar(rd, c.Dest, opts)
	case "untar-unc":
		err = chrootarchive.UntarUncompressed(rd, c.Dest, opts)
	case "untar-root":
		err = chrootarchive.UntarWithRoot(rd, c.Dest, opts, c.Root)
	case "layer":
		cr.Size, err = chrootarchive.ApplyLayer(c.Dest, rd)
	case "layer-unc":
		cr.Size, err = chrootarchive.ApplyUncompressedLayer(c.Dest, rd, opts)
	case "tar":
		if c.TarGzip {
			opts.Compression = compression.Gzip
		}
		if len(c.Include) > 0 {
			opts.IncludeFiles = append([]string{}, c.Include...)
		}
		var rc io.ReadCloser
		rc, err = chrootarchive.Tar(c.Dest, opts, c.Root)
		if err == nil {
			var buf bytes.Buffer
			if c.Gate >= 0 {
				_, _ = io.CopyN(&buf, rc, int64(c.Gate))
				atomic.StoreInt32(&g.arrived[id], 1)
				<-g.release
			}
			_, err = io.Copy(&buf, rc)
			rc.Close()
			h := sha256.Sum256(buf.Bytes())
			cr.Tar = fmt.Sprintf("%d:%s", buf.Len(), hex.EncodeToString(h[:8]))
		}
	default:
		err = fmt.Errorf("bad op %q", c.Op)
	}
	if err != nil {
		cr.Err = true
		cr.ErrText = truncate(err.Error(), 160)
	}
}

func thrRunPhase(sc *thrScenario, concurrent bool, jobStart int64, ignore map[thrIdent]bool) (pr thrPhaseRes, setupErr string) {
	if err := thrBuildInputs(sc); err != nil {
		return pr, "build inputs: " + err.Error()
	}
	if err := unix.Chdir(thrHome); err != nil {
		return pr, err.Error()
	}
	defer unix.Chdir("/")
	unix.Umask(0o027)
	defer unix.Umask(0o022)
	n := len(sc.Calls)
	pr.Calls = make([]thrCallRes, n)

	base, e := thrObserve("/w/.obs/" + strconv.Itoa(sc.Observers))
	if e != "" || base.FMode != 0o750 || base.DMode != 0o750 || base.Umask != "0027" || base.Canary != thrCanary {
		return pr, "baseline observation is not what the job set up: " + base.String() + " " + e
	}

	// observers and blockers: ordinary goroutines
	var stop int32
	var wg sync.WaitGroup
	counts := make([]int64, sc.Observers)
	var devMu sync.Mutex
	tids := map[int]bool{}
	var phaseTag atomic.Value
	phaseTag.Store("before")
	for i := 0; i < sc.Observers; i++ {
		wg.Add(1)
		go func(i int) {
			defer wg.Done()
			scratch := "/w/.obs/" + strconv.Itoa(i)
			mine := map[int]bool{}
			for k := 0; atomic.LoadInt32(&stop) == 0; k++ {
				tid := unix.Gettid()
				mine[tid] = true
				s, errs := thrObserve(scratch)
				if errs != "" || s != base {
					devMu.Lock()
					if len(pr.Deviations) < 12 {
						pr.Deviations = append(pr.Deviations, fmt.Sprintf("observer %d on task %d (%s): saw %s %s; baseline %s",
							i, tid, phaseTag.Load(), s.String(), errs, base.String()))
					}
					devMu.Unlock()
				}
				atomic.AddInt64(&counts[i], 1)
				if k%5 == i%5 {
					ts := unix.Timespec{Nsec: 20000}
					_ = unix.Nanosleep(&ts, nil) // blocks the thread: the goroutine usually continues on another one
				}
				runtime.Gosched()
			}
			devMu.Lock()
			for t := range mine {
				tids[t] = true
			}
			devMu.Unlock()
		}(i)
	}
	for i := 0; i < sc.Blockers; i++ {
		wg.Add(1)
		go func() {
			defer wg.Done()
			for atomic.LoadInt32(&stop) == 0 {
				ts := unix.Timespec{Nsec: 150000}
				_ = unix.Nanosleep(&ts, nil)
			}
		}()
	}
	total := func() int64 {
		var t int64
		for i := range counts {
			t += atomic.LoadInt64(&counts[i])
		}
		return t
	}
	// every observer makes `more` further observations (ceiling)
	advance := func(more int64, ceil time.Duration) {
		start := make([]int64, len(counts))
		for i := range counts {
			start[i] = atomic.LoadInt64(&counts[i])
		}
		t0 := time.Now()
		for time.Since(t0) < ceil {
			ok := true
			for i := range counts {
				if atomic.LoadInt64(&counts[i])-start[i] < more {
					ok = false
				}
			}
			if ok {
				return
			}
			time.Sleep(200 * time.Microsecond)
		}
	}
	advance(3, 10*time.Second)

	g := &thrGate{release: make(chan struct{}), arrived: make([]int32, n)}
	returned := make([]int32, n)
	launch := func(i int) {
		thrRunCall(&sc.Calls[i], i, g, &pr.Calls[i])
		atomic.StoreInt32(&returned[i], 1)
	}
	waitReturned := func(idx []int, ceil time.Duration) {
		t0 := time.Now()
		for {
			pending := 0
			for _, i := range idx {
				if atomic.LoadInt32(&returned[i]) == 0 {
					pending++
				}
			}
			if pending == 0 || time.Since(t0) > ceil {
				return
			}
			time.Sleep(200 * time.Microsecond)
		}
	}
	all := make([]int, n)
	for i := range all {
		all[i] = i
		if sc.Calls[i].Gate >= 0 {
			pr.Gated++
		}
	}
	if concurrent {
		phaseTag.Store("calls running")
		for i := 0; i < n; i++ {
			go launch(i)
		}
		// hold: until every gated call is at its gate or has returned without reaching it
		t0 := time.Now()
		for {
			pending := 0
			for i := 0; i < n; i++ {
				if sc.Calls[i].Gate >= 0 && atomic.LoadInt32(&g.arrived[i]) == 0 && atomic.LoadInt32(&returned[i]) == 0 {
					pending++
				}
			}
			if pending == 0 || time.Since(t0) > 20*time.Second {
				break
			}
			time.Sleep(200 * time.Microsecond)
		}
		// how many jails exist right now?
		t0 = time.Now()
		for {
			want := 0
			for i := 0; i < n; i++ {
				if atomic.LoadInt32(&g.arrived[i]) == 1 && atomic.LoadInt32(&returned[i]) == 0 && sc.Calls[i].RootKind == "dir" {
					want++
				}
			}
			if f := thrForeignMnt(); f > pr.Overlap {
				pr.Overlap = f
			}
			if pr.Overlap >= want || time.Since(t0) > 2*time.Second {
				break
			}
			time.Sleep(200 * time.Microsecond)
		}
		phaseTag.Store("calls held inside their jails")
		before := total()
		advance(4, 10*time.Second)
		pr.DuringHold = total() - before
		phaseTag.Store("calls running")
		close(g.release)
		waitReturned(all, 40*time.Second)
	} else {
		close(g.release)
		phaseTag.Store("calls running one at a time")
		for i := 0; i < n; i++ {
			go launch(i)
			waitReturned([]int{i}, 40*time.Second)
			if atomic.LoadInt32(&returned[i]) == 0 {
				break // on record as hung; the remaining calls are not started
			}
		}
	}
	for i := 0; i < n; i++ {
		if atomic.LoadInt32(&returned[i]) == 1 {
			pr.Calls[i].Returned = true
		} else {
			pr.Hung++
		}
		if atomic.LoadInt32(&g.arrived[i]) == 1 {
			pr.Calls[i].Arrived = true
			pr.Arrived++
		}
	}
	// quiescence: every jailed thread has to go away; observers keep looking meanwhile and afterwards
	phaseTag.Store("after the calls")
	ceil := 10 * time.Second
	if pr.Hung > 0 {
		ceil = time.Second
	}
	dirty, took := thrSettleClean(ceil, ignore)
	pr.Dirty, pr.QuietMs = dirty, took.Milliseconds()
	before := total()
	advance(4, 10*time.Second)
	pr.AfterQuiet = total() - before
	atomic.StoreInt32(&stop, 1)
	wg.Wait()
	pr.Observations = total()
	pr.ObsTids = len(tids)
	if pr.Hung == 0 {
		fsCeil := 5 * time.Second
		if len(dirty) > 0 {
			fsCeil = 300 * time.Millisecond
		}
		pr.FsShare = thrFsShareProbe("/w/.home2", thrHome, fsCeil, ignore)
	}
	pr.Stray = strayRootEntries()
	if pr.Hung > 0 {
		return pr, "" // a call that never returned still owns its results
	}
	for i := range sc.Calls {
		c := &sc.Calls[i]
		pr.Calls[i].RootStat = thrRootStat(c.Root)
		if nodes, err := scanWorld(c.Root); err == nil {
			for k := range nodes {
				if nodes[k].Mtime >= jobStart-5 {
					nodes[k].MtimeX = true // set by the clock, not by the inputs
				}
			}
			pr.Calls[i].Tree = renderTree(nodes)
		} else {
			pr.Calls[i].Tree = "unscannable"
		}
	}
	return pr, ""
}

func runThrObsJob(j *Job, res *JobResult) {
	var sc thrScenario
	if len(j.Args) < 1 || json.Unmarshal([]byte(j.Args[0]), &sc) != nil {
		res.Out, res.Err = "setup", "bad scenario"
		return
	}
	jobStart := time.Now().Unix()
	out := thrObsOut{MainMoved: thrMainMoved()}
	old := runtime.GOMAXPROCS(sc.Procs)
	defer runtime.GOMAXPROCS(old)
	os.Unsetenv("PWD")
	if sc.NoPigz {
		os.Setenv("MOBY_DISABLE_PIGZ", "1")
	} else {
		os.Unsetenv("MOBY_DISABLE_PIGZ")
	}
	order := []bool{true, false}
	if !sc.ConcFirst {
		order = []bool{false, true}
	}
	ignore := thrPreexisting()
	out.PreDirty = len(ignore)
	for _, conc := range order {
		pr, serr := thrRunPhase(&sc, conc, jobStart, ignore)
		if serr != "" {
			res.Out, res.Err = "setup", serr
			return
		}
		if conc {
			out.Conc = pr
		} else {
			out.Seq = pr
		}
		if pr.Hung > 0 || len(pr.Dirty) > 0 || pr.FsShare != "" {
			break // goroutines or tainted threads of this phase are still around; nothing after it can be trusted
		}
	}
	if out.Conc.Hung+out.Seq.Hung+len(out.Conc.Dirty)+len(out.Seq.Dirty) == 0 && out.Conc.FsShare == "" && out.Seq.FsShare == "" {
		out.MountProbe, out.MountLeak = thrMountProbe()
	} else {
		out.MountProbe = "skipped:earlier phase left goroutines or tainted threads"
	}
	_ = resetWorld()
	b, _ := json.Marshal(out)
	res.Extra = string(b)
	res.Out = "ok"
}

func thrMountLines() ([]string, error) {
	b, err := os.ReadFile("/proc/self/mountinfo")
	if err != nil {
		return nil, err
	}
	var out []string
	for _, l := range strings.Split(strings.TrimSpace(string(b)), "\n") {
		f := strings.Fields(l)
		if len(f) >= 5 {
			out = append(out, f[3]+" on "+f[4])
		}
	}
	sort.Strings(out)
	return out, nil
}

// thrMountProbe: the mount table the rest of the process sees.  The root of a chrooted call is placed on a
// SHARED mount (as a separate volume under systemd is): whatever the jailed thread mounts while setting up its
// root must not propagate back.  Returns (status, what leaked).
func thrMountProbe() (string, string) {
	const top = "/w/.shared"
	_ = os.MkdirAll(top, 0o755)
	if err := unix.Mount("tmpfs", top, "tmpfs", 0, "size=4m,mode=0755"); err != nil {
		return "skipped:mount tmpfs: " + err.Error(), ""
	}
	defer func() {
		for i := 0; i < 8; i++ {
			if unix.Unmount(top, unix.MNT_DETACH) != nil {
				break
			}
		}
	}()
	if err := unix.Mount("", top, "", unix.MS_SHARED, ""); err != nil {
		return "skipped:make-shared: " + err.Error(), ""
	}
	root := top + "/root"
	if err := os.MkdirAll(root+"/src", 0o755); err != nil {
		return "skipped:" + err.Error(), ""
	}
	_ = os.WriteFile(root+"/src/f", []byte("x"), 0o644)
	before, err := thrMountLines()
	if err != nil {
		return "skipped:" + err.Error(), ""
	}
	var buf bytes.Buffer
	tw := tar.NewWriter(&buf)
	_ = tw.WriteHeader(&tar.Header{Name: "d/", Typeflag: tar.TypeDir, Mode: 0o755})
	_ = tw.WriteHeader(&tar.Header{Name: "d/f", Typeflag: tar.TypeReg, Mode: 0o644, Size: 1})
	_, _ = tw.Write([]byte("y"))
	_ = tw.Close()
	var errs []string
	if err := chrootarchive.UntarUncompressed(bytes.NewReader(buf.Bytes()), root, nil); err != nil {
		errs = append(errs, "untar: "+err.Error())
	}
	if _, err := chrootarchive.ApplyUncompressedLayer(root, bytes.NewReader(buf.Bytes()), nil); err != nil {
		errs = append(errs, "layer: "+err.Error())
	}
	if rc, err := chrootarchive.Tar(root+"/src", nil, root); err != nil {
		errs = append(errs, "tar: "+err.Error())
	} else {
		_, _ = io.Copy(io.Discard, rc)
		rc.Close()
	}
	// a thread that is about to die may still hold its namespace for a moment; that does not show here: only
	// the startup thread's namespace is read
	after, err := thrMountLines()
	if err != nil {
		return "skipped:" + err.Error(), ""
	}
	if len(errs) > 0 {
		return "skipped:calls failed: " + strings.Join(errs, "; "), ""
	}
	cnt := map[string]int{}
	for _, l := range before {
		cnt[l]--
	}
	for _, l := range after {
		cnt[l]++
	}
	var leak []string
	for l, n := range cnt {
		if n != 0 {
			leak = append(leak, fmt.Sprintf("%+d %s", n, l))
		}
	}
	sort.Strings(leak)
	return "ran", strings.Join(leak, "; ")
}
